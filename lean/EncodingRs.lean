import EncodingRs.Thm.C13
