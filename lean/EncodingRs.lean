import EncodingRs.Thm.C02
import EncodingRs.Thm.C06
import EncodingRs.Thm.C08
import EncodingRs.Thm.C09
import EncodingRs.Thm.C13
import EncodingRs.Thm.C18
import EncodingRs.Thm.C19
