import EncodingRs.Gen.TablesBig5
import EncodingRs.Gen.TablesJis
import EncodingRs.Gen.TablesKorean
import EncodingRs.Gen.TablesGb
import EncodingRs.Gen.TablesMisc
/-!
Hand models of the lookup functions of `data.rs` over the regenerated tables
(decode side here; encode side in `DataEnc.lean`).  Arithmetic is modelled as
written: `wsub8`/`wsubU` are `u8`/`usize` `wrapping_sub`.  Array reads use
`getD … 0`; every read in the Rust is guarded by the length test modelled next
to it (or is a constant-size table indexed by a range-checked value).
-/
namespace EncodingRs.Model

/-- `u8::wrapping_sub` -/
def wsub8 (a b : Nat) : Nat := (a + 256 - b % 256) % 256
/-- `u16::wrapping_sub` -/
def wsub16 (a b : Nat) : Nat := (a + 65536 - b % 65536) % 65536
/-- `usize::wrapping_sub` (64-bit) -/
def wsubU (a b : Nat) : Nat := (a + 18446744073709551616 - b % 18446744073709551616) % 18446744073709551616

def mul94 (lead : Nat) : Nat := lead * 94

/-- `slice::binary_search`: `Ok(i)` / `Err(insertion point)` on a sorted array;
modelled as the number of entries `< needle` (and whether the entry there equals
the needle). Linear scan; the arrays are short or the driver uses it rarely. -/
def lowerBound (hay : Array Nat) (needle : Nat) : Nat :=
  let rec go (lo hi fuel : Nat) : Nat :=
    match fuel with
    | 0 => lo
    | fuel + 1 =>
      if lo < hi then
        let mid := (lo + hi) / 2
        if hay.getD mid 0 < needle then go (mid + 1) hi fuel else go lo mid fuel
      else lo
  go 0 hay.size (hay.size + 1)

/-- `map_with_ranges` -/
def mapWithRanges (hay other : Array Nat) (needle : Nat) : Nat :=
  let i := lowerBound hay needle
  if i < hay.size ∧ hay.getD i 0 = needle then other.getD i 0
  else other.getD (i - 1) 0 + (needle - hay.getD (i - 1) 0)

/-- `map_with_unsorted_ranges` -/
def mapWithUnsortedRanges (hay other : Array Nat) (needle : Nat) : Option Nat :=
  let rec go (i fuel : Nat) : Option Nat :=
    match fuel with
    | 0 => none
    | fuel + 1 =>
      if i < hay.size then
        let start := other.getD i 0
        let len := other.getD (i + 1) 0 - start
        let offset := wsub16 needle (hay.getD i 0)
        if offset < len then some (start + offset) else go (i + 1) fuel
      else none
  go 0 (hay.size + 1)

/-- `position` -/
def position (hay : Array Nat) (needle : Nat) : Option Nat :=
  let i := hay.toList.findIdx (· == needle)
  if i < hay.size then some i else none

/-- generic triple walk used by `jis0208_symbol_decode`, `jis0208_range_decode`,
`jis0212_accented_decode`: first triple `(start, length, offset)` with
`pointer - start < length` -/
def findTriple (triples : Array Nat) (pointer : Nat) : Option (Nat × Nat) :=
  let rec go (i fuel : Nat) : Option (Nat × Nat) :=
    match fuel with
    | 0 => none
    | fuel + 1 =>
      if i < triples.size then
        let pms := wsubU pointer (triples.getD i 0)
        if pms < triples.getD (i + 1) 0 then some (pms, triples.getD (i + 2) 0) else go (i + 3) fuel
      else none
  go 0 (triples.size + 1)

def jis0208SymbolDecode (pointer : Nat) : Option Nat :=
  (findTriple Gen.jis0208SymbolTriples pointer).map fun (pms, off) => Gen.jis0208Symbols.getD (pms + off) 0

def jis0208RangeDecode (pointer : Nat) : Option Nat :=
  (findTriple Gen.jis0208RangeTriples pointer).map fun (pms, off) => (pms + off) % 65536

def jis0212AccentedDecode (pointer : Nat) : Option Nat :=
  match findTriple Gen.jis0212AccentedTriples pointer with
  | some (pms, off) =>
    let c := Gen.jis0212Accented.getD (pms + off) 0
    if c = 0 then none else some c
  | none => none

def big5IsAstral (rebased : Nat) : Bool :=
  (Gen.big5Astralness.getD (rebased / 32) 0) / (2 ^ (rebased % 32)) % 2 == 1

def big5LowBits (rebased : Nat) : Nat :=
  if rebased < Gen.big5LowBits.size then Gen.big5LowBits.getD rebased 0 else 0

def gb18030RangeDecode (pointer : Nat) : Nat := mapWithRanges Gen.gb18030RangePointers Gen.gb18030RangeOffsets pointer
def gbkTopIdeographDecode (pointer : Nat) : Nat := mapWithRanges Gen.gbkTopIdeographPointers Gen.gbkTopIdeographOffsets pointer
def gbkLeftIdeographDecode (pointer : Nat) : Nat := mapWithRanges Gen.gbkLeftIdeographPointers Gen.gbkLeftIdeographOffsets pointer
def cp949TopHangulDecode (pointer : Nat) : Nat := mapWithRanges Gen.cp949TopHangulPointers Gen.cp949TopHangulOffsets pointer
def cp949LeftHangulDecode (pointer : Nat) : Nat := mapWithRanges Gen.cp949LeftHangulPointers Gen.cp949LeftHangulOffsets pointer
def gbkOtherDecode (pointer : Nat) : Nat :=
  mapWithRanges (Gen.gbkOtherPointers.extract 0 (Gen.gbkOtherPointers.size - 1)) Gen.gbkOtherUnsortedOffsets pointer
def gb2312OtherDecode (pointer : Nat) : Nat :=
  mapWithRanges (Gen.gb2312OtherPointers.extract 0 (Gen.gb2312OtherPointers.size - 1)) Gen.gb2312OtherUnsortedOffsets pointer
def ksx1001OtherDecode (pointer : Nat) : Nat :=
  mapWithRanges (Gen.ksx1001OtherPointers.extract 0 (Gen.ksx1001OtherPointers.size - 1)) Gen.ksx1001OtherUnsortedOffsets pointer

/-- the JIS X 0208 pointer lookup shared by EUC-JP and ISO-2022-JP (after the
Hiragana/Katakana fast tracks); `none` = unmapped -/
def jis0208Decode (pointer : Nat) : Option Nat :=
  let l1 := wsubU pointer 1410
  if l1 < Gen.jis0208Level1Kanji.size then some (Gen.jis0208Level1Kanji.getD l1 0) else
  let l2 := wsubU pointer 4418
  if l2 < Gen.jis0208Level2AndAdditionalKanji.size then some (Gen.jis0208Level2AndAdditionalKanji.getD l2 0) else
  let ibm := wsubU pointer 8272
  if ibm < Gen.ibmKanji.size then some (Gen.ibmKanji.getD ibm 0) else
  match jis0208SymbolDecode pointer with
  | some c => some c
  | none => jis0208RangeDecode pointer

end EncodingRs.Model
