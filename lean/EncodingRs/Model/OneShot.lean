import EncodingRs.Model.Decoder
import EncodingRs.Model.Repl
import EncodingRs.Model.L1
import EncodingRs.Spec.Utf8
/-!
# The one-shot decode API of `Encoding` (lib.rs): `decode`, `decode_with_bom_removal`,
`decode_without_bom_handling`, `decode_without_bom_handling_and_without_replacement`

The control flow is modelled as written:

* BOM handling by a prefix test (`Encoding::for_bom` / `starts_with`), not by the
  streaming life cycle;
* `is_potentially_borrowable`, the choice of the validator
  (`utf8_valid_up_to` / `iso_2022_jp_ascii_valid_up_to` / `ascii_valid_up_to`), the
  early `Cow::Borrowed` return when the whole input is valid, the copy of the
  valid prefix into the `String`;
* a **fresh decoder without BOM handling** run on `bytes[valid_up_to..]` with
  `last = true`: for the with-replacement form the `loop` that calls
  `decode_to_string` (= `Model.replLoop` over the UTF-8 sink) and, on
  `OutputFull`, reserves and calls again (`growLoop`); for the without-replacement
  form one `decode_to_string_without_replacement` call (= `Model.call`) whose
  `OutputFull` arm is `unreachable!()`.

What is *not* modelled is the capacity arithmetic itself (`checked_add`,
`checked_next_power_of_two`, `checked_min`, `max_utf8_buffer_length*`: the
worst-case formulas belong to C07 and have no Lean model yet).  Its only effect
on the result is *where* the decoder stops with `OutputFull`; as everywhere in
this framework that is the free `Budget` parameter, and the theorems of
`Thm/C11.lean` hold for every choice of it.  (The `.unwrap()`s of that arithmetic
panic only for lengths near `usize::MAX / 3`, outside anything executable.)

The validators are the simple recursive definitions (`Model.asciiValidUpTo`,
`Model.iso2022JpAsciiValidUpTo`, `Spec.validUpTo`); that the real validators
compute exactly these is property C14.

Text is a list of scalar values.  The text of a `&str` made of bytes `bs`
(`from_utf8_unchecked`, used for the borrow and for the copied prefix) is
`strScalars bs`.

`Encoding::encode` has no Lean model here (the encoder model is being written
elsewhere); it is covered by the harness oracle only.
-/
namespace EncodingRs.Model.OneShot
open EncodingRs EncodingRs.Model

/-- which `&'static Encoding` is reported as used -/
inductive Used | nominal | utf8 | utf16be | utf16le
deriving DecidableEq, Repr

/-- `Encoding::for_bom` (the three `starts_with` tests in source order) -/
def forBom (bytes : List Nat) : Option (Used × Nat) :=
  if [0xEF, 0xBB, 0xBF].isPrefixOf bytes then some (.utf8, 3)
  else if [0xFF, 0xFE].isPrefixOf bytes then some (.utf16le, 2)
  else if [0xFE, 0xFF].isPrefixOf bytes then some (.utf16be, 2)
  else none

/-- the variant decoder of the encoding a BOM switches to -/
def variantOfUsed (v : Gen.Variant) : Used → Gen.Variant
  | .nominal => v
  | .utf8 => .utf8
  | .utf16be => .utf16Be
  | .utf16le => .utf16Le

/-- `Encoding::is_potentially_borrowable`: `!(self == REPLACEMENT || self == UTF_16BE || self == UTF_16LE)`.
(The Rust compares `&'static Encoding`s; each of these encodings is the only one
with its variant: `Thm.C11.variant_identifies`.) -/
def isPotentiallyBorrowable : Gen.Variant → Bool
  | .replacement => false
  | .utf16Be => false
  | .utf16Le => false
  | _ => true

/-- the validator `decode_without_bom_handling` picks:
`if self == UTF_8 {utf8_valid_up_to} else if self == ISO_2022_JP {iso_2022_jp_ascii_valid_up_to} else {ascii_valid_up_to}` -/
def validUpTo (v : Gen.Variant) (bytes : List Nat) : Nat :=
  if v = .utf8 then Spec.validUpTo bytes
  else if v = .iso2022Jp then iso2022JpAsciiValidUpTo bytes
  else asciiValidUpTo bytes

/-- the `char`s of the `&str` whose bytes are `bs`: scalar values of the
well-formed sequences of `bs`, in the shape of `Spec.scanSeqs` (stops at the first
ill-formed sequence; the model only applies it to validated bytes) -/
def strScalars : List Nat → List Nat
  | [] => []
  | b0 :: r =>
    if Spec.wf1 b0 then b0 :: strScalars r else
    match r with
    | [] => []
    | b1 :: r1 =>
      if Spec.wf2 b0 b1 then Spec.scalarOfSeq [b0, b1] :: strScalars r1 else
      match r1 with
      | [] => []
      | b2 :: r2 =>
        if Spec.wf3 b0 b1 b2 then Spec.scalarOfSeq [b0, b1, b2] :: strScalars r2 else
        match r2 with
        | [] => []
        | b3 :: r3 =>
          if Spec.wf4 b0 b1 b2 b3 then Spec.scalarOfSeq [b0, b1, b2, b3] :: strScalars r3 else []

/-- what the `Cow<str>`-returning functions return -/
structure Res where
  /-- the text, as scalar values -/
  text : List Nat
  hadErrors : Bool
  /-- `Cow::Borrowed` (then the `&str` is the argument slice itself) -/
  borrowed : Bool
deriving DecidableEq, Repr

/-- The `loop` at the end of `decode_without_bom_handling`.  One iteration is one
`decoder.decode_to_string(&bytes[total_read..], &mut string, true)`, i.e. the
with-replacement loop `replLoop` over the spare capacity with the stop budgets
`bs.head` of its inner raw calls; `InputEmpty` returns, `OutputFull` reserves
(`string.reserve(needed.unwrap())`) and iterates.  `fuel` bounds the iterations
and `ifuel` the inner calls of one iteration (`none` = bound exceeded; the Rust
loops have no bound).  Returns the text appended to the `String` and
`total_had_errors`. -/
def growLoop (F : Fam) (ifuel : Nat) : Nat → F.σ → List Nat → List (List Budget) → Option (List Nat × Bool)
  | 0, _, _, _ => none
  | fuel + 1, s, src, bs =>
    match replLoop F .utf8 true ifuel s src (bs.headD []) with
    | none => none
    | some t =>
      match t.res with
      | .inputEmpty => some (t.out, t.hadErrors)
      | .outputFull =>
        match growLoop F ifuel fuel t.st (src.drop t.read) bs.tail with
        | some (o, e) => some (t.out ++ o, t.hadErrors || e)
        | none => none
      | .malformed _ _ => none  -- `CoderResult` has no such variant (`Thm.C09.replLoop_res`)

/-- `Encoding::decode_without_bom_handling` -/
def decodeWithoutBomHandling (v : Gen.Variant) (bytes : List Nat) (fuel : Nat) (bs : List (List Budget)) : Option Res :=
  if isPotentiallyBorrowable v then
    let n := validUpTo v bytes
    if n = bytes.length then
      some ⟨strScalars bytes, false, true⟩           -- `return (Cow::Borrowed(str), false)`
    else
      -- `vec.extend_from_slice(&bytes[..valid_up_to])`, `total_read = valid_up_to`
      match growLoop (famOfVariant v) fuel fuel (famOfVariant v).init (bytes.drop n) bs with
      | some (o, e) => some ⟨strScalars (bytes.take n) ++ o, e, false⟩
      | none => none
  else
    match growLoop (famOfVariant v) fuel fuel (famOfVariant v).init bytes bs with
    | some (o, e) => some ⟨o, e, false⟩
    | none => none

/-- `Encoding::decode`: `for_bom`, then `encoding.decode_without_bom_handling(without_bom)` -/
def decode (v : Gen.Variant) (bytes : List Nat) (fuel : Nat) (bs : List (List Budget)) : Option (Res × Used) :=
  match forBom bytes with
  | some (u, bomLength) =>
    (decodeWithoutBomHandling (variantOfUsed v u) (bytes.drop bomLength) fuel bs).map fun r => (r, u)
  | none => (decodeWithoutBomHandling v bytes fuel bs).map fun r => (r, .nominal)

/-- the slice `decode_with_bom_removal` passes on: only the encoding's own BOM is removed -/
def withoutOwnBom (v : Gen.Variant) (bytes : List Nat) : List Nat :=
  if v = .utf8 ∧ [0xEF, 0xBB, 0xBF].isPrefixOf bytes = true then bytes.drop 3
  else if (v = .utf16Le ∧ [0xFF, 0xFE].isPrefixOf bytes = true) ∨ (v = .utf16Be ∧ [0xFE, 0xFF].isPrefixOf bytes = true) then
    bytes.drop 2
  else bytes

/-- `Encoding::decode_with_bom_removal` -/
def decodeWithBomRemoval (v : Gen.Variant) (bytes : List Nat) (fuel : Nat) (bs : List (List Budget)) : Option Res :=
  decodeWithoutBomHandling v (withoutOwnBom v bytes) fuel bs

/-- result of the without-replacement form: the Rust has an `unreachable!()` -/
inductive NoRepl
  /-- `DecoderResult::OutputFull => unreachable!()` -/
  | unreachable
  /-- `None` / `Some(cow)`: text and `Cow::Borrowed?` -/
  | ret (r : Option (List Nat × Bool))
deriving DecidableEq, Repr

/-- `Encoding::decode_without_bom_handling_and_without_replacement`; `budget` is the
stop policy of its single `decode_to_string_without_replacement` call -/
def decodeWithoutBomHandlingAndWithoutReplacement (v : Gen.Variant) (bytes : List Nat) (budget : Budget) : NoRepl :=
  if v = .utf8 then
    if Spec.validUpTo bytes = bytes.length then .ret (some (strScalars bytes, true)) else .ret none
  else if isPotentiallyBorrowable v then
    let n := if v = .iso2022Jp then iso2022JpAsciiValidUpTo bytes else asciiValidUpTo bytes
    if n = bytes.length then .ret (some (strScalars bytes, true))
    else
      let r := call (famOfVariant v) .utf8 (famOfVariant v).init (bytes.drop n) true budget
      match r.res with
      | .inputEmpty => .ret (some (strScalars (bytes.take n) ++ r.out, false))
      | .malformed _ _ => .ret none
      | .outputFull => .unreachable
  else
    let r := call (famOfVariant v) .utf8 (famOfVariant v).init bytes true budget
    match r.res with
    | .inputEmpty => .ret (some (r.out, false))
    | .malformed _ _ => .ret none
    | .outputFull => .unreachable

/-! ### the capacity arithmetic helpers (lib.rs), for reference; `usize` overflow as `none` -/

/-- `usize::next_power_of_two` (mathematical value; the Rust wraps / panics above `2^63`) -/
def nextPowerOfTwo (n : Nat) : Nat := if n ≤ 1 then 1 else 2 ^ (Nat.log2 (n - 1) + 1)

/-- `checked_next_power_of_two` -/
def checkedNextPowerOfTwo (o : Option Nat) : Option Nat := o.map nextPowerOfTwo

/-- `checked_min`: the smaller of the two if both are known, else the known one -/
def checkedMin : Option Nat → Option Nat → Option Nat
  | some a, some b => some (min a b)
  | some a, none => some a
  | none, o => o

/-- the capacity `decode_without_bom_handling` asks for, given the two worst-case answers -/
def initialCapacity (validUpTo : Nat) (maxWithoutRepl maxWithRepl : Option Nat) : Option Nat :=
  checkedMin (checkedNextPowerOfTwo (maxWithoutRepl.map (validUpTo + ·))) (maxWithRepl.map (validUpTo + ·))

end EncodingRs.Model.OneShot
