import EncodingRs.Model.Decoder
import EncodingRs.Model.Repl
import EncodingRs.Model.L1
import EncodingRs.Model.MaxLen
import EncodingRs.Model.Meta
import EncodingRs.Spec.Utf8
/-!
# The one-shot decode API of `Encoding` (lib.rs): `decode`, `decode_with_bom_removal`,
`decode_without_bom_handling`, `decode_without_bom_handling_and_without_replacement`

The control flow is modelled as written:

* BOM handling by a prefix test (`Encoding::for_bom` / `starts_with`), not by the
  streaming life cycle;
* `is_potentially_borrowable`, the choice of the validator
  (`utf8_valid_up_to` / `iso_2022_jp_ascii_valid_up_to` / `ascii_valid_up_to`), the
  early `Cow::Borrowed` return when the whole input is valid, the copy of the
  valid prefix into the `String`;
* a **fresh decoder without BOM handling** run on `bytes[valid_up_to..]` with
  `last = true`: for the with-replacement form the `loop` that calls
  `decode_to_string` (= `Model.replLoop` over the UTF-8 sink) and, on
  `OutputFull`, reserves and calls again (`growLoop`); for the without-replacement
  form one `decode_to_string_without_replacement` call (= `Model.call`) whose
  `OutputFull` arm is `unreachable!()`.

The functions of the first part (`decodeWithoutBomHandling`, …) leave out the
capacity arithmetic: its only effect on the result is *where* the decoder stops
with `OutputFull`; as everywhere in this framework that is the free `Budget`
parameter, and the equality theorems of `Thm/C11.lean` hold for every choice of it.

The second part (`…Cap`) **executes the capacity arithmetic as written**
(`checked_add`, `checked_next_power_of_two`, `checked_min` / `min` over
`max_utf8_buffer_length(_without_replacement)` of the REMAINING input in the
decoder's current state — the formulas of `Gen.MaxLen`, re-translated from the Rust
on every run —, the `.unwrap()` panics, `String::with_capacity`, `reserve`) and
pairs every function with the predicate that says that the stop policy is
*admissible for the capacities so computed* (`NoReplAdmissible`, `GrowAdmissible`,
`DecodeAdmissible`): this is what makes `oneshot_no_unreachable` and termination
for every admissible policy statable.  The third part is `Encoding::encode`.

The validators are the simple recursive definitions (`Model.asciiValidUpTo`,
`Model.iso2022JpAsciiValidUpTo`, `Spec.validUpTo`); that the real validators
compute exactly these is property C14.

Text is a list of scalar values.  The text of a `&str` made of bytes `bs`
(`from_utf8_unchecked`, used for the borrow and for the copied prefix) is
`strScalars bs`.

-/
namespace EncodingRs.Model.OneShot
open EncodingRs EncodingRs.Model

/-- which `&'static Encoding` is reported as used -/
inductive Used | nominal | utf8 | utf16be | utf16le
deriving DecidableEq, Repr

/-- `Encoding::for_bom` (the three `starts_with` tests in source order) -/
def forBom (bytes : List Nat) : Option (Used × Nat) :=
  if [0xEF, 0xBB, 0xBF].isPrefixOf bytes then some (.utf8, 3)
  else if [0xFF, 0xFE].isPrefixOf bytes then some (.utf16le, 2)
  else if [0xFE, 0xFF].isPrefixOf bytes then some (.utf16be, 2)
  else none

/-- the variant decoder of the encoding a BOM switches to -/
def variantOfUsed (v : Gen.Variant) : Used → Gen.Variant
  | .nominal => v
  | .utf8 => .utf8
  | .utf16be => .utf16Be
  | .utf16le => .utf16Le

/-- `Encoding::is_potentially_borrowable`: `!(self == REPLACEMENT || self == UTF_16BE || self == UTF_16LE)`.
(The Rust compares `&'static Encoding`s; each of these encodings is the only one
with its variant: `Thm.C11.variant_identifies`.) -/
def isPotentiallyBorrowable : Gen.Variant → Bool
  | .replacement => false
  | .utf16Be => false
  | .utf16Le => false
  | _ => true

/-- the validator `decode_without_bom_handling` picks:
`if self == UTF_8 {utf8_valid_up_to} else if self == ISO_2022_JP {iso_2022_jp_ascii_valid_up_to} else {ascii_valid_up_to}` -/
def validUpTo (v : Gen.Variant) (bytes : List Nat) : Nat :=
  if v = .utf8 then Spec.validUpTo bytes
  else if v = .iso2022Jp then iso2022JpAsciiValidUpTo bytes
  else asciiValidUpTo bytes

/-- the `char`s of the `&str` whose bytes are `bs`: scalar values of the
well-formed sequences of `bs`, in the shape of `Spec.scanSeqs` (stops at the first
ill-formed sequence; the model only applies it to validated bytes) -/
def strScalars : List Nat → List Nat
  | [] => []
  | b0 :: r =>
    if Spec.wf1 b0 then b0 :: strScalars r else
    match r with
    | [] => []
    | b1 :: r1 =>
      if Spec.wf2 b0 b1 then Spec.scalarOfSeq [b0, b1] :: strScalars r1 else
      match r1 with
      | [] => []
      | b2 :: r2 =>
        if Spec.wf3 b0 b1 b2 then Spec.scalarOfSeq [b0, b1, b2] :: strScalars r2 else
        match r2 with
        | [] => []
        | b3 :: r3 =>
          if Spec.wf4 b0 b1 b2 b3 then Spec.scalarOfSeq [b0, b1, b2, b3] :: strScalars r3 else []

/-- what the `Cow<str>`-returning functions return -/
structure Res where
  /-- the text, as scalar values -/
  text : List Nat
  hadErrors : Bool
  /-- `Cow::Borrowed` (then the `&str` is the argument slice itself) -/
  borrowed : Bool
deriving DecidableEq, Repr

/-- The `loop` at the end of `decode_without_bom_handling`.  One iteration is one
`decoder.decode_to_string(&bytes[total_read..], &mut string, true)`, i.e. the
with-replacement loop `replLoop` over the spare capacity with the stop budgets
`bs.head` of its inner raw calls; `InputEmpty` returns, `OutputFull` reserves
(`string.reserve(needed.unwrap())`) and iterates.  `fuel` bounds the iterations
and `ifuel` the inner calls of one iteration (`none` = bound exceeded; the Rust
loops have no bound).  Returns the text appended to the `String` and
`total_had_errors`. -/
def growLoop (F : Fam) (ifuel : Nat) : Nat → F.σ → List Nat → List (List Budget) → Option (List Nat × Bool)
  | 0, _, _, _ => none
  | fuel + 1, s, src, bs =>
    match replLoop F .utf8 true ifuel s src (bs.headD []) with
    | none => none
    | some t =>
      match t.res with
      | .inputEmpty => some (t.out, t.hadErrors)
      | .outputFull =>
        match growLoop F ifuel fuel t.st (src.drop t.read) bs.tail with
        | some (o, e) => some (t.out ++ o, t.hadErrors || e)
        | none => none
      | .malformed _ _ => none  -- `CoderResult` has no such variant (`Thm.C09.replLoop_res`)

/-- `Encoding::decode_without_bom_handling` -/
def decodeWithoutBomHandling (v : Gen.Variant) (bytes : List Nat) (fuel : Nat) (bs : List (List Budget)) : Option Res :=
  if isPotentiallyBorrowable v then
    let n := validUpTo v bytes
    if n = bytes.length then
      some ⟨strScalars bytes, false, true⟩           -- `return (Cow::Borrowed(str), false)`
    else
      -- `vec.extend_from_slice(&bytes[..valid_up_to])`, `total_read = valid_up_to`
      match growLoop (famOfVariant v) fuel fuel (famOfVariant v).init (bytes.drop n) bs with
      | some (o, e) => some ⟨strScalars (bytes.take n) ++ o, e, false⟩
      | none => none
  else
    match growLoop (famOfVariant v) fuel fuel (famOfVariant v).init bytes bs with
    | some (o, e) => some ⟨o, e, false⟩
    | none => none

/-- `Encoding::decode`: `for_bom`, then `encoding.decode_without_bom_handling(without_bom)` -/
def decode (v : Gen.Variant) (bytes : List Nat) (fuel : Nat) (bs : List (List Budget)) : Option (Res × Used) :=
  match forBom bytes with
  | some (u, bomLength) =>
    (decodeWithoutBomHandling (variantOfUsed v u) (bytes.drop bomLength) fuel bs).map fun r => (r, u)
  | none => (decodeWithoutBomHandling v bytes fuel bs).map fun r => (r, .nominal)

/-- the slice `decode_with_bom_removal` passes on: only the encoding's own BOM is removed -/
def withoutOwnBom (v : Gen.Variant) (bytes : List Nat) : List Nat :=
  if v = .utf8 ∧ [0xEF, 0xBB, 0xBF].isPrefixOf bytes = true then bytes.drop 3
  else if (v = .utf16Le ∧ [0xFF, 0xFE].isPrefixOf bytes = true) ∨ (v = .utf16Be ∧ [0xFE, 0xFF].isPrefixOf bytes = true) then
    bytes.drop 2
  else bytes

/-- `Encoding::decode_with_bom_removal` -/
def decodeWithBomRemoval (v : Gen.Variant) (bytes : List Nat) (fuel : Nat) (bs : List (List Budget)) : Option Res :=
  decodeWithoutBomHandling v (withoutOwnBom v bytes) fuel bs

/-- result of the without-replacement form: the Rust has an `unreachable!()` -/
inductive NoRepl
  /-- `DecoderResult::OutputFull => unreachable!()` -/
  | unreachable
  /-- `None` / `Some(cow)`: text and `Cow::Borrowed?` -/
  | ret (r : Option (List Nat × Bool))
deriving DecidableEq, Repr

/-- `Encoding::decode_without_bom_handling_and_without_replacement`; `budget` is the
stop policy of its single `decode_to_string_without_replacement` call -/
def decodeWithoutBomHandlingAndWithoutReplacement (v : Gen.Variant) (bytes : List Nat) (budget : Budget) : NoRepl :=
  if v = .utf8 then
    if Spec.validUpTo bytes = bytes.length then .ret (some (strScalars bytes, true)) else .ret none
  else if isPotentiallyBorrowable v then
    let n := if v = .iso2022Jp then iso2022JpAsciiValidUpTo bytes else asciiValidUpTo bytes
    if n = bytes.length then .ret (some (strScalars bytes, true))
    else
      let r := call (famOfVariant v) .utf8 (famOfVariant v).init (bytes.drop n) true budget
      match r.res with
      | .inputEmpty => .ret (some (strScalars (bytes.take n) ++ r.out, false))
      | .malformed _ _ => .ret none
      | .outputFull => .unreachable
  else
    let r := call (famOfVariant v) .utf8 (famOfVariant v).init bytes true budget
    match r.res with
    | .inputEmpty => .ret (some (r.out, false))
    | .malformed _ _ => .ret none
    | .outputFull => .unreachable

/-! ### the capacity arithmetic helpers (lib.rs), for reference; `usize` overflow as `none` -/

/-- `usize::next_power_of_two` (mathematical value; the Rust wraps / panics above `2^63`) -/
def nextPowerOfTwo (n : Nat) : Nat := if n ≤ 1 then 1 else 2 ^ (Nat.log2 (n - 1) + 1)

/-- `checked_next_power_of_two` -/
def checkedNextPowerOfTwo (o : Option Nat) : Option Nat := o.map nextPowerOfTwo

/-- `checked_min`: the smaller of the two if both are known, else the known one -/
def checkedMin : Option Nat → Option Nat → Option Nat
  | some a, some b => some (min a b)
  | some a, none => some a
  | none, o => o

/-- the capacity `decode_without_bom_handling` asks for, given the two worst-case answers -/
def initialCapacity (validUpTo : Nat) (maxWithoutRepl maxWithRepl : Option Nat) : Option Nat :=
  checkedMin (checkedNextPowerOfTwo (maxWithoutRepl.map (validUpTo + ·))) (maxWithRepl.map (validUpTo + ·))


/-! ## Part 2: the capacity arithmetic executed as written

`String::with_capacity(n)` and `String::reserve(additional)` promise *at least* the
capacity asked for; what the allocator grants on top is the `slack` parameter (one
number per allocation, `[]` = exact), and every theorem is quantified over it.
Their own failure modes (capacity above `isize::MAX`, allocation failure) are outside
the model.  Bytes written so far are not re-stated: the model tracks the *spare*
capacity `capacity() - len()` that `decode_to_string*` offers to the decoder. -/

open EncodingRs.Gen.MaxLen in
/-- `usize::next_power_of_two` as a release build computes it: the mathematical value if
it fits `usize`, else `0` (a debug build panics instead) -/
def nextPowerOfTwoU (n : Nat) : Nat :=
  if nextPowerOfTwo n ≤ usizeMax then nextPowerOfTwo n else 0

/-- what a function returns that can panic; `diverges` = the fuel of a model loop ran out
(the Rust loops have no bound) -/
inductive Outcome (α : Type)
  | ok (a : α)
  /-- `.unwrap()` of a capacity computation that overflowed `usize` -/
  | panic
  | diverges
deriving DecidableEq, Repr

def Outcome.map {α β : Type} (f : α → β) : Outcome α → Outcome β
  | .ok a => .ok (f a)
  | .panic => .panic
  | .diverges => .diverges

open EncodingRs.Gen.MaxLen in
/-- the argument of `String::with_capacity` in the potentially-borrowable branch of
`decode_without_bom_handling` (before the `.unwrap()`): `decoder` is fresh, `rem = bytes.len() - valid_up_to` -/
def firstCapacity (v : Gen.Variant) (validUpTo rem : Nat) : Option Nat :=
  let roundedWithoutReplacement :=
    (U.addO validUpTo (variantMax .utf8NoRepl v (famOfVariant v).init rem)).map nextPowerOfTwoU
  let withReplacement := U.addO validUpTo (variantMax .utf8 v (famOfVariant v).init rem)
  checkedMin roundedWithoutReplacement withReplacement

/-- the same in the other branch (no validated prefix, no `checked_add`) -/
def firstCapacityNB (v : Gen.Variant) (len : Nat) : Option Nat :=
  checkedMin ((variantMax .utf8NoRepl v (famOfVariant v).init len).map nextPowerOfTwoU)
    (variantMax .utf8 v (famOfVariant v).init len)

/-- The `loop` of `decode_without_bom_handling` with its capacities.  `spare` is
`string.capacity() - string.len()` at the start of the round, i.e. the length of the
buffer `decode_to_string` hands to `decode_to_utf8`.  On `OutputFull`:
`needed = decoder.max_utf8_buffer_length(bytes.len() - total_read)` in the decoder's
CURRENT state, `.unwrap()`, `string.reserve(needed)` — afterwards at least `needed`
bytes are spare, and never fewer than before (`max`), plus the allocator's slack. -/
def growLoopCap (v : Gen.Variant) (ifuel : Nat) :
    Nat → (famOfVariant v).σ → List Nat → Nat → List Nat → List (List Budget) → Outcome (List Nat × Bool)
  | 0, _, _, _, _, _ => .diverges
  | fuel + 1, s, src, spare, slack, bs =>
    match replLoop (famOfVariant v) .utf8 true ifuel s src (bs.headD []) with
    | none => .diverges
    | some t =>
      match t.res with
      | .inputEmpty => .ok (t.out, t.hadErrors)
      | .outputFull =>
        match variantMax .utf8 v t.st (src.length - t.read) with
        | none => .panic                                  -- `needed.unwrap()`
        | some needed =>
          match growLoopCap v ifuel fuel t.st (src.drop t.read)
              (max (spare - unitsOfList .utf8 t.out) needed + slack.headD 0) slack.tail bs.tail with
          | .ok (o, e) => .ok (t.out ++ o, t.hadErrors || e)
          | .panic => .panic
          | .diverges => .diverges
      | .malformed _ _ => .diverges  -- `CoderResult` has no such variant

/-- `Encoding::decode_without_bom_handling` with its capacity arithmetic.
`slack.head` belongs to `String::with_capacity`, the rest to the `reserve`s. -/
def decodeWithoutBomHandlingCap (v : Gen.Variant) (bytes : List Nat) (fuel : Nat) (slack : List Nat)
    (bs : List (List Budget)) : Outcome Res :=
  if isPotentiallyBorrowable v then
    let n := validUpTo v bytes
    if n = bytes.length then
      .ok ⟨strScalars bytes, false, true⟩
    else
      match firstCapacity v n (bytes.length - n) with
      | none => .panic                                    -- `checked_min(…).unwrap()`
      | some c =>
        -- `extend_from_slice(&bytes[..valid_up_to])`: `n` of the `c + slack` bytes are used
        (growLoopCap v fuel fuel (famOfVariant v).init (bytes.drop n) (c + slack.headD 0 - n) slack.tail bs).map
          fun (o, e) => ⟨strScalars (bytes.take n) ++ o, e, false⟩
  else
    match firstCapacityNB v bytes.length with
    | none => .panic
    | some c =>
      (growLoopCap v fuel fuel (famOfVariant v).init bytes (c + slack.headD 0) slack.tail bs).map
        fun (o, e) => ⟨o, e, false⟩

/-- `Encoding::decode` with the capacity arithmetic -/
def decodeCap (v : Gen.Variant) (bytes : List Nat) (fuel : Nat) (slack : List Nat) (bs : List (List Budget)) :
    Outcome (Res × Used) :=
  match forBom bytes with
  | some (u, bomLength) =>
    (decodeWithoutBomHandlingCap (variantOfUsed v u) (bytes.drop bomLength) fuel slack bs).map fun r => (r, u)
  | none => (decodeWithoutBomHandlingCap v bytes fuel slack bs).map fun r => (r, .nominal)

/-- `Encoding::decode_with_bom_removal` with the capacity arithmetic -/
def decodeWithBomRemovalCap (v : Gen.Variant) (bytes : List Nat) (fuel : Nat) (slack : List Nat)
    (bs : List (List Budget)) : Outcome Res :=
  decodeWithoutBomHandlingCap v (withoutOwnBom v bytes) fuel slack bs

/-- the validated prefix of the without-replacement form (`self != UTF_8` there) -/
def validUpToNoRepl (v : Gen.Variant) (bytes : List Nat) : Nat :=
  if v = .iso2022Jp then iso2022JpAsciiValidUpTo bytes else asciiValidUpTo bytes

open EncodingRs.Gen.MaxLen in
/-- the argument of `String::with_capacity` in `decode_without_bom_handling_and_without_replacement`
(before the `.unwrap()`), in either branch -/
def noReplCapacity (v : Gen.Variant) (bytes : List Nat) : Option Nat :=
  if isPotentiallyBorrowable v then
    U.addO (validUpToNoRepl v bytes)
      (variantMax .utf8NoRepl v (famOfVariant v).init (bytes.length - validUpToNoRepl v bytes))
  else variantMax .utf8NoRepl v (famOfVariant v).init bytes.length

/-- the part of that capacity that is spare when the decoder is called: the validated prefix has
been copied into the `String` -/
def noReplSpare (v : Gen.Variant) (bytes : List Nat) (c slack : Nat) : Nat :=
  if isPotentiallyBorrowable v then c + slack - validUpToNoRepl v bytes else c + slack

/-- the source of the single `decode_to_string_without_replacement` call -/
def noReplInput (v : Gen.Variant) (bytes : List Nat) : List Nat :=
  if isPotentiallyBorrowable v then bytes.drop (validUpToNoRepl v bytes) else bytes

/-- `Encoding::decode_without_bom_handling_and_without_replacement` with its capacity arithmetic:
`panic` = the `.unwrap()` of the capacity; otherwise as `decodeWithoutBomHandlingAndWithoutReplacement`. -/
def decodeWithoutBomHandlingAndWithoutReplacementCap (v : Gen.Variant) (bytes : List Nat) (budget : Budget) :
    Outcome NoRepl :=
  if v = .utf8 then
    if Spec.validUpTo bytes = bytes.length then .ok (.ret (some (strScalars bytes, true))) else .ok (.ret none)
  else if isPotentiallyBorrowable v then
    let n := validUpToNoRepl v bytes
    if n = bytes.length then .ok (.ret (some (strScalars bytes, true)))
    else
      match noReplCapacity v bytes with
      | none => .panic
      | some _ =>
        let r := call (famOfVariant v) .utf8 (famOfVariant v).init (bytes.drop n) true budget
        match r.res with
        | .inputEmpty => .ok (.ret (some (strScalars (bytes.take n) ++ r.out, false)))
        | .malformed _ _ => .ok (.ret none)
        | .outputFull => .ok .unreachable
  else
    match noReplCapacity v bytes with
    | none => .panic
    | some _ =>
      let r := call (famOfVariant v) .utf8 (famOfVariant v).init bytes true budget
      match r.res with
      | .inputEmpty => .ok (.ret (some (r.out, false)))
      | .malformed _ _ => .ok (.ret none)
      | .outputFull => .ok .unreachable

/-! ## Part 3: `Encoding::encode`

A `&str` is the list of its UTF-8 bytes; `Utf8Source` reads it as `Model.items8` does.
`output_encoding == UTF_8` / `== ISO_2022_JP` are tests on the variant of the output encoding
(`Thm.C11.variant_identifies`).  The `Vec` is tracked by `capacity()` and `len()`:
`encode_from_utf8_to_vec` offers `capacity - len` bytes to `encode_from_utf8` (`Model.encRepl`, whose
control flow depends on that number through `NCR_EXTRA`). -/

structure EncRes where
  bytes : List Nat
  hadUnmappables : Bool
  /-- `Cow::Borrowed` (then the slice is the argument's own bytes) -/
  borrowed : Bool
deriving DecidableEq, Repr

open EncodingRs.Gen.MaxLen in
/-- The `loop` of `encode`.  One round is one `encoder.encode_from_utf8_to_vec(&string[total_read..], &mut vec, true)`
with the stop budgets `bs.head` of its inner raw calls.  On `OutputFull`:
`needed = max_buffer_length_from_utf8_if_no_unmappables(string.len() - total_read)`,
`rounded = checked_add(vec.capacity(), needed).unwrap().next_power_of_two()`,
`vec.reserve_exact(rounded - vec.len())`. -/
def encodeLoop (v : Gen.Variant) (ifuel : Nat) :
    Nat → (efamOfVariant v).σ → List Nat → Nat → Nat → List Nat → List (List Budget) → Outcome (List Nat × Bool)
  | 0, _, _, _, _, _, _ => .diverges
  | fuel + 1, s, src, cap, len, slack, bs =>
    match encRepl (efamOfVariant v) (canEncodeEverything v) Gen.ncrExtra false true (cap - len) ifuel s src
        (bs.headD []) with
    | none => .diverges
    | some t =>
      match t.res with
      | .inputEmpty => .ok (t.out, t.hadUnmappables)
      | .outputFull =>
        match U.addO cap (encMaxIfNoUnmappables false v (src.length - t.read)) with
        | none => .panic                                    -- `checked_add(vec.capacity(), needed).unwrap()`
        | some sum =>
          let rounded := nextPowerOfTwoU sum
          let len' := len + t.out.length
          -- `rounded - vec.len()` underflows only if `next_power_of_two` wrapped to 0: debug panic /
          -- release: `reserve_exact` of an absurd amount panics with "capacity overflow"
          if rounded < len' then .panic else
          match encodeLoop v ifuel fuel t.st (src.drop t.read) (max cap rounded + slack.headD 0) len'
              slack.tail bs.tail with
          | .ok (o, e) => .ok (t.out ++ o, t.hadUnmappables || e)
          | .panic => .panic
          | .diverges => .diverges
      | .unmappable _ => .diverges  -- `CoderResult` has no such variant

open EncodingRs.Gen.MaxLen in
/-- `Encoding::encode`, given the variant `vo` of `self.output_encoding()` -/
def encodeV (vo : Gen.Variant) (bytes : List Nat) (fuel : Nat) (slack : List Nat) (bs : List (List Budget)) :
    Outcome EncRes :=
  if vo = .utf8 then .ok ⟨bytes, false, true⟩                 -- `Cow::Borrowed(string.as_bytes())`
  else
    let n := validUpToNoRepl vo bytes                         -- ISO-2022-JP: its validator, else ASCII
    if n = bytes.length then .ok ⟨bytes, false, true⟩
    else
      match U.addO n (encMaxIfNoUnmappables false vo (bytes.length - n)) with
      | none => .panic                                        -- `checked_add(…).unwrap()`
      | some c0 =>
        -- `Vec::with_capacity(c0.next_power_of_two())`, `extend_from_slice(&bytes[..valid_up_to])`
        (encodeLoop vo fuel fuel (efamOfVariant vo).init (bytes.drop n)
            (nextPowerOfTwoU c0 + slack.headD 0) n slack.tail bs).map
          fun (o, e) => ⟨bytes.take n ++ o, e, false⟩

/-- `Encoding::encode` of the encoding with index `i` in `Gen.encodings`: the result and the index of
the encoding reported as used (`output_encoding`) -/
def encode (i : Nat) (bytes : List Nat) (fuel : Nat) (slack : List Nat) (bs : List (List Budget)) :
    Outcome (EncRes × Nat) :=
  (encodeV (Meta.variantAt (Meta.outputEncoding i)) bytes fuel slack bs).map fun r => (r, Meta.outputEncoding i)

end EncodingRs.Model.OneShot
