/-!
Code-unit forms of scalar values, as the `write_*` functions of handles.rs
compute them.
-/
namespace EncodingRs.Model

def encodeUtf8 (c : Nat) : List Nat :=
  if c < 0x80 then [c]
  else if c < 0x800 then [0xC0 + c / 64, 0x80 + c % 64]
  else if c < 0x10000 then [0xE0 + c / 4096, 0x80 + c / 64 % 64, 0x80 + c % 64]
  else [0xF0 + c / 262144, 0x80 + c / 4096 % 64, 0x80 + c / 64 % 64, 0x80 + c % 64]

def encodeUtf16 (c : Nat) : List Nat :=
  if c < 0x10000 then [c]
  else [0xD7C0 + c / 1024, 0xDC00 + c % 1024]

def isScalar (c : Nat) : Bool := c < 0x110000 && !(0xD800 ≤ c && c ≤ 0xDFFF)

end EncodingRs.Model
