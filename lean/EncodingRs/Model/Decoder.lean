import EncodingRs.Model.Fam.Multi
import EncodingRs.Gen.Encodings
/-!
`Decoder` of lib.rs: the BOM life cycle (`public_decode_function!` in macros.rs)
around a variant decoder, and the with-replacement loops.  Generic in the
nominal family; UTF-8 / UTF-16BE / UTF-16LE are the families a BOM switches to.
-/
namespace EncodingRs.Model

/-- the variant decoder for an `Encoding` initialiser (variant.rs `new_variant_decoder`) -/
def famOfVariant : Gen.Variant → Fam
  | .singleByte t _ _ _ => singleByteFam (Gen.singleByteTables.getD t #[])
  | .utf8 => utf8Fam
  | .gbk => gbFam
  | .gb18030 => gbFam
  | .big5 => big5Fam
  | .eucJp => eucJpFam
  | .iso2022Jp => iso2022JpFam
  | .shiftJis => shiftJisFam
  | .eucKr => eucKrFam
  | .replacement => replacementFam
  | .utf16Be => utf16Fam true
  | .utf16Le => utf16Fam false
  | .userDefined => userDefinedFam

inductive Life
  | atStart | atUtf8Start | atUtf16BeStart | atUtf16LeStart
  | seenUtf8First | seenUtf8Second | seenUtf16BeFirst | seenUtf16LeFirst
  | convertingWithPendingBB | converting | finished
deriving DecidableEq, Repr

inductive BomHandling | off | sniff | remove
deriving DecidableEq, Repr

/-- which decoder is running: the nominal one or the one a BOM switched to -/
inductive Cur (F : Fam) where
  | nominal (s : F.σ)
  | utf8 (s : utf8Fam.σ)
  | utf16be (s : (utf16Fam true).σ)
  | utf16le (s : (utf16Fam false).σ)

structure Decoder (F : Fam) where
  life : Life
  cur : Cur F

/-- what `Decoder::new` needs to know about the nominal encoding -/
inductive Nominal | utf8 | utf16be | utf16le | other
deriving DecidableEq, Repr

def Decoder.new (F : Fam) (nom : Nominal) (bom : BomHandling) : Decoder F :=
  { life := match bom with
      | .off => .converting
      | .sniff => .atStart
      | .remove => match nom with
        | .utf8 => .atUtf8Start
        | .utf16be => .atUtf16BeStart
        | .utf16le => .atUtf16LeStart
        | .other => .converting
    cur := .nominal F.init }

/-- a raw call on whichever decoder is current, packaged without the state type -/
structure RawRes (F : Fam) where
  res : Res
  read : Nat
  out : List Nat
  cur : Cur F
  stopNeed : Nat

def Cur.call {F : Fam} (k : Sink) (c : Cur F) (src : List Nat) (last : Bool) (b : Budget) : RawRes F :=
  match c with
  | .nominal s => let r := Model.call F k s src last b; ⟨r.res, r.read, r.out, .nominal r.st, r.stopNeed⟩
  | .utf8 s => let r := Model.call utf8Fam k s src last b; ⟨r.res, r.read, r.out, .utf8 r.st, r.stopNeed⟩
  | .utf16be s => let r := Model.call (utf16Fam true) k s src last b; ⟨r.res, r.read, r.out, .utf16be r.st, r.stopNeed⟩
  | .utf16le s => let r := Model.call (utf16Fam false) k s src last b; ⟨r.res, r.read, r.out, .utf16le r.st, r.stopNeed⟩

/-- result of a `Decoder` call: the Rust panics on one path -/
inductive DRes (F : Fam) where
  | panic
  -- `inner`: per inner raw call (its output, its result, its stopNeed), for the admissibility conditions
  | ok (res : Res) (read : Nat) (out : List Nat) (d : Decoder F) (inner : List (List Nat × Res × Nat))

/-- `$decode_to_utf_checking_end` -/
def checkingEnd {F : Fam} (k : Sink) (c : Cur F) (src : List Nat) (last : Bool) (b : Budget)
    (offset : Nat) (pre : List (List Nat × Res × Nat)) (preOut : List Nat) : DRes F :=
  let r := c.call k (src.drop offset) last b
  let life := if last ∧ r.res = .inputEmpty then Life.finished else Life.converting
  .ok r.res (r.read + offset) (preOut ++ r.out) ⟨life, r.cur⟩ (pre ++ [(r.out, r.res, r.stopNeed)])

/-- `$decode_to_utf_after_one_potential_bom_byte` with `offset == 0` (after the repair of finding F4:
a pending `BB` that does not fit stays pending) -/
def afterOne {F : Fam} (k : Sink) (c : Cur F) (src : List Nat) (last : Bool) (first : Nat) (b1 b2 : Budget) : DRes F :=
  let r1 := c.call k [first] false b1
  match r1.res with
  | .inputEmpty => checkingEnd k r1.cur src last b2 0 [(r1.out, r1.res, r1.stopNeed)] r1.out
  | .malformed l a => .ok (.malformed l a) 0 r1.out ⟨.converting, r1.cur⟩ [(r1.out, r1.res, r1.stopNeed)]
  | .outputFull =>
    if first = 0xBB then
      .ok .outputFull 0 r1.out ⟨.convertingWithPendingBB, r1.cur⟩ [(r1.out, r1.res, r1.stopNeed)]
    else .panic

/-- `$decode_to_utf_after_two_potential_bom_bytes` with `offset == 0`.
Models the code *after* the repairs of findings F2 and F3 (DESIGN.md 7):
`OutputFull` / `Malformed` of the replay after its first byte leave `BB` pending. -/
def afterTwo {F : Fam} (k : Sink) (c : Cur F) (src : List Nat) (last : Bool) (b1 b2 : Budget) : DRes F :=
  let r1 := c.call k [0xEF, 0xBB] false b1
  match r1.res with
  | .inputEmpty => checkingEnd k r1.cur src last b2 0 [(r1.out, r1.res, r1.stopNeed)] r1.out
  | .malformed l a =>
    if r1.read = 1 then
      .ok (.malformed l (a + 1)) 0 r1.out ⟨.convertingWithPendingBB, r1.cur⟩ [(r1.out, r1.res, r1.stopNeed)]
    else .ok (.malformed l a) 0 r1.out ⟨.converting, r1.cur⟩ [(r1.out, r1.res, r1.stopNeed)]
  | .outputFull =>
    if r1.read = 1 then
      .ok .outputFull 0 r1.out ⟨.convertingWithPendingBB, r1.cur⟩ [(r1.out, r1.res, r1.stopNeed)]
    else .panic

/-- `$decode_to_utf` (the raw, without-replacement public method) -/
def Decoder.rawCall {F : Fam} (k : Sink) (d : Decoder F) (src : List Nat) (last : Bool) (b1 b2 : Budget) : DRes F :=
  let c := d.cur
  match d.life with
  | .converting => checkingEnd k c src last b2 0 [] []
  | .finished => .panic
  | .convertingWithPendingBB => afterOne k c src last 0xBB b1 b2
  | .atStart =>
    match src with
    | [] => .ok .inputEmpty 0 [] d []
    | 0xEF :: rest => seenUtf8First rest
    | 0xFE :: rest => seenUtf16First true rest
    | 0xFF :: rest => seenUtf16First false rest
    | _ => checkingEnd k c src last b2 0 [] []
  | .atUtf8Start =>
    match src with
    | [] => .ok .inputEmpty 0 [] d []
    | 0xEF :: rest => seenUtf8First rest
    | _ => checkingEnd k c src last b2 0 [] []
  | .atUtf16BeStart =>
    match src with
    | [] => .ok .inputEmpty 0 [] d []
    | 0xFE :: rest => seenUtf16First true rest
    | _ => checkingEnd k c src last b2 0 [] []
  | .atUtf16LeStart =>
    match src with
    | [] => .ok .inputEmpty 0 [] d []
    | 0xFF :: rest => seenUtf16First false rest
    | _ => checkingEnd k c src last b2 0 [] []
  | .seenUtf8First =>
    match src with
    | [] => if last then afterOne k c src last 0xEF b1 b2 else .ok .inputEmpty 0 [] d []
    | 0xBB :: rest => seenUtf8Second 1 rest
    | _ => afterOne k c src last 0xEF b1 b2
  | .seenUtf8Second =>
    match src with
    | [] => if last then afterTwo k c src last b1 b2 else .ok .inputEmpty 0 [] d []
    | 0xBF :: _ => checkingEnd k (.utf8 utf8Fam.init) src last b2 1 [] []
    | _ => afterTwo k c src last b1 b2
  | .seenUtf16BeFirst =>
    match src with
    | [] => if last then afterOne k c src last 0xFE b1 b2 else .ok .inputEmpty 0 [] d []
    | 0xFF :: _ => checkingEnd k (.utf16be (utf16Fam true).init) src last b2 1 [] []
    | _ => afterOne k c src last 0xFE b1 b2
  | .seenUtf16LeFirst =>
    match src with
    | [] => if last then afterOne k c src last 0xFF b1 b2 else .ok .inputEmpty 0 [] d []
    | 0xFE :: _ => checkingEnd k (.utf16le (utf16Fam false).init) src last b2 1 [] []
    | _ => afterOne k c src last 0xFF b1 b2
where
  /-- first byte `EF` is `src[0]` (offset 1) -/
  seenUtf8First (rest : List Nat) : DRes F :=
    match rest with
    | [] => if last then checkingEnd k d.cur src last b2 0 [] []   -- after_one with offset 1
            else .ok .inputEmpty 1 [] ⟨.seenUtf8First, d.cur⟩ []
    | 0xBB :: rest2 => seenUtf8Second 2 rest2
    | _ => checkingEnd k d.cur src last b2 0 [] []
  /-- `offset` bytes of the potential BOM are at the start of `src` -/
  seenUtf8Second (offset : Nat) (rest : List Nat) : DRes F :=
    match rest with
    | [] =>
      if last then
        (if offset = 1 then afterOne k d.cur src last 0xEF b1 b2 else checkingEnd k d.cur src last b2 0 [] [])
      else .ok .inputEmpty offset [] ⟨.seenUtf8Second, d.cur⟩ []
    | 0xBF :: _ => checkingEnd k (.utf8 utf8Fam.init) src last b2 (offset + 1) [] []
    | _ => if offset = 1 then afterOne k d.cur src last 0xEF b1 b2 else checkingEnd k d.cur src last b2 0 [] []
  seenUtf16First (be : Bool) (rest : List Nat) : DRes F :=
    match rest with
    | [] => if last then checkingEnd k d.cur src last b2 0 [] []
            else .ok .inputEmpty 1 [] ⟨if be then .seenUtf16BeFirst else .seenUtf16LeFirst, d.cur⟩ []
    | b :: _ =>
      if b = (if be then 0xFF else 0xFE) then
        checkingEnd k (if be then .utf16be (utf16Fam true).init else .utf16le (utf16Fam false).init) src last b2 2 [] []
      else checkingEnd k d.cur src last b2 0 [] []

end EncodingRs.Model
