import EncodingRs.Gen.TablesMisc
/-!
Hand models of the classification / bidi checks of `mem.rs` (default build, i.e.
the non-SIMD code paths of `mem.rs` and `ascii.rs`), written in the order and
form of the Rust code.

* units (`u8`, `u16`, `u32`/`char`) are `Nat`; the `wrapping_sub` range idiom of
  `in_range16/32`, `in_inclusive_range8/16/32` (lib.rs) is modelled as written
  (`wsub*`), the interval reading is a lemma (`Lemmas/Bidi.lean`);
* `as_chunks::<STRIDE>()` loops are "full stride test, then scalar tail" with
  the stride length a parameter (`stride`, instantiated with 16 = `ascii::STRIDE`);
* loops over a shrinking slice carry the remaining slice; loops that are not
  structurally recursive take fuel (the wrappers supply enough, proved in the
  lemmas);
* index-out-of-bounds panics of the `&str` functions (whose precondition is
  UTF-8 validity) are values: those models return `Option` (`none` = panic).
-/
namespace EncodingRs.Model.Bidi

/-- `ascii::STRIDE` -/
def STRIDE : Nat := 16

/-! ### lib.rs range helpers, as written -/

def wsub8 (a b : Nat) : Nat := (a + 0x100 - b) % 0x100
def wsub16 (a b : Nat) : Nat := (a + 0x10000 - b) % 0x10000
def wsub32 (a b : Nat) : Nat := (a + 0x100000000 - b) % 0x100000000

/-- `i.wrapping_sub(start) < (end - start)` -/
def inRange16 (i start stop : Nat) : Bool := wsub16 i start < stop - start
def inRange32 (i start stop : Nat) : Bool := wsub32 i start < stop - start
/-- `i.wrapping_sub(start) <= (end - start)` -/
def inInclusiveRange8 (i start stop : Nat) : Bool := wsub8 i start ≤ stop - start
def inInclusiveRange16 (i start stop : Nat) : Bool := wsub16 i start ≤ stop - start
def inInclusiveRange32 (i start stop : Nat) : Bool := wsub32 i start ≤ stop - start

/-! ### `is_char_bidi`, `is_utf16_code_unit_bidi` -/

/-- `mem::is_char_bidi` (sequence of early returns) -/
def isCharBidi (codePoint : Nat) : Bool :=
  if codePoint < 0x0590 then false
  else if inRange32 codePoint 0x0900 0xFB1D then
    (if inInclusiveRange32 codePoint 0x200F 0x2067 then
      codePoint == 0x200F || codePoint == 0x202B || codePoint == 0x202E || codePoint == 0x2067
    else false)
  else if codePoint > 0x1EFFF then false
  else if inRange32 codePoint 0x11000 0x1E800 then false
  else if inRange32 codePoint 0xFEFF 0x10800 then false
  else if inRange32 codePoint 0xFE00 0xFE70 then false
  else true

/-- `mem::is_utf16_code_unit_bidi` -/
def isUtf16CodeUnitBidi (u : Nat) : Bool :=
  if u < 0x0590 then false
  else if inRange16 u 0x0900 0xD802 then
    (if inInclusiveRange16 u 0x200F 0x2067 then
      u == 0x200F || u == 0x202B || u == 0x202E || u == 0x2067
    else false)
  else if inRange16 u 0xD83C 0xFB1D then false
  else if inRange16 u 0xD804 0xD83A then false
  else if u > 0xFEFE then false
  else if inRange16 u 0xFE00 0xFE70 then false
  else true

/-! ### `unit_check_impl!` : `is_ascii`, `is_basic_latin`, `is_utf16_latin1` -/

/-- `tail.iter().copied().reduce(|a, b| a | b)` then `reduced < bound`, `true` if empty -/
def reduceOrBelow (bound : Nat) : List Nat → Bool
  | [] => true
  | a :: t => t.foldl (· ||| ·) a < bound

/-- `unit_check_impl!`: every full stride must pass the stride kernel
(`s.iter().all(|b| *b < bound)`, ascii.rs), the tail is OR-reduced and compared. -/
def unitCheck (stride bound : Nat) : Nat → List Nat → Bool
  | 0, buf => reduceOrBelow bound buf
  | fuel + 1, buf =>
    if stride ≤ buf.length then
      if (buf.take stride).all (fun b => decide (b < bound)) then unitCheck stride bound fuel (buf.drop stride)
      else false
    else reduceOrBelow bound buf

/-- `mem::is_ascii` -/
def isAscii (buf : List Nat) : Bool := unitCheck STRIDE 0x80 buf.length buf
/-- `mem::is_basic_latin` -/
def isBasicLatin (buf : List Nat) : Bool := unitCheck STRIDE 0x80 buf.length buf
/-- `mem::is_utf16_latin1` -/
def isUtf16Latin1 (buf : List Nat) : Bool := unitCheck STRIDE 0x100 buf.length buf

/-! ### `ascii::validate_ascii` (default `ascii_valid_impl`) -/

/-- the scalar scan (`for slot in tail.iter()` and `validate_ascii_stride_tail`):
first byte `>= 0x80` and its index, counted from `consumed` -/
def scanNonAscii (consumed : Nat) : List Nat → Option (Nat × Nat)
  | [] => none
  | b :: r => if b ≥ 0x80 then some (b, consumed) else scanNonAscii (consumed + 1) r

/-- `ascii_valid_impl`: full strides through `validate_ascii_stride`
(`is_ascii(stride)` else `validate_ascii_stride_tail`, whose unreachable
fall-through value is `(0, 0)`), then the tail scan. -/
def validateAsciiLoop (stride : Nat) : Nat → Nat → List Nat → Option (Nat × Nat)
  | 0, consumed, buf => scanNonAscii consumed buf
  | fuel + 1, consumed, buf =>
    if stride ≤ buf.length then
      if (buf.take stride).all (fun b => decide (b < 0x80)) then
        validateAsciiLoop stride fuel (consumed + stride) (buf.drop stride)
      else
        match scanNonAscii 0 (buf.take stride) with
        | some (b, pos) => some (b, consumed + pos)
        | none => some (0, consumed + 0)
    else scanNonAscii consumed buf

/-- `ascii::validate_ascii`: `Some((first non-ASCII byte, its index))` or `None` -/
def validateAscii (buf : List Nat) : Option (Nat × Nat) := validateAsciiLoop STRIDE buf.length 0 buf

/-! ### `is_utf8_latin1_impl`, `is_str_latin1_impl` -/

/-- `mem::is_utf8_latin1_impl`: `None` = all Latin1, `Some(offset)` = where it stopped -/
def isUtf8Latin1Loop : Nat → Nat → List Nat → Option Nat
  | 0, _, _ => none
  | fuel + 1, total, bytes =>
    match validateAscii bytes with
    | none => none
    | some (byte, offset) =>
      let total := total + offset
      if inInclusiveRange8 byte 0xC2 0xC3 then
        let next := offset + 1
        if next == bytes.length then some total
        else if ((bytes.getD next 0) &&& 0xC0) != 0x80 then some total
        else isUtf8Latin1Loop fuel (total + 2) (bytes.drop (offset + 2))
      else some total

def isUtf8Latin1Impl (buf : List Nat) : Option Nat := isUtf8Latin1Loop (buf.length + 1) 0 buf

/-- `mem::is_utf8_latin1` -/
def isUtf8Latin1 (buf : List Nat) : Bool := (isUtf8Latin1Impl buf).isNone

/-- `mem::is_str_latin1_impl` (non-SIMD). Outer `Option`: `none` = the slice
`&bytes[offset + 2..]` panics (impossible for valid UTF-8). -/
def isStrLatin1Loop : Nat → Nat → List Nat → Option (Option Nat)
  | 0, _, _ => some none
  | fuel + 1, total, bytes =>
    match validateAscii bytes with
    | none => some none
    | some (byte, offset) =>
      let total := total + offset
      if byte > 0xC3 then some (some total)
      else if offset + 2 ≤ bytes.length then isStrLatin1Loop fuel (total + 2) (bytes.drop (offset + 2))
      else none

def isStrLatin1Impl (buf : List Nat) : Option (Option Nat) := isStrLatin1Loop (buf.length + 1) 0 buf

/-- `mem::is_str_latin1` (`is_str_latin1_impl(buffer).is_none()`); `none` = panic -/
def isStrLatin1 (buf : List Nat) : Option Bool := (isStrLatin1Impl buf).map Option.isNone

/-! ### `is_utf16_bidi`, `check_utf16_for_latin1_and_bidi` -/

/-- `mem::is_utf16_bidi` (`buffer.iter().any(|c| is_utf16_code_unit_bidi(*c))`) -/
def isUtf16Bidi (buf : List Nat) : Bool := buf.any isUtf16CodeUnitBidi

inductive Latin1Bidi where
  | latin1 | leftToRight | bidi
  deriving DecidableEq, Repr

/-- the inner `loop` of `check_utf16_for_latin1_and_bidi_impl` (after the first non-Latin1 unit) -/
def checkUtf16Rest : List Nat → Latin1Bidi
  | [] => .leftToRight
  | u :: r => if isUtf16CodeUnitBidi u then .bidi else checkUtf16Rest r

/-- `mem::check_utf16_for_latin1_and_bidi` -/
def checkUtf16 : List Nat → Latin1Bidi
  | [] => .latin1
  | u :: r =>
    if u < 0x100 then checkUtf16 r
    else if isUtf16CodeUnitBidi u then .bidi
    else checkUtf16Rest r

/-! ### `is_utf8_bidi` -/

/-- `UTF8_DATA.table[i]` (table regenerated from utf_8.rs) -/
def utf8Data (i : Nat) : Nat := Gen.utf8DataTable.getD i 0

/-- `((UTF8_DATA.table[second] & UTF8_DATA.table[byte + 0x80]) | (third >> 6)) != 2` -/
def bad3 (byte second third : Nat) : Bool :=
  ((utf8Data second &&& utf8Data (byte + 0x80)) ||| (third >>> 6)) != 2

/-- `(u16(UTF8_DATA.table[second] & UTF8_DATA.table[byte + 0x80]) | u16(third >> 6) | (u16(fourth & 0xC0) << 2)) != 0x202` -/
def bad4 (byte second third fourth : Nat) : Bool :=
  ((utf8Data second &&& utf8Data (byte + 0x80)) ||| (third >>> 6) ||| ((fourth &&& 0xC0) <<< 2)) != 0x202

/-- outcome of one `match byte { … }`: `return b`, "ASCII: go back to SIMD"
(`read += 1; continue 'outer`), or fall out of the match with `read += n` -/
inductive Step where
  | ret (b : Bool)
  | ascii
  | adv (n : Nat)
  deriving DecidableEq, Repr

/-- the `0xE2` arm after the validity check -/
def e2Bidi (second third : Nat) : Bool :=
  if second == 0x80 then (third == 0x8F || third == 0xAB || third == 0xAE)
  else if second == 0x81 then third == 0xA7
  else false

/-- the `0xEF` arm after the validity check -/
def efBidi (second third : Nat) : Bool :=
  if inInclusiveRange8 second 0xAC 0xB7 then
    (if second == 0xAC then third > 0x9C else true)
  else if inInclusiveRange8 second 0xB9 0xBB then
    (if second == 0xB9 then third > 0xAF
     else if second == 0xBB then third != 0xBF
     else true)
  else false

/-- the `match byte` of the `'inner` loop (at least four bytes `byte second third fourth` remain) -/
def innerStep (byte second third fourth : Nat) : Step :=
  if byte ≤ 0x7F then .ascii
  else if 0xC2 ≤ byte ∧ byte ≤ 0xD5 then
    if !inInclusiveRange8 second 0x80 0xBF then .ret true else .adv 2
  else if byte = 0xD6 then
    if !inInclusiveRange8 second 0x80 0xBF then .ret true
    else if second > 0x8F then .ret true
    else .adv 2
  else if byte = 0xE1 ∨ (0xE3 ≤ byte ∧ byte ≤ 0xEC) ∨ byte = 0xEE then
    if bad3 byte second third then .ret true else .adv 3
  else if byte = 0xE2 then
    if bad3 byte second third then .ret true
    else if e2Bidi second third then .ret true
    else .adv 3
  else if byte = 0xEF then
    if bad3 byte second third then .ret true
    else if efBidi second third then .ret true
    else .adv 3
  else if byte = 0xE0 then
    if bad3 byte second third then .ret true
    else if second < 0xA4 then .ret true
    else .adv 3
  else if byte = 0xED then
    if bad3 byte second third then .ret true else .adv 3
  else if 0xF1 ≤ byte ∧ byte ≤ 0xF4 then
    if bad4 byte second third fourth then .ret true else .adv 4
  else if byte = 0xF0 then
    if bad4 byte second third fourth then .ret true
    else if (second == 0x90 || second == 0x9E) && third ≥ 0xA0 then .ret true
    else .adv 4
  else .ret true

/-- outcome of the second `match byte` (fewer than four bytes remain):
`return b`, or `src = &src[read + n..]; continue 'outer` -/
inductive TailStep where
  | ret (b : Bool)
  | cont (n : Nat)
  deriving DecidableEq, Repr

/-- the second `match byte { … }` followed by `return false`; `rest` is
`src[read..]` (so `new_read > src.len()` is `n > rest.length`), `byte` its first element -/
def tailStep (byte : Nat) (rest : List Nat) : TailStep :=
  let second := rest.getD 1 0
  let third := rest.getD 2 0
  if byte ≤ 0x7F then .cont 1
  else if 0xC2 ≤ byte ∧ byte ≤ 0xD5 then
    if 2 > rest.length then .ret true
    else if !inInclusiveRange8 second 0x80 0xBF then .ret true
    else .cont 2
  else if byte = 0xD6 then
    if 2 > rest.length then .ret true
    else if !inInclusiveRange8 second 0x80 0xBF then .ret true
    else if second > 0x8F then .ret true
    else .cont 2
  else if byte = 0xE1 ∨ (0xE3 ≤ byte ∧ byte ≤ 0xEC) ∨ byte = 0xEE then
    if 3 > rest.length then .ret true
    else if bad3 byte second third then .ret true
    else .ret false
  else if byte = 0xE2 then
    if 3 > rest.length then .ret true
    else if bad3 byte second third then .ret true
    else if e2Bidi second third then .ret true
    else .ret false
  else if byte = 0xEF then
    if 3 > rest.length then .ret true
    else if bad3 byte second third then .ret true
    else if efBidi second third then .ret true
    else .ret false
  else if byte = 0xE0 then
    if 3 > rest.length then .ret true
    else if bad3 byte second third then .ret true
    else if second < 0xA4 then .ret true
    else .ret false
  else if byte = 0xED then
    if 3 > rest.length then .ret true
    else if bad3 byte second third then .ret true
    else .ret false
  else .ret true

/-- where the control of `is_utf8_bidi` is: top of `'outer` (slice = `src`),
top of `'inner` (slice = `src[read..]`, at least 4 long, first element `byte`),
or at the second `match` (slice = `src[read..]`, first element `byte`) -/
inductive Mode where
  | outer
  | inner (byte : Nat)
  | tail (byte : Nat)

/-- `mem::is_utf8_bidi` as a transition system; one unit of fuel per transition -/
def utf8BidiLoop : Nat → Mode → List Nat → Bool
  | 0, _, _ => false
  | fuel + 1, .outer, src =>
    match validateAscii src with
    | none => false
    | some (byte, read) =>
      if read + 4 ≤ src.length then utf8BidiLoop fuel (.inner byte) (src.drop read)
      else utf8BidiLoop fuel (.tail byte) (src.drop read)
  | fuel + 1, .inner byte, rest =>
    match innerStep byte (rest.getD 1 0) (rest.getD 2 0) (rest.getD 3 0) with
    | .ret b => b
    | .ascii => utf8BidiLoop fuel .outer (rest.drop 1)
    | .adv n =>
      let rest' := rest.drop n
      if 4 > rest'.length then
        if rest'.length = 0 then false
        else utf8BidiLoop fuel (.tail (rest'.getD 0 0)) rest'
      else utf8BidiLoop fuel (.inner (rest'.getD 0 0)) rest'
  | fuel + 1, .tail byte, rest =>
    match tailStep byte rest with
    | .ret b => b
    | .cont n => utf8BidiLoop fuel .outer (rest.drop n)

/-- `mem::is_utf8_bidi` -/
def isUtf8Bidi (buf : List Nat) : Bool := utf8BidiLoop (2 * buf.length + 2) .outer buf

/-! ### `is_str_bidi` -/

/-- outcome of one iteration of `'inner` of `is_str_bidi`; `panic` = index out of bounds -/
inductive StrStep where
  | ret (b : Bool)
  | ascii
  | adv (n : Nat)
  | panic
  deriving DecidableEq, Repr

/-- `bytes[read + i]` on `rest = bytes[read..]` -/
def idx (rest : List Nat) (i : Nat) (k : Nat → StrStep) : StrStep :=
  match rest[i]? with
  | none => .panic
  | some b => k b

/-- body of `'inner` of `is_str_bidi` up to `read += n` -/
def strStep (byte : Nat) (rest : List Nat) : StrStep :=
  if byte < 0xE0 then
    if byte ≥ 0x80 then
      if byte ≥ 0xD6 then
        if byte = 0xD6 then
          idx rest 1 fun second => if second > 0x8F then .ret true else .adv 2
        else .ret true
      else .adv 2
    else .ascii
  else if byte < 0xF0 then
    if !inInclusiveRange8 byte 0xE3 0xEE && byte != 0xE1 then
      idx rest 1 fun second =>
        if byte = 0xE0 then
          if second < 0xA4 then .ret true else .adv 3
        else if byte = 0xE2 then
          idx rest 2 fun third => if e2Bidi second third then .ret true else .adv 3
        else
          -- debug_assert_eq!(byte, 0xEF)
          if inInclusiveRange8 second 0xAC 0xB7 then
            if second = 0xAC then
              idx rest 2 fun third => if third > 0x9C then .ret true else .adv 3
            else .ret true
          else if inInclusiveRange8 second 0xB9 0xBB then
            if second = 0xB9 then
              idx rest 2 fun third => if third > 0xAF then .ret true else .adv 3
            else if second = 0xBB then
              idx rest 2 fun third => if third != 0xBF then .ret true else .adv 3
            else .ret true
          else .adv 3
    else .adv 3
  else
    idx rest 1 fun second =>
      if byte = 0xF0 ∧ (second = 0x90 ∨ second = 0x9E) then
        idx rest 2 fun third => if third ≥ 0xA0 then .ret true else .adv 4
      else .adv 4

/-- `mem::is_str_bidi`; `inner = none`: top of `'outer`; `inner = some byte`: top of `'inner` -/
def strBidiLoop : Nat → Option Nat → List Nat → Option Bool
  | 0, _, _ => some false
  | fuel + 1, none, bytes =>
    match validateAscii bytes with
    | none => some false
    | some (byte, read) => strBidiLoop fuel (some byte) (bytes.drop read)
  | fuel + 1, some byte, rest =>
    match strStep byte rest with
    | .ret b => some b
    | .panic => none
    | .ascii => strBidiLoop fuel none (rest.drop 1)
    | .adv n =>
      let rest' := rest.drop n
      if n ≥ rest.length then some false
      else strBidiLoop fuel (some (rest'.getD 0 0)) rest'

/-- `mem::is_str_bidi`; `none` = panic (impossible for valid UTF-8) -/
def isStrBidi (buf : List Nat) : Option Bool := strBidiLoop (2 * buf.length + 2) none buf

/-! ### `check_utf8_for_latin1_and_bidi`, `check_str_for_latin1_and_bidi` -/

/-- `mem::check_utf8_for_latin1_and_bidi` -/
def checkUtf8 (buf : List Nat) : Latin1Bidi :=
  match isUtf8Latin1Impl buf with
  | some offset => if isUtf8Bidi (buf.drop offset) then .bidi else .leftToRight
  | none => .latin1

/-- `mem::check_str_for_latin1_and_bidi`; `none` = panic -/
def checkStr (buf : List Nat) : Option Latin1Bidi :=
  match isStrLatin1Impl buf with
  | none => none
  | some (some offset) =>
    match isStrBidi (buf.drop offset) with
    | none => none
    | some b => some (if b then .bidi else .leftToRight)
  | some none => some .latin1

end EncodingRs.Model.Bidi
