import EncodingRs.Model.Decoder
/-!
`Decoder::decode_to_utf8` / `decode_to_utf16` (lib.rs): the with-replacement loop around the
without-replacement method of the public `Decoder` (BOM life cycle included), in executable form for the
model driver.  It is the same function as `Thm.C07.Decoder.replCall`, about which the life-cycle theorems of
C05–C09 and C18 are stated (`Thm.C07ReplCallX.replCallX_eq`); it lives here, without any proof import, so
that the driver can run it.
-/
namespace EncodingRs.Model

/-- `none` = out of fuel, `some none` = the Rust panics, otherwise
`(result, read, scalar values written incl. U+FFFD, had_errors, decoder afterwards)` -/
def Decoder.replCallX {F : Fam} (k : Sink) (last : Bool) :
    Nat → Decoder F → List Nat → List (Budget × Budget) → Option (Option (Res × Nat × List Nat × Bool × Decoder F))
  | 0, _, _, _ => none
  | fuel + 1, d, src, bs =>
    match d.rawCall k src last (bs.headD (.unlimited, .unlimited)).1 (bs.headD (.unlimited, .unlimited)).2 with
    | .panic => some none
    | .ok res read out d' _ =>
      match res with
      | .malformed _ _ =>
        match Decoder.replCallX k last fuel d' (src.drop read) bs.tail with
        | some (some (r, rd, o, _, dd)) => some (some (r, read + rd, out ++ 0xFFFD :: o, true, dd))
        | some none => some none
        | none => none
      | _ => some (some (res, read, out, false, d'))

end EncodingRs.Model
