import EncodingRs.Gen.MaxLen
import EncodingRs.Model.Decoder
import EncodingRs.Model.Encoder
/-!
`max_*_buffer_length*` queries: dispatch over the variants (variant.rs) to the
formulas REGENERATED from the source (`Gen.MaxLen`), and the hand-modelled
life-cycle arms of `Decoder::max_*` (lib.rs) and the `Encoder` queries.
-/
namespace EncodingRs.Model
open EncodingRs.Gen.MaxLen

/-- `VariantDecoder::max_utf16_buffer_length` -/
def variantMaxUtf16 : (v : Gen.Variant) → (famOfVariant v).σ → Nat → Option Nat
  | .singleByte _ _ _ _, s, n => singleByteMaxUtf16BufferLength s n
  | .utf8, s, n => utf8MaxUtf16BufferLength s n
  | .gbk, s, n => gbMaxUtf16BufferLength s n
  | .gb18030, s, n => gbMaxUtf16BufferLength s n
  | .big5, s, n => big5MaxUtf16BufferLength s n
  | .eucJp, s, n => eucJpMaxUtf16BufferLength s n
  | .iso2022Jp, s, n => iso2022JpMaxUtf16BufferLength s n
  | .shiftJis, s, n => shiftJisMaxUtf16BufferLength s n
  | .eucKr, s, n => eucKrMaxUtf16BufferLength s n
  | .replacement, s, n => replacementMaxUtf16BufferLength s n
  | .utf16Be, s, n => utf16MaxUtf16BufferLength s n
  | .utf16Le, s, n => utf16MaxUtf16BufferLength s n
  | .userDefined, s, n => userDefinedMaxUtf16BufferLength s n

/-- `VariantDecoder::max_utf8_buffer_length` (with replacement) -/
def variantMaxUtf8 : (v : Gen.Variant) → (famOfVariant v).σ → Nat → Option Nat
  | .singleByte _ _ _ _, s, n => singleByteMaxUtf8BufferLength s n
  | .utf8, s, n => utf8MaxUtf8BufferLength s n
  | .gbk, s, n => gbMaxUtf8BufferLength s n
  | .gb18030, s, n => gbMaxUtf8BufferLength s n
  | .big5, s, n => big5MaxUtf8BufferLength s n
  | .eucJp, s, n => eucJpMaxUtf8BufferLength s n
  | .iso2022Jp, s, n => iso2022JpMaxUtf8BufferLength s n
  | .shiftJis, s, n => shiftJisMaxUtf8BufferLength s n
  | .eucKr, s, n => eucKrMaxUtf8BufferLength s n
  | .replacement, s, n => replacementMaxUtf8BufferLength s n
  | .utf16Be, s, n => utf16MaxUtf8BufferLength s n
  | .utf16Le, s, n => utf16MaxUtf8BufferLength s n
  | .userDefined, s, n => userDefinedMaxUtf8BufferLength s n

/-- `VariantDecoder::max_utf8_buffer_length_without_replacement` -/
def variantMaxUtf8NoRepl : (v : Gen.Variant) → (famOfVariant v).σ → Nat → Option Nat
  | .singleByte _ _ _ _, s, n => singleByteMaxUtf8BufferLengthWithoutReplacement s n
  | .utf8, s, n => utf8MaxUtf8BufferLengthWithoutReplacement s n
  | .gbk, s, n => gbMaxUtf8BufferLengthWithoutReplacement s n
  | .gb18030, s, n => gbMaxUtf8BufferLengthWithoutReplacement s n
  | .big5, s, n => big5MaxUtf8BufferLengthWithoutReplacement s n
  | .eucJp, s, n => eucJpMaxUtf8BufferLengthWithoutReplacement s n
  | .iso2022Jp, s, n => iso2022JpMaxUtf8BufferLengthWithoutReplacement s n
  | .shiftJis, s, n => shiftJisMaxUtf8BufferLengthWithoutReplacement s n
  | .eucKr, s, n => eucKrMaxUtf8BufferLengthWithoutReplacement s n
  | .replacement, s, n => replacementMaxUtf8BufferLengthWithoutReplacement s n
  | .utf16Be, s, n => utf16MaxUtf8BufferLengthWithoutReplacement s n
  | .utf16Le, s, n => utf16MaxUtf8BufferLengthWithoutReplacement s n
  | .userDefined, s, n => userDefinedMaxUtf8BufferLengthWithoutReplacement s n

inductive Query | utf8 | utf8NoRepl | utf16
deriving DecidableEq, Repr

def variantMax (q : Query) (v : Gen.Variant) (s : (famOfVariant v).σ) (n : Nat) : Option Nat :=
  match q with
  | .utf8 => variantMaxUtf8 v s n
  | .utf8NoRepl => variantMaxUtf8NoRepl v s n
  | .utf16 => variantMaxUtf16 v s n

/-- the query on whichever decoder is current -/
def curMax (q : Query) (v : Gen.Variant) : Cur (famOfVariant v) → Nat → Option Nat
  | .nominal s, n => variantMax q v s n
  | .utf8 s, n => variantMax q .utf8 s n
  | .utf16be s, n => variantMax q .utf16Be s n
  | .utf16le s, n => variantMax q .utf16Le s n

/-- the "utf8_bom" bound of the life-cycle arms for `sum` bytes that may turn out to be UTF-8 after a BOM -/
def utf8BomBound (q : Query) (sum : Nat) : Option Nat :=
  match q with
  | .utf8 => U.addO 3 (U.mulU sum 3)
  | .utf8NoRepl => U.addU sum 3
  | .utf16 => U.addU sum 1

/-- the "utf16_bom" bound -/
def utf16BomBound (q : Query) (sum : Nat) : Option Nat :=
  match q with
  | .utf8 => U.addO 1 (U.mulO 3 (U.divO (U.addU sum 1) 2))
  | .utf8NoRepl => U.addO 1 (U.mulO 3 (U.divO (U.addU sum 1) 2))
  | .utf16 => U.addO 1 (U.divO (U.addU sum 1) 2)

/-- `Decoder::max_utf8_buffer_length`, `…_without_replacement`, `max_utf16_buffer_length` (lib.rs):
the life-cycle arms. `nom` tells whether the nominal encoding is UTF-8 / UTF-16. `none` for a
finished decoder stands for the panic. -/
def Decoder.maxLen (q : Query) (v : Gen.Variant) (nom : Nominal) (d : Decoder (famOfVariant v)) (n : Nat) :
    Option Nat :=
  match d.life with
  | .converting | .atUtf8Start | .atUtf16LeStart | .atUtf16BeStart => curMax q v d.cur n
  | .atStart =>
    match utf8BomBound q n, utf16BomBound q n with
    | some u8, some u16 =>
      let utfBom := max u8 u16
      if nom = .utf8 ∨ nom = .utf16le ∨ nom = .utf16be then some utfBom
      else match curMax q v d.cur n with
        | some nonBom => some (max utfBom nonBom)
        | none => none
    | _, _ => none
  | .seenUtf8First | .seenUtf8Second =>
    match U.addU n 2 with
    | some sum =>
      match utf8BomBound q sum with
      | some u8 =>
        if nom = .utf8 then some u8
        else match curMax q v d.cur sum with
          | some nonBom => some (max u8 nonBom)
          | none => none
      | none => none
    | none => none
  | .convertingWithPendingBB =>
    match U.addU n 2 with
    | some sum => curMax q v d.cur sum
    | none => none
  | .seenUtf16LeFirst | .seenUtf16BeFirst =>
    match U.addU n 2 with
    | some sum =>
      match utf16BomBound q sum with
      | some u16 =>
        if nom = .utf16le ∨ nom = .utf16be then some u16
        else match curMax q v d.cur sum with
          | some nonBom => some (max u16 nonBom)
          | none => none
      | none => none
    | none => none
  | .finished => none

/-- `VariantEncoder::max_buffer_length_from_utf16_without_replacement` / `…_from_utf8_…` -/
def encMaxNoRepl (utf16 : Bool) : Gen.Variant → Nat → Option Nat
  | .singleByte _ _ _ _, n => if utf16 then singleByteEncMaxBufferLengthFromUtf16WithoutReplacement n
                              else singleByteEncMaxBufferLengthFromUtf8WithoutReplacement n
  | .gbk, n => if utf16 then gbEncMaxBufferLengthFromUtf16WithoutReplacement false n
               else gbEncMaxBufferLengthFromUtf8WithoutReplacement false n
  | .gb18030, n => if utf16 then gbEncMaxBufferLengthFromUtf16WithoutReplacement true n
                   else gbEncMaxBufferLengthFromUtf8WithoutReplacement true n
  | .big5, n => if utf16 then big5EncMaxBufferLengthFromUtf16WithoutReplacement n
                else big5EncMaxBufferLengthFromUtf8WithoutReplacement n
  | .eucJp, n => if utf16 then eucJpEncMaxBufferLengthFromUtf16WithoutReplacement n
                 else eucJpEncMaxBufferLengthFromUtf8WithoutReplacement n
  | .iso2022Jp, n => if utf16 then iso2022JpEncMaxBufferLengthFromUtf16WithoutReplacement n
                     else iso2022JpEncMaxBufferLengthFromUtf8WithoutReplacement n
  | .shiftJis, n => if utf16 then shiftJisEncMaxBufferLengthFromUtf16WithoutReplacement n
                    else shiftJisEncMaxBufferLengthFromUtf8WithoutReplacement n
  | .eucKr, n => if utf16 then eucKrEncMaxBufferLengthFromUtf16WithoutReplacement n
                 else eucKrEncMaxBufferLengthFromUtf8WithoutReplacement n
  | .userDefined, n => if utf16 then userDefinedEncMaxBufferLengthFromUtf16WithoutReplacement n
                       else userDefinedEncMaxBufferLengthFromUtf8WithoutReplacement n
  -- UTF-8, and UTF-16BE/LE/replacement whose output encoding is UTF-8
  | _, n => if utf16 then utf8EncMaxBufferLengthFromUtf16WithoutReplacement n
            else utf8EncMaxBufferLengthFromUtf8WithoutReplacement n

def canEncodeEverything : Gen.Variant → Bool
  | .utf8 | .utf16Be | .utf16Le | .replacement => true
  | _ => false

/-- `Encoder::max_buffer_length_from_utf{8,16}_if_no_unmappables` -/
def encMaxIfNoUnmappables (utf16 : Bool) (v : Gen.Variant) (n : Nat) : Option Nat :=
  U.addO (if canEncodeEverything v then 0 else Gen.ncrExtra) (encMaxNoRepl utf16 v n)

end EncodingRs.Model
