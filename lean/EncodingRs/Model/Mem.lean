import EncodingRs.Gen.TablesMisc
/-!
# Hand models of the conversion functions of `encoding_rs::mem` (C15)

Sources are `List Nat` (bytes / UTF-16 code units; the theorems assume the
obvious range `< 256` / `< 65536` where it matters), the destination is an
explicit capacity `cap` (`dst.len()`) and every function returns what the Rust
function returns together with the *written prefix* `dst[..written]` as a
list. Documented panics (`assert!`, slice indexing, `unreachable!`,
`debug_assert!` — the harness is built with debug assertions) are the value
`Res.panic`.

Conventions
* `Nat × List Nat` for the `*_partial` functions: `(read, dst[..written])`,
  `written` is the length of the list.
* Arithmetic is written as in the Rust (`>>>`, `&&&`, `|||`, wrapping
  subtraction on `u16`), `Lemmas/Mem.lean` rewrites it to the arithmetic form of
  `Spec/Conv.lean`.
* The stride kernels of `ascii.rs` (`ascii_to_ascii`, `ascii_to_basic_latin`,
  `basic_latin_to_ascii`; 16-unit strides, `is_ascii(stride)` then copy, else a
  per-unit tail) are modelled by the per-unit loop `asciiCopy`; in the default
  build they are observationally that loop *including* "nothing beyond the
  copied prefix is touched". The `simd-accel` kernels store a whole stride
  before validating (finding F5) — the memory effect beyond the returned prefix
  is therefore not part of the model, it is checked by the harness oracle.
* Labelled loops whose only difference is the order of tests (`'outer` /
  `'inner` / `'punctuation` of `convert_utf16_to_utf8_partial_inner`) are one
  structural recursion with the per-unit rule; each branch names the Rust
  statement it stands for.
-/
namespace EncodingRs.Model.Mem

inductive Res (α : Type) where
  | ok : α → Res α
  | panic : Res α
deriving DecidableEq, Repr

/-- `a.wrapping_sub(b)` on `u16` (`b ≤ 65536`; written with the literal first so
that definitional unfolding never recurses on the numeral) -/
def wsub16 (a b : Nat) : Nat := (65536 - b + a) % 65536

/-- prepend `k` read units and the units `w` to the result of the rest of a loop -/
def step (k : Nat) (w : List Nat) (r : Nat × List Nat) : Nat × List Nat := (k + r.1, w ++ r.2)

/-! ## `ascii.rs` copy kernels -/

/-- `ascii_to_ascii(src, dst)` & co.: `(result, written units)`; result `none`
when the first `min(src.len(), dst.len())` units are all below 0x80, else
`some (unit, index)` of the first unit `≥ 0x80`. -/
def asciiCopy : List Nat → Nat → Option (Nat × Nat) × List Nat
  | [], _ => (none, [])
  | _ :: _, 0 => (none, [])
  | u :: rest, cap + 1 =>
    if u < 0x80 then
      let r := asciiCopy rest cap
      (r.1.map (fun p => (p.1, p.2 + 1)), u :: r.2)
    else (some (u, 0), [])

/-! ### the same kernels with their 16-unit stride structure (default build)

`ascii_copy_impl_single!`: `len = min(src.len(), dst.len())`; for every complete
16-unit stride `if is_ascii(stride) { copy_stride } else { return Some(*_stride_tail) }`,
then the per-unit loop over the remaining `len % 16` units. `Thm.C15.ascii_copy_kernel_eq`
proves that this is observationally `asciiCopy`. -/

/-- per-unit scan: `copy_stride_tail` / the tail loop of `ascii_copy_impl_single!` -/
def scanUnits : List Nat → Option (Nat × Nat) × List Nat
  | [] => (none, [])
  | c :: r =>
    if c ≥ 0x80 then (some (c, 0), [])
    else ((scanUnits r).1.map (fun p => (p.1, p.2 + 1)), c :: (scanUnits r).2)

/-- the loop over the complete strides; `fuel` ≥ number of strides -/
def asciiCopyStrides : Nat → List Nat → Option (Nat × Nat) × List Nat
  | 0, s => scanUnits s
  | fuel + 1, s =>
    if 16 ≤ s.length then
      if (s.take 16).all (fun b => decide (b < 0x80)) then      -- `is_ascii(stride)`
        ((asciiCopyStrides fuel (s.drop 16)).1.map (fun p => (p.1, p.2 + 16)),
          s.take 16 ++ (asciiCopyStrides fuel (s.drop 16)).2)    -- `copy_stride`; `consumed += STRIDE`
      else scanUnits (s.take 16)                                  -- `Some(copy_stride_tail(..))`
    else scanUnits s                                              -- `src_tail`

/-- `ascii_to_ascii` & co. as written (default build) -/
def asciiCopyImpl (src : List Nat) (cap : Nat) : Option (Nat × Nat) × List Nat :=
  asciiCopyStrides src.length (src.take (min src.length cap))

/-- `ascii_valid_up_to` -/
def asciiValidUpTo : List Nat → Nat
  | [] => 0
  | b :: rest => if b < 0x80 then asciiValidUpTo rest + 1 else 0

/-- shared body of `copy_ascii_to_ascii`, `copy_ascii_to_basic_latin`,
`copy_basic_latin_to_ascii`: `(returned count, units written by the kernel)` -/
def copyAscii (src : List Nat) (cap : Nat) : Res (Nat × List Nat) :=
  if cap < src.length then .panic      -- assert!(dst.len() >= src.len())
  else match asciiCopy src cap with
    | (some (_, consumed), w) => .ok (consumed, w)
    | (none, w) => .ok (src.length, w)

def copyAsciiToAscii := copyAscii
def copyAsciiToBasicLatin := copyAscii
def copyBasicLatinToAscii := copyAscii

/-! ## UTF-16 → UTF-8 -/

/-- two-byte form as written: `(unit >> 6) as u8 | 0xC0, (unit & 0x3F) as u8 | 0x80` -/
def enc2 (u : Nat) : List Nat := [u >>> 6 ||| 0xC0, u &&& 0x3F ||| 0x80]

/-- three-byte form as written -/
def enc3 (u : Nat) : List Nat := [u >>> 12 ||| 0xE0, (u &&& 0xFC0) >>> 6 ||| 0x80, u &&& 0x3F ||| 0x80]

/-- `(u32::from(unit) << 10) + u32::from(second) - (((0xD800u32 << 10) - 0x10000u32) + 0xDC00u32)` -/
def astralOf (unit second : Nat) : Nat :=
  (unit <<< 10) + second - (((0xD800 <<< 10) - 0x10000) + 0xDC00)

/-- four-byte form as written -/
def enc4 (a : Nat) : List Nat :=
  [a >>> 18 ||| 0xF0, (a &&& 0x3F000) >>> 12 ||| 0x80, (a &&& 0xFC0) >>> 6 ||| 0x80, a &&& 0x3F ||| 0x80]

def fffd8 : List Nat := [0xEF, 0xBF, 0xBD]

/-- `convert_utf16_to_utf8_partial_inner(src, dst)` with `free = dst.len() - written`:
`(read, written bytes)`.
* unit `< 0x80`: copied by `basic_latin_to_ascii` (`'outer`) or by the
  `'punctuation` loop — both need one free byte and stop (`return (read, written)`)
  when there is none;
* any other unit reaches the top of `'inner`, which first executes
  `if written.checked_add(4).unwrap() > dst.len() { return (read, written); }`. -/
def utf16ToUtf8Inner : List Nat → Nat → Nat × List Nat
  | [], _ => (0, [])
  | u :: rest, free =>
    if u < 0x80 then
      if free = 0 then (0, [])
      else step 1 [u] (utf16ToUtf8Inner rest (free - 1))
    else if free < 4 then (0, [])
    else if u < 0x800 then step 1 (enc2 u) (utf16ToUtf8Inner rest (free - 2))
    else if wsub16 u 0xD800 > 0xDFFF - 0xD800 then step 1 (enc3 u) (utf16ToUtf8Inner rest (free - 3))
    else if wsub16 u 0xD800 ≤ 0xDBFF - 0xD800 then
      -- high surrogate
      match rest with
      | [] => (1, fffd8)                      -- `if read >= src.len()`: unpaired at the end
      | second :: rest' =>
        if wsub16 second 0xDC00 ≤ 0xDFFF - 0xDC00 then
          step 2 (enc4 (astralOf u second)) (utf16ToUtf8Inner rest' (free - 4))
        else step 1 fffd8 (utf16ToUtf8Inner (second :: rest') (free - 3))   -- fall through
    else step 1 fffd8 (utf16ToUtf8Inner rest (free - 3))    -- unpaired low surrogate

/-- the `if unit < 0x800 { loop { … } }` part of `convert_utf16_to_utf8_partial_tail` -/
def utf16ToUtf8TailLow : List Nat → Nat → Nat × List Nat
  | [], _ => (0, [])                          -- `if read >= src.len()`
  | u :: rest, free =>
    if u < 0x80 then
      if free = 0 then (0, [])                -- `if written >= dst.len()`
      else step 1 [u] (utf16ToUtf8TailLow rest (free - 1))
    else if u < 0x800 then
      if free < 2 then (0, [])                -- `if written + 2 > dst.len()`
      else step 1 (enc2 u) (utf16ToUtf8TailLow rest (free - 2))
    else (0, [])

/-- `convert_utf16_to_utf8_partial_tail(src, dst)`; only called with a
non-empty `src` (`src[read]` with `read = 0` would panic otherwise; the caller
guards with `read == src.len()`). -/
def utf16ToUtf8Tail (src : List Nat) (free : Nat) : Nat × List Nat :=
  match src with
  | [] => (0, [])
  | u :: rest =>
    if u < 0x800 then utf16ToUtf8TailLow (u :: rest) free
    else if free < 3 then (0, [])             -- `if written + 3 > dst.len()`
    else if wsub16 u 0xD800 ≤ 0xDFFF - 0xD800 then
      if wsub16 u 0xD800 ≤ 0xDBFF - 0xD800 then
        match rest with
        | [] => (1, enc3 0xFFFD)
        | second :: _ =>
          if 0xDC00 ≤ second ∧ second ≤ 0xDFFF then (0, [])   -- valid pair, will not fit: `read -= 1`
          else (1, enc3 0xFFFD)
      else (1, enc3 0xFFFD)
    else (1, enc3 u)

/-- `mem::convert_utf16_to_utf8_partial` -/
def convertUtf16ToUtf8Partial (src : List Nat) (cap : Nat) : Nat × List Nat :=
  let r := utf16ToUtf8Inner src cap
  if r.1 = src.length then r
  else
    let t := utf16ToUtf8Tail (src.drop r.1) (cap - r.2.length)
    (r.1 + t.1, r.2 ++ t.2)

/-- `mem::convert_utf16_to_utf8`: `assert!(dst.len() >= src.len() * 3)`, then the
partial form; `debug_assert_eq!(read, src.len())` -/
def convertUtf16ToUtf8 (src : List Nat) (cap : Nat) : Res (List Nat) :=
  if cap < src.length * 3 then .panic
  else
    let r := convertUtf16ToUtf8Partial src cap
    if r.1 = src.length then .ok r.2 else .panic

/-- `convert_utf16_to_str_partial`: same counts and prefix (the zeroing of
trailing continuation bytes beyond `written` is checked by the harness oracle
"destination stays valid UTF-8") -/
def convertUtf16ToStrPartial := convertUtf16ToUtf8Partial
def convertUtf16ToStr := convertUtf16ToUtf8

/-! ## Latin1 -/

/-- `convert_latin1_to_utf8_partial`: ASCII runs through `ascii_to_ascii`
(one free byte per unit, `None` when source or destination is exhausted), a
byte `≥ 0x80` needs `total_written.checked_add(2).unwrap() <= dst_len`. -/
def convertLatin1ToUtf8Partial : List Nat → Nat → Nat × List Nat
  | [], _ => (0, [])
  | b :: rest, free =>
    if b < 0x80 then
      if free = 0 then (0, [])
      else step 1 [b] (convertLatin1ToUtf8Partial rest (free - 1))
    else if free < 2 then (0, [])
    else step 1 [b >>> 6 ||| 0xC0, b &&& 0x3F ||| 0x80] (convertLatin1ToUtf8Partial rest (free - 2))

/-- `convert_latin1_to_utf8` -/
def convertLatin1ToUtf8 (src : List Nat) (cap : Nat) : Res (List Nat) :=
  if cap < src.length * 2 then .panic
  else
    let r := convertLatin1ToUtf8Partial src cap
    if r.1 = src.length then .ok r.2 else .panic

def convertLatin1ToStrPartial := convertLatin1ToUtf8Partial
def convertLatin1ToStr := convertLatin1ToUtf8

/-- `convert_latin1_to_utf16` (`unpack_latin1`: `*s as u16`) -/
def convertLatin1ToUtf16 (src : List Nat) (cap : Nat) : Res (List Nat) :=
  if cap < src.length then .panic else .ok (src.map fun b => b)

/-- `convert_utf16_to_latin1_lossy` (`pack_latin1`: `*s as u8`; default kernels) -/
def convertUtf16ToLatin1Lossy (src : List Nat) (cap : Nat) : Res (List Nat) :=
  if cap < src.length then .panic else .ok (src.map fun u => u % 256)

/-- `is_utf8_latin1_impl(buffer).is_none()` (default build) -/
def isUtf8Latin1 : List Nat → Bool
  | [] => true
  | b :: rest =>
    if b < 0x80 then isUtf8Latin1 rest        -- `validate_ascii`
    else if 0xC2 ≤ b ∧ b ≤ 0xC3 then
      match rest with
      | [] => false                            -- `if next == bytes.len()`
      | t :: rest' => if t &&& 0xC0 != 0x80 then false else isUtf8Latin1 rest'
    else false

/-- the loop of `convert_utf8_to_latin1_lossy` (u8 arithmetic: `<<` drops the high bits) -/
def utf8ToLatin1Loop : List Nat → List Nat
  | [] => []
  | b :: rest =>
    if b < 0x80 then b :: utf8ToLatin1Loop rest
    else match rest with
      | [] => []                               -- `if total_read == src_len { return total_written; }`
      | t :: rest' => (((b &&& 0x1F) <<< 6) % 256 ||| (t &&& 0x3F)) :: utf8ToLatin1Loop rest'

/-- `convert_utf8_to_latin1_lossy`; `dbg`: debug assertions enabled
(`non_fuzz_debug_assert!(is_utf8_latin1(src))`) -/
def convertUtf8ToLatin1Lossy (dbg : Bool) (src : List Nat) (cap : Nat) : Res (List Nat) :=
  if cap < src.length then .panic
  else if dbg && !isUtf8Latin1 src then .panic
  else .ok (utf8ToLatin1Loop src)

/-- `decode_latin1`: `(borrowed?, bytes of the result)` -/
def decodeLatin1 (src : List Nat) : Res (Bool × List Nat) :=
  let upTo := asciiValidUpTo src
  if upTo ≥ src.length then .ok (true, src)
  else
    let head := src.take upTo
    let tail := src.drop upTo
    match convertLatin1ToUtf8 tail (tail.length * 2) with
    | .ok w => .ok (false, head ++ w)
    | .panic => .panic

/-- `encode_latin1_lossy` -/
def encodeLatin1Lossy (dbg : Bool) (src : List Nat) : Res (Bool × List Nat) :=
  let upTo := asciiValidUpTo src
  if upTo ≥ src.length then .ok (true, src)
  else
    let head := src.take upTo
    let tail := src.drop upTo
    match convertUtf8ToLatin1Lossy dbg tail (src.length - upTo) with
    | .ok w => .ok (false, head ++ w)
    | .panic => .panic

/-! ## UTF-16 validity -/

/-- `utf16_valid_up_to` (the stride scan and the `'surrogate` loop both
implement: skip non-surrogates and well-formed pairs, stop at the first
unpaired surrogate) -/
def utf16ValidUpTo : List Nat → Nat
  | [] => 0
  | u :: rest =>
    if u &&& 0xF800 != 0xD800 then utf16ValidUpTo rest + 1
    else if wsub16 u 0xD800 > 0xDBFF - 0xD800 then 0       -- unpaired low
    else match rest with
      | [] => 0                                             -- high at the end
      | second :: rest' =>
        if wsub16 second 0xDC00 > 0xDFFF - 0xDC00 then 0    -- high not followed by low
        else utf16ValidUpTo rest' + 2

/-- the loop of `ensure_utf16_validity`; `buf` is `buffer[offset..]`, the
result is its final content. Fuel: one iteration per replaced unit. -/
def ensureLoop : Nat → List Nat → List Nat
  | 0, buf => buf
  | fuel + 1, buf =>
    let k := utf16ValidUpTo buf
    if k ≥ buf.length then buf                              -- `if offset == buffer.len() { return; }`
    else buf.take k ++ 0xFFFD :: ensureLoop fuel (buf.drop (k + 1))

/-- `ensure_utf16_validity` -/
def ensureUtf16Validity (buf : List Nat) : List Nat := ensureLoop (buf.length + 1) buf

/-! ## UTF-8 → UTF-16 -/

def tbl (i : Nat) : Nat := Gen.utf8DataTable.getD i 0

/-- the validity test of the three-byte branches -/
def threeOk (b0 b1 b2 : Nat) : Bool := ((tbl b1 &&& tbl (b0 + 0x80)) ||| (b2 >>> 6)) == 2

/-- the validity test of the four-byte branch -/
def fourOk (b0 b1 b2 b3 : Nat) : Bool :=
  ((tbl b1 &&& tbl (b0 + 0x80)) ||| (b2 >>> 6) ||| ((b3 &&& 0xC0) <<< 2)) == 0x202

def dec2 (b0 b1 : Nat) : Nat := ((b0 &&& 0x1F) <<< 6) ||| (b1 &&& 0x3F)
def dec3 (b0 b1 b2 : Nat) : Nat := ((b0 &&& 0xF) <<< 12) ||| ((b1 &&& 0x3F) <<< 6) ||| (b2 &&& 0x3F)
def dec4 (b0 b1 b2 b3 : Nat) : Nat :=
  ((b0 &&& 0x7) <<< 18) ||| ((b1 &&& 0x3F) <<< 12) ||| ((b2 &&& 0x3F) <<< 6) ||| (b3 &&& 0x3F)

/-- `(0xD7C0 + (point >> 10)) as u16, (0xDC00 + (point & 0x3FF)) as u16` -/
def astralUnits (p : Nat) : List Nat := [0xD7C0 + (p >>> 10), 0xDC00 + (p &&& 0x3FF)]

/-- `convert_utf8_to_utf16_up_to_invalid(src, dst)`: `(read, written units)`.
Stops at the end of the source, when the destination is full (`free = 0`;
an astral character needs two free units: `if written + 1 == dst.len()`), or
at the first byte that does not start a complete well-formed sequence. The
`'inner` (at least 4 source bytes left) and `'tail` paths apply the same tests,
`'tail` with explicit length checks. -/
def utf8ToUtf16UpToInvalid : List Nat → Nat → Nat × List Nat
  | [], _ => (0, [])
  | b0 :: r0, free =>
    if free = 0 then (0, [])
    else if b0 < 0x80 then step 1 [b0] (utf8ToUtf16UpToInvalid r0 (free - 1))
    else if 0xC2 ≤ b0 ∧ b0 ≤ 0xDF then
      match r0 with
      | [] => (0, [])
      | b1 :: r1 =>
        if 0x80 ≤ b1 ∧ b1 ≤ 0xBF then step 2 [dec2 b0 b1] (utf8ToUtf16UpToInvalid r1 (free - 1))
        else (0, [])
    else if b0 < 0xF0 then
      match r0 with
      | b1 :: b2 :: r2 =>
        if threeOk b0 b1 b2 then step 3 [dec3 b0 b1 b2] (utf8ToUtf16UpToInvalid r2 (free - 1))
        else (0, [])
      | _ => (0, [])
    else
      match r0 with
      | b1 :: b2 :: b3 :: r3 =>
        if free = 1 then (0, [])
        else if fourOk b0 b1 b2 b3 then
          step 4 (astralUnits (dec4 b0 b1 b2 b3)) (utf8ToUtf16UpToInvalid r3 (free - 2))
        else (0, [])
      | _ => (0, [])

/-- `convert_utf8_to_utf16_without_replacement`: `ok none` = `None` -/
def convertUtf8ToUtf16WithoutReplacement (src : List Nat) (cap : Nat) : Res (Option (List Nat)) :=
  if cap < src.length then .panic
  else
    let r := utf8ToUtf16UpToInvalid src cap
    if r.1 = src.length then .ok (some r.2) else .ok none

/-- state of `Utf8Decoder` -/
structure DecSt where
  needed : Nat
  seen : Nat
  lower : Nat
  upper : Nat
  cp : Nat
deriving DecidableEq, Repr

def DecSt.init : DecSt := ⟨0, 0, 0x80, 0xBF, 0⟩

/-- The two nested loops of `convert_utf8_to_utf16` (outer: calls of
`decode_to_utf16_raw(&src[total_read..], &mut dst[total_written..], true)` and
`dst[total_written] = 0xFFFD` after `Malformed`; inner: the `decoder_function!`
loop of `Utf8Decoder`) as one loop over `(decoder state, remaining source,
free = dst.len() - total_written, output so far)`.
`fuel` bounds the number of iterations (`2 * src.len() + 2` suffices: an
iteration that does not consume a byte is the "unread" malformed case, which
resets the state). -/
def utf8ToUtf16Loop : Nat → DecSt → List Nat → Nat → List Nat → Res (List Nat)
  | 0, _, _, _, _ => .panic
  | fuel + 1, st, src, free, out =>
    -- loop_preamble: `if self.bytes_needed == 0 { dest.copy_utf8_up_to_invalid_from(&mut source); }`
    let fast := if st.needed = 0 then utf8ToUtf16UpToInvalid src free else (0, [])
    let src := src.drop fast.1
    let free := free - fast.2.length
    let out := out ++ fast.2
    match src with
    | [] =>
      -- `Space::Full(src_consumed)` with `last`: eof block
      if st.needed ≠ 0 then
        -- `Malformed(bad_bytes, 0)`; caller: `dst[total_written] = 0xFFFD` (bounds-checked)
        if free = 0 then .panic else .ok (out ++ [0xFFFD])
      else .ok out
    | b :: rest =>
      -- `dest.check_space_astral()`: `self.pos + 1 < self.slice.len()`
      if ¬ (1 < free) then .panic               -- `OutputFull` ⇒ `unreachable!`
      else if st.needed = 0 then
        if b < 0x80 then utf8ToUtf16Loop fuel st rest (free - 1) (out ++ [b])
        else if b < 0xC2 then utf8ToUtf16Loop fuel .init rest (free - 1) (out ++ [0xFFFD])
        else if b < 0xE0 then utf8ToUtf16Loop fuel ⟨1, 0, 0x80, 0xBF, b &&& 0x1F⟩ rest free out
        else if b < 0xF0 then
          utf8ToUtf16Loop fuel ⟨2, 0, if b = 0xE0 then 0xA0 else 0x80, if b = 0xED then 0x9F else 0xBF, b &&& 0xF⟩ rest free out
        else if b < 0xF5 then
          utf8ToUtf16Loop fuel ⟨3, 0, if b = 0xF0 then 0x90 else 0x80, if b = 0xF4 then 0x8F else 0xBF, b &&& 0x7⟩ rest free out
        else utf8ToUtf16Loop fuel .init rest (free - 1) (out ++ [0xFFFD])
      else if ¬ (st.lower ≤ b ∧ b ≤ st.upper) then
        -- `Malformed(bytes_seen + 1, 0)` with `unread_handle.unread()`: `b` stays
        utf8ToUtf16Loop fuel .init (b :: rest) (free - 1) (out ++ [0xFFFD])
      else
        let cp := (st.cp <<< 6) ||| (b &&& 0x3F)
        if st.seen + 1 ≠ st.needed then utf8ToUtf16Loop fuel ⟨st.needed, st.seen + 1, 0x80, 0xBF, cp⟩ rest free out
        else if st.needed = 3 then utf8ToUtf16Loop fuel .init rest (free - 2) (out ++ astralUnits cp)
        else utf8ToUtf16Loop fuel .init rest (free - 1) (out ++ [cp])

/-- `mem::convert_utf8_to_utf16`: `assert!(dst.len() > src.len())` -/
def convertUtf8ToUtf16 (src : List Nat) (cap : Nat) : Res (List Nat) :=
  if ¬ (cap > src.length) then .panic
  else utf8ToUtf16Loop (2 * src.length + 2) .init src cap []

/-- the loops of `convert_str_to_utf16` (no validation: the source is a `&str`;
the unchecked reads of a truncated sequence cannot happen for valid UTF-8 and
are modelled as "stop") -/
def strToUtf16Loop : List Nat → List Nat
  | [] => []
  | b0 :: r0 =>
    if b0 < 0x80 then b0 :: strToUtf16Loop r0
    else if b0 < 0xE0 then
      match r0 with
      | b1 :: r1 => dec2 b0 b1 :: strToUtf16Loop r1
      | _ => []
    else if b0 < 0xF0 then
      match r0 with
      | b1 :: b2 :: r2 => dec3 b0 b1 b2 :: strToUtf16Loop r2
      | _ => []
    else
      match r0 with
      | b1 :: b2 :: b3 :: r3 => astralUnits (dec4 b0 b1 b2 b3) ++ strToUtf16Loop r3
      | _ => []

/-- `mem::convert_str_to_utf16` -/
def convertStrToUtf16 (src : List Nat) (cap : Nat) : Res (List Nat) :=
  if cap < src.length then .panic else .ok (strToUtf16Loop src)

end EncodingRs.Model.Mem
