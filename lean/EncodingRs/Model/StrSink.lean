import EncodingRs.Gen.AsciiConsts
import EncodingRs.Model.Mem
/-!
# Memory-level models: stores into a real destination, and the trail zeroing of the `&mut str` sinks
(C05, C15; executable, used by the driver operation `zerotail`)

`Model/Mem.lean` abstracts a destination to its length and the written prefix.  Here the destination
is a byte list that is threaded through the conversion: every `dst[written] = b; written += 1;` of the
Rust code is a `List.set` at the running index.

* `utf16ToUtf8PartialMem`, `latin1ToUtf8PartialMem`: `mem::convert_utf16_to_utf8_partial` /
  `mem::convert_latin1_to_utf8_partial` **for the default (non-SIMD) kernels** — the ALU stride
  functions of `ascii.rs` (`copy_stride` after `is_ascii`, `pack_stride_tail`, `copy_stride_tail`, the
  per-unit tail loops) store exactly the units they count, so at the granularity of the pure models
  (`Model.Mem.utf16ToUtf8Inner` …) a unit's bytes are stored at `dst[written..]` and nothing else is
  touched.  `Thm/C15Mem.lean` proves: result = pure model, destination afterwards = written prefix ++
  old contents beyond `written`.  The `simd-accel` kernels (`simd_funcs.rs`) store a whole 16-byte
  stride *before* validating it and therefore do modify bytes beyond `written` (open finding F5); they
  are **not** modelled here.
* `zeroTrail`: the two loops with which `Decoder::decode_to_str*` (lib.rs) and
  `mem::convert_{utf16,latin1}_to_str_partial` (mem.rs) re-establish the `str` invariant after the
  conversion: zero `MAX_STRIDE_SIZE` bytes after `written` (not in `decode_to_str*` when
  `self.encoding == UTF_8`), then zero the continuation bytes that follow.
  `MAX_STRIDE_SIZE` is `Gen.maxStrideSize`, regenerated from `ascii.rs` on every run.
* `convertUtf16ToStrPartialMem` & co.: the `&mut str` functions = conversion, then `zeroTrail`.
-/
namespace EncodingRs.Model.StrSink
open EncodingRs.Model.Mem

/-! ## stores -/

/-- `dst[pos] = b₀; dst[pos + 1] = b₁; …` (each store is `List.set`; an out-of-range store would be a
panic in Rust — it does not occur, see `Thm.C15Mem.storeBytes_eq`; `List.set` ignores it) -/
def storeBytes : List Nat → Nat → List Nat → List Nat
  | dst, _, [] => dst
  | dst, pos, b :: bs => storeBytes (dst.set pos b) (pos + 1) bs

/-- `k` more units read -/
def rd (k : Nat) (r : Nat × Nat × List Nat) : Nat × Nat × List Nat := (k + r.1, r.2.1, r.2.2)

/-! ## UTF-16 → UTF-8, default kernels -/

/-- `convert_utf16_to_utf8_partial_inner(src, dst)` with the destination threaded through:
`(read, written, dst afterwards)`, started with `written = 0`.  Branch by branch
`Model.Mem.utf16ToUtf8Inner` with `free = dst.len() - written`; the space tests are written as in the
Rust (`written >= dst.len()`, `written.checked_add(4).unwrap() > dst.len()`). -/
def utf16ToUtf8InnerMem : List Nat → List Nat → Nat → Nat × Nat × List Nat
  | [], dst, written => (0, written, dst)
  | u :: rest, dst, written =>
    if u < 0x80 then
      -- `basic_latin_to_ascii` (default kernels: `*d = c as u8` for the units before the first
      -- non-ASCII one, whole strides only after `is_basic_latin`) / the `'punctuation` loop
      if written ≥ dst.length then (0, written, dst)
      else rd 1 (utf16ToUtf8InnerMem rest (storeBytes dst written [u]) (written + 1))
    else if written + 4 > dst.length then (0, written, dst)
    else if u < 0x800 then rd 1 (utf16ToUtf8InnerMem rest (storeBytes dst written (enc2 u)) (written + 2))
    else if wsub16 u 0xD800 > 0xDFFF - 0xD800 then
      rd 1 (utf16ToUtf8InnerMem rest (storeBytes dst written (enc3 u)) (written + 3))
    else if wsub16 u 0xD800 ≤ 0xDBFF - 0xD800 then
      match rest with
      | [] => (1, written + 3, storeBytes dst written fffd8)
      | second :: rest' =>
        if wsub16 second 0xDC00 ≤ 0xDFFF - 0xDC00 then
          rd 2 (utf16ToUtf8InnerMem rest' (storeBytes dst written (enc4 (astralOf u second))) (written + 4))
        else rd 1 (utf16ToUtf8InnerMem (second :: rest') (storeBytes dst written fffd8) (written + 3))
    else rd 1 (utf16ToUtf8InnerMem rest (storeBytes dst written fffd8) (written + 3))

/-- the `if unit < 0x800 { loop { … } }` part of `convert_utf16_to_utf8_partial_tail`; `written` is the
absolute index (the Rust function works on the sub-slice `&mut dst[written..]`) -/
def utf16ToUtf8TailLowMem : List Nat → List Nat → Nat → Nat × Nat × List Nat
  | [], dst, written => (0, written, dst)
  | u :: rest, dst, written =>
    if u < 0x80 then
      if written ≥ dst.length then (0, written, dst)
      else rd 1 (utf16ToUtf8TailLowMem rest (storeBytes dst written [u]) (written + 1))
    else if u < 0x800 then
      if written + 2 > dst.length then (0, written, dst)
      else rd 1 (utf16ToUtf8TailLowMem rest (storeBytes dst written (enc2 u)) (written + 2))
    else (0, written, dst)

/-- `convert_utf16_to_utf8_partial_tail(&src[read..], &mut dst[written..])` -/
def utf16ToUtf8TailMem (src : List Nat) (dst : List Nat) (written : Nat) : Nat × Nat × List Nat :=
  match src with
  | [] => (0, written, dst)
  | u :: rest =>
    if u < 0x800 then utf16ToUtf8TailLowMem (u :: rest) dst written
    else if written + 3 > dst.length then (0, written, dst)
    else if wsub16 u 0xD800 ≤ 0xDFFF - 0xD800 then
      if wsub16 u 0xD800 ≤ 0xDBFF - 0xD800 then
        match rest with
        | [] => (1, written + 3, storeBytes dst written (enc3 0xFFFD))
        | second :: _ =>
          if 0xDC00 ≤ second ∧ second ≤ 0xDFFF then (0, written, dst)
          else (1, written + 3, storeBytes dst written (enc3 0xFFFD))
      else (1, written + 3, storeBytes dst written (enc3 0xFFFD))
    else (1, written + 3, storeBytes dst written (enc3 u))

/-- `mem::convert_utf16_to_utf8_partial(src, dst)` on a destination holding `old`:
`(read, written, dst afterwards)` — default kernels -/
def utf16ToUtf8PartialMem (src old : List Nat) : Nat × Nat × List Nat :=
  let r := utf16ToUtf8InnerMem src old 0
  if r.1 = src.length then r
  else
    let t := utf16ToUtf8TailMem (src.drop r.1) r.2.2 r.2.1
    (r.1 + t.1, t.2.1, t.2.2)

/-! ## Latin1 → UTF-8, default kernels -/

/-- `mem::convert_latin1_to_utf8_partial` with the destination threaded through (the ASCII runs go
through `ascii_to_ascii`: default kernels, stores = counted units) -/
def latin1ToUtf8Mem : List Nat → List Nat → Nat → Nat × Nat × List Nat
  | [], dst, written => (0, written, dst)
  | b :: rest, dst, written =>
    if b < 0x80 then
      if written ≥ dst.length then (0, written, dst)
      else rd 1 (latin1ToUtf8Mem rest (storeBytes dst written [b]) (written + 1))
    else if written + 2 > dst.length then (0, written, dst)   -- `total_written.checked_add(2).unwrap() > dst_len`
    else rd 1 (latin1ToUtf8Mem rest (storeBytes dst written [b >>> 6 ||| 0xC0, b &&& 0x3F ||| 0x80]) (written + 2))

def latin1ToUtf8PartialMem (src old : List Nat) : Nat × Nat × List Nat := latin1ToUtf8Mem src old 0

/-! ## the trail zeroing of the `&mut str` sinks -/

/-- `(b & 0xC0) == 0x80` -/
def isContByte (b : Nat) : Bool := (b &&& 0xC0) == 0x80

/-- `while trail < max { bytes[trail] = 0; trail += 1; }` — `(bytes, trail)` afterwards;
`fuel` bounds the number of iterations (`bytes.len()` suffices: `max ≤ len`) -/
def zeroLoop : Nat → List Nat → Nat → Nat → List Nat × Nat
  | 0, bytes, trail, _ => (bytes, trail)
  | fuel + 1, bytes, trail, max =>
    if trail < max then zeroLoop fuel (bytes.set trail 0) (trail + 1) max else (bytes, trail)

/-- `while trail < len && ((bytes[trail] & 0xC0) == 0x80) { bytes[trail] = 0; trail += 1; }` -/
def contLoop : Nat → List Nat → Nat → List Nat
  | 0, bytes, _ => bytes
  | fuel + 1, bytes, trail =>
    if trail < bytes.length && isContByte (bytes.getD trail 0) then contLoop fuel (bytes.set trail 0) (trail + 1)
    else bytes

/-- What `decode_to_str*` / `convert_*_to_str_partial` do to the destination after the conversion has
reported `written`:

    let len = bytes.len();
    let mut trail = written;
    if <stride> {                       // mem.rs: always; lib.rs: `if self.encoding != UTF_8`
        let max = min(len, trail + MAX_STRIDE_SIZE);
        while trail < max { bytes[trail] = 0; trail += 1; }
    }
    while trail < len && ((bytes[trail] & 0xC0) == 0x80) { bytes[trail] = 0; trail += 1; }

`buf` = the destination as the conversion left it. -/
def zeroTrail (stride : Bool) (buf : List Nat) (written : Nat) : List Nat :=
  let len := buf.length
  let p := if stride then zeroLoop len buf written (min len (written + Gen.maxStrideSize)) else (buf, written)
  contLoop len p.1 p.2

/-! ## the `&mut str` functions (default kernels) -/

/-- `mem::convert_utf16_to_str_partial(src, dst)`, `dst` holding `old` -/
def convertUtf16ToStrPartialMem (src old : List Nat) : Nat × Nat × List Nat :=
  let r := utf16ToUtf8PartialMem src old
  (r.1, r.2.1, zeroTrail true r.2.2 r.2.1)

/-- `mem::convert_latin1_to_str_partial(src, dst)`, `dst` holding `old` -/
def convertLatin1ToStrPartialMem (src old : List Nat) : Nat × Nat × List Nat :=
  let r := latin1ToUtf8PartialMem src old
  (r.1, r.2.1, zeroTrail true r.2.2 r.2.1)

/-- `mem::convert_utf16_to_str`: `assert!(dst.len() >= src.len() * 3)`, the partial form,
`debug_assert_eq!(read, src.len())`; `(written, dst afterwards)` -/
def convertUtf16ToStrMem (src old : List Nat) : Res (Nat × List Nat) :=
  if old.length < src.length * 3 then .panic
  else
    let r := convertUtf16ToStrPartialMem src old
    if r.1 = src.length then .ok r.2 else .panic

/-- `mem::convert_latin1_to_str` -/
def convertLatin1ToStrMem (src old : List Nat) : Res (Nat × List Nat) :=
  if old.length < src.length * 2 then .panic
  else
    let r := convertLatin1ToStrPartialMem src old
    if r.1 = src.length then .ok r.2 else .panic

/-- `Decoder::decode_to_str*` after `decode_to_utf8*` stored the bytes `w` at the start of a
destination holding `old` and (non-UTF-8 decoders, accelerated kernels) possibly garbage after them:
`buf` is the destination at that point.  `isUtf8` is `self.encoding == UTF_8`. -/
def decodeToStrFinish (isUtf8 : Bool) (buf : List Nat) (written : Nat) : List Nat :=
  zeroTrail (!isUtf8) buf written

/-- `decode_to_string*`: the conversion writes into the spare capacity, then `set_len(old_len + written)`:
the `String`'s bytes afterwards (`spare` = the spare capacity as the conversion left it) -/
def stringAfterSetLen (oldContents spare : List Nat) (written : Nat) : List Nat :=
  oldContents ++ spare.take written

end EncodingRs.Model.StrSink
