import EncodingRs.Model.EncFam
import EncodingRs.Gen.TablesBig5Gated
import EncodingRs.Gen.TablesJisGated
import EncodingRs.Gen.TablesKoreanGated
import EncodingRs.Gen.TablesGbGated
/-!
Hand models, AS WRITTEN, of every cargo-feature-gated variant of the encode-side
lookup functions of `data.rs` and of the code of the encoder modules that the
features select (`encode_kanji` / `is_kanji_mapped` in shift_jis.rs, euc_jp.rs,
iso_2022_jp.rs; `ksx1001_encode_hangul` / `ksx1001_encode_hanja` in euc_kr.rs;
`encode_hanzi` in gb18030.rs), over the feature-gated tables regenerated into
`Gen/Tables*Gated.lean`.  The default variants are in `DataEnc.lean` / `EncFam.lean`.

Feature → what it selects (found with `grep -n "cfg(.*feature" /repo/src/*.rs`):

* `less-slow-big5-hanzi-encode`: `big5_level1_hanzi_encode` by binary search
* `fast-big5-hanzi-encode`: `big5_level1_hanzi_encode` by direct index (covers ALL unified
  ideographs, not only level 1) and the shortened `big5_other_encode`
* `less-slow-kanji-encode`: `jis0208_level1_kanji_shift_jis_encode` by binary search;
  the EUC-JP / ISO-2022-JP forms via `shift_jis_to_euc_jp` / `shift_jis_to_iso_2022_jp`
* `fast-kanji-encode`: `jis0208_kanji_{shift_jis,euc_jp,iso_2022_jp}_encode` by direct index;
  `encode_kanji` (three modules) and `is_kanji_mapped` reduced to one call
* `fast-hangul-encode`: `cp949_hangul_encode` / `ksx1001_encode_hangul` by direct index
* `fast-hanja-encode`: `ksx1001_unified_hangul_encode` [sic], `ksx1001_compatibility_hangul_encode`,
  `ksx1001_encode_hanja`
* `less-slow-gb-hanzi-encode`: `gb2312_level1_hanzi_encode` by binary search
* `fast-gb-hanzi-encode`: `gbk_hanzi_encode` / `encode_hanzi` by direct index
  (`gb2312_level2_hanzi_encode`, `gbk_top/left_ideograph_encode` are compiled out)

Conventions: a `[[u8; 2]; N]` table is regenerated flattened (`hi * 256 + lo`);
`pairAt` reads one pair.  Where the Rust would PANIC (index out of bounds,
`bmp as usize - 0x4E00` below zero, `.unwrap()` of `None`) the model yields
`panicPair = (256, 256)`, which no default variant can produce (their results are
bytes), so the equivalence theorems of `Thm/C17.lean` exclude these panics on the
whole domain.  `slice::binary_search` is `binarySearchOk` (`DataEnc.lean`).

The second half of the file gives the per-character encoder functions
parametrised by the feature-selected pieces (`…With`; the bodies are copies of the
ones in `EncFam.lean`) and their instances at the less-slow / fast pieces.  That each
instance computes the same function as the definition of `EncFam.lean` used everywhere
else in the framework is proved in `Lemmas/C17*.lean` by complete evaluation; a few
`…_eq_with` sanity lemmas (instances at the DEFAULT pieces = the `EncFam.lean`
definitions) are proved here where the kernel can check them without evaluating a
table lookup.
-/
namespace EncodingRs.Model

/-- `X = XWith <default callees>`: both sides are the same code, but the auxiliary matchers of two
modules have different names and the definitional-equality check reduces a `match` by evaluating its
discriminant - a table lookup.  The tactic turns every lookup applied to `x` that occurs as a
discriminant into a variable first; then `rfl` only unfolds the matchers. -/
syntax "lookup_rfl " term : tactic
macro_rules
  | `(tactic| lookup_rfl $x) => `(tactic| (
      try generalize jis0208Level1KanjiEucJpEncode $x = g
      try generalize jis0208Level1KanjiShiftJisEncode $x = g
      try generalize jis0208Level1KanjiIso2022JpEncode $x = g
      try generalize jis0208Level2AndAdditionalKanjiEncode $x = g
      try generalize ibmKanjiPosition $x = g
      try generalize gb2312Level1HanziEncode $x = g
      try generalize gb2312Level2HanziEncode $x = g
      try generalize big5BoxEncode $x = g
      try generalize ksx1001EncodeHanja $x = g
      try generalize ksx1001EncodeMisc $x = g
      try generalize eucJpEncodeKanji $x = g
      try generalize shiftJisEncodeKanji $x = g
      try generalize iso2022JpEncodeKanji $x = g
      try generalize shiftJisOtherPointer $x = g
      try generalize jis0208RangeEncode $x = g
      try generalize ibmSymbolEncode $x = g
      try generalize jis0208SymbolEncode $x = g
      try generalize gbkEncodeNonUnified $x = g
      rfl))

/-- what the model yields where the Rust code panics (not a pair of bytes) -/
def panicPair : Nat × Nat := (256, 256)

/-- `&TABLE[i]` of a `[[u8; 2]; N]` table: `(pair[0], pair[1])`; out of bounds = panic -/
def pairAt (t : Array Nat) (i : Nat) : Nat × Nat :=
  if i < t.size then (t.getD i 0 / 256, t.getD i 0 % 256) else panicPair

/-- `&TABLE[bmp as usize - base]`; the subtraction overflowing = panic -/
def pairAtSub (t : Array Nat) (bmp base : Nat) : Nat × Nat :=
  if bmp < base then panicPair else pairAt t (bmp - base)

/-! ### Big5 (data.rs) -/

/-- `big5_level1_hanzi_encode`, `less-slow-big5-hanzi-encode` variant -/
def big5Level1HanziEncodeLessSlow (bmp : Nat) : Option (Nat × Nat) :=
  if inInclusiveRange16 bmp 0x4E00 0x9FB1 then
    match binarySearchOk Gen.big5Level1HanziCodePoints bmp with
    | some i => some (pairAt Gen.big5Level1HanziBytes i)
    | none => none
  else none

/-- `big5_level1_hanzi_encode`, `fast-big5-hanzi-encode` variant -/
def big5Level1HanziEncodeFast (bmp : Nat) : Option (Nat × Nat) :=
  let bmpMinusIdeographStart := wsubU bmp 0x4E00
  if bmpMinusIdeographStart < Gen.big5UnifiedIdeographBytes.size then
    let pair := pairAt Gen.big5UnifiedIdeographBytes bmpMinusIdeographStart
    let lead := pair.1
    let trail := pair.2
    if lead = 0 ∧ trail = 0 then none else some (lead, trail)
  else none

/-- `big5_other_encode`, `fast-big5-hanzi-encode` variant: pointer -/
def big5OtherEncodeFast (bmp : Nat) : Option Nat :=
  if 0x4491 = bmp then some 11209 else
  if 0xFA0D = bmp then some 14598 else
  if 0xFA0C = bmp then some 11314 else
  match positionIn Gen.big5LowBits (5024 - 942) (5466 - 942) bmp with
  | some pos => some (pos + 5024)
  | none =>
  match positionIn Gen.big5LowBits (10896 - 942) (11205 - 942) bmp with
  | some pos => some (pos + 10896)
  | none =>
  match positionIn Gen.big5LowBits (11254 - 942) (11304 - 942) bmp with
  | some pos => some (pos + 11254)
  | none => big5OtherTail bmp

/-! ### JIS X 0208 (data.rs) -/

/-- `shift_jis_to_euc_jp` (`lead` is a `usize`; `lead <<= 1` may exceed the `u8` range, the
subtraction brings it back; the trail additions are `u8` additions) -/
def shiftJisToEucJp (tuple : Nat × Nat) : Nat × Nat :=
  let shiftJisLead := tuple.1
  let shiftJisTrail := tuple.2
  let lead := shiftJisLead
  let lead := if shiftJisLead ≥ 0xA0 then lead - (0xC1 - 0x81) else lead
  let lead := lead * 2
  let lead := lead - 0x61
  if shiftJisTrail ≥ 0x9F then (u8 (lead + 1), u8 (shiftJisTrail + (0xA1 - 0x9F)))
  else if shiftJisTrail < 0x7F then (u8 lead, u8 (shiftJisTrail + (0xA1 - 0x40)))
  else (u8 lead, u8 (shiftJisTrail + (0xA1 - 0x41)))

/-- `shift_jis_to_iso_2022_jp` -/
def shiftJisToIso2022Jp (tuple : Nat × Nat) : Nat × Nat :=
  let shiftJisLead := tuple.1
  let shiftJisTrail := tuple.2
  let lead := shiftJisLead
  let lead := if shiftJisLead ≥ 0xA0 then lead - (0xC1 - 0x81) else lead
  let lead := lead * 2
  let lead := lead - 0xE1
  if shiftJisTrail ≥ 0x9F then (u8 (lead + 1), u8 (shiftJisTrail - (0x9F - 0x21)))
  else if shiftJisTrail < 0x7F then (u8 lead, u8 (shiftJisTrail - (0x40 - 0x21)))
  else (u8 lead, u8 (shiftJisTrail - (0x41 - 0x21)))

/-- `jis0208_level1_kanji_shift_jis_encode`, `less-slow-kanji-encode` variant -/
def jis0208Level1KanjiShiftJisEncodeLessSlow (bmp : Nat) : Option (Nat × Nat) :=
  match binarySearchOk Gen.jis0208Level1KanjiCodePoints bmp with
  | some i => some (pairAt Gen.jis0208Level1KanjiShiftJisBytes i)
  | none => none

/-- `jis0208_level1_kanji_euc_jp_encode`, `less-slow-kanji-encode` variant -/
def jis0208Level1KanjiEucJpEncodeLessSlow (bmp : Nat) : Option (Nat × Nat) :=
  (jis0208Level1KanjiShiftJisEncodeLessSlow bmp).map shiftJisToEucJp

/-- `jis0208_level1_kanji_iso_2022_jp_encode`, `less-slow-kanji-encode` variant -/
def jis0208Level1KanjiIso2022JpEncodeLessSlow (bmp : Nat) : Option (Nat × Nat) :=
  (jis0208Level1KanjiShiftJisEncodeLessSlow bmp).map shiftJisToIso2022Jp

/-- `lead | 0x80` for a byte -/
def setHighBit (lead : Nat) : Nat := if lead / 128 % 2 = 1 then lead else lead + 128

/-- `jis0208_kanji_shift_jis_encode` (`fast-kanji-encode`) -/
def jis0208KanjiShiftJisEncodeFast (bmp : Nat) : Option (Nat × Nat) :=
  let pair := pairAtSub Gen.jis0208KanjiBytes bmp 0x4E00
  let lead := pair.1
  let trail := pair.2
  if lead = 0 ∧ trail = 0 then none
  else some (setHighBit lead, trail)

/-- `position(&IBM_KANJI[..], bmp).unwrap()` followed by the `(lead, trail)` computation -/
def ibmKanjiUnwrapBytes (bmp leadOffset trailOffset : Nat) : Nat × Nat :=
  match ibmKanjiPosition bmp with
  | some pos => (u8 (pos / 94 + leadOffset), u8 (pos % 94 + trailOffset))
  | none => panicPair

/-- `jis0208_kanji_euc_jp_encode` (`fast-kanji-encode`) -/
def jis0208KanjiEucJpEncodeFast (bmp : Nat) : Option (Nat × Nat) :=
  let pair := pairAtSub Gen.jis0208KanjiBytes bmp 0x4E00
  let lead := pair.1
  let trail := pair.2
  if lead = 0 ∧ trail = 0 then none
  else if lead / 128 % 2 = 0 then some (ibmKanjiUnwrapBytes bmp 0xF9 0xA1)
  else some (shiftJisToEucJp (lead, trail))

/-- `jis0208_kanji_iso_2022_jp_encode` (`fast-kanji-encode`) -/
def jis0208KanjiIso2022JpEncodeFast (bmp : Nat) : Option (Nat × Nat) :=
  let pair := pairAtSub Gen.jis0208KanjiBytes bmp 0x4E00
  let lead := pair.1
  let trail := pair.2
  if lead = 0 ∧ trail = 0 then none
  else if lead / 128 % 2 = 0 then some (ibmKanjiUnwrapBytes bmp (0xF9 - 0x80) 0x21)
  else some (shiftJisToIso2022Jp (lead, trail))

/-! ### `encode_kanji` / `is_kanji_mapped` (shift_jis.rs, euc_jp.rs, iso_2022_jp.rs) -/

/-- `encode_kanji` of euc_jp.rs (`not(fast-kanji-encode)`), over the level-1 lookup the features select -/
def eucJpEncodeKanjiWith (level1 : Nat → Option (Nat × Nat)) (bmp : Nat) : Option (Nat × Nat) :=
  if 0x4EDD = bmp then some (0xA1, 0xB8) else
  match level1 bmp with
  | some lt => some lt
  | none =>
  match jis0208Level2AndAdditionalKanjiEncode bmp with
  | some pos => some (u8 (pos / 94 + 0xD0), u8 (pos % 94 + 0xA1))
  | none =>
  match ibmKanjiPosition bmp with
  | some pos => some (u8 (pos / 94 + 0xF9), u8 (pos % 94 + 0xA1))
  | none => none

/-- `encode_kanji` of shift_jis.rs (`not(fast-kanji-encode)`) -/
def shiftJisEncodeKanjiWith (level1 : Nat → Option (Nat × Nat)) (bmp : Nat) : Option (Nat × Nat) :=
  match level1 bmp with
  | some lt => some lt
  | none =>
    let pointer : Option Nat :=
      if 0x4EDD = bmp then some 23 else
      match jis0208Level2AndAdditionalKanjiEncode bmp with
      | some pos => some (4418 + pos)
      | none =>
        match ibmKanjiPosition bmp with
        | some pos => some (10744 + pos)
        | none => none
    pointer.map shiftJisBytesOfPointer

/-- `encode_kanji` of iso_2022_jp.rs (`not(fast-kanji-encode)`) -/
def iso2022JpEncodeKanjiWith (level1 : Nat → Option (Nat × Nat)) (bmp : Nat) : Option (Nat × Nat) :=
  if 0x4EDD = bmp then some (0x21, 0xB8 - 0x80) else
  match level1 bmp with
  | some lt => some lt
  | none =>
  match jis0208Level2AndAdditionalKanjiEncode bmp with
  | some pos => some (u8 (pos / 94 + (0xD0 - 0x80)), u8 (pos % 94 + 0x21))
  | none =>
  match ibmKanjiPosition bmp with
  | some pos => some (u8 (pos / 94 + (0xF9 - 0x80)), u8 (pos % 94 + 0x21))
  | none => none

/-- `is_kanji_mapped` of iso_2022_jp.rs (`not(fast-kanji-encode)`) -/
def isKanjiMappedWith (level1ShiftJis : Nat → Option (Nat × Nat)) (bmp : Nat) : Bool :=
  decide (0x4EDD = bmp)
    || (level1ShiftJis bmp).isSome
    || (jis0208Level2AndAdditionalKanjiEncode bmp).isSome
    || (ibmKanjiPosition bmp).isSome

theorem isKanjiMapped_eq_with : isKanjiMapped = isKanjiMappedWith jis0208Level1KanjiShiftJisEncode := by
  funext bmp; unfold isKanjiMapped isKanjiMappedWith; rfl

/-- less-slow-kanji-encode: the same `encode_kanji` code over the binary-search lookups -/
def eucJpEncodeKanjiLessSlow : Nat → Option (Nat × Nat) := eucJpEncodeKanjiWith jis0208Level1KanjiEucJpEncodeLessSlow
def shiftJisEncodeKanjiLessSlow : Nat → Option (Nat × Nat) :=
  shiftJisEncodeKanjiWith jis0208Level1KanjiShiftJisEncodeLessSlow
def iso2022JpEncodeKanjiLessSlow : Nat → Option (Nat × Nat) :=
  iso2022JpEncodeKanjiWith jis0208Level1KanjiIso2022JpEncodeLessSlow
def isKanjiMappedLessSlow : Nat → Bool := isKanjiMappedWith jis0208Level1KanjiShiftJisEncodeLessSlow

/-- fast-kanji-encode: `encode_kanji(bmp) = jis0208_kanji_<enc>_encode(bmp)` in the three modules -/
def eucJpEncodeKanjiFast : Nat → Option (Nat × Nat) := jis0208KanjiEucJpEncodeFast
def shiftJisEncodeKanjiFast : Nat → Option (Nat × Nat) := jis0208KanjiShiftJisEncodeFast
def iso2022JpEncodeKanjiFast : Nat → Option (Nat × Nat) := jis0208KanjiIso2022JpEncodeFast
/-- fast-kanji-encode: `is_kanji_mapped(bmp) = jis0208_kanji_shift_jis_encode(bmp).is_some()` -/
def isKanjiMappedFast (bmp : Nat) : Bool := (jis0208KanjiShiftJisEncodeFast bmp).isSome

/-! ### EUC-KR (data.rs, euc_kr.rs) -/

/-- `cp949_hangul_encode` (`fast-hangul-encode`) -/
def cp949HangulEncodeFast (bmpMinusStart : Nat) : Nat × Nat := pairAt Gen.cp949HangulBytes bmpMinusStart

/-- `ksx1001_encode_hangul(bmp, bmp_minus_hangul_start)`, default variant (ignores the second argument) -/
def ksx1001EncodeHangulDefault (bmp _bmpMinusHangulStart : Nat) : Nat × Nat := ksx1001EncodeHangul bmp
/-- `ksx1001_encode_hangul`, `fast-hangul-encode` variant (ignores the first argument) -/
def ksx1001EncodeHangulFast (_bmp bmpMinusHangulStart : Nat) : Nat × Nat := cp949HangulEncodeFast bmpMinusHangulStart

/-- `ksx1001_unified_hangul_encode` [sic: Hanja] (`fast-hanja-encode`) -/
def ksx1001UnifiedHanjaEncodeFast (bmp : Nat) : Option (Nat × Nat) :=
  let pair := pairAtSub Gen.ksx1001UnifiedHanjaBytes bmp 0x4E00
  if pair.1 = 0 ∧ pair.2 = 0 then none else some (pair.1, pair.2)

/-- `ksx1001_compatibility_hangul_encode` [sic: Hanja] (`fast-hanja-encode`) -/
def ksx1001CompatibilityHanjaEncodeFast (bmp : Nat) : Nat × Nat :=
  pairAtSub Gen.ksx1001CompatibilityHanjaBytes bmp 0xF900

/-- `ksx1001_encode_hanja`, `fast-hanja-encode` variant -/
def ksx1001EncodeHanjaFast (bmp : Nat) : Option (Nat × Nat) :=
  if bmp < 0xF900 then ksx1001UnifiedHanjaEncodeFast bmp
  else some (ksx1001CompatibilityHanjaEncodeFast bmp)

/-! ### GBK / gb18030 (data.rs, gb18030.rs) -/

/-- `gb2312_level1_hanzi_encode`, `less-slow-gb-hanzi-encode` variant -/
def gb2312Level1HanziEncodeLessSlow (bmp : Nat) : Option (Nat × Nat) :=
  match binarySearchOk Gen.gb2312Level1HanziCodePoints bmp with
  | some i => some (pairAt Gen.gb2312Level1HanziBytes i)
  | none => none

/-- `gbk_hanzi_encode` (`fast-gb-hanzi-encode`) -/
def gbkHanziEncodeFast (bmpMinusStart : Nat) : Nat × Nat := pairAt Gen.gbkHanziBytes bmpMinusStart

/-- `encode_hanzi(bmp, bmp_minus_unified_start)` of gb18030.rs (`not(fast-gb-hanzi-encode)`), over the
level-1 lookup the features select; ignores the second argument -/
def gbEncodeHanziWith (level1 : Nat → Option (Nat × Nat)) (bmp _bmpMinusUnifiedStart : Nat) : Nat × Nat :=
  match level1 bmp with
  | some lt => lt
  | none =>
  match gb2312Level2HanziEncode bmp with
  | some hanziPointer => (u8 (hanziPointer / 94 + 0xD8), u8 (hanziPointer % 94 + 0xA1))
  | none =>
    let lt : Nat × Nat :=
      if bmp < 0x72DC then
        let pointer := gbkTopIdeographEncode bmp
        (pointer / 190 + 0x81, pointer % 190)
      else
        let pointer := gbkLeftIdeographEncode bmp
        (pointer / (190 - 94) + (0x81 + 0x29), pointer % (190 - 94))
    let offset := if lt.2 < 0x3F then 0x40 else 0x41
    (u8 lt.1, u8 (lt.2 + offset))

def gbEncodeHanziDefault : Nat → Nat → Nat × Nat := gbEncodeHanziWith gb2312Level1HanziEncode
def gbEncodeHanziLessSlow : Nat → Nat → Nat × Nat := gbEncodeHanziWith gb2312Level1HanziEncodeLessSlow
/-- `encode_hanzi`, `fast-gb-hanzi-encode` variant (ignores the first argument) -/
def gbEncodeHanziFast (_bmp bmpMinusUnifiedStart : Nat) : Nat × Nat := gbkHanziEncodeFast bmpMinusUnifiedStart

/-! ## The per-character encoder functions over the feature-selected pieces

Each `…With` function is the `$bmp_body` of the encoder exactly as in `EncFam.lean`,
with the feature-selected callee(s) as parameters. -/

/-! ### big5.rs -/

/-- `big5_box_encode`, then the given `big5_other_encode` -/
def big5EncodePointerWith (other : Nat → Option Nat) (bmp : Nat) : Option Nat :=
  match big5BoxEncode bmp with
  | some pointer => some pointer
  | none => other bmp

def big5EncodeBmpWith (level1 : Nat → Option (Nat × Nat)) (other : Nat → Option Nat) (bmp : Nat) : Option (List Nat) :=
  big5EncodeBmpOf (level1 bmp) (big5EncodePointerWith other bmp)

def big5EncodeCharWith (level1 : Nat → Option (Nat × Nat)) (other : Nat → Option Nat) (c : Nat) : Option (List Nat) :=
  if c < 0x80 then some [c]
  else if c > 0xFFFF then big5EncodeAstral c
  else big5EncodeBmpWith level1 other c

/-- `less-slow-big5-hanzi-encode` changes `big5_level1_hanzi_encode` only: the `$bmp_body` over
`big5EncodePointer` of `EncFam.lean` itself -/
def big5EncodeBmpLessSlow (bmp : Nat) : Option (List Nat) :=
  big5EncodeBmpOf (big5Level1HanziEncodeLessSlow bmp) (big5EncodePointer bmp)

def big5EncodeCharLessSlow (c : Nat) : Option (List Nat) :=
  if c < 0x80 then some [c]
  else if c > 0xFFFF then big5EncodeAstral c
  else big5EncodeBmpLessSlow c
def big5EncodeCharFast : Nat → Option (List Nat) := big5EncodeCharWith big5Level1HanziEncodeFast big5OtherEncodeFast

/-! ### euc_kr.rs -/

def eucKrEncodeBmpWith (hangul : Nat → Nat → Nat × Nat) (hanja : Nat → Option (Nat × Nat)) (bmp : Nat) :
    Option (List Nat) :=
  let bmpMinusHangulStart := wsub16 bmp 0xAC00
  if bmpMinusHangulStart < 0xD7A4 - 0xAC00 then
    let lt := hangul bmp bmpMinusHangulStart
    some [lt.1, lt.2]
  else if inRange16 bmp 0x33DE 0xFF01 then
    if inRange16 bmp 0x4E00 0x9F9D || inRange16 bmp 0xF900 0xFA0C then
      match hanja bmp with
      | some (hanjaLead, hanjaTrail) => some [hanjaLead, hanjaTrail]
      | none => none
    else none
  else
    match ksx1001EncodeMisc bmp with
    | some (lead, trail) => some [u8 lead, u8 trail]
    | none => none

def eucKrEncodeCharWith (hangul : Nat → Nat → Nat × Nat) (hanja : Nat → Option (Nat × Nat)) (c : Nat) :
    Option (List Nat) :=
  if c < 0x80 then some [c]
  else if c > 0xFFFF then none
  else eucKrEncodeBmpWith hangul hanja c

theorem eucKrEncodeChar_eq_with : eucKrEncodeChar = eucKrEncodeCharWith ksx1001EncodeHangulDefault ksx1001EncodeHanja := by
  funext c
  unfold eucKrEncodeChar eucKrEncodeCharWith eucKrEncodeBmp eucKrEncodeBmpWith ksx1001EncodeHangulDefault
  lookup_rfl c

/-- `fast-legacy-encode` (= fast-hangul-encode + fast-hanja-encode) -/
def eucKrEncodeCharFast : Nat → Option (List Nat) := eucKrEncodeCharWith ksx1001EncodeHangulFast ksx1001EncodeHanjaFast
/-- `fast-hangul-encode` alone / `fast-hanja-encode` alone -/
def eucKrEncodeCharFastHangul : Nat → Option (List Nat) := eucKrEncodeCharWith ksx1001EncodeHangulFast ksx1001EncodeHanja
def eucKrEncodeCharFastHanja : Nat → Option (List Nat) :=
  eucKrEncodeCharWith ksx1001EncodeHangulDefault ksx1001EncodeHanjaFast

/-! ### euc_jp.rs -/

def eucJpEncodeBmpWith (kanji : Nat → Option (Nat × Nat)) (bmp : Nat) : Option (List Nat) :=
  let bmpMinusHiragana := wsub16 bmp 0x3041
  if bmpMinusHiragana < 0x53 then some [0xA4, 0xA1 + u8 bmpMinusHiragana]
  else if inInclusiveRange16 bmp 0x4E00 0x9FA0 then
    match kanji bmp with
    | some (lead, trail) => some [lead, trail]
    | none => none
  else
    let bmpMinusKatakana := wsub16 bmp 0x30A1
    if bmpMinusKatakana < 0x56 then some [0xA5, 0xA1 + u8 bmpMinusKatakana]
    else
      let bmpMinusSpace := wsub16 bmp 0x3000
      if bmpMinusSpace < 3 then some [0xA1, 0xA1 + u8 bmpMinusSpace]
      else if bmp = 0xA5 then some [0x5C]
      else if bmp = 0x203E then some [0x7E]
      else if inInclusiveRange16 bmp 0xFF61 0xFF9F then some [0x8E, u8 (bmp - (0xFF61 - 0xA1))]
      else if bmp = 0x2212 then some [0xA1, 0xDD]
      else
      match jis0208RangeEncode bmp with
      | some pointer => some (bytes94 pointer 0xA1 0xA1)
      | none =>
      if inInclusiveRange16 bmp 0xFA0E 0xFA2D || decide (bmp = 0xF929) || decide (bmp = 0xF9DC) then
        let pos := (ibmKanjiPosition bmp).getD 0
        some (bytes94 pos 0xF9 0xA1)
      else
      match ibmSymbolEncode bmp with
      | some pointer => some (bytes94 pointer 0xA1 0xA1)
      | none =>
      match jis0208SymbolEncode bmp with
      | some pointer => some (bytes94 pointer 0xA1 0xA1)
      | none => none

def eucJpEncodeCharWith (kanji : Nat → Option (Nat × Nat)) (c : Nat) : Option (List Nat) :=
  if c < 0x80 then some [c]
  else if c > 0xFFFF then none
  else eucJpEncodeBmpWith kanji c

def eucJpEncodeCharLessSlow : Nat → Option (List Nat) := eucJpEncodeCharWith eucJpEncodeKanjiLessSlow
def eucJpEncodeCharFast : Nat → Option (List Nat) := eucJpEncodeCharWith eucJpEncodeKanjiFast

/-! ### shift_jis.rs -/

def shiftJisEncodeBmpWith (kanji : Nat → Option (Nat × Nat)) (bmp : Nat) : Option (List Nat) :=
  let bmpMinusHiragana := wsub16 bmp 0x3041
  if bmpMinusHiragana < 0x53 then some [0x82, 0x9F + u8 bmpMinusHiragana]
  else if inInclusiveRange16 bmp 0x4E00 0x9FA0 then
    match kanji bmp with
    | some (lead, trail) => some [lead, trail]
    | none => none
  else
    let bmpMinusKatakana := wsub16 bmp 0x30A1
    if bmpMinusKatakana < 0x56 then
      let trailOffset := if bmpMinusKatakana < 0x3F then 0x40 else 0x41
      some [0x83, u8 (trailOffset + bmpMinusKatakana)]
    else
      let bmpMinusSpace := wsub16 bmp 0x3000
      if bmpMinusSpace < 3 then some [0x81, 0x40 + u8 bmpMinusSpace]
      else if bmp = 0xA5 then some [0x5C]
      else if bmp = 0x80 then some [0x80]
      else if bmp = 0x203E then some [0x7E]
      else if inInclusiveRange16 bmp 0xFF61 0xFF9F then some [u8 (bmp - (0xFF61 - 0xA1))]
      else if bmp = 0x2212 then some [0x81, 0x7C]
      else
        match shiftJisOtherPointer bmp with
        | some pointer =>
          let lt := shiftJisBytesOfPointer pointer
          some [lt.1, lt.2]
        | none => none

def shiftJisEncodeCharWith (kanji : Nat → Option (Nat × Nat)) (c : Nat) : Option (List Nat) :=
  if c < 0x80 then some [c]
  else if c > 0xFFFF then none
  else shiftJisEncodeBmpWith kanji c

theorem shiftJisEncodeChar_eq_with : shiftJisEncodeChar = shiftJisEncodeCharWith shiftJisEncodeKanji := by
  funext c
  unfold shiftJisEncodeChar shiftJisEncodeCharWith shiftJisEncodeBmp shiftJisEncodeBmpWith
  lookup_rfl c

def shiftJisEncodeCharLessSlow : Nat → Option (List Nat) := shiftJisEncodeCharWith shiftJisEncodeKanjiLessSlow
def shiftJisEncodeCharFast : Nat → Option (List Nat) := shiftJisEncodeCharWith shiftJisEncodeKanjiFast

/-! ### gb18030.rs -/

def gbEncodeBmpWith (hanzi : Nat → Nat → Nat × Nat) (extended : Bool) (bmp : Nat) : Option (List Nat) :=
  let bmpMinusUnifiedStart := wsub16 bmp 0x4E00
  if bmpMinusUnifiedStart < 0x9FA6 - 0x4E00 then
    let lt := hanzi bmp bmpMinusUnifiedStart
    some [lt.1, lt.2]
  else if bmp = 0xE5E5 then none
  else if bmp = 0x20AC ∧ extended = false then some [0x80]
  else
    match gbkEncodeNonUnified bmp with
    | some (lead, trail) => some [u8 lead, u8 trail]
    | none =>
      if extended = false then none
      else some (gb18030FourBytes (gb18030RangeEncode bmp))

def gbEncodeCharWith (hanzi : Nat → Nat → Nat × Nat) (extended : Bool) (c : Nat) : Option (List Nat) :=
  if c < 0x80 then some [c]
  else if c > 0xFFFF then gbEncodeAstral extended c
  else gbEncodeBmpWith hanzi extended c

def gbEncodeCharLessSlow : Bool → Nat → Option (List Nat) := gbEncodeCharWith gbEncodeHanziLessSlow
def gbEncodeCharFast : Bool → Nat → Option (List Nat) := gbEncodeCharWith gbEncodeHanziFast

/-! ### iso_2022_jp.rs -/

/-- `is_mapped_for_two_byte_encode` over the `is_kanji_mapped` the features select -/
def isMappedForTwoByteEncodeWith (kanjiMapped : Nat → Bool) (bmp : Nat) : Bool :=
  let bmpMinusHiragana := wsub16 bmp 0x3041
  if bmpMinusHiragana < 0x53 then true
  else if inInclusiveRange16 bmp 0x4E00 0x9FA0 then kanjiMapped bmp
  else
    let bmpMinusKatakana := wsub16 bmp 0x30A1
    if bmpMinusKatakana < 0x56 then true
    else
      let bmpMinusSpace := wsub16 bmp 0x3000
      decide (bmpMinusSpace < 3)
        || inInclusiveRange16 bmp 0xFF61 0xFF9F
        || decide (bmp = 0x2212)
        || (jis0208RangeEncode bmp).isSome
        || inInclusiveRange16 bmp 0xFA0E 0xFA2D
        || decide (bmp = 0xF929)
        || decide (bmp = 0xF9DC)
        || (ibmSymbolEncode bmp).isSome
        || (jis0208SymbolEncode bmp).isSome

/-- the two-byte branch of the `Jis0208` state over the `encode_kanji` the features select -/
def iso2022JpEncodeTwoByteWith (kanji : Nat → Option (Nat × Nat)) (bmp : Nat) : Option (List Nat) :=
  let bmpMinusHiragana := wsub16 bmp 0x3041
  if bmpMinusHiragana < 0x53 then some [0x24, 0x21 + u8 bmpMinusHiragana]
  else if inInclusiveRange16 bmp 0x4E00 0x9FA0 then
    match kanji bmp with
    | some (lead, trail) => some [lead, trail]
    | none => none
  else
    let bmpMinusKatakana := wsub16 bmp 0x30A1
    if bmpMinusKatakana < 0x56 then some [0x25, 0x21 + u8 bmpMinusKatakana]
    else
      let bmpMinusSpace := wsub16 bmp 0x3000
      if bmpMinusSpace < 3 then some [0x21, 0x21 + u8 bmpMinusSpace]
      else
      let bmpMinusHalfWidth := wsub16 bmp 0xFF61
      if bmpMinusHalfWidth ≤ 0xFF9F - 0xFF61 then
        let lead := if bmp ≠ 0xFF70 ∧ inInclusiveRange16 bmp 0xFF66 0xFF9D = true then 0x25 else 0x21
        let trail := Gen.iso2022JpHalfWidthTrail.getD bmpMinusHalfWidth 0
        some [lead, trail]
      else if bmp = 0x2212 then some [0x21, 0x5D]
      else
      match jis0208RangeEncode bmp with
      | some pointer => some (bytes94 pointer 0x21 0x21)
      | none =>
      if inInclusiveRange16 bmp 0xFA0E 0xFA2D || decide (bmp = 0xF929) || decide (bmp = 0xF9DC) then
        let pos := (ibmKanjiPosition bmp).getD 0
        some (bytes94 pos (0xF9 - 0x80) 0x21)
      else
      match ibmSymbolEncode bmp with
      | some pointer => some (bytes94 pointer 0x21 0x21)
      | none =>
      match jis0208SymbolEncode bmp with
      | some pointer => some (bytes94 pointer 0x21 0x21)
      | none => none

/-- the `body` block of `Iso2022JpEncoder` over the feature-selected `is_kanji_mapped` / `encode_kanji` -/
def isoEncStepWith (kanjiMapped : Nat → Bool) (kanji : Nat → Option (Nat × Nat)) (s : IsoEncSt) (c : Nat) :
    EStep IsoEncSt :=
  match s with
  | .ascii =>
    if c = 0x0E ∨ c = 0x0F ∨ c = 0x1B then .unmap .ascii 0xFFFD
    else if c ≤ 0x7F then .ok .ascii [c]
    else if c = 0xA5 ∨ c = 0x203E then .again .roman escRoman
    else if c > 0xFFFF then .unmap .ascii c
    else if isMappedForTwoByteEncodeWith kanjiMapped c = true then .again .jis0208 escJis0208
    else .unmap .ascii c
  | .roman =>
    if c = 0x0E ∨ c = 0x0F ∨ c = 0x1B then .unmap .roman 0xFFFD
    else if c = 0x5C ∨ c = 0x7E then .again .ascii escAscii
    else if c ≤ 0x7F then .ok .roman [c]
    else if c = 0xA5 then .ok .roman [0x5C]
    else if c = 0x203E then .ok .roman [0x7E]
    else if c > 0xFFFF then .unmap .roman c
    else if isMappedForTwoByteEncodeWith kanjiMapped c = true then .again .jis0208 escJis0208
    else .unmap .roman c
  | .jis0208 =>
    if c ≤ 0x7F then .again .ascii escAscii
    else if c = 0xA5 ∨ c = 0x203E then .again .roman escRoman
    else if c > 0xFFFF then .unmap .ascii c escAscii
    else
      match iso2022JpEncodeTwoByteWith kanji c with
      | some bs => .ok .jis0208 bs
      | none => .unmap .ascii c escAscii

theorem isMappedForTwoByteEncode_eq_with : isMappedForTwoByteEncode = isMappedForTwoByteEncodeWith isKanjiMapped := by
  funext bmp; unfold isMappedForTwoByteEncode isMappedForTwoByteEncodeWith; rfl

def isoEncStepLessSlow : IsoEncSt → Nat → EStep IsoEncSt := isoEncStepWith isKanjiMappedLessSlow iso2022JpEncodeKanjiLessSlow
def isoEncStepFast : IsoEncSt → Nat → EStep IsoEncSt := isoEncStepWith isKanjiMappedFast iso2022JpEncodeKanjiFast

end EncodingRs.Model
