import EncodingRs.Model.Core
/-!
`Decoder::decode_to_utf8` / `decode_to_utf16` (lib.rs): the with-replacement
loop around the without-replacement method, at the variant-decoder level.
One stop budget per inner raw call (`[]` = no more stops: `unlimited`).
-/
namespace EncodingRs.Model

structure ReplRes (σ : Type) where
  /-- `CoderResult`: only `inputEmpty` / `outputFull` occur -/
  res : Res
  read : Nat
  /-- scalar values written, U+FFFD included -/
  out : List Nat
  hadErrors : Bool
  st : σ
  /-- number of inner raw calls that returned `Malformed` -/
  replaced : Nat

variable (F : Fam) (k : Sink)

/-- what the loop does with the result of one inner call; `cont` runs the rest of the loop -/
def replStep {σ : Type} (r : CallRes σ) (cont : Option (ReplRes σ)) : Option (ReplRes σ) :=
  match r.res with
  | .malformed _ _ =>
    match cont with
    | some t => some ⟨t.res, r.read + t.read, r.out ++ 0xFFFD :: t.out, true, t.st, t.replaced + 1⟩
    | none => none
  | .inputEmpty => some ⟨.inputEmpty, r.read, r.out, false, r.st, 0⟩
  | .outputFull => some ⟨.outputFull, r.read, r.out, false, r.st, 0⟩

/-- `fuel` bounds the number of inner calls (each `Malformed` consumes input or
decreases the rank, see C08); `none` = fuel exhausted -/
def replLoop (last : Bool) : Nat → F.σ → List Nat → List Budget → Option (ReplRes F.σ)
  | 0, _, _, _ => none
  | fuel + 1, s, src, budgets =>
    replStep (call F k s src last (budgets.headD .unlimited))
      (replLoop last fuel (call F k s src last (budgets.headD .unlimited)).st
        (src.drop (call F k s src last (budgets.headD .unlimited)).read) budgets.tail)

end EncodingRs.Model
