import EncodingRs.Model.Core
import EncodingRs.Gen.SingleByte
/-!
Families without tables of their own: single-byte (parametrised by the
regenerated table), x-user-defined, replacement, UTF-8, UTF-16LE/BE.
-/
namespace EncodingRs.Model

def FeedRes.ok {σ} (st : σ) (out : List Nat) : FeedRes σ := ⟨st, out, none, false⟩
def FeedRes.bad {σ} (st : σ) (len after : Nat) (unread : Bool := false) : FeedRes σ :=
  ⟨st, [], some (len, after), unread⟩

/-- `check_space_bmp` / `check_space_astral` in units of the sink -/
def needBmp : Sink → Nat
  | .utf8 => 3
  | .utf16 => 1
def needAstral : Sink → Nat
  | .utf8 => 4
  | .utf16 => 2

/-! ### single-byte (single_byte.rs) -/

def singleByteFeed (table : Array Nat) (_ : Unit) (b : Nat) : FeedRes Unit :=
  if b < 0x80 then .ok () [b]
  else
    let mapped := table.getD (b - 0x80) 0
    if mapped = 0 then .bad () 1 0 else .ok () [mapped]

def singleByteFam (table : Array Nat) : Fam where
  σ := Unit
  init := ()
  feed := singleByteFeed table
  eof := fun _ => none
  pend := fun _ => none
  rank := fun _ => 0
  need := fun k _ _ => needBmp k
  pendNeed := fun _ => 0
  eofNeed := fun _ => 0
  pend_rank := by intro s o s' h; cases h
  unread_rank := by
    intro s b h
    simp only [singleByteFeed] at h
    split at h
    · simp [FeedRes.ok] at h
    · split at h <;> simp [FeedRes.ok, FeedRes.bad] at h
  eof_rank := by intro s e s' h; cases h

/-! ### x-user-defined (x_user_defined.rs) -/

def userDefinedFeed (_ : Unit) (b : Nat) : FeedRes Unit :=
  if b < 0x80 then .ok () [b] else .ok () [b + 0xF700]

def userDefinedFam : Fam where
  σ := Unit
  init := ()
  feed := userDefinedFeed
  eof := fun _ => none
  pend := fun _ => none
  rank := fun _ => 0
  need := fun k _ _ => needBmp k
  pendNeed := fun _ => 0
  eofNeed := fun _ => 0
  pend_rank := by intro s o s' h; cases h
  unread_rank := by
    intro s b h
    simp only [userDefinedFeed] at h
    split at h <;> simp [FeedRes.ok] at h
  eof_rank := by intro s e s' h; cases h

/-! ### replacement (replacement.rs): `emitted` -/

def replacementFeed (emitted : Bool) (_ : Nat) : FeedRes Bool :=
  if emitted then .ok true [] else .bad true 1 0

def replacementFam : Fam where
  σ := Bool
  init := false
  feed := replacementFeed
  eof := fun _ => none
  pend := fun _ => none
  rank := fun _ => 0
  need := fun k s _ => if s then 0 else needBmp k
  pendNeed := fun _ => 0
  eofNeed := fun _ => 0
  pend_rank := by intro s o s' h; cases h
  unread_rank := by
    intro s b h
    simp only [replacementFeed] at h
    split at h <;> simp [FeedRes.ok, FeedRes.bad] at h
  eof_rank := by intro s e s' h; cases h

/-! ### UTF-8 (utf_8.rs, `Utf8Decoder`) -/

structure Utf8St where
  codePoint : Nat
  seen : Nat
  needed : Nat
  lower : Nat
  upper : Nat
deriving DecidableEq, Repr

def utf8Init : Utf8St := ⟨0, 0, 0, 0x80, 0xBF⟩

def utf8Feed (s : Utf8St) (b : Nat) : FeedRes Utf8St :=
  if s.needed = 0 then
    if b < 0x80 then .ok s [b]
    else if b < 0xC2 then .bad s 1 0
    else if b < 0xE0 then .ok { s with needed := 1, codePoint := b % 32 } []
    else if b < 0xF0 then
      let s1 := if b = 0xE0 then { s with lower := 0xA0 } else if b = 0xED then { s with upper := 0x9F } else s
      .ok { s1 with needed := 2, codePoint := b % 16 } []
    else if b < 0xF5 then
      let s1 := if b = 0xF0 then { s with lower := 0x90 } else if b = 0xF4 then { s with upper := 0x8F } else s
      .ok { s1 with needed := 3, codePoint := b % 8 } []
    else .bad s 1 0
  else if ¬ (s.lower ≤ b ∧ b ≤ s.upper) then
    .bad utf8Init (s.seen + 1) 0 true
  else
    let cp := s.codePoint * 64 + b % 64
    let seen := s.seen + 1
    if seen ≠ s.needed then .ok ⟨cp, seen, s.needed, 0x80, 0xBF⟩ []
    else .ok utf8Init [cp]

def utf8Fam : Fam where
  σ := Utf8St
  init := utf8Init
  feed := utf8Feed
  eof := fun s => if s.needed ≠ 0 then some ((s.seen + 1, 0), utf8Init) else none
  pend := fun _ => none
  rank := fun s => if s.needed = 0 then 0 else 1
  need := fun k _ _ => needAstral k
  pendNeed := fun _ => 0
  eofNeed := fun _ => 0
  pend_rank := by intro s o s' h; cases h
  unread_rank := by
    intro s b h
    unfold utf8Feed at h ⊢
    by_cases hn : s.needed = 0
    · simp only [hn, if_true] at h
      repeat' split at h
      all_goals simp [FeedRes.ok, FeedRes.bad] at h
    · simp only [hn, if_false] at h ⊢
      by_cases hc : (s.lower ≤ b ∧ b ≤ s.upper)
      · exfalso
        simp [hc] at h
        split at h <;> simp [FeedRes.ok] at h
      · simp [hc, FeedRes.bad, utf8Init, hn]
  eof_rank := by
    intro s e s' h
    split at h
    · cases h; simp_all [utf8Init]
    · cases h

/-! ### UTF-16LE/BE (utf_16.rs): `lead_byte`, `lead_surrogate`, `pending_bmp` -/

structure Utf16St where
  leadByte : Option Nat
  leadSurrogate : Nat
  pendingBmp : Bool
deriving DecidableEq, Repr

def utf16Init : Utf16St := ⟨none, 0, false⟩

def utf16Unit (be : Bool) (lead b : Nat) : Nat := if be then lead * 256 + b else b * 256 + lead

def utf16Pair (hi lo : Nat) : Nat := 0x10000 + (hi - 0xD800) * 0x400 + (lo - 0xDC00)

def utf16Feed (be : Bool) (s : Utf16St) (b : Nat) : FeedRes Utf16St :=
  match s.leadByte with
  | none => .ok { s with leadByte := some b } []
  | some lead =>
    let u := utf16Unit be lead b
    let hb := u / 0x400
    if hb = 0x36 then  -- 0xD800
      if s.leadSurrogate ≠ 0 then .bad ⟨none, u, false⟩ 2 2
      else .ok ⟨none, u, false⟩ []
    else if hb = 0x37 then  -- 0xDC00
      if s.leadSurrogate = 0 then .bad ⟨none, 0, false⟩ 2 0
      else .ok ⟨none, 0, false⟩ [utf16Pair s.leadSurrogate u]
    else if s.leadSurrogate ≠ 0 then .bad ⟨none, u, true⟩ 2 2
    else .ok ⟨none, 0, false⟩ [u]

def utf16Eof (s : Utf16St) : Option ((Nat × Nat) × Utf16St) :=
  if s.leadSurrogate ≠ 0 then
    match s.leadByte with
    | none => some ((2, 0), utf16Init)
    | some _ => some ((3, 0), utf16Init)
  else match s.leadByte with
    | some _ => some ((1, 0), utf16Init)
    | none => none

/-- the bulk path (`copy_utf16_from`) reports an unpaired surrogate it meets in
its window as `Malformed(2, 0)` after consuming just that unit -/
def utf16Alt (be : Bool) (s : Utf16St) (src : List Nat) : Option (Nat × FeedRes Utf16St) :=
  if s.leadByte.isSome ∨ s.leadSurrogate ≠ 0 ∨ s.pendingBmp then none else
  match src with
  | b0 :: b1 :: b2 :: b3 :: _ =>
    let u := utf16Unit be b0 b1
    let v := utf16Unit be b2 b3
    if u / 0x400 = 0x36 ∧ v / 0x400 ≠ 0x37 then some (2, .bad utf16Init 2 0) else none
  | _ => none

def utf16Rank (s : Utf16St) : Nat :=
  (if s.pendingBmp then 1 else 0) + (if s.leadSurrogate ≠ 0 then 1 else 0) + (if s.leadByte.isSome then 1 else 0)

def utf16Fam (be : Bool) : Fam where
  σ := Utf16St
  init := utf16Init
  feed := utf16Feed be
  eof := utf16Eof
  pend := fun s => if s.pendingBmp then some ([s.leadSurrogate], ⟨s.leadByte, 0, false⟩) else none
  rank := utf16Rank
  need := fun k _ _ => needAstral k
  pendNeed := fun k => needBmp k
  eofNeed := fun k => needBmp k
  alt := utf16Alt be
  pend_rank := by
    intro s o s' h
    split at h
    · cases h; simp [utf16Rank]
    · cases h
  unread_rank := by
    intro s b h
    simp only [utf16Feed] at h
    repeat' split at h
    all_goals simp [FeedRes.ok, FeedRes.bad] at h
  eof_rank := by
    intro s e s' h
    simp only [utf16Eof] at h
    repeat' split at h
    all_goals (first | cases h | skip)
    all_goals simp_all [utf16Rank, utf16Init]

end EncodingRs.Model
