import EncodingRs.Model.Fam.TwoByte
/-!
EUC-JP (`euc_jp_decoder_function!`), gb18030/GBK (`gb18030_decoder_function!`),
ISO-2022-JP (`decoder_function!` with its own state machine).
-/
namespace EncodingRs.Model

/-! ### EUC-JP (euc_jp.rs) -/

inductive EucJpSt | none | jis0208Lead (l : Nat) | jis0212Shift | jis0212Lead (l : Nat) | halfWidthKatakana
deriving DecidableEq, Repr

def eucJpJis0208Trail (lead b : Nat) : TrailRes :=
  let t := wsub8 b 0xA1
  if lead = 0x03 ∧ t < 0x53 then .out [0x3041 + t]
  else if lead = 0x04 ∧ t < 0x56 then .out [0x30A1 + t]
  else if t > 0xFE - 0xA1 then .bad
  else match jis0208Decode (mul94 lead + t) with
    | some c => .out [c]
    | none => .bad

def eucJpJis0212Trail (lead b : Nat) : TrailRes :=
  let t := wsub8 b 0xA1
  if t > 0xFE - 0xA1 then .bad else
  let pointer := mul94 lead + t
  let pk := wsubU pointer 1410
  if pk < Gen.jis0212Kanji.size then .out [Gen.jis0212Kanji.getD pk 0] else
  match jis0212AccentedDecode pointer with
  | some c => .out [c]
  | none =>
    let uc := wsubU pointer 597
    if uc ≤ 607 - 597 then .out [0x0402 + uc] else
    let lc := wsubU pointer 645
    if lc ≤ 655 - 645 then .out [0x0452 + lc] else .bad

def eucJpFeed (s : EucJpSt) (b : Nat) : FeedRes EucJpSt :=
  match s with
  | .none =>
    if b < 0x80 then .ok .none [b] else
    let m := wsub8 b 0xA1
    if m ≤ 0xFE - 0xA1 then .ok (.jis0208Lead m) []
    else if b = 0x8F then .ok .jis0212Shift []
    else if b = 0x8E then .ok .halfWidthKatakana []
    else .bad .none 1 0
  | .jis0208Lead l =>
    match eucJpJis0208Trail l b with
    | .out cs => .ok .none cs
    | .bad => if b < 0x80 then .bad .none 1 0 true else .bad .none 2 0
  | .jis0212Shift =>
    let m := wsub8 b 0xA1
    if m > 0xFE - 0xA1 then (if b < 0x80 then .bad .none 1 0 true else .bad .none 2 0)
    else .ok (.jis0212Lead m) []
  | .jis0212Lead l =>
    match eucJpJis0212Trail l b with
    | .out cs => .ok .none cs
    | .bad => if b < 0x80 then .bad .none 2 0 true else .bad .none 3 0
  | .halfWidthKatakana =>
    let t := wsub8 b 0xA1
    if t > 0xDF - 0xA1 then (if b < 0x80 then .bad .none 1 0 true else .bad .none 2 0)
    else .ok .none [0xFF61 + t]

def eucJpCount : EucJpSt → Nat
  | .none => 0
  | .jis0208Lead _ => 1
  | .jis0212Shift => 1
  | .jis0212Lead _ => 2
  | .halfWidthKatakana => 1

theorem eucJpFeed_unread (s : EucJpSt) (b : Nat) (h : (eucJpFeed s b).unread = true) :
    (eucJpFeed s b).st = .none ∧ s ≠ .none := by
  cases s with
  | none =>
    exfalso
    have : (eucJpFeed EucJpSt.none b).unread = false := by
      unfold eucJpFeed
      simp only
      split
      · rfl
      · split
        · rfl
        · split
          · rfl
          · split <;> rfl
    rw [this] at h; cases h
  | jis0208Lead l =>
    unfold eucJpFeed; simp only
    cases eucJpJis0208Trail l b with
    | out cs => simp [FeedRes.ok]
    | bad => simp only []; split <;> simp [FeedRes.bad]
  | jis0212Shift =>
    unfold eucJpFeed at h ⊢; simp only at h ⊢
    split
    · split <;> simp [FeedRes.bad]
    · rename_i hc; simp [hc, FeedRes.ok] at h
  | jis0212Lead l =>
    unfold eucJpFeed; simp only
    cases eucJpJis0212Trail l b with
    | out cs => simp [FeedRes.ok]
    | bad => simp only []; split <;> simp [FeedRes.bad]
  | halfWidthKatakana =>
    unfold eucJpFeed at h ⊢; simp only at h ⊢
    split
    · split <;> simp [FeedRes.bad]
    · rename_i hc; simp [hc, FeedRes.ok] at h

def eucJpFam : Fam where
  σ := EucJpSt
  init := .none
  feed := eucJpFeed
  eof := fun s => if s = .none then none else some ((eucJpCount s, 0), .none)
  pend := fun _ => none
  rank := fun s => if s = .none then 0 else 1
  need := fun k _ _ => needBmp k
  pendNeed := fun _ => 0
  eofNeed := fun _ => 0
  pend_rank := by intro s o s' h; cases h
  unread_rank := by
    intro s b h
    obtain ⟨h1, h2⟩ := eucJpFeed_unread s b h
    simp [h1, h2]
  eof_rank := by
    intro s e s' h
    split at h
    · cases h
    · cases h; simp_all

/-! ### gb18030 / GBK decoder (gb18030.rs) -/

inductive GbPending | none | one (a : Nat) | two (a b : Nat) | three (a b c : Nat)
deriving DecidableEq, Repr

structure GbSt where
  pending : GbPending
  pendingAscii : Option Nat
deriving DecidableEq, Repr

def gbInit : GbSt := ⟨.none, none⟩

/-- trail normalisation `0x40..0x7E -> -0x40`, `0x80..upper -> -0x41`; `none` = not a trail -/
def gbkTrail (second upper : Nat) : Option Nat :=
  let t0 := wsub8 second 0x40
  if t0 > 0x7E - 0x40 then
    if wsub8 second 0x80 > upper - 0x80 then none else some (second - 0x41)
  else some t0

/-- `$second_body`: two-byte sequence (or error) -/
def gbSecond (first second : Nat) : TrailRes :=
  if first ≥ 0x20 then
    let t := wsub8 second 0xA1
    if t ≤ 0xFE - 0xA1 then
      let hanziLead := wsub8 first 0x2F
      if hanziLead < 0x77 - 0x2F then .out [Gen.gb2312Hanzi.getD (mul94 hanziLead + t) 0]
      else if first = 0x20 then .out [Gen.gb2312Symbols.getD t 0]
      else if first = 0x25 ∧ wsub8 t 63 < Gen.gb2312SymbolsAfterGreek.size then
        .out [Gen.gb2312SymbolsAfterGreek.getD (wsub8 t 63) 0]
      else if first = 0x27 ∧ t < Gen.gb2312Pinyin.size then .out [Gen.gb2312Pinyin.getD t 0]
      else if first > 0x76 then .out [(0xE234 + mul94 (first - 0x77) + t) % 65536]
      else .out [gb2312OtherDecode ((mul94 (first - 0x21) + t) % 65536)]
    else
      match gbkTrail second 0xA0 with
      | none => .bad
      | some tm =>
        let leftPointer := (first - 0x20) * (190 - 94) + tm
        let gl := wsubU leftPointer ((0x29 - 0x20) * (190 - 94))
        if gl < ((0x7D - 0x29) * (190 - 94)) - 5 then .out [gbkLeftIdeographDecode gl]
        else if leftPointer < (0x29 - 0x20) * (190 - 94) then .out [gbkOtherDecode leftPointer]
        else .out [Gen.gbkBottom.getD (leftPointer - (((0x7D - 0x20) * (190 - 94)) - 5)) 0]
  else
    match gbkTrail second 0xFE with
    | none => .bad
    | some tm => .out [gbkTopIdeographDecode (first * 190 + tm)]

/-- `$fourth_body` after the digit test: the four-byte pointer -/
def gbFour (a b c d : Nat) : Option Nat :=
  let pointer := a * (10 * 126 * 10) + b * (10 * 126) + c * 10 + d
  if pointer ≤ 39419 then
    if pointer = 7457 then some 0xE7C7 else some (gb18030RangeDecode pointer)
  else if 189000 ≤ pointer ∧ pointer ≤ 1237575 then some (pointer - (189000 - 0x10000))
  else none

def gbFeed (s : GbSt) (b : Nat) : FeedRes GbSt :=
  match s.pending with
  | .none =>
    if b < 0x80 then .ok gbInit [b] else
    let m := wsub8 b 0x81
    if m > 0xFE - 0x81 then
      if b = 0x80 then .ok gbInit [0x20AC] else .bad gbInit 1 0
    else .ok ⟨.one m, none⟩ []
  | .one a =>
    let sm := wsub8 b 0x30
    if sm > 0x39 - 0x30 then
      match gbSecond a b with
      | .out cs => .ok gbInit cs
      | .bad => if b < 0x80 then .bad gbInit 1 0 true else .bad gbInit 2 0
    else .ok ⟨.two a sm, none⟩ []
  | .two a sm =>
    let tm := wsub8 b 0x81
    if tm > 0xFE - 0x81 then .bad ⟨.none, some (sm + 0x30)⟩ 1 1 true
    else .ok ⟨.three a sm tm, none⟩ []
  | .three a sm tm =>
    let fm := wsub8 b 0x30
    if fm > 0x39 - 0x30 then .bad ⟨.one tm, some (sm + 0x30)⟩ 1 2 true
    else match gbFour a sm tm fm with
      | some c => .ok gbInit [c]
      | none => .bad gbInit 4 0

def gbCount : GbPending → Nat
  | .none => 0
  | .one _ => 1
  | .two _ _ => 2
  | .three _ _ _ => 3

/-- bad fourth byte ⇒ pending `one`; then an ASCII non-trail ⇒ second unread: rank 3 → 1 → 0 -/
def gbRank (s : GbSt) : Nat := 2 * gbCount s.pending + (if s.pendingAscii.isSome then 1 else 0)

theorem gbFeed_unread (s : GbSt) (b : Nat) (hp : s.pendingAscii = none)
    (h : (gbFeed s b).unread = true) : gbRank (gbFeed s b).st < gbRank s := by
  obtain ⟨p, pa⟩ := s
  simp only at hp; subst hp
  cases p with
  | none =>
    exfalso
    have : (gbFeed ⟨GbPending.none, none⟩ b).unread = false := by
      unfold gbFeed
      simp only
      split
      · rfl
      · split
        · split <;> rfl
        · rfl
    rw [this] at h; cases h
  | one a =>
    unfold gbFeed at h ⊢; simp only at h ⊢
    split
    · cases gbSecond a b with
      | out cs => simp [FeedRes.ok, gbRank, gbInit, gbCount]
      | bad => simp only []; split <;> simp [FeedRes.bad, gbRank, gbInit, gbCount]
    · rename_i hc; simp [hc, FeedRes.ok] at h
  | two a sm =>
    unfold gbFeed at h ⊢; simp only at h ⊢
    split
    · simp [FeedRes.bad, gbRank, gbCount]
    · rename_i hc; simp [hc, FeedRes.ok] at h
  | three a sm tm =>
    unfold gbFeed at h ⊢; simp only at h ⊢
    split
    · simp [FeedRes.bad, gbRank, gbCount]
    · rename_i hc
      simp only [hc, if_false] at h
      cases hf : gbFour a sm tm (wsub8 b 0x30) <;> simp [hf, FeedRes.ok, FeedRes.bad] at h

theorem gbFeed_indep (p : GbPending) (pa : Option Nat) (b : Nat) : gbFeed ⟨p, pa⟩ b = gbFeed ⟨p, none⟩ b := rfl

def gbFam : Fam where
  σ := GbSt
  init := gbInit
  feed := gbFeed
  eof := fun s => if s.pending = .none then none else some ((gbCount s.pending, 0), ⟨.none, s.pendingAscii⟩)
  pend := fun s => match s.pendingAscii with
    | some a => some ([a], ⟨s.pending, none⟩)
    | none => none
  rank := gbRank
  need := fun k _ _ => needAstral k
  pendNeed := fun k => needBmp k
  eofNeed := fun _ => 0
  pend_rank := by
    intro s o s' h
    obtain ⟨p, pa⟩ := s
    cases pa with
    | none => cases h
    | some a => cases h; simp [gbRank]
  unread_rank := by
    intro s b h
    obtain ⟨p, pa⟩ := s
    rw [gbFeed_indep] at h ⊢
    have := gbFeed_unread ⟨p, none⟩ b rfl h
    simp only [gbRank, Option.isSome_none, Bool.false_eq_true, if_false, Nat.add_zero] at this ⊢
    omega
  eof_rank := by
    intro s e s' h
    obtain ⟨p, pa⟩ := s
    simp only at h
    split at h
    · cases h
    · cases h
      cases p <;> simp_all [gbRank, gbCount]

/-! ### ISO-2022-JP decoder (iso_2022_jp.rs) -/

inductive IsoSt | ascii | roman | katakana | leadByte | trailByte | escapeStart | escape
deriving DecidableEq, Repr

/-- `output_state` "only takes 1 of first 4 values" -/
inductive IsoOut | ascii | roman | katakana | leadByte
deriving DecidableEq, Repr

def IsoOut.toSt : IsoOut → IsoSt
  | .ascii => .ascii
  | .roman => .roman
  | .katakana => .katakana
  | .leadByte => .leadByte

structure Iso2022JpSt where
  decoderState : IsoSt
  outputState : IsoOut
  lead : Nat
  outputFlag : Bool
  pendingPrepended : Bool
deriving DecidableEq, Repr

def isoInit : Iso2022JpSt := ⟨.ascii, .ascii, 0, false, false⟩

def isoTrail (lead b : Nat) : TrailRes :=
  let l := lead - 0x21
  let t := wsub8 b 0x21
  if l = 0x03 ∧ t < 0x53 then .out [0x3041 + t]
  else if l = 0x04 ∧ t < 0x56 then .out [0x30A1 + t]
  else if t > 0xFE - 0xA1 then .bad
  else match jis0208Decode (mul94 l + t) with
    | some c => .out [c]
    | none => .bad

def isoEscapeTarget (lead b : Nat) : Option IsoOut :=
  if lead = 0x28 ∧ b = 0x42 then some .ascii
  else if lead = 0x28 ∧ b = 0x4A then some .roman
  else if lead = 0x28 ∧ b = 0x49 then some .katakana
  else if lead = 0x24 ∧ (b = 0x40 ∨ b = 0x42) then some .leadByte
  else none

def isoFeed (s : Iso2022JpSt) (b : Nat) : FeedRes Iso2022JpSt :=
  match s.decoderState with
  | .ascii =>
    if b = 0x1B then .ok { s with decoderState := .escapeStart } [] else
    let s := { s with outputFlag := false }
    if b > 0x7F ∨ b = 0x0E ∨ b = 0x0F then .bad s 1 0 else .ok s [b]
  | .roman =>
    if b = 0x1B then .ok { s with decoderState := .escapeStart } [] else
    let s := { s with outputFlag := false }
    if b = 0x5C then .ok s [0x00A5]
    else if b = 0x7E then .ok s [0x203E]
    else if b > 0x7F ∨ b = 0x0E ∨ b = 0x0F then .bad s 1 0 else .ok s [b]
  | .katakana =>
    if b = 0x1B then .ok { s with decoderState := .escapeStart } [] else
    let s := { s with outputFlag := false }
    if 0x21 ≤ b ∧ b ≤ 0x5F then .ok s [b - 0x21 + 0xFF61] else .bad s 1 0
  | .leadByte =>
    if b = 0x1B then .ok { s with decoderState := .escapeStart } [] else
    let s := { s with outputFlag := false }
    if 0x21 ≤ b ∧ b ≤ 0x7E then .ok { s with lead := b, decoderState := .trailByte } [] else .bad s 1 0
  | .trailByte =>
    if b = 0x1B then .bad { s with decoderState := .escapeStart } 1 1 else
    let s := { s with decoderState := .leadByte }
    match isoTrail s.lead b with
    | .out cs => .ok s cs
    | .bad => .bad s 2 0
  | .escapeStart =>
    if b = 0x24 ∨ b = 0x28 then .ok { s with lead := b, decoderState := .escape } [] else
    .bad { s with outputFlag := false, decoderState := s.outputState.toSt } 1 0 true
  | .escape =>
    match isoEscapeTarget s.lead b with
    | some t =>
      let s' := { s with lead := 0, decoderState := t.toSt, outputState := t, outputFlag := true }
      if s.outputFlag then .bad s' 3 3 else .ok s' []
    | none =>
      .bad { s with pendingPrepended := true, outputFlag := false, decoderState := s.outputState.toSt } 1 1 true

/-- the preamble: the byte kept in `lead` is re-interpreted in the output state -/
def isoPend (s : Iso2022JpSt) : Option (List Nat × Iso2022JpSt) :=
  if s.pendingPrepended then
    let s1 := { s with pendingPrepended := false, outputFlag := false }
    match s.decoderState with
    | .ascii | .roman => some ([s.lead], { s1 with lead := 0 })
    | .katakana => some ([s.lead - 0x21 + 0xFF61], { s1 with lead := 0 })
    | .leadByte => some ([], { s1 with decoderState := .trailByte })
    | _ => some ([], s1)   -- unreachable!() in the Rust; never reached (Thm: iso_pend_reachable)
  else none

def isoEof (s : Iso2022JpSt) : Option ((Nat × Nat) × Iso2022JpSt) :=
  match s.decoderState with
  | .trailByte | .escapeStart => some ((1, 0), { s with decoderState := s.outputState.toSt })
  | .escape => some ((1, 1), { s with pendingPrepended := true, decoderState := s.outputState.toSt })
  | _ => none

/-- escape (3) > escapeStart / pending (2) > trailByte (1) > rest (0); the output
state is never one of the last three (invariant), so every chain ends -/
def isoRank (s : Iso2022JpSt) : Nat :=
  (match s.decoderState with
    | .escape => 6
    | .escapeStart => 4
    | .trailByte => 1
    | _ => 0) + (if s.pendingPrepended then 3 else 0)

theorem isoRank_out (o : IsoOut) (os : IsoOut) (l : Nat) (f p : Bool) :
    isoRank ⟨o.toSt, os, l, f, p⟩ = if p then 3 else 0 := by
  cases o <;> simp [isoRank, IsoOut.toSt]

theorem isoFeed_unread (s : Iso2022JpSt) (b : Nat) (h : (isoFeed s b).unread = true) :
    isoRank (isoFeed s b).st < isoRank s := by
  obtain ⟨ds, os, l, f, p⟩ := s
  cases ds
  case escapeStart =>
    unfold isoFeed at h ⊢; simp only at h ⊢
    split
    · rename_i hc; simp [hc, FeedRes.ok] at h
    · simp only [FeedRes.bad, isoRank_out]
      simp only [isoRank]; split <;> omega
  case escape =>
    unfold isoFeed at h ⊢; simp only at h ⊢
    cases ht : isoEscapeTarget l b with
    | some t =>
      simp only [ht] at h
      split at h <;> simp [FeedRes.ok, FeedRes.bad] at h
    | none =>
      simp only [FeedRes.bad, isoRank_out]
      simp only [isoRank]; split <;> omega
  case trailByte =>
    exfalso
    unfold isoFeed at h; simp only at h
    split at h
    · simp [FeedRes.bad] at h
    · have : ∀ (t : TrailRes) (st : Iso2022JpSt), (match t with
          | TrailRes.out cs => FeedRes.ok st cs
          | TrailRes.bad => FeedRes.bad st 2 0).unread = false := by
        intro t st; cases t <;> rfl
      rw [this] at h; cases h
  all_goals
    exfalso
    unfold isoFeed at h; simp only at h
    repeat' split at h
    all_goals simp [FeedRes.ok, FeedRes.bad] at h

def iso2022JpFam : Fam where
  σ := Iso2022JpSt
  init := isoInit
  feed := isoFeed
  eof := isoEof
  pend := isoPend
  rank := isoRank
  need := fun k _ _ => needBmp k
  pendNeed := fun k => needBmp k
  eofNeed := fun k => needBmp k   -- after the repair of finding F7 the end-of-stream block checks for room
  pend_rank := by
    intro s o s' h
    obtain ⟨ds, os, l, f, p⟩ := s
    unfold isoPend at h
    cases p with
    | false => simp at h
    | true =>
      simp only [if_true] at h
      cases ds <;> simp only [Option.some.injEq, Prod.mk.injEq] at h <;> obtain ⟨_, rfl⟩ := h <;> simp [isoRank]
  unread_rank := isoFeed_unread
  eof_rank := by
    intro s e s' h
    obtain ⟨ds, os, l, f, p⟩ := s
    unfold isoEof at h
    cases ds <;> simp only [Option.some.injEq, Prod.mk.injEq, reduceCtorEq] at h
    all_goals
      obtain ⟨_, rfl⟩ := h
      simp only [isoRank_out]
      simp only [isoRank]
      split <;> omega

end EncodingRs.Model
