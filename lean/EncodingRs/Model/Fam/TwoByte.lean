import EncodingRs.Model.Fam.Simple
import EncodingRs.Model.Data
/-!
Big5, EUC-KR, Shift_JIS: instances of `ascii_compatible_two_byte_decoder_function!`.
State = `self.lead` (the lead byte minus its offset).
-/
namespace EncodingRs.Model

/-- result of a `$lead` block -/
inductive LeadRes | lead (l : Nat) | out (c : Nat) | bad
/-- result of a `$trail` block: characters written, or the two error exits
(`Malformed(1,0)` + unread when the byte is ASCII, else `Malformed(2,0)`) -/
inductive TrailRes | out (cs : List Nat) | bad

def twoByteFeed (leadF : Nat → LeadRes) (trailF : Nat → Nat → TrailRes)
    (s : Option Nat) (b : Nat) : FeedRes (Option Nat) :=
  match s with
  | none =>
    if b < 0x80 then .ok none [b] else
    match leadF b with
    | .lead l => .ok (some l) []
    | .out c => .ok none [c]
    | .bad => .bad none 1 0
  | some l =>
    match trailF l b with
    | .out cs => .ok none cs
    | .bad => if b < 0x80 then .bad none 1 0 true else .bad none 2 0

theorem twoByteFeed_some_st (leadF : Nat → LeadRes) (trailF : Nat → Nat → TrailRes) (l b : Nat) :
    (twoByteFeed leadF trailF (some l) b).st = none := by
  simp only [twoByteFeed]
  cases trailF l b with
  | out cs => rfl
  | bad => simp only []; split <;> rfl

theorem twoByteFeed_none_unread (leadF : Nat → LeadRes) (trailF : Nat → Nat → TrailRes) (b : Nat) :
    (twoByteFeed leadF trailF none b).unread = false := by
  simp only [twoByteFeed]
  split
  · rfl
  · cases leadF b <;> rfl

def twoByteFam (leadF : Nat → LeadRes) (trailF : Nat → Nat → TrailRes) (astral : Bool) : Fam where
  σ := Option Nat
  init := none
  feed := twoByteFeed leadF trailF
  eof := fun s => match s with | some _ => some ((1, 0), none) | none => none
  pend := fun _ => none
  rank := fun s => if s.isSome then 1 else 0
  need := fun k _ _ => if astral then needAstral k else needBmp k
  pendNeed := fun _ => 0
  eofNeed := fun _ => 0
  pend_rank := by intro s o s' h; cases h
  unread_rank := by
    intro s b h
    cases s with
    | none => rw [twoByteFeed_none_unread] at h; cases h
    | some l => rw [twoByteFeed_some_st]; simp
  eof_rank := by
    intro s e s' h
    cases s with
    | none => cases h
    | some l => cases h; simp

/-! ### Big5 (big5.rs) -/

def big5Lead (b : Nat) : LeadRes :=
  let m := wsub8 b 0x81
  if m > 0xFE - 0x81 then .bad else .lead m

def big5Trail (lead b : Nat) : TrailRes :=
  let t0 := wsub8 b 0x40
  if t0 > 0x7E - 0x40 ∧ wsub8 b 0xA1 > 0xFE - 0xA1 then .bad else
  let t := if t0 > 0x7E - 0x40 then b - 0x62 else t0
  let pointer := lead * 157 + t
  let rebased := wsubU pointer 942
  let low := big5LowBits rebased
  if low = 0 then
    if pointer = 1133 then .out [0x00CA, 0x0304]
    else if pointer = 1135 then .out [0x00CA, 0x030C]
    else if pointer = 1164 then .out [0x00EA, 0x0304]
    else if pointer = 1166 then .out [0x00EA, 0x030C]
    else .bad
  else if big5IsAstral rebased then .out [low + 0x20000]
  else .out [low]

def big5Fam : Fam := twoByteFam big5Lead big5Trail true

/-! ### EUC-KR (euc_kr.rs) -/

def eucKrLead (b : Nat) : LeadRes :=
  let m := wsub8 b 0x81
  if m > 0xFE - 0x81 then .bad else .lead m

/-- the three-range trail normalisation of the extension areas; `none` = not a trail -/
def eucKrExtTrail (b upper : Nat) : Option Nat :=
  if wsub8 b (0x40 + 0x41) < upper - 0x40 then some (b - (12 + 0x41))
  else if wsub8 b (0x20 + 0x41) < 0x3A - 0x20 then some (b - (6 + 0x41))
  else if wsub8 b 0x41 < 0x1A then some (b - 0x41)
  else none

def eucKrTrail (lead b : Nat) : TrailRes :=
  if lead ≥ 0x20 then
    let t := wsub8 b 0xA1
    if t ≤ 0xFE - 0xA1 then
      let ksx := mul94 (lead - 0x20) + t
      let hangul := wsubU ksx ((0x2F - 0x20) * 94)
      if hangul < Gen.ksx1001Hangul.size then .out [Gen.ksx1001Hangul.getD hangul 0]
      else if ksx < Gen.ksx1001Symbols.size then .out [Gen.ksx1001Symbols.getD ksx 0]
      else
        let hanja := wsubU ksx ((0x49 - 0x20) * 94)
        if hanja < Gen.ksx1001Hanja.size then .out [Gen.ksx1001Hanja.getD hanja 0]
        else if lead = 0x27 ∧ t < Gen.ksx1001Uppercase.size then
          let m := Gen.ksx1001Uppercase.getD t 0
          if m = 0 then .bad else .out [m]
        else if lead = 0x28 ∧ t < Gen.ksx1001Lowercase.size then .out [Gen.ksx1001Lowercase.getD t 0]
        else if lead = 0x25 ∧ t < Gen.ksx1001Box.size then .out [Gen.ksx1001Box.getD t 0]
        else
          let other := wsubU ksx (2 * 94)
          if other < 0x039F then
            let bmp := ksx1001OtherDecode other
            if bmp < 0x80 then .bad else .out [bmp]
          else .bad
    else
      match eucKrExtTrail b 0x60 with
      | none => .bad
      | some lt =>
        let lp := (lead - 0x20) * (190 - 94 - 12) + lt
        if lp < (0x45 - 0x20) * (190 - 94 - 12) + 0x12 then .out [cp949LeftHangulDecode lp] else .bad
  else
    match eucKrExtTrail b 0xBE with
    | none => .bad
    | some tt => .out [cp949TopHangulDecode (lead * (190 - 12) + tt)]

def eucKrFam : Fam := twoByteFam eucKrLead eucKrTrail false

/-! ### Shift_JIS (shift_jis.rs) -/

def shiftJisLead (b : Nat) : LeadRes :=
  let m := wsub8 b 0x81
  if m > 0x9F - 0x81 then
    if wsub8 b 0xE0 > 0xFC - 0xE0 then
      let k := wsub8 b 0xA1
      if k > 0xDF - 0xA1 then
        if b = 0x80 then .out 0x80 else .bad
      else .out (0xFF61 + k)
    else .lead (b - 0xC1)
  else .lead m

def shiftJisTrail (lead b : Nat) : TrailRes :=
  let th := wsub8 b 0x9F
  if lead = 0x01 ∧ th < 0x53 then .out [0x3041 + th] else
  let t0 := wsub8 b 0x40
  if t0 > 0x7E - 0x40 ∧ wsub8 b 0x80 > 0xFC - 0x80 then .bad else
  let t := if t0 > 0x7E - 0x40 then b - 0x41 else t0
  if lead = 0x02 ∧ t < 0x56 then .out [0x30A1 + t] else
  let pointer := lead * 188 + t
  let l1 := wsubU pointer 1410
  if l1 < Gen.jis0208Level1Kanji.size then .out [Gen.jis0208Level1Kanji.getD l1 0] else
  let l2 := wsubU pointer 4418
  if l2 < Gen.jis0208Level2AndAdditionalKanji.size then .out [Gen.jis0208Level2AndAdditionalKanji.getD l2 0] else
  let ui := wsubU pointer 10744
  if ui < Gen.ibmKanji.size then .out [Gen.ibmKanji.getD ui 0] else
  let li := wsubU pointer 8272
  if li < Gen.ibmKanji.size then .out [Gen.ibmKanji.getD li 0] else
  if 8836 ≤ pointer ∧ pointer ≤ 10715 then .out [(0xE000 - 8836 + pointer) % 65536] else
  match jis0208SymbolDecode pointer with
  | some c => .out [c]
  | none =>
    match jis0208RangeDecode pointer with
    | some c => .out [c]
    | none => .bad

def shiftJisFam : Fam := twoByteFam shiftJisLead shiftJisTrail false

end EncodingRs.Model
