import EncodingRs.Model.Decoder
import EncodingRs.Model.EncFam
/-!
# Encoding metadata predicates (lib.rs `is_ascii_compatible`, `is_single_byte`,
`can_encode_everything`, `output_encoding`, `new_encoder`)

All data (`Gen.notAsciiCompatible`, `Gen.outputIsUtf8`, `Gen.isSingleByteVariant`,
`Gen.decoderOfVariant`, `Gen.encoderOfVariant`) is re-translated from lib.rs / variant.rs on every run.
An encoding is its index into `Gen.encodings` (the `*_INIT` statics in source order).
-/
namespace EncodingRs.Model.Meta
open EncodingRs EncodingRs.Model

def count : Nat := Gen.encodings.length

def variantAt (i : Nat) : Gen.Variant := ((Gen.encodings[i]?).map (·.variant)).getD .utf8
def nameAt (i : Nat) : String := ((Gen.encodings[i]?).map (·.name)).getD ""

/-- `Encoding::is_ascii_compatible` -/
def isAsciiCompatible (i : Nat) : Bool := !(Gen.notAsciiCompatible.contains i)
/-- `Encoding::is_single_byte` -/
def isSingleByte (i : Nat) : Bool := Gen.isSingleByteVariant (variantAt i)
/-- `Encoding::output_encoding` -/
def outputEncoding (i : Nat) : Nat := if Gen.outputIsUtf8.contains i then Gen.utf8Idx else i
/-- `Encoding::can_encode_everything` -/
def canEncodeEverything (i : Nat) : Bool := outputEncoding i == Gen.utf8Idx

/-- the decoder implementation `VariantEncoding::new_variant_decoder` constructs -/
def famOfKind (v : Gen.Variant) : Gen.DecKind → Fam
  | .singleByte => match v with
    | .singleByte t _ _ _ => singleByteFam (Gen.singleByteTables.getD t #[])
    | _ => singleByteFam #[]
  | .utf8 => utf8Fam
  | .gb18030 => gbFam
  | .big5 => big5Fam
  | .eucJp => eucJpFam
  | .iso2022Jp => iso2022JpFam
  | .shiftJis => shiftJisFam
  | .eucKr => eucKrFam
  | .replacement => replacementFam
  | .userDefined => userDefinedFam
  | .utf16 be => utf16Fam be

/-- the encoder implementation `VariantEncoding::new_encoder` constructs -/
def efamOfKind (v : Gen.Variant) : Gen.EncKind → EFam
  | .singleByte => match v with
    | .singleByte t a b c => singleByteEFam (Gen.singleByteTables.getD t #[]) a b c
    | _ => singleByteEFam #[] 0 0 0
  | .utf8 => utf8EFam
  | .gb18030 ext => gbEFam ext
  | .big5 => big5EFam
  | .eucJp => eucJpEFam
  | .iso2022Jp => iso2022JpEFam
  | .shiftJis => shiftJisEFam
  | .eucKr => eucKrEFam
  | .userDefined => userDefinedEFam

/-- `Encoding::new_encoder`: `let enc = self.output_encoding(); enc.variant.new_encoder(enc)`;
`none` = `unreachable!()` -/
def newEncoder (i : Nat) : Option EFam :=
  (Gen.encoderOfVariant (variantAt (outputEncoding i))).map (efamOfKind (variantAt (outputEncoding i)))

/-- `Encoding::new_decoder*` → `self.variant.new_variant_decoder()` -/
def newDecoder (i : Nat) : Fam := famOfKind (variantAt i) (Gen.decoderOfVariant (variantAt i))

end EncodingRs.Model.Meta
