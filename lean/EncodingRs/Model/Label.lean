import EncodingRs.Gen.Labels
import EncodingRs.Gen.Encodings
/-!
Hand model of `Encoding::for_label` / `for_label_no_replacement` (lib.rs).
The three loops ("before", "inside", "after") are modelled one function each;
the label arrays and `LONGEST_LABEL_LENGTH` come from the translator.
Bytes are `Nat` (the model is total on all naturals, so the theorems cover
`u8` a fortiori).
-/
namespace EncodingRs.Model

/-- `0x09 | 0x0A | 0x0C | 0x0D | 0x20` -/
def isLabelWs (b : Nat) : Bool := b == 0x09 || b == 0x0A || b == 0x0C || b == 0x0D || b == 0x20

/-- `b'A'..=b'Z'` -/
def isUpper (b : Nat) : Bool := 0x41 ≤ b && b ≤ 0x5A

/-- `b'a'..=b'z' | b'0'..=b'9' | b'-' | b'_' | b':' | b'.'` -/
def isLabelChar (b : Nat) : Bool :=
  (0x61 ≤ b && b ≤ 0x7A) || (0x30 ≤ b && b ≤ 0x39) || b == 0x2D || b == 0x5F || b == 0x3A || b == 0x2E

/-- the "after" loop: only whitespace may follow -/
def scanAfter : List Nat → Bool
  | [] => true
  | b :: r => if isLabelWs b then scanAfter r else false

/-- the "inside" loop; `acc` is `trimmed[..trimmed_pos]` -/
def scanInside (acc : List Nat) : List Nat → Option (List Nat)
  | [] => some acc
  | b :: r =>
    if isLabelWs b then (if scanAfter r then some acc else none)
    else if isUpper b then
      (if acc.length == Gen.longestLabelLength then none else scanInside (acc ++ [b + 0x20]) r)
    else if isLabelChar b then
      (if acc.length == Gen.longestLabelLength then none else scanInside (acc ++ [b]) r)
    else none

/-- the "before" loop -/
def scanBefore : List Nat → Option (List Nat)
  | [] => none
  | b :: r =>
    if isLabelWs b then scanBefore r
    else if isUpper b then scanInside [b + 0x20] r
    else if isLabelChar b then scanInside [b] r
    else none

/-- the closure passed to `binary_search_by`: length first, then the bytes
compared from the end (`Ordering` of probe relative to candidate) -/
def cmpRev : List Nat → List Nat → Ordering
  | [], [] => .eq
  | [], _ :: _ => .lt
  | _ :: _, [] => .gt
  | a :: as, b :: bs => if a < b then .lt else if b < a then .gt else cmpRev as bs

def cmpLabel (probe cand : List Nat) : Ordering :=
  if probe.length < cand.length then .lt
  else if cand.length < probe.length then .gt
  else cmpRev probe.reverse cand.reverse

/-- `LABELS_SORTED.binary_search_by(..)`: modelled as "some index whose
comparison is `Equal`" (first such). That `core`'s binary search finds it when
the array is strictly sorted under the comparator is in the trusted base;
strict sortedness itself is theorem `labels_sorted` (Thm/C13). -/
def searchLabel (cand : List Nat) : Option Nat :=
  let i := Gen.labelsSorted.findIdx (fun probe => cmpLabel probe cand == .eq)
  if i < Gen.labelsSorted.length then some i else none

/-- `Encoding::for_label`: index into `Gen.encodings` -/
def forLabel (label : List Nat) : Option Nat :=
  match scanBefore label with
  | none => none
  | some cand =>
    match searchLabel cand with
    | none => none
    | some i => Gen.encodingsInLabelSort[i]?

/-- `Encoding::for_label_no_replacement` -/
def forLabelNoReplacement (label : List Nat) : Option Nat :=
  match forLabel label with
  | none => none
  | some e => if e == Gen.replacementIdx then none else some e

def encName (i : Nat) : Option (List Nat) := (Gen.encodings[i]?).map (·.nameBytes)

end EncodingRs.Model
