import EncodingRs.Model.EncFam
import EncodingRs.Gen.Encodings
/-!
Streaming encoder calls (relational, with a stop `Budget` like decoder calls),
the UTF-8 / UTF-16 sources of handles.rs, and the `Encoder` wrapper of lib.rs
that writes numeric character references for unmappable characters.
-/
namespace EncodingRs.Model

/-! ### sources -/

/-- `Utf16Source::read`: one character from UTF-16 units: `(scalar, units consumed)`.
An unpaired surrogate (also a high surrogate at the end of the buffer) reads as U+FFFD. -/
def read16 : List Nat → Option (Nat × Nat)
  | [] => none
  | u :: rest =>
    if u < 0xD800 ∨ 0xDFFF < u then some (u, 1)
    else if u ≤ 0xDBFF then
      match rest with
      | lo :: _ => if 0xDC00 ≤ lo ∧ lo ≤ 0xDFFF then some (0x10000 + (u - 0xD800) * 0x400 + (lo - 0xDC00), 2)
                   else some (0xFFFD, 1)
      | [] => some (0xFFFD, 1)
    else some (0xFFFD, 1)

/-- `Utf8Source::read` on valid UTF-8: `(scalar, bytes consumed)` -/
def read8 : List Nat → Option (Nat × Nat)
  | [] => none
  | a :: rest =>
    if a < 0x80 then some (a, 1)
    else if a < 0xE0 then some ((a % 32) * 64 + (rest.getD 0 0) % 64, 2)
    else if a < 0xF0 then some ((a % 16) * 4096 + (rest.getD 0 0) % 64 * 64 + (rest.getD 1 0) % 64, 3)
    else some ((a % 8) * 262144 + (rest.getD 0 0) % 64 * 4096 + (rest.getD 1 0) % 64 * 64 + (rest.getD 2 0) % 64, 4)

/-- the characters a source buffer yields: `(scalar, width)` items -/
def itemsOf (read : List Nat → Option (Nat × Nat)) : Nat → List Nat → List (Nat × Nat)
  | 0, _ => []
  | fuel + 1, units =>
    match read units with
    | none => []
    | some (c, w) => (c, w) :: itemsOf read fuel (units.drop w)

def items16 (units : List Nat) : List (Nat × Nat) := itemsOf read16 units.length units
def items8 (bytes : List Nat) : List (Nat × Nat) := itemsOf read8 bytes.length bytes

/-! ### raw (`*_without_replacement`) calls -/

inductive CharRes (σ : Type) where
  /-- the character was consumed in state `st`, `out` written, `b` budget left -/
  | done (st : σ) (out : List Nat) (b : Budget)
  | unmappable (st : σ) (out : List Nat) (c : Nat)
  /-- `OutputFull` before (re-)reading the character; `out` = escape bytes already written -/
  | full (st : σ) (out : List Nat) (need : Nat)

variable (E : EFam)

/-- read one character, following `.again` (state transition written, character read again) -/
def processChar : Nat → E.σ → Nat → Budget → List Nat → CharRes E.σ
  | 0, s, _, b, acc => .done s acc b
  | fuel + 1, s, c, b, acc =>
    if b.isZero then .full s acc (E.need s c) else
    let r := E.step s c
    match r.unmappable with
    | some u => .unmappable r.st (acc ++ r.out) u
    | none =>
      if r.unread then processChar fuel r.st c b.dec (acc ++ r.out)
      else .done r.st (acc ++ r.out) b.dec

def erun (last : Bool) : E.σ → List (Nat × Nat) → Budget → ECallRes E.σ
  | s, [], b =>
    if last then
      if (E.eof s).1.isEmpty then ⟨.inputEmpty, 0, [], (E.eof s).2, 0⟩
      else if b.isZero then ⟨.outputFull, 0, [], s, E.eofNeed s⟩
      else ⟨.inputEmpty, 0, (E.eof s).1, (E.eof s).2, 0⟩
    else ⟨.inputEmpty, 0, [], s, 0⟩
  | s, (c, w) :: rest, b =>
    match processChar E (E.rank s c + 1) s c b [] with
    | .full st out need => ⟨.outputFull, 0, out, st, need⟩
    | .unmappable st out u => ⟨.unmappable u, w, out, st, 0⟩
    | .done st out b' =>
      let t := erun last st rest b'
      ⟨t.res, t.read + w, out ++ t.out, t.st, t.stopNeed⟩

/-- one raw encoder call on a source buffer (`utf16 = true`: UTF-16 units, else valid UTF-8 bytes) -/
def ecall (utf16 : Bool) (s : E.σ) (src : List Nat) (last : Bool) (b : Budget) : ECallRes E.σ :=
  erun E last s (if utf16 then items16 src else items8 src) b

/-- side conditions of an admissible stop, as for decoders: output fits; `OutputFull` only when less
than the asked-for space is free -/
def EAdmissible (cap : Nat) (r : ECallRes E.σ) : Prop :=
  r.out.length ≤ cap ∧ (r.res = .outputFull → cap < r.out.length + r.stopNeed)

/-! ### `write_ncr` and the with-replacement wrapper -/

def decimalDigits : Nat → Nat → List Nat
  | 0, _ => []
  | fuel + 1, n => if n < 10 then [48 + n] else decimalDigits fuel (n / 10) ++ [48 + n % 10]

/-- `&#` decimal `;` -/
def ncr (c : Nat) : List Nat := [38, 35] ++ decimalDigits 8 c ++ [59]

structure EReplRes (σ : Type) where
  /-- `CoderResult` (`inputEmpty` / `outputFull`) -/
  res : ERes
  read : Nat
  out : List Nat
  hadUnmappables : Bool
  st : σ
  /-- per inner raw call: (capacity offered, output length, result, stopNeed) for the admissibility conditions -/
  inner : List (Nat × Nat × ERes × Nat)

/-- `Encoder::encode_from_utf8` / `encode_from_utf16` (lib.rs). `canAll` = `can_encode_everything()`;
`ncrExtra` = `NCR_EXTRA`; one budget per inner raw call. -/
def encRepl (canAll : Bool) (ncrExtra : Nat) (utf16 : Bool) (last : Bool) (cap : Nat) :
    Nat → E.σ → List Nat → List Budget → Option (EReplRes E.σ)
  | 0, _, _, _ => none
  | fuel + 1, s, src, budgets =>
    if ¬ canAll ∧ cap < ncrExtra then
      if src.isEmpty ∧ ¬ (last ∧ E.hasPending s) then some ⟨.inputEmpty, 0, [], false, s, []⟩
      else some ⟨.outputFull, 0, [], false, s, []⟩
    else
      let eff := if canAll then cap else cap - ncrExtra
      go fuel s src budgets eff 0 0 [] false []
where
  /-- the loop; `tw` = total_written, `tr` = total_read -/
  go : Nat → E.σ → List Nat → List Budget → Nat → Nat → Nat → List Nat → Bool →
      List (Nat × Nat × ERes × Nat) → Option (EReplRes E.σ)
  | 0, _, _, _, _, _, _, _, _, _ => none
  | fuel + 1, s, src, budgets, eff, tr, tw, acc, had, inner =>
    let r := ecall E utf16 s (src.drop tr) last (budgets.headD .unlimited)
    let inner' := inner ++ [(eff - tw, r.out.length, r.res, r.stopNeed)]
    let tr' := tr + r.read
    let acc' := acc ++ r.out
    let tw' := tw + r.out.length
    match r.res with
    | .inputEmpty => some ⟨.inputEmpty, tr', acc', had, r.st, inner'⟩
    | .outputFull => some ⟨.outputFull, tr', acc', had, r.st, inner'⟩
    | .unmappable c =>
      let acc'' := acc' ++ ncr c
      let tw'' := tw' + (ncr c).length
      if tw'' ≥ eff then
        if tr' = src.length ∧ ¬ (last ∧ E.hasPending r.st) then some ⟨.inputEmpty, tr', acc'', true, r.st, inner'⟩
        else some ⟨.outputFull, tr', acc'', true, r.st, inner'⟩
      else go fuel r.st src budgets.tail eff tr' tw'' acc'' true inner'

end EncodingRs.Model
