import EncodingRs.Model.Data
/-!
Hand models of the *encode-side* lookup functions of `data.rs` (default cargo
features: the `#[cfg(not(any(feature = "less-slow-…", feature = "fast-…")))]`
variants) and of the per-module helper functions of the encoders
(`ksx1001_encode_misc`, `gbk_encode_non_unified`, `encode_kanji`, …) over the
regenerated tables.

Conventions (as in `Data.lean`): arithmetic is modelled as written
(`wrapping_sub` = `wsub16`/`wsubU`/`wsub32`, an `as u8` cast = `u8`), array reads
use `getD … 0`, and `position(&T[lo..hi], x)` is `positionIn T lo hi x` (a scan
of the index range, no intermediate slice is built).
-/
namespace EncodingRs.Model

/-- `u32::wrapping_sub` -/
def wsub32 (a b : Nat) : Nat := (a + 4294967296 - b % 4294967296) % 4294967296

/-- an `as u8` cast of a `usize`/`u16` value -/
def u8 (n : Nat) : Nat := n % 256

/-- `in_range16` (lib.rs): half-open -/
def inRange16 (i s e : Nat) : Bool := decide (wsub16 i s < e - s)
/-- `in_inclusive_range16` (lib.rs) -/
def inInclusiveRange16 (i s e : Nat) : Bool := decide (wsub16 i s ≤ e - s)
/-- `in_inclusive_range32` (lib.rs) -/
def inInclusiveRange32 (i s e : Nat) : Bool := decide (wsub32 i s ≤ e - s)

/-- `position(&hay[lo..hi], needle)`: index *relative to `lo`* of the first
occurrence of `needle` among `hay[lo], …, hay[hi-1]` -/
def positionIn (hay : Array Nat) (lo hi needle : Nat) : Option Nat :=
  let rec go (i n : Nat) : Option Nat :=
    match n with
    | 0 => none
    | n + 1 => if hay.getD i 0 = needle then some (i - lo) else go (i + 1) n
  go lo (hi - lo)

/-- `slice::binary_search` as `Ok(i)` ↦ `some i`, `Err(_)` ↦ `none` (sorted array without repetitions) -/
def binarySearchOk (hay : Array Nat) (needle : Nat) : Option Nat :=
  let i := lowerBound hay needle
  if i < hay.size ∧ hay.getD i 0 = needle then some i else none

/-! ### single_byte.rs -/

/-- `SingleByteEncoder::encode_u16` -/
def singleByteEncodeU16 (table : Array Nat) (runBmpOffset runByteOffset runLength : Nat) (codeUnit : Nat) :
    Option Nat :=
  let offset := wsubU codeUnit runBmpOffset
  if offset < runLength then some (u8 (128 + runByteOffset + offset)) else
  let tailStart := runByteOffset + runLength
  match positionIn table tailStart table.size codeUnit with
  | some pos => some (u8 (128 + tailStart + pos))
  | none =>
    let beforeRun : Option Nat :=
      if runByteOffset ≥ 64 then
        match positionIn table 64 runByteOffset codeUnit with
        | some pos => some (u8 ((128 + 64) + pos))
        | none =>
          match positionIn table 32 64 codeUnit with
          | some pos => some (u8 ((128 + 32) + pos))
          | none => none
      else
        match positionIn table 32 runByteOffset codeUnit with
        | some pos => some (u8 ((128 + 32) + pos))
        | none => none
    match beforeRun with
    | some b => some b
    | none =>
      match positionIn table 0 32 codeUnit with
      | some pos => some (u8 (128 + pos))
      | none => none

/-! ### Big5 (data.rs) -/

/-- `big5_level1_hanzi_encode` (default variant): `(lead, trail)` -/
def big5Level1HanziEncode (bmp : Nat) : Option (Nat × Nat) :=
  if inInclusiveRange16 bmp 0x4E00 0x9FB1 then
    match positionIn Gen.big5LowBits (5495 - 942) (10951 - 942) bmp with
    | some hanziPointer =>
      let lead := hanziPointer / 157 + 0xA4
      let remainder := hanziPointer % 157
      let trail := if remainder < 0x3F then remainder + 0x40 else remainder + 0x62
      some (u8 lead, u8 trail)
    | none =>
      if bmp = 0x4E5A then some (0xC8, 0x7B)
      else if bmp = 0x5202 then some (0xC8, 0x7D)
      else if bmp = 0x9FB0 then some (0xC8, 0xA1)
      else if bmp = 0x5188 then some (0xC8, 0xA2)
      else if bmp = 0x9FB1 then some (0xC8, 0xA3)
      else none
  else none

/-- `big5_box_encode`: pointer -/
def big5BoxEncode (bmp : Nat) : Option Nat :=
  (positionIn Gen.big5LowBits (18963 - 942) (18992 - 942) bmp).map (· + 18963)

/-- the trailing `while` loop of `big5_other_encode` -/
def big5OtherTail (bmp : Nat) : Option Nat :=
  let rec go (i n : Nat) : Option Nat :=
    match n with
    | 0 => none
    | n + 1 =>
      if Gen.big5LowBits.getD i 0 = bmp ∧ big5IsAstral i = false then some (i + 942) else go (i + 1) n
  go (18996 - 942) (Gen.big5LowBits.size - (18996 - 942))

/-- `big5_other_encode` (default variant): pointer -/
def big5OtherEncode (bmp : Nat) : Option Nat :=
  if 0x4491 = bmp then some 11209 else
  match positionIn Gen.big5LowBits (5024 - 942) (5466 - 942) bmp with
  | some pos => some (pos + 5024)
  | none =>
  match positionIn Gen.big5LowBits (10896 - 942) (11205 - 942) bmp with
  | some pos => some (pos + 10896)
  | none =>
  match positionIn Gen.big5LowBits (11254 - 942) (18963 - 942) bmp with
  | some pos => some (pos + 11254)
  | none => big5OtherTail bmp

/-- the `while` loop of `big5_astral_encode` -/
def big5AstralSearch (lowBits : Nat) : Option Nat :=
  let rec go (i n : Nat) : Option Nat :=
    match n with
    | 0 => none
    | n + 1 =>
      if Gen.big5LowBits.getD i 0 = lowBits ∧ big5IsAstral i = true then some i else go (i + 1) n
  go (18997 - 942) (Gen.big5LowBits.size - 1 - (18997 - 942))

/-- `big5_astral_encode`: rebased pointer -/
def big5AstralEncode (lowBits : Nat) : Option Nat :=
  if lowBits = 0x00CC then some (11205 - 942)
  else if lowBits = 0x008A then some (11207 - 942)
  else if lowBits = 0x7607 then some (11213 - 942)
  else big5AstralSearch lowBits

/-! ### EUC-KR (data.rs, euc_kr.rs) -/

def cp949TopHangulEncode (bmp : Nat) : Nat := mapWithRanges Gen.cp949TopHangulOffsets Gen.cp949TopHangulPointers bmp
def cp949LeftHangulEncode (bmp : Nat) : Nat := mapWithRanges Gen.cp949LeftHangulOffsets Gen.cp949LeftHangulPointers bmp
def ksx1001OtherEncode (bmp : Nat) : Option Nat :=
  mapWithUnsortedRanges Gen.ksx1001OtherUnsortedOffsets Gen.ksx1001OtherPointers bmp

/-- `ksx1001_encode_misc` (euc_kr.rs): `(lead, trail)` as `usize` -/
def ksx1001EncodeMisc (bmp : Nat) : Option (Nat × Nat) :=
  match (if inInclusiveRange16 bmp 0x3000 0x3015 then positionIn Gen.ksx1001Symbols 0 (0xAB - 0x60) bmp else none) with
  | some pos => some (0xA1, pos + 0xA1)
  | none =>
  match ksx1001OtherEncode bmp with
  | some otherPointer => some (otherPointer / 94 + (0x81 + 0x22), otherPointer % 94 + 0xA1)
  | none =>
  let latinOrBox : Option (Nat × Nat) :=
    if inRange16 bmp 0x00AA 0x0168 then
      match positionIn Gen.ksx1001Lowercase 0 Gen.ksx1001Lowercase.size bmp with
      | some pos => some (0x81 + 0x28, 0xA1 + pos)
      | none =>
        match positionIn Gen.ksx1001Uppercase 0 Gen.ksx1001Uppercase.size bmp with
        | some pos => some (0x81 + 0x27, 0xA1 + pos)
        | none => none
    else if inRange16 bmp 0x2500 0x254C then
      match positionIn Gen.ksx1001Box 0 Gen.ksx1001Box.size bmp with
      | some pos => some (0x81 + 0x25, 0xA1 + pos)
      | none => none
    else none
  match latinOrBox with
  | some r => some r
  | none =>
  if inInclusiveRange16 bmp 0x2015 0x266D || inInclusiveRange16 bmp 0x321C 0x33D8
      || inInclusiveRange16 bmp 0xFF3C 0xFFE5 || inInclusiveRange16 bmp 0x00A1 0x00F7
      || inInclusiveRange16 bmp 0x02C7 0x02DD then
    match positionIn Gen.ksx1001Symbols 3 Gen.ksx1001Symbols.size bmp with
    | some pos => if pos < 94 - 3 then some (0xA1, pos + 0xA1 + 3) else some (0xA2, pos - (94 - 3) + 0xA1)
    | none => none
  else none

/-- `ksx1001_encode_hangul` (default variant): `(lead, trail)` -/
def ksx1001EncodeHangul (bmp : Nat) : Nat × Nat :=
  match binarySearchOk Gen.ksx1001Hangul bmp with
  | some p => (u8 (p / 94 + (0x81 + 0x2F)), u8 (p % 94 + 0xA1))
  | none =>
    let lt : Nat × Nat :=
      if bmp < 0xC8A5 then
        let topPointer := cp949TopHangulEncode bmp
        (u8 (topPointer / (190 - 12) + 0x81), u8 (topPointer % (190 - 12)))
      else
        let leftPointer := cp949LeftHangulEncode bmp
        (u8 (leftPointer / (190 - 94 - 12) + (0x81 + 0x20)), u8 (leftPointer % (190 - 94 - 12)))
    let offset := if lt.2 ≥ 0x40 - 12 then 0x41 + 12 else if lt.2 ≥ 0x20 - 6 then 0x41 + 6 else 0x41
    (lt.1, lt.2 + offset)

/-- `ksx1001_encode_hanja` (default variant) -/
def ksx1001EncodeHanja (bmp : Nat) : Option (Nat × Nat) :=
  match positionIn Gen.ksx1001Hanja 0 Gen.ksx1001Hanja.size bmp with
  | some p => some (u8 (p / 94 + (0x81 + 0x49)), u8 (p % 94 + 0xA1))
  | none => none

/-! ### JIS X 0208 (data.rs) -/

def jis0208Level1KanjiPosition (bmp : Nat) : Option Nat :=
  positionIn Gen.jis0208Level1Kanji 0 Gen.jis0208Level1Kanji.size bmp

/-- `jis0208_level2_and_additional_kanji_encode` -/
def jis0208Level2AndAdditionalKanjiEncode (bmp : Nat) : Option Nat :=
  positionIn Gen.jis0208Level2AndAdditionalKanji 0 Gen.jis0208Level2AndAdditionalKanji.size bmp

/-- `position(&IBM_KANJI[..], bmp)` -/
def ibmKanjiPosition (bmp : Nat) : Option Nat := positionIn Gen.ibmKanji 0 Gen.ibmKanji.size bmp

/-- the `(lead, trail)` computation shared by the Shift_JIS encoder bodies -/
def shiftJisBytesOfPointer (pointer : Nat) : Nat × Nat :=
  let lead := pointer / 188
  let leadOffset := if lead < 0x1F then 0x81 else 0xC1
  let trail := pointer % 188
  let trailOffset := if trail < 0x3F then 0x40 else 0x41
  (u8 (lead + leadOffset), u8 (trail + trailOffset))

/-- `jis0208_level1_kanji_shift_jis_encode` (default variant) -/
def jis0208Level1KanjiShiftJisEncode (bmp : Nat) : Option (Nat × Nat) :=
  (jis0208Level1KanjiPosition bmp).map fun kanjiPointer => shiftJisBytesOfPointer (1410 + kanjiPointer)

/-- `jis0208_level1_kanji_euc_jp_encode` (default variant) -/
def jis0208Level1KanjiEucJpEncode (bmp : Nat) : Option (Nat × Nat) :=
  (jis0208Level1KanjiPosition bmp).map fun kanjiPointer => (u8 (kanjiPointer / 94 + 0xB0), u8 (kanjiPointer % 94 + 0xA1))

/-- `jis0208_level1_kanji_iso_2022_jp_encode` (default variant) -/
def jis0208Level1KanjiIso2022JpEncode (bmp : Nat) : Option (Nat × Nat) :=
  (jis0208Level1KanjiPosition bmp).map fun kanjiPointer =>
    (u8 (kanjiPointer / 94 + (0xB0 - 0x80)), u8 (kanjiPointer % 94 + 0x21))

/-- `jis0208_symbol_encode`: pointer (prefers the Shift_JIS pointers for the three
symbols that are in both ranges, by the order of the triples) -/
def jis0208SymbolEncode (bmp : Nat) : Option Nat :=
  let rec go (i fuel : Nat) : Option Nat :=
    match fuel with
    | 0 => none
    | fuel + 1 =>
      if i < Gen.jis0208SymbolTriples.size then
        let pointerStart := Gen.jis0208SymbolTriples.getD i 0
        let length := Gen.jis0208SymbolTriples.getD (i + 1) 0
        let symbolStart := Gen.jis0208SymbolTriples.getD (i + 2) 0
        match positionIn Gen.jis0208Symbols symbolStart (symbolStart + length) bmp with
        | some rel => some (rel + pointerStart)
        | none => go (i + 3) fuel
      else none
  go 0 (Gen.jis0208SymbolTriples.size + 1)

/-- `ibm_symbol_encode`: pointer -/
def ibmSymbolEncode (bmp : Nat) : Option Nat :=
  (positionIn Gen.jis0208Symbols Gen.ibmSymbolStart Gen.ibmSymbolEnd bmp).map (· + Gen.ibmSymbolPointerStart)

/-- `jis0208_range_encode`: pointer -/
def jis0208RangeEncode (bmp : Nat) : Option Nat :=
  let rec go (i fuel : Nat) : Option Nat :=
    match fuel with
    | 0 => none
    | fuel + 1 =>
      if i < Gen.jis0208RangeTriples.size then
        let start := Gen.jis0208RangeTriples.getD (i + 2) 0
        let length := Gen.jis0208RangeTriples.getD (i + 1) 0
        let bmpMinusStart := wsubU bmp start
        if bmpMinusStart < length then some (bmpMinusStart + Gen.jis0208RangeTriples.getD i 0)
        else go (i + 3) fuel
      else none
  go 0 (Gen.jis0208RangeTriples.size + 1)

/-- `encode_kanji` of euc_jp.rs (default variant) -/
def eucJpEncodeKanji (bmp : Nat) : Option (Nat × Nat) :=
  if 0x4EDD = bmp then some (0xA1, 0xB8) else
  match jis0208Level1KanjiEucJpEncode bmp with
  | some lt => some lt
  | none =>
  match jis0208Level2AndAdditionalKanjiEncode bmp with
  | some pos => some (u8 (pos / 94 + 0xD0), u8 (pos % 94 + 0xA1))
  | none =>
  match ibmKanjiPosition bmp with
  | some pos => some (u8 (pos / 94 + 0xF9), u8 (pos % 94 + 0xA1))
  | none => none

/-- `encode_kanji` of shift_jis.rs (default variant) -/
def shiftJisEncodeKanji (bmp : Nat) : Option (Nat × Nat) :=
  match jis0208Level1KanjiShiftJisEncode bmp with
  | some lt => some lt
  | none =>
    let pointer : Option Nat :=
      if 0x4EDD = bmp then some 23 else
      match jis0208Level2AndAdditionalKanjiEncode bmp with
      | some pos => some (4418 + pos)
      | none =>
        match ibmKanjiPosition bmp with
        | some pos => some (10744 + pos)
        | none => none
    pointer.map shiftJisBytesOfPointer

/-- `encode_kanji` of iso_2022_jp.rs (default variant) -/
def iso2022JpEncodeKanji (bmp : Nat) : Option (Nat × Nat) :=
  if 0x4EDD = bmp then some (0x21, 0xB8 - 0x80) else
  match jis0208Level1KanjiIso2022JpEncode bmp with
  | some lt => some lt
  | none =>
  match jis0208Level2AndAdditionalKanjiEncode bmp with
  | some pos => some (u8 (pos / 94 + (0xD0 - 0x80)), u8 (pos % 94 + 0x21))
  | none =>
  match ibmKanjiPosition bmp with
  | some pos => some (u8 (pos / 94 + (0xF9 - 0x80)), u8 (pos % 94 + 0x21))
  | none => none

/-- `is_kanji_mapped` of iso_2022_jp.rs (default variant) -/
def isKanjiMapped (bmp : Nat) : Bool :=
  decide (0x4EDD = bmp)
    || (jis0208Level1KanjiShiftJisEncode bmp).isSome
    || (jis0208Level2AndAdditionalKanjiEncode bmp).isSome
    || (ibmKanjiPosition bmp).isSome

/-- `is_mapped_for_two_byte_encode` of iso_2022_jp.rs -/
def isMappedForTwoByteEncode (bmp : Nat) : Bool :=
  let bmpMinusHiragana := wsub16 bmp 0x3041
  if bmpMinusHiragana < 0x53 then true
  else if inInclusiveRange16 bmp 0x4E00 0x9FA0 then isKanjiMapped bmp
  else
    let bmpMinusKatakana := wsub16 bmp 0x30A1
    if bmpMinusKatakana < 0x56 then true
    else
      let bmpMinusSpace := wsub16 bmp 0x3000
      decide (bmpMinusSpace < 3)
        || inInclusiveRange16 bmp 0xFF61 0xFF9F
        || decide (bmp = 0x2212)
        || (jis0208RangeEncode bmp).isSome
        || inInclusiveRange16 bmp 0xFA0E 0xFA2D
        || decide (bmp = 0xF929)
        || decide (bmp = 0xF9DC)
        || (ibmSymbolEncode bmp).isSome
        || (jis0208SymbolEncode bmp).isSome

/-! ### GBK / gb18030 (data.rs, gb18030.rs) -/

/-- `gb18030_range_encode` -/
def gb18030RangeEncode (bmp : Nat) : Nat :=
  if bmp = 0xE7C7 then 7457 else mapWithRanges Gen.gb18030RangeOffsets Gen.gb18030RangePointers bmp

def gbkTopIdeographEncode (bmp : Nat) : Nat := mapWithRanges Gen.gbkTopIdeographOffsets Gen.gbkTopIdeographPointers bmp
def gbkLeftIdeographEncode (bmp : Nat) : Nat := mapWithRanges Gen.gbkLeftIdeographOffsets Gen.gbkLeftIdeographPointers bmp
def gbkOtherEncode (bmp : Nat) : Option Nat :=
  mapWithUnsortedRanges Gen.gbkOtherUnsortedOffsets Gen.gbkOtherPointers bmp
def gb2312OtherEncode (bmp : Nat) : Option Nat :=
  mapWithUnsortedRanges Gen.gb2312OtherUnsortedOffsets Gen.gb2312OtherPointers bmp

/-- `gb2312_level1_hanzi_encode` (default variant) -/
def gb2312Level1HanziEncode (bmp : Nat) : Option (Nat × Nat) :=
  (positionIn Gen.gb2312Hanzi 0 (94 * (0xD8 - 0xB0) - 5) bmp).map fun hanziPointer =>
    (u8 (hanziPointer / 94 + 0xB0), u8 (hanziPointer % 94 + 0xA1))

/-- `gb2312_level2_hanzi_encode` -/
def gb2312Level2HanziEncode (bmp : Nat) : Option Nat :=
  positionIn Gen.gb2312Hanzi (94 * (0xD8 - 0xB0)) Gen.gb2312Hanzi.size bmp

/-- `encode_hanzi` of gb18030.rs (default variant): cannot fail -/
def gbEncodeHanzi (bmp : Nat) : Nat × Nat :=
  match gb2312Level1HanziEncode bmp with
  | some lt => lt
  | none =>
  match gb2312Level2HanziEncode bmp with
  | some hanziPointer => (u8 (hanziPointer / 94 + 0xD8), u8 (hanziPointer % 94 + 0xA1))
  | none =>
    let lt : Nat × Nat :=
      if bmp < 0x72DC then
        let pointer := gbkTopIdeographEncode bmp
        (pointer / 190 + 0x81, pointer % 190)
      else
        let pointer := gbkLeftIdeographEncode bmp
        (pointer / (190 - 94) + (0x81 + 0x29), pointer % (190 - 94))
    let offset := if lt.2 < 0x3F then 0x40 else 0x41
    (u8 lt.1, u8 (lt.2 + offset))

/-- `gbk_encode_non_unified` of gb18030.rs: `(lead, trail)` as `usize` -/
def gbkEncodeNonUnified (bmp : Nat) : Option (Nat × Nat) :=
  match (if inInclusiveRange16 bmp 0x2014 0x3017 || inInclusiveRange16 bmp 0xFF04 0xFFE1
          then positionIn Gen.gb2312Symbols 0 Gen.gb2312Symbols.size bmp else none) with
  | some pos => some (0xA1, pos + 0xA1)
  | none =>
  -- Ext A
  if inRange16 bmp 0x3400 0x4E00 then
    (positionIn Gen.gbkBottom 21 100 bmp).map fun pos =>
      (0xFE, pos + (if pos < 0x3F - 16 then 0x40 + 16 else 0x41 + 16))
  -- Compatibility ideographs
  else if inRange16 bmp 0xF900 0xFB00 then
    (positionIn Gen.gbkBottom 0 21 bmp).map fun pos =>
      if pos < 5 then (0xFD, pos + (190 - 94 - 5 + 0x41)) else (0xFE, pos + (0x40 - 5))
  else if bmp < 0x02CA then
    if inRange16 bmp 0x00E0 0x0262 && decide (bmp ≠ 0x00F7) then
      match positionIn Gen.gb2312Pinyin 0 Gen.gb2312Pinyin.size bmp with
      | some pos => some (0xA8, pos + 0xA1)
      | none => none
    else if inInclusiveRange16 bmp 0x00A4 0x00F7 || inInclusiveRange16 bmp 0x02C7 0x02C9 then
      match positionIn Gen.gb2312Symbols 3 (0xAC - 0x60) bmp with
      | some pos => some (0xA1, pos + 0xA1 + 3)
      | none => none
    else none
  else
  -- the `if … else if …` chain whose branches either return or fall through
  let early : Option (Option (Nat × Nat)) :=
    if inInclusiveRange16 bmp 0xE78D 0xE864 then
      match positionIn Gen.gb180302022OverridePua 0 Gen.gb180302022OverridePua.size bmp with
      | some pos =>
        let pair := Gen.gb180302022OverrideBytes.getD pos 0
        some (some (pair / 256, pair % 256))
      | none => none
    else if bmp ≥ 0xFE17 then
      match positionIn Gen.gb2312SymbolsAfterGreek 0 Gen.gb2312SymbolsAfterGreek.size bmp with
      | some pos => some (some (0xA6, pos + (0x9F - 0x60 + 0xA1)))
      | none => none
    else if bmp = 0x1E3F then some (some (0xA8, 0x7B - 0x60 + 0xA1))
    else if inRange16 bmp 0xA000 0xD800 then some none
    else none
  match early with
  | some r => r
  | none =>
  match gb2312OtherEncode bmp with
  | some otherPointer => some (0xA2 + otherPointer / 94, 0xA1 + otherPointer % 94)
  | none =>
  if inRange16 bmp 0x02DA 0x2010 then none else
  match gbkOtherEncode bmp with
  | some otherPointer =>
    let otherLead := otherPointer / (190 - 94)
    let otherTrail := otherPointer % (190 - 94)
    let offset := if otherTrail < 0x3F then 0x40 else 0x41
    some (otherLead + (0x81 + 0x20), otherTrail + offset)
  | none =>
  match (if inInclusiveRange16 bmp 0x2E81 0x2ECA || inInclusiveRange16 bmp 0x9FB4 0x9FBB
          || inInclusiveRange16 bmp 0xE816 0xE855
          then positionIn Gen.gbkBottom 21 Gen.gbkBottom.size bmp else none) with
  | some pos =>
    let trail := pos + 16
    let offset := if trail < 0x3F then 0x40 else 0x41
    some (0xFE, trail + offset)
  | none =>
  let bmpMinusGb2312BottomPua := wsub16 bmp 0xE234
  if bmpMinusGb2312BottomPua ≤ 0xE4C5 - 0xE234 then
    some (0x81 + 0x77 + bmpMinusGb2312BottomPua / 94, 0xA1 + bmpMinusGb2312BottomPua % 94)
  else
  let bmpMinusPuaBetweenHanzi := wsub16 bmp 0xE810
  if bmpMinusPuaBetweenHanzi < 5 then some (0x81 + 0x56, 0xFF - 5 + bmpMinusPuaBetweenHanzi)
  else none

/-- the four bytes of a gb18030 range pointer (`write_four` arguments) -/
def gb18030FourBytes (rangePointer : Nat) : List Nat :=
  let first := rangePointer / (10 * 126 * 10)
  let remFirst := rangePointer % (10 * 126 * 10)
  let second := remFirst / (10 * 126)
  let remSecond := remFirst % (10 * 126)
  let third := remSecond / 10
  let fourth := remSecond % 10
  [u8 (first + 0x81), u8 (second + 0x30), u8 (third + 0x81), u8 (fourth + 0x30)]

end EncodingRs.Model
