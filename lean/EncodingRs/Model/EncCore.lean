import EncodingRs.Model.Core
/-!
# Generic streaming-encoder model (DESIGN.md 3.4)

Mirror of `Model/Core.lean` for encoders: a family is a per-character transition
on a small state (only ISO-2022-JP has one), an end-of-stream block, and an
upper bound on the free space the implementation may insist on before it reads
a character.  A call is modelled relationally with a `Budget`, like decoder calls.

A *source item* is `(scalar value, width in source units)`; `Model/EncSource.lean`
turns a UTF-8 / UTF-16 buffer into items the way `Utf8Source` / `Utf16Source`
read it (an unpaired surrogate is U+FFFD of width 1).
-/
namespace EncodingRs.Model

structure EStep (σ : Type) where
  st : σ
  /-- bytes written by this step (also when it ends in `Unmappable`: ISO-2022-JP
  writes the escape back to ASCII first) -/
  out : List Nat
  /-- `EncoderResult::Unmappable(c)` returned by this step -/
  unmappable : Option Nat
  /-- the character is handed back (`unread_handle.unread()`), to be read again in the new state -/
  unread : Bool

def EStep.ok {σ} (st : σ) (out : List Nat) : EStep σ := ⟨st, out, none, false⟩
def EStep.unmap {σ} (st : σ) (c : Nat) (out : List Nat := []) : EStep σ := ⟨st, out, some c, false⟩
def EStep.again {σ} (st : σ) (out : List Nat) : EStep σ := ⟨st, out, none, true⟩

structure EFam where
  σ : Type
  init : σ
  /-- one scalar value -/
  step : σ → Nat → EStep σ
  /-- the end-of-stream block: bytes written and the state afterwards -/
  eof : σ → List Nat × σ
  /-- `has_pending_state()` -/
  hasPending : σ → Bool
  /-- upper bound on the free bytes the implementation may insist on before reading character `c` -/
  need : σ → Nat → Nat
  /-- free bytes the end-of-stream block asks for -/
  eofNeed : σ → Nat
  /-- termination measure of the re-read loop on one character (it may depend on the character:
  ISO-2022-JP switches Ascii → Roman for U+00A5 and Roman → Ascii for U+005C) -/
  rank : σ → Nat → Nat
  unread_rank : ∀ s c, (step s c).unread = true → rank (step s c).st c < rank s c

/-- `EncoderResult` -/
inductive ERes | inputEmpty | outputFull | unmappable (c : Nat)
deriving DecidableEq, Repr

structure ECallRes (σ : Type) where
  res : ERes
  /-- source units consumed -/
  read : Nat
  out : List Nat
  st : σ
  stopNeed : Nat

end EncodingRs.Model
