import EncodingRs.Gen.TablesMisc
/-!
Hand model of the validators (C14), control flow **as written** in
`utf_8.rs` (`utf8_valid_up_to`), `ascii.rs` (`ascii_valid_impl`,
`validate_ascii`, `ascii_valid_up_to`, `iso_2022_jp_ascii_valid_up_to`) and
`mem.rs` (`is_utf8_latin1_impl`, `is_str_latin1_impl`, `utf16_valid_up_to`,
`validate_bmp_stride`).

Conventions
* Bytes / UTF-16 units are `Nat`; `u8`/`u16` wrap-around (`wrapping_sub`) is
  modelled explicitly (`% 256`, `% 65536`), so the theorems need `b < 256`
  resp. `u < 65536`.
* A slice position is modelled as the pair (`read`, `rest`) with
  `rest = src[read..]`; `read + k <= src.len()` is `k ≤ rest.length` and
  `src[read + k]` is the k-th element of `rest`.
* Loops with labels are modelled as a *step function* (one step = the code
  between two label jumps) iterated by a fuel-driven runner. The fuel handed
  over by the top-level function is proved sufficient in `Lemmas/Valid.lean`
  (the out-of-fuel branch is unreachable), so the theorems are about the real
  unbounded loops.
* Stride kernels: `blockScan ok plan` processes the input in blocks whose sizes
  are given by `plan` (an arbitrary list — 16-unit strides for the default
  build, `16, 32, 32, …, 16` for the `simd-accel` build); a block passes when
  *all* its units satisfy `ok` (the OR-reduction / movemask test), the first
  failing block is searched linearly, and what remains after the plan is
  scanned unit by unit. One lemma (`blockScan_eq_locate`) covers every plan.
* `UTF8_DATA.table` is `Gen.utf8DataTable`, regenerated from `utf_8.rs` on
  every run.
* EXTERNAL CODE: `fast_utf8_valid_up_to` (simdutf8, taken for inputs of ≥ 64
  bytes when SSE4.2/AVX2/NEON is available) is *not* modelled; it is the
  parameter `fast` of `utf8ValidUpToWith`, and the theorem about it assumes
  that whenever `fast` answers, it answers `Spec.validUpTo`.
-/
namespace EncodingRs.Model.Valid

/-- `ascii.rs`: `pub(crate) const STRIDE: usize = 16;` -/
def stride : Nat := 16

/-! ## stride kernels (ascii.rs / simd_funcs.rs / mem.rs) -/

/-- `for (i, s) in stride.iter().enumerate() { if !ok(s) { return (s, i) } }`
(`validate_ascii_stride_tail`, the second half of `validate_bmp_stride`, and the
scalar tail loops); `i` is the absolute index of the head of the list.
`none`: no offender. -/
def locate (ok : Nat → Bool) : List Nat → Nat → Option (Nat × Nat)
  | [], _ => none
  | b :: r, i => if ok b then locate ok r (i + 1) else some (b, i)

/-- blocks of the sizes listed in `plan`, each tested as a whole
(`is_ascii(stride)` = `s.iter().all(..)`, SIMD: OR-reduction of the lanes), the
first failing block searched by `locate`; after the plan, the scalar tail. -/
def blockScan (ok : Nat → Bool) : List Nat → Nat → List Nat → Option (Nat × Nat)
  | [], consumed, bs => locate ok bs consumed
  | n :: plan, consumed, bs =>
    if (bs.take n).all ok then blockScan ok plan (consumed + n) (bs.drop n)
    else locate ok (bs.take n) consumed

/-- default build: `bytes.as_chunks::<STRIDE>()`, one block per full stride -/
def planSingle (len : Nat) : List Nat := List.replicate (len / stride) stride

/-- `simd-accel` build (`ascii_valid_impl`): the first stride alone, then
double strides, then at most one single stride -/
def planDouble (len : Nat) : List Nat :=
  if len / stride = 0 then []
  else stride :: (List.replicate ((len / stride - 1) / 2) (2 * stride)
                  ++ List.replicate ((len / stride - 1) % 2) stride)

def isAsciiByte (b : Nat) : Bool := b < 0x80

/-- `validate_ascii` / `ascii_valid_impl` (default build):
`Some((non_ascii_byte, index))` or `None` -/
def validateAscii (bytes : List Nat) : Option (Nat × Nat) :=
  blockScan isAsciiByte (planSingle bytes.length) 0 bytes

/-- `ascii_valid_impl`, `simd-accel` shape -/
def validateAsciiSimd (bytes : List Nat) : Option (Nat × Nat) :=
  blockScan isAsciiByte (planDouble bytes.length) 0 bytes

/-- `ascii_valid_up_to`: `ascii_valid_impl(bytes).map(|(_, pos)| pos).unwrap_or(bytes.len())` -/
def asciiValidUpTo (bytes : List Nat) : Nat :=
  match validateAscii bytes with
  | some (_, pos) => pos
  | none => bytes.length

def asciiValidUpToSimd (bytes : List Nat) : Nat :=
  match validateAsciiSimd bytes with
  | some (_, pos) => pos
  | none => bytes.length

/-- the loop of `iso_2022_jp_ascii_valid_up_to` (`i` = enumerate index) -/
def iso2022JpLoop : List Nat → Nat → Nat
  | [], i => i
  | b :: r, i => if b ≥ 0x80 || b == 0x1B || b == 0x0E || b == 0x0F then i else iso2022JpLoop r (i + 1)

/-- `iso_2022_jp_ascii_valid_up_to` -/
def iso2022JpAsciiValidUpTo (bytes : List Nat) : Nat := iso2022JpLoop bytes 0

/-! ## `utf8_valid_up_to` (utf_8.rs), scalar validator -/

/-- `UTF8_DATA.table[i]` -/
def tbl (i : Nat) : Nat := Gen.utf8DataTable.getD i 0

/-- `in_inclusive_range8(i, start, end)` = `i.wrapping_sub(start) <= (end - start)` on `u8` -/
def inInclusiveRange8 (i s e : Nat) : Bool := (i + 256 - s) % 256 ≤ e - s

/-- `(UTF8_DATA.table[second] & UTF8_DATA.table[byte + 0x80]) | (third >> 6)` -/
def threeByteTest (byte second third : Nat) : Nat :=
  (tbl second &&& tbl (byte + 0x80)) ||| (third >>> 6)

/-- `u16::from(table[second] & table[byte + 0x80]) | u16::from(third >> 6) | (u16::from(fourth & 0xC0) << 2)` -/
def fourByteTest (byte second third fourth : Nat) : Nat :=
  (tbl second &&& tbl (byte + 0x80)) ||| (third >>> 6) ||| ((fourth &&& 0xC0) <<< 2)

/-- program points of `utf8_valid_up_to` -/
inductive U8St
  /-- top of `'outer`: about to run `validate_ascii(&src[read..])` -/
  | outer
  /-- top of `'inner`: `byte = src[read]` is non-ASCII, not yet counted in `read`, and `read + 4 <= src.len()` -/
  | inner (byte : Nat)
  /-- top of `'three` (same, `byte` in `E0..=EF`) -/
  | three (byte : Nat)
  /-- top of `'tail` -/
  | tail
  deriving Repr, DecidableEq

/-- result of one step: `break 'outer` / `return` with the final `read`, or a jump -/
inductive U8Step
  | done (read : Nat)
  | next (st : U8St) (read : Nat) (rest : List Nat)

/-- the three "Next lead (manually inlined)" blocks; `read`/`rest` are the values
*after* `read += n`. `afterThree` selects the variant inside `'three`
(`if in_inclusive_range8(byte, 0xE0, 0xEF) { continue 'three; }`). -/
def nextLead (afterThree : Bool) (read : Nat) (rest : List Nat) : U8Step :=
  if 4 ≤ rest.length then                          -- `read + 4 <= src.len()`
    match rest with
    | byte :: r =>                                  -- `byte = src[read]`
      if afterThree && inInclusiveRange8 byte 0xE0 0xEF then .next (.three byte) read rest
      else if byte < 0x80 then .next .outer (read + 1) r   -- `read += 1; continue 'outer`
      else .next (.inner byte) read rest            -- `continue 'inner`
    | [] => .done read                              -- unreachable (4 ≤ length)
  else .next .tail read rest                        -- `break 'inner`

/-- body of `'three` -/
def threeBody (byte read : Nat) (rest : List Nat) : U8Step :=
  match rest with
  | _ :: second :: third :: r3 =>
    if threeByteTest byte second third != 2 then .done read   -- `break 'outer`
    else nextLead true (read + 3) r3
  | _ => .done read                                 -- unreachable (`read + 4 <= src.len()`)

/-- top of `'outer`: ASCII run through `validate_ascii`, then the `read + 4 <= src.len()` test -/
def outerBody (read : Nat) (rest : List Nat) : U8Step :=
  match validateAscii rest with
  | none => .done (read + rest.length)              -- `return src.len()`
  | some (nonAscii, consumed) =>
    let read := read + consumed
    let rest := rest.drop consumed
    if 4 ≤ rest.length then .next (.inner nonAscii) read rest
    else .next .tail read rest

/-- body of `'inner` up to the next jump -/
def innerBody (byte read : Nat) (rest : List Nat) : U8Step :=
  if inInclusiveRange8 byte 0xC2 0xDF then
    -- Two-byte
    match rest with
    | _ :: second :: r2 =>
      if !inInclusiveRange8 second 0x80 0xBF then .done read
      else nextLead false (read + 2) r2
    | _ => .done read                               -- unreachable
  else if byte < 0xF0 then threeBody byte read rest
  else
    -- Four-byte
    match rest with
    | _ :: second :: third :: fourth :: r4 =>
      if fourByteTest byte second third fourth != 0x202 then .done read
      else nextLead false (read + 4) r4
    | _ => .done read                               -- unreachable

/-- one iteration of `'tail` -/
def tailBody (read : Nat) (rest : List Nat) : U8Step :=
  match rest with
  | [] => .done read                                -- `read >= src.len()`
  | byte :: r =>
    if byte < 0x80 then .next .tail (read + 1) r
    else if inInclusiveRange8 byte 0xC2 0xDF then
      match r with
      | [] => .done read                            -- `new_read > src.len()`
      | second :: r2 =>
        if !inInclusiveRange8 second 0x80 0xBF then .done read
        else .next .tail (read + 2) r2
    else if byte < 0xF0 then
      match r with
      | second :: third :: _ =>
        if threeByteTest byte second third != 2 then .done read
        else .done (read + 3)                       -- `read += 3; break 'outer`
      | _ => .done read                             -- `new_read > src.len()`
    else .done read

def utf8Step : U8St → Nat → List Nat → U8Step
  | .outer, read, rest => outerBody read rest
  | .inner byte, read, rest => innerBody byte read rest
  | .three byte, read, rest => threeBody byte read rest
  | .tail, read, rest => tailBody read rest

/-- the loop nest, driven by fuel -/
def utf8Run : Nat → U8St → Nat → List Nat → Nat
  | 0, _, read, _ => read                           -- out of fuel: proved unreachable
  | f + 1, st, read, rest =>
    match utf8Step st read rest with
    | .done r => r
    | .next st' read' rest' => utf8Run f st' read' rest'

/-- `utf8_valid_up_to` with the SIMD fast path disabled
(`verif_force_scalar_utf8(true)`, or a CPU without SSE4.2/AVX2/NEON, or an
input shorter than 64 bytes): the crate's own validator. -/
def utf8ValidUpTo (src : List Nat) : Nat := utf8Run (2 * src.length + 2) .outer 0 src

/-- `utf8_valid_up_to` as a whole; `fast` stands for `fast_utf8_valid_up_to`
(external simdutf8 code — a parameter, see the header). -/
def utf8ValidUpToWith (fast : List Nat → Option Nat) (src : List Nat) : Nat :=
  match fast src with
  | some upTo => upTo
  | none => utf8ValidUpTo src

/-! ## `mem::utf8_latin1_up_to`, `mem::str_latin1_up_to` -/

/-- `is_utf8_latin1_impl`: `Some(index)` or `None` -/
def isUtf8Latin1Impl : Nat → List Nat → Nat → Option Nat
  | 0, _, total => some total                       -- out of fuel: proved unreachable
  | f + 1, bytes, total =>
    match validateAscii bytes with
    | some (byte, offset) =>
      let total := total + offset
      if inInclusiveRange8 byte 0xC2 0xC3 then
        let next := offset + 1
        if next == bytes.length then some total
        else if (bytes.getD next 0) &&& 0xC0 != 0x80 then some total
        else isUtf8Latin1Impl f (bytes.drop (offset + 2)) (total + 2)
      else some total
    | none => none

/-- `utf8_latin1_up_to` -/
def utf8Latin1UpTo (buffer : List Nat) : Nat :=
  (isUtf8Latin1Impl (buffer.length + 1) buffer 0).getD buffer.length

/-- outcome of `is_str_latin1_impl` (non-SIMD build) -/
inductive StrLatin1Res
  | found (i : Nat)   -- `Some(i)`
  | all               -- `None`
  | panic             -- `&bytes[offset + 2..]` out of range (impossible for valid UTF-8: theorem)
  deriving Repr, DecidableEq

def isStrLatin1Impl : Nat → List Nat → Nat → StrLatin1Res
  | 0, _, _ => .panic                               -- out of fuel: proved unreachable
  | f + 1, bytes, total =>
    match validateAscii bytes with
    | some (byte, offset) =>
      let total := total + offset
      if byte > 0xC3 then .found total
      else if offset + 2 ≤ bytes.length then isStrLatin1Impl f (bytes.drop (offset + 2)) (total + 2)
      else .panic
    | none => .all

/-- `str_latin1_up_to`; `none` = the call panics -/
def strLatin1UpTo (buffer : List Nat) : Option Nat :=
  match isStrLatin1Impl (buffer.length + 1) buffer 0 with
  | .found i => some i
  | .all => some buffer.length
  | .panic => none

/-- `is_str_latin1_impl`, `simd-accel` shape: stride test "no byte above 0xC3"
(`validate_latin1_str_stride`), scalar tail `*slot > 0xC3` -/
def strLatin1UpToSimd (buffer : List Nat) : Nat :=
  match blockScan (fun b => b ≤ 0xC3) (planSingle buffer.length) 0 buffer with
  | some (_, pos) => pos
  | none => buffer.length

/-! ## `mem::utf16_valid_up_to` -/

/-- `a.wrapping_sub(b)` on `u16` -/
def wsub16 (a b : Nat) : Nat := (a + 65536 - b) % 65536

/-- `c & 0xF800 != 0xD800` (the per-unit test of `validate_bmp_stride` and of the tail loop) -/
def notSurrogate (u : Nat) : Bool := u &&& 0xF800 != 0xD800

inductive U16St
  /-- top of `'outer` (stride scan for the next surrogate) -/
  | outer
  /-- top of `'surrogate`: `unit = buffer[consumed]` is a surrogate -/
  | surrogate
  /-- the innermost `loop` after a valid pair -/
  | afterPair
  deriving Repr, DecidableEq

inductive U16Step
  | done (consumed : Nat)
  | next (st : U16St) (consumed : Nat) (rest : List Nat)

def utf16Step : U16St → Nat → List Nat → U16Step
  | .outer, consumed, rest =>
    -- `'bmp`: strides through `validate_bmp_stride`, then the tail loop
    match blockScan notSurrogate (planSingle rest.length) 0 rest with
    | none => .done (consumed + rest.length)        -- `return consumed` (== buffer.len())
    | some (_, pos) => .next .surrogate (consumed + pos) (rest.drop pos)
  | .surrogate, consumed, rest =>
    match rest with
    | [] => .done consumed                          -- unreachable (`buffer[consumed]` is in range)
    | unit :: r =>
      if wsub16 unit 0xD800 > 0xDBFF - 0xD800 then .done consumed   -- unpaired low surrogate
      else match r with
        | [] => .done consumed                      -- `next == buffer.len()`
        | second :: r2 =>
          if wsub16 second 0xDC00 > 0xDFFF - 0xDC00 then .done consumed
          else .next .afterPair (consumed + 2) r2   -- `consumed = next + 1`
  | .afterPair, consumed, rest =>
    match rest with
    | [] => .done consumed                          -- `consumed == buffer.len()`
    | unit :: r =>
      if wsub16 unit 0xD800 ≤ 0xDFFF - 0xD800 then .next .surrogate consumed rest  -- `continue 'surrogate`
      else if unit == 0x0020 then .next .afterPair (consumed + 1) r                -- `continue`
      else .next .outer (consumed + 1) r                                          -- `continue 'outer`

def utf16Run : Nat → U16St → Nat → List Nat → Nat
  | 0, _, consumed, _ => consumed                   -- out of fuel: proved unreachable
  | f + 1, st, consumed, rest =>
    match utf16Step st consumed rest with
    | .done c => c
    | .next st' consumed' rest' => utf16Run f st' consumed' rest'

/-- `utf16_valid_up_to` -/
def utf16ValidUpTo (buffer : List Nat) : Nat := utf16Run (2 * buffer.length + 2) .outer 0 buffer

end EncodingRs.Model.Valid
