/-!
# Generic streaming-decoder model (DESIGN.md 3.2)

A decoder family is a per-byte transition on a logical state, plus an
end-of-stream rule and an optional delayed output that is flushed at the start
of the next call.  A *call* of the implementation is modelled relationally: it
runs the per-byte transition over a prefix of the source and stops for one of
the reasons the API documents (`InputEmpty`, `Malformed`, `OutputFull`).  Where
exactly an `OutputFull` stop happens is not fixed by the model — it is the
`budget` parameter — so the theorems hold for every space-check policy (fast
paths, stride sizes, …) whose stops satisfy the side conditions of `Admissible`.

Bytes, scalar values and code units are `Nat`.
-/
namespace EncodingRs.Model

inductive Sink | utf8 | utf16
deriving DecidableEq, Repr

/-- `DecoderResult` -/
inductive Res | inputEmpty | outputFull | malformed (len after : Nat)
deriving DecidableEq, Repr

/-- what a decoder says about a stream: scalar values and absolute error spans -/
inductive Ev | cp (c : Nat) | err (start len : Nat)
deriving DecidableEq, Repr

structure FeedRes (σ : Type) where
  st : σ
  /-- scalar values written by this step -/
  out : List Nat
  /-- `Malformed(len, after)` returned by this step -/
  err : Option (Nat × Nat)
  /-- the byte is handed back (`unread_handle.unread()`) -/
  unread : Bool

structure Fam where
  σ : Type
  init : σ
  feed : σ → Nat → FeedRes σ
  /-- error reported at end of stream in this state, and the state after it -/
  eof : σ → Option ((Nat × Nat) × σ)
  /-- delayed output (already consumed input) flushed at the start of the next call -/
  pend : σ → Option (List Nat × σ)
  /-- termination measure for unread / end-of-stream chains -/
  rank : σ → Nat
  /-- upper bound on the free space (in units of the sink) the implementation may
  insist on before reading byte `b` in state `s` -/
  need : Sink → σ → Nat → Nat
  /-- free space required for the flush of a delayed output -/
  pendNeed : Sink → Nat
  /-- free space the end-of-stream block may insist on (UTF-16 decoder) -/
  eofNeed : Sink → Nat
  /-- alternative error report the implementation may give by looking ahead in the
  source (UTF-16 bulk path): consume `n ≥ 1` bytes at once and return the error of
  the step result. Must be stream-equivalent to the per-byte path (`Laws.alt_sound`). -/
  alt : σ → List Nat → Option (Nat × FeedRes σ) := fun _ _ => none
  pend_rank : ∀ s o s', pend s = some (o, s') → rank s' ≤ rank s
  unread_rank : ∀ s b, (feed s b).unread = true → rank (feed s b).st < rank s
  eof_rank : ∀ s e s', eof s = some (e, s') → rank s' < rank s

/-- number of UTF-8 bytes / UTF-16 units of a scalar value -/
def unitsOf : Sink → Nat → Nat
  | .utf8, c => if c < 0x80 then 1 else if c < 0x800 then 2 else if c < 0x10000 then 3 else 4
  | .utf16, c => if c < 0x10000 then 1 else 2

def unitsOfList (k : Sink) (l : List Nat) : Nat := (l.map (unitsOf k)).sum

/-- room for U+FFFD -/
def replRoom : Sink → Nat
  | .utf8 => 3
  | .utf16 => 1

/-- documented minimum output buffer -/
def minCap : Sink → Nat
  | .utf8 => 4
  | .utf16 => 2

structure CallRes (σ : Type) where
  res : Res
  read : Nat
  out : List Nat
  st : σ
  /-- for `outputFull`: the space that was asked for at the stop -/
  stopNeed : Nat

def mkErr (consumedAbs : Nat) (e : Nat × Nat) : Ev := Ev.err (consumedAbs - e.2 - e.1) e.1

def errEv (consumedAbs : Nat) : Option (Nat × Nat) → List Ev
  | some e => [mkErr consumedAbs e]
  | none => []

/-- where a call stops if no error or end of input comes first: never, with
`OutputFull` before its `n+1`-th step, or with the look-ahead error `Fam.alt` at the
first step where the family offers one -/
inductive Budget | unlimited | full (n : Nat) | altAny
deriving DecidableEq, Repr

def Budget.dec : Budget → Budget
  | .unlimited => .unlimited
  | .full n => .full (n - 1)
  | .altAny => .altAny

def Budget.isZero : Budget → Bool
  | .unlimited => false
  | .full n => n == 0
  | .altAny => false

variable (F : Fam) (k : Sink)

/-- the main loop of a raw (`*_without_replacement`) call: `budget = some n`
means the call stops with `OutputFull` before its `n+1`-th step -/
def stopHere (s : F.σ) (b : Nat) (rest : List Nat) : Budget → Option (CallRes F.σ)
  | .unlimited => none
  | .full n => if n = 0 then some ⟨.outputFull, 0, [], s, F.need k s b⟩ else none
  | .altAny =>
    match F.alt s (b :: rest) with
    | some (m, r) =>
      match r.err with
      | some e => some ⟨.malformed e.1 e.2, m, r.out, r.st, 0⟩
      | none => none
    | none => none

def run (last : Bool) : F.σ → List Nat → Budget → CallRes F.σ
  | s, [], budget =>
    if last then
      match F.eof s with
      | some (e, s') =>
        if budget.isZero then ⟨.outputFull, 0, [], s, F.eofNeed k⟩
        else ⟨.malformed e.1 e.2, 0, [], s', 0⟩
      | none => ⟨.inputEmpty, 0, [], s, 0⟩
    else ⟨.inputEmpty, 0, [], s, 0⟩
  | s, b :: rest, budget =>
    match stopHere F k s b rest budget with
    | some r => r
    | none =>
    match (F.feed s b).err with
    | some e => ⟨.malformed e.1 e.2, if (F.feed s b).unread then 0 else 1, (F.feed s b).out, (F.feed s b).st, 0⟩
    | none =>
      let t := run last (F.feed s b).st rest budget.dec
      ⟨t.res, t.read + 1, (F.feed s b).out ++ t.out, t.st, t.stopNeed⟩

/-- one raw call: flush the delayed output, then the main loop -/
def call (s : F.σ) (src : List Nat) (last : Bool) (budget : Budget) : CallRes F.σ :=
  match F.pend s with
  | some (o, s') =>
    if budget.isZero then ⟨.outputFull, 0, [], s, F.pendNeed k⟩ else
    let t := run F k last s' src budget.dec
    ⟨t.res, t.read, o ++ t.out, t.st, t.stopNeed⟩
  | none => run F k last s src budget

/-- The side conditions under which a stop is one the API allows: the output
fits, an `OutputFull` stop is justified by lack of the space asked for, and a
`Malformed` return leaves room for the replacement character. -/
def Admissible (cap : Nat) (r : CallRes F.σ) : Prop :=
  unitsOfList k r.out ≤ cap ∧
  (r.res = .outputFull → cap < unitsOfList k r.out + r.stopNeed) ∧
  (∀ l a, r.res = .malformed l a → unitsOfList k r.out + replRoom k ≤ cap)

def resEv (pos : Nat) : Res → List Ev
  | .malformed l a => [mkErr pos (l, a)]
  | _ => []

/-- events of one call, `pos` = number of stream bytes consumed before the call -/
def evs {σ} (r : CallRes σ) (pos : Nat) : List Ev :=
  r.out.map Ev.cp ++ resEv (pos + r.read) r.res

def flushEv (s : F.σ) : List Ev := match F.pend s with | some (o, _) => o.map Ev.cp | none => []
def flushSt (s : F.σ) : F.σ := match F.pend s with | some (_, s') => s' | none => s

theorem flushSt_rank (s : F.σ) : F.rank (flushSt F s) ≤ F.rank s := by
  unfold flushSt; split
  · next o s' h => exact F.pend_rank s o s' h
  · exact Nat.le_refl _

/-- chunk-free, capacity-free reference semantics of a whole stream -/
def ref (s : F.σ) (stream : List Nat) (pos : Nat) : List Ev :=
  match stream with
  | [] =>
    match h : F.eof (flushSt F s) with
    | some (e, s2) => flushEv F s ++ mkErr pos e :: ref s2 [] pos
    | none => flushEv F s
  | b :: rest =>
    let r := F.feed (flushSt F s) b
    if h : r.unread = true then
      flushEv F s ++ r.out.map Ev.cp ++ errEv pos r.err ++ ref r.st (b :: rest) pos
    else
      flushEv F s ++ r.out.map Ev.cp ++ errEv (pos+1) r.err ++ ref r.st rest (pos+1)
termination_by (stream.length, F.rank s)
decreasing_by
  · apply Prod.Lex.right
    have := F.eof_rank _ _ _ h
    have := flushSt_rank F s
    omega
  · apply Prod.Lex.right
    have := F.unread_rank _ _ h
    have := flushSt_rank F s
    omega
  · apply Prod.Lex.left
    simp

/-- the laws every family satisfies (proved per family) -/
structure Laws : Prop where
  /-- a step without error (from a flushed state) leaves no delayed output -/
  pend_err : ∀ s b, F.pend s = none → (F.feed s b).err = none → F.pend (F.feed s b).st = none
  /-- flushing leaves no delayed output -/
  pend_once : ∀ s o s', F.pend s = some (o, s') → F.pend s' = none
  /-- only error steps hand the byte back -/
  noerr_unread : ∀ s b, (F.feed s b).err = none → (F.feed s b).unread = false
  /-- the initial state has no delayed output -/
  init_pend : F.pend F.init = none
  /-- the look-ahead error report is stream-equivalent to the per-byte path -/
  alt_sound : ∀ s src m r, F.pend s = none → F.alt s src = some (m, r) →
    m ≤ src.length ∧ ∃ e, r.err = some e ∧
    ∀ rest pos, r.out.map Ev.cp ++ mkErr (pos + m) e :: ref F r.st (src.drop m ++ rest) (pos + m)
      = ref F s (src ++ rest) pos

end EncodingRs.Model
