import EncodingRs.Gen.Encodings
import EncodingRs.Gen.SingleByte
import EncodingRs.Model.EncCore
import EncodingRs.Model.DataEnc
import EncodingRs.Model.Unicode
/-!
Hand models of all *encoder* variants of encoding_rs (default cargo features) as
instances of `EFam` (`Model/EncCore.lean`): faithful transcriptions of the
`$bmp_body` / `$astral_body` / `body` blocks the encoder macros are instantiated
with, over the lookup functions of `DataEnc.lean`.

Every stateless encoder is `statelessEFam enc need` for a per-character function
`enc : Nat → Option (List Nat)` (`none` = `EncoderResult::Unmappable(c)`), so that
facts about `unread`/`unmappable` never unfold the table logic.  The ASCII branch
(`c < 0x80 ↦ [c]`) models the `copy_ascii_to_check_space_*` / `Unicode::Ascii`
paths of `ascii_compatible_encoder_function!`.

`need` is the constant of the `check_space_*` identifier the macro is
instantiated with (an upper bound; the ASCII fast path asks for less).

ISO-2022-JP is the only stateful encoder; see the section at the end for how
`unread_handle.unread()` is handled.
-/
namespace EncodingRs.Model

/-! ### stateless encoders -/

def statelessStep (enc : Nat → Option (List Nat)) (_ : Unit) (c : Nat) : EStep Unit :=
  match enc c with
  | some bs => .ok () bs
  | none => .unmap () c

theorem statelessStep_unread (enc : Nat → Option (List Nat)) (s : Unit) (c : Nat) :
    (statelessStep enc s c).unread = false := by
  unfold statelessStep; split <;> rfl

def statelessEFam (enc : Nat → Option (List Nat)) (need : Nat) : EFam where
  σ := Unit
  init := ()
  step := statelessStep enc
  eof := fun _ => ([], ())
  hasPending := fun _ => false
  need := fun _ _ => need
  eofNeed := fun _ => 0
  rank := fun _ _ => 0
  unread_rank := by
    intro s c h
    rw [statelessStep_unread] at h
    cases h

/-! ### single_byte.rs (`ascii_compatible_bmp_encoder_function!`, `check_space_one`) -/

def singleByteEncodeChar (table : Array Nat) (runBmpOffset runByteOffset runLength : Nat) (c : Nat) :
    Option (List Nat) :=
  if c < 0x80 then some [c]
  else if c > 0xFFFF then none
  else
    match singleByteEncodeU16 table runBmpOffset runByteOffset runLength c with
    | some byte => some [byte]
    | none => none

def singleByteEFam (table : Array Nat) (runBmpOffset runByteOffset runLength : Nat) : EFam :=
  statelessEFam (singleByteEncodeChar table runBmpOffset runByteOffset runLength) 1

/-! ### x_user_defined.rs (`encoder_functions!`, `check_space_one`) -/

def userDefinedEncodeChar (c : Nat) : Option (List Nat) :=
  if c ≤ 0x7F then some [c]
  else if ¬ (0xF780 ≤ c ∧ c ≤ 0xF7FF) then none
  else some [u8 (c - 0xF700)]

def userDefinedEFam : EFam := statelessEFam userDefinedEncodeChar 1

/-! ### utf_8.rs (also the output encoding of UTF-16BE/LE and replacement) -/

def utf8EncodeChar (c : Nat) : Option (List Nat) := some (encodeUtf8 c)

/-- The space check is exact: a call stops with `OutputFull` only when the next character does not
fit.  From UTF-8 (`encode_from_utf8_raw`) as many whole characters are copied as fit; from UTF-16
(`convert_utf16_to_utf8_partial`) the hot loop (`…_partial_inner`) stops when fewer than four bytes
are free, but the cold `…_partial_tail` then goes on character by character with the exact checks
`written >= dst.len()` / `written + 2 > dst.len()` / `written + 3 > dst.len()` (and returns with three
bytes free only in front of a surrogate pair, which needs four).  (C07: with the constant `4` the
queries `max_buffer_length_from_utf8_without_replacement(n) = n` and `…from_utf16… = 3 n` would not be
provable for the model although they are right for the code.) -/
def utf8EFam : EFam :=
  { statelessEFam utf8EncodeChar 4 with need := fun _ c => (encodeUtf8 c).length }

/-! ### big5.rs (`ascii_compatible_encoder_functions!`, `check_space_two`) -/

/-- `(lead, trail)` of a Big5 pointer, with the lead offset as written at the two use sites -/
def big5BytesOfPointer (pointer leadOffset : Nat) : List Nat :=
  let lead := pointer / 157 + leadOffset
  let remainder := pointer % 157
  let trail := if remainder < 0x3F then remainder + 0x40 else remainder + 0x62
  [u8 lead, u8 trail]

/-- the pointer of the `else` branch of the `$bmp_body`: `big5_box_encode`, then `big5_other_encode` -/
def big5EncodePointer (bmp : Nat) : Option Nat :=
  match big5BoxEncode bmp with
  | some pointer => some pointer
  | none => big5OtherEncode bmp

/-- the `$bmp_body`, given the results of `big5_level1_hanzi_encode(bmp)` and of the
pointer search of its `else` branch.  A separate definition over plain values: facts about
the shape of the result are proved without the kernel ever evaluating a table lookup
(a `match` on a lookup is unfolded eagerly by the kernel's definitional-equality check). -/
def big5EncodeBmpOf (level1 : Option (Nat × Nat)) (pointer : Option Nat) : Option (List Nat) :=
  match level1 with
  | some (lead, trail) => some [lead, trail]
  | none =>
    match pointer with
    | some pointer => some (big5BytesOfPointer pointer 0x81)
    | none => none

def big5EncodeBmp (bmp : Nat) : Option (List Nat) :=
  big5EncodeBmpOf (big5Level1HanziEncode bmp) (big5EncodePointer bmp)

def big5EncodeAstral (astral : Nat) : Option (List Nat) :=
  if inInclusiveRange32 astral 0x2008A 0x2F8A6 then
    -- `astral as u16`
    match big5AstralEncode (astral % 65536) with
    | some rebasedPointer => some (big5BytesOfPointer rebasedPointer 0x87)
    | none => none
  else none

def big5EncodeChar (c : Nat) : Option (List Nat) :=
  if c < 0x80 then some [c]
  else if c > 0xFFFF then big5EncodeAstral c
  else big5EncodeBmp c

def big5EFam : EFam := statelessEFam big5EncodeChar 2

/-! ### euc_kr.rs (`ascii_compatible_bmp_encoder_functions!`, `check_space_two`) -/

def eucKrEncodeBmp (bmp : Nat) : Option (List Nat) :=
  let bmpMinusHangulStart := wsub16 bmp 0xAC00
  if bmpMinusHangulStart < 0xD7A4 - 0xAC00 then
    let lt := ksx1001EncodeHangul bmp
    some [lt.1, lt.2]
  else if inRange16 bmp 0x33DE 0xFF01 then
    if inRange16 bmp 0x4E00 0x9F9D || inRange16 bmp 0xF900 0xFA0C then
      match ksx1001EncodeHanja bmp with
      | some (hanjaLead, hanjaTrail) => some [hanjaLead, hanjaTrail]
      | none => none
    else none
  else
    match ksx1001EncodeMisc bmp with
    | some (lead, trail) => some [u8 lead, u8 trail]
    | none => none

def eucKrEncodeChar (c : Nat) : Option (List Nat) :=
  if c < 0x80 then some [c]
  else if c > 0xFFFF then none
  else eucKrEncodeBmp c

def eucKrEFam : EFam := statelessEFam eucKrEncodeChar 2

/-! ### euc_jp.rs (`ascii_compatible_bmp_encoder_functions!`, `check_space_two`) -/

/-- `(pointer / 94 + off, pointer % 94 + off)` as two `u8` -/
def bytes94 (pointer leadOffset trailOffset : Nat) : List Nat :=
  [u8 (pointer / 94 + leadOffset), u8 (pointer % 94 + trailOffset)]

def eucJpEncodeBmp (bmp : Nat) : Option (List Nat) :=
  let bmpMinusHiragana := wsub16 bmp 0x3041
  if bmpMinusHiragana < 0x53 then some [0xA4, 0xA1 + u8 bmpMinusHiragana]
  else if inInclusiveRange16 bmp 0x4E00 0x9FA0 then
    match eucJpEncodeKanji bmp with
    | some (lead, trail) => some [lead, trail]
    | none => none
  else
    let bmpMinusKatakana := wsub16 bmp 0x30A1
    if bmpMinusKatakana < 0x56 then some [0xA5, 0xA1 + u8 bmpMinusKatakana]
    else
      let bmpMinusSpace := wsub16 bmp 0x3000
      if bmpMinusSpace < 3 then some [0xA1, 0xA1 + u8 bmpMinusSpace]
      else if bmp = 0xA5 then some [0x5C]
      else if bmp = 0x203E then some [0x7E]
      else if inInclusiveRange16 bmp 0xFF61 0xFF9F then some [0x8E, u8 (bmp - (0xFF61 - 0xA1))]
      else if bmp = 0x2212 then some [0xA1, 0xDD]
      else
      match jis0208RangeEncode bmp with
      | some pointer => some (bytes94 pointer 0xA1 0xA1)
      | none =>
      if inInclusiveRange16 bmp 0xFA0E 0xFA2D || decide (bmp = 0xF929) || decide (bmp = 0xF9DC) then
        -- `position(&IBM_KANJI[..], bmp).unwrap()`: a panic is not representable; `getD 0`
        let pos := (ibmKanjiPosition bmp).getD 0
        some (bytes94 pos 0xF9 0xA1)
      else
      match ibmSymbolEncode bmp with
      | some pointer => some (bytes94 pointer 0xA1 0xA1)
      | none =>
      match jis0208SymbolEncode bmp with
      | some pointer => some (bytes94 pointer 0xA1 0xA1)
      | none => none

def eucJpEncodeChar (c : Nat) : Option (List Nat) :=
  if c < 0x80 then some [c]
  else if c > 0xFFFF then none
  else eucJpEncodeBmp c

def eucJpEFam : EFam := statelessEFam eucJpEncodeChar 2

/-! ### shift_jis.rs (`ascii_compatible_bmp_encoder_functions!`, `check_space_two`) -/

/-- the `let pointer = if … else if let … else { return Unmappable }` of the last
branch of the `$bmp_body` -/
def shiftJisOtherPointer (bmp : Nat) : Option Nat :=
  let bmpMinusRoman := wsub16 bmp 0x2170
  if bmpMinusRoman ≤ 0x2179 - 0x2170 then some (10716 + bmpMinusRoman)
  else
  match jis0208RangeEncode bmp with
  | some pointer => some pointer
  | none =>
  if inInclusiveRange16 bmp 0xFA0E 0xFA2D || decide (bmp = 0xF929) || decide (bmp = 0xF9DC) then
    -- `.unwrap()`: see `eucJpEncodeBmp`
    some (10744 + (ibmKanjiPosition bmp).getD 0)
  else jis0208SymbolEncode bmp

def shiftJisEncodeBmp (bmp : Nat) : Option (List Nat) :=
  let bmpMinusHiragana := wsub16 bmp 0x3041
  if bmpMinusHiragana < 0x53 then some [0x82, 0x9F + u8 bmpMinusHiragana]
  else if inInclusiveRange16 bmp 0x4E00 0x9FA0 then
    match shiftJisEncodeKanji bmp with
    | some (lead, trail) => some [lead, trail]
    | none => none
  else
    let bmpMinusKatakana := wsub16 bmp 0x30A1
    if bmpMinusKatakana < 0x56 then
      let trailOffset := if bmpMinusKatakana < 0x3F then 0x40 else 0x41
      some [0x83, u8 (trailOffset + bmpMinusKatakana)]
    else
      let bmpMinusSpace := wsub16 bmp 0x3000
      if bmpMinusSpace < 3 then some [0x81, 0x40 + u8 bmpMinusSpace]
      else if bmp = 0xA5 then some [0x5C]
      else if bmp = 0x80 then some [0x80]
      else if bmp = 0x203E then some [0x7E]
      else if inInclusiveRange16 bmp 0xFF61 0xFF9F then some [u8 (bmp - (0xFF61 - 0xA1))]
      else if bmp = 0x2212 then some [0x81, 0x7C]
      else
        match shiftJisOtherPointer bmp with
        | some pointer =>
          let lt := shiftJisBytesOfPointer pointer
          some [lt.1, lt.2]
        | none => none

def shiftJisEncodeChar (c : Nat) : Option (List Nat) :=
  if c < 0x80 then some [c]
  else if c > 0xFFFF then none
  else shiftJisEncodeBmp c

def shiftJisEFam : EFam := statelessEFam shiftJisEncodeChar 2

/-! ### gb18030.rs (`Gb18030Encoder { extended }`; `ascii_compatible_encoder_functions!`,
`check_space_four` for GBK as well as gb18030) -/

def gbEncodeBmp (extended : Bool) (bmp : Nat) : Option (List Nat) :=
  let bmpMinusUnifiedStart := wsub16 bmp 0x4E00
  if bmpMinusUnifiedStart < 0x9FA6 - 0x4E00 then
    let lt := gbEncodeHanzi bmp
    some [lt.1, lt.2]
  else if bmp = 0xE5E5 then none
  else if bmp = 0x20AC ∧ extended = false then some [0x80]
  else
    match gbkEncodeNonUnified bmp with
    | some (lead, trail) => some [u8 lead, u8 trail]
    | none =>
      if extended = false then none
      else some (gb18030FourBytes (gb18030RangeEncode bmp))

def gbEncodeAstral (extended : Bool) (astral : Nat) : Option (List Nat) :=
  if extended = false then none
  else some (gb18030FourBytes (astral + (189000 - 0x10000)))

def gbEncodeChar (extended : Bool) (c : Nat) : Option (List Nat) :=
  if c < 0x80 then some [c]
  else if c > 0xFFFF then gbEncodeAstral extended c
  else gbEncodeBmp extended c

def gbEFam (extended : Bool) : EFam := statelessEFam (gbEncodeChar extended) 4

/-! ### iso_2022_jp.rs (`encoder_functions!`, `check_space_three`)

`isoEncStep` is the faithful transcription of the `body` block: an escape sequence
is written, the state changes and the character is handed back
(`unread_handle.unread()` = `EStep.again`).

`EFam.rank` is a function of the state only, and `unread_rank` is quantified over
all `(s, c)`.  No such rank exists for the faithful step: `Ascii --U+00A5--> Roman`
and `Roman --U+005C--> Ascii` are both `.again` steps, so `rank Roman < rank Ascii
< rank Roman`.  What does hold is the character-dependent statement
`isoEncStep_again_once` (`Lemmas/EncFam.lean`): after an `.again` step the *same*
character is consumed without another `.again` (`isoEncRank s c`).

`iso2022JpEFam` therefore uses `isoEncStepMerged`: the transition and the re-read
in ONE step (`out` = escape bytes ++ bytes of the character in the new state,
`unread = false`), with `need = 6` for such a step (the implementation asks for
three free bytes, writes the escape, and asks for three free bytes again).  What
this deviation cannot express is the implementation stopping with `OutputFull`
*between* the escape and the character.
-/

inductive IsoEncSt | ascii | roman | jis0208
deriving DecidableEq, Repr

/-- the two-byte branch of the `Jis0208` state (from `let bmp = c as u16` on);
`none` = the unmappable exits -/
def iso2022JpEncodeTwoByte (bmp : Nat) : Option (List Nat) :=
  let bmpMinusHiragana := wsub16 bmp 0x3041
  if bmpMinusHiragana < 0x53 then some [0x24, 0x21 + u8 bmpMinusHiragana]
  else if inInclusiveRange16 bmp 0x4E00 0x9FA0 then
    match iso2022JpEncodeKanji bmp with
    | some (lead, trail) => some [lead, trail]
    | none => none
  else
    let bmpMinusKatakana := wsub16 bmp 0x30A1
    if bmpMinusKatakana < 0x56 then some [0x25, 0x21 + u8 bmpMinusKatakana]
    else
      let bmpMinusSpace := wsub16 bmp 0x3000
      if bmpMinusSpace < 3 then some [0x21, 0x21 + u8 bmpMinusSpace]
      else
      let bmpMinusHalfWidth := wsub16 bmp 0xFF61
      if bmpMinusHalfWidth ≤ 0xFF9F - 0xFF61 then
        let lead := if bmp ≠ 0xFF70 ∧ inInclusiveRange16 bmp 0xFF66 0xFF9D = true then 0x25 else 0x21
        let trail := Gen.iso2022JpHalfWidthTrail.getD bmpMinusHalfWidth 0
        some [lead, trail]
      else if bmp = 0x2212 then some [0x21, 0x5D]
      else
      match jis0208RangeEncode bmp with
      | some pointer => some (bytes94 pointer 0x21 0x21)
      | none =>
      if inInclusiveRange16 bmp 0xFA0E 0xFA2D || decide (bmp = 0xF929) || decide (bmp = 0xF9DC) then
        -- `.unwrap()`: see `eucJpEncodeBmp`
        let pos := (ibmKanjiPosition bmp).getD 0
        some (bytes94 pos (0xF9 - 0x80) 0x21)
      else
      match ibmSymbolEncode bmp with
      | some pointer => some (bytes94 pointer 0x21 0x21)
      | none =>
      match jis0208SymbolEncode bmp with
      | some pointer => some (bytes94 pointer 0x21 0x21)
      | none => none

def escAscii : List Nat := [0x1B, 0x28, 0x42]
def escRoman : List Nat := [0x1B, 0x28, 0x4A]
def escJis0208 : List Nat := [0x1B, 0x24, 0x42]

/-- the `body` block of `Iso2022JpEncoder`, as written -/
def isoEncStep (s : IsoEncSt) (c : Nat) : EStep IsoEncSt :=
  match s with
  | .ascii =>
    if c = 0x0E ∨ c = 0x0F ∨ c = 0x1B then .unmap .ascii 0xFFFD
    else if c ≤ 0x7F then .ok .ascii [c]
    else if c = 0xA5 ∨ c = 0x203E then .again .roman escRoman
    else if c > 0xFFFF then .unmap .ascii c
    else if isMappedForTwoByteEncode c = true then .again .jis0208 escJis0208
    else .unmap .ascii c
  | .roman =>
    if c = 0x0E ∨ c = 0x0F ∨ c = 0x1B then .unmap .roman 0xFFFD
    else if c = 0x5C ∨ c = 0x7E then .again .ascii escAscii
    else if c ≤ 0x7F then .ok .roman [c]
    else if c = 0xA5 then .ok .roman [0x5C]
    else if c = 0x203E then .ok .roman [0x7E]
    else if c > 0xFFFF then .unmap .roman c
    else if isMappedForTwoByteEncode c = true then .again .jis0208 escJis0208
    else .unmap .roman c
  | .jis0208 =>
    if c ≤ 0x7F then .again .ascii escAscii
    else if c = 0xA5 ∨ c = 0x203E then .again .roman escRoman
    else if c > 0xFFFF then .unmap .ascii c escAscii
    else
      match iso2022JpEncodeTwoByte c with
      | some bs => .ok .jis0208 bs
      | none => .unmap .ascii c escAscii

/-- the `eof` block -/
def isoEncEof (s : IsoEncSt) : List Nat × IsoEncSt :=
  match s with
  | .ascii => ([], .ascii)
  | _ => (escAscii, .ascii)

/-- `has_pending_state` -/
def isoEncHasPending (s : IsoEncSt) : Bool :=
  match s with
  | .ascii => false
  | _ => true

/-- character-dependent rank of the faithful step: the number of `.again` steps
still to come for `c` (see `Lemmas.EncFam.isoEncStep_rank`) -/
def isoEncRank (s : IsoEncSt) (c : Nat) : Nat := if (isoEncStep s c).unread then 1 else 0

/-- transition and re-read in one step (DEVIATION, see the section header) -/
def isoEncStepMerged (s : IsoEncSt) (c : Nat) : EStep IsoEncSt :=
  let r := isoEncStep s c
  if r.unread = true then
    let r2 := isoEncStep r.st c
    ⟨r2.st, r.out ++ r2.out, r2.unmappable, false⟩
  else r

theorem isoEncStepMerged_unread (s : IsoEncSt) (c : Nat) : (isoEncStepMerged s c).unread = false := by
  unfold isoEncStepMerged
  simp only []
  split
  · rfl
  · rename_i h; simpa using h

def AgainSpec (c : Nat) (r : EStep IsoEncSt) : Prop :=
  r.unread = true →
    (r.st = .ascii ∧ c ≤ 0x7F)
    ∨ (r.st = .roman ∧ (c = 0xA5 ∨ c = 0x203E))
    ∨ (r.st = .jis0208 ∧ ¬ c ≤ 0x7F ∧ ¬ (c = 0xA5 ∨ c = 0x203E))

theorem againSpec_ok (c : Nat) (st : IsoEncSt) (out : List Nat) : AgainSpec c (EStep.ok st out) := by
  intro h; simp [EStep.ok] at h
theorem againSpec_unmap (c : Nat) (st : IsoEncSt) (u : Nat) (out : List Nat) : AgainSpec c (EStep.unmap st u out) := by
  intro h; simp [EStep.unmap] at h
theorem againSpec_ascii (c : Nat) (out : List Nat) (h : c ≤ 0x7F) : AgainSpec c (EStep.again .ascii out) :=
  fun _ => Or.inl ⟨rfl, h⟩
theorem againSpec_roman (c : Nat) (out : List Nat) (h : c = 0xA5 ∨ c = 0x203E) : AgainSpec c (EStep.again .roman out) :=
  fun _ => Or.inr (Or.inl ⟨rfl, h⟩)
theorem againSpec_jis (c : Nat) (out : List Nat) (h1 : ¬ c ≤ 0x7F) (h2 : ¬ (c = 0xA5 ∨ c = 0x203E)) :
    AgainSpec c (EStep.again .jis0208 out) :=
  fun _ => Or.inr (Or.inr ⟨rfl, h1, h2⟩)

theorem isoEncStep_againSpec (s : IsoEncSt) (c : Nat) : AgainSpec c (isoEncStep s c) := by
  cases s <;>
  · unfold isoEncStep
    simp only
    repeat' split
    all_goals first
      | with_reducible apply againSpec_ok
      | with_reducible apply againSpec_unmap
      | (with_reducible apply againSpec_ascii; omega)
      | (with_reducible apply againSpec_roman; omega)
      | (with_reducible apply againSpec_jis <;> omega)

/-- where the faithful step hands the character back, and to which state -/
theorem isoEncStep_unread_cases (s : IsoEncSt) (c : Nat) (h : (isoEncStep s c).unread = true) :
    ((isoEncStep s c).st = .ascii ∧ c ≤ 0x7F)
    ∨ ((isoEncStep s c).st = .roman ∧ (c = 0xA5 ∨ c = 0x203E))
    ∨ ((isoEncStep s c).st = .jis0208 ∧ ¬ c ≤ 0x7F ∧ ¬ (c = 0xA5 ∨ c = 0x203E)) :=
  isoEncStep_againSpec s c h

/-- in the Ascii state an ASCII character is consumed (written or reported) -/
theorem isoEncStep_ascii_le (c : Nat) (h : c ≤ 0x7F) : (isoEncStep .ascii c).unread = false := by
  unfold isoEncStep
  simp only
  repeat' split
  all_goals first
    | rfl
    | omega

/-- in the Roman state U+00A5 / U+203E are written -/
theorem isoEncStep_roman_yen (c : Nat) (h : c = 0xA5 ∨ c = 0x203E) : (isoEncStep .roman c).unread = false := by
  rcases h with h | h <;> (subst h; rfl)

/-- in the Jis0208 state a non-ASCII character other than U+00A5 / U+203E is consumed -/
theorem isoEncStep_jis_other (c : Nat) (h1 : ¬ c ≤ 0x7F) (h2 : ¬ (c = 0xA5 ∨ c = 0x203E)) :
    (isoEncStep .jis0208 c).unread = false := by
  unfold isoEncStep
  simp only
  rw [if_neg h1, if_neg h2]
  split
  · rfl
  · split <;> rfl

/-- after an `.again` step the same character is consumed without another `.again` -/
theorem isoEncStep_again_once (s : IsoEncSt) (c : Nat) (h : (isoEncStep s c).unread = true) :
    (isoEncStep (isoEncStep s c).st c).unread = false := by
  rcases isoEncStep_unread_cases s c h with ⟨hs, hc⟩ | ⟨hs, hc⟩ | ⟨hs, h1, h2⟩
  · rw [hs]; exact isoEncStep_ascii_le c hc
  · rw [hs]; exact isoEncStep_roman_yen c hc
  · rw [hs]; exact isoEncStep_jis_other c h1 h2

/-- `unread_rank` for the faithful step with the character-dependent rank `isoEncRank` -/
theorem isoEncStep_rank (s : IsoEncSt) (c : Nat) (h : (isoEncStep s c).unread = true) :
    isoEncRank (isoEncStep s c).st c < isoEncRank s c := by
  unfold isoEncRank
  rw [isoEncStep_again_once s c h, h]
  decide


def iso2022JpEFam : EFam where
  σ := IsoEncSt
  init := .ascii
  step := isoEncStep
  eof := isoEncEof
  hasPending := isoEncHasPending
  need := fun _ _ => 3
  eofNeed := fun s => match s with | .ascii => 0 | _ => 3
  rank := isoEncRank
  unread_rank := isoEncStep_rank

/-! ### variant.rs `new_encoder` (via `output_encoding`) -/

def efamOfVariant : Gen.Variant → EFam
  | .singleByte t runBmpOffset runByteOffset runLength =>
    singleByteEFam (Gen.singleByteTables.getD t #[]) runBmpOffset runByteOffset runLength
  | .utf8 => utf8EFam
  | .gbk => gbEFam false
  | .gb18030 => gbEFam true
  | .big5 => big5EFam
  | .eucJp => eucJpEFam
  | .iso2022Jp => iso2022JpEFam
  | .shiftJis => shiftJisEFam
  | .eucKr => eucKrEFam
  | .replacement => utf8EFam
  | .utf16Be => utf8EFam
  | .utf16Le => utf8EFam
  | .userDefined => userDefinedEFam

end EncodingRs.Model
