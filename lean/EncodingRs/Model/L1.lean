import EncodingRs.Model.Decoder
/-!
`Decoder::latin1_byte_compatible_up_to` (lib.rs) → `VariantDecoder::latin1_byte_compatible_up_to`
(variant.rs) → `SingleByteDecoder::latin1_byte_compatible_up_to` / `ascii_valid_up_to` /
`iso_2022_jp_ascii_valid_up_to`.
-/
namespace EncodingRs.Model

/-- `Encoding::ascii_valid_up_to`: index of the first byte `>= 0x80` -/
def asciiValidUpTo : List Nat → Nat
  | [] => 0
  | b :: r => if b < 0x80 then asciiValidUpTo r + 1 else 0

/-- `Encoding::iso_2022_jp_ascii_valid_up_to`: first byte that is non-ASCII or 0x0E, 0x0F, 0x1B -/
def iso2022JpAsciiValidUpTo : List Nat → Nat
  | [] => 0
  | b :: r => if b < 0x80 ∧ b ≠ 0x0E ∧ b ≠ 0x0F ∧ b ≠ 0x1B then iso2022JpAsciiValidUpTo r + 1 else 0

/-- `SingleByteDecoder::latin1_byte_compatible_up_to`: first non-ASCII byte whose table entry differs from the byte -/
def singleByteL1 (table : Array Nat) : List Nat → Nat
  | [] => 0
  | b :: r => if b < 0x80 ∨ table.getD (b - 0x80) 0 = b then singleByteL1 table r + 1 else 0

/-- `VariantDecoder::latin1_byte_compatible_up_to` -/
def l1Variant : (v : Gen.Variant) → (famOfVariant v).σ → List Nat → Option Nat
  | .singleByte t _ _ _, _, bytes => some (singleByteL1 (Gen.singleByteTables.getD t #[]) bytes)
  | .utf8, s, bytes => if s.needed = 0 then some (asciiValidUpTo bytes) else none
  | .gbk, s, bytes => if s.pending = .none ∧ s.pendingAscii = none then some (asciiValidUpTo bytes) else none
  | .gb18030, s, bytes => if s.pending = .none ∧ s.pendingAscii = none then some (asciiValidUpTo bytes) else none
  | .big5, s, bytes => if (s : Option Nat).isNone then some (asciiValidUpTo bytes) else none
  | .eucJp, s, bytes => if decide ((show EucJpSt from s) = EucJpSt.none) then some (asciiValidUpTo bytes) else none
  | .iso2022Jp, s, bytes =>
    if s.decoderState = .ascii ∧ s.outputState = .ascii ∧ s.lead = 0 ∧ s.outputFlag = false ∧ s.pendingPrepended = false
    then some (iso2022JpAsciiValidUpTo bytes) else none
  | .shiftJis, s, bytes => if (s : Option Nat).isNone then some (asciiValidUpTo bytes) else none
  | .eucKr, s, bytes => if (s : Option Nat).isNone then some (asciiValidUpTo bytes) else none
  | .replacement, _, _ => none
  | .utf16Be, _, _ => none
  | .utf16Le, _, _ => none
  | .userDefined, _, bytes => some (asciiValidUpTo bytes)

/-- `Decoder::latin1_byte_compatible_up_to` (`Finished` panics in the Rust; the
harness never asks a finished decoder) -/
def Decoder.l1 (v : Gen.Variant) (d : Decoder (famOfVariant v)) (bytes : List Nat) : Option Nat :=
  match d.life with
  | .converting =>
    match d.cur with
    | .nominal s => l1Variant v s bytes
    | .utf8 s => l1Variant .utf8 s bytes
    | .utf16be _ => none
    | .utf16le _ => none
  | _ => none

end EncodingRs.Model
