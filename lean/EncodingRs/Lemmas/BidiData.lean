import EncodingRs.Model.Bidi
import EncodingRs.Spec.Bidi
/-! Finite facts for C16 about `UTF8_DATA.table` (regenerated from utf_8.rs), evaluated
completely by the kernel. Kept in their own module because they take ~20 s. -/
namespace EncodingRs.Lemmas.Bidi
open EncodingRs EncodingRs.Model.Bidi EncodingRs.Spec.Bidi

/-! ### `UTF8_DATA` facts (finite, kernel-evaluated over the regenerated table) -/

set_option maxRecDepth 100000 in
theorem bad3_table : ∀ b0, b0 < 16 → ∀ b1, b1 < 256 → ∀ q, q < 4 →
    (((utf8Data b1 &&& utf8Data (b0 + 0xE0 + 0x80)) ||| q) != 2) = !(second3Ok (b0 + 0xE0) b1 && q == 2) := by
  decide +kernel

set_option maxRecDepth 100000 in
theorem bad4_table : ∀ b0, b0 < 5 → ∀ b1, b1 < 256 → ∀ q2, q2 < 4 → ∀ q3, q3 < 4 →
    (((utf8Data b1 &&& utf8Data (b0 + 0xF0 + 0x80)) ||| q2 ||| ((q3 * 64) <<< 2)) != 0x202)
      = !(second4Ok (b0 + 0xF0) b1 && q2 == 2 && q3 == 2) := by
  decide +kernel

theorem and_c0 : ∀ b, b < 256 → b &&& 0xC0 = (b / 64) * 64 := by decide +kernel

end EncodingRs.Lemmas.Bidi
