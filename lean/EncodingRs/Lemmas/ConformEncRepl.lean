import EncodingRs.Lemmas.ConformEncSrc
/-!
# C03 (d): the with-replacement wrapper `Model.encRepl` writes `erefHtml`

`encRepl` (lib.rs `encode_from_utf8` / `encode_from_utf16`) calls the raw encoder on
`src[total_read..]`, appends a numeric character reference after every `Unmappable` and goes on.
When it ends with `InputEmpty` (no `OutputFull` occurred) and no inner call is stopped, everything
it wrote is `erefHtml` of the characters of the source buffer.  The work is the bookkeeping between
"the items of `src.drop total_read`" and "the remaining items of `src`" (`itemsOf_split`).
-/
namespace EncodingRs.Lemmas.ConformEnc
open EncodingRs EncodingRs.Spec.Encode
open EncodingRs.Model hiding Ev

/-- bytes of an event list, numeric character references written for the errors -/
def htmlOf : List Ev → List Nat
  | [] => []
  | .byte b :: t => b :: htmlOf t
  | .error u :: t => Model.ncr u ++ htmlOf t

theorem htmlOf_append : ∀ (a b : List Ev), htmlOf (a ++ b) = htmlOf a ++ htmlOf b
  | [], b => rfl
  | .byte x :: t, b => by simp [htmlOf, htmlOf_append t b]
  | .error u :: t, b => by simp [htmlOf, htmlOf_append t b]

theorem htmlOf_bytes : ∀ (l : List Nat), htmlOf (l.map Ev.byte) = l
  | [] => rfl
  | a :: t => by simp [htmlOf, htmlOf_bytes t]

theorem erefHtml_eq_htmlOf (F : EFam) : ∀ (text : List Nat) (s : F.σ), erefHtml F s text = htmlOf (eref F s text)
  | [], s => by simp [erefHtml, eref, htmlOf_bytes]
  | c :: rest, s => by
    unfold erefHtml eref
    rw [htmlOf_append, htmlOf_append, htmlOf_bytes, erefHtml_eq_htmlOf F rest]
    cases (charOut F s c).2.1 <;> simp [ncrOfReport, evsOfReport, htmlOf]

/-! ### source items: fuel irrelevance and splitting -/

def widthSum (l : List (Nat × Nat)) : Nat := (l.map (·.2)).sum

theorem itemsOf_fuel (read : List Nat → Option (Nat × Nat))
    (hw : ∀ units c w, read units = some (c, w) → 1 ≤ w) (hnil : read [] = none) :
    ∀ (f1 f2 : Nat) (units : List Nat), units.length ≤ f1 → units.length ≤ f2 →
      itemsOf read f1 units = itemsOf read f2 units
  | 0, f2, units, h1, _ => by
    have : units = [] := List.length_eq_zero_iff.mp (by omega)
    subst this
    cases f2 with
    | zero => rfl
    | succ f2 => rw [itemsOf_succ, hnil]; rfl
  | f1 + 1, 0, units, _, h2 => by
    have : units = [] := List.length_eq_zero_iff.mp (by omega)
    subst this
    rw [itemsOf_succ, hnil]; rfl
  | f1 + 1, f2 + 1, units, h1, h2 => by
    rw [itemsOf_succ, itemsOf_succ]
    cases hr : read units with
    | none => rfl
    | some cw =>
      obtain ⟨c, w⟩ := cw
      have := hw units c w hr
      simp only
      rw [itemsOf_fuel read hw hnil f1 f2 (units.drop w) (by rw [List.length_drop]; omega)
        (by rw [List.length_drop]; omega)]

theorem itemsOf_split (read : List Nat → Option (Nat × Nat))
    (hw : ∀ units c w, read units = some (c, w) → 1 ≤ w) (hnil : read [] = none) :
    ∀ (pre : List (Nat × Nat)) (src : List Nat) (c w : Nat) (post : List (Nat × Nat)),
      itemsOf read src.length src = pre ++ (c, w) :: post →
      itemsOf read (src.drop (widthSum pre + w)).length (src.drop (widthSum pre + w)) = post
  | [], src, c, w, post, h => by
    cases hl : src.length with
    | zero => rw [hl] at h; simp [itemsOf] at h
    | succ n =>
      rw [hl, itemsOf_succ] at h
      cases hr : read src with
      | none => rw [hr] at h; simp at h
      | some cw =>
        obtain ⟨c', w'⟩ := cw
        rw [hr] at h
        simp only [List.nil_append, List.cons.injEq, Prod.mk.injEq] at h
        obtain ⟨⟨hc, hw'⟩, hpost⟩ := h
        subst hc; subst hw'
        have := hw src c' w' hr
        simp only [widthSum, List.map_nil, List.sum_nil, Nat.zero_add]
        rw [← hpost]
        exact itemsOf_fuel read hw hnil _ _ _ (Nat.le_refl _) (by rw [List.length_drop]; omega)
  | (c0, w0) :: pre', src, c, w, post, h => by
    cases hl : src.length with
    | zero => rw [hl] at h; simp [itemsOf] at h
    | succ n =>
      rw [hl, itemsOf_succ] at h
      cases hr : read src with
      | none => rw [hr] at h; simp at h
      | some cw =>
        obtain ⟨c', w'⟩ := cw
        rw [hr] at h
        simp only [List.cons_append, List.cons.injEq, Prod.mk.injEq] at h
        obtain ⟨⟨hc, hw'⟩, hrest⟩ := h
        subst hc; subst hw'
        have := hw src c' w' hr
        have hrest' : itemsOf read (src.drop w').length (src.drop w') = pre' ++ (c, w) :: post := by
          rw [← hrest]
          exact itemsOf_fuel read hw hnil _ _ _ (Nat.le_refl _) (by rw [List.length_drop]; omega)
        have ih := itemsOf_split read hw hnil pre' (src.drop w') c w post hrest'
        have hsum : widthSum ((c', w') :: pre') + w = w' + (widthSum pre' + w) := by
          simp only [widthSum, List.map_cons, List.sum_cons]; omega
        rw [hsum, ← List.drop_drop]
        exact ih

theorem read16_width (units : List Nat) (c w : Nat) (h : read16 units = some (c, w)) : 1 ≤ w := by
  unfold read16 at h
  split at h
  · cases h
  · repeat' split at h
    all_goals (simp only [Option.some.injEq, Prod.mk.injEq] at h; omega)

theorem read8_width (units : List Nat) (c w : Nat) (h : read8 units = some (c, w)) : 1 ≤ w := by
  unfold read8 at h
  split at h
  · cases h
  · repeat' split at h
    all_goals (simp only [Option.some.injEq, Prod.mk.injEq] at h; omega)

/-- the items of a source buffer, as `ecall` reads them -/
def itemsFn (utf16 : Bool) (src : List Nat) : List (Nat × Nat) := if utf16 then items16 src else items8 src

theorem itemsFn_split (utf16 : Bool) (pre : List (Nat × Nat)) (src : List Nat) (c w : Nat)
    (post : List (Nat × Nat)) (h : itemsFn utf16 src = pre ++ (c, w) :: post) :
    itemsFn utf16 (src.drop (widthSum pre + w)) = post := by
  cases utf16
  · exact itemsOf_split read8 read8_width rfl pre src c w post h
  · exact itemsOf_split read16 read16_width rfl pre src c w post h

theorem itemsFn_nil (utf16 : Bool) : itemsFn utf16 [] = [] := by cases utf16 <;> rfl

/-! ### one raw call over items of any width -/

theorem erun_items (F : EFam) : ∀ (items : List (Nat × Nat)) (s : F.σ),
    match (erun F true s items .unlimited).res with
    | .inputEmpty => eref F s (items.map (·.1)) = (erun F true s items .unlimited).out.map Ev.byte
    | .unmappable u =>
      ∃ pre post c w, items = pre ++ (c, w) :: post
        ∧ (erun F true s items .unlimited).read = widthSum pre + w
        ∧ eref F s (items.map (·.1)) = (erun F true s items .unlimited).out.map Ev.byte
            ++ (Ev.error u :: eref F (erun F true s items .unlimited).st (post.map (·.1)))
    | .outputFull => False
  | [], s => by
    simp only [List.map_nil, erun, Budget.isZero, eref]
    by_cases he : (F.eof s).1.isEmpty = true
    · simp only [he, if_true]
      have : (F.eof s).1 = [] := List.isEmpty_iff.mp he
      simp [this]
    · simp [he]
  | (c, w) :: rest, s => by
    have hp := processChar_unlimited F (F.rank s c + 1) s c []
    have ih := erun_items F rest
    simp only [List.map_cons, erun, eref, charOut]
    cases hpc : processChar F (F.rank s c + 1) s c .unlimited [] with
    | full st out need => rw [hpc] at hp; exact hp.elim
    | unmappable st out u =>
      simp only [evsOfReport]
      exact ⟨[], rest, c, w, rfl, by simp [widthSum], by simp⟩
    | done st out b =>
      rw [hpc] at hp
      simp only at hp
      subst hp
      simp only
      have ih' := ih st
      cases hres : (erun F true st rest .unlimited).res with
      | inputEmpty =>
        rw [hres] at ih'
        simp only at ih'
        simp only [evsOfReport, List.nil_append]
        rw [ih', List.map_append]
      | outputFull => rw [hres] at ih'; exact ih'.elim
      | unmappable u =>
        rw [hres] at ih'
        simp only at ih'
        obtain ⟨pre, post, c', w', hitems, hread, heref⟩ := ih'
        simp only [evsOfReport, List.nil_append]
        refine ⟨(c, w) :: pre, post, c', w', by rw [hitems]; rfl, ?_, ?_⟩
        · rw [hread]; simp only [widthSum, List.map_cons, List.sum_cons]; omega
        · rw [heref, List.map_append, List.append_assoc]

/-! ### the loop of the wrapper -/

theorem encRepl_go_html (E : EFam) (hpend : ∀ s, E.hasPending s = false → (E.eof s).1 = [])
    (utf16 : Bool) (src : List Nat) (eff : Nat) :
    ∀ (fuel : Nat) (s : E.σ) (tr tw : Nat) (acc : List Nat) (had : Bool)
      (inner : List (Nat × Nat × ERes × Nat)) (r : EReplRes E.σ),
      encRepl.go E utf16 true fuel s src [] eff tr tw acc had inner = some r →
      r.res = .inputEmpty →
      r.out = acc ++ erefHtml E s ((itemsFn utf16 (src.drop tr)).map (·.1))
  | 0, _, _, _, _, _, _, _, h, _ => by simp [encRepl.go] at h
  | fuel + 1, s, tr, tw, acc, had, inner, r, h, hres => by
    unfold encRepl.go at h
    simp only [List.headD_nil, List.tail_nil] at h
    have hecall : ecall E utf16 s (src.drop tr) true .unlimited
        = erun E true s (itemsFn utf16 (src.drop tr)) .unlimited := rfl
    rw [hecall] at h
    have hitems := erun_items E (itemsFn utf16 (src.drop tr)) s
    rw [erefHtml_eq_htmlOf]
    cases hr0 : (erun E true s (itemsFn utf16 (src.drop tr)) .unlimited).res with
    | inputEmpty =>
      rw [hr0] at h hitems
      simp only at h hitems
      cases h
      simp only
      rw [hitems, htmlOf_bytes]
    | outputFull => rw [hr0] at hitems; exact hitems.elim
    | unmappable u =>
      rw [hr0] at h hitems
      simp only at h hitems
      obtain ⟨pre, post, c, w, hsplit, hread, heref⟩ := hitems
      have hpost : itemsFn utf16 (src.drop (tr + (erun E true s (itemsFn utf16 (src.drop tr)) .unlimited).read)) = post := by
        rw [hread, ← List.drop_drop]
        exact itemsFn_split utf16 pre (src.drop tr) c w post hsplit
      rw [heref, htmlOf_append, htmlOf_bytes]
      simp only [htmlOf]
      split at h
      · split at h
        · rename_i hfin
          cases h
          simp only
          have hdrop : src.drop (tr + (erun E true s (itemsFn utf16 (src.drop tr)) .unlimited).read) = [] := by
            rw [hfin.1]; exact List.drop_length
          rw [hdrop, itemsFn_nil] at hpost
          have hp : E.hasPending (erun E true s (itemsFn utf16 (src.drop tr)) .unlimited).st = false := by
            have := hfin.2
            simpa using this
          rw [← hpost]
          simp [eref, hpend _ hp, htmlOf]
        · cases h
          simp at hres
      · have ih := encRepl_go_html E hpend utf16 src eff fuel _ _ _ _ true _ r h hres
        rw [ih, hpost, erefHtml_eq_htmlOf]
        simp [List.append_assoc]

/-- the whole wrapper call (`last = true`, no inner call stopped): ends with `InputEmpty` ⇒ wrote `erefHtml` -/
theorem encRepl_html_of (E : EFam) (hpend : ∀ s, E.hasPending s = false → (E.eof s).1 = [])
    (canAll : Bool) (ncrExtra : Nat) (utf16 : Bool) (cap fuel : Nat) (s : E.σ) (src : List Nat)
    (r : EReplRes E.σ)
    (h : encRepl E canAll ncrExtra utf16 true cap fuel s src [] = some r) (hres : r.res = .inputEmpty) :
    r.out = erefHtml E s ((itemsFn utf16 src).map (·.1)) := by
  cases fuel with
  | zero => simp [encRepl] at h
  | succ fuel =>
    rw [encRepl] at h
    split at h
    · split at h
      · rename_i hempty
        cases h
        have hsrc : src = [] := List.isEmpty_iff.mp hempty.1
        have hp : E.hasPending s = false := by simpa using hempty.2
        subst hsrc
        rw [itemsFn_nil]
        simp [erefHtml, hpend s hp]
      · cases h
        simp at hres
    · have := encRepl_go_html E hpend utf16 src _ fuel s 0 0 [] false [] r h hres
      simpa using this

/-- lossy decoding of UTF-16 code units yields code points -/
theorem decodeUtf16Lossy_lt : ∀ (n : Nat) (units : List Nat), units.length ≤ n →
    (∀ u ∈ units, u < 0x10000) → ∀ c ∈ Spec.Conv.decodeUtf16Lossy units, c < 0x110000
  | 0, units, h, _, c, hc => by
    have : units = [] := List.length_eq_zero_iff.mp (by omega)
    subst this
    simp [Spec.Conv.decodeUtf16Lossy] at hc
  | n + 1, [], _, _, c, hc => by simp [Spec.Conv.decodeUtf16Lossy] at hc
  | n + 1, u :: rest, h, hu, c, hc => by
    have hlen : rest.length ≤ n := by simpa using h
    have hu0 : u < 0x10000 := hu u (List.mem_cons_self ..)
    have hrest : ∀ x ∈ rest, x < 0x10000 := fun x hx => hu x (List.mem_cons_of_mem _ hx)
    rw [Spec.Conv.decodeUtf16Lossy.eq_def] at hc
    simp only at hc
    split at hc
    · rename_i hh
      cases rest with
      | nil =>
        simp only [Spec.Conv.replacement, List.mem_singleton] at hc
        omega
      | cons l rest' =>
        simp only at hc
        split at hc
        · rename_i hl
          rcases List.mem_cons.mp hc with h1 | h1
          · have hhu : 0xD800 ≤ u ∧ u ≤ 0xDBFF := by simpa [Spec.Conv.isHighSurrogate] using hh
            have hll : 0xDC00 ≤ l ∧ l ≤ 0xDFFF := by simpa [Spec.Conv.isLowSurrogate] using hl
            have hpv : Spec.Conv.pairValue u l < 0x110000 := by
              unfold Spec.Conv.pairValue
              omega
            rw [h1]; exact hpv
          · exact decodeUtf16Lossy_lt n rest' (by simp at hlen; omega)
              (fun x hx => hrest x (List.mem_cons_of_mem _ hx)) c h1
        · rcases List.mem_cons.mp hc with h1 | h1
          · subst h1; simp [Spec.Conv.replacement]
          · exact decodeUtf16Lossy_lt n (l :: rest') hlen hrest c h1
    · split at hc
      · rcases List.mem_cons.mp hc with h1 | h1
        · subst h1; simp [Spec.Conv.replacement]
        · exact decodeUtf16Lossy_lt n rest hlen hrest c h1
      · rcases List.mem_cons.mp hc with h1 | h1
        · subst h1; omega
        · exact decodeUtf16Lossy_lt n rest hlen hrest c h1

end EncodingRs.Lemmas.ConformEnc
