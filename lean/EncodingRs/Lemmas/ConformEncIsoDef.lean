import EncodingRs.Lemmas.ConformEnc
/-!
# C03, ISO-2022-JP: definitions for the complete evaluation over (state, code point)

For every encoder state and every code point the model's processing of the character
(`isoChar`: the faithful step `isoEncStep`, following `.again`) is compared with the chain of
runs of the Standard's handler on that code point (`specChain`: following "restore code point
to ioQueue", with the code point the handler restores — U+FF0D for U+2212, the full-width
katakana for a half-width one).
-/
namespace EncodingRs.Lemmas.ConformEnc
open EncodingRs EncodingRs.Model EncodingRs.Spec.Encode

def isoJisInv : Array Nat := mkInverse Spec.Enc.indexJis0208Full 0x10000

theorem isoJisInv_checks :
    checkEntries Spec.Enc.indexJis0208Full isoJisInv = true
      ∧ checkInverse Spec.Enc.indexJis0208Full isoJisInv = true := by
  native_decide

theorem iso_ptr : indexPointer Spec.Enc.indexJis0208Full = invLookup isoJisInv :=
  funext (indexPointer_eq_invLookup _ _ isoJisInv_checks.1 isoJisInv_checks.2)

/-- encoder states of the model ↦ states of the Standard's encoder -/
def isoPhi : IsoEncSt → IsoState
  | .ascii => .ascii
  | .roman => .roman
  | .jis0208 => .jis0208

/-- the model's processing of one character: `isoEncStep`, and once more after `.again` -/
def isoChar (s : IsoEncSt) (c : Nat) : List Nat × Option Nat × IsoEncSt :=
  match (isoEncStep s c).unmappable with
  | some u => ((isoEncStep s c).out, some u, (isoEncStep s c).st)
  | none =>
    if (isoEncStep s c).unread = true then
      ((isoEncStep s c).out ++ (isoEncStep (isoEncStep s c).st c).out,
        (isoEncStep (isoEncStep s c).st c).unmappable, (isoEncStep (isoEncStep s c).st c).st)
    else ((isoEncStep s c).out, none, (isoEncStep s c).st)

/-- same value, each step evaluated once (for the evaluation) -/
def isoCharFast (s : IsoEncSt) (c : Nat) : List Nat × Option Nat × IsoEncSt :=
  let r := isoEncStep s c
  match r.unmappable with
  | some u => (r.out, some u, r.st)
  | none =>
    if r.unread = true then
      let r2 := isoEncStep r.st c
      (r.out ++ r2.out, r2.unmappable, r2.st)
    else (r.out, none, r.st)

theorem isoCharFast_eq (s : IsoEncSt) (c : Nat) : isoCharFast s c = isoChar s c := rfl

def isoCheckAt (s : IsoEncSt) (c : Nat) : Bool :=
  let m := isoCharFast s c
  decide (specChain (iso2022JpHandlerWith (invLookup isoJisInv)) 3 (isoPhi s) c = some (m.1, m.2.1, isoPhi m.2.2))
    -- an `Unmappable` report never leaves the encoder in the JIS X 0208 state
    && (m.2.1.isNone || decide (m.2.2 ≠ IsoEncSt.jis0208))

def isoCheck (c : Nat) : Bool := isoCheckAt .ascii c && isoCheckAt .roman c && isoCheckAt .jis0208 c

end EncodingRs.Lemmas.ConformEnc
