import EncodingRs.Lemmas.ConformEncIsoDef
/-! C03, ISO-2022-JP: complete evaluation of `isoCheck` (all three encoder states) over the code points 0x0 ≤ c < 0x4E00 (`native_decide`). -/
namespace EncodingRs.Lemmas.ConformEnc

theorem iso_check_r0 : allFrom isoCheck 0x0 0x4E00 = true := by native_decide

end EncodingRs.Lemmas.ConformEnc
