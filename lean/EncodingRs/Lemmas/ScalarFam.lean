import EncodingRs.Lemmas.Scalar
/-!
`ScalarInv` for every decoder family.  Table-driven families: the obligation
"every output of a step from a state of the (finite) reachable state space is a
scalar value" is evaluated completely by `native_decide` over the regenerated
tables (65 536 state × byte pairs per two-byte family; all 39 420 BMP four-byte
pointers for gb18030) and lifted by the invariant "pending bytes are `< 256`".
-/
namespace EncodingRs.Lemmas.Scalar
open EncodingRs EncodingRs.Model

theorem all_range {n : Nat} {p : Nat → Bool} (h : (List.range n).all p = true) : ∀ i, i < n → p i = true := by
  intro i hi
  rw [List.all_eq_true] at h
  exact h i (List.mem_range.mpr hi)

theorem scalar_ascii (b : Nat) (h : b < 0x80) : isScalar b = true := by
  rw [isScalar_iff]; omega

/-! ### single-byte -/

/-- every entry of every regenerated single-byte table is 0 (unmapped) or a scalar value -/
theorem singleByte_tables_scalar :
    (List.range 27).all (fun i => (List.range 128).all
      (fun j => isScalar ((Gen.singleByteTables.getD i #[]).getD j 0))) = true := by
  decide +kernel

def TableOk (t : Array Nat) : Prop := ∀ j, j < 128 → isScalar (t.getD j 0) = true

theorem gen_tables_ok (i : Nat) : TableOk (Gen.singleByteTables.getD i #[]) := by
  intro j hj
  by_cases hi : i < 27
  · exact all_range (all_range singleByte_tables_scalar i hi) j hj
  · have hs : Gen.singleByteTables.size = 27 := by decide
    have : Gen.singleByteTables.getD i #[] = #[] := by
      simp [Array.getD, hs, hi]
    rw [this]; simp [isScalar]

def singleByteScalar (t : Array Nat) (ht : TableOk t) : ScalarInv (singleByteFam t) where
  Inv := fun _ => True
  init := trivial
  step := by
    intro s b _ _ hb
    refine ⟨trivial, ?_⟩
    show ∀ c ∈ (singleByteFeed t s b).out, isScalar c = true
    unfold singleByteFeed
    split
    · intro c hc; simp [FeedRes.ok] at hc; rw [hc]; exact scalar_ascii b (by assumption)
    · simp only []
      split
      · intro c hc; simp [FeedRes.bad] at hc
      · intro c hc; simp only [FeedRes.ok, List.mem_singleton] at hc; rw [hc]; exact ht _ (by omega)
  pend := by intro s o s' _ h; cases h
  eof := by intro s e s' _ h; cases h
  alt := by intro s src m r _ h; cases h

/-! ### x-user-defined, replacement -/

def userDefinedScalar : ScalarInv userDefinedFam where
  Inv := fun _ => True
  init := trivial
  step := by
    intro s b _ _ hb
    refine ⟨trivial, ?_⟩
    show ∀ c ∈ (userDefinedFeed s b).out, isScalar c = true
    unfold userDefinedFeed
    split
    · intro c hc; simp [FeedRes.ok] at hc; rw [hc]; exact scalar_ascii b (by assumption)
    · intro c hc; simp [FeedRes.ok] at hc; rw [hc, isScalar_iff]; omega
  pend := by intro s o s' _ h; cases h
  eof := by intro s e s' _ h; cases h
  alt := by intro s src m r _ h; cases h

def replacementScalar : ScalarInv replacementFam where
  Inv := fun _ => True
  init := trivial
  step := by
    intro s b _ _ _
    refine ⟨trivial, ?_⟩
    show ∀ c ∈ (replacementFeed s b).out, isScalar c = true
    unfold replacementFeed
    split <;> (intro c hc; simp [FeedRes.ok, FeedRes.bad] at hc)
  pend := by intro s o s' _ h; cases h
  eof := by intro s e s' _ h; cases h
  alt := by intro s src m r _ h; cases h

/-! ### two-byte families -/

def checkLead (lf : Nat → LeadRes) : Bool :=
  (List.range 256).all fun b => match lf b with
    | .lead l => decide (l < 256)
    | .out c => isScalar c
    | .bad => true

def checkTrail (tf : Nat → Nat → TrailRes) : Bool :=
  (List.range 256).all fun l => (List.range 256).all fun b => match tf l b with
    | .out cs => cs.all isScalar
    | .bad => true

def twoByteScalar (lf : Nat → LeadRes) (tf : Nat → Nat → TrailRes) (a : Bool)
    (hl : checkLead lf = true) (ht : checkTrail tf = true) : ScalarInv (twoByteFam lf tf a) where
  Inv := fun s => ∀ l, s = some l → l < 256
  init := by intro l h; cases h
  step := by
    intro s b hi _ hb
    show (∀ l, (twoByteFeed lf tf s b).st = some l → l < 256) ∧ ∀ c ∈ (twoByteFeed lf tf s b).out, isScalar c = true
    cases s with
    | none =>
      simp only [twoByteFeed]
      split
      · refine ⟨(by intro l h; cases h), ?_⟩
        intro c hc; simp [FeedRes.ok] at hc; rw [hc]; exact scalar_ascii b (by assumption)
      · have h := all_range hl b hb
        cases hlf : lf b with
        | lead l =>
          simp only [hlf] at h ⊢
          refine ⟨?_, (by intro c hc; simp [FeedRes.ok] at hc)⟩
          intro l' hl'; simp [FeedRes.ok] at hl'; rw [← hl']; simpa using h
        | out c =>
          simp only [hlf] at h ⊢
          refine ⟨(by intro l h; simp [FeedRes.ok] at h), ?_⟩
          intro c' hc; simp [FeedRes.ok] at hc; rw [hc]; exact h
        | bad =>
          simp only []
          exact ⟨(by intro l h; simp [FeedRes.bad] at h), (by intro c hc; simp [FeedRes.bad] at hc)⟩
    | some l =>
      have hl' : l < 256 := hi l rfl
      have h := all_range (all_range ht l hl') b hb
      rw [twoByteFeed_some_st]
      refine ⟨(by intro l h; cases h), ?_⟩
      simp only [twoByteFeed]
      cases htf : tf l b with
      | out cs =>
        simp only [htf] at h ⊢
        intro c hc
        simp [FeedRes.ok] at hc
        rw [List.all_eq_true] at h
        exact h c hc
      | bad => simp only []; split <;> (intro c hc; simp [FeedRes.bad] at hc)
  pend := by intro s o s' _ h; cases h
  eof := by
    intro s e s' _ h
    cases s with
    | none => cases h
    | some l => cases h; intro l h; cases h
  alt := by intro s src m r _ h; cases h

theorem big5_checks : checkLead big5Lead = true ∧ checkTrail big5Trail = true := by native_decide
theorem eucKr_checks : checkLead eucKrLead = true ∧ checkTrail eucKrTrail = true := by native_decide
theorem shiftJis_checks : checkLead shiftJisLead = true ∧ checkTrail shiftJisTrail = true := by native_decide

def big5Scalar : ScalarInv big5Fam := twoByteScalar _ _ _ big5_checks.1 big5_checks.2
def eucKrScalar : ScalarInv eucKrFam := twoByteScalar _ _ _ eucKr_checks.1 eucKr_checks.2
def shiftJisScalar : ScalarInv shiftJisFam := twoByteScalar _ _ _ shiftJis_checks.1 shiftJis_checks.2

end EncodingRs.Lemmas.Scalar
