import EncodingRs.Model.Encoder
import EncodingRs.Spec.Utf8
/-!
G7 for encoders (encoder half of C07): a *potential* `Φ s n` bounds the output
space an encoder in state `s` can need for `n` more source units.  If the
capacity is at least `Φ s |src|`, no admissible raw call returns `OutputFull`.

Differences from the decoder side (`Lemmas/Potential.lean`):

* the input is a list of *source items* `(scalar, width)`; a character of width
  `w` uses up `w` source units, and which scalars can have which width depends on
  the source form (`WOK`);
* one character may take several steps (`EStep.unread`: ISO-2022-JP writes an
  escape sequence, changes state and reads the character again).  A potential
  that is a function of (state, units left) alone cannot be decreasing along the
  single `.again` steps (Ascii --kanji--> Jis0208 and Jis0208 --ASCII--> Ascii
  would both have to decrease it although no unit is consumed), so the
  per-character obligation `char_le` is stated for the whole re-read loop, through
  `charCost`: the worst case, over all points where the loop can stop with
  `OutputFull`, of "bytes written so far + space insisted on", and of "bytes
  written + potential afterwards" when the character is consumed.
-/
namespace EncodingRs.Lemmas.EncPotential
open EncodingRs EncodingRs.Model

/-- **width consistency** of a source item `(c, w)`: from UTF-16 one unit is a BMP
scalar (an unpaired surrogate reads as U+FFFD) and two units are an astral scalar;
from UTF-8 a one-byte character is ASCII, a two-byte one is below U+0800, a
three-byte one is in the BMP.  (Only upper bounds on the scalar are recorded,
except for surrogate pairs: that is all the length formulas depend on.) -/
def WOK (utf16 : Bool) (c w : Nat) : Prop :=
  if utf16 then (w = 1 ∧ c < 0x10000) ∨ (w = 2 ∧ 0x10000 ≤ c)
  else (w = 1 ∧ c < 0x80) ∨ (w = 2 ∧ c < 0x800) ∨ (w = 3 ∧ c < 0x10000) ∨ w = 4

theorem WOK.pos {utf16 : Bool} {c w : Nat} (h : WOK utf16 c w) : 1 ≤ w := by
  unfold WOK at h; split at h <;> omega

theorem WOK.le4 {utf16 : Bool} {c w : Nat} (h : WOK utf16 c w) : w ≤ 4 := by
  unfold WOK at h; split at h <;> omega

/-- from either source form, a one-unit character is in the BMP -/
theorem WOK.one_bmp {utf16 : Bool} {c w : Nat} (h : WOK utf16 c w) (hw : w = 1) : c < 0x10000 := by
  unfold WOK at h; split at h <;> omega

/-- source units an item list stands for -/
def widthSum (items : List (Nat × Nat)) : Nat := (items.map Prod.snd).sum

@[simp] theorem widthSum_nil : widthSum [] = 0 := rfl
@[simp] theorem widthSum_cons (c w : Nat) (t : List (Nat × Nat)) : widthSum ((c, w) :: t) = w + widthSum t := by
  simp [widthSum]

/-- worst case of processing character `c` in state `s` when `n` source units follow it:
the maximum over the `OutputFull` exits of (bytes written + space asked for) and, if the
character gets consumed, bytes written + potential of what follows.  Mirrors `processChar`. -/
def charCost (E : EFam) (Φ : E.σ → Nat → Nat) : Nat → E.σ → Nat → Nat → Nat
  | 0, s, _, n => Φ s n
  | fuel + 1, s, c, n =>
    max (E.need s c)
      (match (E.step s c).unmappable with
       | some _ => 0
       | none =>
         (E.step s c).out.length +
           (if (E.step s c).unread then charCost E Φ fuel (E.step s c).st c n
            else Φ (E.step s c).st n))

structure EPotential (E : EFam) (utf16 : Bool) where
  Inv : E.σ → Prop
  Φ : E.σ → Nat → Nat
  inv_init : Inv E.init
  inv_step : ∀ s c, Inv s → Inv (E.step s c).st
  inv_eof : ∀ s, Inv s → Inv (E.eof s).2
  /-- one character `(c, w)` with `n` units after it: every `OutputFull` exit of the re-read loop
  and the consumption of the character are covered by the potential for `n + w` units -/
  char_le : ∀ s c w n, Inv s → WOK utf16 c w → charCost E Φ (E.rank s c + 1) s c n ≤ Φ s (n + w)
  /-- end of stream -/
  eof_le : ∀ s, Inv s → E.eofNeed s ≤ Φ s 0

variable {E : EFam} {utf16 : Bool}

/-! ### what `char_le` says, step by step -/

/-- the space insisted on before reading a character is covered -/
theorem EPotential.need_le (P : EPotential E utf16) (s : E.σ) (c w n : Nat) (hi : P.Inv s) (hw : WOK utf16 c w) :
    E.need s c ≤ P.Φ s (n + w) := by
  have h := P.char_le s c w n hi hw
  rw [charCost] at h
  exact Nat.le_trans (Nat.le_max_left _ _) h

/-- a step that consumes the character: what it writes plus what the rest can need is covered -/
theorem EPotential.step_ok (P : EPotential E utf16) (s : E.σ) (c w n : Nat) (hi : P.Inv s) (hw : WOK utf16 c w)
    (hu : (E.step s c).unmappable = none) (hr : (E.step s c).unread = false) :
    (E.step s c).out.length + P.Φ (E.step s c).st n ≤ P.Φ s (n + w) := by
  have h := P.char_le s c w n hi hw
  rw [charCost, hu, hr] at h
  exact Nat.le_trans (Nat.le_max_right _ _) h

/-- a step that hands the character back: what it writes plus the cost of reading the character
again in the new state is covered -/
theorem EPotential.step_again (P : EPotential E utf16) (s : E.σ) (c w n : Nat) (hi : P.Inv s) (hw : WOK utf16 c w)
    (hu : (E.step s c).unmappable = none) (hr : (E.step s c).unread = true) :
    (E.step s c).out.length + charCost E P.Φ (E.rank s c) (E.step s c).st c n ≤ P.Φ s (n + w) := by
  have h := P.char_le s c w n hi hw
  rw [charCost, hu, hr] at h
  exact Nat.le_trans (Nat.le_max_right _ _) h

/-! ### the re-read loop -/

theorem processChar_bound (P : EPotential E utf16) (n : Nat) :
    ∀ (fuel : Nat) (s : E.σ) (c : Nat) (b : Budget) (acc : List Nat), P.Inv s →
      match processChar E fuel s c b acc with
      | .full _ out need => out.length + need ≤ acc.length + charCost E P.Φ fuel s c n
      | .done st out _ => P.Inv st ∧ out.length + P.Φ st n ≤ acc.length + charCost E P.Φ fuel s c n
      | .unmappable st _ _ => P.Inv st := by
  intro fuel
  induction fuel with
  | zero =>
    intro s c b acc hi
    simp only [processChar, charCost]
    exact ⟨hi, Nat.le_refl _⟩
  | succ fuel ih =>
    intro s c b acc hi
    by_cases hz : b.isZero = true
    · -- stop before the step
      have h1 : processChar E (fuel + 1) s c b acc = .full s acc (E.need s c) := by simp [processChar, hz]
      rw [h1, charCost]
      simp only
      have := Nat.le_max_left (E.need s c)
        (match (E.step s c).unmappable with
         | some _ => 0
         | none => (E.step s c).out.length +
             (if (E.step s c).unread then charCost E P.Φ fuel (E.step s c).st c n
              else P.Φ (E.step s c).st n))
      omega
    · have hz' : b.isZero = false := by cases h : b.isZero <;> simp_all
      cases hu : (E.step s c).unmappable with
      | some u =>
        have h1 : processChar E (fuel + 1) s c b acc
            = .unmappable (E.step s c).st (acc ++ (E.step s c).out) u := by
          simp [processChar, hz', hu]
        rw [h1]
        exact P.inv_step s c hi
      | none =>
        cases hr : (E.step s c).unread with
        | true =>
          have h1 : processChar E (fuel + 1) s c b acc
              = processChar E fuel (E.step s c).st c b.dec (acc ++ (E.step s c).out) := by
            simp [processChar, hz', hu, hr]
          rw [h1, charCost, hu, hr]
          simp only [if_true]
          have IH := ih (E.step s c).st c b.dec (acc ++ (E.step s c).out) (P.inv_step s c hi)
          have hm := Nat.le_max_right (E.need s c)
            ((E.step s c).out.length + charCost E P.Φ fuel (E.step s c).st c n)
          cases hres : processChar E fuel (E.step s c).st c b.dec (acc ++ (E.step s c).out) with
          | full st out need =>
            rw [hres] at IH
            simp only [List.length_append] at IH ⊢
            omega
          | done st out b' =>
            rw [hres] at IH
            simp only [List.length_append] at IH ⊢
            exact ⟨IH.1, by omega⟩
          | unmappable st out u =>
            rw [hres] at IH
            exact IH
        | false =>
          have h1 : processChar E (fuel + 1) s c b acc
              = .done (E.step s c).st (acc ++ (E.step s c).out) b.dec := by
            simp [processChar, hz', hu, hr]
          rw [h1, charCost, hu, hr]
          simp only [Bool.false_eq_true, if_false]
          refine ⟨P.inv_step s c hi, ?_⟩
          have hm := Nat.le_max_right (E.need s c) ((E.step s c).out.length + P.Φ (E.step s c).st n)
          simp only [List.length_append]
          omega

/-- the state at an `OutputFull` stop inside the re-read loop satisfies the invariant -/
theorem processChar_full_inv (P : EPotential E utf16) :
    ∀ (fuel : Nat) (s : E.σ) (c : Nat) (b : Budget) (acc : List Nat), P.Inv s →
      ∀ st out need, processChar E fuel s c b acc = .full st out need → P.Inv st := by
  intro fuel
  induction fuel with
  | zero => intro s c b acc _ st out need h; simp [processChar] at h
  | succ fuel ih =>
    intro s c b acc hi st out need h
    rw [processChar] at h
    split at h
    · cases h; exact hi
    · simp only at h
      split at h
      · cases h
      · split at h
        · exact ih _ c _ _ (P.inv_step s c hi) st out need h
        · cases h

/-! ### raw calls -/

/-- **main loop**: an `OutputFull` stop asks for no more than the potential allows -/
theorem erun_bound (P : EPotential E utf16) (last : Bool) :
    ∀ (items : List (Nat × Nat)) (s : E.σ) (b : Budget), P.Inv s → (∀ it ∈ items, WOK utf16 it.1 it.2) →
      P.Inv (erun E last s items b).st ∧
      ((erun E last s items b).res = .outputFull →
        (erun E last s items b).out.length + (erun E last s items b).stopNeed ≤ P.Φ s (widthSum items)) := by
  intro items
  induction items with
  | nil =>
    intro s b hi _
    simp only [erun]
    cases last with
    | false => exact ⟨hi, by simp⟩
    | true =>
      simp only [if_true]
      split
      · exact ⟨P.inv_eof s hi, by simp⟩
      · split
        · refine ⟨hi, ?_⟩
          intro _
          simp only [List.length_nil, Nat.zero_add, widthSum_nil]
          exact P.eof_le s hi
        · exact ⟨P.inv_eof s hi, by simp⟩
  | cons it tl ih =>
    intro s b hi hw
    obtain ⟨c, w⟩ := it
    have hw0 : WOK utf16 c w := hw (c, w) (List.mem_cons_self ..)
    have hwt : ∀ it ∈ tl, WOK utf16 it.1 it.2 := fun x hx => hw x (List.mem_cons_of_mem _ hx)
    have hc := P.char_le s c w (widthSum tl) hi hw0
    rw [Nat.add_comm (widthSum tl) w] at hc
    have hp := processChar_bound P (widthSum tl) (E.rank s c + 1) s c b [] hi
    simp only [erun, widthSum_cons]
    cases hres : processChar E (E.rank s c + 1) s c b [] with
    | full st out need =>
      rw [hres] at hp
      simp only [List.length_nil] at hp
      simp only
      refine ⟨?_, ?_⟩
      · exact processChar_full_inv P (E.rank s c + 1) s c b [] hi st out need hres
      · intro _
        omega
    | unmappable st out u =>
      rw [hres] at hp
      simp only
      exact ⟨hp, by intro h; cases h⟩
    | done st out b' =>
      rw [hres] at hp
      simp only [List.length_nil] at hp
      simp only
      have IH := ih st b' hp.1 hwt
      refine ⟨IH.1, ?_⟩
      intro h
      have := IH.2 h
      simp only [List.length_append]
      omega
/-- validity of a source buffer: UTF-16 units are 16-bit; UTF-8 input is well-formed (it is a `&str`) -/
def SrcOK (utf16 : Bool) (src : List Nat) : Prop :=
  if utf16 then ∀ u ∈ src, u < 0x10000 else Spec.WellFormedUtf8 src

/-- the items of a source buffer -/
def itemsOfSrc (utf16 : Bool) (src : List Nat) : List (Nat × Nat) := if utf16 then items16 src else items8 src

theorem ecall_eq (E : EFam) (utf16 : Bool) (s : E.σ) (src : List Nat) (last : Bool) (b : Budget) :
    ecall E utf16 s src last b = erun E last s (itemsOfSrc utf16 src) b := rfl

/-! ### the sources yield width-consistent items that add up to the buffer length -/

theorem read16_spec (u : Nat) (rest : List Nat) (hu : u < 0x10000) :
    ∃ c w, read16 (u :: rest) = some (c, w) ∧ WOK true c w ∧ w ≤ (u :: rest).length := by
  simp only [read16]
  split
  · exact ⟨u, 1, rfl, Or.inl ⟨rfl, hu⟩, by simp⟩
  · split
    · cases rest with
      | nil => exact ⟨0xFFFD, 1, rfl, Or.inl ⟨rfl, by decide⟩, by simp⟩
      | cons lo t =>
        simp only
        split
        · exact ⟨_, 2, rfl, Or.inr ⟨rfl, by omega⟩, by simp⟩
        · exact ⟨0xFFFD, 1, rfl, Or.inl ⟨rfl, by decide⟩, by simp⟩
    · exact ⟨0xFFFD, 1, rfl, Or.inl ⟨rfl, by decide⟩, by simp⟩

theorem itemsOf16_ok : ∀ (fuel : Nat) (units : List Nat), units.length ≤ fuel → (∀ u ∈ units, u < 0x10000) →
    (∀ it ∈ itemsOf read16 fuel units, WOK true it.1 it.2) ∧ widthSum (itemsOf read16 fuel units) = units.length := by
  intro fuel
  induction fuel with
  | zero =>
    intro units hl _
    have : units = [] := List.eq_nil_of_length_eq_zero (by omega)
    subst this
    simp [itemsOf]
  | succ fuel ih =>
    intro units hl hu
    cases units with
    | nil => simp [itemsOf, read16]
    | cons u rest =>
      obtain ⟨c, w, hr, hw, hle⟩ := read16_spec u rest (hu u (List.mem_cons_self ..))
      have hpos := hw.pos
      simp only [itemsOf, hr]
      have hl' : ((u :: rest).drop w).length ≤ fuel := by
        rw [List.length_drop]; simp only [List.length_cons] at hl hle ⊢; omega
      have IH := ih ((u :: rest).drop w) hl' (fun x hx => hu x (List.mem_of_mem_drop hx))
      refine ⟨?_, ?_⟩
      · intro it hit
        rcases List.mem_cons.mp hit with h | h
        · subst h; exact hw
        · exact IH.1 it h
      · rw [widthSum_cons, IH.2, List.length_drop]
        omega

theorem items16_ok (units : List Nat) (h : ∀ u ∈ units, u < 0x10000) :
    (∀ it ∈ items16 units, WOK true it.1 it.2) ∧ widthSum (items16 units) = units.length :=
  itemsOf16_ok units.length units (Nat.le_refl _) h

/-- one well-formed UTF-8 sequence in front of `rest` is read as one item of its length -/
theorem read8_seq (sq rest : List Nat) (h : Spec.wellFormedSeq sq = true) :
    ∃ c, read8 (sq ++ rest) = some (c, sq.length) ∧ WOK false c sq.length ∧ 1 ≤ sq.length := by
  rcases sq with _ | ⟨b0, _ | ⟨b1, _ | ⟨b2, _ | ⟨b3, _ | ⟨b4, t⟩⟩⟩⟩⟩
  · simp [Spec.wellFormedSeq] at h
  · -- one byte
    have h0 : b0 < 0x80 := by
      simp only [Spec.wellFormedSeq, Spec.wf1, decide_eq_true_eq] at h; omega
    refine ⟨b0, ?_, Or.inl ⟨rfl, h0⟩, by simp⟩
    simp [read8, h0]
  · -- two bytes
    have h0 : 0xC2 ≤ b0 ∧ b0 ≤ 0xDF := by
      simp only [Spec.wellFormedSeq, Spec.wf2, Bool.and_eq_true, decide_eq_true_eq] at h; omega
    have n1 : ¬ b0 < 0x80 := by omega
    have n2 : b0 < 0xE0 := by omega
    refine ⟨(b0 % 32) * 64 + b1 % 64, ?_, Or.inr (Or.inl ⟨rfl, ?_⟩), by simp⟩
    · simp only [read8, List.cons_append, n1, n2, if_false, if_true]; rfl
    · have : b0 % 32 < 32 := Nat.mod_lt _ (by decide)
      have : b1 % 64 < 64 := Nat.mod_lt _ (by decide)
      omega
  · -- three bytes
    have h0 : 0xE0 ≤ b0 ∧ b0 ≤ 0xEF := by
      simp only [Spec.wellFormedSeq, Spec.wf3, Spec.second3Ok, Bool.and_eq_true, Bool.or_eq_true,
        decide_eq_true_eq, beq_iff_eq] at h
      omega
    have n1 : ¬ b0 < 0x80 := by omega
    have n2 : ¬ b0 < 0xE0 := by omega
    have n3 : b0 < 0xF0 := by omega
    refine ⟨(b0 % 16) * 4096 + b1 % 64 * 64 + b2 % 64, ?_, Or.inr (Or.inr (Or.inl ⟨rfl, ?_⟩)), by simp⟩
    · simp only [read8, List.cons_append, n1, n2, n3, if_false, if_true]; rfl
    · have : b0 % 16 < 16 := Nat.mod_lt _ (by decide)
      have : b1 % 64 < 64 := Nat.mod_lt _ (by decide)
      have : b2 % 64 < 64 := Nat.mod_lt _ (by decide)
      omega
  · -- four bytes
    have h0 : 0xF0 ≤ b0 := by
      simp only [Spec.wellFormedSeq, Spec.wf4, Spec.second4Ok, Bool.and_eq_true, Bool.or_eq_true,
        decide_eq_true_eq, beq_iff_eq] at h
      omega
    have n1 : ¬ b0 < 0x80 := by omega
    have n2 : ¬ b0 < 0xE0 := by omega
    have n3 : ¬ b0 < 0xF0 := by omega
    refine ⟨(b0 % 8) * 262144 + b1 % 64 * 4096 + b2 % 64 * 64 + b3 % 64, ?_, Or.inr (Or.inr (Or.inr rfl)), by simp⟩
    simp only [read8, List.cons_append, n1, n2, n3, if_false]; rfl
  · simp [Spec.wellFormedSeq] at h

theorem itemsOf8_ok (bs : List Nat) (h : Spec.WellFormedUtf8 bs) : ∀ (fuel : Nat), bs.length ≤ fuel →
    (∀ it ∈ itemsOf read8 fuel bs, WOK false it.1 it.2) ∧ widthSum (itemsOf read8 fuel bs) = bs.length := by
  induction h with
  | nil =>
    intro fuel _
    cases fuel <;> simp [itemsOf, read8]
  | cons sq rest hs _ ih =>
    intro fuel hl
    obtain ⟨c, hr, hw, hpos⟩ := read8_seq sq rest hs
    cases fuel with
    | zero => simp only [List.length_append] at hl; omega
    | succ fuel =>
      simp only [itemsOf, hr]
      have hd : (sq ++ rest).drop sq.length = rest := List.drop_left
      rw [hd]
      have IH := ih fuel (by simp only [List.length_append] at hl; omega)
      refine ⟨?_, ?_⟩
      · intro it hit
        rcases List.mem_cons.mp hit with h | h
        · subst h; exact hw
        · exact IH.1 it h
      · rw [widthSum_cons, IH.2, List.length_append]

theorem items8_ok (bs : List Nat) (h : Spec.WellFormedUtf8 bs) :
    (∀ it ∈ items8 bs, WOK false it.1 it.2) ∧ widthSum (items8 bs) = bs.length :=
  itemsOf8_ok bs h bs.length (Nat.le_refl _)

theorem itemsOfSrc_ok (utf16 : Bool) (src : List Nat) (h : SrcOK utf16 src) :
    (∀ it ∈ itemsOfSrc utf16 src, WOK utf16 it.1 it.2) ∧ widthSum (itemsOfSrc utf16 src) = src.length := by
  cases utf16 with
  | true => exact items16_ok src h
  | false => exact items8_ok src h

/-- the same for a whole raw call on a source buffer -/
theorem ecall_bound (P : EPotential E utf16) (last : Bool) (src : List Nat) (s : E.σ) (b : Budget)
    (hi : P.Inv s) (hsrc : SrcOK utf16 src) :
    P.Inv (ecall E utf16 s src last b).st ∧
    ((ecall E utf16 s src last b).res = .outputFull →
      (ecall E utf16 s src last b).out.length + (ecall E utf16 s src last b).stopNeed ≤ P.Φ s src.length) := by
  have hok := itemsOfSrc_ok utf16 src hsrc
  have h := erun_bound P last (itemsOfSrc utf16 src) s b hi hok.1
  rw [hok.2] at h
  exact h

/-- **G7 for the raw (`*_without_replacement`) encoder methods**: with a destination at least as large
as the potential of the current state for the number of source units passed, an admissible call never
returns `OutputFull` (it returns `InputEmpty` or `Unmappable`). -/
theorem no_outputFull_enc_raw (P : EPotential E utf16) (last : Bool) (src : List Nat) (s : E.σ) (b : Budget)
    (cap : Nat) (hi : P.Inv s) (hsrc : SrcOK utf16 src) (hcap : P.Φ s src.length ≤ cap)
    (hadm : EAdmissible E cap (ecall E utf16 s src last b)) :
    (ecall E utf16 s src last b).res ≠ .outputFull := by
  intro hres
  have h1 := (ecall_bound P last src s b hi hsrc).2 hres
  have h2 := hadm.2 hres
  omega

/-! ### potentials for encoders without re-read steps -/

/-- for an encoder whose steps never hand the character back, `char_le` is `need_le` plus `step_ok` -/
theorem charCost_le_of_no_unread (E : EFam) (Φ : E.σ → Nat → Nat) (s : E.σ) (c n fuel bound : Nat)
    (hr : (E.step s c).unread = false) (hneed : E.need s c ≤ bound)
    (hstep : (E.step s c).unmappable = none → (E.step s c).out.length + Φ (E.step s c).st n ≤ bound) :
    charCost E Φ (fuel + 1) s c n ≤ bound := by
  rw [charCost]
  apply Nat.max_le.mpr
  refine ⟨hneed, ?_⟩
  cases hu : (E.step s c).unmappable with
  | some u => exact Nat.zero_le _
  | none =>
    simp only [hr, Bool.false_eq_true, if_false]
    exact hstep hu

/-- a potential for an encoder without re-read steps and with every state reachable, from the
step-wise obligations `need_le` / `step_ok` / `eof_le` -/
def EPotential.ofNoUnread (E : EFam) (utf16 : Bool) (Φ : E.σ → Nat → Nat)
    (hunread : ∀ s c, (E.step s c).unread = false)
    (need_le : ∀ s c w n, WOK utf16 c w → E.need s c ≤ Φ s (n + w))
    (step_ok : ∀ s c w n, WOK utf16 c w → (E.step s c).unmappable = none →
      (E.step s c).out.length + Φ (E.step s c).st n ≤ Φ s (n + w))
    (eof_le : ∀ s, E.eofNeed s ≤ Φ s 0) : EPotential E utf16 where
  Inv := fun _ => True
  Φ := Φ
  inv_init := trivial
  inv_step := fun _ _ _ => trivial
  inv_eof := fun _ _ => trivial
  char_le := fun s c w n _ hw =>
    charCost_le_of_no_unread E Φ s c n (E.rank s c) _ (hunread s c) (need_le s c w n hw) (step_ok s c w n hw)
  eof_le := fun s _ => eof_le s

end EncodingRs.Lemmas.EncPotential
