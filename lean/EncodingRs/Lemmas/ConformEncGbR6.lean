import EncodingRs.Lemmas.ConformEncGbDef
/-! C03, GBK / gb18030: complete evaluation of `gbCheck` over the code points 0x10000 ≤ c < 0x50000 (`native_decide`). -/
namespace EncodingRs.Lemmas.ConformEnc

theorem gb_check_r6 : allFrom gbCheck 0x10000 0x40000 = true := by native_decide

end EncodingRs.Lemmas.ConformEnc
