import EncodingRs.Model.MaxLen
/-!
The checked `usize` arithmetic of the *encoder* length queries
(`max_buffer_length_from_utf{8,16}_without_replacement`, `…_if_no_unmappables`):
the translated formulas (`Gen.MaxLen`, `Model.encMaxNoRepl`, `Model.encMaxIfNoUnmappables`)
return `some Q` exactly when the natural-number value `Q` of the formula fits `usize`,
and `none` otherwise — never a wrapped number.
-/
namespace EncodingRs.Lemmas.EncMaxLenArith
open EncodingRs EncodingRs.Model EncodingRs.Gen.MaxLen

/-! ### the `U.*` operations -/

theorem chk_eq_some {a q : Nat} : U.chk a = some q ↔ (q = a ∧ a ≤ usizeMax) := by
  unfold U.chk
  split
  · constructor
    · intro h; cases h; exact ⟨rfl, by assumption⟩
    · intro h; rw [h.1]
  · constructor
    · intro h; cases h
    · intro h; exact absurd h.2 (by assumption)

theorem chk_eq_none {a : Nat} : U.chk a = none ↔ usizeMax < a := by
  unfold U.chk; split <;> simp <;> omega

theorem someU_eq_some {a q : Nat} : U.someU a = some q ↔ q = a := by
  unfold U.someU; constructor
  · intro h; cases h; rfl
  · intro h; rw [h]

theorem addU_eq_some {a b q : Nat} : U.addU a b = some q ↔ (q = a + b ∧ a + b ≤ usizeMax) := chk_eq_some
theorem mulU_eq_some {a b q : Nat} : U.mulU a b = some q ↔ (q = a * b ∧ a * b ≤ usizeMax) := chk_eq_some

theorem addO_eq_some {a q : Nat} {o : Option Nat} :
    U.addO a o = some q ↔ ∃ b, o = some b ∧ q = a + b ∧ a + b ≤ usizeMax := by
  cases o with
  | none => simp [U.addO]
  | some b => simp [U.addO, chk_eq_some]

theorem mulO_eq_some {a q : Nat} {o : Option Nat} :
    U.mulO a o = some q ↔ ∃ b, o = some b ∧ q = a * b ∧ a * b ≤ usizeMax := by
  cases o with
  | none => simp [U.mulO]
  | some b => simp [U.mulO, chk_eq_some]

theorem divO_eq_some {a q : Nat} {o : Option Nat} (ha : a ≠ 0) :
    U.divO o a = some q ↔ ∃ b, o = some b ∧ q = b / a := by
  cases o with
  | none => simp [U.divO]
  | some b => simp [U.divO, ha, eq_comm]

theorem addOO_eq_some {q : Nat} {x y : Option Nat} :
    U.addOO x y = some q ↔ ∃ a b, x = some a ∧ y = some b ∧ q = a + b ∧ a + b ≤ usizeMax := by
  cases x with
  | none => simp [U.addOO]
  | some a =>
    cases y with
    | none => simp [U.addOO]
    | some b => simp [U.addOO, chk_eq_some]

/-! ### the exact value of each encoder formula -/

/-- natural-number value of `VariantEncoder::max_buffer_length_from_utf{16,8}_without_replacement(n)` -/
def encMaxNat (utf16 : Bool) : Gen.Variant → Nat → Nat
  | .singleByte _ _ _ _, n => n
  | .userDefined, n => n
  | .gbk, n => if utf16 then 2 + n * 2 else n + 3
  | .gb18030, n => if utf16 then n * 4 else 2 + n * 2
  | .big5, n => if utf16 then n * 2 else n + 1
  | .eucJp, n => if utf16 then n * 2 else n + 1
  | .shiftJis, n => if utf16 then n * 2 else n + 1
  | .eucKr, n => if utf16 then n * 2 else n + 1
  | .iso2022Jp, n => if utf16 then 3 + n * 4 + (n + 1) / 2 else 3 + n * 3
  | .utf8, n => if utf16 then n * 3 else n
  | .replacement, n => if utf16 then n * 3 else n
  | .utf16Be, n => if utf16 then n * 3 else n
  | .utf16Le, n => if utf16 then n * 3 else n

/-- **no wrapped numbers (raw queries)**: for a `usize` argument `n`, the query returns `some Q`
exactly when the natural-number value of its formula is `Q` and fits `usize`. -/
theorem encMaxNoRepl_eq_some (utf16 : Bool) (v : Gen.Variant) (n Q : Nat) (hn : n ≤ usizeMax) :
    encMaxNoRepl utf16 v n = some Q ↔ (Q = encMaxNat utf16 v n ∧ encMaxNat utf16 v n ≤ usizeMax) := by
  have two : (2 : Nat) ≠ 0 := by decide
  cases utf16 <;> cases v <;>
    simp only [encMaxNoRepl, encMaxNat, if_true, Bool.false_eq_true, if_false,
      singleByteEncMaxBufferLengthFromUtf16WithoutReplacement, singleByteEncMaxBufferLengthFromUtf8WithoutReplacement,
      userDefinedEncMaxBufferLengthFromUtf16WithoutReplacement, userDefinedEncMaxBufferLengthFromUtf8WithoutReplacement,
      gbEncMaxBufferLengthFromUtf16WithoutReplacement, gbEncMaxBufferLengthFromUtf8WithoutReplacement,
      big5EncMaxBufferLengthFromUtf16WithoutReplacement, big5EncMaxBufferLengthFromUtf8WithoutReplacement,
      eucJpEncMaxBufferLengthFromUtf16WithoutReplacement, eucJpEncMaxBufferLengthFromUtf8WithoutReplacement,
      shiftJisEncMaxBufferLengthFromUtf16WithoutReplacement, shiftJisEncMaxBufferLengthFromUtf8WithoutReplacement,
      eucKrEncMaxBufferLengthFromUtf16WithoutReplacement, eucKrEncMaxBufferLengthFromUtf8WithoutReplacement,
      iso2022JpEncMaxBufferLengthFromUtf16WithoutReplacement, iso2022JpEncMaxBufferLengthFromUtf8WithoutReplacement,
      utf8EncMaxBufferLengthFromUtf16WithoutReplacement, utf8EncMaxBufferLengthFromUtf8WithoutReplacement,
      someU_eq_some, addU_eq_some, mulU_eq_some, addO_eq_some, addOO_eq_some, divO_eq_some two] <;>
    (constructor
     · intro h
       first
         | omega
         | (obtain ⟨b, hb, h1, h2⟩ := h; omega)
         | (obtain ⟨a, b, ⟨a', ha', h3, h4⟩, ⟨b', hb', h5⟩, h1, h2⟩ := h; omega)
     · intro h
       first
         | omega
         | exact ⟨_, ⟨rfl, by omega⟩, by omega, by omega⟩
         | exact ⟨_, _, ⟨_, ⟨rfl, by omega⟩, rfl, by omega⟩, ⟨_, ⟨rfl, by omega⟩, rfl⟩, by omega, by omega⟩)

theorem encMaxNoRepl_some (utf16 : Bool) (v : Gen.Variant) (n Q : Nat) (hn : n ≤ usizeMax)
    (h : encMaxNoRepl utf16 v n = some Q) : Q = encMaxNat utf16 v n ∧ Q ≤ usizeMax := by
  have := (encMaxNoRepl_eq_some utf16 v n Q hn).mp h
  exact ⟨this.1, this.1 ▸ this.2⟩

/-- the value does not depend on the `usize` hypothesis (it is only needed for `Q ≤ usizeMax`
of the formulas that return their argument unchanged) -/
theorem encMaxNoRepl_value (utf16 : Bool) (v : Gen.Variant) (n Q : Nat)
    (h : encMaxNoRepl utf16 v n = some Q) : Q = encMaxNat utf16 v n := by
  have two : (2 : Nat) ≠ 0 := by decide
  revert h
  cases utf16 <;> cases v <;>
    simp only [encMaxNoRepl, encMaxNat, if_true, Bool.false_eq_true, if_false,
      singleByteEncMaxBufferLengthFromUtf16WithoutReplacement, singleByteEncMaxBufferLengthFromUtf8WithoutReplacement,
      userDefinedEncMaxBufferLengthFromUtf16WithoutReplacement, userDefinedEncMaxBufferLengthFromUtf8WithoutReplacement,
      gbEncMaxBufferLengthFromUtf16WithoutReplacement, gbEncMaxBufferLengthFromUtf8WithoutReplacement,
      big5EncMaxBufferLengthFromUtf16WithoutReplacement, big5EncMaxBufferLengthFromUtf8WithoutReplacement,
      eucJpEncMaxBufferLengthFromUtf16WithoutReplacement, eucJpEncMaxBufferLengthFromUtf8WithoutReplacement,
      shiftJisEncMaxBufferLengthFromUtf16WithoutReplacement, shiftJisEncMaxBufferLengthFromUtf8WithoutReplacement,
      eucKrEncMaxBufferLengthFromUtf16WithoutReplacement, eucKrEncMaxBufferLengthFromUtf8WithoutReplacement,
      iso2022JpEncMaxBufferLengthFromUtf16WithoutReplacement, iso2022JpEncMaxBufferLengthFromUtf8WithoutReplacement,
      utf8EncMaxBufferLengthFromUtf16WithoutReplacement, utf8EncMaxBufferLengthFromUtf8WithoutReplacement,
      someU_eq_some, addU_eq_some, mulU_eq_some, addO_eq_some, addOO_eq_some, divO_eq_some two] <;>
    intro h <;>
    first
      | omega
      | (obtain ⟨b, hb, h1, h2⟩ := h; omega)
      | (obtain ⟨a, b, ⟨a', ha', h3, h4⟩, ⟨b', hb', h5⟩, h1, h2⟩ := h; omega)

/-- **no wrapped numbers (`…_if_no_unmappables`)**: `NCR_EXTRA` is added with a checked addition
unless the encoder can encode everything. -/
theorem encMaxIfNoUnmappables_eq_some (utf16 : Bool) (v : Gen.Variant) (n Q : Nat) :
    encMaxIfNoUnmappables utf16 v n = some Q ↔
      ∃ R, encMaxNoRepl utf16 v n = some R ∧
        Q = (if canEncodeEverything v then 0 else Gen.ncrExtra) + R ∧
        (if canEncodeEverything v then 0 else Gen.ncrExtra) + R ≤ usizeMax := by
  unfold encMaxIfNoUnmappables
  exact addO_eq_some

/-- natural-number value of `Encoder::max_buffer_length_from_utf{8,16}_if_no_unmappables(n)` -/
def encMaxIfNoUnmappablesNat (utf16 : Bool) (v : Gen.Variant) (n : Nat) : Nat :=
  (if canEncodeEverything v then 0 else Gen.ncrExtra) + encMaxNat utf16 v n

theorem encMaxIfNoUnmappables_exact (utf16 : Bool) (v : Gen.Variant) (n Q : Nat) (hn : n ≤ usizeMax) :
    encMaxIfNoUnmappables utf16 v n = some Q ↔
      (Q = encMaxIfNoUnmappablesNat utf16 v n ∧ encMaxIfNoUnmappablesNat utf16 v n ≤ usizeMax) := by
  rw [encMaxIfNoUnmappables_eq_some]
  unfold encMaxIfNoUnmappablesNat
  constructor
  · rintro ⟨R, hR, hQ, hle⟩
    have := (encMaxNoRepl_eq_some utf16 v n R hn).mp hR
    rw [← this.1]; exact ⟨hQ, hle⟩
  · rintro ⟨hQ, hle⟩
    refine ⟨encMaxNat utf16 v n, (encMaxNoRepl_eq_some utf16 v n _ hn).mpr ⟨rfl, by omega⟩, hQ, hle⟩

end EncodingRs.Lemmas.EncMaxLenArith
