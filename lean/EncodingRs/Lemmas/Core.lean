import EncodingRs.Model.Core
/-! Generic lemmas about the streaming-decoder model (G1 … G5 of DESIGN.md 3.2). -/
namespace EncodingRs.Lemmas.Core
open EncodingRs.Model

variable (F : Fam) (k : Sink)

theorem flush_none {s : F.σ} (h : F.pend s = none) : flushSt F s = s ∧ flushEv F s = [] := by
  simp [flushSt, flushEv, h]

theorem ref_nil (s : F.σ) (pos : Nat) (hp : F.pend s = none) :
    ref F s [] pos = match F.eof s with
      | some (e, s2) => mkErr pos e :: ref F s2 [] pos
      | none => [] := by
  obtain ⟨hf1, hf2⟩ := flush_none F hp
  rw [ref]
  simp only [hf2, List.nil_append]
  split
  · next e s2 h => rw [hf1] at h; simp [h]
  · next h => rw [hf1] at h; simp [h]

theorem ref_cons (s : F.σ) (b : Nat) (rest : List Nat) (pos : Nat) (hp : F.pend s = none) :
    ref F s (b :: rest) pos =
      if (F.feed s b).unread = true then
        (F.feed s b).out.map Ev.cp ++ errEv pos (F.feed s b).err ++ ref F (F.feed s b).st (b :: rest) pos
      else
        (F.feed s b).out.map Ev.cp ++ errEv (pos+1) (F.feed s b).err ++ ref F (F.feed s b).st rest (pos+1) := by
  obtain ⟨hf1, hf2⟩ := flush_none F hp
  rw [ref]
  simp only [hf1, hf2, List.nil_append]
  split <;> simp_all

/-- G1 for the main loop. -/
theorem run_sound (L : Laws F) (last : Bool) :
    ∀ (src : List Nat) (s : F.σ) (budget : Budget) (pos : Nat) (rest : List Nat),
      F.pend s = none → (last = true → rest = []) →
      evs (run F k last s src budget) pos
        ++ ref F (run F k last s src budget).st
            (src.drop (run F k last s src budget).read ++ rest)
            (pos + (run F k last s src budget).read)
        = ref F s (src ++ rest) pos := by
  intro src
  induction src with
  | nil =>
    intro s budget pos rest hp hl
    cases last with
    | false => simp [run, evs, resEv]
    | true =>
      have : rest = [] := hl rfl
      subst this
      simp only [run, if_true]
      cases h : F.eof s with
      | none => simp [evs, resEv, ref_nil F s pos hp, h]
      | some p =>
        obtain ⟨e, s'⟩ := p
        simp only
        by_cases hz : budget.isZero = true
        · simp [hz, evs, resEv]
        · simp only [hz, Bool.false_eq_true, if_false, evs, resEv, List.map_nil, List.nil_append,
            Nat.add_zero, List.drop_nil, List.append_nil, List.cons_append]
          rw [ref_nil F s pos hp, h]
  | cons b tl ih =>
    intro s budget pos rest hp hl
    rw [run]
    cases hstop : stopHere F k s b tl budget with
    | some r =>
      simp only
      -- either an OutputFull stop (nothing happened) or the look-ahead error
      cases budget with
      | unlimited => simp [stopHere] at hstop
      | full n =>
        simp only [stopHere] at hstop
        split at hstop
        · cases hstop; simp [evs, resEv]
        · cases hstop
      | altAny =>
        simp only [stopHere] at hstop
        cases halt : F.alt s (b :: tl) with
        | none => simp [halt] at hstop
        | some p =>
          obtain ⟨m, r'⟩ := p
          obtain ⟨hm, e, he, hsound⟩ := L.alt_sound s (b :: tl) m r' hp halt
          simp only [halt, he] at hstop
          cases hstop
          simp only [evs, resEv, List.append_assoc, List.cons_append, List.nil_append]
          exact hsound rest pos
    | none =>
      simp only
      cases hE : (F.feed s b).err with
      | none =>
        have hu := L.noerr_unread s b hE
        have hp' := L.pend_err s b hp hE
        have IH := ih (F.feed s b).st budget.dec (pos+1) rest hp' hl
        simp only [evs, List.map_append, List.append_assoc, List.drop_succ_cons, List.cons_append] at IH ⊢
        rw [ref_cons F s b (tl ++ rest) pos hp]
        simp only [hu, Bool.false_eq_true, if_false, hE, errEv, List.append_nil]
        rw [← IH]
        simp only [List.append_assoc, Nat.add_assoc, Nat.add_comm 1]
      | some e =>
        cases hU : (F.feed s b).unread with
        | false =>
          simp only [evs, resEv, Bool.false_eq_true, if_false, List.cons_append, List.drop_succ_cons,
            List.drop_zero]
          rw [ref_cons F s b (tl ++ rest) pos hp]
          simp [hU, hE, errEv, List.append_assoc]
        | true =>
          simp only [evs, resEv, if_true, List.cons_append, List.drop_zero, Nat.add_zero]
          rw [ref_cons F s b (tl ++ rest) pos hp]
          simp [hU, hE, errEv, List.append_assoc]

theorem ref_flush' (s : F.σ) (o : List Nat) (s' : F.σ) (stream : List Nat) (pos : Nat)
    (hp' : F.pend s' = none) (h : F.pend s = some (o, s')) :
    ref F s stream pos = o.map Ev.cp ++ ref F s' stream pos := by
  obtain ⟨hf1, hf2⟩ := flush_none F hp'
  have e1 : flushSt F s = s' := by simp [flushSt, h]
  have e2 : flushEv F s = o.map Ev.cp := by simp [flushEv, h]
  cases stream with
  | nil =>
    rw [ref, ref_nil F s' pos hp']
    simp only [e2]
    split
    · next e s2 hh => rw [e1] at hh; simp [hh]
    · next hh => rw [e1] at hh; simp [hh]
  | cons b rest =>
    rw [ref, ref_cons F s' b rest pos hp']
    simp only [e1, e2]
    split <;> simp_all [List.append_assoc]

theorem ref_flush (s : F.σ) (o : List Nat) (s' : F.σ) (stream : List Nat) (pos : Nat)
    (L : Laws F) (h : F.pend s = some (o, s')) :
    ref F s stream pos = o.map Ev.cp ++ ref F s' stream pos :=
  ref_flush' F s o s' stream pos (L.pend_once s o s' h) h

/-- **G1 `call_sound`**: whatever the stop policy, the events of a call followed by
the reference semantics of the rest of the stream are the reference semantics
of the stream. -/
theorem call_sound (L : Laws F) (last : Bool) (src : List Nat) (s : F.σ) (budget : Budget)
    (pos : Nat) (rest : List Nat) (hl : last = true → rest = []) :
    evs (call F k s src last budget) pos
      ++ ref F (call F k s src last budget).st
          (src.drop (call F k s src last budget).read ++ rest)
          (pos + (call F k s src last budget).read)
      = ref F s (src ++ rest) pos := by
  unfold call
  cases hp : F.pend s with
  | none => exact run_sound F k L last src s budget pos rest hp hl
  | some p =>
    obtain ⟨o, s'⟩ := p
    simp only
    by_cases hz : budget.isZero = true
    · simp [hz, evs, resEv]
    · simp only [hz, Bool.false_eq_true, if_false]
      have hp' := L.pend_once s o s' hp
      have := run_sound F k L last src s' budget.dec pos rest hp' hl
      rw [ref_flush F s o s' (src ++ rest) pos L hp, ← this]
      simp [evs, List.append_assoc]

/-- the state after a call has no delayed output unless the call ended in an error
(or did nothing) — what lets the next call's flush be matched by `ref` -/
theorem run_read_le (last : Bool) : ∀ (src : List Nat) (s : F.σ) (budget : Budget),
    (∀ s src m r, F.alt s src = some (m, r) → m ≤ src.length) →
    (run F k last s src budget).read ≤ src.length := by
  intro src
  induction src with
  | nil => intro s budget _; simp only [run]; split <;> (try split) <;> (try split) <;> simp
  | cons b tl ih =>
    intro s budget halt
    rw [run]
    cases hstop : stopHere F k s b tl budget with
    | some r =>
      simp only
      cases budget with
      | unlimited => simp [stopHere] at hstop
      | full n =>
        simp only [stopHere] at hstop
        split at hstop
        · cases hstop; simp
        · cases hstop
      | altAny =>
        simp only [stopHere] at hstop
        cases ha : F.alt s (b :: tl) with
        | none => simp [ha] at hstop
        | some p =>
          obtain ⟨m, r'⟩ := p
          have := halt s (b :: tl) m r' ha
          simp only [ha] at hstop
          split at hstop
          · cases hstop; exact this
          · cases hstop
    | none =>
      simp only
      cases hE : (F.feed s b).err with
      | none =>
        have := ih (F.feed s b).st budget.dec halt
        simp only [List.length_cons]; omega
      | some e =>
        simp only [List.length_cons]
        split <;> omega

/-- `InputEmpty` means the whole source was consumed. -/
theorem run_inputEmpty (last : Bool) : ∀ (src : List Nat) (s : F.σ) (budget : Budget),
    (run F k last s src budget).res = .inputEmpty → (run F k last s src budget).read = src.length := by
  intro src
  induction src with
  | nil => intro s budget _; simp only [run]; split <;> (try split) <;> (try split) <;> simp
  | cons b tl ih =>
    intro s budget
    rw [run]
    cases hstop : stopHere F k s b tl budget with
    | some r =>
      simp only
      cases budget with
      | unlimited => simp [stopHere] at hstop
      | full n =>
        simp only [stopHere] at hstop
        split at hstop
        · cases hstop; simp
        · cases hstop
      | altAny =>
        simp only [stopHere] at hstop
        cases ha : F.alt s (b :: tl) with
        | none => simp [ha] at hstop
        | some p =>
          obtain ⟨m, r'⟩ := p
          simp only [ha] at hstop
          split at hstop
          · cases hstop; simp
          · cases hstop
    | none =>
      simp only
      cases hE : (F.feed s b).err with
      | none =>
        intro h
        have := ih (F.feed s b).st budget.dec h
        simp only [List.length_cons]; omega
      | some e => simp

end EncodingRs.Lemmas.Core

namespace EncodingRs.Lemmas.Core
open EncodingRs.Model
variable (F : Fam) (k : Sink)

/-- after a `last` call that returned `InputEmpty` nothing is left to report -/
theorem run_final (L : Laws F) : ∀ (src : List Nat) (s : F.σ) (budget : Budget),
    F.pend s = none → (run F k true s src budget).res = .inputEmpty →
    F.eof (run F k true s src budget).st = none ∧ F.pend (run F k true s src budget).st = none := by
  intro src
  induction src with
  | nil =>
    intro s budget hp h
    simp only [run, if_true] at h ⊢
    cases he : F.eof s with
    | none => simp [he, hp]
    | some p =>
      obtain ⟨e, s'⟩ := p
      simp only [he] at h
      split at h <;> cases h
  | cons b tl ih =>
    intro s budget hp h
    rw [run] at h ⊢
    cases hstop : stopHere F k s b tl budget with
    | some r =>
      simp only [hstop] at h
      cases budget with
      | unlimited => simp [stopHere] at hstop
      | full n =>
        simp only [stopHere] at hstop
        split at hstop
        · cases hstop; cases h
        · cases hstop
      | altAny =>
        simp only [stopHere] at hstop
        cases ha : F.alt s (b :: tl) with
        | none => simp [ha] at hstop
        | some p =>
          obtain ⟨m, r'⟩ := p
          simp only [ha] at hstop
          split at hstop
          · cases hstop; cases h
          · cases hstop
    | none =>
      simp only [hstop] at h ⊢
      cases hE : (F.feed s b).err with
      | none =>
        simp only [hE] at h ⊢
        exact ih (F.feed s b).st budget.dec (L.pend_err s b hp hE) h
      | some e => simp only [hE] at h; cases h

theorem call_final (L : Laws F) (src : List Nat) (s : F.σ) (budget : Budget)
    (h : (call F k s src true budget).res = .inputEmpty) :
    ref F (call F k s src true budget).st [] ((call F k s src true budget).read) = [] := by
  have key : F.eof (call F k s src true budget).st = none ∧ F.pend (call F k s src true budget).st = none := by
    unfold call at h ⊢
    cases hp : F.pend s with
    | none => simp only [hp] at h ⊢; exact run_final F k L src s budget hp h
    | some p =>
      obtain ⟨o, s'⟩ := p
      simp only [hp] at h ⊢
      by_cases hz : budget.isZero = true
      · simp [hz] at h
      · simp only [hz, Bool.false_eq_true, if_false] at h ⊢
        exact run_final F k L src s' budget.dec (L.pend_once s o s' hp) h
  rw [ref_nil F _ _ key.2, key.1]

theorem call_read_le (src : List Nat) (s : F.σ) (last : Bool) (budget : Budget)
    (halt : ∀ s src m r, F.alt s src = some (m, r) → m ≤ src.length) :
    (call F k s src last budget).read ≤ src.length := by
  unfold call
  cases F.pend s with
  | none => exact run_read_le F k last src s budget halt
  | some p =>
    obtain ⟨o, s'⟩ := p
    simp only
    split
    · simp
    · exact run_read_le F k last src s' budget.dec halt

theorem call_inputEmpty (src : List Nat) (s : F.σ) (last : Bool) (budget : Budget)
    (h : (call F k s src last budget).res = .inputEmpty) :
    (call F k s src last budget).read = src.length := by
  unfold call at h ⊢
  cases hp : F.pend s with
  | none => simp only [hp] at h ⊢; exact run_inputEmpty F k last src s budget h
  | some p =>
    obtain ⟨o, s'⟩ := p
    simp only [hp] at h ⊢
    split at h
    · cases h
    · rename_i hz; simp only [hz]; exact run_inputEmpty F k last src s' budget.dec h

end EncodingRs.Lemmas.Core

namespace EncodingRs.Lemmas.Core
open EncodingRs.Model
variable (F : Fam) (k : Sink)

/-- a non-`last` call that returns `OutputFull` stopped before a byte of the source -/
theorem run_outputFull_lt : ∀ (src : List Nat) (s : F.σ) (budget : Budget),
    (run F k false s src budget).res = .outputFull → (run F k false s src budget).read < src.length := by
  intro src
  induction src with
  | nil => intro s budget h; simp [run] at h
  | cons b tl ih =>
    intro s budget h
    rw [run] at h ⊢
    cases hstop : stopHere F k s b tl budget with
    | some r =>
      simp only [hstop] at h ⊢
      cases budget with
      | unlimited => simp [stopHere] at hstop
      | full n =>
        simp only [stopHere] at hstop
        split at hstop
        · cases hstop; simp
        · cases hstop
      | altAny =>
        simp only [stopHere] at hstop
        cases ha : F.alt s (b :: tl) with
        | none => simp [ha] at hstop
        | some p =>
          obtain ⟨m, r'⟩ := p
          simp only [ha] at hstop
          split at hstop
          · cases hstop; cases h
          · cases hstop
    | none =>
      simp only [hstop] at h ⊢
      cases hE : (F.feed s b).err with
      | none =>
        simp only [hE] at h ⊢
        have := ih _ _ h
        simp only [List.length_cons]; omega
      | some e => simp only [hE] at h; cases h

theorem call_outputFull_lt (src : List Nat) (s : F.σ) (budget : Budget)
    (h : (call F k s src false budget).res = .outputFull) (hne : src ≠ []) :
    (call F k s src false budget).read < src.length := by
  unfold call at h ⊢
  cases hp : F.pend s with
  | none => simp only [hp] at h ⊢; exact run_outputFull_lt F k src s budget h
  | some p =>
    obtain ⟨o, s'⟩ := p
    simp only [hp] at h ⊢
    split
    · cases src with
      | nil => exact absurd rfl hne
      | cons _ _ => simp
    · rename_i hz; simp only [hz] at h; exact run_outputFull_lt F k src s' budget.dec h

end EncodingRs.Lemmas.Core
