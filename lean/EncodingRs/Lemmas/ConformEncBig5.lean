import EncodingRs.Lemmas.ConformEncBig5R0
import EncodingRs.Lemmas.ConformEncBig5R1
import EncodingRs.Lemmas.ConformEncBig5R2
import EncodingRs.Lemmas.ConformEncBig5R3
import EncodingRs.Lemmas.ConformEncBig5R4
import EncodingRs.Lemmas.ConformEncBig5R5
/-!
# C03: the Big5 encoder of the model is the Standard's Big5 encoder, for every code point

Complete evaluation over all code points `< 0x110000` (`native_decide`): model over the
tables regenerated from `/repo/src/data.rs`, Standard over the vendored index Big5 with the
"index Big5 pointer" rules (pointers below (0xA1−0x81)·157 excluded, last pointer for six
code points).
-/
namespace EncodingRs.Lemmas.ConformEnc
open EncodingRs EncodingRs.Model EncodingRs.Spec.Encode

/-- `big5Check` holds for every code point (the ranges of `ConformEncBig5R*.lean` together) -/
theorem big5_check (c : Nat) (hc : c < 0x110000) : big5Check c = true := by
  by_cases h0 : c < 0x3400
  · exact allFrom_spec _ _ _ big5_check_r0 c (by omega) (by omega)
  by_cases h1 : c < 0x6800
  · exact allFrom_spec _ _ _ big5_check_r1 c (by omega) (by omega)
  by_cases h2 : c < 0x9C00
  · exact allFrom_spec _ _ _ big5_check_r2 c (by omega) (by omega)
  by_cases h3 : c < 0xD000
  · exact allFrom_spec _ _ _ big5_check_r3 c (by omega) (by omega)
  by_cases h4 : c < 0x10000
  · exact allFrom_spec _ _ _ big5_check_r4 c (by omega) (by omega)
  exact allFrom_spec _ _ _ big5_check_r5 c (by omega) (by omega)

/-- per-character conformance, Big5 -/
theorem big5_conforms (c : Nat) (hc : c < 0x110000) : big5 c = resOf (big5EncodeChar c) c := by
  have h := big5_check c hc
  unfold big5
  rw [big5_ptr]
  exact of_decide_eq_true h

end EncodingRs.Lemmas.ConformEnc
