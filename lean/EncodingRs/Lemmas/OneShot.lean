import EncodingRs.Model.OneShot
import EncodingRs.Lemmas.FamLaws
import EncodingRs.Lemmas.Valid
import EncodingRs.Thm.C09
import EncodingRs.Thm.C19
/-! Lemmas for C11 (one-shot API): error flag of the replacement loop, the grow
loop of `decode_without_bom_handling`, the validated prefix decodes to itself. -/
namespace EncodingRs.Lemmas.OneShot
open EncodingRs EncodingRs.Model EncodingRs.Model.OneShot EncodingRs.Lemmas.Core EncodingRs.Lemmas.FamLaws
open EncodingRs.Thm.C02 EncodingRs.Thm.C09

/-! ### `hadErrors` of event lists -/

theorem hadErrors_append (a b : List Ev) : hadErrors (a ++ b) = (hadErrors a || hadErrors b) := by
  induction a with
  | nil => simp [hadErrors]
  | cons e t ih =>
    cases e with
    | cp c => simp [hadErrors, ih]
    | err s l => simp [hadErrors]

theorem hadErrors_cps (l : List Nat) : hadErrors (l.map Ev.cp) = false := by
  induction l with
  | nil => rfl
  | cons c t ih => simp [hadErrors, ih]

theorem hadErrors_evs {σ} (r : CallRes σ) (pos : Nat) :
    hadErrors (evs r pos) = (match r.res with | .malformed _ _ => true | _ => false) := by
  unfold evs
  rw [hadErrors_append, hadErrors_cps]
  cases r.res <;> simp [resEv, hadErrors, mkErr]

/-- without errors the replaced and the unreplaced text coincide -/
theorem textOf_noerr (l : List Ev) (h : hadErrors l = false) : textOf true l = textOf false l := by
  induction l with
  | nil => rfl
  | cons e t ih =>
    cases e with
    | cp c => simp only [hadErrors] at h; simp [textOf, ih h]
    | err s l => simp [hadErrors] at h

/-! ### the with-replacement loop -/

/-- the flag of the replacement loop, or-ed with the flag of what is left, is the flag of the stream -/
theorem replLoop_hadErrors (F : Fam) (k : Sink) (L : Laws F) (last : Bool) :
    ∀ (fuel : Nat) (s : F.σ) (src : List Nat) (budgets : List Budget) (pos : Nat) (rest : List Nat)
      (t : ReplRes F.σ), (last = true → rest = []) →
      replLoop F k last fuel s src budgets = some t →
      (t.hadErrors || hadErrors (ref F t.st (src.drop t.read ++ rest) (pos + t.read)))
        = hadErrors (ref F s (src ++ rest) pos) := by
  intro fuel
  induction fuel with
  | zero => intro s src budgets pos rest t _ h; simp [replLoop] at h
  | succ fuel ih =>
    intro s src budgets pos rest t hl h
    rw [replLoop] at h
    have hs := call_sound F k L last src s (budgets.headD .unlimited) pos rest hl
    generalize hr : call F k s src last (budgets.headD .unlimited) = r at h hs
    unfold replStep at h
    cases hres : r.res with
    | malformed l a =>
      simp only [hres] at h
      cases hrec : replLoop F k last fuel r.st (src.drop r.read) budgets.tail with
      | none => rw [hrec] at h; cases h
      | some t' =>
        rw [hrec] at h
        simp only [Option.some.injEq] at h
        subst h
        rw [← hs, hadErrors_append, hadErrors_evs, hres]
        simp
    | inputEmpty =>
      simp only [hres, Option.some.injEq] at h
      subst h
      simp only
      rw [← hs, hadErrors_append, hadErrors_evs, hres]
    | outputFull =>
      simp only [hres, Option.some.injEq] at h
      subst h
      simp only
      rw [← hs, hadErrors_append, hadErrors_evs, hres]

/-- nothing is left to report in a state with no delayed output and no end-of-stream error -/
theorem ref_nil_of (F : Fam) (s : F.σ) (pos : Nat) (hp : F.pend s = none) (he : F.eof s = none) :
    ref F s [] pos = [] := by
  rw [ref_nil F s pos hp, he]

/-- the state after a `last` call that returned `InputEmpty` -/
theorem call_final_state (F : Fam) (k : Sink) (L : Laws F) (src : List Nat) (s : F.σ) (budget : Budget)
    (h : (call F k s src true budget).res = .inputEmpty) :
    F.eof (call F k s src true budget).st = none ∧ F.pend (call F k s src true budget).st = none := by
  unfold call at h ⊢
  cases hp : F.pend s with
  | none => simp only [hp] at h ⊢; exact run_final F k L src s budget hp h
  | some p =>
    obtain ⟨o, s'⟩ := p
    simp only [hp] at h ⊢
    by_cases hz : budget.isZero = true
    · simp [hz] at h
    · simp only [hz, Bool.false_eq_true, if_false] at h ⊢
      exact run_final F k L src s' budget.dec (L.pend_once s o s' hp) h

/-- a `last` replacement loop that ends with `InputEmpty` consumed everything and
leaves nothing to report -/
theorem replLoop_final (F : Fam) (k : Sink) (L : Laws F) :
    ∀ (fuel : Nat) (s : F.σ) (src : List Nat) (budgets : List Budget) (t : ReplRes F.σ),
      replLoop F k true fuel s src budgets = some t → t.res = .inputEmpty →
      src.drop t.read = [] ∧ ∀ pos, ref F t.st [] pos = [] := by
  intro fuel
  induction fuel with
  | zero => intro s src budgets t h; simp [replLoop] at h
  | succ fuel ih =>
    intro s src budgets t h hie
    rw [replLoop] at h
    have hfin := call_final_state F k L src s (budgets.headD .unlimited)
    have hrd := call_inputEmpty F k src s true (budgets.headD .unlimited)
    generalize hr : call F k s src true (budgets.headD .unlimited) = r at h hfin hrd
    unfold replStep at h
    cases hres : r.res with
    | malformed l a =>
      simp only [hres] at h
      cases hrec : replLoop F k true fuel r.st (src.drop r.read) budgets.tail with
      | none => rw [hrec] at h; cases h
      | some t' =>
        rw [hrec] at h
        simp only [Option.some.injEq] at h
        subst h
        have := ih _ _ _ t' hrec hie
        simp only [List.drop_drop] at this
        refine ⟨?_, this.2⟩
        have e : r.read + t'.read = t'.read + r.read := Nat.add_comm _ _
        simp only [e]
        rw [Nat.add_comm]; exact this.1
    | inputEmpty =>
      simp only [hres, Option.some.injEq] at h
      subst h
      simp only
      have h1 := hrd hres
      have h2 := hfin hres
      refine ⟨by rw [h1]; exact List.drop_length, fun pos => ref_nil_of F _ pos h2.2 h2.1⟩
    | outputFull =>
      simp only [hres, Option.some.injEq] at h
      subst h
      simp only at hie
      cases hie

/-- **the grow loop of `decode_without_bom_handling`**: for every stop policy of
every inner call and every number of `OutputFull` rounds, what it appends is the
replaced reference text of the stream it was given and its flag is "the stream
contains a malformed sequence" -/
theorem growLoop_sound (F : Fam) (L : Laws F) (ifuel : Nat) :
    ∀ (fuel : Nat) (s : F.σ) (src : List Nat) (bs : List (List Budget)) (pos : Nat) (o : List Nat) (e : Bool),
      growLoop F ifuel fuel s src bs = some (o, e) →
      o = textOf true (ref F s src pos) ∧ e = hadErrors (ref F s src pos) := by
  intro fuel
  induction fuel with
  | zero => intro s src bs pos o e h; simp [growLoop] at h
  | succ fuel ih =>
    intro s src bs pos o e h
    rw [growLoop] at h
    generalize hrl : replLoop F .utf8 true ifuel s src (bs.headD []) = rl at h
    cases rl with
    | none => simp at h
    | some t =>
      simp only at h
      have hT := replLoop_sound F .utf8 L true ifuel s src (bs.headD []) pos [] t (fun _ => rfl) hrl
      have hE := replLoop_hadErrors F .utf8 L true ifuel s src (bs.headD []) pos [] t (fun _ => rfl) hrl
      simp only [List.append_nil] at hT hE
      cases hres : t.res with
      | inputEmpty =>
        simp only [hres, Option.some.injEq, Prod.mk.injEq] at h
        obtain ⟨h1, h2⟩ := h
        obtain ⟨hd, hn⟩ := replLoop_final F .utf8 L ifuel s src (bs.headD []) t hrl hres
        rw [hd, hn] at hT hE
        simp only [textOf, List.append_nil, hadErrors, Bool.or_false] at hT hE
        exact ⟨by rw [← h1, hT], by rw [← h2, hE]⟩
      | outputFull =>
        simp only [hres] at h
        cases hrec : growLoop F ifuel fuel t.st (src.drop t.read) bs.tail with
        | none => simp [hrec] at h
        | some p =>
          obtain ⟨o', e'⟩ := p
          simp only [hrec, Option.some.injEq, Prod.mk.injEq] at h
          obtain ⟨h1, h2⟩ := h
          obtain ⟨i1, i2⟩ := ih _ _ _ (pos + t.read) o' e' hrec
          refine ⟨?_, ?_⟩
          · rw [← h1, i1, hT]
          · rw [← h2, i2, hE]
      | malformed l a => simp [hres] at h

/-! ### the initial state of every variant decoder -/

theorem init_pend (v : Gen.Variant) : (famOfVariant v).pend (famOfVariant v).init = none :=
  (famOfVariant_laws v).init_pend

theorem init_eof (v : Gen.Variant) : (famOfVariant v).eof (famOfVariant v).init = none := by
  cases v <;> rfl

theorem ref_init_nil (v : Gen.Variant) (pos : Nat) : ref (famOfVariant v) (famOfVariant v).init [] pos = [] :=
  ref_nil_of _ _ pos (init_pend v) (init_eof v)

/-! ### ASCII-type validators: the bytes they let through pass the decoder unchanged -/

open EncodingRs.Thm.C19

/-- the bytes the validator chosen for `v` accepts (`v` not UTF-8) -/
def passPred (v : Gen.Variant) (b : Nat) : Bool :=
  if v = .iso2022Jp then decide (b < 0x80 ∧ b ≠ 0x0E ∧ b ≠ 0x0F ∧ b ≠ 0x1B) else decide (b < 0x80)

theorem passPred_ascii (v : Gen.Variant) (b : Nat) (h : passPred v b = true) : b < 0x80 := by
  unfold passPred at h
  split at h
  · simp only [decide_eq_true_eq] at h; exact h.1
  · simpa using h

theorem singleByte_ascii (t : Array Nat) (b : Nat) (h : b < 0x80) :
    (singleByteFam t).feed () b = ⟨(), [b], none, false⟩ := by
  show singleByteFeed t () b = _
  simp [singleByteFeed, h, FeedRes.ok]; rfl

theorem pass_feed (v : Gen.Variant) (hv : isPotentiallyBorrowable v = true) (b : Nat) (h : passPred v b = true) :
    (famOfVariant v).feed (famOfVariant v).init b = ⟨(famOfVariant v).init, [b], none, false⟩ := by
  cases v with
  | singleByte t a c d => exact singleByte_ascii _ b (passPred_ascii _ b h)
  | utf8 => exact utf8_pass b (passPred_ascii _ b h)
  | gbk => exact gb_pass b (passPred_ascii _ b h)
  | gb18030 => exact gb_pass b (passPred_ascii _ b h)
  | big5 => exact twoByte_pass _ _ _ b (passPred_ascii _ b h)
  | eucJp => exact eucJp_pass b (passPred_ascii _ b h)
  | iso2022Jp => exact iso_pass b (by simpa [passPred] using h)
  | shiftJis => exact twoByte_pass _ _ _ b (passPred_ascii _ b h)
  | eucKr => exact twoByte_pass _ _ _ b (passPred_ascii _ b h)
  | replacement => simp [isPotentiallyBorrowable] at hv
  | utf16Be => simp [isPotentiallyBorrowable] at hv
  | utf16Le => simp [isPotentiallyBorrowable] at hv
  | userDefined => exact userDefined_pass b (passPred_ascii _ b h)

theorem validUpTo_eq_upTo (v : Gen.Variant) (h8 : v ≠ .utf8) (bytes : List Nat) :
    OneShot.validUpTo v bytes = upTo (passPred v) bytes := by
  unfold OneShot.validUpTo
  simp only [h8, if_false]
  by_cases hi : v = .iso2022Jp
  · simp only [hi, if_true]
    rw [iso2022JpAsciiValidUpTo_eq]
    congr 1
  · simp only [hi, if_false]
    rw [asciiValidUpTo_eq]
    congr 1
    funext b
    simp [passPred, hi]

theorem upTo_take_all (P : Nat → Bool) (l : List Nat) : ∀ b ∈ l.take (upTo P l), P b = true := by
  induction l with
  | nil => simp [upTo]
  | cons a r ih =>
    simp only [upTo]
    by_cases ha : P a = true
    · simp only [ha, if_true, List.take_succ_cons, List.mem_cons]
      intro b hb
      cases hb with
      | inl h => rw [h]; exact ha
      | inr h => exact ih b h
    · simp [ha]

theorem upTo_eq_length_iff (P : Nat → Bool) (l : List Nat) : upTo P l = l.length ↔ ∀ b ∈ l, P b = true := by
  induction l with
  | nil => simp [upTo]
  | cons a r ih =>
    simp only [upTo, List.length_cons, List.mem_cons, forall_eq_or_imp]
    by_cases ha : P a = true
    · simp only [ha, if_true, true_and]
      rw [← ih]; omega
    · simp only [ha, Bool.false_eq_true, if_false, false_and, iff_false]
      omega

/-- ASCII bytes are their own `char`s -/
theorem strScalars_ascii (l : List Nat) (h : ∀ b ∈ l, b < 0x80) : strScalars l = l := by
  induction l with
  | nil => rfl
  | cons a r ih =>
    have ha : Spec.wf1 a = true := by
      have := h a List.mem_cons_self
      simp [Spec.wf1]; omega
    rw [strScalars.eq_def]
    simp only [ha, if_true]
    rw [ih (fun b hb => h b (List.mem_cons_of_mem _ hb))]

/-- **prefix identity (ASCII-type validators)**: the validated prefix decodes to itself
from the initial state and leaves the decoder in the initial state -/
theorem ascii_prefix (v : Gen.Variant) (hv : isPotentiallyBorrowable v = true) (h8 : v ≠ .utf8)
    (bytes rest : List Nat) (pos : Nat) :
    ref (famOfVariant v) (famOfVariant v).init (bytes.take (OneShot.validUpTo v bytes) ++ rest) pos
      = (strScalars (bytes.take (OneShot.validUpTo v bytes))).map Ev.cp
        ++ ref (famOfVariant v) (famOfVariant v).init rest (pos + OneShot.validUpTo v bytes) := by
  rw [validUpTo_eq_upTo v h8]
  rw [strScalars_ascii _ (fun b hb => passPred_ascii v b (upTo_take_all _ _ b hb))]
  exact prefix_identity (famOfVariant v) _ (passPred v) (init_pend v) (pass_feed v hv) bytes rest pos

/-! ### UTF-8: a well-formed prefix decodes to its scalar values and returns to the initial state -/

open EncodingRs.Spec EncodingRs.Lemmas.Valid

theorem utf8_ref_ok (s s' : Utf8St) (b : Nat) (out : List Nat) (h : utf8Feed s b = FeedRes.ok s' out)
    (rest : List Nat) (pos : Nat) :
    ref utf8Fam s (b :: rest) pos = out.map Ev.cp ++ ref utf8Fam s' rest (pos + 1) := by
  rw [ref_cons utf8Fam s b rest pos rfl]
  have e : utf8Fam.feed s b = FeedRes.ok s' out := h
  rw [e]
  simp [FeedRes.ok, errEv]

theorem utf8_ref_bad (s s' : Utf8St) (b l a : Nat) (u : Bool) (h : utf8Feed s b = FeedRes.bad s' l a u)
    (rest : List Nat) (pos : Nat) : hadErrors (ref utf8Fam s (b :: rest) pos) = true := by
  rw [ref_cons utf8Fam s b rest pos rfl]
  have e : utf8Fam.feed s b = FeedRes.bad s' l a u := h
  rw [e]
  cases u <;> simp [FeedRes.bad, errEv, hadErrors, mkErr]

theorem utf8_ref_eof (s : Utf8St) (h : s.needed ≠ 0) (pos : Nat) : hadErrors (ref utf8Fam s [] pos) = true := by
  rw [ref_nil utf8Fam s pos rfl]
  have e : utf8Fam.eof s = some ((s.seen + 1, 0), utf8Init) := by
    show (if s.needed ≠ 0 then _ else _) = _
    simp [h]; rfl
  rw [e]
  simp [hadErrors, mkErr]

theorem lead2 (b : Nat) (h : 0xC2 ≤ b ∧ b < 0xE0) :
    utf8Feed utf8Init b = FeedRes.ok ⟨b % 32, 0, 1, 0x80, 0xBF⟩ [] := by
  have h1 : ¬ b < 0x80 := by omega
  have h2 : ¬ b < 0xC2 := by omega
  simp [utf8Feed, utf8Init, h1, h2, h.2]

theorem lead3 (b : Nat) (h : 0xE0 ≤ b ∧ b < 0xF0) :
    utf8Feed utf8Init b = FeedRes.ok ⟨b % 16, 0, 2, if b = 0xE0 then 0xA0 else 0x80, if b = 0xED then 0x9F else 0xBF⟩ [] := by
  have h1 : ¬ b < 0x80 := by omega
  have h2 : ¬ b < 0xC2 := by omega
  have h3 : ¬ b < 0xE0 := by omega
  by_cases e0 : b = 0xE0
  · subst e0; simp [utf8Feed, utf8Init]
  · by_cases ed : b = 0xED
    · subst ed; simp [utf8Feed, utf8Init]
    · simp [utf8Feed, utf8Init, h1, h2, h3, h.2, e0, ed]

theorem lead4 (b : Nat) (h : 0xF0 ≤ b ∧ b < 0xF5) :
    utf8Feed utf8Init b = FeedRes.ok ⟨b % 8, 0, 3, if b = 0xF0 then 0x90 else 0x80, if b = 0xF4 then 0x8F else 0xBF⟩ [] := by
  have h1 : ¬ b < 0x80 := by omega
  have h2 : ¬ b < 0xC2 := by omega
  have h3 : ¬ b < 0xE0 := by omega
  have h4 : ¬ b < 0xF0 := by omega
  by_cases e0 : b = 0xF0
  · subst e0; simp [utf8Feed, utf8Init]
  · by_cases e4 : b = 0xF4
    · subst e4; simp [utf8Feed, utf8Init]
    · simp [utf8Feed, utf8Init, h1, h2, h3, h4, h.2, e0, e4]

theorem leadBad (b : Nat) (h : (0x80 ≤ b ∧ b < 0xC2) ∨ 0xF5 ≤ b) :
    utf8Feed utf8Init b = FeedRes.bad utf8Init 1 0 := by
  have h1 : ¬ b < 0x80 := by omega
  by_cases h2 : b < 0xC2
  · simp [utf8Feed, utf8Init, h1, h2]
  · have h3 : ¬ b < 0xE0 := by omega
    have h4 : ¬ b < 0xF0 := by omega
    have h5 : ¬ b < 0xF5 := by omega
    simp [utf8Feed, utf8Init, h1, h2, h3, h4, h5]

theorem contMid (s : Utf8St) (b : Nat) (hn : s.needed ≠ 0) (hr : s.lower ≤ b ∧ b ≤ s.upper) (hs : s.seen + 1 ≠ s.needed) :
    utf8Feed s b = FeedRes.ok ⟨s.codePoint * 64 + b % 64, s.seen + 1, s.needed, 0x80, 0xBF⟩ [] := by
  simp [utf8Feed, hn, hr.1, hr.2, hs]

theorem contLast (s : Utf8St) (b : Nat) (hn : s.needed ≠ 0) (hr : s.lower ≤ b ∧ b ≤ s.upper) (hs : s.seen + 1 = s.needed) :
    utf8Feed s b = FeedRes.ok utf8Init [s.codePoint * 64 + b % 64] := by
  simp [utf8Feed, hn, hr.1, hr.2, hs]

theorem contBad (s : Utf8St) (b : Nat) (hn : s.needed ≠ 0) (hr : ¬ (s.lower ≤ b ∧ b ≤ s.upper)) :
    utf8Feed s b = FeedRes.bad utf8Init (s.seen + 1) 0 true := by
  simp only [utf8Feed, hn, if_false, hr, not_false_eq_true, if_true]

/-- for a three-byte lead, Table 3-7's second-byte test is the decoder's `lower ..= upper` window -/
theorem second3_window (b0 b1 : Nat) (h : 0xE0 ≤ b0 ∧ b0 < 0xF0) :
    second3Ok b0 b1 = true ↔ ((if b0 = 0xE0 then 0xA0 else 0x80) ≤ b1 ∧ b1 ≤ (if b0 = 0xED then 0x9F else 0xBF)) := by
  simp only [second3Ok, Bool.or_eq_true, Bool.and_eq_true, beq_iff_eq, decide_eq_true_eq]
  by_cases e0 : b0 = 0xE0
  · subst e0; simp
  · by_cases ed : b0 = 0xED
    · subst ed; simp
    · simp only [e0, ed, if_false]; omega

theorem second4_window (b0 b1 : Nat) (h : 0xF0 ≤ b0 ∧ b0 < 0xF5) :
    second4Ok b0 b1 = true ↔ ((if b0 = 0xF0 then 0x90 else 0x80) ≤ b1 ∧ b1 ≤ (if b0 = 0xF4 then 0x8F else 0xBF)) := by
  simp only [second4Ok, Bool.or_eq_true, Bool.and_eq_true, beq_iff_eq, decide_eq_true_eq]
  by_cases e0 : b0 = 0xF0
  · subst e0; simp
  · by_cases e4 : b0 = 0xF4
    · subst e4; simp
    · simp only [e0, e4, if_false]; omega

theorem contMid' (cp seen needed lo hi b : Nat) (hn : needed ≠ 0) (hr : lo ≤ b ∧ b ≤ hi) (hs : seen + 1 ≠ needed) :
    utf8Feed ⟨cp, seen, needed, lo, hi⟩ b = FeedRes.ok ⟨cp * 64 + b % 64, seen + 1, needed, 0x80, 0xBF⟩ [] :=
  contMid ⟨cp, seen, needed, lo, hi⟩ b hn hr hs

theorem contLast' (cp seen needed lo hi b : Nat) (hn : needed ≠ 0) (hr : lo ≤ b ∧ b ≤ hi) (hs : seen + 1 = needed) :
    utf8Feed ⟨cp, seen, needed, lo, hi⟩ b = FeedRes.ok utf8Init [cp * 64 + b % 64] :=
  contLast ⟨cp, seen, needed, lo, hi⟩ b hn hr hs

theorem contBad' (cp seen needed lo hi b : Nat) (hn : needed ≠ 0) (hr : ¬ (lo ≤ b ∧ b ≤ hi)) :
    utf8Feed ⟨cp, seen, needed, lo, hi⟩ b = FeedRes.bad utf8Init (seen + 1) 0 true :=
  contBad ⟨cp, seen, needed, lo, hi⟩ b hn hr

theorem second3_cont (b0 b1 : Nat) (h : second3Ok b0 b1 = true) : 0x80 ≤ b1 ∧ b1 ≤ 0xBF := by
  simp only [second3Ok, Bool.or_eq_true, Bool.and_eq_true, beq_iff_eq, decide_eq_true_eq] at h; omega

theorem second4_cont (b0 b1 : Nat) (h : second4Ok b0 b1 = true) : 0x80 ≤ b1 ∧ b1 ≤ 0xBF := by
  simp only [second4Ok, Bool.or_eq_true, Bool.and_eq_true, beq_iff_eq, decide_eq_true_eq] at h; omega


/-- one well-formed sequence (one row of Table 3-7) from the initial state: its scalar
value, and the decoder is back in the initial state -/
theorem utf8_seq (s : List Nat) (h : wellFormedSeq s = true) (rest : List Nat) (pos : Nat) :
    ref utf8Fam utf8Init (s ++ rest) pos
      = Ev.cp (scalarOfSeq s) :: ref utf8Fam utf8Init rest (pos + s.length) := by
  match s, h with
  | [b0], h =>
    have h1 : b0 < 0x80 := by
      have : wf1 b0 = true := h
      simp [wf1] at this; omega
    show ref utf8Fam utf8Init (b0 :: rest) pos = _
    rw [utf8_ref_ok utf8Init utf8Init b0 [b0] (utf8_pass b0 h1) rest pos]
    rfl
  | [b0, b1], h =>
    have h2 : wf2 b0 b1 = true := h
    have hl := wf2_lead_range b0 b1 h2
    have hc : 0x80 ≤ b1 ∧ b1 ≤ 0xBF := by
      rw [wf2_lead b0 b1 hl] at h2; exact (isCont_iff b1).1 h2
    have t1 := utf8_ref_ok utf8Init _ b0 [] (lead2 b0 ⟨hl.1, by omega⟩) (b1 :: rest) pos
    have t2 := utf8_ref_ok _ _ b1 _ (contLast' (b0 % 32) 0 1 0x80 0xBF b1 (by decide) hc rfl) rest (pos + 1)
    show ref utf8Fam utf8Init (b0 :: b1 :: rest) pos = _
    rw [t1, t2]
    have e : b0 % 32 * 64 + b1 % 64 = (b0 - 0xC0) * 64 + (b1 - 0x80) := by omega
    have es : scalarOfSeq [b0, b1] = (b0 - 0xC0) * 64 + (b1 - 0x80) := rfl
    rw [e, es]
    rfl
  | [b0, b1, b2], h =>
    have h3 : wf3 b0 b1 b2 = true := h
    have hl := wf3_lead_range b0 b1 b2 h3
    have hl' : 0xE0 ≤ b0 ∧ b0 < 0xF0 := ⟨hl.1, by omega⟩
    simp only [wf3, Bool.and_eq_true] at h3
    have hw := (second3_window b0 b1 hl').1 h3.1
    have hc2 := (isCont_iff b2).1 h3.2
    have hb1 := second3_cont b0 b1 h3.1
    have t1 := utf8_ref_ok utf8Init _ b0 [] (lead3 b0 hl') (b1 :: b2 :: rest) pos
    have t2 := utf8_ref_ok _ _ b1 [] (contMid' (b0 % 16) 0 2 _ _ b1 (by decide) hw (by decide)) (b2 :: rest) (pos + 1)
    have t3 := utf8_ref_ok _ _ b2 _ (contLast' (b0 % 16 * 64 + b1 % 64) (0 + 1) 2 0x80 0xBF b2 (by decide) hc2 rfl)
      rest (pos + 1 + 1)
    show ref utf8Fam utf8Init (b0 :: b1 :: b2 :: rest) pos = _
    rw [t1, t2, t3]
    have e : (b0 % 16 * 64 + b1 % 64) * 64 + b2 % 64 = (b0 - 0xE0) * 4096 + (b1 - 0x80) * 64 + (b2 - 0x80) := by omega
    have es : scalarOfSeq [b0, b1, b2] = (b0 - 0xE0) * 4096 + (b1 - 0x80) * 64 + (b2 - 0x80) := rfl
    rw [e, es]
    rfl
  | [b0, b1, b2, b3], h =>
    have h4 : wf4 b0 b1 b2 b3 = true := h
    have hl := wf4_lead_range b0 b1 b2 b3 h4
    have hl' : 0xF0 ≤ b0 ∧ b0 < 0xF5 := ⟨hl.1, by omega⟩
    simp only [wf4, Bool.and_eq_true] at h4
    have hw := (second4_window b0 b1 hl').1 h4.1.1
    have hc2 := (isCont_iff b2).1 h4.1.2
    have hc3 := (isCont_iff b3).1 h4.2
    have hb1 := second4_cont b0 b1 h4.1.1
    have t1 := utf8_ref_ok utf8Init _ b0 [] (lead4 b0 hl') (b1 :: b2 :: b3 :: rest) pos
    have t2 := utf8_ref_ok _ _ b1 [] (contMid' (b0 % 8) 0 3 _ _ b1 (by decide) hw (by decide)) (b2 :: b3 :: rest) (pos + 1)
    have t3 := utf8_ref_ok _ _ b2 [] (contMid' (b0 % 8 * 64 + b1 % 64) (0 + 1) 3 0x80 0xBF b2 (by decide) hc2 (by decide))
      (b3 :: rest) (pos + 1 + 1)
    have t4 := utf8_ref_ok _ _ b3 _
      (contLast' ((b0 % 8 * 64 + b1 % 64) * 64 + b2 % 64) (0 + 1 + 1) 3 0x80 0xBF b3 (by decide) hc3 rfl)
      rest (pos + 1 + 1 + 1)
    show ref utf8Fam utf8Init (b0 :: b1 :: b2 :: b3 :: rest) pos = _
    rw [t1, t2, t3, t4]
    have e : ((b0 % 8 * 64 + b1 % 64) * 64 + b2 % 64) * 64 + b3 % 64
        = (b0 - 0xF0) * 262144 + (b1 - 0x80) * 4096 + (b2 - 0x80) * 64 + (b3 - 0x80) := by omega
    have es : scalarOfSeq [b0, b1, b2, b3]
        = (b0 - 0xF0) * 262144 + (b1 - 0x80) * 4096 + (b2 - 0x80) * 64 + (b3 - 0x80) := rfl
    rw [e, es]
    rfl
  | [], h => simp [wellFormedSeq] at h
  | _ :: _ :: _ :: _ :: _ :: _, h => simp [wellFormedSeq] at h

/-- `strScalars` follows the same prefix-free scan as `Spec.validUpTo` -/
theorem strScalars_seq_append (s x : List Nat) (h : wellFormedSeq s = true) :
    strScalars (s ++ x) = scalarOfSeq s :: strScalars x := by
  match s, h with
  | [b0], h =>
    have h1 : wf1 b0 = true := h
    show strScalars (b0 :: x) = _
    rw [strScalars.eq_def]; simp only [h1, if_true]; rfl
  | [b0, b1], h =>
    have h2 : wf2 b0 b1 = true := h
    have := wf2_lead_range b0 b1 h2
    have n1 := wf1_false b0 (by omega)
    show strScalars (b0 :: b1 :: x) = _
    rw [strScalars.eq_def]; simp only [n1, h2, if_true, Bool.false_eq_true, if_false]
  | [b0, b1, b2], h =>
    have h3 : wf3 b0 b1 b2 = true := h
    have := wf3_lead_range b0 b1 b2 h3
    have n1 := wf1_false b0 (by omega)
    have n2 := wf2_false_lead b0 b1 (by omega)
    show strScalars (b0 :: b1 :: b2 :: x) = _
    rw [strScalars.eq_def]; simp only [n1, n2, h3, if_true, Bool.false_eq_true, if_false]
  | [b0, b1, b2, b3], h =>
    have h4 : wf4 b0 b1 b2 b3 = true := h
    have := wf4_lead_range b0 b1 b2 b3 h4
    have n1 := wf1_false b0 (by omega)
    have n2 := wf2_false_lead b0 b1 (by omega)
    have n3 := wf3_false_lead b0 b1 b2 (Or.inr (by omega))
    show strScalars (b0 :: b1 :: b2 :: b3 :: x) = _
    rw [strScalars.eq_def]; simp only [n1, n2, n3, h4, if_true, Bool.false_eq_true, if_false]
  | [], h => simp [wellFormedSeq] at h
  | _ :: _ :: _ :: _ :: _ :: _, h => simp [wellFormedSeq] at h

/-- **prefix identity (UTF-8)**: a well-formed prefix decodes to its `char`s and
leaves the decoder in the initial state -/
theorem utf8_wf_prefix (p : List Nat) (h : WellFormedUtf8 p) : ∀ (rest : List Nat) (pos : Nat),
    ref utf8Fam utf8Init (p ++ rest) pos
      = (strScalars p).map Ev.cp ++ ref utf8Fam utf8Init rest (pos + p.length) := by
  induction h with
  | nil => intro rest pos; simp [strScalars]
  | cons s r hs _ ih =>
    intro rest pos
    rw [List.append_assoc, utf8_seq s hs, ih rest (pos + s.length), strScalars_seq_append s r hs]
    simp only [List.map_cons, List.cons_append, List.length_append, Nat.add_assoc]

theorem utf8_valid_prefix (bytes rest : List Nat) (pos : Nat) :
    ref utf8Fam utf8Init (bytes.take (Spec.validUpTo bytes) ++ rest) pos
      = (strScalars (bytes.take (Spec.validUpTo bytes))).map Ev.cp
        ++ ref utf8Fam utf8Init rest (pos + Spec.validUpTo bytes) := by
  have h := utf8_wf_prefix _ (validUpTo_prefix_aux _ bytes (Nat.le_refl _)) rest pos
  rw [h, List.length_take, Nat.min_eq_left (validUpTo_le bytes)]

/-- a stream whose first sequence is not well-formed makes the UTF-8 decoder report an error -/
theorem utf8_bad_start (bs : List Nat) (h0 : Spec.validUpTo bs = 0) (hne : bs ≠ []) (pos : Nat) :
    hadErrors (ref utf8Fam utf8Init bs pos) = true := by
  -- no well-formed sequence is a prefix of `bs`
  have hno : ∀ s x, bs = s ++ x → 0 < s.length → wellFormedSeq s = false := by
    intro s x hb hl
    cases hw : wellFormedSeq s with
    | false => rfl
    | true =>
      have := validUpTo_seq_append s x hw
      rw [← hb, h0] at this
      omega
  match bs, hne with
  | b0 :: r, _ =>
    have n1 : wf1 b0 = false := hno [b0] r rfl (by simp)
    have g0 : 0x80 ≤ b0 := by simp [wf1] at n1; omega
    by_cases hbad : (b0 < 0xC2) ∨ 0xF5 ≤ b0
    · exact utf8_ref_bad _ _ b0 _ _ _ (leadBad b0 (by omega)) r pos
    · by_cases hl2 : b0 < 0xE0
      · -- two-byte lead
        have hx : 0xC2 ≤ b0 ∧ b0 < 0xE0 := by omega
        rw [utf8_ref_ok utf8Init _ b0 [] (lead2 b0 hx) r pos]
        simp only [List.map_nil, List.nil_append]
        match r with
        | [] => exact utf8_ref_eof _ (by simp) _
        | b1 :: r1 =>
          have n2 : wf2 b0 b1 = false := hno [b0, b1] r1 rfl (by simp)
          rw [wf2_lead b0 b1 ⟨hx.1, by omega⟩] at n2
          have hc : ¬ (0x80 ≤ b1 ∧ b1 ≤ 0xBF) := by
            intro hc; rw [(isCont_iff b1).2 hc] at n2; cases n2
          exact utf8_ref_bad _ _ b1 _ _ _ (contBad' (b0 % 32) 0 1 0x80 0xBF b1 (by decide) hc) r1 _
      · by_cases hl3 : b0 < 0xF0
        · -- three-byte lead
          have hx : 0xE0 ≤ b0 ∧ b0 < 0xF0 := by omega
          rw [utf8_ref_ok utf8Init _ b0 [] (lead3 b0 hx) r pos]
          simp only [List.map_nil, List.nil_append]
          match r with
          | [] => exact utf8_ref_eof _ (by simp) _
          | b1 :: r1 =>
            by_cases hw : second3Ok b0 b1 = true
            · have hwin := (second3_window b0 b1 hx).1 hw
              rw [utf8_ref_ok _ _ b1 [] (contMid' (b0 % 16) 0 2 _ _ b1 (by decide) hwin (by decide)) r1 (pos + 1)]
              simp only [List.map_nil, List.nil_append]
              match r1 with
              | [] => exact utf8_ref_eof _ (by simp) _
              | b2 :: r2 =>
                have n3 : wf3 b0 b1 b2 = false := hno [b0, b1, b2] r2 rfl (by simp)
                have hc : ¬ (0x80 ≤ b2 ∧ b2 ≤ 0xBF) := by
                  intro hc
                  simp [wf3, hw, (isCont_iff b2).2 hc] at n3
                exact utf8_ref_bad _ _ b2 _ _ _
                  (contBad' (b0 % 16 * 64 + b1 % 64) (0 + 1) 2 0x80 0xBF b2 (by decide) hc) r2 _
            · have hwin : ¬ _ := fun hh => hw ((second3_window b0 b1 hx).2 hh)
              exact utf8_ref_bad _ _ b1 _ _ _ (contBad' (b0 % 16) 0 2 _ _ b1 (by decide) hwin) r1 _
        · -- four-byte lead
          have hx : 0xF0 ≤ b0 ∧ b0 < 0xF5 := by omega
          rw [utf8_ref_ok utf8Init _ b0 [] (lead4 b0 hx) r pos]
          simp only [List.map_nil, List.nil_append]
          match r with
          | [] => exact utf8_ref_eof _ (by simp) _
          | b1 :: r1 =>
            by_cases hw : second4Ok b0 b1 = true
            · have hwin := (second4_window b0 b1 hx).1 hw
              rw [utf8_ref_ok _ _ b1 [] (contMid' (b0 % 8) 0 3 _ _ b1 (by decide) hwin (by decide)) r1 (pos + 1)]
              simp only [List.map_nil, List.nil_append]
              match r1 with
              | [] => exact utf8_ref_eof _ (by simp) _
              | b2 :: r2 =>
                by_cases hc2 : 0x80 ≤ b2 ∧ b2 ≤ 0xBF
                · rw [utf8_ref_ok _ _ b2 []
                    (contMid' (b0 % 8 * 64 + b1 % 64) (0 + 1) 3 0x80 0xBF b2 (by decide) hc2 (by decide)) r2 (pos + 1 + 1)]
                  simp only [List.map_nil, List.nil_append]
                  match r2 with
                  | [] => exact utf8_ref_eof _ (by simp) _
                  | b3 :: r3 =>
                    have n4 : wf4 b0 b1 b2 b3 = false := hno [b0, b1, b2, b3] r3 rfl (by simp)
                    have hc : ¬ (0x80 ≤ b3 ∧ b3 ≤ 0xBF) := by
                      intro hc
                      simp [wf4, hw, (isCont_iff b2).2 hc2, (isCont_iff b3).2 hc] at n4
                    exact utf8_ref_bad _ _ b3 _ _ _
                      (contBad' ((b0 % 8 * 64 + b1 % 64) * 64 + b2 % 64) (0 + 1 + 1) 3 0x80 0xBF b3 (by decide) hc) r3 _
                · exact utf8_ref_bad _ _ b2 _ _ _
                    (contBad' (b0 % 8 * 64 + b1 % 64) (0 + 1) 3 0x80 0xBF b2 (by decide) hc2) r2 _
            · have hwin : ¬ _ := fun hh => hw ((second4_window b0 b1 hx).2 hh)
              exact utf8_ref_bad _ _ b1 _ _ _ (contBad' (b0 % 8) 0 3 _ _ b1 (by decide) hwin) r1 _

/-- **the UTF-8 decoder reports an error exactly when the input is not valid UTF-8** -/
theorem utf8_hadErrors_aux (n : Nat) : ∀ (bs : List Nat) (pos : Nat), bs.length ≤ n →
    (hadErrors (ref utf8Fam utf8Init bs pos) = true ↔ Spec.validUpTo bs ≠ bs.length) := by
  induction n with
  | zero =>
    intro bs pos h
    have : bs = [] := by cases bs with
      | nil => rfl
      | cons _ _ => simp at h
    subst this
    have : ref utf8Fam utf8Init [] pos = [] := ref_nil_of utf8Fam utf8Init pos rfl rfl
    rw [this]; simp [hadErrors, Spec.validUpTo, scanSeqs]
  | succ n ih =>
    intro bs pos h
    rcases validUpTo_cases bs with h0 | ⟨s, r, hbs, hs, hl, hv⟩
    · by_cases hne : bs = []
      · subst hne
        have : ref utf8Fam utf8Init [] pos = [] := ref_nil_of utf8Fam utf8Init pos rfl rfl
        rw [this]; simp [hadErrors, Spec.validUpTo, scanSeqs]
      · have hlen : bs.length ≠ 0 := by
          intro hz; exact hne (List.length_eq_zero_iff.1 hz)
        rw [utf8_bad_start bs h0 hne pos, h0]
        simp only [true_iff]
        omega
    · have hlen : bs.length = s.length + r.length := by rw [hbs]; simp
      have hr : r.length ≤ n := by omega
      have := ih r (pos + s.length) hr
      rw [hbs, utf8_seq s hs]
      simp only [hadErrors]
      rw [this, ← hbs, hv, hlen]
      omega

theorem utf8_hadErrors_iff (bs : List Nat) (pos : Nat) :
    hadErrors (ref utf8Fam utf8Init bs pos) = true ↔ Spec.validUpTo bs ≠ bs.length :=
  utf8_hadErrors_aux _ bs pos (Nat.le_refl _)

/-! ### termination of the loops under the policy "never stop for lack of space" -/

/-- the rank of every variant decoder state is bounded -/
theorem rank_le (v : Gen.Variant) (s : (famOfVariant v).σ) : (famOfVariant v).rank s ≤ 9 := by
  cases v with
  | singleByte t a c d => exact Nat.zero_le _
  | utf8 =>
    show (if (s : Utf8St).needed = 0 then 0 else 1) ≤ 9
    split <;> omega
  | gbk =>
    show gbRank s ≤ 9
    obtain ⟨p, pa⟩ := s
    cases p <;> cases pa <;> simp [gbRank, gbCount]
  | gb18030 =>
    show gbRank s ≤ 9
    obtain ⟨p, pa⟩ := s
    cases p <;> cases pa <;> simp [gbRank, gbCount]
  | big5 =>
    show (if (s : Option Nat).isSome then 1 else 0) ≤ 9
    split <;> omega
  | eucJp =>
    have : ∀ s : EucJpSt, eucJpFam.rank s ≤ 9 := by
      intro s
      show (if s = EucJpSt.none then 0 else 1) ≤ 9
      split <;> omega
    exact this s
  | iso2022Jp =>
    show isoRank s ≤ 9
    obtain ⟨ds, os, l, f, pp⟩ := s
    cases ds <;> cases pp <;> simp [isoRank]
  | shiftJis =>
    show (if (s : Option Nat).isSome then 1 else 0) ≤ 9
    split <;> omega
  | eucKr =>
    show (if (s : Option Nat).isSome then 1 else 0) ≤ 9
    split <;> omega
  | replacement => exact Nat.zero_le _
  | utf16Be =>
    show utf16Rank s ≤ 9
    obtain ⟨lb, ls, pb⟩ := s
    simp only [utf16Rank]
    repeat' split
    all_goals omega
  | utf16Le =>
    show utf16Rank s ≤ 9
    obtain ⟨lb, ls, pb⟩ := s
    simp only [utf16Rank]
    repeat' split
    all_goals omega
  | userDefined => exact Nat.zero_le _

/-- the main loop under the never-stop policy: never `OutputFull`, reads at most the source, and an
error return consumed input or lowered the rank -/
theorem run_unlimited_facts (F : Fam) (k : Sink) (last : Bool) : ∀ (src : List Nat) (s : F.σ),
    (run F k last s src .unlimited).res ≠ .outputFull ∧
    (run F k last s src .unlimited).read ≤ src.length ∧
    (∀ l a, (run F k last s src .unlimited).res = .malformed l a →
      1 ≤ (run F k last s src .unlimited).read ∨ F.rank (run F k last s src .unlimited).st < F.rank s) := by
  intro src
  induction src with
  | nil =>
    intro s
    simp only [run]
    cases last with
    | false => simp
    | true =>
      simp only [if_true]
      cases he : F.eof s with
      | none => simp
      | some p =>
        obtain ⟨e, s'⟩ := p
        simp only [Budget.isZero, Bool.false_eq_true, if_false]
        refine ⟨by simp, Nat.le_refl _, fun l a _ => Or.inr (F.eof_rank s e s' he)⟩
  | cons b tl ih =>
    intro s
    rw [run]
    simp only [stopHere]
    cases hE : (F.feed s b).err with
    | none =>
      simp only [Budget.dec]
      obtain ⟨i1, i2, i3⟩ := ih (F.feed s b).st
      refine ⟨i1, by simp only [List.length_cons]; omega, fun l a _ => Or.inl (by omega)⟩
    | some e =>
      simp only
      refine ⟨by simp, by simp only [List.length_cons]; split <;> omega, fun l a _ => ?_⟩
      cases hu : (F.feed s b).unread with
      | false => left; simp
      | true => right; exact F.unread_rank s b hu

theorem call_unlimited_facts (F : Fam) (k : Sink) (last : Bool) (src : List Nat) (s : F.σ) :
    (call F k s src last .unlimited).res ≠ .outputFull ∧
    (call F k s src last .unlimited).read ≤ src.length ∧
    (∀ l a, (call F k s src last .unlimited).res = .malformed l a →
      1 ≤ (call F k s src last .unlimited).read ∨ F.rank (call F k s src last .unlimited).st < F.rank s) := by
  unfold call
  cases hp : F.pend s with
  | none => exact run_unlimited_facts F k last src s
  | some p =>
    obtain ⟨o, s'⟩ := p
    simp only [Budget.isZero, Bool.false_eq_true, if_false, Budget.dec]
    obtain ⟨i1, i2, i3⟩ := run_unlimited_facts F k last src s'
    refine ⟨i1, i2, fun l a h => ?_⟩
    cases i3 l a h with
    | inl h1 => exact Or.inl h1
    | inr h2 => exact Or.inr (Nat.lt_of_lt_of_le h2 (F.pend_rank s o s' hp))

/-- **the replacement loop terminates** (never-stop policy): with more fuel than
`10 * remaining + rank` it ends, with `InputEmpty` -/
theorem replLoop_terminates (F : Fam) (k : Sink) (last : Bool) (hR : ∀ s, F.rank s ≤ 9) :
    ∀ (fuel : Nat) (s : F.σ) (src : List Nat), 10 * src.length + F.rank s < fuel →
      ∃ t, replLoop F k last fuel s src [] = some t ∧ t.res = .inputEmpty := by
  intro fuel
  induction fuel with
  | zero => intro s src h; omega
  | succ fuel ih =>
    intro s src h
    rw [replLoop]
    simp only [List.headD_nil, List.tail_nil]
    obtain ⟨f1, f2, f3⟩ := call_unlimited_facts F k last src s
    generalize call F k s src last .unlimited = r at f1 f2 f3
    unfold replStep
    cases hres : r.res with
    | inputEmpty => exact ⟨_, rfl, rfl⟩
    | outputFull => exact absurd hres f1
    | malformed l a =>
      simp only
      have hlen : (src.drop r.read).length = src.length - r.read := List.length_drop
      have hμ : 10 * (src.drop r.read).length + F.rank r.st < fuel := by
        rw [hlen]
        have := hR r.st
        cases f3 l a hres with
        | inl h1 => omega
        | inr h2 => omega
      obtain ⟨t, ht, hti⟩ := ih r.st (src.drop r.read) hμ
      rw [ht]
      exact ⟨_, rfl, hti⟩

/-- the grow loop under the never-stop policy ends in its first round -/
theorem growLoop_terminates (F : Fam) (hR : ∀ s, F.rank s ≤ 9) (ifuel fuel : Nat) (s : F.σ) (src : List Nat)
    (h1 : 10 * src.length + F.rank s < ifuel) (h2 : 0 < fuel) :
    ∃ p, growLoop F ifuel fuel s src [] = some p := by
  cases fuel with
  | zero => omega
  | succ fuel =>
    rw [growLoop]
    simp only [List.headD_nil]
    obtain ⟨t, ht, hti⟩ := replLoop_terminates F .utf8 true hR ifuel s src h1
    rw [ht]
    simp only [hti]
    exact ⟨_, rfl⟩

end EncodingRs.Lemmas.OneShot
