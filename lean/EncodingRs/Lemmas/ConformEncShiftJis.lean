import EncodingRs.Lemmas.ConformEnc
/-!
# C03: the Shift_JIS encoder of the model is the Standard's Shift_JIS encoder, for every code point

Complete evaluation over all code points `< 0x110000` (`native_decide`): model over the
tables regenerated from `/repo/src/data.rs`, Standard over the vendored index jis0208 (all
11280 pointers; "index Shift_JIS pointer" excludes 8272..8835).
-/
namespace EncodingRs.Lemmas.ConformEnc
open EncodingRs EncodingRs.Model EncodingRs.Spec.Encode

def sjisInv : Array Nat := mkInverse indexShiftJisIndex 0x10000

theorem sjisInv_checks :
    checkEntries indexShiftJisIndex sjisInv = true ∧ checkInverse indexShiftJisIndex sjisInv = true := by
  native_decide

theorem sjis_ptr : indexShiftJisPointer = invLookup sjisInv := by
  funext c
  unfold indexShiftJisPointer
  exact indexPointer_eq_invLookup _ _ sjisInv_checks.1 sjisInv_checks.2 c

def shiftJisCheck (c : Nat) : Bool := decide (shiftJisWith (invLookup sjisInv) c = resOf (shiftJisEncodeChar c) c)

theorem shiftJis_check_all : allFrom shiftJisCheck 0 0x110000 = true := by native_decide

/-- per-character conformance, Shift_JIS -/
theorem shiftJis_conforms (c : Nat) (hc : c < 0x110000) : shiftJis c = resOf (shiftJisEncodeChar c) c := by
  have h := allFrom_spec _ _ _ shiftJis_check_all c (Nat.zero_le c) (by omega)
  unfold shiftJis
  rw [sjis_ptr]
  exact of_decide_eq_true h

end EncodingRs.Lemmas.ConformEnc
