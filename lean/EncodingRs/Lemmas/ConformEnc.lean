import EncodingRs.Model.EncFam
import EncodingRs.Model.Encoder
import EncodingRs.Spec.Encode
/-!
# C03, per-character conformance: common definitions

`resOf`: the Standard's handler result that corresponds to the answer of a
per-character encode function of the model (`none` = `Unmappable(c)`).
`allFrom`: the Bool checker used for the complete evaluations over all scalar
values (`native_decide`), with its soundness lemma.
-/
namespace EncodingRs.Lemmas.ConformEnc
open EncodingRs EncodingRs.Model EncodingRs.Spec.Encode

/-- handler result corresponding to the answer of a per-character encode function -/
def resOf (o : Option (List Nat)) (c : Nat) : Result :=
  match o with
  | some bs => .bytes bs
  | none => .error c

/-- `p lo ∧ p (lo+1) ∧ … ∧ p (lo+n-1)` -/
def allFrom (p : Nat → Bool) : Nat → Nat → Bool
  | _, 0 => true
  | lo, n + 1 => if p lo then allFrom p (lo + 1) n else false

theorem allFrom_spec (p : Nat → Bool) : ∀ (n lo : Nat), allFrom p lo n = true →
    ∀ i, lo ≤ i → i < lo + n → p i = true
  | 0, lo, _, i, h1, h2 => by omega
  | n + 1, lo, h, i, h1, h2 => by
    unfold allFrom at h
    split at h
    · rename_i hp
      by_cases hi : i = lo
      · subst hi; exact hp
      · exact allFrom_spec p n (lo + 1) h i (by omega) (by omega)
    · cases h

/-- the model's step for a stateless family, in the Standard's vocabulary -/
def stepOfResult (r : Result) : EStep Unit :=
  match r with
  | .bytes bs => .ok () bs
  | .error c => .unmap () c
  | .finished => .ok () []

theorem statelessStep_of_conforms (enc : Nat → Option (List Nat)) (h : Nat → Result) (c : Nat)
    (hc : h c = resOf (enc c) c) : statelessStep enc () c = stepOfResult (h c) := by
  rw [hc]
  unfold statelessStep resOf stepOfResult
  cases enc c <;> rfl

/-! ### a fast inverse of an index, checked against the index

The Standard's "index pointer" (`Spec.Encode.indexPointer`) is a linear search.  For the
complete evaluations an inverse table is computed once (`mkInverse`); nothing is proved about
how it is computed: the two linear passes `checkEntries` / `checkInverse` over the finished table
imply (kernel-checked, `indexPointer_eq_invLookup`) that looking up the table IS the index
pointer, for every code point. -/

/-- `inv[c] = (first pointer of c) + 1`, `0` = `c` is not in the index; code points `≥ bound`
are not recorded -/
def mkInverse (index : Array Nat) (bound : Nat) : Array Nat :=
  go index.size (Array.replicate bound 0)
where
  go : Nat → Array Nat → Array Nat
  | 0, inv => inv
  | p + 1, inv =>
    let c := index.getD p 0
    go p (if c = 0 then inv else inv.setIfInBounds c (p + 1))

def invLookup (inv : Array Nat) (c : Nat) : Option Nat :=
  if inv.getD c 0 = 0 then none else some (inv.getD c 0 - 1)

/-- every entry of the index is recorded in `inv`, with a pointer that is not a later one -/
def checkEntries (index inv : Array Nat) : Bool :=
  allFrom (fun p =>
    index.getD p 0 == 0
      || (decide (index.getD p 0 < inv.size) && inv.getD (index.getD p 0) 0 != 0
          && decide (inv.getD (index.getD p 0) 0 ≤ p + 1))) 0 index.size

/-- every recorded pointer holds the code point it is recorded for -/
def checkInverse (index inv : Array Nat) : Bool :=
  allFrom (fun c => inv.getD c 0 == 0 || (c != 0 && index.getD (inv.getD c 0 - 1) 0 == c)) 0 inv.size

theorem getD_of_size_le (a : Array Nat) (i : Nat) (h : a.size ≤ i) : a.getD i 0 = 0 := by
  simp [Array.getD, Nat.not_lt.mpr h]

theorem lt_size_of_getD_ne (a : Array Nat) (i : Nat) (h : a.getD i 0 ≠ 0) : i < a.size := by
  apply Nat.lt_of_not_le
  intro h'
  exact h (getD_of_size_le a i h')

theorem firstPointerFrom_none (index : Array Nat) (c : Nat) : ∀ (n p : Nat),
    (∀ j, p ≤ j → j < p + n → index.getD j 0 ≠ c) → firstPointerFrom index c p n = none
  | 0, _, _ => rfl
  | n + 1, p, h => by
    unfold firstPointerFrom
    rw [if_neg (h p (Nat.le_refl p) (by omega))]
    exact firstPointerFrom_none index c n (p + 1) (fun j h1 h2 => h j (by omega) (by omega))

theorem firstPointerFrom_some (index : Array Nat) (c q : Nat) : ∀ (n p : Nat),
    p ≤ q → q < p + n → index.getD q 0 = c → (∀ j, p ≤ j → j < q → index.getD j 0 ≠ c) →
    firstPointerFrom index c p n = some q
  | 0, p, h1, h2, _, _ => by omega
  | n + 1, p, h1, h2, h3, h4 => by
    unfold firstPointerFrom
    by_cases hp : p = q
    · subst hp; rw [if_pos h3]
    · rw [if_neg (h4 p (Nat.le_refl p) (by omega))]
      exact firstPointerFrom_some index c q n (p + 1) (by omega) (by omega) h3
        (fun j h5 h6 => h4 j (by omega) h6)

theorem checkEntries_spec (index inv : Array Nat) (h : checkEntries index inv = true) (p : Nat)
    (hp : p < index.size) (hne : index.getD p 0 ≠ 0) :
    index.getD p 0 < inv.size ∧ inv.getD (index.getD p 0) 0 ≠ 0 ∧ inv.getD (index.getD p 0) 0 ≤ p + 1 := by
  have := allFrom_spec _ _ _ h p (Nat.zero_le p) (by omega)
  simp only [Bool.or_eq_true, Bool.and_eq_true, beq_iff_eq, bne_iff_ne, ne_eq, decide_eq_true_eq] at this
  rcases this with h0 | ⟨⟨a, b⟩, c⟩
  · exact absurd h0 hne
  · exact ⟨a, b, c⟩

theorem checkInverse_spec (index inv : Array Nat) (h : checkInverse index inv = true) (c : Nat)
    (hne : inv.getD c 0 ≠ 0) : c ≠ 0 ∧ index.getD (inv.getD c 0 - 1) 0 = c := by
  have hc : c < inv.size := lt_size_of_getD_ne inv c hne
  have := allFrom_spec _ _ _ h c (Nat.zero_le c) (by omega)
  simp only [Bool.or_eq_true, Bool.and_eq_true, beq_iff_eq, bne_iff_ne, ne_eq] at this
  rcases this with h0 | ⟨a, b⟩
  · exact absurd h0 hne
  · exact ⟨a, b⟩

/-- looking up a checked inverse table is the Standard's index pointer -/
theorem indexPointer_eq_invLookup (index inv : Array Nat) (h1 : checkEntries index inv = true)
    (h2 : checkInverse index inv = true) (c : Nat) : indexPointer index c = invLookup inv c := by
  unfold indexPointer invLookup
  by_cases hv : inv.getD c 0 = 0
  · rw [if_pos hv]
    split
    · rfl
    · rename_i hc0
      apply firstPointerFrom_none
      intro j _ hj hjc
      have hj' : j < index.size := by omega
      have hne : index.getD j 0 ≠ 0 := by rw [hjc]; exact hc0
      have := (checkEntries_spec index inv h1 j hj' hne).2.1
      rw [hjc] at this
      exact this hv
  · rw [if_neg hv]
    have ⟨hc0, hq⟩ := checkInverse_spec index inv h2 c hv
    rw [if_neg hc0]
    have hqne : index.getD (inv.getD c 0 - 1) 0 ≠ 0 := by rw [hq]; exact hc0
    have hqlt := lt_size_of_getD_ne index _ hqne
    apply firstPointerFrom_some index c (inv.getD c 0 - 1) index.size 0 (Nat.zero_le _) (by omega) hq
    intro j _ hj hjc
    have hjne : index.getD j 0 ≠ 0 := by rw [hjc]; exact hc0
    have hjlt := lt_size_of_getD_ne index j hjne
    have := (checkEntries_spec index inv h1 j hjlt hjne).2.2
    rw [hjc] at this
    omega

/-! ### one character: the model's `processChar` and the Standard's chain of handler runs -/

/-- what the model does with one character when nothing stops it (unlimited budget):
bytes written, `Unmappable` report, state afterwards -/
def charOut (F : EFam) (s : F.σ) (c : Nat) : List Nat × Option Nat × F.σ :=
  match processChar F (F.rank s c + 1) s c .unlimited [] with
  | .done st out _ => (out, none, st)
  | .unmappable st out u => (out, some u, st)
  | .full st out _ => (out, none, st)

/-- the Standard's handler run on one code point until it is consumed, i.e. not restored to the
queue (at most `fuel` runs): bytes returned, error returned, state afterwards -/
def specChain {σ : Type} (h : σ → Option Nat → HStep σ) : Nat → σ → Nat → Option (List Nat × Option Nat × σ)
  | 0, _, _ => none
  | fuel + 1, s, c =>
    match (h s (some c)).result, (h s (some c)).restore with
    | .bytes bs, none => some (bs, none, (h s (some c)).st)
    | .bytes bs, some c' =>
      match specChain h fuel (h s (some c)).st c' with
      | some (o, e, st) => some (bs ++ o, e, st)
      | none => none
    | .error u, none => some ([], some u, (h s (some c)).st)
    | _, _ => none

end EncodingRs.Lemmas.ConformEnc
