import EncodingRs.Lemmas.MaxLenFam3
/-!
# C07 (decoder half): potentials for EUC-JP and gb18030 / GBK
-/
namespace EncodingRs.Lemmas.MaxLenFam
open EncodingRs EncodingRs.Model EncodingRs.Lemmas.Potential EncodingRs.Lemmas.MaxLenArith
open EncodingRs.Lemmas.Scalar EncodingRs.Gen.MaxLen

/-- a bound that grows by at least `c` per byte grows by at least `c * b` over `b` bytes -/
theorem psi_grow (ψ : Nat → Nat) (c : Nat) (h : ∀ m, c + ψ m ≤ ψ (m + 1)) (a b : Nat) :
    ψ a + c * b ≤ ψ (a + b) := by
  induction b with
  | zero => simp
  | succ b ih =>
    have := h (a + b)
    have e : a + (b + 1) = a + b + 1 := by omega
    rw [e, Nat.mul_succ]; omega

theorem psi_mono (ψ : Nat → Nat) (c : Nat) (h : ∀ m, c + ψ m ≤ ψ (m + 1)) (a b : Nat) (hab : a ≤ b) :
    ψ a ≤ ψ b := by
  have := psi_grow ψ c h a (b - a)
  have e : a + (b - a) = b := by omega
  rw [e] at this; omega

theorem needBmp_pos (k : Sink) : 1 ≤ needBmp k := by cases k <;> decide
theorem needAstral_le (k : Sink) : needAstral k ≤ needBmp k * 4 := by cases k <;> decide

/-! ### EUC-JP -/

theorem eucJp_units :
    checkTrailU eucJpJis0208Trail .utf16 1 = true ∧ checkTrailU eucJpJis0208Trail .utf8 3 = true ∧
    checkTrailU eucJpJis0212Trail .utf16 1 = true ∧ checkTrailU eucJpJis0212Trail .utf8 3 = true := by
  native_decide

theorem eucJp_trail_units (k : Sink) :
    checkTrailU eucJpJis0208Trail k (needBmp k) = true ∧ checkTrailU eucJpJis0212Trail k (needBmp k) = true := by
  cases k
  · exact ⟨eucJp_units.2.1, eucJp_units.2.2.2⟩
  · exact ⟨eucJp_units.1, eucJp_units.2.2.1⟩

/-- the `plus_one_if_lead` condition: anything but the neutral state -/
def eucJpPending : EucJpSt → Bool
  | .none => false
  | _ => true

theorem eucJpLenNat_eq (s : EucJpSt) (n : Nat) : eucJpLenNat s n = n + (if eucJpPending s then 1 else 0) := by
  cases s <;> rfl

/-- the kinds of step of the EUC-JP decoder (`w`, `w'`: something pending before / after) -/
def EucJpFacts (k : Sink) (s : EucJpSt) (r : FeedRes EucJpSt) : Prop :=
  let w := eucJpPending s
  let w' := eucJpPending r.st
  (w = false ∧ r.err = none ∧ w' = false ∧ unitsOfList k r.out ≤ 1) ∨
  (w = false ∧ r.err = none ∧ w' = true ∧ r.out = []) ∨
  (w = false ∧ (∃ e, r.err = some e) ∧ w' = false ∧ r.out = [] ∧ r.unread = false) ∨
  (w = true ∧ r.err = none ∧ w' = false ∧ unitsOfList k r.out ≤ needBmp k) ∨
  (w = true ∧ (∃ e, r.err = some e) ∧ w' = false ∧ r.out = []) ∨
  (w = true ∧ r.err = none ∧ w' = true ∧ r.out = [])

theorem eucJp_facts (k : Sink) (s : EucJpSt) (b : Nat) (hi : eucJpInv s) (hb : b < 256) :
    EucJpFacts k s (eucJpFeed s b) := by
  unfold EucJpFacts
  cases s with
  | none =>
    by_cases h80 : b < 0x80
    · have hf : eucJpFeed .none b = FeedRes.ok .none [b] := by unfold eucJpFeed; simp [h80]
      rw [hf]
      refine Or.inl ⟨rfl, rfl, rfl, ?_⟩
      show unitsOfList k [b] ≤ 1
      rw [units_single, unitsOf_ascii k b h80]; exact Nat.le_refl _
    · by_cases hm : wsub8 b 0xA1 ≤ 0xFE - 0xA1
      · have hf : eucJpFeed .none b = FeedRes.ok (.jis0208Lead (wsub8 b 0xA1)) [] := by
          unfold eucJpFeed; simp [h80, hm]
        rw [hf]; exact Or.inr (Or.inl ⟨rfl, rfl, rfl, rfl⟩)
      · by_cases h8f : b = 0x8F
        · have hf : eucJpFeed .none b = FeedRes.ok .jis0212Shift [] := by
            subst h8f; unfold eucJpFeed; simp [wsub8]
          rw [hf]; exact Or.inr (Or.inl ⟨rfl, rfl, rfl, rfl⟩)
        · by_cases h8e : b = 0x8E
          · have hf : eucJpFeed .none b = FeedRes.ok .halfWidthKatakana [] := by
              subst h8e; unfold eucJpFeed; simp [wsub8]
            rw [hf]; exact Or.inr (Or.inl ⟨rfl, rfl, rfl, rfl⟩)
          · have hf : eucJpFeed .none b = FeedRes.bad .none 1 0 := by
              unfold eucJpFeed; simp [h80, hm, h8f, h8e]
            rw [hf]; exact Or.inr (Or.inr (Or.inl ⟨rfl, ⟨_, rfl⟩, rfl, rfl, rfl⟩))
  | jis0208Lead l =>
    have hl : l < 256 := hi
    cases htf : eucJpJis0208Trail l b with
    | out cs =>
      have hf : eucJpFeed (.jis0208Lead l) b = FeedRes.ok .none cs := by unfold eucJpFeed; simp [htf]
      rw [hf]
      exact Or.inr (Or.inr (Or.inr (Or.inl ⟨rfl, rfl, rfl, trail_units (eucJp_trail_units k).1 l b hl hb cs htf⟩)))
    | bad =>
      by_cases h80 : b < 0x80
      · have hf : eucJpFeed (.jis0208Lead l) b = FeedRes.bad .none 1 0 true := by unfold eucJpFeed; simp [htf, h80]
        rw [hf]; exact Or.inr (Or.inr (Or.inr (Or.inr (Or.inl ⟨rfl, ⟨_, rfl⟩, rfl, rfl⟩))))
      · have hf : eucJpFeed (.jis0208Lead l) b = FeedRes.bad .none 2 0 := by unfold eucJpFeed; simp [htf, h80]
        rw [hf]; exact Or.inr (Or.inr (Or.inr (Or.inr (Or.inl ⟨rfl, ⟨_, rfl⟩, rfl, rfl⟩))))
  | jis0212Shift =>
    by_cases hm : wsub8 b 0xA1 > 0xFE - 0xA1
    · by_cases h80 : b < 0x80
      · have hf : eucJpFeed .jis0212Shift b = FeedRes.bad .none 1 0 true := by unfold eucJpFeed; simp [hm, h80]
        rw [hf]; exact Or.inr (Or.inr (Or.inr (Or.inr (Or.inl ⟨rfl, ⟨_, rfl⟩, rfl, rfl⟩))))
      · have hf : eucJpFeed .jis0212Shift b = FeedRes.bad .none 2 0 := by unfold eucJpFeed; simp [hm, h80]
        rw [hf]; exact Or.inr (Or.inr (Or.inr (Or.inr (Or.inl ⟨rfl, ⟨_, rfl⟩, rfl, rfl⟩))))
    · have hf : eucJpFeed .jis0212Shift b = FeedRes.ok (.jis0212Lead (wsub8 b 0xA1)) [] := by
        unfold eucJpFeed; simp [hm]
      rw [hf]; exact Or.inr (Or.inr (Or.inr (Or.inr (Or.inr ⟨rfl, rfl, rfl, rfl⟩))))
  | jis0212Lead l =>
    have hl : l < 256 := hi
    cases htf : eucJpJis0212Trail l b with
    | out cs =>
      have hf : eucJpFeed (.jis0212Lead l) b = FeedRes.ok .none cs := by unfold eucJpFeed; simp [htf]
      rw [hf]
      exact Or.inr (Or.inr (Or.inr (Or.inl ⟨rfl, rfl, rfl, trail_units (eucJp_trail_units k).2 l b hl hb cs htf⟩)))
    | bad =>
      by_cases h80 : b < 0x80
      · have hf : eucJpFeed (.jis0212Lead l) b = FeedRes.bad .none 2 0 true := by unfold eucJpFeed; simp [htf, h80]
        rw [hf]; exact Or.inr (Or.inr (Or.inr (Or.inr (Or.inl ⟨rfl, ⟨_, rfl⟩, rfl, rfl⟩))))
      · have hf : eucJpFeed (.jis0212Lead l) b = FeedRes.bad .none 3 0 := by unfold eucJpFeed; simp [htf, h80]
        rw [hf]; exact Or.inr (Or.inr (Or.inr (Or.inr (Or.inl ⟨rfl, ⟨_, rfl⟩, rfl, rfl⟩))))
  | halfWidthKatakana =>
    by_cases hm : wsub8 b 0xA1 > 0xDF - 0xA1
    · by_cases h80 : b < 0x80
      · have hf : eucJpFeed .halfWidthKatakana b = FeedRes.bad .none 1 0 true := by unfold eucJpFeed; simp [hm, h80]
        rw [hf]; exact Or.inr (Or.inr (Or.inr (Or.inr (Or.inl ⟨rfl, ⟨_, rfl⟩, rfl, rfl⟩))))
      · have hf : eucJpFeed .halfWidthKatakana b = FeedRes.bad .none 2 0 := by unfold eucJpFeed; simp [hm, h80]
        rw [hf]; exact Or.inr (Or.inr (Or.inr (Or.inr (Or.inl ⟨rfl, ⟨_, rfl⟩, rfl, rfl⟩))))
    · have hf : eucJpFeed .halfWidthKatakana b = FeedRes.ok .none [0xFF61 + wsub8 b 0xA1] := by
        unfold eucJpFeed; simp [hm]
      rw [hf]
      refine Or.inr (Or.inr (Or.inr (Or.inl ⟨rfl, rfl, rfl, ?_⟩)))
      show unitsOfList k [0xFF61 + wsub8 b 0xA1] ≤ needBmp k
      rw [units_single]; exact unitsOf_bmp k _ (by omega)

/-- EUC-JP: a bound `φ pending n` is a potential if it satisfies these inequalities -/
def eucJpPot (k : Sink) (repl : Bool) (φ : Bool → Nat → Nat)
    (h_need : ∀ l n, needBmp k ≤ φ l (n + 1))
    (h_out : ∀ n, 1 + φ false n ≤ φ false (n + 1))
    (h_lead : ∀ n, φ true n ≤ φ false (n + 1))
    (h_trail : ∀ n, needBmp k + φ false n ≤ φ true (n + 1))
    (h_shift : ∀ n, φ true n ≤ φ true (n + 1))
    (h_err0 : repl = true → ∀ n, replRoom k + φ false n ≤ φ false (n + 1))
    (h_err1 : repl = true → ∀ n, replRoom k + φ false (n + 1) ≤ φ true (n + 1))
    (h_mono : ∀ n, φ false n ≤ φ false (n + 1))
    (h_eof : repl = true → replRoom k + φ false 0 ≤ φ true 0) :
    Potential eucJpFam k repl where
  Inv := eucJpInv
  Φ := fun s n => φ (eucJpPending s) n
  inv_step := fun s b hi hp hb => (eucJpScalar.step s b hi hp hb).1
  inv_pend := by intro s o s' _ h; cases h
  inv_eof := fun s e s' hi h => eucJpScalar.eof s e s' hi h
  need_le := by intro s b n _ _ _; exact h_need _ _
  step_ok := by
    intro (s : EucJpSt) b n hi _ hb he
    have he' : (eucJpFeed s b).err = none := he
    show unitsOfList k (eucJpFeed s b).out + φ (eucJpPending (eucJpFeed s b).st) n ≤ φ (eucJpPending s) (n + 1)
    have hf := eucJp_facts k s b hi hb
    unfold EucJpFacts at hf
    simp only at hf
    rcases hf with ⟨hs, _, hst, hu⟩ | ⟨hs, _, hst, ho⟩ | ⟨_, ⟨e, h⟩, _⟩ | ⟨hs, _, hst, hu⟩ | ⟨_, ⟨e, h⟩, _⟩
      | ⟨hs, _, hst, ho⟩
    · rw [hst, hs]; have := h_out n; omega
    · rw [hst, ho, units_nil, hs]; have := h_lead n; omega
    · rw [he'] at h; cases h
    · rw [hst, hs]; have := h_trail n; omega
    · rw [he'] at h; cases h
    · rw [hst, ho, units_nil, hs]; have := h_shift n; omega
  step_err := by
    intro hr (s : EucJpSt) b n e hi _ hb he
    have he' : (eucJpFeed s b).err = some e := he
    show unitsOfList k (eucJpFeed s b).out + replRoom k
      + φ (eucJpPending (eucJpFeed s b).st) (if (eucJpFeed s b).unread then n + 1 else n)
      ≤ φ (eucJpPending s) (n + 1)
    have hf := eucJp_facts k s b hi hb
    unfold EucJpFacts at hf
    simp only at hf
    rcases hf with ⟨_, h, _⟩ | ⟨_, h, _⟩ | ⟨hs, _, hst, ho, hu⟩ | ⟨_, h, _⟩ | ⟨hs, _, hst, ho⟩ | ⟨_, h, _⟩
    · rw [he'] at h; cases h
    · rw [he'] at h; cases h
    · rw [hst, ho, hu, units_nil, hs]
      simp only [Bool.false_eq_true, if_false]
      have := h_err0 hr n; omega
    · rw [he'] at h; cases h
    · rw [hst, ho, units_nil, hs]
      have := h_err1 hr n
      have := h_mono n
      split <;> omega
    · rw [he'] at h; cases h
  pend_le := by intro s o s' n _ h; cases h
  eof_le := by
    intro (s : EucJpSt) e (s' : EucJpSt) _ _ h
    refine ⟨Nat.zero_le _, ?_⟩
    intro hr
    show replRoom k + φ (eucJpPending s') 0 ≤ φ (eucJpPending s) 0
    have h' : (if s = EucJpSt.none then none else some ((eucJpCount s, 0), EucJpSt.none)) = some (e, s') := h
    split at h'
    · cases h'
    · rename_i hne
      simp only [Option.some.injEq, Prod.mk.injEq] at h'
      rw [← h'.2]
      have : eucJpPending s = true := by cases s <;> simp_all [eucJpPending]
      rw [this]; exact h_eof hr
  alt_le := by intro _ s src m r _ _ h; cases h
  alt_inv := by intro s src m r _ h; cases h

def eucJpPot16 : Potential eucJpFam .utf16 true :=
  eucJpPot .utf16 true (fun l n => n + (if l then 1 else 0))
    (by intro l n; simp only [needBmp]; omega)
    (by intro n; simp <;> omega) (by intro n; simp) (by intro n; simp [needBmp] <;> omega)
    (by intro n; simp)
    (by intro _ n; simp [replRoom] <;> omega) (by intro _ n; simp [replRoom] <;> omega)
    (by intro n; simp) (by intro _; simp [replRoom])

def eucJpPot8 : Potential eucJpFam .utf8 true :=
  eucJpPot .utf8 true (fun l n => 3 * (n + (if l then 1 else 0)))
    (by intro l n; simp only [needBmp]; omega)
    (by intro n; simp <;> omega) (by intro n; simp) (by intro n; simp [needBmp] <;> omega)
    (by intro n; simp <;> omega)
    (by intro _ n; simp [replRoom] <;> omega) (by intro _ n; simp [replRoom] <;> omega)
    (by intro n; simp <;> omega) (by intro _; simp [replRoom])

def eucJpPot8N : Potential eucJpFam .utf8 false :=
  eucJpPot .utf8 false (fun l n => 2 + ((n + (if l then 1 else 0)) + (1 + (n + (if l then 1 else 0))) / 2))
    (by intro l n; simp only [needBmp]; omega)
    (by intro n; simp <;> omega) (by intro n; simp <;> omega) (by intro n; simp [needBmp] <;> omega)
    (by intro n; simp <;> omega)
    (by intro h; cases h) (by intro h; cases h)
    (by intro n; simp <;> omega) (by intro h; cases h)

/-! ### gb18030 / GBK -/

theorem gb_units : checkTrailU gbSecond .utf16 1 = true ∧ checkTrailU gbSecond .utf8 3 = true := by
  native_decide

theorem gb_second_units (k : Sink) : checkTrailU gbSecond k (needBmp k) = true := by
  cases k
  · exact gb_units.2
  · exact gb_units.1

/-- bytes the formula counts on top of the input: pending bytes plus the delayed ASCII digit -/
def gbW (s : GbSt) : Nat := gbCount s.pending + (if s.pendingAscii.isSome then 1 else 0)

theorem gbExtraNat_eq (s : GbSt) (n : Nat) : gbExtraNat s n = n + gbW s := rfl

/-- the kinds of step of the gb18030 decoder -/
def GbFacts (k : Sink) (s : GbSt) (r : FeedRes GbSt) : Prop :=
  (r.err = none ∧ gbW r.st = 0 ∧ unitsOfList k r.out ≤ needBmp k) ∨
  (r.err = none ∧ r.out = [] ∧ gbW r.st = gbW s + 1) ∨
  (r.err = none ∧ gbW s = 3 ∧ gbW r.st = 0 ∧ ∃ c, r.out = [c]) ∨
  ((∃ e, r.err = some e) ∧ r.out = [] ∧ r.unread = false ∧ gbW r.st = 0) ∨
  ((∃ e, r.err = some e) ∧ r.out = [] ∧ gbW r.st + 1 = gbW s)

theorem gb_facts (k : Sink) (p : GbPending) (b : Nat) (hi : gbInv ⟨p, none⟩) (hb : b < 256) :
    GbFacts k ⟨p, none⟩ (gbFeed ⟨p, none⟩ b) := by
  have hw0 : gbW gbInit = 0 := rfl
  cases p with
  | none =>
    by_cases h80 : b < 0x80
    · have hf : gbFeed ⟨.none, none⟩ b = FeedRes.ok gbInit [b] := by unfold gbFeed; simp [h80]
      rw [hf]
      refine Or.inl ⟨rfl, hw0, ?_⟩
      show unitsOfList k [b] ≤ needBmp k
      rw [units_single]; exact unitsOf_bmp k b (by omega)
    · by_cases hm : wsub8 b 0x81 > 0xFE - 0x81
      · by_cases he : b = 0x80
        · have hf : gbFeed ⟨.none, none⟩ b = FeedRes.ok gbInit [0x20AC] := by
            subst he; unfold gbFeed; simp [wsub8]
          rw [hf]
          refine Or.inl ⟨rfl, hw0, ?_⟩
          show unitsOfList k [0x20AC] ≤ needBmp k
          rw [units_single]; exact unitsOf_bmp k _ (by decide)
        · have hf : gbFeed ⟨.none, none⟩ b = FeedRes.bad gbInit 1 0 := by unfold gbFeed; simp [h80, hm, he]
          rw [hf]; exact Or.inr (Or.inr (Or.inr (Or.inl ⟨⟨_, rfl⟩, rfl, rfl, hw0⟩)))
      · have hf : gbFeed ⟨.none, none⟩ b = FeedRes.ok ⟨.one (wsub8 b 0x81), none⟩ [] := by
          unfold gbFeed; simp [h80, hm]
        rw [hf]; exact Or.inr (Or.inl ⟨rfl, rfl, rfl⟩)
  | one a =>
    have ha : a < 256 := hi.1
    by_cases hd : wsub8 b 0x30 > 0x39 - 0x30
    · cases htf : gbSecond a b with
      | out cs =>
        have hf : gbFeed ⟨.one a, none⟩ b = FeedRes.ok gbInit cs := by unfold gbFeed; simp [hd, htf]
        rw [hf]
        exact Or.inl ⟨rfl, hw0, trail_units (gb_second_units k) a b ha hb cs htf⟩
      | bad =>
        by_cases h80 : b < 0x80
        · have hf : gbFeed ⟨.one a, none⟩ b = FeedRes.bad gbInit 1 0 true := by unfold gbFeed; simp [hd, htf, h80]
          rw [hf]; exact Or.inr (Or.inr (Or.inr (Or.inr ⟨⟨_, rfl⟩, rfl, rfl⟩)))
        · have hf : gbFeed ⟨.one a, none⟩ b = FeedRes.bad gbInit 2 0 := by unfold gbFeed; simp [hd, htf, h80]
          rw [hf]; exact Or.inr (Or.inr (Or.inr (Or.inr ⟨⟨_, rfl⟩, rfl, rfl⟩)))
    · have hf : gbFeed ⟨.one a, none⟩ b = FeedRes.ok ⟨.two a (wsub8 b 0x30), none⟩ [] := by
        unfold gbFeed; simp [hd]
      rw [hf]; exact Or.inr (Or.inl ⟨rfl, rfl, rfl⟩)
  | two a sm =>
    by_cases hm : wsub8 b 0x81 > 0xFE - 0x81
    · have hf : gbFeed ⟨.two a sm, none⟩ b = FeedRes.bad ⟨.none, some (sm + 0x30)⟩ 1 1 true := by
        unfold gbFeed; simp [hm]
      rw [hf]; exact Or.inr (Or.inr (Or.inr (Or.inr ⟨⟨_, rfl⟩, rfl, rfl⟩)))
    · have hf : gbFeed ⟨.two a sm, none⟩ b = FeedRes.ok ⟨.three a sm (wsub8 b 0x81), none⟩ [] := by
        unfold gbFeed; simp [hm]
      rw [hf]; exact Or.inr (Or.inl ⟨rfl, rfl, rfl⟩)
  | three a sm tm =>
    by_cases hd : wsub8 b 0x30 > 0x39 - 0x30
    · have hf : gbFeed ⟨.three a sm tm, none⟩ b = FeedRes.bad ⟨.one tm, some (sm + 0x30)⟩ 1 2 true := by
        unfold gbFeed; simp [hd]
      rw [hf]; exact Or.inr (Or.inr (Or.inr (Or.inr ⟨⟨_, rfl⟩, rfl, rfl⟩)))
    · cases hg : gbFour a sm tm (wsub8 b 0x30) with
      | some c =>
        have hf : gbFeed ⟨.three a sm tm, none⟩ b = FeedRes.ok gbInit [c] := by unfold gbFeed; simp [hd, hg]
        rw [hf]; exact Or.inr (Or.inr (Or.inl ⟨rfl, rfl, hw0, c, rfl⟩))
      | none =>
        have hf : gbFeed ⟨.three a sm tm, none⟩ b = FeedRes.bad gbInit 4 0 := by unfold gbFeed; simp [hd, hg]
        rw [hf]; exact Or.inr (Or.inr (Or.inr (Or.inl ⟨⟨_, rfl⟩, rfl, rfl, hw0⟩)))

theorem gb_pend_none (s : GbSt) (h : gbFam.pend s = none) : s.pendingAscii = none := by
  obtain ⟨p, pa⟩ := s
  cases pa with
  | none => rfl
  | some a => cases h

/-- gb18030: a bound `ψ (n + pending)` is a potential if it grows by a BMP character per byte and
leaves room for an astral one -/
def gbPot (k : Sink) (repl : Bool) (ψ : Nat → Nat)
    (h_step : ∀ m, needBmp k + ψ m ≤ ψ (m + 1))
    (h_need : ∀ m, needAstral k ≤ ψ (m + 1)) :
    Potential gbFam k repl where
  Inv := gbInv
  Φ := fun s n => ψ (n + gbW s)
  inv_step := fun s b hi hp hb => (gbScalar.step s b hi hp hb).1
  inv_pend := fun s o s' hi h => (gbScalar.pend s o s' hi h).1
  inv_eof := fun s e s' hi h => gbScalar.eof s e s' hi h
  need_le := by
    intro (s : GbSt) b n _ _ _
    show needAstral k ≤ ψ (n + 1 + gbW s)
    have := h_need (n + gbW s)
    have e : n + 1 + gbW s = n + gbW s + 1 := by omega
    rw [e]; exact this
  step_ok := by
    intro (s : GbSt) b n hi hp hb he
    have hpa := gb_pend_none s hp
    obtain ⟨p, pa⟩ := s
    simp only at hpa; subst hpa
    have he' : (gbFeed ⟨p, none⟩ b).err = none := he
    show unitsOfList k (gbFeed ⟨p, none⟩ b).out + ψ (n + gbW (gbFeed ⟨p, none⟩ b).st) ≤ ψ (n + 1 + gbW ⟨p, none⟩)
    have hpos := needBmp_pos k
    rcases gb_facts k p b hi hb with ⟨_, hw, hu⟩ | ⟨_, ho, hw⟩ | ⟨_, hw3, hw, c, ho⟩ | ⟨⟨e, h⟩, _⟩ | ⟨⟨e, h⟩, _⟩
    · rw [hw]
      have := h_step n
      have := psi_mono ψ _ h_step (n + 1) (n + 1 + gbW ⟨p, none⟩) (by omega)
      simp only [Nat.add_zero]; omega
    · rw [ho, hw, units_nil]
      have e : n + (gbW ⟨p, none⟩ + 1) = n + 1 + gbW ⟨p, none⟩ := by omega
      rw [e]; omega
    · rw [ho, hw, hw3, units_single]
      have := psi_grow ψ _ h_step n 4
      have := unitsOf_le_astral k c
      have := needAstral_le k
      simp only [Nat.add_zero]
      have e : n + 1 + 3 = n + 4 := by omega
      rw [e]; omega
    · rw [he'] at h; cases h
    · rw [he'] at h; cases h
  step_err := by
    intro _ (s : GbSt) b n e hi hp hb he
    have hpa := gb_pend_none s hp
    obtain ⟨p, pa⟩ := s
    simp only at hpa; subst hpa
    have he' : (gbFeed ⟨p, none⟩ b).err = some e := he
    show unitsOfList k (gbFeed ⟨p, none⟩ b).out + replRoom k
      + ψ ((if (gbFeed ⟨p, none⟩ b).unread then n + 1 else n) + gbW (gbFeed ⟨p, none⟩ b).st)
      ≤ ψ (n + 1 + gbW ⟨p, none⟩)
    rw [replRoom_eq_needBmp]
    rcases gb_facts k p b hi hb with ⟨h, _⟩ | ⟨h, _⟩ | ⟨h, _⟩ | ⟨_, ho, hu, hw⟩ | ⟨_, ho, hw⟩
    · rw [he'] at h; cases h
    · rw [he'] at h; cases h
    · rw [he'] at h; cases h
    · rw [ho, hu, hw, units_nil]
      simp only [Bool.false_eq_true, if_false, Nat.add_zero, Nat.zero_add]
      have := h_step n
      have := psi_mono ψ _ h_step (n + 1) (n + 1 + gbW ⟨p, none⟩) (by omega)
      omega
    · rw [ho, units_nil, ← hw]
      simp only [Nat.zero_add]
      have h1 := h_step (n + 1 + gbW (gbFeed ⟨p, none⟩ b).st)
      have e : n + 1 + (gbW (gbFeed ⟨p, none⟩ b).st + 1) = n + 1 + gbW (gbFeed ⟨p, none⟩ b).st + 1 := by omega
      rw [e]
      split
      · exact h1
      · have := psi_mono ψ _ h_step (n + gbW (gbFeed ⟨p, none⟩ b).st) (n + 1 + gbW (gbFeed ⟨p, none⟩ b).st)
          (by omega)
        omega
  pend_le := by
    intro (s : GbSt) o (s' : GbSt) n hi h
    obtain ⟨p, pa⟩ := s
    cases pa with
    | none => cases h
    | some a =>
      cases h
      have ha : a < 0x80 := hi.2 a rfl
      show needBmp k ≤ ψ (n + gbW ⟨p, some a⟩) ∧ unitsOfList k [a] + ψ (n + gbW ⟨p, none⟩) ≤ ψ (n + gbW ⟨p, some a⟩)
      have hw : gbW ⟨p, some a⟩ = gbW ⟨p, none⟩ + 1 := by simp [gbW]
      rw [hw, units_single, unitsOf_ascii k a ha]
      have := h_step (n + gbW ⟨p, none⟩)
      have hpos := needBmp_pos k
      have e : n + (gbW ⟨p, none⟩ + 1) = n + gbW ⟨p, none⟩ + 1 := by omega
      rw [e]; omega
  eof_le := by
    intro (s : GbSt) e (s' : GbSt) _ hp h
    refine ⟨Nat.zero_le _, ?_⟩
    intro _
    have hpa := gb_pend_none s hp
    obtain ⟨p, pa⟩ := s
    simp only at hpa; subst hpa
    have h' : (if p = GbPending.none then none
        else some ((gbCount p, 0), (⟨GbPending.none, none⟩ : GbSt))) = some (e, s') := h
    split at h'
    · cases h'
    · rename_i hne
      simp only [Option.some.injEq, Prod.mk.injEq] at h'
      rw [← h'.2]
      show replRoom k + ψ (0 + gbW ⟨.none, none⟩) ≤ ψ (0 + gbW ⟨p, none⟩)
      have hw : 1 ≤ gbW ⟨p, none⟩ := by cases p <;> simp_all [gbW, gbCount]
      have hw0 : gbW ⟨.none, none⟩ = 0 := rfl
      rw [hw0, replRoom_eq_needBmp]
      simp only [Nat.zero_add]
      have h0 := h_step 0
      rw [Nat.zero_add] at h0
      have := psi_mono ψ _ h_step 1 (gbW ⟨p, none⟩) hw
      omega
  alt_le := by intro _ s src m r _ _ h; cases h
  alt_inv := by intro s src m r _ h; cases h

def gbPot16 : Potential gbFam .utf16 true :=
  gbPot .utf16 true (fun m => 1 + m) (by intro m; simp only [needBmp]; omega) (by intro m; simp only [needAstral]; omega)

def gbPot8 (repl : Bool) : Potential gbFam .utf8 repl :=
  gbPot .utf8 repl (fun m => 1 + 3 * m) (by intro m; simp only [needBmp]; omega) (by intro m; simp only [needAstral]; omega)

end EncodingRs.Lemmas.MaxLenFam
