import EncodingRs.Lemmas.OneShot
import EncodingRs.Lemmas.MaxLenVariant
import EncodingRs.Thm.C06
import EncodingRs.Thm.C08
/-! Lemmas for C11, capacity-aware part: the one-shot decode functions with the capacity
arithmetic executed as written (`Model.OneShot.…Cap`), admissibility of a stop policy for the
capacities so computed, termination of the replacement loop for EVERY stop policy, "at most one
grow" for every admissible policy, and the `unreachable!()` arm. -/
namespace EncodingRs.Lemmas.OneShotCap
open EncodingRs EncodingRs.Model EncodingRs.Model.OneShot EncodingRs.Lemmas.Core EncodingRs.Lemmas.FamLaws
open EncodingRs.Lemmas.OneShot EncodingRs.Lemmas.Potential EncodingRs.Lemmas.MaxLenVariant
open EncodingRs.Gen.MaxLen

/-! ### progress of every raw call, whatever the stop policy -/

/-- the look-ahead error report (UTF-16 bulk path) consumes at least one byte -/
theorem variant_alt_pos (v : Gen.Variant) :
    ∀ s src m r, (famOfVariant v).alt s src = some (m, r) → 1 ≤ m := by
  have key : ∀ (be : Bool) (s : Utf16St) (src : List Nat) (m : Nat) (r : FeedRes Utf16St),
      utf16Alt be s src = some (m, r) → 1 ≤ m := by
    intro be s src m r h
    unfold utf16Alt at h
    split at h
    · cases h
    · split at h
      · simp only at h
        split at h
        · simp only [Option.some.injEq, Prod.mk.injEq] at h; omega
        · cases h
      · cases h
  cases v
  case utf16Be => exact key true
  case utf16Le => exact key false
  all_goals (intro s src m r h; cases h)

/-- C08 `malformed_progress` for a whole raw call (flush first) -/
theorem call_malformed_progress (F : Fam) (k : Sink) (last : Bool)
    (halt1 : ∀ s src m r, F.alt s src = some (m, r) → 1 ≤ m)
    (src : List Nat) (s : F.σ) (budget : Budget) (l a : Nat)
    (h : (call F k s src last budget).res = .malformed l a) :
    1 ≤ (call F k s src last budget).read ∨ F.rank (call F k s src last budget).st < F.rank s := by
  unfold call at h ⊢
  cases hp : F.pend s with
  | none =>
    simp only [hp] at h ⊢
    exact Thm.C08.malformed_progress F k last halt1 src s budget l a h
  | some p =>
    obtain ⟨o, s'⟩ := p
    simp only [hp] at h ⊢
    by_cases hz : budget.isZero = true
    · simp [hz] at h
    · simp only [hz, Bool.false_eq_true, if_false] at h ⊢
      rcases Thm.C08.malformed_progress F k last halt1 src s' budget.dec l a h with h1 | h1
      · exact Or.inl h1
      · exact Or.inr (Nat.lt_of_lt_of_le h1 (F.pend_rank s o s' hp))

/-- **the replacement loop terminates for EVERY stop policy** (any budgets, admissible or not):
each inner call either ends the loop (`InputEmpty` / `OutputFull`) or reports an error, and an
error return consumed input or lowered the rank (C08).  With more fuel than
`10 * remaining + rank` the loop returns. -/
theorem replLoop_terminates_any (F : Fam) (k : Sink) (last : Bool) (hR : ∀ s, F.rank s ≤ 9)
    (halt : ∀ s src m r, F.alt s src = some (m, r) → m ≤ src.length)
    (halt1 : ∀ s src m r, F.alt s src = some (m, r) → 1 ≤ m) :
    ∀ (fuel : Nat) (s : F.σ) (src : List Nat) (budgets : List Budget), 10 * src.length + F.rank s < fuel →
      ∃ t, replLoop F k last fuel s src budgets = some t ∧ (t.res = .inputEmpty ∨ t.res = .outputFull) := by
  intro fuel
  induction fuel with
  | zero => intro s src budgets h; omega
  | succ fuel ih =>
    intro s src budgets h
    rw [replLoop]
    have f2 := call_read_le F k src s last (budgets.headD .unlimited) halt
    have f3 := call_malformed_progress F k last halt1 src s (budgets.headD .unlimited)
    generalize call F k s src last (budgets.headD .unlimited) = r at f2 f3
    unfold replStep
    cases hres : r.res with
    | inputEmpty => exact ⟨_, rfl, Or.inl rfl⟩
    | outputFull => exact ⟨_, rfl, Or.inr rfl⟩
    | malformed l a =>
      simp only
      have hlen : (src.drop r.read).length = src.length - r.read := List.length_drop
      have hμ : 10 * (src.drop r.read).length + F.rank r.st < fuel := by
        rw [hlen]
        have := hR r.st
        cases f3 l a hres with
        | inl h1 => omega
        | inr h2 => omega
      obtain ⟨t, ht, hti⟩ := ih r.st (src.drop r.read) budgets.tail hμ
      rw [ht]
      exact ⟨_, rfl, hti⟩

/-- for every variant decoder -/
theorem variant_replLoop_terminates (v : Gen.Variant) (k : Sink) (last : Bool) (fuel : Nat)
    (s : (famOfVariant v).σ) (src : List Nat) (budgets : List Budget) (h : 10 * src.length + 9 < fuel) :
    ∃ t, replLoop (famOfVariant v) k last fuel s src budgets = some t ∧ (t.res = .inputEmpty ∨ t.res = .outputFull) :=
  replLoop_terminates_any (famOfVariant v) k last (rank_le v) (Thm.C06.variant_alt_le v) (variant_alt_pos v)
    fuel s src budgets (by have := rank_le v s; omega)

/-! ### the states the loops pass through are reachable -/

theorem replLoop_reach (v : Gen.Variant) (k : Sink) (last : Bool) :
    ∀ (fuel : Nat) (s : (famOfVariant v).σ) (src : List Nat) (budgets : List Budget) (t : ReplRes (famOfVariant v).σ),
      Reach v s → (∀ b ∈ src, b < 256) → replLoop (famOfVariant v) k last fuel s src budgets = some t →
      Reach v t.st := by
  intro fuel
  induction fuel with
  | zero => intro s src budgets t _ _ h; simp [replLoop] at h
  | succ fuel ih =>
    intro s src budgets t hr hb h
    rw [replLoop] at h
    have hr' := Reach.call k s src last (budgets.headD .unlimited) hr hb
    generalize call (famOfVariant v) k s src last (budgets.headD .unlimited) = r at h hr'
    unfold replStep at h
    cases hres : r.res with
    | malformed l a =>
      simp only [hres] at h
      cases hrec : replLoop (famOfVariant v) k last fuel r.st (src.drop r.read) budgets.tail with
      | none => rw [hrec] at h; cases h
      | some t' =>
        rw [hrec] at h; simp only [Option.some.injEq] at h; subst h
        exact ih r.st (src.drop r.read) budgets.tail t' hr' (fun b hb' => hb b (List.mem_of_mem_drop hb')) hrec
    | inputEmpty => simp only [hres, Option.some.injEq] at h; subst h; exact hr'
    | outputFull => simp only [hres, Option.some.injEq] at h; subst h; exact hr'


/-! ### admissibility of a stop policy for the capacities the code computes -/

/-- every round of the loop of `decode_without_bom_handling` runs a replacement loop all of whose inner
raw calls are admissible for what is left of the spare capacity of that round
(`Lemmas.Potential.ReplAdmissible`); the next round's spare capacity is the one `growLoopCap` computes -/
def GrowAdmissible (v : Gen.Variant) (ifuel : Nat) :
    Nat → (famOfVariant v).σ → List Nat → Nat → List Nat → List (List Budget) → Prop
  | 0, _, _, _, _, _ => True
  | fuel + 1, s, src, spare, slack, bs =>
    ReplAdmissible (famOfVariant v) .utf8 true ifuel s src (bs.headD []) spare ∧
    ∀ t needed, replLoop (famOfVariant v) .utf8 true ifuel s src (bs.headD []) = some t → t.res = .outputFull →
      variantMax .utf8 v t.st (src.length - t.read) = some needed →
      GrowAdmissible v ifuel fuel t.st (src.drop t.read)
        (max (spare - unitsOfList .utf8 t.out) needed + slack.headD 0) slack.tail bs.tail

/-- the stop policy `bs` of `decodeWithoutBomHandlingCap` is admissible for the capacities it computes -/
def DecodeAdmissible (v : Gen.Variant) (bytes : List Nat) (fuel : Nat) (slack : List Nat)
    (bs : List (List Budget)) : Prop :=
  if isPotentiallyBorrowable v then
    ∀ c, firstCapacity v (OneShot.validUpTo v bytes) (bytes.length - OneShot.validUpTo v bytes) = some c →
      GrowAdmissible v fuel fuel (famOfVariant v).init (bytes.drop (OneShot.validUpTo v bytes))
        (c + slack.headD 0 - OneShot.validUpTo v bytes) slack.tail bs
  else
    ∀ c, firstCapacityNB v bytes.length = some c →
      GrowAdmissible v fuel fuel (famOfVariant v).init bytes (c + slack.headD 0) slack.tail bs

/-- the single `decode_to_string_without_replacement` call of the without-replacement form is
admissible for the spare capacity of the `String` the code allocated (`slack` = what the
allocator granted beyond the request) -/
def NoReplAdmissible (v : Gen.Variant) (bytes : List Nat) (slack : Nat) (budget : Budget) : Prop :=
  ∀ c, noReplCapacity v bytes = some c →
    Admissible (famOfVariant v) .utf8 (noReplSpare v bytes c slack)
      (call (famOfVariant v) .utf8 (famOfVariant v).init (noReplInput v bytes) true budget)

/-! ### the capacity-aware functions refine the budget-parametrised ones -/

theorem growLoopCap_ok (v : Gen.Variant) (ifuel : Nat) :
    ∀ (fuel : Nat) (s : (famOfVariant v).σ) (src : List Nat) (spare : Nat) (slack : List Nat)
      (bs : List (List Budget)) (p : List Nat × Bool),
      growLoopCap v ifuel fuel s src spare slack bs = .ok p →
      growLoop (famOfVariant v) ifuel fuel s src bs = some p := by
  intro fuel
  induction fuel with
  | zero => intro s src spare slack bs p h; simp [growLoopCap] at h
  | succ fuel ih =>
    intro s src spare slack bs p h
    rw [growLoopCap] at h
    rw [growLoop]
    cases hrl : replLoop (famOfVariant v) .utf8 true ifuel s src (bs.headD []) with
    | none => rw [hrl] at h; cases h
    | some t =>
      rw [hrl] at h
      simp only at h ⊢
      cases hres : t.res with
      | inputEmpty =>
        simp only [hres] at h ⊢
        cases h; rfl
      | malformed l a => simp only [hres] at h; cases h
      | outputFull =>
        simp only [hres] at h ⊢
        cases hq : variantMax .utf8 v t.st (src.length - t.read) with
        | none => rw [hq] at h; cases h
        | some needed =>
          rw [hq] at h
          simp only at h
          cases hrec : growLoopCap v ifuel fuel t.st (src.drop t.read)
              (max (spare - unitsOfList .utf8 t.out) needed + slack.headD 0) slack.tail bs.tail with
          | panic => rw [hrec] at h; cases h
          | diverges => rw [hrec] at h; cases h
          | ok q =>
            obtain ⟨o, e⟩ := q
            rw [hrec] at h
            simp only at h
            rw [ih _ _ _ _ _ (o, e) hrec]
            cases h; rfl

theorem map_ok {α β : Type} (f : α → β) (x : Outcome α) (b : β) (h : x.map f = .ok b) :
    ∃ a, x = .ok a ∧ f a = b := by
  cases x with
  | ok a => simp only [Outcome.map, Outcome.ok.injEq] at h; exact ⟨a, rfl, h⟩
  | panic => cases h
  | diverges => cases h

/-- whenever the capacity-aware function returns, the budget-parametrised one returns the same:
every equality / borrow theorem of `Thm.C11` applies to it -/
theorem decodeWithoutBomHandlingCap_ok (v : Gen.Variant) (bytes : List Nat) (fuel : Nat) (slack : List Nat)
    (bs : List (List Budget)) (r : OneShot.Res)
    (h : decodeWithoutBomHandlingCap v bytes fuel slack bs = .ok r) :
    decodeWithoutBomHandling v bytes fuel bs = some r := by
  unfold decodeWithoutBomHandlingCap at h
  unfold decodeWithoutBomHandling
  by_cases hb : isPotentiallyBorrowable v = true
  · simp only [hb, if_true] at h ⊢
    by_cases hn : OneShot.validUpTo v bytes = bytes.length
    · simp only [hn, if_true] at h ⊢
      cases h; rfl
    · simp only [hn, if_false] at h ⊢
      cases hc : firstCapacity v (OneShot.validUpTo v bytes) (bytes.length - OneShot.validUpTo v bytes) with
      | none => rw [hc] at h; cases h
      | some c =>
        rw [hc] at h
        simp only at h
        obtain ⟨p, hp, hf⟩ := map_ok _ _ _ h
        rw [growLoopCap_ok v fuel fuel _ _ _ _ _ p hp]
        obtain ⟨o, e⟩ := p
        simp only at hf ⊢
        rw [hf]
  · simp only [hb, Bool.false_eq_true, if_false] at h ⊢
    cases hc : firstCapacityNB v bytes.length with
    | none => rw [hc] at h; cases h
    | some c =>
      rw [hc] at h
      simp only at h
      obtain ⟨p, hp, hf⟩ := map_ok _ _ _ h
      rw [growLoopCap_ok v fuel fuel _ _ _ _ _ p hp]
      obtain ⟨o, e⟩ := p
      simp only at hf ⊢
      rw [hf]

theorem validUpToNoRepl_eq (v : Gen.Variant) (h8 : v ≠ .utf8) (bytes : List Nat) :
    validUpToNoRepl v bytes = OneShot.validUpTo v bytes := by
  unfold validUpToNoRepl OneShot.validUpTo
  simp [h8]

/-- the without-replacement form: the capacity arithmetic only adds the `panic` outcome -/
theorem noReplCap_ok (v : Gen.Variant) (bytes : List Nat) (budget : Budget) (r : NoRepl)
    (h : decodeWithoutBomHandlingAndWithoutReplacementCap v bytes budget = .ok r) :
    decodeWithoutBomHandlingAndWithoutReplacement v bytes budget = r := by
  unfold decodeWithoutBomHandlingAndWithoutReplacementCap at h
  unfold decodeWithoutBomHandlingAndWithoutReplacement
  by_cases h8 : v = .utf8
  · simp only [h8, if_true] at h ⊢
    split at h <;> (cases h; simp only [*, if_true, if_false])
  · simp only [h8, if_false] at h ⊢
    by_cases hb : isPotentiallyBorrowable v = true
    · simp only [hb, if_true] at h ⊢
      have hv : validUpToNoRepl v bytes = (if v = .iso2022Jp then iso2022JpAsciiValidUpTo bytes else asciiValidUpTo bytes) := rfl
      rw [← hv]
      by_cases hn : validUpToNoRepl v bytes = bytes.length
      · simp only [hn, if_true] at h ⊢
        cases h; rfl
      · simp only [hn, if_false] at h ⊢
        cases hc : noReplCapacity v bytes with
        | none => rw [hc] at h; cases h
        | some c =>
          rw [hc] at h
          simp only at h
          split at h <;> (cases h; simp only [*])
    · simp only [hb, Bool.false_eq_true, if_false] at h ⊢
      cases hc : noReplCapacity v bytes with
      | none => rw [hc] at h; cases h
      | some c =>
        rw [hc] at h
        simp only at h
        split at h <;> (cases h; simp only [*])

end EncodingRs.Lemmas.OneShotCap
