import EncodingRs.Lemmas.OneShot
import EncodingRs.Lemmas.MaxLenVariant
import EncodingRs.Thm.C06
import EncodingRs.Thm.C08
/-! Lemmas for C11, capacity-aware part: the one-shot decode functions with the capacity
arithmetic executed as written (`Model.OneShot.…Cap`), admissibility of a stop policy for the
capacities so computed, termination of the replacement loop for EVERY stop policy, "at most one
grow" for every admissible policy, and the `unreachable!()` arm. -/
namespace EncodingRs.Lemmas.OneShotCap
open EncodingRs EncodingRs.Model EncodingRs.Model.OneShot EncodingRs.Lemmas.Core EncodingRs.Lemmas.FamLaws
open EncodingRs.Lemmas.OneShot EncodingRs.Lemmas.Potential EncodingRs.Lemmas.MaxLenVariant
open EncodingRs.Gen.MaxLen

/-! ### progress of every raw call, whatever the stop policy -/

/-- the look-ahead error report (UTF-16 bulk path) consumes at least one byte -/
theorem variant_alt_pos (v : Gen.Variant) :
    ∀ s src m r, (famOfVariant v).alt s src = some (m, r) → 1 ≤ m := by
  have key : ∀ (be : Bool) (s : Utf16St) (src : List Nat) (m : Nat) (r : FeedRes Utf16St),
      utf16Alt be s src = some (m, r) → 1 ≤ m := by
    intro be s src m r h
    unfold utf16Alt at h
    split at h
    · cases h
    · split at h
      · simp only at h
        split at h
        · simp only [Option.some.injEq, Prod.mk.injEq] at h; omega
        · cases h
      · cases h
  cases v
  case utf16Be => exact key true
  case utf16Le => exact key false
  all_goals (intro s src m r h; cases h)

/-- C08 `malformed_progress` for a whole raw call (flush first) -/
theorem call_malformed_progress (F : Fam) (k : Sink) (last : Bool)
    (halt1 : ∀ s src m r, F.alt s src = some (m, r) → 1 ≤ m)
    (src : List Nat) (s : F.σ) (budget : Budget) (l a : Nat)
    (h : (call F k s src last budget).res = .malformed l a) :
    1 ≤ (call F k s src last budget).read ∨ F.rank (call F k s src last budget).st < F.rank s := by
  unfold call at h ⊢
  cases hp : F.pend s with
  | none =>
    simp only [hp] at h ⊢
    exact Thm.C08.malformed_progress F k last halt1 src s budget l a h
  | some p =>
    obtain ⟨o, s'⟩ := p
    simp only [hp] at h ⊢
    by_cases hz : budget.isZero = true
    · simp [hz] at h
    · simp only [hz, Bool.false_eq_true, if_false] at h ⊢
      rcases Thm.C08.malformed_progress F k last halt1 src s' budget.dec l a h with h1 | h1
      · exact Or.inl h1
      · exact Or.inr (Nat.lt_of_lt_of_le h1 (F.pend_rank s o s' hp))

/-- **the replacement loop terminates for EVERY stop policy** (any budgets, admissible or not):
each inner call either ends the loop (`InputEmpty` / `OutputFull`) or reports an error, and an
error return consumed input or lowered the rank (C08).  With more fuel than
`10 * remaining + rank` the loop returns. -/
theorem replLoop_terminates_any (F : Fam) (k : Sink) (last : Bool) (hR : ∀ s, F.rank s ≤ 9)
    (halt : ∀ s src m r, F.alt s src = some (m, r) → m ≤ src.length)
    (halt1 : ∀ s src m r, F.alt s src = some (m, r) → 1 ≤ m) :
    ∀ (fuel : Nat) (s : F.σ) (src : List Nat) (budgets : List Budget), 10 * src.length + F.rank s < fuel →
      ∃ t, replLoop F k last fuel s src budgets = some t ∧ (t.res = .inputEmpty ∨ t.res = .outputFull) := by
  intro fuel
  induction fuel with
  | zero => intro s src budgets h; omega
  | succ fuel ih =>
    intro s src budgets h
    rw [replLoop]
    have f2 := call_read_le F k src s last (budgets.headD .unlimited) halt
    have f3 := call_malformed_progress F k last halt1 src s (budgets.headD .unlimited)
    generalize call F k s src last (budgets.headD .unlimited) = r at f2 f3
    unfold replStep
    cases hres : r.res with
    | inputEmpty => exact ⟨_, rfl, Or.inl rfl⟩
    | outputFull => exact ⟨_, rfl, Or.inr rfl⟩
    | malformed l a =>
      simp only
      have hlen : (src.drop r.read).length = src.length - r.read := List.length_drop
      have hμ : 10 * (src.drop r.read).length + F.rank r.st < fuel := by
        rw [hlen]
        have := hR r.st
        cases f3 l a hres with
        | inl h1 => omega
        | inr h2 => omega
      obtain ⟨t, ht, hti⟩ := ih r.st (src.drop r.read) budgets.tail hμ
      rw [ht]
      exact ⟨_, rfl, hti⟩

/-- for every variant decoder -/
theorem variant_replLoop_terminates (v : Gen.Variant) (k : Sink) (last : Bool) (fuel : Nat)
    (s : (famOfVariant v).σ) (src : List Nat) (budgets : List Budget) (h : 10 * src.length + 9 < fuel) :
    ∃ t, replLoop (famOfVariant v) k last fuel s src budgets = some t ∧ (t.res = .inputEmpty ∨ t.res = .outputFull) :=
  replLoop_terminates_any (famOfVariant v) k last (rank_le v) (Thm.C06.variant_alt_le v) (variant_alt_pos v)
    fuel s src budgets (by have := rank_le v s; omega)

/-! ### the states the loops pass through are reachable -/

theorem replLoop_reach (v : Gen.Variant) (k : Sink) (last : Bool) :
    ∀ (fuel : Nat) (s : (famOfVariant v).σ) (src : List Nat) (budgets : List Budget) (t : ReplRes (famOfVariant v).σ),
      Reach v s → (∀ b ∈ src, b < 256) → replLoop (famOfVariant v) k last fuel s src budgets = some t →
      Reach v t.st := by
  intro fuel
  induction fuel with
  | zero => intro s src budgets t _ _ h; simp [replLoop] at h
  | succ fuel ih =>
    intro s src budgets t hr hb h
    rw [replLoop] at h
    have hr' := Reach.call k s src last (budgets.headD .unlimited) hr hb
    generalize call (famOfVariant v) k s src last (budgets.headD .unlimited) = r at h hr'
    unfold replStep at h
    cases hres : r.res with
    | malformed l a =>
      simp only [hres] at h
      cases hrec : replLoop (famOfVariant v) k last fuel r.st (src.drop r.read) budgets.tail with
      | none => rw [hrec] at h; cases h
      | some t' =>
        rw [hrec] at h; simp only [Option.some.injEq] at h; subst h
        exact ih r.st (src.drop r.read) budgets.tail t' hr' (fun b hb' => hb b (List.mem_of_mem_drop hb')) hrec
    | inputEmpty => simp only [hres, Option.some.injEq] at h; subst h; exact hr'
    | outputFull => simp only [hres, Option.some.injEq] at h; subst h; exact hr'


/-! ### admissibility of a stop policy for the capacities the code computes -/

/-- every round of the loop of `decode_without_bom_handling` runs a replacement loop all of whose inner
raw calls are admissible for what is left of the spare capacity of that round
(`Lemmas.Potential.ReplAdmissible`); the next round's spare capacity is the one `growLoopCap` computes -/
def GrowAdmissible (v : Gen.Variant) (ifuel : Nat) :
    Nat → (famOfVariant v).σ → List Nat → Nat → List Nat → List (List Budget) → Prop
  | 0, _, _, _, _, _ => True
  | fuel + 1, s, src, spare, slack, bs =>
    ReplAdmissible (famOfVariant v) .utf8 true ifuel s src (bs.headD []) spare ∧
    ∀ t needed, replLoop (famOfVariant v) .utf8 true ifuel s src (bs.headD []) = some t → t.res = .outputFull →
      variantMax .utf8 v t.st (src.length - t.read) = some needed →
      GrowAdmissible v ifuel fuel t.st (src.drop t.read)
        (max (spare - unitsOfList .utf8 t.out) needed + slack.headD 0) slack.tail bs.tail

/-- the stop policy `bs` of `decodeWithoutBomHandlingCap` is admissible for the capacities it computes -/
def DecodeAdmissible (v : Gen.Variant) (bytes : List Nat) (fuel : Nat) (slack : List Nat)
    (bs : List (List Budget)) : Prop :=
  if isPotentiallyBorrowable v then
    ∀ c, firstCapacity v (OneShot.validUpTo v bytes) (bytes.length - OneShot.validUpTo v bytes) = some c →
      GrowAdmissible v fuel fuel (famOfVariant v).init (bytes.drop (OneShot.validUpTo v bytes))
        (c + slack.headD 0 - OneShot.validUpTo v bytes) slack.tail bs
  else
    ∀ c, firstCapacityNB v bytes.length = some c →
      GrowAdmissible v fuel fuel (famOfVariant v).init bytes (c + slack.headD 0) slack.tail bs

/-- the single `decode_to_string_without_replacement` call of the without-replacement form is
admissible for the spare capacity of the `String` the code allocated (`slack` = what the
allocator granted beyond the request) -/
def NoReplAdmissible (v : Gen.Variant) (bytes : List Nat) (slack : Nat) (budget : Budget) : Prop :=
  ∀ c, noReplCapacity v bytes = some c →
    Admissible (famOfVariant v) .utf8 (noReplSpare v bytes c slack)
      (call (famOfVariant v) .utf8 (famOfVariant v).init (noReplInput v bytes) true budget)

/-! ### the capacity-aware functions refine the budget-parametrised ones -/

theorem growLoopCap_ok (v : Gen.Variant) (ifuel : Nat) :
    ∀ (fuel : Nat) (s : (famOfVariant v).σ) (src : List Nat) (spare : Nat) (slack : List Nat)
      (bs : List (List Budget)) (p : List Nat × Bool),
      growLoopCap v ifuel fuel s src spare slack bs = .ok p →
      growLoop (famOfVariant v) ifuel fuel s src bs = some p := by
  intro fuel
  induction fuel with
  | zero => intro s src spare slack bs p h; simp [growLoopCap] at h
  | succ fuel ih =>
    intro s src spare slack bs p h
    rw [growLoopCap] at h
    rw [growLoop]
    cases hrl : replLoop (famOfVariant v) .utf8 true ifuel s src (bs.headD []) with
    | none => rw [hrl] at h; cases h
    | some t =>
      rw [hrl] at h
      simp only at h ⊢
      cases hres : t.res with
      | inputEmpty =>
        simp only [hres] at h ⊢
        cases h; rfl
      | malformed l a => simp only [hres] at h; cases h
      | outputFull =>
        simp only [hres] at h ⊢
        cases hq : variantMax .utf8 v t.st (src.length - t.read) with
        | none => rw [hq] at h; cases h
        | some needed =>
          rw [hq] at h
          simp only at h
          cases hrec : growLoopCap v ifuel fuel t.st (src.drop t.read)
              (max (spare - unitsOfList .utf8 t.out) needed + slack.headD 0) slack.tail bs.tail with
          | panic => rw [hrec] at h; cases h
          | diverges => rw [hrec] at h; cases h
          | ok q =>
            obtain ⟨o, e⟩ := q
            rw [hrec] at h
            simp only at h
            rw [ih _ _ _ _ _ (o, e) hrec]
            cases h; rfl

theorem map_ok {α β : Type} (f : α → β) (x : Outcome α) (b : β) (h : x.map f = .ok b) :
    ∃ a, x = .ok a ∧ f a = b := by
  cases x with
  | ok a => simp only [Outcome.map, Outcome.ok.injEq] at h; exact ⟨a, rfl, h⟩
  | panic => cases h
  | diverges => cases h

/-- whenever the capacity-aware function returns, the budget-parametrised one returns the same:
every equality / borrow theorem of `Thm.C11` applies to it -/
theorem decodeWithoutBomHandlingCap_ok (v : Gen.Variant) (bytes : List Nat) (fuel : Nat) (slack : List Nat)
    (bs : List (List Budget)) (r : OneShot.Res)
    (h : decodeWithoutBomHandlingCap v bytes fuel slack bs = .ok r) :
    decodeWithoutBomHandling v bytes fuel bs = some r := by
  unfold decodeWithoutBomHandlingCap at h
  unfold decodeWithoutBomHandling
  by_cases hb : isPotentiallyBorrowable v = true
  · simp only [hb, if_true] at h ⊢
    by_cases hn : OneShot.validUpTo v bytes = bytes.length
    · simp only [hn, if_true] at h ⊢
      cases h; rfl
    · simp only [hn, if_false] at h ⊢
      cases hc : firstCapacity v (OneShot.validUpTo v bytes) (bytes.length - OneShot.validUpTo v bytes) with
      | none => rw [hc] at h; cases h
      | some c =>
        rw [hc] at h
        simp only at h
        obtain ⟨p, hp, hf⟩ := map_ok _ _ _ h
        rw [growLoopCap_ok v fuel fuel _ _ _ _ _ p hp]
        obtain ⟨o, e⟩ := p
        simp only at hf ⊢
        rw [hf]
  · simp only [hb, Bool.false_eq_true, if_false] at h ⊢
    cases hc : firstCapacityNB v bytes.length with
    | none => rw [hc] at h; cases h
    | some c =>
      rw [hc] at h
      simp only at h
      obtain ⟨p, hp, hf⟩ := map_ok _ _ _ h
      rw [growLoopCap_ok v fuel fuel _ _ _ _ _ p hp]
      obtain ⟨o, e⟩ := p
      simp only at hf ⊢
      rw [hf]

theorem validUpToNoRepl_eq (v : Gen.Variant) (h8 : v ≠ .utf8) (bytes : List Nat) :
    validUpToNoRepl v bytes = OneShot.validUpTo v bytes := by
  unfold validUpToNoRepl OneShot.validUpTo
  simp [h8]

/-- the without-replacement form: the capacity arithmetic only adds the `panic` outcome -/
theorem noReplCap_ok (v : Gen.Variant) (bytes : List Nat) (budget : Budget) (r : NoRepl)
    (h : decodeWithoutBomHandlingAndWithoutReplacementCap v bytes budget = .ok r) :
    decodeWithoutBomHandlingAndWithoutReplacement v bytes budget = r := by
  unfold decodeWithoutBomHandlingAndWithoutReplacementCap at h
  unfold decodeWithoutBomHandlingAndWithoutReplacement
  by_cases h8 : v = .utf8
  · simp only [h8, if_true] at h ⊢
    split at h <;> (cases h; simp only [*, if_true, if_false])
  · simp only [h8, if_false] at h ⊢
    by_cases hb : isPotentiallyBorrowable v = true
    · simp only [hb, if_true] at h ⊢
      have hv : validUpToNoRepl v bytes = (if v = .iso2022Jp then iso2022JpAsciiValidUpTo bytes else asciiValidUpTo bytes) := rfl
      rw [← hv]
      by_cases hn : validUpToNoRepl v bytes = bytes.length
      · simp only [hn, if_true] at h ⊢
        cases h; rfl
      · simp only [hn, if_false] at h ⊢
        cases hc : noReplCapacity v bytes with
        | none => rw [hc] at h; cases h
        | some c =>
          rw [hc] at h
          simp only at h
          split at h <;> (cases h; simp only [*])
    · simp only [hb, Bool.false_eq_true, if_false] at h ⊢
      cases hc : noReplCapacity v bytes with
      | none => rw [hc] at h; cases h
      | some c =>
        rw [hc] at h
        simp only at h
        split at h <;> (cases h; simp only [*])


/-! ### the queries do not overflow for lengths up to about `usize::MAX / 3` -/
open EncodingRs.Lemmas.MaxLenArith

theorem gbCount_le (p : GbPending) : gbCount p ≤ 3 := by cases p <;> simp [gbCount]

theorem isoExtraOut_le (s : Iso2022JpSt) : iso2022JpExtraToOutputFromState s ≤ 2 := by
  unfold iso2022JpExtraToOutputFromState
  repeat' split
  all_goals omega

theorem isoInNat_le (s : Iso2022JpSt) (n : Nat) : isoInNat s n ≤ n + 2 := by
  unfold isoInNat
  repeat' split
  all_goals omega

theorem utf16Additional_le (s : Utf16St) : utf16AdditionalFromState s ≤ 4 := by
  unfold utf16AdditionalFromState
  repeat' split
  all_goals omega

theorem leadLenNat_le (s : Option Nat) (n : Nat) : leadLenNat s n ≤ n + 1 := by
  unfold leadLenNat; split <;> omega

theorem eucJpLenNat_le (s : EucJpSt) (n : Nat) : eucJpLenNat s n ≤ n + 1 := by
  unfold eucJpLenNat; split <;> omega

theorem utf8Extra_le (s : Utf8St) (hi : EncodingRs.Lemmas.Scalar.utf8Inv s) : utf8ExtraFromState s ≤ 3 := by
  unfold utf8ExtraFromState
  unfold EncodingRs.Lemmas.Scalar.utf8Inv at hi
  split
  · omega
  · rcases hi with h | h | h | h | h | h | h <;> omega

/-- in every state satisfying the invariant (every reachable state), the value of the two UTF-8
queries and the largest intermediate result of their checked arithmetic are at most `3 * n + 13` -/
theorem variantQuery_le (q : Query) (hq : q = .utf8 ∨ q = .utf8NoRepl) (v : Gen.Variant)
    (s : (famOfVariant v).σ) (n : Nat) (hi : variantInv v s) :
    variantNat q v s n ≤ 3 * n + 13 ∧ variantOvf q v s n ≤ 3 * n + 13 := by
  rcases hq with rfl | rfl
  · cases v with
    | singleByte t a b c =>
      show singleByteUtf8Nat s n ≤ _ ∧ singleByteUtf8Nat s n ≤ _
      unfold singleByteUtf8Nat; omega
    | utf8 =>
      have := utf8Extra_le s hi
      show utf8Utf8Nat s n ≤ _ ∧ utf8Utf8Nat s n ≤ _
      unfold utf8Utf8Nat; omega
    | gbk =>
      have := gbCount_le (s : GbSt).pending
      show gbUtf8Nat s n ≤ _ ∧ gbUtf8Nat s n ≤ _
      unfold gbUtf8Nat gbExtraNat; split <;> omega
    | gb18030 =>
      have := gbCount_le (s : GbSt).pending
      show gbUtf8Nat s n ≤ _ ∧ gbUtf8Nat s n ≤ _
      unfold gbUtf8Nat gbExtraNat; split <;> omega
    | big5 =>
      have := leadLenNat_le s n
      show big5Utf8Nat s n ≤ _ ∧ big5Utf8Nat s n ≤ _
      unfold big5Utf8Nat; omega
    | eucJp =>
      have := eucJpLenNat_le s n
      show eucJpUtf8Nat s n ≤ _ ∧ eucJpUtf8Nat s n ≤ _
      unfold eucJpUtf8Nat; omega
    | iso2022Jp =>
      have := isoExtraOut_le s
      have := isoInNat_le s n
      show isoUtf8Nat s n ≤ _ ∧ isoUtf8Nat s n ≤ _
      unfold isoUtf8Nat; omega
    | shiftJis =>
      have := leadLenNat_le s n
      show shiftJisUtf8Nat s n ≤ _ ∧ shiftJisUtf8Nat s n ≤ _
      unfold shiftJisUtf8Nat; omega
    | eucKr =>
      have := leadLenNat_le s n
      show eucKrUtf8Nat s n ≤ _ ∧ eucKrUtf8Nat s n ≤ _
      unfold eucKrUtf8Nat; omega
    | replacement =>
      show replacementUtf8Nat s n ≤ _ ∧ 0 ≤ _
      unfold replacementUtf8Nat; omega
    | utf16Be =>
      have := utf16Additional_le s
      show utf16Utf8Nat s n ≤ _ ∧ max (utf16SumNat s n) (utf16Utf8Nat s n) ≤ _
      rw [Nat.max_le]
      unfold utf16Utf8Nat utf16SumNat; omega
    | utf16Le =>
      have := utf16Additional_le s
      show utf16Utf8Nat s n ≤ _ ∧ max (utf16SumNat s n) (utf16Utf8Nat s n) ≤ _
      rw [Nat.max_le]
      unfold utf16Utf8Nat utf16SumNat; omega
    | userDefined =>
      show userDefinedUtf8Nat s n ≤ _ ∧ userDefinedUtf8Nat s n ≤ _
      unfold userDefinedUtf8Nat; omega
  · cases v with
    | singleByte t a b c =>
      show singleByteUtf8NoReplNat s n ≤ _ ∧ singleByteUtf8NoReplNat s n ≤ _
      unfold singleByteUtf8NoReplNat; omega
    | utf8 =>
      have := utf8Extra_le s hi
      show utf8Utf8NoReplNat s n ≤ _ ∧ utf8Utf8NoReplNat s n ≤ _
      unfold utf8Utf8NoReplNat; omega
    | gbk =>
      have := gbCount_le (s : GbSt).pending
      show gbUtf8NoReplNat s n ≤ _ ∧ gbUtf8NoReplNat s n ≤ _
      unfold gbUtf8NoReplNat gbExtraNat; split <;> omega
    | gb18030 =>
      have := gbCount_le (s : GbSt).pending
      show gbUtf8NoReplNat s n ≤ _ ∧ gbUtf8NoReplNat s n ≤ _
      unfold gbUtf8NoReplNat gbExtraNat; split <;> omega
    | big5 =>
      have := leadLenNat_le s n
      show big5Utf8NoReplNat s n ≤ _ ∧ big5Utf8NoReplNat s n ≤ _
      unfold big5Utf8NoReplNat; omega
    | eucJp =>
      have := eucJpLenNat_le s n
      show eucJpUtf8NoReplNat s n ≤ _ ∧ eucJpUtf8NoReplNat s n ≤ _
      unfold eucJpUtf8NoReplNat; omega
    | iso2022Jp =>
      have := isoExtraOut_le s
      have := isoInNat_le s n
      show isoUtf8NoReplNat s n ≤ _ ∧ isoUtf8NoReplNat s n ≤ _
      unfold isoUtf8NoReplNat; omega
    | shiftJis =>
      have := leadLenNat_le s n
      show shiftJisUtf8NoReplNat s n ≤ _ ∧ shiftJisUtf8NoReplNat s n ≤ _
      unfold shiftJisUtf8NoReplNat; omega
    | eucKr =>
      have := leadLenNat_le s n
      show eucKrUtf8NoReplNat s n ≤ _ ∧ eucKrUtf8NoReplNat s n ≤ _
      unfold eucKrUtf8NoReplNat; omega
    | replacement =>
      show replacementUtf8NoReplNat s n ≤ _ ∧ 0 ≤ _
      unfold replacementUtf8NoReplNat; omega
    | utf16Be =>
      have := utf16Additional_le s
      show utf16Utf8NoReplNat s n ≤ _ ∧ max (utf16SumNat s n) (utf16Utf8NoReplNat s n) ≤ _
      rw [Nat.max_le]
      unfold utf16Utf8NoReplNat utf16SumNat; omega
    | utf16Le =>
      have := utf16Additional_le s
      show utf16Utf8NoReplNat s n ≤ _ ∧ max (utf16SumNat s n) (utf16Utf8NoReplNat s n) ≤ _
      rw [Nat.max_le]
      unfold utf16Utf8NoReplNat utf16SumNat; omega
    | userDefined =>
      show userDefinedUtf8NoReplNat s n ≤ _ ∧ userDefinedUtf8NoReplNat s n ≤ _
      unfold userDefinedUtf8NoReplNat; omega

/-- hence: for `3 * n + 13 ≤ usize::MAX` the queries answer `Some` (no `.unwrap()` panic) -/
theorem variantMax_some_of_len (q : Query) (hq : q = .utf8 ∨ q = .utf8NoRepl) (v : Gen.Variant)
    (s : (famOfVariant v).σ) (n : Nat) (hi : variantInv v s) (hn : 3 * n + 13 ≤ usizeMax) :
    ∃ Q, variantMax q v s n = some Q ∧ Q ≤ 3 * n + 13 := by
  obtain ⟨h1, h2⟩ := variantQuery_le q hq v s n hi
  rw [variantMax_exact]
  have : variantOvf q v s n ≤ usizeMax := Nat.le_trans h2 hn
  simp only [this, if_true]
  exact ⟨_, rfl, h1⟩

/-- conversely a `None` answer means the length is above `(usize::MAX - 13) / 3` -/
theorem len_of_variantMax_none (q : Query) (hq : q = .utf8 ∨ q = .utf8NoRepl) (v : Gen.Variant)
    (s : (famOfVariant v).σ) (n : Nat) (hi : variantInv v s) (h : variantMax q v s n = none) :
    usizeMax < 3 * n + 13 := by
  apply Nat.lt_of_not_le
  intro hn
  obtain ⟨Q, hQ, _⟩ := variantMax_some_of_len q hq v s n hi hn
  rw [h] at hQ; cases hQ


/-! ### the loop of `decode_without_bom_handling`: at most one grow, no panic -/

/-- **no `needed.unwrap()` panic** in the loop for remaining lengths up to `(usize::MAX - 13) / 3`,
whatever the stop policy -/
theorem growLoopCap_no_panic (v : Gen.Variant) (ifuel : Nat) :
    ∀ (fuel : Nat) (s : (famOfVariant v).σ) (src : List Nat) (spare : Nat) (slack : List Nat)
      (bs : List (List Budget)), Reach v s → (∀ b ∈ src, b < 256) → 3 * src.length + 13 ≤ usizeMax →
      growLoopCap v ifuel fuel s src spare slack bs ≠ .panic := by
  intro fuel
  induction fuel with
  | zero => intro s src spare slack bs _ _ _ h; simp [growLoopCap] at h
  | succ fuel ih =>
    intro s src spare slack bs hr hb hlen h
    rw [growLoopCap] at h
    cases hrl : replLoop (famOfVariant v) .utf8 true ifuel s src (bs.headD []) with
    | none => rw [hrl] at h; cases h
    | some t =>
      rw [hrl] at h
      simp only at h
      have hr' := replLoop_reach v .utf8 true ifuel s src (bs.headD []) t hr hb hrl
      cases hres : t.res with
      | inputEmpty => simp only [hres] at h; cases h
      | malformed l a => simp only [hres] at h; cases h
      | outputFull =>
        simp only [hres] at h
        obtain ⟨Q, hQ, _⟩ := variantMax_some_of_len .utf8 (Or.inl rfl) v t.st (src.length - t.read)
          (variant_inv_reachable v t.st hr') (by omega)
        rw [hQ] at h
        simp only at h
        have hb' : ∀ b ∈ src.drop t.read, b < 256 := fun b hb' => hb b (List.mem_of_mem_drop hb')
        have hlen' : 3 * (src.drop t.read).length + 13 ≤ usizeMax := by rw [List.length_drop]; omega
        have := ih t.st (src.drop t.read) (max (spare - unitsOfList .utf8 t.out) Q + slack.headD 0) slack.tail bs.tail
          hr' hb' hlen'
        split at h
        · cases h
        · rename_i hp; exact this hp
        · cases h

/-- **"we should come here at most once per invocation"**: for EVERY admissible stop policy the loop
returns after at most two rounds — the capacity after the first `reserve` is at least
`max_utf8_buffer_length` of the remaining input in the decoder's state, so by C07 the second round
cannot end with `OutputFull`; each round's replacement loop terminates by C08.  The fuel of the
model (`2` rounds, `10 * len + 10` inner calls) suffices. -/
theorem growLoopCap_returns (v : Gen.Variant) (ifuel fuel : Nat) (s : (famOfVariant v).σ) (src : List Nat)
    (spare : Nat) (slack : List Nat) (bs : List (List Budget))
    (hr : Reach v s) (hb : ∀ b ∈ src, b < 256) (hif : 10 * src.length + 9 < ifuel) (hf : 2 ≤ fuel)
    (hadm : GrowAdmissible v ifuel fuel s src spare slack bs) :
    growLoopCap v ifuel fuel s src spare slack bs ≠ .diverges := by
  obtain ⟨f, rfl⟩ : ∃ f, fuel = f + 2 := ⟨fuel - 2, by omega⟩
  intro h
  rw [growLoopCap] at h
  simp only [GrowAdmissible] at hadm
  obtain ⟨t, ht, hres⟩ := variant_replLoop_terminates v .utf8 true ifuel s src (bs.headD []) hif
  rw [ht] at h
  simp only at h
  rcases hres with hres | hres
  · simp only [hres] at h; cases h
  · simp only [hres] at h
    cases hq : variantMax .utf8 v t.st (src.length - t.read) with
    | none => rw [hq] at h; cases h
    | some needed =>
      rw [hq] at h
      simp only at h
      have hadm2 := hadm.2 t needed ht hres hq
      have hr' := replLoop_reach v .utf8 true ifuel s src (bs.headD []) t hr hb ht
      have hb' : ∀ b ∈ src.drop t.read, b < 256 := fun b hb' => hb b (List.mem_of_mem_drop hb')
      have hlen : (src.drop t.read).length = src.length - t.read := List.length_drop
      -- second round
      rw [growLoopCap] at h
      obtain ⟨t', ht', hres'⟩ := variant_replLoop_terminates v .utf8 true ifuel t.st (src.drop t.read)
        (bs.tail.headD []) (by rw [hlen]; omega)
      rw [ht'] at h
      simp only at h
      have hnf : t'.res ≠ .outputFull :=
        reachable_repl_sufficient .utf8 (Or.inr rfl) v t.st hr' (src.drop t.read) true ifuel (bs.tail.headD [])
          (max (spare - unitsOfList .utf8 t.out) needed + slack.headD 0) needed t' hb'
          (by rw [hlen]; exact hq) (by have := Nat.le_max_right (spare - unitsOfList .utf8 t.out) needed; omega)
          hadm2.1 ht'
      rcases hres' with hres' | hres'
      · simp only [hres'] at h; cases h
      · exact hnf hres'

/-- the number of rounds: a policy that is admissible never makes the loop reserve twice.  Stated on
the model: with outer fuel 2 the result is the same as with any larger fuel (it is not `diverges`). -/
theorem growLoopCap_two_rounds (v : Gen.Variant) (ifuel : Nat) (s : (famOfVariant v).σ) (src : List Nat)
    (spare : Nat) (slack : List Nat) (bs : List (List Budget))
    (hr : Reach v s) (hb : ∀ b ∈ src, b < 256) (hif : 10 * src.length + 9 < ifuel)
    (hadm : GrowAdmissible v ifuel 2 s src spare slack bs) :
    growLoopCap v ifuel 2 s src spare slack bs ≠ .diverges :=
  growLoopCap_returns v ifuel 2 s src spare slack bs hr hb hif (Nat.le_refl _) hadm

/-! ### the first allocation -/

theorem checkedMin_none (a b : Option Nat) : checkedMin a b = none ↔ a = none ∧ b = none := by
  cases a <;> cases b <;> simp [checkedMin]

/-- `checked_min(…).unwrap()` of `decode_without_bom_handling` does not panic for lengths up to
`(usize::MAX - 13) / 3` -/
theorem firstCapacity_some (v : Gen.Variant) (n rem : Nat) (h : 3 * (n + rem) + 13 ≤ usizeMax) :
    ∃ c, firstCapacity v n rem = some c := by
  obtain ⟨Q, hQ, hle⟩ := variantMax_some_of_len .utf8 (Or.inl rfl) v (famOfVariant v).init rem
    (variantInv_init v) (by omega)
  cases hc : firstCapacity v n rem with
  | some c => exact ⟨c, rfl⟩
  | none =>
    exfalso
    unfold firstCapacity at hc
    simp only at hc
    rw [checkedMin_none] at hc
    have h2 := hc.2
    rw [hQ, addO_some, chk_of_le (by omega)] at h2
    cases h2

theorem firstCapacityNB_some (v : Gen.Variant) (len : Nat) (h : 3 * len + 13 ≤ usizeMax) :
    ∃ c, firstCapacityNB v len = some c := by
  obtain ⟨Q, hQ, hle⟩ := variantMax_some_of_len .utf8 (Or.inl rfl) v (famOfVariant v).init len
    (variantInv_init v) h
  cases hc : firstCapacityNB v len with
  | some c => exact ⟨c, rfl⟩
  | none =>
    exfalso
    unfold firstCapacityNB at hc
    rw [checkedMin_none] at hc
    have h2 := hc.2
    rw [hQ] at h2
    cases h2

theorem noReplCapacity_some (v : Gen.Variant) (bytes : List Nat) (h : 3 * bytes.length + 13 ≤ usizeMax)
    (hn : validUpToNoRepl v bytes ≤ bytes.length) : ∃ c, noReplCapacity v bytes = some c := by
  unfold noReplCapacity
  split
  · obtain ⟨Q, hQ, hle⟩ := variantMax_some_of_len .utf8NoRepl (Or.inr rfl) v (famOfVariant v).init
      (bytes.length - validUpToNoRepl v bytes) (variantInv_init v) (by omega)
    rw [hQ, addO_some, chk_of_le (by omega)]
    exact ⟨_, rfl⟩
  · obtain ⟨Q, hQ, _⟩ := variantMax_some_of_len .utf8NoRepl (Or.inr rfl) v (famOfVariant v).init
      bytes.length (variantInv_init v) h
    exact ⟨Q, hQ⟩

/-! ### `oneshot_no_unreachable` -/

/-- the capacity the without-replacement form allocates leaves at least
`max_utf8_buffer_length_without_replacement(remaining)` spare -/
theorem noReplSpare_ge (v : Gen.Variant) (bytes : List Nat) (c slack : Nat) (h : noReplCapacity v bytes = some c) :
    ∃ Q, variantMax .utf8NoRepl v (famOfVariant v).init (noReplInput v bytes).length = some Q ∧
      Q ≤ noReplSpare v bytes c slack := by
  unfold noReplCapacity at h
  unfold noReplSpare noReplInput
  by_cases hb : isPotentiallyBorrowable v = true
  · simp only [hb, if_true] at h ⊢
    rw [List.length_drop]
    cases hq : variantMax .utf8NoRepl v (famOfVariant v).init (bytes.length - validUpToNoRepl v bytes) with
    | none => rw [hq] at h; cases h
    | some Q =>
      rw [hq, addO_some] at h
      have := (chk_eq_some.mp h).2
      exact ⟨Q, rfl, by omega⟩
  · simp only [hb, Bool.false_eq_true, if_false] at h ⊢
    exact ⟨c, h, by omega⟩

/-- **the `unreachable!()` arm is never reached**: the single raw call of
`decode_without_bom_handling_and_without_replacement`, made by a fresh decoder into the spare
capacity the code computed, does not return `OutputFull` under ANY admissible stop policy -/
theorem noRepl_call_not_full (v : Gen.Variant) (bytes : List Nat) (slack : Nat) (budget : Budget) (c : Nat)
    (hb : ∀ b ∈ bytes, b < 256) (hc : noReplCapacity v bytes = some c)
    (hadm : NoReplAdmissible v bytes slack budget) :
    (call (famOfVariant v) .utf8 (famOfVariant v).init (noReplInput v bytes) true budget).res ≠ .outputFull := by
  obtain ⟨Q, hQ, hle⟩ := noReplSpare_ge v bytes c slack hc
  have hb' : ∀ b ∈ noReplInput v bytes, b < 256 := by
    unfold noReplInput
    split
    · exact fun b hb' => hb b (List.mem_of_mem_drop hb')
    · exact hb
  exact reachable_raw_sufficient .utf8NoRepl v (famOfVariant v).init Reach.init (noReplInput v bytes) true budget
    (noReplSpare v bytes c slack) Q hb' hQ hle (hadm c hc)

/-! ### executable admissibility checkers (for the non-vacuity examples) -/

def admissibleB (F : Fam) (k : Sink) (cap : Nat) (r : CallRes F.σ) : Bool :=
  decide (unitsOfList k r.out ≤ cap) &&
  (match r.res with
   | .outputFull => decide (cap < unitsOfList k r.out + r.stopNeed)
   | .malformed _ _ => decide (unitsOfList k r.out + replRoom k ≤ cap)
   | .inputEmpty => true)

theorem admissibleB_iff (F : Fam) (k : Sink) (cap : Nat) (r : CallRes F.σ) :
    admissibleB F k cap r = true ↔ Admissible F k cap r := by
  unfold admissibleB Admissible
  cases hres : r.res with
  | inputEmpty => simp
  | outputFull => simp
  | malformed l a => simp

def replAdmissibleB (F : Fam) (k : Sink) (last : Bool) : Nat → F.σ → List Nat → List Budget → Nat → Bool
  | 0, _, _, _, _ => true
  | fuel + 1, s, src, budgets, cap =>
    admissibleB F k cap (call F k s src last (budgets.headD .unlimited)) &&
    (match (call F k s src last (budgets.headD .unlimited)).res with
     | .malformed _ _ =>
       replAdmissibleB F k last fuel (call F k s src last (budgets.headD .unlimited)).st
         (src.drop (call F k s src last (budgets.headD .unlimited)).read) budgets.tail
         (cap - unitsOfList k (call F k s src last (budgets.headD .unlimited)).out - replRoom k)
     | _ => true)

theorem replAdmissibleB_sound (F : Fam) (k : Sink) (last : Bool) :
    ∀ (fuel : Nat) (s : F.σ) (src : List Nat) (budgets : List Budget) (cap : Nat),
      replAdmissibleB F k last fuel s src budgets cap = true → ReplAdmissible F k last fuel s src budgets cap := by
  intro fuel
  induction fuel with
  | zero => intro s src budgets cap _; trivial
  | succ fuel ih =>
    intro s src budgets cap h
    simp only [replAdmissibleB, Bool.and_eq_true] at h
    simp only [ReplAdmissible]
    refine ⟨(admissibleB_iff F k cap _).mp h.1, ?_⟩
    intro l a hres
    have h2 := h.2
    rw [hres] at h2
    exact ih _ _ _ _ h2

def growAdmissibleB (v : Gen.Variant) (ifuel : Nat) :
    Nat → (famOfVariant v).σ → List Nat → Nat → List Nat → List (List Budget) → Bool
  | 0, _, _, _, _, _ => true
  | fuel + 1, s, src, spare, slack, bs =>
    replAdmissibleB (famOfVariant v) .utf8 true ifuel s src (bs.headD []) spare &&
    (match replLoop (famOfVariant v) .utf8 true ifuel s src (bs.headD []) with
     | none => true
     | some t =>
       match t.res with
       | .outputFull =>
         match variantMax .utf8 v t.st (src.length - t.read) with
         | none => true
         | some needed =>
           growAdmissibleB v ifuel fuel t.st (src.drop t.read)
             (max (spare - unitsOfList .utf8 t.out) needed + slack.headD 0) slack.tail bs.tail
       | _ => true)

theorem growAdmissibleB_sound (v : Gen.Variant) (ifuel : Nat) :
    ∀ (fuel : Nat) (s : (famOfVariant v).σ) (src : List Nat) (spare : Nat) (slack : List Nat) (bs : List (List Budget)),
      growAdmissibleB v ifuel fuel s src spare slack bs = true → GrowAdmissible v ifuel fuel s src spare slack bs := by
  intro fuel
  induction fuel with
  | zero => intro s src spare slack bs _; trivial
  | succ fuel ih =>
    intro s src spare slack bs h
    simp only [growAdmissibleB, Bool.and_eq_true] at h
    simp only [GrowAdmissible]
    refine ⟨replAdmissibleB_sound _ _ _ _ _ _ _ _ h.1, ?_⟩
    intro t needed ht hres hq
    have h2 := h.2
    rw [ht] at h2
    simp only [hres, hq] at h2
    exact ih _ _ _ _ _ h2

def decodeAdmissibleB (v : Gen.Variant) (bytes : List Nat) (fuel : Nat) (slack : List Nat) (bs : List (List Budget)) : Bool :=
  if isPotentiallyBorrowable v then
    match firstCapacity v (OneShot.validUpTo v bytes) (bytes.length - OneShot.validUpTo v bytes) with
    | none => true
    | some c =>
      growAdmissibleB v fuel fuel (famOfVariant v).init (bytes.drop (OneShot.validUpTo v bytes))
        (c + slack.headD 0 - OneShot.validUpTo v bytes) slack.tail bs
  else
    match firstCapacityNB v bytes.length with
    | none => true
    | some c => growAdmissibleB v fuel fuel (famOfVariant v).init bytes (c + slack.headD 0) slack.tail bs

theorem decodeAdmissibleB_sound (v : Gen.Variant) (bytes : List Nat) (fuel : Nat) (slack : List Nat)
    (bs : List (List Budget)) (h : decodeAdmissibleB v bytes fuel slack bs = true) :
    DecodeAdmissible v bytes fuel slack bs := by
  unfold decodeAdmissibleB at h
  unfold DecodeAdmissible
  split
  · rename_i hb
    simp only [hb, if_true] at h
    intro c hc
    rw [hc] at h
    exact growAdmissibleB_sound _ _ _ _ _ _ _ _ h
  · rename_i hb
    simp only [hb] at h
    intro c hc
    rw [hc] at h
    exact growAdmissibleB_sound _ _ _ _ _ _ _ _ h

def noReplAdmissibleB (v : Gen.Variant) (bytes : List Nat) (slack : Nat) (budget : Budget) : Bool :=
  match noReplCapacity v bytes with
  | none => true
  | some c => admissibleB (famOfVariant v) .utf8 (noReplSpare v bytes c slack)
      (call (famOfVariant v) .utf8 (famOfVariant v).init (noReplInput v bytes) true budget)

theorem noReplAdmissibleB_iff (v : Gen.Variant) (bytes : List Nat) (slack : Nat) (budget : Budget) :
    noReplAdmissibleB v bytes slack budget = true ↔ NoReplAdmissible v bytes slack budget := by
  unfold noReplAdmissibleB NoReplAdmissible
  cases hc : noReplCapacity v bytes with
  | none => simp
  | some c => simp [admissibleB_iff]

end EncodingRs.Lemmas.OneShotCap
