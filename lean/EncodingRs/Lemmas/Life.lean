import EncodingRs.Model.Decoder
import EncodingRs.Lemmas.FamLaws
/-!
Reference semantics of a `Decoder` (BOM life cycle around a variant decoder)
and soundness of every `Decoder` call against it (C10, and C02 at the
`Decoder` level).
-/
namespace EncodingRs.Lemmas.Life
open EncodingRs EncodingRs.Model EncodingRs.Lemmas.Core EncodingRs.Lemmas.FamLaws

variable {F : Fam}

def curRef : Cur F → List Nat → Nat → List Ev
  | .nominal s, rem, pos => ref F s rem pos
  | .utf8 s, rem, pos => ref utf8Fam s rem pos
  | .utf16be s, rem, pos => ref (utf16Fam true) s rem pos
  | .utf16le s, rem, pos => ref (utf16Fam false) s rem pos

/-- bytes of the stream the decoder has acknowledged but not yet decoded -/
def withheld : Life → Nat
  | .seenUtf8First | .seenUtf16BeFirst | .seenUtf16LeFirst | .convertingWithPendingBB => 1
  | .seenUtf8Second => 2
  | _ => 0

/-- What a `Decoder` in state `d`, having consumed `pos` bytes of the stream,
says about the remaining stream `rem` — the documented BOM semantics. -/
def dref (d : Decoder F) (rem : List Nat) (pos : Nat) : List Ev :=
  match d.life with
  | .converting => curRef d.cur rem pos
  | .finished => []
  | .convertingWithPendingBB => curRef d.cur (0xBB :: rem) (pos - 1)
  | .atStart =>
    match rem with
    | 0xEF :: 0xBB :: 0xBF :: rest => ref utf8Fam utf8Fam.init rest (pos + 3)
    | 0xFE :: 0xFF :: rest => ref (utf16Fam true) (utf16Fam true).init rest (pos + 2)
    | 0xFF :: 0xFE :: rest => ref (utf16Fam false) (utf16Fam false).init rest (pos + 2)
    | _ => curRef d.cur rem pos
  | .atUtf8Start =>
    match rem with
    | 0xEF :: 0xBB :: 0xBF :: rest => ref utf8Fam utf8Fam.init rest (pos + 3)
    | _ => curRef d.cur rem pos
  | .atUtf16BeStart =>
    match rem with
    | 0xFE :: 0xFF :: rest => ref (utf16Fam true) (utf16Fam true).init rest (pos + 2)
    | _ => curRef d.cur rem pos
  | .atUtf16LeStart =>
    match rem with
    | 0xFF :: 0xFE :: rest => ref (utf16Fam false) (utf16Fam false).init rest (pos + 2)
    | _ => curRef d.cur rem pos
  | .seenUtf8First =>
    match rem with
    | 0xBB :: 0xBF :: rest => ref utf8Fam utf8Fam.init rest (pos + 2)
    | _ => curRef d.cur (0xEF :: rem) (pos - 1)
  | .seenUtf8Second =>
    match rem with
    | 0xBF :: rest => ref utf8Fam utf8Fam.init rest (pos + 1)
    | _ => curRef d.cur (0xEF :: 0xBB :: rem) (pos - 2)
  | .seenUtf16BeFirst =>
    match rem with
    | 0xFF :: rest => ref (utf16Fam true) (utf16Fam true).init rest (pos + 1)
    | _ => curRef d.cur (0xFE :: rem) (pos - 1)
  | .seenUtf16LeFirst =>
    match rem with
    | 0xFE :: rest => ref (utf16Fam false) (utf16Fam false).init rest (pos + 1)
    | _ => curRef d.cur (0xFF :: rem) (pos - 1)

/-- `call_sound` for whichever decoder is current -/
theorem cur_call_sound (k : Sink) (L : Laws F) (c : Cur F) (src rest : List Nat) (pos : Nat) (last : Bool)
    (b : Budget) (hl : last = true → rest = []) :
    (c.call k src last b).out.map Ev.cp ++ resEv (pos + (c.call k src last b).read) (c.call k src last b).res
      ++ curRef (c.call k src last b).cur (src.drop (c.call k src last b).read ++ rest)
          (pos + (c.call k src last b).read)
      = curRef c (src ++ rest) pos := by
  cases c with
  | nominal s => exact call_sound F k L last src s b pos rest hl
  | utf8 s => exact call_sound utf8Fam k utf8_laws last src s b pos rest hl
  | utf16be s => exact call_sound (utf16Fam true) k (utf16_laws true) last src s b pos rest hl
  | utf16le s => exact call_sound (utf16Fam false) k (utf16_laws false) last src s b pos rest hl

theorem cur_call_final (k : Sink) (L : Laws F) (c : Cur F) (src : List Nat) (b : Budget)
    (h : (c.call k src true b).res = .inputEmpty) (p : Nat) :
    (c.call k src true b).read = src.length ∧ curRef (c.call k src true b).cur [] p = [] := by
  have key : ∀ (G : Fam) (LG : Laws G) (s : G.σ), (call G k s src true b).res = .inputEmpty →
      (call G k s src true b).read = src.length ∧ ref G (call G k s src true b).st [] p = [] := by
    intro G LG s hres
    refine ⟨call_inputEmpty G k src s true b hres, ?_⟩
    have hk : G.eof (call G k s src true b).st = none ∧ G.pend (call G k s src true b).st = none := by
      unfold call at hres ⊢
      cases hp : G.pend s with
      | none => simp only [hp] at hres ⊢; exact run_final G k LG src s b hp hres
      | some q =>
        obtain ⟨o, s'⟩ := q
        simp only [hp] at hres ⊢
        by_cases hz : b.isZero = true
        · simp [hz] at hres
        · simp only [hz, Bool.false_eq_true, if_false] at hres ⊢
          exact run_final G k LG src s' b.dec (LG.pend_once s o s' hp) hres
    rw [ref_nil G _ _ hk.2, hk.1]
  cases c with
  | nominal s => exact key F L s h
  | utf8 s => exact key utf8Fam utf8_laws s h
  | utf16be s => exact key (utf16Fam true) (utf16_laws true) s h
  | utf16le s => exact key (utf16Fam false) (utf16_laws false) s h

end EncodingRs.Lemmas.Life

namespace EncodingRs.Lemmas.Life
open EncodingRs EncodingRs.Model EncodingRs.Lemmas.Core EncodingRs.Lemmas.FamLaws
variable {F : Fam}

/-- soundness of a `Decoder` call result against `dref`; `pos` = bytes consumed before the call
(withheld bytes included), `ref0` = what the decoder state before the call says about `src ++ rest` -/
def DSound (src rest : List Nat) (pos : Nat) (ref0 : List Ev) : DRes F → Prop
  | .panic => True
  | .ok res read out d' _ =>
    out.map Ev.cp ++ resEv (pos + read) res ++ dref d' (src.drop read ++ rest) (pos + read) = ref0
    ∧ withheld d'.life ≤ pos + read

theorem resEv_append_nil (pos : Nat) (res : Res) (h : res = .inputEmpty ∨ res = .outputFull) : resEv pos res = [] := by
  cases h with
  | inl h => rw [h]; rfl
  | inr h => rw [h]; rfl

/-- `$decode_to_utf_checking_end` (also `…_with_offset`): the first `offset` bytes of `src` are a BOM
(or nothing), `preOut` was written by a preceding replay -/
theorem checkingEnd_sound (k : Sink) (L : Laws F) (c : Cur F) (src rest : List Nat) (pos : Nat) (last : Bool)
    (b : Budget) (offset : Nat) (pre : List (List Nat × Res × Nat)) (preOut : List Nat)
    (hl : last = true → rest = []) :
    DSound src rest pos (preOut.map Ev.cp ++ curRef c (src.drop offset ++ rest) (pos + offset))
      (checkingEnd k c src last b offset pre preOut) := by
  unfold checkingEnd DSound
  simp only
  have hs := cur_call_sound k L c (src.drop offset) rest (pos + offset) last b hl
  cases last with
  | false =>
    generalize c.call k (src.drop offset) false b = r at hs ⊢
    simp only [Bool.false_eq_true, false_and, if_false]
    refine ⟨?_, by simp [withheld]⟩
    rw [← hs]
    simp only [dref, List.map_append, List.append_assoc, List.drop_drop]
    have e1 : pos + (r.read + offset) = pos + offset + r.read := by omega
    have e2 : offset + r.read = r.read + offset := by omega
    rw [e1, e2]
  | true =>
    have hrest : rest = [] := hl rfl
    subst hrest
    have hf := fun h p => cur_call_final k L c (src.drop offset) b h p
    generalize c.call k (src.drop offset) true b = r at hs hf ⊢
    simp only [true_and]
    by_cases hres : r.res = .inputEmpty
    · obtain ⟨hread, hnil⟩ := hf hres (pos + offset + r.read)
      simp only [hres, if_true]
      refine ⟨?_, by simp [withheld]⟩
      have hd : List.drop r.read (List.drop offset src) = [] := by
        rw [hread]; exact List.drop_length
      rw [← hs, hd, List.nil_append, hnil, hres]
      simp only [dref, resEv, List.map_append, List.append_assoc, List.append_nil]
    · simp only [hres, if_false]
      refine ⟨?_, by simp [withheld]⟩
      rw [← hs]
      simp only [dref, List.map_append, List.append_assoc, List.drop_drop]
      have e1 : pos + (r.read + offset) = pos + offset + r.read := by omega
      have e2 : offset + r.read = r.read + offset := by omega
      rw [e1, e2]

end EncodingRs.Lemmas.Life

namespace EncodingRs.Lemmas.Life
open EncodingRs EncodingRs.Model EncodingRs.Lemmas.Core EncodingRs.Lemmas.FamLaws
variable {F : Fam}

theorem cur_call_inputEmpty (k : Sink) (c : Cur F) (src : List Nat) (last : Bool) (b : Budget)
    (h : (c.call k src last b).res = .inputEmpty) : (c.call k src last b).read = src.length := by
  cases c with
  | nominal s => exact call_inputEmpty F k src s last b h
  | utf8 s => exact call_inputEmpty utf8Fam k src s last b h
  | utf16be s => exact call_inputEmpty (utf16Fam true) k src s last b h
  | utf16le s => exact call_inputEmpty (utf16Fam false) k src s last b h

theorem cur_call_outputFull_lt (k : Sink) (c : Cur F) (src : List Nat) (b : Budget)
    (h : (c.call k src false b).res = .outputFull) (hne : src ≠ []) : (c.call k src false b).read < src.length := by
  cases c with
  | nominal s => exact call_outputFull_lt F k src s b h hne
  | utf8 s => exact call_outputFull_lt utf8Fam k src s b h hne
  | utf16be s => exact call_outputFull_lt (utf16Fam true) k src s b h hne
  | utf16le s => exact call_outputFull_lt (utf16Fam false) k src s b h hne

/-- `$decode_to_utf_after_one_potential_bom_byte` with `offset == 0`: one byte `fb` was withheld -/
theorem afterOne_sound (k : Sink) (L : Laws F) (c : Cur F) (src rest : List Nat) (pos : Nat) (last : Bool)
    (fb : Nat) (b1 b2 : Budget) (hl : last = true → rest = []) (hpos : 1 ≤ pos)
    (hno : ∀ l a, (c.call k [fb] false b1).res = .malformed l a → (c.call k [fb] false b1).read = 1) :
    DSound src rest pos (curRef c (fb :: (src ++ rest)) (pos - 1)) (afterOne k c src last fb b1 b2) := by
  unfold afterOne
  have hs1 := cur_call_sound k L c [fb] (src ++ rest) (pos - 1) false b1 (by intro h; cases h)
  have hie := cur_call_inputEmpty k c [fb] false b1
  have hof := fun h => cur_call_outputFull_lt k c [fb] b1 h (by simp)
  generalize c.call k [fb] false b1 = r1 at hs1 hie hof hno ⊢
  simp only
  cases hres : r1.res with
  | inputEmpty =>
    simp only
    have hread : r1.read = 1 := by simpa using hie hres
    have hce := checkingEnd_sound k L r1.cur src rest pos last b2 0 [(r1.out, r1.res, r1.stopNeed)] r1.out hl
    rw [hres] at hs1
    simp only [hread, resEv, List.append_nil, List.drop_succ_cons, List.drop_zero, List.nil_append,
      List.singleton_append, List.cons_append] at hs1
    have e : pos - 1 + 1 = pos := by omega
    rw [e] at hs1
    simp only [List.drop_zero, Nat.add_zero] at hce
    rw [hs1] at hce
    exact hce
  | malformed l a =>
    simp only
    have hread : r1.read = 1 := hno l a hres
    unfold DSound
    refine ⟨?_, by simp [withheld]⟩
    rw [hres] at hs1
    simp only [hread, List.drop_succ_cons, List.drop_zero, List.nil_append, List.singleton_append,
      List.cons_append] at hs1
    have e : pos - 1 + 1 = pos := by omega
    rw [e] at hs1
    simp only [dref, List.drop_zero, Nat.add_zero]
    exact hs1
  | outputFull =>
    simp only
    split
    · rename_i hbb
      unfold DSound
      have hread : r1.read = 0 := by
        have := hof hres; simp only [List.length_singleton] at this; omega
      refine ⟨?_, by simp [withheld]; omega⟩
      rw [hres] at hs1
      simp only [hread, resEv, List.append_nil, List.drop_zero, Nat.add_zero, List.singleton_append,
        List.cons_append, List.nil_append] at hs1
      simp only [dref, resEv, List.append_nil, List.drop_zero, Nat.add_zero]
      rw [← hbb]
      exact hs1
    · trivial

theorem cur_call_read_le (k : Sink) (c : Cur F) (src : List Nat) (last : Bool) (b : Budget)
    (halt : ∀ s src m r, F.alt s src = some (m, r) → m ≤ src.length) : (c.call k src last b).read ≤ src.length := by
  cases c with
  | nominal s => exact call_read_le F k src s last b halt
  | utf8 s => exact call_read_le utf8Fam k src s last b (fun s src m r h => by cases h)
  | utf16be s =>
    exact call_read_le (utf16Fam true) k src s last b (fun s src m r h => (utf16_alt_sound true s src m r h).1)
  | utf16le s =>
    exact call_read_le (utf16Fam false) k src s last b (fun s src m r h => (utf16_alt_sound false s src m r h).1)

/-- `$decode_to_utf_after_two_potential_bom_bytes` with `offset == 0`: `EF BB` were withheld -/
theorem afterTwo_sound (k : Sink) (L : Laws F) (c : Cur F) (src rest : List Nat) (pos : Nat) (last : Bool)
    (b1 b2 : Budget) (hl : last = true → rest = []) (hpos : 2 ≤ pos)
    (halt : ∀ s src m r, F.alt s src = some (m, r) → m ≤ src.length)
    (hno : ∀ l a, (c.call k [0xEF, 0xBB] false b1).res = .malformed l a → 1 ≤ (c.call k [0xEF, 0xBB] false b1).read) :
    DSound src rest pos (curRef c (0xEF :: 0xBB :: (src ++ rest)) (pos - 2)) (afterTwo k c src last b1 b2) := by
  unfold afterTwo
  have hs1 := cur_call_sound k L c [0xEF, 0xBB] (src ++ rest) (pos - 2) false b1 (by intro h; cases h)
  have hie := cur_call_inputEmpty k c [0xEF, 0xBB] false b1
  have hle : (c.call k [0xEF, 0xBB] false b1).read ≤ 2 := cur_call_read_le k c _ false b1 halt
  have hof := fun h => cur_call_outputFull_lt k c [0xEF, 0xBB] b1 h (by simp)
  generalize c.call k [0xEF, 0xBB] false b1 = r1 at hs1 hie hof hno hle ⊢
  simp only
  cases hres : r1.res with
  | inputEmpty =>
    simp only
    have hread : r1.read = 2 := by simpa using hie hres
    have hce := checkingEnd_sound k L r1.cur src rest pos last b2 0 [(r1.out, r1.res, r1.stopNeed)] r1.out hl
    rw [hres] at hs1
    simp only [hread, resEv, List.append_nil, List.drop_succ_cons, List.drop_zero, List.nil_append,
      List.cons_append] at hs1
    have e : pos - 2 + 2 = pos := by omega
    rw [e] at hs1
    simp only [List.drop_zero, Nat.add_zero] at hce
    rw [hs1] at hce
    exact hce
  | malformed l a =>
    simp only
    have h1 : 1 ≤ r1.read := hno l a hres
    rw [hres] at hs1
    by_cases hr1 : r1.read = 1
    · simp only [hr1, if_true]
      unfold DSound
      refine ⟨?_, by simp [withheld]; omega⟩
      simp only [hr1, List.drop_succ_cons, List.drop_zero, List.cons_append, List.nil_append] at hs1
      simp only [dref, List.drop_zero, Nat.add_zero, resEv, mkErr]
      rw [← hs1]
      simp only [resEv, mkErr]
      have e1 : pos - 2 + 1 = pos - 1 := by omega
      have e2 : pos - (a + 1) - l = pos - 1 - a - l := by omega
      rw [e1, e2]
    · have hr2 : r1.read = 2 := by omega
      simp only [hr1, if_false]
      unfold DSound
      refine ⟨?_, by simp [withheld]⟩
      simp only [hr2, List.drop_succ_cons, List.drop_zero, List.cons_append, List.nil_append] at hs1
      have e : pos - 2 + 2 = pos := by omega
      rw [e] at hs1
      simp only [dref, List.drop_zero, Nat.add_zero]
      exact hs1
  | outputFull =>
    simp only
    split
    · rename_i hr1
      unfold DSound
      refine ⟨?_, by simp [withheld]; omega⟩
      rw [hres] at hs1
      simp only [hr1, resEv, List.append_nil, List.drop_succ_cons, List.drop_zero, List.cons_append,
        List.nil_append] at hs1
      simp only [dref, resEv, List.append_nil, List.drop_zero, Nat.add_zero]
      have e1 : pos - 2 + 1 = pos - 1 := by omega
      rw [e1] at hs1
      exact hs1
    · trivial

end EncodingRs.Lemmas.Life

namespace EncodingRs.Lemmas.Life
open EncodingRs EncodingRs.Model EncodingRs.Lemmas.Core EncodingRs.Lemmas.FamLaws
variable {F : Fam}

/-- the UTF-8 BOM rule: `dref` of the `AtUtf8Start` state -/
def sniff8 (c : Cur F) (rem : List Nat) (pos : Nat) : List Ev :=
  match rem with
  | 0xEF :: 0xBB :: 0xBF :: t => ref utf8Fam utf8Fam.init t (pos + 3)
  | _ => curRef c rem pos

/-- the UTF-16 BOM rule for one byte order -/
def sniff16 (be : Bool) (c : Cur F) (rem : List Nat) (pos : Nat) : List Ev :=
  match rem with
  | x :: y :: t =>
    if x = (if be then 0xFE else 0xFF) ∧ y = (if be then 0xFF else 0xFE) then
      ref (utf16Fam be) (utf16Fam be).init t (pos + 2)
    else curRef c rem pos
  | _ => curRef c rem pos

theorem checkingEnd_sound0 (k : Sink) (L : Laws F) (c : Cur F) (src rest : List Nat) (pos : Nat) (last : Bool)
    (b : Budget) (hl : last = true → rest = []) :
    DSound src rest pos (curRef c (src ++ rest) pos) (checkingEnd k c src last b 0 [] []) := by
  have := checkingEnd_sound k L c src rest pos last b 0 [] [] hl
  simpa using this

theorem checkingEnd_utf8 (k : Sink) (L : Laws F) (src rest : List Nat) (pos : Nat) (last : Bool)
    (b : Budget) (offset : Nat) (hl : last = true → rest = []) :
    DSound (F := F) src rest pos (ref utf8Fam utf8Fam.init (src.drop offset ++ rest) (pos + offset))
      (checkingEnd k (.utf8 utf8Fam.init) src last b offset [] []) := by
  have := checkingEnd_sound k L (.utf8 utf8Fam.init : Cur F) src rest pos last b offset [] [] hl
  simpa [curRef] using this

/-- the not-`last`, ran-out-of-input exit: nothing happened except the life-cycle step -/
theorem wait_sound (d' : Decoder F) (src rest : List Nat) (pos n : Nat) (ref0 : List Ev)
    (hn : src.length = n) (hw : withheld d'.life ≤ pos + n)
    (h : dref d' rest (pos + n) = ref0) :
    DSound src rest pos ref0 (.ok .inputEmpty n [] d' []) := by
  unfold DSound
  refine ⟨?_, hw⟩
  simp only [List.map_nil, resEv, List.nil_append]
  rw [← hn, List.drop_length, List.nil_append, hn]
  exact h

/-- `SeenUtf8Second` reached inside this call with `EF BB` at the start of `src` (offset 2) -/
theorem second2_sound (k : Sink) (L : Laws F) (d : Decoder F) (r2 rest : List Nat) (pos : Nat) (last : Bool)
    (b1 b2 : Budget) (hl : last = true → rest = []) :
    DSound (0xEF :: 0xBB :: r2) rest pos (sniff8 d.cur (0xEF :: 0xBB :: r2 ++ rest) pos)
      (Decoder.rawCall.seenUtf8Second k d (0xEF :: 0xBB :: r2) last b1 b2 2 r2) := by
  unfold Decoder.rawCall.seenUtf8Second
  split
  · -- r2 = []
    cases last with
    | true =>
      have hrest : rest = [] := hl rfl
      subst hrest
      simp only [if_true, show (2 : Nat) ≠ 1 from by decide, if_false]
      have := checkingEnd_sound0 k L d.cur [0xEF, 0xBB] [] pos true b2 hl
      simpa [sniff8] using this
    | false =>
      simp only [Bool.false_eq_true, if_false]
      apply wait_sound _ _ _ _ 2 _ rfl (by simp [withheld])
      simp only [dref, sniff8, List.nil_append, List.cons_append]
      split <;> simp_all
  · -- BF
    rename_i t
    have := checkingEnd_utf8 (F := F) k L (0xEF :: 0xBB :: 0xBF :: t) rest pos last b2 3 hl
    simpa [sniff8] using this
  · rename_i x hx1 hx2
    simp only [show (2 : Nat) ≠ 1 from by decide, if_false]
    have := checkingEnd_sound0 k L d.cur (0xEF :: 0xBB :: r2) rest pos last b2 hl
    have e : sniff8 d.cur (0xEF :: 0xBB :: r2 ++ rest) pos = curRef d.cur (0xEF :: 0xBB :: r2 ++ rest) pos := by
      unfold sniff8
      cases r2 with
      | nil => exact absurd rfl hx1
      | cons y t =>
        simp only [List.cons_append]
        split
        · rename_i heq
          simp only [List.cons.injEq, true_and] at heq
          exact absurd (by rw [heq.1]) (hx2 t)
        · rfl
    rw [e]; exact this

end EncodingRs.Lemmas.Life

namespace EncodingRs.Lemmas.Life
open EncodingRs EncodingRs.Model EncodingRs.Lemmas.Core EncodingRs.Lemmas.FamLaws
variable {F : Fam}

/-- hypotheses on the replay of withheld bytes: a `Malformed` answer consumed at least the first byte
(no byte is handed back from the state the variant decoder is in when bytes are being withheld) -/
structure ReplayOk (k : Sink) (c : Cur F) : Prop where
  one : ∀ fb b1 l a, (c.call k [fb] false b1).res = .malformed l a → (c.call k [fb] false b1).read = 1
  two : ∀ b1 l a, (c.call k [0xEF, 0xBB] false b1).res = .malformed l a → 1 ≤ (c.call k [0xEF, 0xBB] false b1).read

/-- what `SeenUtf8First` means: `EF` is withheld -/
def after8First (c : Cur F) (rem : List Nat) (pos : Nat) : List Ev :=
  match rem with
  | 0xBB :: 0xBF :: t => ref utf8Fam utf8Fam.init t (pos + 2)
  | _ => curRef c (0xEF :: rem) (pos - 1)

/-- `SeenUtf8Second` reached inside this call with `BB` at the start of `src` (`EF` withheld; offset 1) -/
theorem second1_sound (k : Sink) (L : Laws F) (d : Decoder F) (r2 rest : List Nat) (pos : Nat) (last : Bool)
    (b1 b2 : Budget) (hl : last = true → rest = []) (hpos : 1 ≤ pos) (hr : ReplayOk k d.cur) :
    DSound (0xBB :: r2) rest pos (after8First d.cur (0xBB :: r2 ++ rest) pos)
      (Decoder.rawCall.seenUtf8Second k d (0xBB :: r2) last b1 b2 1 r2) := by
  unfold Decoder.rawCall.seenUtf8Second
  split
  · cases last with
    | true =>
      have hrest : rest = [] := hl rfl
      subst hrest
      simp only [if_true]
      have := afterOne_sound k L d.cur [0xBB] [] pos true 0xEF b1 b2 hl hpos (hr.one 0xEF b1)
      simpa [after8First] using this
    | false =>
      simp only [Bool.false_eq_true, if_false]
      apply wait_sound _ _ _ _ 1 _ rfl (by simp [withheld]; omega)
      simp only [dref, after8First, List.nil_append, List.cons_append]
      have e : pos + 1 - 2 = pos - 1 := by omega
      split <;> simp_all
  · rename_i t
    have := checkingEnd_utf8 (F := F) k L (0xBB :: 0xBF :: t) rest pos last b2 2 hl
    simpa [after8First] using this
  · rename_i x hx1 hx2
    simp only [if_true]
    have := afterOne_sound k L d.cur (0xBB :: r2) rest pos last 0xEF b1 b2 hl hpos (hr.one 0xEF b1)
    have e : after8First d.cur (0xBB :: r2 ++ rest) pos = curRef d.cur (0xEF :: (0xBB :: r2 ++ rest)) (pos - 1) := by
      unfold after8First
      cases r2 with
      | nil => exact absurd rfl hx1
      | cons y t =>
        simp only [List.cons_append]
        split
        · rename_i heq
          simp only [List.cons.injEq, true_and] at heq
          exact absurd (by rw [heq.1]) (hx2 t)
        · rfl
    rw [e]; exact this

/-- `SeenUtf8First` reached inside this call: `src` starts with `EF` -/
theorem first_sound (k : Sink) (L : Laws F) (d : Decoder F) (r1 rest : List Nat) (pos : Nat) (last : Bool)
    (b1 b2 : Budget) (hl : last = true → rest = []) :
    DSound (0xEF :: r1) rest pos (sniff8 d.cur (0xEF :: r1 ++ rest) pos)
      (Decoder.rawCall.seenUtf8First k d (0xEF :: r1) last b1 b2 r1) := by
  unfold Decoder.rawCall.seenUtf8First
  split
  · cases last with
    | true =>
      have hrest : rest = [] := hl rfl
      subst hrest
      simp only [if_true]
      have := checkingEnd_sound0 k L d.cur [0xEF] [] pos true b2 hl
      simpa [sniff8] using this
    | false =>
      simp only [Bool.false_eq_true, if_false]
      apply wait_sound _ _ _ _ 1 _ rfl (by simp [withheld])
      simp only [dref, sniff8, List.nil_append, List.cons_append]
      split <;> simp_all
  · rename_i r2
    exact second2_sound k L d r2 rest pos last b1 b2 hl
  · rename_i x hx1 hx2
    have := checkingEnd_sound0 k L d.cur (0xEF :: r1) rest pos last b2 hl
    have e : sniff8 d.cur (0xEF :: r1 ++ rest) pos = curRef d.cur (0xEF :: r1 ++ rest) pos := by
      unfold sniff8
      cases r1 with
      | nil => exact absurd rfl hx1
      | cons y t =>
        simp only [List.cons_append]
        split
        · rename_i heq
          simp only [List.cons.injEq, true_and] at heq
          exact absurd (by rw [heq.1]) (hx2 _)
        · rfl
    rw [e]; exact this

end EncodingRs.Lemmas.Life

namespace EncodingRs.Lemmas.Life
open EncodingRs EncodingRs.Model EncodingRs.Lemmas.Core EncodingRs.Lemmas.FamLaws
variable {F : Fam}

def bom1 (be : Bool) : Nat := if be then 0xFE else 0xFF
def bom2 (be : Bool) : Nat := if be then 0xFF else 0xFE

theorem checkingEnd_utf16 (be : Bool) (k : Sink) (L : Laws F) (src rest : List Nat) (pos : Nat) (last : Bool)
    (b : Budget) (offset : Nat) (hl : last = true → rest = []) :
    DSound (F := F) src rest pos (ref (utf16Fam be) (utf16Fam be).init (src.drop offset ++ rest) (pos + offset))
      (checkingEnd k (if be then .utf16be (utf16Fam true).init else .utf16le (utf16Fam false).init) src last b
        offset [] []) := by
  cases be with
  | true =>
    have := checkingEnd_sound k L (.utf16be (utf16Fam true).init : Cur F) src rest pos last b offset [] [] hl
    simpa [curRef] using this
  | false =>
    have := checkingEnd_sound k L (.utf16le (utf16Fam false).init : Cur F) src rest pos last b offset [] [] hl
    simpa [curRef] using this

/-- `SeenUtf16{Be,Le}First` reached inside this call: `src` starts with the first BOM byte -/
theorem first16_sound (be : Bool) (k : Sink) (L : Laws F) (d : Decoder F) (r1 rest : List Nat) (pos : Nat)
    (last : Bool) (b2 : Budget) (hl : last = true → rest = []) :
    DSound (bom1 be :: r1) rest pos (sniff16 be d.cur (bom1 be :: r1 ++ rest) pos)
      (Decoder.rawCall.seenUtf16First k d (bom1 be :: r1) last b2 be r1) := by
  unfold Decoder.rawCall.seenUtf16First
  split
  · cases last with
    | true =>
      have hrest : rest = [] := hl rfl
      subst hrest
      simp only [if_true]
      have := checkingEnd_sound0 k L d.cur [bom1 be] [] pos true b2 hl
      simpa [sniff16] using this
    | false =>
      simp only [Bool.false_eq_true, if_false]
      apply wait_sound _ _ _ _ 1 _ rfl (by cases be <;> simp [withheld])
      cases be <;>
      · simp only [dref, sniff16, bom1, List.nil_append, List.cons_append, if_true, Bool.false_eq_true, if_false]
        cases rest with
        | nil => simp
        | cons y t =>
          simp only [true_and]
          split <;> simp_all
  · rename_i y t
    cases be with
    | true =>
      simp only [if_true, bom1]
      by_cases hy : y = 0xFF
      · subst hy
        simp only [if_true]
        have := checkingEnd_utf16 (F := F) true k L (0xFE :: 0xFF :: t) rest pos last b2 2 hl
        simpa [sniff16] using this
      · simp only [hy, if_false]
        have := checkingEnd_sound0 k L d.cur (0xFE :: y :: t) rest pos last b2 hl
        simpa [sniff16, hy] using this
    | false =>
      simp only [Bool.false_eq_true, if_false, bom1]
      by_cases hy : y = 0xFE
      · subst hy
        simp only [if_true]
        have := checkingEnd_utf16 (F := F) false k L (0xFF :: 0xFE :: t) rest pos last b2 2 hl
        simpa [sniff16] using this
      · simp only [hy, if_false]
        have := checkingEnd_sound0 k L d.cur (0xFF :: y :: t) rest pos last b2 hl
        simpa [sniff16, hy] using this

end EncodingRs.Lemmas.Life

namespace EncodingRs.Lemmas.Life
open EncodingRs EncodingRs.Model EncodingRs.Lemmas.Core EncodingRs.Lemmas.FamLaws
variable {F : Fam}

theorem sniff8_not_ef (c : Cur F) (x : Nat) (t : List Nat) (pos : Nat) (hx : x ≠ 0xEF) :
    sniff8 c (x :: t) pos = curRef c (x :: t) pos := by
  unfold sniff8
  split
  · rename_i heq; simp only [List.cons.injEq] at heq; exact absurd heq.1 hx
  · rfl

theorem sniff16_not_bom (be : Bool) (c : Cur F) (x : Nat) (t : List Nat) (pos : Nat) (hx : x ≠ bom1 be) :
    sniff16 be c (x :: t) pos = curRef c (x :: t) pos := by
  unfold sniff16
  cases t with
  | nil => rfl
  | cons y t =>
    simp only
    have : ¬ (x = (if be = true then 254 else 255) ∧ y = (if be = true then 255 else 254)) := by
      intro h; exact hx (by simpa [bom1] using h.1)
    simp [this]

theorem sniff16_be (c : Cur F) (lst : List Nat) (pos : Nat) :
    sniff16 true c (0xFE :: lst) pos =
      (match lst with
       | 0xFF :: t => ref (utf16Fam true) (utf16Fam true).init t (pos + 2)
       | _ => curRef c (0xFE :: lst) pos) := by
  cases lst with
  | nil => rfl
  | cons y t =>
    by_cases hy : y = 0xFF
    · subst hy; simp [sniff16]
    · simp only [sniff16, if_true, true_and, hy, if_false]
      split
      · rename_i heq; simp only [List.cons.injEq] at heq; exact absurd heq.1 hy
      · rfl

theorem sniff16_le (c : Cur F) (lst : List Nat) (pos : Nat) :
    sniff16 false c (0xFF :: lst) pos =
      (match lst with
       | 0xFE :: t => ref (utf16Fam false) (utf16Fam false).init t (pos + 2)
       | _ => curRef c (0xFF :: lst) pos) := by
  cases lst with
  | nil => rfl
  | cons y t =>
    by_cases hy : y = 0xFE
    · subst hy; simp [sniff16]
    · simp only [sniff16, Bool.false_eq_true, if_false, true_and, hy]
      split
      · rename_i heq; simp only [List.cons.injEq] at heq; exact absurd heq.1 hy
      · rfl

/-- the replay hypothesis of `ConvertingWithPendingBB`, for the single byte that is ever pending there:
a `Malformed` answer to the replay of `BB` consumed it -/
def ReplayBB (k : Sink) (c : Cur F) : Prop :=
  ∀ b1 l a, (c.call k [0xBB] false b1).res = .malformed l a → (c.call k [0xBB] false b1).read = 1

theorem ReplayOk.replayBB {k : Sink} {c : Cur F} (h : ReplayOk k c) : ReplayBB k c := h.one 0xBB

/-- **Soundness of every `Decoder` call against the documented BOM semantics** (`dref`):
whatever the life-cycle state, however the potential BOM is split across calls,
whatever the stop policies of the inner calls — unless the Rust panics
(finished decoder; replay into a buffer below the documented minimum). -/
theorem rawCall_sound'' (k : Sink) (L : Laws F)
    (halt : ∀ s src m r, F.alt s src = some (m, r) → m ≤ src.length)
    (d : Decoder F) (src rest : List Nat) (pos : Nat) (last : Bool) (b1 b2 : Budget)
    (hl : last = true → rest = []) (hw : withheld d.life ≤ pos)
    (hr : 0 < withheld d.life → d.life ≠ .convertingWithPendingBB → ReplayOk k d.cur)
    (hbb : d.life = .convertingWithPendingBB → ReplayBB k d.cur) :
    DSound src rest pos (dref d (src ++ rest) pos) (d.rawCall k src last b1 b2) := by
  obtain ⟨life, c⟩ := d
  cases life
  case converting =>
    unfold Decoder.rawCall; simp only [dref]
    exact checkingEnd_sound0 k L c src rest pos last b2 hl
  case finished => unfold Decoder.rawCall; simp only []; trivial
  case convertingWithPendingBB =>
    unfold Decoder.rawCall; simp only [dref]
    exact afterOne_sound k L c src rest pos last 0xBB b1 b2 hl (by simpa [withheld] using hw) (hbb rfl b1)
  case atStart =>
    unfold Decoder.rawCall; simp only
    split
    · apply wait_sound _ _ _ _ 0 _ rfl (by simp [withheld]); rfl
    · rename_i r1
      have := first_sound k L ⟨.atStart, c⟩ r1 rest pos last b1 b2 hl
      have e : dref ⟨.atStart, c⟩ (0xEF :: r1 ++ rest) pos = sniff8 c (0xEF :: r1 ++ rest) pos := by
        simp only [dref, sniff8, List.cons_append]
        split <;> simp_all
      rw [e]; exact this
    · rename_i r1
      have := first16_sound true k L ⟨.atStart, c⟩ r1 rest pos last b2 hl
      have e : dref ⟨.atStart, c⟩ (0xFE :: r1 ++ rest) pos = sniff16 true c (0xFE :: r1 ++ rest) pos := by
        rw [List.cons_append, sniff16_be]
        simp only [dref]
        split <;> simp_all
      rw [e]; exact this
    · rename_i r1
      have := first16_sound false k L ⟨.atStart, c⟩ r1 rest pos last b2 hl
      have e : dref ⟨.atStart, c⟩ (0xFF :: r1 ++ rest) pos = sniff16 false c (0xFF :: r1 ++ rest) pos := by
        rw [List.cons_append, sniff16_le]
        simp only [dref]
        split <;> simp_all
      rw [e]; exact this
    · rename_i x h1 h2 h3 h4
      have := checkingEnd_sound0 k L c src rest pos last b2 hl
      have e : dref ⟨.atStart, c⟩ (src ++ rest) pos = curRef c (src ++ rest) pos := by
        cases src with
        | nil => exact absurd rfl h1
        | cons x t =>
          simp only [dref, List.cons_append]
          split
          · rename_i heq; simp only [List.cons.injEq] at heq; exact absurd (by rw [heq.1]) (h2 t)
          · rename_i heq; simp only [List.cons.injEq] at heq; exact absurd (by rw [heq.1]) (h3 t)
          · rename_i heq; simp only [List.cons.injEq] at heq; exact absurd (by rw [heq.1]) (h4 t)
          · rfl
      rw [e]; exact this
  case atUtf8Start =>
    unfold Decoder.rawCall; simp only
    split
    · apply wait_sound _ _ _ _ 0 _ rfl (by simp [withheld]); rfl
    · rename_i r1
      exact first_sound k L ⟨.atUtf8Start, c⟩ r1 rest pos last b1 b2 hl
    · rename_i x h1 h2
      have := checkingEnd_sound0 k L c src rest pos last b2 hl
      have e : dref ⟨.atUtf8Start, c⟩ (src ++ rest) pos = curRef c (src ++ rest) pos := by
        cases src with
        | nil => exact absurd rfl h1
        | cons x t =>
          have hx : x ≠ 0xEF := fun h => h2 t (by rw [h])
          exact sniff8_not_ef c x (t ++ rest) pos hx
      rw [e]; exact this
  case atUtf16BeStart =>
    unfold Decoder.rawCall; simp only
    split
    · apply wait_sound _ _ _ _ 0 _ rfl (by simp [withheld]); rfl
    · rename_i r1
      have := first16_sound true k L ⟨.atUtf16BeStart, c⟩ r1 rest pos last b2 hl
      have e : dref ⟨.atUtf16BeStart, c⟩ (0xFE :: r1 ++ rest) pos = sniff16 true c (0xFE :: r1 ++ rest) pos := by
        rw [List.cons_append, sniff16_be]
        simp only [dref]
        split <;> simp_all
      rw [e]; exact this
    · rename_i x h1 h2
      have := checkingEnd_sound0 k L c src rest pos last b2 hl
      have e : dref ⟨.atUtf16BeStart, c⟩ (src ++ rest) pos = curRef c (src ++ rest) pos := by
        cases src with
        | nil => exact absurd rfl h1
        | cons x t =>
          simp only [dref, List.cons_append]
          split
          · rename_i heq; simp only [List.cons.injEq] at heq; exact absurd (by rw [heq.1]) (h2 t)
          · rfl
      rw [e]; exact this
  case atUtf16LeStart =>
    unfold Decoder.rawCall; simp only
    split
    · apply wait_sound _ _ _ _ 0 _ rfl (by simp [withheld]); rfl
    · rename_i r1
      have := first16_sound false k L ⟨.atUtf16LeStart, c⟩ r1 rest pos last b2 hl
      have e : dref ⟨.atUtf16LeStart, c⟩ (0xFF :: r1 ++ rest) pos = sniff16 false c (0xFF :: r1 ++ rest) pos := by
        rw [List.cons_append, sniff16_le]
        simp only [dref]
        split <;> simp_all
      rw [e]; exact this
    · rename_i x h1 h2
      have := checkingEnd_sound0 k L c src rest pos last b2 hl
      have e : dref ⟨.atUtf16LeStart, c⟩ (src ++ rest) pos = curRef c (src ++ rest) pos := by
        cases src with
        | nil => exact absurd rfl h1
        | cons x t =>
          simp only [dref, List.cons_append]
          split
          · rename_i heq; simp only [List.cons.injEq] at heq; exact absurd (by rw [heq.1]) (h2 t)
          · rfl
      rw [e]; exact this
  case seenUtf8First =>
    have hr : ReplayOk k c := hr (by simp [withheld]) (by simp)
    have hpos : 1 ≤ pos := by simpa [withheld] using hw
    unfold Decoder.rawCall; simp only
    split
    · cases last with
      | true =>
        have hrest : rest = [] := hl rfl
        subst hrest
        simp only [if_true]
        have := afterOne_sound k L c [] [] pos true 0xEF b1 b2 hl hpos (hr.one 0xEF b1)
        simpa [dref] using this
      | false =>
        simp only [Bool.false_eq_true, if_false]
        apply wait_sound _ _ _ _ 0 _ rfl (by simp [withheld]; omega); rfl
    · rename_i r2
      have := second1_sound k L ⟨.seenUtf8First, c⟩ r2 rest pos last b1 b2 hl hpos hr
      have e : dref ⟨.seenUtf8First, c⟩ (0xBB :: r2 ++ rest) pos = after8First c (0xBB :: r2 ++ rest) pos := rfl
      rw [e]; exact this
    · rename_i x h1 h2
      have := afterOne_sound k L c src rest pos last 0xEF b1 b2 hl hpos (hr.one 0xEF b1)
      have e : dref ⟨.seenUtf8First, c⟩ (src ++ rest) pos = curRef c (0xEF :: (src ++ rest)) (pos - 1) := by
        cases src with
        | nil => exact absurd rfl h1
        | cons x t =>
          simp only [dref, List.cons_append]
          split
          · rename_i heq; simp only [List.cons.injEq] at heq; exact absurd (by rw [heq.1]) (h2 t)
          · rfl
      rw [e]; exact this
  case seenUtf8Second =>
    have hr : ReplayOk k c := hr (by simp [withheld]) (by simp)
    have hpos : 2 ≤ pos := by simpa [withheld] using hw
    unfold Decoder.rawCall; simp only
    split
    · cases last with
      | true =>
        have hrest : rest = [] := hl rfl
        subst hrest
        simp only [if_true]
        have := afterTwo_sound k L c [] [] pos true b1 b2 hl hpos halt (hr.two b1)
        simpa [dref] using this
      | false =>
        simp only [Bool.false_eq_true, if_false]
        apply wait_sound _ _ _ _ 0 _ rfl (by simp [withheld]; omega); rfl
    · rename_i t
      have := checkingEnd_utf8 (F := F) k L (0xBF :: t) rest pos last b2 1 hl
      simpa [dref] using this
    · rename_i x h1 h2
      have := afterTwo_sound k L c src rest pos last b1 b2 hl hpos halt (hr.two b1)
      have e : dref ⟨.seenUtf8Second, c⟩ (src ++ rest) pos = curRef c (0xEF :: 0xBB :: (src ++ rest)) (pos - 2) := by
        cases src with
        | nil => exact absurd rfl h1
        | cons x t =>
          simp only [dref, List.cons_append]
          split
          · rename_i heq; simp only [List.cons.injEq] at heq; exact absurd (by rw [heq.1]) (h2 t)
          · rfl
      rw [e]; exact this
  case seenUtf16BeFirst =>
    have hr : ReplayOk k c := hr (by simp [withheld]) (by simp)
    have hpos : 1 ≤ pos := by simpa [withheld] using hw
    unfold Decoder.rawCall; simp only
    split
    · cases last with
      | true =>
        have hrest : rest = [] := hl rfl
        subst hrest
        simp only [if_true]
        have := afterOne_sound k L c [] [] pos true 0xFE b1 b2 hl hpos (hr.one 0xFE b1)
        simpa [dref] using this
      | false =>
        simp only [Bool.false_eq_true, if_false]
        apply wait_sound _ _ _ _ 0 _ rfl (by simp [withheld]; omega); rfl
    · rename_i t
      have := checkingEnd_utf16 (F := F) true k L (0xFF :: t) rest pos last b2 1 hl
      simpa [dref] using this
    · rename_i x h1 h2
      have := afterOne_sound k L c src rest pos last 0xFE b1 b2 hl hpos (hr.one 0xFE b1)
      have e : dref ⟨.seenUtf16BeFirst, c⟩ (src ++ rest) pos = curRef c (0xFE :: (src ++ rest)) (pos - 1) := by
        cases src with
        | nil => exact absurd rfl h1
        | cons x t =>
          simp only [dref, List.cons_append]
          split
          · rename_i heq; simp only [List.cons.injEq] at heq; exact absurd (by rw [heq.1]) (h2 t)
          · rfl
      rw [e]; exact this
  case seenUtf16LeFirst =>
    have hr : ReplayOk k c := hr (by simp [withheld]) (by simp)
    have hpos : 1 ≤ pos := by simpa [withheld] using hw
    unfold Decoder.rawCall; simp only
    split
    · cases last with
      | true =>
        have hrest : rest = [] := hl rfl
        subst hrest
        simp only [if_true]
        have := afterOne_sound k L c [] [] pos true 0xFF b1 b2 hl hpos (hr.one 0xFF b1)
        simpa [dref] using this
      | false =>
        simp only [Bool.false_eq_true, if_false]
        apply wait_sound _ _ _ _ 0 _ rfl (by simp [withheld]; omega); rfl
    · rename_i t
      have := checkingEnd_utf16 (F := F) false k L (0xFE :: t) rest pos last b2 1 hl
      simpa [dref] using this
    · rename_i x h1 h2
      have := afterOne_sound k L c src rest pos last 0xFF b1 b2 hl hpos (hr.one 0xFF b1)
      have e : dref ⟨.seenUtf16LeFirst, c⟩ (src ++ rest) pos = curRef c (0xFF :: (src ++ rest)) (pos - 1) := by
        cases src with
        | nil => exact absurd rfl h1
        | cons x t =>
          simp only [dref, List.cons_append]
          split
          · rename_i heq; simp only [List.cons.injEq] at heq; exact absurd (by rw [heq.1]) (h2 t)
          · rfl
      rw [e]; exact this

/-- the same with the replay hypothesis `ReplayOk` (any replayed byte) in every state in which bytes
are withheld, `ConvertingWithPendingBB` included (`rawCall_sound''` asks only for `ReplayBB` there) -/
theorem rawCall_sound' (k : Sink) (L : Laws F)
    (halt : ∀ s src m r, F.alt s src = some (m, r) → m ≤ src.length)
    (d : Decoder F) (src rest : List Nat) (pos : Nat) (last : Bool) (b1 b2 : Budget)
    (hl : last = true → rest = []) (hw : withheld d.life ≤ pos)
    (hr : 0 < withheld d.life → ReplayOk k d.cur) :
    DSound src rest pos (dref d (src ++ rest) pos) (d.rawCall k src last b1 b2) :=
  rawCall_sound'' k L halt d src rest pos last b1 b2 hl hw (fun h _ => hr h)
    (fun h => (hr (by rw [h]; simp [withheld])).replayBB)

/-- the same with the replay hypothesis stated for every state (it is only used in the states in
which bytes are withheld, see `rawCall_sound'`) -/
theorem rawCall_sound (k : Sink) (L : Laws F)
    (halt : ∀ s src m r, F.alt s src = some (m, r) → m ≤ src.length)
    (d : Decoder F) (src rest : List Nat) (pos : Nat) (last : Bool) (b1 b2 : Budget)
    (hl : last = true → rest = []) (hw : withheld d.life ≤ pos) (hr : ReplayOk k d.cur) :
    DSound src rest pos (dref d (src ++ rest) pos) (d.rawCall k src last b1 b2) :=
  rawCall_sound' k L halt d src rest pos last b1 b2 hl hw (fun _ => hr)

end EncodingRs.Lemmas.Life
