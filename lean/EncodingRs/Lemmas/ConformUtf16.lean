import EncodingRs.Lemmas.ConformSimple
/-!
C01 for UTF-16LE/BE: simulation with held bytes.  The crate keeps a unit it has read
after an unpaired high surrogate (as the new pending surrogate, or as `pending_bmp`
written at the start of the next call) where the Standard restores its two bytes to the
queue and reads them again.  Symbolic (`cases` on the unit's class + `omega`).
-/
set_option linter.unusedSimpArgs false
namespace EncodingRs.Lemmas.Conform
open EncodingRs EncodingRs.Model EncodingRs.Spec.Decode EncodingRs.Lemmas.Core

instance (be : Bool) : DecidableEq (utf16 be).σ := inferInstanceAs (DecidableEq Utf16)

def utf16Invc (s : Utf16St) : Prop :=
  (∀ l, s.leadByte = some l → l < 256) ∧
  (s.pendingBmp = true → s.leadByte = none ∧ s.leadSurrogate < 65536 ∧
      ¬ (0xD800 ≤ s.leadSurrogate ∧ s.leadSurrogate ≤ 0xDFFF)) ∧
  (s.pendingBmp = false → s.leadSurrogate = 0 ∨ (0xD800 ≤ s.leadSurrogate ∧ s.leadSurrogate ≤ 0xDBFF))

def utf16σ (s : Utf16St) : Utf16 :=
  if s.pendingBmp then ⟨none, none⟩ else ⟨s.leadByte, if s.leadSurrogate = 0 then none else some s.leadSurrogate⟩

def unitBytes (be : Bool) (u : Nat) : List Nat := if be then [u / 256, u % 256] else [u % 256, u / 256]

def utf16Held (be : Bool) (s : Utf16St) : List Nat := if s.pendingBmp then unitBytes be s.leadSurrogate else []

def utf16Back (s : Utf16St) : Nat := if s.pendingBmp then 0 else if s.leadByte.isSome then 1 else 0

theorem utf16Unit_bytes (be : Bool) (l b : Nat) (hl : l < 256) (hb : b < 256) :
    unitBytes be (utf16Unit be l b) = [l, b] := by
  unfold unitBytes utf16Unit
  cases be
  · simp only [Bool.false_eq_true, if_false]
    have h1 : (b * 256 + l) % 256 = l := by omega
    have h2 : (b * 256 + l) / 256 = b := by omega
    rw [h1, h2]
  · simp only [if_true]
    have h1 : (l * 256 + b) % 256 = b := by omega
    have h2 : (l * 256 + b) / 256 = l := by omega
    rw [h1, h2]

/-- the Standard's code unit is the model's -/
theorem codeUnit_eq (be : Bool) (l b : Nat) :
    (if be = true then (l <<< 8) + b else (b <<< 8) + l) = utf16Unit be l b := by
  unfold utf16Unit
  simp only [shl8]

theorem restore_eq (be : Bool) (u : Nat) :
    (if be = true then [u >>> 8, u &&& 0x00FF] else [u &&& 0x00FF, u >>> 8]) = unitBytes be u := by
  unfold unitBytes
  simp only [shr8, andFF]

/-- the handler on the second byte of a unit, by class of the unit -/
theorem utf16_h_second (be : Bool) (l b : Nat) (ls : Option Nat) :
    utf16Handler be ⟨some l, ls⟩ (some b) =
      (let u := utf16Unit be l b
       match ls with
       | some hi =>
         if isTrailingSurrogate u then ⟨⟨none, none⟩, [], .emit [0x10000 + (hi - 0xD800) * 1024 + (u - 0xDC00)]⟩
         else ⟨⟨none, none⟩, unitBytes be u, .error 2 0⟩
       | none =>
         if isLeadingSurrogate u then ⟨⟨none, some u⟩, [], .continue⟩
         else if isTrailingSurrogate u then ⟨⟨none, none⟩, [], .error 2 0⟩
         else ⟨⟨none, none⟩, [], .emit [u]⟩) := by
  unfold utf16Handler
  simp only [codeUnit_eq, restore_eq, shl10]
  cases ls <;> rfl

theorem utf16_h_first (be : Bool) (b : Nat) (ls : Option Nat) :
    utf16Handler be ⟨none, ls⟩ (some b) = ⟨⟨some b, ls⟩, [], .continue⟩ := rfl

theorem isLead_iff (u : Nat) : isLeadingSurrogate u = true ↔ u / 0x400 = 0x36 := by
  unfold isLeadingSurrogate; simp only [Bool.decide_and, Bool.and_eq_true, decide_eq_true_eq]; omega
theorem isTrail_iff (u : Nat) : isTrailingSurrogate u = true ↔ u / 0x400 = 0x37 := by
  unfold isTrailingSurrogate; simp only [Bool.decide_and, Bool.and_eq_true, decide_eq_true_eq]; omega


theorem unitBytes_split (be : Bool) (u : Nat) :
    ∃ x y, unitBytes be u = [x, y] ∧ utf16Unit be x y = u := by
  cases be
  · exact ⟨u % 256, u / 256, rfl, by unfold utf16Unit; simp only [Bool.false_eq_true, if_false]; omega⟩
  · exact ⟨u / 256, u % 256, rfl, by unfold utf16Unit; simp only [if_true]; omega⟩

theorem utf16_pend (be : Bool) (s : Utf16St) :
    (utf16Fam be).pend s = if s.pendingBmp then some ([s.leadSurrogate], (⟨s.leadByte, 0, false⟩ : Utf16St)) else none := rfl

theorem utf16_flush (be : Bool) (ls : Nat) (hlt : ls < 65536) (hns : ¬ (0xD800 ≤ ls ∧ ls ≤ 0xDFFF)) (rest : List Nat) (p : Nat) :
    Steps (utf16 be) 2 ⟨⟨none, none⟩, unitBytes be ls ++ rest, p⟩ [Ev.cp ls] ⟨⟨none, none⟩, rest, p + 2⟩ := by
  obtain ⟨x, y, hxy, hu⟩ := unitBytes_split be ls
  rw [hxy]
  have h1 : (utf16 be).handler ⟨none, none⟩ (some x) = ⟨⟨some x, none⟩, [], .continue⟩ := rfl
  have h2 : (utf16 be).handler ⟨some x, none⟩ (some y) = ⟨⟨none, none⟩, [], .emit [ls]⟩ := by
    show utf16Handler be ⟨some x, none⟩ (some y) = _
    rw [utf16_h_second, hu]
    have n1 : isLeadingSurrogate ls = false := by
      rw [Bool.eq_false_iff]; intro h; rw [isLead_iff] at h; omega
    have n2 : isTrailingSurrogate ls = false := by
      rw [Bool.eq_false_iff]; intro h; rw [isTrail_iff] at h; omega
    simp [n1, n2]
    try rfl
  have s1 := steps_byte (utf16 be) (rest := y :: rest) (p := p) h1 (by simp)
  have s2 := steps_byte (utf16 be) (rest := rest) (p := p + 1) h2 (by simp)
  have := Steps_trans (utf16 be) s1 s2
  simpa [evsOf] using this

def utf16Sim (be : Bool) : Sim (utf16Fam be) (utf16 be) where
  Inv := utf16Invc
  σ_of := utf16σ
  held := utf16Held be
  back := utf16Back
  init_back := rfl
  init_inv := ⟨(by intro l h; cases h), (by intro h; cases h), fun _ => Or.inl rfl⟩
  init_st := rfl
  init_held := rfl
  rank_le := by
    intro s _
    show utf16Rank s ≤ 15
    unfold utf16Rank
    repeat' split
    all_goals omega
  flush := by
    intro s o s' hi hp
    obtain ⟨lb, ls, pb⟩ := s
    rw [utf16_pend] at hp
    cases pb with
    | false => simp at hp
    | true =>
      simp only [if_true, Option.some.injEq, Prod.mk.injEq] at hp
      obtain ⟨rfl, rfl⟩ := hp
      obtain ⟨_, h2, _⟩ := hi
      obtain ⟨hlb, hlt, hns⟩ := h2 rfl
      simp only at hlb hlt hns
      subst hlb
      refine ⟨⟨(by intro l h; cases h), (by intro h; cases h), fun _ => Or.inl rfl⟩, rfl, ?_⟩
      intro rest p _
      refine ⟨2, p + 2, by omega, ?_, ?_, ?_⟩
      · simp [utf16Held, unitBytes]; cases be <;> simp
      · simp [utf16Back]
      · have := utf16_flush be ls hlt hns rest p
        simpa [utf16σ, utf16Held] using this
  feed := by
    intro s b hi hp hb
    obtain ⟨lb, ls, pb⟩ := s
    rw [utf16_pend] at hp
    cases pb with
    | true => simp at hp
    | false =>
      obtain ⟨h1, _, h3⟩ := hi
      have hls := h3 rfl
      simp only at h1 hls
      have hfeed : (utf16Fam be).feed = utf16Feed be := rfl
      rw [hfeed]
      cases lb with
      | none =>
        -- first byte of a unit
        have hf : utf16Feed be ⟨none, ls, false⟩ b = FeedRes.ok ⟨some b, ls, false⟩ [] := rfl
        rw [hf]
        refine ⟨⟨(by intro l h; cases h; exact hb), (by intro h; cases h), fun _ => hls⟩, ?_⟩
        intro rest p _
        refine ⟨1, p + 1, by omega, by simp [utf16Held, FeedRes.ok], by simp [utf16Back, FeedRes.ok], ?_⟩
        have hm : stepMatches utf16σ ((utf16 be).handler (utf16σ ⟨none, ls, false⟩) (some b))
            (FeedRes.ok ⟨some b, ls, false⟩ []) b = true := by
          show stepMatches utf16σ (utf16Handler be (utf16σ ⟨none, ls, false⟩) (some b)) _ b = true
          simp [utf16σ, utf16_h_first, stepMatches, actMatches, FeedRes.ok]
          try rfl
        have := feed_of_stepMatches (utf16 be) utf16σ _ _ b hm rest p
        simpa [utf16Held, FeedRes.ok] using this
      | some l =>
        have hl : l < 256 := h1 l rfl
        have hbytes := utf16Unit_bytes be l b hl hb
        have hu : utf16Unit be l b < 65536 := by unfold utf16Unit; split <;> omega
        have hσ : utf16σ ⟨some l, ls, false⟩ = ⟨some l, if ls = 0 then none else some ls⟩ := by simp [utf16σ]
        have hh : ∀ x, (utf16 be).handler ⟨some l, x⟩ (some b) = utf16Handler be ⟨some l, x⟩ (some b) := fun _ => rfl
        generalize hug : utf16Unit be l b = u at hbytes hu
        have nolead : ∀ l', (none : Option Nat) = some l' → l' < 256 := by intro l' h; cases h
        by_cases h36 : u / 0x400 = 0x36
        · have il : isLeadingSurrogate u = true := (isLead_iff u).mpr h36
          have it : isTrailingSurrogate u = false := by
            rw [Bool.eq_false_iff]; intro h; rw [isTrail_iff] at h; omega
          have hune : u ≠ 0 := by intro h; subst h; simp at h36
          by_cases hz : ls = 0
          · subst hz
            have hf : utf16Feed be ⟨some l, 0, false⟩ b = FeedRes.ok ⟨none, u, false⟩ [] := by
              simp [utf16Feed, hug, h36]
            rw [hf]
            refine ⟨⟨nolead, (by intro h; cases h), fun _ => Or.inr (by simp only [FeedRes.ok, FeedRes.bad]; omega)⟩, ?_⟩
            intro rest p _
            refine ⟨1, p + 1, by omega, by simp [utf16Held, FeedRes.ok], by simp [utf16Back, FeedRes.ok], ?_⟩
            have hm : stepMatches utf16σ ((utf16 be).handler (utf16σ ⟨some l, 0, false⟩) (some b))
                (FeedRes.ok ⟨none, u, false⟩ []) b = true := by
              rw [hσ, hh, utf16_h_second, hug]
              simp [il, utf16σ, hune, stepMatches, actMatches, FeedRes.ok]
              try rfl
            have := feed_of_stepMatches (utf16 be) utf16σ _ _ b hm rest p
            simpa [utf16Held, FeedRes.ok] using this
          · -- high surrogate after high surrogate: the Standard restores the unit and reads it again
            have hf : utf16Feed be ⟨some l, ls, false⟩ b = FeedRes.bad ⟨none, u, false⟩ 2 2 := by
              simp [utf16Feed, hug, h36, hz]
            rw [hf]
            refine ⟨⟨nolead, (by intro h; cases h), fun _ => Or.inr (by simp only [FeedRes.ok, FeedRes.bad]; omega)⟩, ?_⟩
            intro rest p hbk
            have hp1 : 1 ≤ p := by simpa [utf16Back] using hbk
            refine ⟨3, p + 1, by omega, by simp [utf16Held, FeedRes.bad], by simp [utf16Back, FeedRes.bad], ?_⟩
            have e1 : (utf16 be).handler ⟨some l, some ls⟩ (some b) = ⟨⟨none, none⟩, [l, b], .error 2 0⟩ := by
              rw [hh, utf16_h_second, hug]; simp [it, hbytes]; try rfl
            have e2 : (utf16 be).handler ⟨none, none⟩ (some l) = ⟨⟨some l, none⟩, [], .continue⟩ := rfl
            have e3 : (utf16 be).handler ⟨some l, none⟩ (some b) = ⟨⟨none, some u⟩, [], .continue⟩ := by
              rw [hh, utf16_h_second, hug]; simp [il]; try rfl
            have s1 := steps_byte (utf16 be) (rest := rest) (p := p) e1 (by simp)
            have s2 := steps_byte (utf16 be) (rest := b :: rest) (p := p + 1 - 2) e2 (by simp)
            have s3 := steps_byte (utf16 be) (rest := rest) (p := p + 1 - 2 + 1) e3 (by simp)
            have := Steps_trans (utf16 be) (Steps_trans (utf16 be) s1 s2) s3
            have ep : p - 1 + 1 + 1 = p + 1 := by omega
            have ee : p + 1 - 2 - 0 - 2 = p + 1 - 2 - 2 := by omega
            simpa [utf16σ, hz, hune, utf16Held, FeedRes.bad, evsOf, errEv, mkErr, ep, ee] using this
        · by_cases h37 : u / 0x400 = 0x37
          · have il : isLeadingSurrogate u = false := by
              rw [Bool.eq_false_iff]; intro h; rw [isLead_iff] at h; omega
            have it : isTrailingSurrogate u = true := (isTrail_iff u).mpr h37
            by_cases hz : ls = 0
            · subst hz
              have hf : utf16Feed be ⟨some l, 0, false⟩ b = FeedRes.bad ⟨none, 0, false⟩ 2 0 := by
                simp [utf16Feed, hug, h36, h37]
              rw [hf]
              refine ⟨⟨nolead, (by intro h; cases h), fun _ => Or.inl rfl⟩, ?_⟩
              intro rest p _
              refine ⟨1, p + 1, by omega, by simp [utf16Held, FeedRes.bad], by simp [utf16Back, FeedRes.bad], ?_⟩
              have hm : stepMatches utf16σ ((utf16 be).handler (utf16σ ⟨some l, 0, false⟩) (some b))
                  (FeedRes.bad ⟨none, 0, false⟩ 2 0) b = true := by
                rw [hσ, hh, utf16_h_second, hug]
                simp [il, it, utf16σ, stepMatches, actMatches, FeedRes.bad]
                try rfl
              have := feed_of_stepMatches (utf16 be) utf16σ _ _ b hm rest p
              simpa [utf16Held, FeedRes.bad] using this
            · have hf : utf16Feed be ⟨some l, ls, false⟩ b = FeedRes.ok ⟨none, 0, false⟩ [utf16Pair ls u] := by
                simp [utf16Feed, hug, h36, h37, hz]
              rw [hf]
              refine ⟨⟨nolead, (by intro h; cases h), fun _ => Or.inl rfl⟩, ?_⟩
              intro rest p _
              refine ⟨1, p + 1, by omega, by simp [utf16Held, FeedRes.ok], by simp [utf16Back, FeedRes.ok], ?_⟩
              have hm : stepMatches utf16σ ((utf16 be).handler (utf16σ ⟨some l, ls, false⟩) (some b))
                  (FeedRes.ok ⟨none, 0, false⟩ [utf16Pair ls u]) b = true := by
                rw [hσ, hh]
                simp only [hz, if_false]
                rw [utf16_h_second, hug]
                have hv : 0x10000 + (ls - 0xD800) * 1024 + (u - 0xDC00) = utf16Pair ls u := rfl
                simp only [it, if_true, hv]
                simp [utf16σ, stepMatches, actMatches, FeedRes.ok]
                try rfl
              have := feed_of_stepMatches (utf16 be) utf16σ _ _ b hm rest p
              simpa [utf16Held, FeedRes.ok] using this
          · have il : isLeadingSurrogate u = false := by
              rw [Bool.eq_false_iff]; intro h; rw [isLead_iff] at h; omega
            have it : isTrailingSurrogate u = false := by
              rw [Bool.eq_false_iff]; intro h; rw [isTrail_iff] at h; omega
            by_cases hz : ls = 0
            · subst hz
              have hf : utf16Feed be ⟨some l, 0, false⟩ b = FeedRes.ok ⟨none, 0, false⟩ [u] := by
                simp [utf16Feed, hug, h36, h37]
              rw [hf]
              refine ⟨⟨nolead, (by intro h; cases h), fun _ => Or.inl rfl⟩, ?_⟩
              intro rest p _
              refine ⟨1, p + 1, by omega, by simp [utf16Held, FeedRes.ok], by simp [utf16Back, FeedRes.ok], ?_⟩
              have hm : stepMatches utf16σ ((utf16 be).handler (utf16σ ⟨some l, 0, false⟩) (some b))
                  (FeedRes.ok ⟨none, 0, false⟩ [u]) b = true := by
                rw [hσ, hh, utf16_h_second, hug]
                simp [il, it, utf16σ, stepMatches, actMatches, FeedRes.ok]
                try rfl
              have := feed_of_stepMatches (utf16 be) utf16σ _ _ b hm rest p
              simpa [utf16Held, FeedRes.ok] using this
            · -- BMP unit after a high surrogate: restored by the Standard, kept as `pending_bmp` by the crate
              have hf : utf16Feed be ⟨some l, ls, false⟩ b = FeedRes.bad ⟨none, u, true⟩ 2 2 := by
                simp [utf16Feed, hug, h36, h37, hz]
              rw [hf]
              refine ⟨⟨nolead, (by intro _; exact ⟨rfl, hu, by simp only [FeedRes.bad]; omega⟩), (by intro h; cases h)⟩, ?_⟩
              intro rest p hbk
              have hp1 : 1 ≤ p := by simpa [utf16Back] using hbk
              refine ⟨1, p + 1 - 2, by omega, ?_, by simp [utf16Back, FeedRes.bad], ?_⟩
              · simp [utf16Held, FeedRes.bad, hbytes]; omega
              · have e1 : (utf16 be).handler ⟨some l, some ls⟩ (some b) = ⟨⟨none, none⟩, [l, b], .error 2 0⟩ := by
                  rw [hh, utf16_h_second, hug]; simp [it, hbytes]; try rfl
                have s1 := steps_byte (utf16 be) (rest := rest) (p := p) e1 (by simp)
                have ee : p + 1 - 2 - 0 - 2 = p + 1 - 2 - 2 := by omega
                simpa [utf16σ, hz, utf16Held, FeedRes.bad, evsOf, errEv, mkErr, hbytes, ee] using s1
  fin := by
    intro s hi p _
    obtain ⟨lb, ls, pb⟩ := s
    have hinit0 : ∀ q, ref (utf16Fam be) utf16Init [] q = [] := by
      intro q; rw [ref_nil (utf16Fam be) utf16Init q rfl]; rfl
    have hfinN : ∀ q, stepFn (utf16 be) ⟨⟨none, none⟩, [], q⟩ = none := fun q => fin_eof (utf16 be) _ q rfl
    cases pb with
    | true =>
      obtain ⟨_, h2, _⟩ := hi
      obtain ⟨hlb, hlt, hns⟩ := h2 rfl
      simp only at hlb hlt hns
      subst hlb
      have hr : ref (utf16Fam be) ⟨none, ls, true⟩ [] (p + (utf16Held be ⟨none, ls, true⟩).length)
          = [Ev.cp ls] := by
        rw [ref_flush' (utf16Fam be) ⟨none, ls, true⟩ [ls] ⟨none, 0, false⟩ [] _ rfl rfl]
        have := hinit0 (p + (utf16Held be ⟨none, ls, true⟩).length)
        simp only [utf16Init] at this
        rw [this]; rfl
      rw [hr]
      have := utf16_flush be ls hlt hns [] p
      refine ⟨2, _, by omega, ?_, hfinN (p + 2)⟩
      simpa [utf16σ, utf16Held] using this
    | false =>
      have hp0 : (utf16Fam be).pend ⟨lb, ls, false⟩ = none := rfl
      have hheld : utf16Held be ⟨lb, ls, false⟩ = [] := rfl
      rw [hheld, ref_nil (utf16Fam be) _ _ hp0]
      have heof : (utf16Fam be).eof = utf16Eof := rfl
      rw [heof]
      simp only [List.length_nil, Nat.add_zero]
      have hh : (utf16 be).handler = utf16Handler be := rfl
      by_cases hz : ls = 0
      · subst hz
        cases lb with
        | none =>
          refine ⟨0, _, by omega, ?_, hfinN p⟩
          simpa [utf16Eof, utf16σ] using Steps.refl (D := utf16 be) ⟨⟨none, none⟩, [], p⟩
        | some l =>
          have e1 : (utf16 be).handler ⟨some l, none⟩ none = ⟨⟨none, none⟩, [], .error 1 0⟩ := by
            rw [hh]; simp [utf16Handler]; try rfl
          have s1 := step_eof (utf16 be) ⟨some l, none⟩ p (by rw [e1]; simp)
          rw [e1] at s1
          refine ⟨1, _, by omega, ?_, hfinN p⟩
          simpa [utf16Eof, utf16σ, hinit0, evsOf, mkErr] using s1
      · cases lb with
        | none =>
          have e1 : (utf16 be).handler ⟨none, some ls⟩ none = ⟨⟨none, none⟩, [], .error 2 0⟩ := by
            rw [hh]; simp [utf16Handler]; try rfl
          have s1 := step_eof (utf16 be) ⟨none, some ls⟩ p (by rw [e1]; simp)
          rw [e1] at s1
          refine ⟨1, _, by omega, ?_, hfinN p⟩
          simpa [utf16Eof, utf16σ, hz, hinit0, evsOf, mkErr] using s1
        | some l =>
          have e1 : (utf16 be).handler ⟨some l, some ls⟩ none = ⟨⟨none, none⟩, [], .error 3 0⟩ := by
            rw [hh]; simp [utf16Handler]; try rfl
          have s1 := step_eof (utf16 be) ⟨some l, some ls⟩ p (by rw [e1]; simp)
          rw [e1] at s1
          refine ⟨1, _, by omega, ?_, hfinN p⟩
          simpa [utf16Eof, utf16σ, hz, hinit0, evsOf, mkErr] using s1

theorem decode_conforms_utf16 (be : Bool) (bytes : List Nat) (hb : ∀ b ∈ bytes, b < 256) :
    Runs (utf16 be) bytes (ref (utf16Fam be) (utf16Fam be).init bytes 0) ∧
    ref (utf16Fam be) (utf16Fam be).init bytes 0 = runUtf16 be bytes :=
  sim_conforms (utf16Sim be) bytes hb

end EncodingRs.Lemmas.Conform
