import EncodingRs.Lemmas.ConformEncGbDef
/-! C03, GBK / gb18030: complete evaluation of `gbCheck` over the code points 0x9C00 ≤ c < 0xD000 (`native_decide`). -/
namespace EncodingRs.Lemmas.ConformEnc

theorem gb_check_r4 : allFrom gbCheck 0x9C00 0x3400 = true := by native_decide

end EncodingRs.Lemmas.ConformEnc
