import EncodingRs.Model.Decoder
import EncodingRs.Model.Unicode
import EncodingRs.Lemmas.Core
/-!
G6 `written_wellformed` (DESIGN.md 3.2): every call's output consists of scalar
values, so its UTF-8 / UTF-16 form is a concatenation of whole well-formed
sequences.  Per family an invariant `Inv` on the state is preserved by every
step from a byte `< 256` and implies that the step's outputs are scalar values.
-/
namespace EncodingRs.Lemmas.Scalar
open EncodingRs EncodingRs.Model

/-- Unicode Table 3-7: one well-formed UTF-8 byte sequence -/
def WfUtf8Seq : List Nat → Prop
  | [a] => a < 0x80
  | [a, b] => 0xC2 ≤ a ∧ a ≤ 0xDF ∧ 0x80 ≤ b ∧ b ≤ 0xBF
  | [a, b, c] =>
    0x80 ≤ c ∧ c ≤ 0xBF ∧
    ((a = 0xE0 ∧ 0xA0 ≤ b ∧ b ≤ 0xBF) ∨ (0xE1 ≤ a ∧ a ≤ 0xEC ∧ 0x80 ≤ b ∧ b ≤ 0xBF) ∨
     (a = 0xED ∧ 0x80 ≤ b ∧ b ≤ 0x9F) ∨ (0xEE ≤ a ∧ a ≤ 0xEF ∧ 0x80 ≤ b ∧ b ≤ 0xBF))
  | [a, b, c, d] =>
    0x80 ≤ c ∧ c ≤ 0xBF ∧ 0x80 ≤ d ∧ d ≤ 0xBF ∧
    ((a = 0xF0 ∧ 0x90 ≤ b ∧ b ≤ 0xBF) ∨ (0xF1 ≤ a ∧ a ≤ 0xF3 ∧ 0x80 ≤ b ∧ b ≤ 0xBF) ∨
     (a = 0xF4 ∧ 0x80 ≤ b ∧ b ≤ 0x8F))
  | _ => False

/-- one well-formed UTF-16 sequence: a non-surrogate unit or a high/low pair -/
def WfUtf16Seq : List Nat → Prop
  | [u] => u < 0xD800 ∨ (0xE000 ≤ u ∧ u < 0x10000)
  | [h, l] => 0xD800 ≤ h ∧ h ≤ 0xDBFF ∧ 0xDC00 ≤ l ∧ l ≤ 0xDFFF
  | _ => False

/-- a concatenation of whole well-formed sequences -/
inductive WfConcat (P : List Nat → Prop) : List Nat → Prop
  | nil : WfConcat P []
  | cons (seq rest : List Nat) : P seq → WfConcat P rest → WfConcat P (seq ++ rest)

theorem isScalar_iff (c : Nat) : isScalar c = true ↔ (c < 0xD800 ∨ (0xE000 ≤ c ∧ c < 0x110000)) := by
  simp only [isScalar, Bool.and_eq_true, decide_eq_true_eq, Bool.not_eq_true', Bool.and_eq_false_iff,
    decide_eq_false_iff_not]
  omega

theorem encodeUtf8_wf (c : Nat) (h : isScalar c = true) : WfUtf8Seq (encodeUtf8 c) := by
  rw [isScalar_iff] at h
  unfold encodeUtf8
  split
  · simpa [WfUtf8Seq]
  · split
    · simp only [WfUtf8Seq]; omega
    · split
      · simp only [WfUtf8Seq]; omega
      · simp only [WfUtf8Seq]; omega

theorem encodeUtf16_wf (c : Nat) (h : isScalar c = true) : WfUtf16Seq (encodeUtf16 c) := by
  rw [isScalar_iff] at h
  unfold encodeUtf16
  split
  · simp only [WfUtf16Seq]; omega
  · simp only [WfUtf16Seq]; omega

theorem flatMap_wf (P : List Nat → Prop) (enc : Nat → List Nat) (hq : ∀ c, isScalar c = true → P (enc c)) :
    ∀ cs : List Nat, (∀ c ∈ cs, isScalar c = true) → WfConcat P (cs.flatMap enc) := by
  intro cs
  induction cs with
  | nil => intro _; exact .nil
  | cons c t ih =>
    intro h
    simp only [List.flatMap_cons]
    exact .cons _ _ (hq c (h c (List.mem_cons_self ..))) (ih (fun x hx => h x (List.mem_cons_of_mem _ hx)))

/-- what a family must provide -/
structure ScalarInv (F : Fam) where
  Inv : F.σ → Prop
  init : Inv F.init
  /-- steps are taken from flushed states only -/
  step : ∀ s b, Inv s → F.pend s = none → b < 256 → Inv (F.feed s b).st ∧ ∀ c ∈ (F.feed s b).out, isScalar c = true
  pend : ∀ s o s', Inv s → F.pend s = some (o, s') → Inv s' ∧ ∀ c ∈ o, isScalar c = true
  eof : ∀ s e s', Inv s → F.eof s = some (e, s') → Inv s'
  alt : ∀ s src m r, Inv s → F.alt s src = some (m, r) → Inv r.st ∧ ∀ c ∈ r.out, isScalar c = true

theorem run_scalar (F : Fam) (k : Sink) (L : Laws F) (I : ScalarInv F) (last : Bool) :
    ∀ (src : List Nat) (s : F.σ) (budget : Budget), I.Inv s → F.pend s = none → (∀ b ∈ src, b < 256) →
      I.Inv (run F k last s src budget).st ∧ ∀ c ∈ (run F k last s src budget).out, isScalar c = true := by
  intro src
  induction src with
  | nil =>
    intro s budget hi _ _
    simp only [run]
    cases last with
    | false => exact ⟨hi, by simp⟩
    | true =>
      simp only [if_true]
      cases he : F.eof s with
      | none => exact ⟨hi, by simp⟩
      | some p =>
        obtain ⟨e, s'⟩ := p
        simp only
        split
        · exact ⟨hi, by simp⟩
        · exact ⟨I.eof s e s' hi he, by simp⟩
  | cons b tl ih =>
    intro s budget hi hp hb
    rw [run]
    cases hstop : stopHere F k s b tl budget with
    | some r =>
      simp only
      cases budget with
      | unlimited => simp [stopHere] at hstop
      | full n =>
        simp only [stopHere] at hstop
        split at hstop
        · cases hstop; exact ⟨hi, by simp⟩
        · cases hstop
      | altAny =>
        simp only [stopHere] at hstop
        cases ha : F.alt s (b :: tl) with
        | none => simp [ha] at hstop
        | some p =>
          obtain ⟨m, r'⟩ := p
          simp only [ha] at hstop
          split at hstop
          · cases hstop; exact I.alt s (b :: tl) m r' hi ha
          · cases hstop
    | none =>
      simp only
      have hstep := I.step s b hi hp (hb b (List.mem_cons_self ..))
      cases hE : (F.feed s b).err with
      | none =>
        simp only
        have IH := ih (F.feed s b).st budget.dec hstep.1 (L.pend_err s b hp hE)
          (fun x hx => hb x (List.mem_cons_of_mem _ hx))
        refine ⟨IH.1, ?_⟩
        intro c hc
        rw [List.mem_append] at hc
        cases hc with
        | inl h => exact hstep.2 c h
        | inr h => exact IH.2 c h
      | some e => exact ⟨hstep.1, hstep.2⟩

/-- **G6 `written_wellformed`**: every call from a state satisfying the invariant
writes only scalar values and re-establishes the invariant. -/
theorem call_scalar (F : Fam) (k : Sink) (L : Laws F) (I : ScalarInv F) (s : F.σ) (src : List Nat) (last : Bool)
    (budget : Budget) (hi : I.Inv s) (hb : ∀ b ∈ src, b < 256) :
    I.Inv (call F k s src last budget).st ∧ ∀ c ∈ (call F k s src last budget).out, isScalar c = true := by
  unfold call
  cases hp : F.pend s with
  | none => exact run_scalar F k L I last src s budget hi hp hb
  | some p =>
    obtain ⟨o, s'⟩ := p
    simp only
    split
    · exact ⟨hi, by simp⟩
    · have hpd := I.pend s o s' hi hp
      have hr := run_scalar F k L I last src s' budget.dec hpd.1 (L.pend_once s o s' hp) hb
      refine ⟨hr.1, ?_⟩
      intro c hc
      rw [List.mem_append] at hc
      cases hc with
      | inl h => exact hpd.2 c h
      | inr h => exact hr.2 c h

end EncodingRs.Lemmas.Scalar
