import EncodingRs.Lemmas.ConformEnc
/-!
# C03: the EUC-JP encoder of the model is the Standard's EUC-JP encoder, for every code point

Complete evaluation over all code points `< 0x110000` (`native_decide`): model over the
tables regenerated from `/repo/src/data.rs`, Standard over the vendored index jis0208 (all
11280 pointers; "index Shift_JIS pointer" excludes 8272..8835).
-/
namespace EncodingRs.Lemmas.ConformEnc
open EncodingRs EncodingRs.Model EncodingRs.Spec.Encode

def jisInv : Array Nat := mkInverse Spec.Enc.indexJis0208Full 0x10000

theorem jisInv_checks :
    checkEntries Spec.Enc.indexJis0208Full jisInv = true ∧ checkInverse Spec.Enc.indexJis0208Full jisInv = true := by
  native_decide

theorem jis_ptr : indexPointer Spec.Enc.indexJis0208Full = invLookup jisInv :=
  funext (indexPointer_eq_invLookup _ _ jisInv_checks.1 jisInv_checks.2)

def eucJpCheck (c : Nat) : Bool := decide (eucJpWith (invLookup jisInv) c = resOf (eucJpEncodeChar c) c)

theorem eucJp_check_all : allFrom eucJpCheck 0 0x110000 = true := by native_decide

/-- per-character conformance, EUC-JP -/
theorem eucJp_conforms (c : Nat) (hc : c < 0x110000) : eucJp c = resOf (eucJpEncodeChar c) c := by
  have h := allFrom_spec _ _ _ eucJp_check_all c (Nat.zero_le c) (by omega)
  unfold eucJp
  rw [jis_ptr]
  exact of_decide_eq_true h

end EncodingRs.Lemmas.ConformEnc
