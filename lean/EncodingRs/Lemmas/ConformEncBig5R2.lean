import EncodingRs.Lemmas.ConformEncBig5Def
/-! C03, Big5: complete evaluation of `big5Check` over the code points 0x6800 ≤ c < 0x9C00 (`native_decide`). -/
namespace EncodingRs.Lemmas.ConformEnc

theorem big5_check_r2 : allFrom big5Check 0x6800 0x3400 = true := by native_decide

end EncodingRs.Lemmas.ConformEnc
