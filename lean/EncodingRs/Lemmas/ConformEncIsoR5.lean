import EncodingRs.Lemmas.ConformEncIsoDef
/-! C03, ISO-2022-JP: complete evaluation of `isoCheck` (all three encoder states) over the code points 0x8600 ≤ c < 0x9400 (`native_decide`). -/
namespace EncodingRs.Lemmas.ConformEnc

theorem iso_check_r5 : allFrom isoCheck 0x8600 0xE00 = true := by native_decide

end EncodingRs.Lemmas.ConformEnc
