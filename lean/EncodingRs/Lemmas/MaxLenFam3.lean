import EncodingRs.Lemmas.MaxLenFam1
/-!
# C07 (decoder half): potentials for Big5, EUC-KR, Shift_JIS

The number of code units a lead / trail step can write is bounded by an exhaustive evaluation
of the lead and trail functions over all 256 bytes / 65 536 (lead, byte) pairs (`native_decide`,
like `big5_checks` in `ScalarFam`).
-/
namespace EncodingRs.Lemmas.MaxLenFam
open EncodingRs EncodingRs.Model EncodingRs.Lemmas.Potential EncodingRs.Lemmas.MaxLenArith
open EncodingRs.Lemmas.Scalar EncodingRs.Gen.MaxLen

/-- a non-ASCII byte that is a character by itself writes at most `a` units -/
def checkLeadU (lf : Nat → LeadRes) (k : Sink) (a : Nat) : Bool :=
  (List.range 256).all fun b => match lf b with
    | .out c => decide (unitsOf k c ≤ a)
    | _ => true

/-- a trail step writes at most `a` units -/
def checkTrailU (tf : Nat → Nat → TrailRes) (k : Sink) (a : Nat) : Bool :=
  (List.range 256).all fun l => (List.range 256).all fun b => match tf l b with
    | .out cs => decide (unitsOfList k cs ≤ a)
    | .bad => true

theorem trail_units {tf : Nat → Nat → TrailRes} {k : Sink} {a : Nat} (h : checkTrailU tf k a = true)
    (l b : Nat) (hl : l < 256) (hb : b < 256) (cs : List Nat) (he : tf l b = .out cs) :
    unitsOfList k cs ≤ a := by
  have := all_range (all_range h l hl) b hb
  simp only [he] at this
  exact of_decide_eq_true this

/-- the kinds of step of a two-byte family -/
def TwoByteFacts (k : Sink) (a1 a2 : Nat) (s : Option Nat) (r : FeedRes (Option Nat)) : Prop :=
  (s = none ∧ r.err = none ∧ r.st = none ∧ unitsOfList k r.out ≤ a1) ∨
  (s = none ∧ r.err = none ∧ r.st.isSome = true ∧ r.out = []) ∨
  (s = none ∧ (∃ e, r.err = some e) ∧ r.st = none ∧ r.out = [] ∧ r.unread = false) ∨
  (s.isSome = true ∧ r.err = none ∧ r.st = none ∧ unitsOfList k r.out ≤ a2) ∨
  (s.isSome = true ∧ (∃ e, r.err = some e) ∧ r.st = none ∧ r.out = [])

theorem twoByte_facts (lf : Nat → LeadRes) (tf : Nat → Nat → TrailRes) (k : Sink) (a1 a2 : Nat)
    (hl : checkLeadU lf k a1 = true) (h1 : 1 ≤ a1) (ht : checkTrailU tf k a2 = true)
    (s : Option Nat) (b : Nat) (hi : ∀ l, s = some l → l < 256) (hb : b < 256) :
    TwoByteFacts k a1 a2 s (twoByteFeed lf tf s b) := by
  cases s with
  | none =>
    by_cases h80 : b < 0x80
    · have hf : twoByteFeed lf tf none b = FeedRes.ok none [b] := by simp [twoByteFeed, h80]
      rw [hf]
      refine Or.inl ⟨rfl, rfl, rfl, ?_⟩
      show unitsOfList k [b] ≤ a1
      rw [units_single, unitsOf_ascii k b h80]; exact h1
    · cases hlf : lf b with
      | lead l =>
        have hf : twoByteFeed lf tf none b = FeedRes.ok (some l) [] := by simp [twoByteFeed, h80, hlf]
        rw [hf]
        exact Or.inr (Or.inl ⟨rfl, rfl, rfl, rfl⟩)
      | out c =>
        have hf : twoByteFeed lf tf none b = FeedRes.ok none [c] := by simp [twoByteFeed, h80, hlf]
        rw [hf]
        refine Or.inl ⟨rfl, rfl, rfl, ?_⟩
        show unitsOfList k [c] ≤ a1
        rw [units_single]
        have := all_range hl b hb
        simp only [hlf] at this
        exact of_decide_eq_true this
      | bad =>
        have hf : twoByteFeed lf tf none b = FeedRes.bad none 1 0 := by simp [twoByteFeed, h80, hlf]
        rw [hf]
        exact Or.inr (Or.inr (Or.inl ⟨rfl, ⟨_, rfl⟩, rfl, rfl, rfl⟩))
  | some l =>
    have hl' : l < 256 := hi l rfl
    cases htf : tf l b with
    | out cs =>
      have hf : twoByteFeed lf tf (some l) b = FeedRes.ok none cs := by simp [twoByteFeed, htf]
      rw [hf]
      exact Or.inr (Or.inr (Or.inr (Or.inl ⟨rfl, rfl, rfl, trail_units ht l b hl' hb cs htf⟩)))
    | bad =>
      by_cases h80 : b < 0x80
      · have hf : twoByteFeed lf tf (some l) b = FeedRes.bad none 1 0 true := by simp [twoByteFeed, htf, h80]
        rw [hf]
        exact Or.inr (Or.inr (Or.inr (Or.inr ⟨rfl, ⟨_, rfl⟩, rfl, rfl⟩)))
      · have hf : twoByteFeed lf tf (some l) b = FeedRes.bad none 2 0 := by simp [twoByteFeed, htf, h80]
        rw [hf]
        exact Or.inr (Or.inr (Or.inr (Or.inr ⟨rfl, ⟨_, rfl⟩, rfl, rfl⟩)))

/-- two-byte families: a bound `φ lead n` (`lead` = a lead byte is pending) is a potential if it
satisfies these inequalities (one per kind of step) -/
def twoBytePot (lf : Nat → LeadRes) (tf : Nat → Nat → TrailRes) (astral : Bool) (k : Sink) (repl : Bool)
    (S : checkLead lf = true) (T : checkTrail tf = true)
    (a1 a2 : Nat) (hl : checkLeadU lf k a1 = true) (h1 : 1 ≤ a1) (ht : checkTrailU tf k a2 = true)
    (φ : Bool → Nat → Nat)
    (h_need : ∀ l n, (if astral then needAstral k else needBmp k) ≤ φ l (n + 1))
    (h_out : ∀ n, a1 + φ false n ≤ φ false (n + 1))
    (h_lead : ∀ n, φ true n ≤ φ false (n + 1))
    (h_trail : ∀ n, a2 + φ false n ≤ φ true (n + 1))
    (h_err0 : repl = true → ∀ n, replRoom k + φ false n ≤ φ false (n + 1))
    (h_err1 : repl = true → ∀ n, replRoom k + φ false (n + 1) ≤ φ true (n + 1))
    (h_mono : ∀ n, φ false n ≤ φ false (n + 1))
    (h_eof : repl = true → replRoom k + φ false 0 ≤ φ true 0) :
    Potential (twoByteFam lf tf astral) k repl where
  Inv := fun s => ∀ l, s = some l → l < 256
  Φ := fun s n => φ s.isSome n
  inv_step := fun s b hi hp hb => ((twoByteScalar lf tf astral S T).step s b hi hp hb).1
  inv_pend := by intro s o s' _ h; cases h
  inv_eof := fun s e s' hi h => (twoByteScalar lf tf astral S T).eof s e s' hi h
  need_le := by intro s b n _ _ _; exact h_need _ _
  step_ok := by
    intro (s : Option Nat) b n hi _ hb he
    have he' : (twoByteFeed lf tf s b).err = none := he
    show unitsOfList k (twoByteFeed lf tf s b).out + φ (twoByteFeed lf tf s b).st.isSome n ≤ φ s.isSome (n + 1)
    rcases twoByte_facts lf tf k a1 a2 hl h1 ht s b hi hb with
      ⟨hs, _, hst, hu⟩ | ⟨hs, _, hst, ho⟩ | ⟨_, ⟨e, h⟩, _⟩ | ⟨hs, _, hst, hu⟩ | ⟨_, ⟨e, h⟩, _⟩
    · subst hs; rw [hst]; simp only [Option.isSome_none]; have := h_out n; omega
    · subst hs; rw [hst, ho, units_nil]; simp only [Option.isSome_none]; have := h_lead n; omega
    · rw [he'] at h; cases h
    · rw [hst, hs]; simp only [Option.isSome_none]; have := h_trail n; omega
    · rw [he'] at h; cases h
  step_err := by
    intro hr (s : Option Nat) b n e hi _ hb he
    have he' : (twoByteFeed lf tf s b).err = some e := he
    show unitsOfList k (twoByteFeed lf tf s b).out + replRoom k
      + φ (twoByteFeed lf tf s b).st.isSome (if (twoByteFeed lf tf s b).unread then n + 1 else n)
      ≤ φ s.isSome (n + 1)
    rcases twoByte_facts lf tf k a1 a2 hl h1 ht s b hi hb with
      ⟨_, h, _⟩ | ⟨_, h, _⟩ | ⟨hs, _, hst, ho, hu⟩ | ⟨_, h, _⟩ | ⟨hs, _, hst, ho⟩
    · rw [he'] at h; cases h
    · rw [he'] at h; cases h
    · subst hs
      rw [hst, ho, hu, units_nil]
      simp only [Option.isSome_none, Bool.false_eq_true, if_false]
      have := h_err0 hr n; omega
    · rw [he'] at h; cases h
    · rw [hst, ho, units_nil, hs]
      simp only [Option.isSome_none]
      have := h_err1 hr n
      have := h_mono n
      split <;> omega
  pend_le := by intro s o s' n _ h; cases h
  eof_le := by
    intro (s : Option Nat) e (s' : Option Nat) _ _ h
    refine ⟨Nat.zero_le _, ?_⟩
    intro hr
    show replRoom k + φ s'.isSome 0 ≤ φ s.isSome 0
    cases s with
    | none => cases h
    | some l => cases h; exact h_eof hr
  alt_le := by intro _ s src m r _ _ h; cases h
  alt_inv := by intro s src m r _ h; cases h

theorem twoBytePot_inv_init (lf tf astral k repl S T a1 a2 hl h1 ht φ h2 h3 h4 h5 h6 h7 h8 h9) :
    (twoBytePot lf tf astral k repl S T a1 a2 hl h1 ht φ h2 h3 h4 h5 h6 h7 h8 h9).Inv
      (twoByteFam lf tf astral).init := by
  intro l h; cases h

/-! ### the exhaustive unit counts -/

theorem big5_units :
    checkLeadU big5Lead .utf16 1 = true ∧ checkLeadU big5Lead .utf8 1 = true ∧
    checkTrailU big5Trail .utf16 2 = true ∧ checkTrailU big5Trail .utf8 4 = true := by native_decide

theorem eucKr_units :
    checkLeadU eucKrLead .utf16 1 = true ∧ checkLeadU eucKrLead .utf8 1 = true ∧
    checkTrailU eucKrTrail .utf16 1 = true ∧ checkTrailU eucKrTrail .utf8 3 = true := by native_decide

theorem shiftJis_units :
    checkLeadU shiftJisLead .utf16 1 = true ∧ checkLeadU shiftJisLead .utf8 3 = true ∧
    checkTrailU shiftJisTrail .utf16 1 = true ∧ checkTrailU shiftJisTrail .utf8 3 = true := by native_decide

/-! ### Big5: `1 + len`, `3 + 3 len`, `2 + 2 len` with `len = n + [lead pending]` -/

def big5Pot16 : Potential big5Fam .utf16 true :=
  twoBytePot big5Lead big5Trail true .utf16 true big5_checks.1 big5_checks.2 1 2
    big5_units.1 (Nat.le_refl _) big5_units.2.2.1
    (fun l n => 1 + (n + (if l then 1 else 0)))
    (by intro l n; simp only [if_true, needAstral]; omega)
    (by intro n; simp <;> omega) (by intro n; simp <;> omega) (by intro n; simp <;> omega)
    (by intro _ n; simp [replRoom] <;> omega) (by intro _ n; simp [replRoom] <;> omega)
    (by intro n; simp) (by intro _; simp [replRoom])

def big5Pot8 : Potential big5Fam .utf8 true :=
  twoBytePot big5Lead big5Trail true .utf8 true big5_checks.1 big5_checks.2 1 4
    big5_units.2.1 (Nat.le_refl _) big5_units.2.2.2
    (fun l n => 3 + 3 * (n + (if l then 1 else 0)))
    (by intro l n; simp only [if_true, needAstral]; omega)
    (by intro n; simp <;> omega) (by intro n; simp <;> omega) (by intro n; simp <;> omega)
    (by intro _ n; simp [replRoom] <;> omega) (by intro _ n; simp [replRoom] <;> omega)
    (by intro n; simp <;> omega) (by intro _; simp [replRoom])

def big5Pot8N : Potential big5Fam .utf8 false :=
  twoBytePot big5Lead big5Trail true .utf8 false big5_checks.1 big5_checks.2 1 4
    big5_units.2.1 (Nat.le_refl _) big5_units.2.2.2
    (fun l n => 2 + 2 * (n + (if l then 1 else 0)))
    (by intro l n; simp only [if_true, needAstral]; omega)
    (by intro n; simp <;> omega) (by intro n; simp <;> omega) (by intro n; simp <;> omega)
    (by intro h; cases h) (by intro h; cases h)
    (by intro n; simp <;> omega) (by intro h; cases h)

/-! ### EUC-KR: `len`, `3 len`, `2 + len + (1 + len) / 2` -/

def eucKrPot16 : Potential eucKrFam .utf16 true :=
  twoBytePot eucKrLead eucKrTrail false .utf16 true eucKr_checks.1 eucKr_checks.2 1 1
    eucKr_units.1 (Nat.le_refl _) eucKr_units.2.2.1
    (fun l n => n + (if l then 1 else 0))
    (by intro l n; simp only [needBmp]; simp <;> omega)
    (by intro n; simp <;> omega) (by intro n; simp) (by intro n; simp <;> omega)
    (by intro _ n; simp [replRoom] <;> omega) (by intro _ n; simp [replRoom] <;> omega)
    (by intro n; simp) (by intro _; simp [replRoom])

def eucKrPot8 : Potential eucKrFam .utf8 true :=
  twoBytePot eucKrLead eucKrTrail false .utf8 true eucKr_checks.1 eucKr_checks.2 1 3
    eucKr_units.2.1 (Nat.le_refl _) eucKr_units.2.2.2
    (fun l n => 3 * (n + (if l then 1 else 0)))
    (by intro l n; simp only [needBmp]; simp <;> omega)
    (by intro n; simp <;> omega) (by intro n; simp) (by intro n; simp <;> omega)
    (by intro _ n; simp [replRoom] <;> omega) (by intro _ n; simp [replRoom] <;> omega)
    (by intro n; simp <;> omega) (by intro _; simp [replRoom])

def eucKrPot8N : Potential eucKrFam .utf8 false :=
  twoBytePot eucKrLead eucKrTrail false .utf8 false eucKr_checks.1 eucKr_checks.2 1 3
    eucKr_units.2.1 (Nat.le_refl _) eucKr_units.2.2.2
    (fun l n => 2 + ((n + (if l then 1 else 0)) + (1 + (n + (if l then 1 else 0))) / 2))
    (by intro l n; simp only [needBmp]; simp <;> omega)
    (by intro n; simp <;> omega) (by intro n; simp <;> omega) (by intro n; simp <;> omega)
    (by intro h; cases h) (by intro h; cases h)
    (by intro n; simp <;> omega) (by intro h; cases h)

/-! ### Shift_JIS: `len`, `3 len`, `3 len` -/

def shiftJisPot16 : Potential shiftJisFam .utf16 true :=
  twoBytePot shiftJisLead shiftJisTrail false .utf16 true shiftJis_checks.1 shiftJis_checks.2 1 1
    shiftJis_units.1 (Nat.le_refl _) shiftJis_units.2.2.1
    (fun l n => n + (if l then 1 else 0))
    (by intro l n; simp only [needBmp]; simp <;> omega)
    (by intro n; simp <;> omega) (by intro n; simp) (by intro n; simp <;> omega)
    (by intro _ n; simp [replRoom] <;> omega) (by intro _ n; simp [replRoom] <;> omega)
    (by intro n; simp) (by intro _; simp [replRoom])

def shiftJisPot8 (repl : Bool) : Potential shiftJisFam .utf8 repl :=
  twoBytePot shiftJisLead shiftJisTrail false .utf8 repl shiftJis_checks.1 shiftJis_checks.2 3 3
    shiftJis_units.2.1 (by decide) shiftJis_units.2.2.2
    (fun l n => 3 * (n + (if l then 1 else 0)))
    (by intro l n; simp only [needBmp]; simp <;> omega)
    (by intro n; simp <;> omega) (by intro n; simp) (by intro n; simp <;> omega)
    (by intro _ n; simp [replRoom] <;> omega) (by intro _ n; simp [replRoom] <;> omega)
    (by intro n; simp <;> omega) (by intro _; simp [replRoom])

end EncodingRs.Lemmas.MaxLenFam
