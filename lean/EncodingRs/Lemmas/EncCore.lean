import EncodingRs.Model.Encoder
/-!
Generic lemmas about streaming encoder calls (E1/E2 of DESIGN.md 3.4): the
reference semantics `eref` of a whole text and soundness of every raw call
against it, whatever the stop policy.
-/
namespace EncodingRs.Lemmas.EncCore
open EncodingRs EncodingRs.Model

/-- what an encoder says about a text: bytes and unmappable reports, in order -/
inductive EEv | byte (b : Nat) | unmap (c : Nat)
deriving DecidableEq, Repr

variable (E : EFam)

/-- the fuel `rank + 1` is always enough, and any larger fuel gives the same result -/
theorem processChar_fuel : ∀ (f1 f2 : Nat) (s : E.σ) (c : Nat) (b : Budget) (acc : List Nat),
    E.rank s c < f1 → E.rank s c < f2 → processChar E f1 s c b acc = processChar E f2 s c b acc := by
  intro f1
  induction f1 with
  | zero => intro f2 s c b acc h; omega
  | succ f1 ih =>
    intro f2 s c b acc h1 h2
    cases f2 with
    | zero => omega
    | succ f2 =>
      simp only [processChar]
      split
      · rfl
      · split
        · rfl
        · split
          · rename_i hu
            have hr := E.unread_rank s c hu
            exact ih f2 _ c _ _ (by omega) (by omega)
          · rfl

/-- reference semantics of a complete text (`last` call, no stops) -/
def eref : E.σ → List Nat → List EEv
  | s, [] => (E.eof s).1.map EEv.byte
  | s, c :: t =>
    match processChar E (E.rank s c + 1) s c .unlimited [] with
    | .done st out _ => out.map EEv.byte ++ eref st t
    | .unmappable st out u => out.map EEv.byte ++ EEv.unmap u :: eref st t
    | .full _ out _ => out.map EEv.byte

/-- events of one raw call -/
def eevs {σ} (r : ECallRes σ) : List EEv :=
  r.out.map EEv.byte ++ (match r.res with | .unmappable u => [EEv.unmap u] | _ => [])

/-- `erun` that also returns the items it did not consume -/
def erunI (last : Bool) : E.σ → List (Nat × Nat) → Budget → ECallRes E.σ × List (Nat × Nat)
  | s, [], b => (erun E last s [] b, [])
  | s, (c, w) :: rest, b =>
    match processChar E (E.rank s c + 1) s c b [] with
    | .full st out need => (⟨.outputFull, 0, out, st, need⟩, (c, w) :: rest)
    | .unmappable st out u => (⟨.unmappable u, w, out, st, 0⟩, rest)
    | .done st out b' =>
      let t := erunI last st rest b'
      (⟨t.1.res, t.1.read + w, out ++ t.1.out, t.1.st, t.1.stopNeed⟩, t.2)

theorem erunI_fst (last : Bool) : ∀ (items : List (Nat × Nat)) (s : E.σ) (b : Budget),
    (erunI E last s items b).1 = erun E last s items b := by
  intro items
  induction items with
  | nil => intro s b; rfl
  | cons it rest ih =>
    intro s b
    obtain ⟨c, w⟩ := it
    simp only [erunI, erun]
    split <;> simp_all

/-- the laws an encoder family satisfies (proved per family) -/
structure ELaws : Prop where
  /-- after the end-of-stream block nothing more is written -/
  eof_idem : ∀ s, (E.eof (E.eof s).2).1 = []

end EncodingRs.Lemmas.EncCore

namespace EncodingRs.Lemmas.EncCore
open EncodingRs EncodingRs.Model
variable (E : EFam)

def CharRes.prepend {σ} (acc : List Nat) : CharRes σ → CharRes σ
  | .done st out b => .done st (acc ++ out) b
  | .unmappable st out u => .unmappable st (acc ++ out) u
  | .full st out need => .full st (acc ++ out) need

theorem processChar_acc : ∀ (f : Nat) (s : E.σ) (c : Nat) (b : Budget) (acc : List Nat),
    processChar E f s c b acc = CharRes.prepend acc (processChar E f s c b []) := by
  intro f
  induction f with
  | zero => intro s c b acc; simp [processChar, CharRes.prepend]
  | succ f ih =>
    intro s c b acc
    simp only [processChar]
    split
    · simp [CharRes.prepend]
    · split
      · simp [CharRes.prepend]
      · split
        · rw [ih _ c _ (acc ++ _), ih _ c _ ([] ++ _)]
          cases processChar E f (E.step s c).st c b.dec [] <;> simp [CharRes.prepend, List.append_assoc]
        · simp [CharRes.prepend]

/-- events of processing one character -/
def charEvs {σ} : CharRes σ → List EEv
  | .done _ out _ => out.map EEv.byte
  | .unmappable _ out u => out.map EEv.byte ++ [EEv.unmap u]
  | .full _ out _ => out.map EEv.byte

def charSt {σ} : CharRes σ → σ
  | .done st _ _ => st
  | .unmappable st _ _ => st
  | .full st _ _ => st

theorem charEvs_prepend {σ} (acc : List Nat) (r : CharRes σ) :
    charEvs (CharRes.prepend acc r) = acc.map EEv.byte ++ charEvs r := by
  cases r <;> simp [charEvs, CharRes.prepend, List.append_assoc]

theorem charSt_prepend {σ} (acc : List Nat) (r : CharRes σ) : charSt (CharRes.prepend acc r) = charSt r := by
  cases r <;> rfl

/-- `eref` unfolded through `charEvs` (the `.full` case cannot occur without a budget) -/
def isFull {σ} : CharRes σ → Bool
  | .full _ _ _ => true
  | _ => false

theorem processChar_unlimited_not_full : ∀ (f : Nat) (s : E.σ) (c : Nat) (acc : List Nat),
    isFull (processChar E f s c .unlimited acc) = false := by
  intro f
  induction f with
  | zero => intro s c acc; rfl
  | succ f ih =>
    intro s c acc
    simp only [processChar, Budget.isZero, Bool.false_eq_true, if_false]
    split
    · rfl
    · split
      · exact ih _ c _
      · rfl

theorem eref_cons (s : E.σ) (c : Nat) (t : List Nat) :
    eref E s (c :: t) = charEvs (processChar E (E.rank s c + 1) s c .unlimited [])
      ++ eref E (charSt (processChar E (E.rank s c + 1) s c .unlimited [])) t := by
  rw [eref]
  have hnf := processChar_unlimited_not_full E (E.rank s c + 1) s c []
  cases h : processChar E (E.rank s c + 1) s c .unlimited [] with
  | done st out b => simp [charEvs, charSt]
  | unmappable st out u => simp [charEvs, charSt]
  | full st out need => rw [h] at hnf; simp [isFull] at hnf

/-- **A budgeted run of one character is a prefix of the unlimited run**: either it completed the
same way, or it stopped (`.full`) in a state from which the unlimited run of the same character
produces the rest. -/
theorem processChar_budget : ∀ (f : Nat) (s : E.σ) (c : Nat) (b : Budget), E.rank s c < f →
    (match processChar E f s c b [] with
     | .full st out _ =>
       charEvs (processChar E f s c .unlimited [])
         = out.map EEv.byte ++ charEvs (processChar E (E.rank st c + 1) st c .unlimited []) ∧
       charSt (processChar E f s c .unlimited []) = charSt (processChar E (E.rank st c + 1) st c .unlimited [])
     | r => charEvs (processChar E f s c .unlimited []) = charEvs r ∧
            charSt (processChar E f s c .unlimited []) = charSt r) := by
  intro f
  induction f with
  | zero => intro s c b h; omega
  | succ f ih =>
    intro s c b hf
    by_cases hz : b.isZero = true
    · -- stop before anything happened
      have h1 : processChar E (f + 1) s c b [] = .full s [] (E.need s c) := by simp [processChar, hz]
      rw [h1]
      simp only [List.map_nil, List.nil_append]
      have := processChar_fuel E (f + 1) (E.rank s c + 1) s c .unlimited [] hf (Nat.lt_succ_self _)
      rw [this]
      exact ⟨rfl, rfl⟩
    · have hz' : b.isZero = false := by cases h : b.isZero <;> simp_all
      cases hum : (E.step s c).unmappable with
      | some u =>
        have h1 : processChar E (f + 1) s c b [] = .unmappable (E.step s c).st ([] ++ (E.step s c).out) u := by
          simp [processChar, hz', hum]
        have h2 : processChar E (f + 1) s c .unlimited [] = .unmappable (E.step s c).st ([] ++ (E.step s c).out) u := by
          simp [processChar, Budget.isZero, hum]
        rw [h1, h2]
        exact ⟨rfl, rfl⟩
      | none =>
        cases hun : (E.step s c).unread with
        | false =>
          have h1 : processChar E (f + 1) s c b [] = .done (E.step s c).st ([] ++ (E.step s c).out) b.dec := by
            simp [processChar, hz', hum, hun]
          have h2 : processChar E (f + 1) s c .unlimited []
              = .done (E.step s c).st ([] ++ (E.step s c).out) Budget.unlimited.dec := by
            simp [processChar, Budget.isZero, hum, hun]
          rw [h1, h2]
          exact ⟨rfl, rfl⟩
        | true =>
          have hr := E.unread_rank s c hun
          have h1 : processChar E (f + 1) s c b []
              = processChar E f (E.step s c).st c b.dec ([] ++ (E.step s c).out) := by
            simp [processChar, hz', hum, hun]
          have h2 : processChar E (f + 1) s c .unlimited []
              = processChar E f (E.step s c).st c .unlimited ([] ++ (E.step s c).out) := by
            simp [processChar, Budget.isZero, hum, hun, Budget.dec]
          rw [h1, h2, processChar_acc E f _ c b.dec, processChar_acc E f _ c .unlimited]
          have IH := ih (E.step s c).st c b.dec (by omega)
          simp only [charEvs_prepend, charSt_prepend]
          cases hres : processChar E f (E.step s c).st c b.dec [] with
          | full st out need =>
            rw [hres] at IH
            simp only [CharRes.prepend] at IH ⊢
            refine ⟨?_, IH.2⟩
            rw [IH.1]
            simp [List.append_assoc]
          | done st out b' =>
            rw [hres] at IH
            simp only [CharRes.prepend] at IH ⊢
            refine ⟨?_, by simpa [charSt] using IH.2⟩
            rw [IH.1]; simp [charEvs]
          | unmappable st out u =>
            rw [hres] at IH
            simp only [CharRes.prepend] at IH ⊢
            refine ⟨?_, by simpa [charSt] using IH.2⟩
            rw [IH.1]; simp [charEvs, List.append_assoc]

end EncodingRs.Lemmas.EncCore

namespace EncodingRs.Lemmas.EncCore
open EncodingRs EncodingRs.Model
variable (E : EFam)

/-- **E1 `erun_sound`**: whatever the stop policy, the events of a raw call followed by the reference
semantics of the text that is left are the reference semantics of the whole text. -/
theorem erunI_sound (L : ELaws E) (last : Bool) :
    ∀ (items : List (Nat × Nat)) (s : E.σ) (b : Budget) (rest : List Nat), (last = true → rest = []) →
      eevs (erunI E last s items b).1
        ++ eref E (erunI E last s items b).1.st ((erunI E last s items b).2.map Prod.fst ++ rest)
      = eref E s (items.map Prod.fst ++ rest) := by
  intro items
  induction items with
  | nil =>
    intro s b rest hl
    simp only [erunI, erun, List.map_nil, List.nil_append]
    cases last with
    | false => simp [eevs]
    | true =>
      have : rest = [] := hl rfl
      subst this
      simp only [if_true]
      split
      · rename_i he
        simp only [eevs, List.map_nil, List.nil_append, List.append_nil]
        rw [eref, eref, L.eof_idem]
        have : (E.eof s).1 = [] := by simpa using he
        simp [this]
      · split
        · simp [eevs]
        · simp only [eevs, List.append_nil]
          rw [eref, eref, L.eof_idem]
          simp
  | cons it tl ih =>
    intro s b rest hl
    obtain ⟨c, w⟩ := it
    simp only [erunI, List.map_cons, List.cons_append]
    rw [eref_cons]
    have hb := processChar_budget E (E.rank s c + 1) s c b (Nat.lt_succ_self _)
    cases hres : processChar E (E.rank s c + 1) s c b [] with
    | full st out need =>
      rw [hres] at hb
      simp only [eevs, List.map_cons, List.cons_append, List.append_nil]
      rw [eref_cons E st c, hb.1, hb.2, List.append_assoc]
    | unmappable st out u =>
      rw [hres] at hb
      simp only [eevs]
      rw [hb.1, hb.2]
      simp [charEvs, charSt, List.append_assoc]
    | done st out b' =>
      rw [hres] at hb
      simp only
      rw [hb.1, hb.2]
      have IH := ih st b' rest hl
      simp only [charEvs, charSt]
      rw [← IH]
      simp only [eevs, List.map_append, List.append_assoc]

end EncodingRs.Lemmas.EncCore
