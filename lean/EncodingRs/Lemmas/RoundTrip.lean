import EncodingRs.Lemmas.Core
import EncodingRs.Lemmas.EncCore
import EncodingRs.Model.Decoder
/-!
# Round trip, generic part (C12)

* `feedAll F s bs`: feed the bytes `bs` one by one to the decoder family `F` from
  state `s`; **fails** (`none`) as soon as a step reports an error, hands its
  byte back, or leaves a delayed output.  Total and executable, so finite
  obligations about it can be evaluated.
* `feedAll_ref`: a successful `feedAll` *is* the reference decoding semantics
  `ref` of those bytes, in front of any continuation of the stream.
* `feedAll_append` / `feedAll_prefix`: success is closed under byte prefixes.
* `subst`: the byte stream an `Encoder` (with replacement) produces from the
  events of the raw encoder: every `Unmappable(u)` becomes `ncr u`.
* `erefOpen` / `eref_append`: events of a text prefix (no end-of-stream block).
-/
namespace EncodingRs.Lemmas.RoundTrip
open EncodingRs EncodingRs.Model EncodingRs.Lemmas.Core EncodingRs.Lemmas.EncCore

/-! ### `feedAll` -/

/-- feed `bs` byte by byte; `none` on any error / unread / delayed output -/
def feedAll (F : Fam) : F.σ → List Nat → Option (List Nat × F.σ)
  | s, [] => some ([], s)
  | s, b :: bs =>
    let r := F.feed s b
    if r.err.isNone && !r.unread && (F.pend r.st).isNone then
      match feedAll F r.st bs with
      | some (o, s') => some (r.out ++ o, s')
      | none => none
    else none

theorem feedAll_nil (F : Fam) (s : F.σ) : feedAll F s [] = some ([], s) := rfl

theorem feedAll_cons (F : Fam) (s : F.σ) (b : Nat) (bs : List Nat) (o : List Nat) (s' : F.σ)
    (h : feedAll F s (b :: bs) = some (o, s')) :
    (F.feed s b).err = none ∧ (F.feed s b).unread = false ∧ F.pend (F.feed s b).st = none ∧
    ∃ o2, feedAll F (F.feed s b).st bs = some (o2, s') ∧ o = (F.feed s b).out ++ o2 := by
  simp only [feedAll] at h
  split at h
  · rename_i hc
    simp only [Bool.and_eq_true, Option.isNone_iff_eq_none, Bool.not_eq_true'] at hc
    obtain ⟨⟨h1, h2⟩, h3⟩ := hc
    refine ⟨h1, h2, h3, ?_⟩
    split at h
    · rename_i o2 s2 heq
      simp only [Option.some.injEq, Prod.mk.injEq] at h
      obtain ⟨rfl, rfl⟩ := h
      exact ⟨o2, heq, rfl⟩
    · cases h
  · cases h

/-- **`feedAll_ref`**: bytes that `feedAll` accepts from a state without delayed output decode,
in the reference semantics and in front of any continuation `rest`, to exactly the scalar values
`feedAll` returns — no `Ev.err` — and the rest of the stream is decoded from the state `feedAll`
ends in (which again has no delayed output). -/
theorem feedAll_ref (F : Fam) : ∀ (bs : List Nat) (s : F.σ) (outs : List Nat) (s' : F.σ) (rest : List Nat) (pos : Nat),
    feedAll F s bs = some (outs, s') → F.pend s = none →
    ref F s (bs ++ rest) pos = outs.map Ev.cp ++ ref F s' rest (pos + bs.length) ∧ F.pend s' = none := by
  intro bs
  induction bs with
  | nil =>
    intro s outs s' rest pos h hp
    simp only [feedAll, Option.some.injEq, Prod.mk.injEq] at h
    obtain ⟨rfl, rfl⟩ := h
    simp [hp]
  | cons b bs ih =>
    intro s outs s' rest pos h hp
    obtain ⟨he, hu, hpn, o2, h2, rfl⟩ := feedAll_cons F s b bs outs s' h
    obtain ⟨ih1, ih2⟩ := ih (F.feed s b).st o2 s' rest (pos + 1) h2 hpn
    refine ⟨?_, ih2⟩
    rw [List.cons_append, ref_cons F s b _ pos hp, hu, he]
    simp only [Bool.false_eq_true, if_false, errEv, List.append_nil, ih1, List.map_append,
      List.append_assoc, List.length_cons, Nat.add_assoc, Nat.add_comm 1]

theorem feedAll_append (F : Fam) : ∀ (a b : List Nat) (s : F.σ),
    feedAll F s (a ++ b) = match feedAll F s a with
      | some (o1, s1) => (match feedAll F s1 b with
        | some (o2, s2) => some (o1 ++ o2, s2)
        | none => none)
      | none => none := by
  intro a
  induction a with
  | nil => intro b s; simp only [List.nil_append, feedAll]; cases feedAll F s b <;> simp
  | cons x a ih =>
    intro b s
    simp only [List.cons_append, feedAll]
    split
    · rw [ih b]
      cases feedAll F (F.feed s x).st a with
      | none => rfl
      | some p =>
        obtain ⟨o1, s1⟩ := p
        simp only
        cases feedAll F s1 b with
        | none => rfl
        | some q => simp [List.append_assoc]
    · rfl

theorem feedAll_append_some (F : Fam) (a b : List Nat) (s s1 s2 : F.σ) (o1 o2 : List Nat)
    (h1 : feedAll F s a = some (o1, s1)) (h2 : feedAll F s1 b = some (o2, s2)) :
    feedAll F s (a ++ b) = some (o1 ++ o2, s2) := by
  rw [feedAll_append, h1]; simp only [h2]

/-- success is closed under byte prefixes -/
theorem feedAll_prefix (F : Fam) (a b : List Nat) (s s2 : F.σ) (o : List Nat)
    (h : feedAll F s (a ++ b) = some (o, s2)) :
    ∃ o1 s1 o2, feedAll F s a = some (o1, s1) ∧ feedAll F s1 b = some (o2, s2) ∧ o = o1 ++ o2 := by
  rw [feedAll_append] at h
  cases h1 : feedAll F s a with
  | none => simp [h1] at h
  | some p =>
    obtain ⟨o1, s1⟩ := p
    simp only [h1] at h
    cases h2 : feedAll F s1 b with
    | none => simp [h2] at h
    | some q =>
      obtain ⟨o2, s2'⟩ := q
      simp only [h2, Option.some.injEq, Prod.mk.injEq] at h
      obtain ⟨rfl, rfl⟩ := h
      exact ⟨o1, s1, o2, rfl, h2, rfl⟩

/-- bytes that pass through unchanged and leave the state alone -/
theorem feedAll_pass (F : Fam) (s : F.σ) (hp : F.pend s = none) : ∀ (bs : List Nat),
    (∀ b ∈ bs, F.feed s b = ⟨s, [b], none, false⟩) → feedAll F s bs = some (bs, s) := by
  intro bs
  induction bs with
  | nil => intro _; rfl
  | cons b bs ih =>
    intro h
    have hb := h b (by simp)
    simp only [feedAll, hb, Option.isNone_none, Bool.not_false, Bool.and_self, hp, if_true]
    rw [ih (fun x hx => h x (by simp [hx]))]
    simp

/-! ### the byte stream of an `Encoder` with replacement -/

def substEv : EEv → List Nat
  | .byte b => [b]
  | .unmap u => ncr u

/-- every `Unmappable(u)` replaced by the numeric character reference `ncr u` -/
def subst (evs : List EEv) : List Nat := evs.flatMap substEv

theorem subst_append (a b : List EEv) : subst (a ++ b) = subst a ++ subst b := by
  simp [subst]

theorem subst_bytes (bs : List Nat) : subst (bs.map EEv.byte) = bs := by
  induction bs with
  | nil => rfl
  | cons b bs ih =>
    simp only [subst, List.map_cons, List.flatMap_cons, substEv] at ih ⊢
    rw [ih]; rfl

theorem subst_unmap (u : Nat) (l : List EEv) : subst (EEv.unmap u :: l) = ncr u ++ subst l := by
  simp [subst, substEv]

/-! ### the NCR is ASCII: `&`, `#`, digits, `;` -/

def isNcrByte (b : Nat) : Bool := b == 38 || b == 35 || b == 59 || (48 ≤ b && b ≤ 57)

theorem decimalDigits_digits : ∀ (fuel n : Nat), ∀ b ∈ decimalDigits fuel n, 48 ≤ b ∧ b ≤ 57 := by
  intro fuel
  induction fuel with
  | zero => intro n b hb; simp [decimalDigits] at hb
  | succ f ih =>
    intro n b hb
    simp only [decimalDigits] at hb
    split at hb
    · simp only [List.mem_singleton] at hb; omega
    · simp only [List.mem_append, List.mem_singleton] at hb
      rcases hb with hb | hb
      · exact ih _ b hb
      · omega

/-- every byte of a numeric character reference is one of `&`, `#`, `;`, `0`–`9` -/
theorem ncr_bytes (u : Nat) : ∀ b ∈ ncr u, isNcrByte b = true := by
  intro b hb
  simp only [ncr, List.mem_append, List.mem_cons, List.not_mem_nil, or_false] at hb
  simp only [isNcrByte, Bool.or_eq_true, beq_iff_eq, Bool.and_eq_true, decide_eq_true_eq]
  rcases hb with (hb | hb) | hb
  · rcases hb with hb | hb <;> simp [hb]
  · have := decimalDigits_digits 8 u b hb; right; exact this
  · simp [hb]

theorem isNcrByte_ascii (b : Nat) (h : isNcrByte b = true) :
    b < 0x80 ∧ b ≠ 0x0E ∧ b ≠ 0x0F ∧ b ≠ 0x1B ∧ b ≠ 0x5C ∧ b ≠ 0x7E := by
  simp only [isNcrByte, Bool.or_eq_true, beq_iff_eq, Bool.and_eq_true, decide_eq_true_eq] at h
  omega

/-! ### events of a text prefix -/

variable (E : EFam)

/-- events and state after the characters of `t`, without the end-of-stream block -/
def erefOpen : E.σ → List Nat → List EEv × E.σ
  | s, [] => ([], s)
  | s, c :: t =>
    let r := processChar E (E.rank s c + 1) s c .unlimited []
    let q := erefOpen (charSt r) t
    (charEvs r ++ q.1, q.2)

theorem eref_nil (s : E.σ) : eref E s [] = (E.eof s).1.map EEv.byte := by rw [eref]

/-- the events of a whole text are those of a prefix followed by those of the rest from the state
reached: in particular the bytes written for a prefix are a prefix of the bytes of the whole -/
theorem eref_append : ∀ (p q : List Nat) (s : E.σ),
    eref E s (p ++ q) = (erefOpen E s p).1 ++ eref E (erefOpen E s p).2 q := by
  intro p
  induction p with
  | nil => intro q s; simp [erefOpen]
  | cons c p ih =>
    intro q s
    rw [List.cons_append, eref_cons, ih]
    simp [erefOpen, List.append_assoc]

theorem erefOpen_append : ∀ (p q : List Nat) (s : E.σ),
    erefOpen E s (p ++ q) = ((erefOpen E s p).1 ++ (erefOpen E (erefOpen E s p).2 q).1,
      (erefOpen E (erefOpen E s p).2 q).2) := by
  intro p
  induction p with
  | nil => intro q s; simp [erefOpen]
  | cons c p ih =>
    intro q s
    rw [List.cons_append]
    simp only [erefOpen]
    rw [ih]
    simp [List.append_assoc]

end EncodingRs.Lemmas.RoundTrip
