import EncodingRs.Lemmas.EncMaxLenFam
import EncodingRs.Lemmas.EncMaxLenIso
/-!
# C07, encoder half: the encoder length queries are sufficient

For every encoding (`Gen.Variant`, quantified as in `Thm/C04.lean`), every encoder state, both
source forms, mid-stream or not:

* `enc_raw_sufficient`: a raw call (`encode_from_utf{8,16}_without_replacement`) whose destination
  is at least `max_buffer_length_from_utf{8,16}_without_replacement(|src|)` never returns
  `OutputFull` (it returns `InputEmpty` or `Unmappable`);
* `enc_repl_sufficient` / `enc_repl_sufficient_had`: a with-replacement call
  (`encode_from_utf{8,16}`) whose destination is at least
  `max_buffer_length_from_utf{8,16}_if_no_unmappables(|src|)` never returns `OutputFull` when the
  input has no unmappable character;
* `Lemmas/EncMaxLenArith.lean`: the queries return `none`, never a wrapped number, when the
  arithmetic overflows `usize` (`encMaxNoRepl_eq_some`, `encMaxIfNoUnmappables_eq_some`).
-/
namespace EncodingRs.Lemmas.EncMaxLenVariant
open EncodingRs EncodingRs.Model EncodingRs.Gen.MaxLen
open EncodingRs.Lemmas.EncPotential EncodingRs.Lemmas.EncMaxLenArith EncodingRs.Lemmas.EncMaxLenFam
open EncodingRs.Lemmas.EncMaxLenIso

/-- **every encoder has a potential below its query**: for every variant and source form there is a
potential whose invariant holds in every state and that is bounded by the exact value of
`max_buffer_length_from_utf{16,8}_without_replacement` (equal to it for all encoders but
ISO-2022-JP, whose potential depends on the state while the formula does not). -/
theorem variant_potential (utf16 : Bool) (v : Gen.Variant) :
    ∃ P : EPotential (efamOfVariant v) utf16, (∀ s, P.Inv s) ∧ ∀ s n, P.Φ s n ≤ encMaxNat utf16 v n := by
  cases v with
  | singleByte t a b l => exact ⟨singleBytePot _ a b l utf16, fun _ => trivial, fun _ _ => Nat.le_refl _⟩
  | utf8 => exact ⟨utf8Pot utf16, fun _ => trivial, fun _ _ => Nat.le_refl _⟩
  | gbk => exact ⟨gbkPot utf16, fun _ => trivial, fun _ _ => Nat.le_refl _⟩
  | gb18030 => exact ⟨gb18030Pot utf16, fun _ => trivial, fun _ _ => Nat.le_refl _⟩
  | big5 => exact ⟨big5Pot utf16, fun _ => trivial, fun _ _ => Nat.le_refl _⟩
  | eucJp => exact ⟨eucJpPot utf16, fun _ => trivial, fun _ _ => Nat.le_refl _⟩
  | iso2022Jp => exact ⟨isoPot utf16, fun _ => trivial, fun s n => isoPhi_le utf16 s n⟩
  | shiftJis => exact ⟨shiftJisPot utf16, fun _ => trivial, fun _ _ => Nat.le_refl _⟩
  | eucKr => exact ⟨eucKrPot utf16, fun _ => trivial, fun _ _ => Nat.le_refl _⟩
  | replacement => exact ⟨utf8Pot utf16, fun _ => trivial, fun _ _ => Nat.le_refl _⟩
  | utf16Be => exact ⟨utf8Pot utf16, fun _ => trivial, fun _ _ => Nat.le_refl _⟩
  | utf16Le => exact ⟨utf8Pot utf16, fun _ => trivial, fun _ _ => Nat.le_refl _⟩
  | userDefined => exact ⟨userDefinedPot utf16, fun _ => trivial, fun _ _ => Nat.le_refl _⟩

/-- an `OutputFull` stop of a raw call never asks for more than the query promised -/
theorem enc_raw_bound (utf16 : Bool) (v : Gen.Variant) (s : (efamOfVariant v).σ) (src : List Nat)
    (last : Bool) (budget : Budget) (Q : Nat) (hsrc : SrcOK utf16 src)
    (hq : encMaxNoRepl utf16 v src.length = some Q)
    (hres : (ecall (efamOfVariant v) utf16 s src last budget).res = .outputFull) :
    (ecall (efamOfVariant v) utf16 s src last budget).out.length
      + (ecall (efamOfVariant v) utf16 s src last budget).stopNeed ≤ Q := by
  obtain ⟨P, hinv, hle⟩ := variant_potential utf16 v
  have h1 := (ecall_bound P last src s budget (hinv s) hsrc).2 hres
  have h2 := hle s src.length
  have h3 := encMaxNoRepl_value utf16 v src.length Q hq
  omega

/-- **C07 for `Encoder::encode_from_utf{8,16}_without_replacement`**: for every encoding `v`, every
encoder state `s` (so: mid-stream as well), every valid source buffer, `last` flag and stop decision
`budget`: if `max_buffer_length_from_utf{8,16}_without_replacement(src.len())` returned `Some(Q)` and
the destination holds at least `Q` bytes, an admissible call does not return `OutputFull`. -/
theorem enc_raw_sufficient (utf16 : Bool) (v : Gen.Variant) (s : (efamOfVariant v).σ) (src : List Nat)
    (last : Bool) (budget : Budget) (cap Q : Nat) (hsrc : SrcOK utf16 src)
    (hq : encMaxNoRepl utf16 v src.length = some Q) (hcap : Q ≤ cap)
    (hadm : EAdmissible (efamOfVariant v) cap (ecall (efamOfVariant v) utf16 s src last budget)) :
    (ecall (efamOfVariant v) utf16 s src last budget).res ≠ .outputFull := by
  intro hres
  have h1 := enc_raw_bound utf16 v s src last budget Q hsrc hq hres
  have h2 := hadm.2 hres
  omega

/-! ## with replacement (`Encoder::encode_from_utf8` / `encode_from_utf16`) -/

/-- the admissibility side conditions of the inner raw calls that `encRepl` records
(capacity offered, output length, result, `stopNeed`): the output fits, and `OutputFull` only when
less than the space asked for is free -/
def InnerAdmissible (inner : List (Nat × Nat × ERes × Nat)) : Prop :=
  ∀ x ∈ inner, x.2.1 ≤ x.1 ∧ (x.2.2.1 = .outputFull → x.1 < x.2.1 + x.2.2.2)

variable (E : EFam)

/-- once a numeric character reference has been written the flag stays set -/
theorem go_had (utf16 last : Bool) : ∀ (fuel : Nat) (s : E.σ) (src : List Nat) (budgets : List Budget)
    (eff tr tw : Nat) (acc : List Nat) (inner : List (Nat × Nat × ERes × Nat)) (t : EReplRes E.σ),
    encRepl.go E utf16 last fuel s src budgets eff tr tw acc true inner = some t → t.hadUnmappables = true := by
  intro fuel
  induction fuel with
  | zero => intro s src budgets eff tr tw acc inner t h; simp [encRepl.go] at h
  | succ fuel ih =>
    intro s src budgets eff tr tw acc inner t h
    rw [encRepl.go] at h
    simp only at h
    split at h
    · cases h; rfl
    · cases h; rfl
    · split at h
      · split at h <;> (cases h; rfl)
      · exact ih _ _ _ _ _ _ _ _ t h

/-- **shape of a with-replacement call**: unless the destination is too short for even one numeric
character reference, either the first inner raw call reported an unmappable character (and the flag
is set), or the call is that one raw call, made on the destination minus the room reserved for a
numeric character reference. -/
theorem encRepl_first (canAll : Bool) (ncrExtra : Nat) (utf16 last : Bool) (cap fuel : Nat) (s : E.σ)
    (src : List Nat) (budgets : List Budget) (t : EReplRes E.σ)
    (h : encRepl E canAll ncrExtra utf16 last cap fuel s src budgets = some t)
    (hroom : ¬ (¬ canAll = true ∧ cap < ncrExtra)) :
    (∃ u, (ecall E utf16 s src last (budgets.headD .unlimited)).res = .unmappable u ∧ t.hadUnmappables = true)
    ∨ ((∀ u, (ecall E utf16 s src last (budgets.headD .unlimited)).res ≠ .unmappable u)
        ∧ t.res = (ecall E utf16 s src last (budgets.headD .unlimited)).res
        ∧ t.hadUnmappables = false
        ∧ ((if canAll then cap else cap - ncrExtra),
            (ecall E utf16 s src last (budgets.headD .unlimited)).out.length,
            (ecall E utf16 s src last (budgets.headD .unlimited)).res,
            (ecall E utf16 s src last (budgets.headD .unlimited)).stopNeed) ∈ t.inner) := by
  cases fuel with
  | zero => simp [encRepl] at h
  | succ fuel =>
    rw [encRepl] at h
    rw [if_neg hroom] at h
    simp only at h
    generalize (if canAll = true then cap else cap - ncrExtra) = eff at h ⊢
    cases fuel with
    | zero => simp [encRepl.go] at h
    | succ fuel =>
      rw [encRepl.go] at h
      simp only [List.drop_zero, Nat.sub_zero, Nat.zero_add, List.nil_append] at h
      generalize ecall E utf16 s src last (budgets.headD .unlimited) = r at h ⊢
      cases hres : r.res with
      | inputEmpty =>
        simp only [hres] at h
        cases h
        exact Or.inr ⟨(by intro u hu; cases hu), rfl, rfl, (by simp)⟩
      | outputFull =>
        simp only [hres] at h
        cases h
        exact Or.inr ⟨(by intro u hu; cases hu), rfl, rfl, (by simp)⟩
      | unmappable u =>
        simp only [hres] at h
        refine Or.inl ⟨u, rfl, ?_⟩
        split at h
        · split at h <;> (cases h; rfl)
        · exact go_had E utf16 last _ _ _ _ _ _ _ _ _ t h

/-- generic form: a potential bounded by `R`, a destination of at least `NCR_EXTRA + R` bytes (`R` when
the encoder can encode everything) -/
theorem encRepl_no_outputFull {utf16 : Bool} (P : EPotential E utf16) (canAll : Bool) (ncrExtra : Nat)
    (last : Bool) (cap fuel : Nat) (s : E.σ) (src : List Nat) (budgets : List Budget) (t : EReplRes E.σ) (R : Nat)
    (hi : P.Inv s) (hsrc : SrcOK utf16 src) (hΦ : P.Φ s src.length ≤ R)
    (hcap : (if canAll then 0 else ncrExtra) + R ≤ cap)
    (h : encRepl E canAll ncrExtra utf16 last cap fuel s src budgets = some t)
    (hadm : InnerAdmissible t.inner) (hno : t.hadUnmappables = false) : t.res ≠ .outputFull := by
  have hroom : ¬ (¬ canAll = true ∧ cap < ncrExtra) := by
    intro hc
    rw [if_neg hc.1] at hcap
    omega
  rcases encRepl_first E canAll ncrExtra utf16 last cap fuel s src budgets t h hroom with
    ⟨u, _, hhad⟩ | ⟨_, hres, _, hmem⟩
  · rw [hno] at hhad; cases hhad
  · intro hfull
    rw [hres] at hfull
    have hb := (ecall_bound P last src s (budgets.headD .unlimited) hi hsrc).2 hfull
    have ha := (hadm _ hmem).2 hfull
    simp only at ha
    cases canAll <;> simp only [if_true, Bool.false_eq_true, if_false] at ha hcap <;> omega

/-! ### "the input has no unmappable character" -/

/-- **no unmappable character**: no character of the input is reported unmappable by the encoder,
whatever state it is read in -/
def NoUnmappableChars (items : List (Nat × Nat)) : Prop :=
  ∀ it ∈ items, ∀ s : E.σ, (E.step s it.1).unmappable = none

theorem processChar_no_unmappable (c : Nat) (hc : ∀ s : E.σ, (E.step s c).unmappable = none) :
    ∀ (fuel : Nat) (s : E.σ) (b : Budget) (acc : List Nat) (st : E.σ) (out : List Nat) (u : Nat),
      processChar E fuel s c b acc ≠ .unmappable st out u := by
  intro fuel
  induction fuel with
  | zero => intro s b acc st out u h; simp [processChar] at h
  | succ fuel ih =>
    intro s b acc st out u h
    rw [processChar] at h
    split at h
    · cases h
    · simp only [hc s] at h
      split at h
      · exact ih _ _ _ st out u h
      · cases h

theorem erun_no_unmappable (last : Bool) : ∀ (items : List (Nat × Nat)) (s : E.σ) (b : Budget) (u : Nat),
    NoUnmappableChars E items → (erun E last s items b).res ≠ .unmappable u := by
  intro items
  induction items with
  | nil =>
    intro s b u _ h
    simp only [erun] at h
    repeat' split at h
    all_goals cases h
  | cons it tl ih =>
    intro s b u hno h
    obtain ⟨c, w⟩ := it
    have hc : ∀ s : E.σ, (E.step s c).unmappable = none := hno (c, w) (List.mem_cons_self ..)
    have hnot := processChar_no_unmappable E c hc (E.rank s c + 1) s b []
    simp only [erun] at h
    cases hres : processChar E (E.rank s c + 1) s c b [] with
    | full st out need => simp [hres] at h
    | unmappable st out u' => exact hnot st out u' hres
    | done st out b' =>
      simp only [hres] at h
      exact ih st b' u (fun x hx => hno x (List.mem_cons_of_mem _ hx)) h

end EncodingRs.Lemmas.EncMaxLenVariant

namespace EncodingRs.Lemmas.EncMaxLenVariant
open EncodingRs EncodingRs.Model EncodingRs.Gen.MaxLen
open EncodingRs.Lemmas.EncPotential EncodingRs.Lemmas.EncMaxLenArith

/-- **C07 for `Encoder::encode_from_utf{8,16}`, output-side formulation** (the stronger one): if the
call did not replace anything (`had_unmappables = false` — in particular when the input has no
unmappable character) and the destination holds at least
`max_buffer_length_from_utf{8,16}_if_no_unmappables(src.len())` bytes, it does not return `OutputFull`.
`hadm`: every inner raw call was admissible for the part of the destination it was offered. -/
theorem enc_repl_sufficient_had (utf16 : Bool) (v : Gen.Variant) (s : (efamOfVariant v).σ) (src : List Nat)
    (last : Bool) (budgets : List Budget) (cap fuel Q : Nat) (t : EReplRes (efamOfVariant v).σ)
    (hsrc : SrcOK utf16 src)
    (hq : encMaxIfNoUnmappables utf16 v src.length = some Q) (hcap : Q ≤ cap)
    (h : encRepl (efamOfVariant v) (canEncodeEverything v) Gen.ncrExtra utf16 last cap fuel s src budgets = some t)
    (hadm : InnerAdmissible t.inner) (hno : t.hadUnmappables = false) : t.res ≠ .outputFull := by
  obtain ⟨P, hinv, hle⟩ := variant_potential utf16 v
  obtain ⟨R, hR, hQ, _⟩ := (encMaxIfNoUnmappables_eq_some utf16 v src.length Q).mp hq
  have hval := encMaxNoRepl_value utf16 v src.length R hR
  exact encRepl_no_outputFull (efamOfVariant v) P (canEncodeEverything v) Gen.ncrExtra last cap fuel s src budgets t R
    (hinv s) hsrc (hval ▸ hle s src.length) (by omega) h hadm hno

/-- when no character of the input is unmappable, nothing is replaced -/
theorem enc_repl_had_false (utf16 : Bool) (v : Gen.Variant) (s : (efamOfVariant v).σ) (src : List Nat)
    (last : Bool) (budgets : List Budget) (cap fuel Q : Nat) (t : EReplRes (efamOfVariant v).σ)
    (hq : encMaxIfNoUnmappables utf16 v src.length = some Q) (hcap : Q ≤ cap)
    (h : encRepl (efamOfVariant v) (canEncodeEverything v) Gen.ncrExtra utf16 last cap fuel s src budgets = some t)
    (hchars : NoUnmappableChars (efamOfVariant v) (itemsOfSrc utf16 src)) : t.hadUnmappables = false := by
  obtain ⟨R, _, hQ, _⟩ := (encMaxIfNoUnmappables_eq_some utf16 v src.length Q).mp hq
  have hroom : ¬ (¬ canEncodeEverything v = true ∧ cap < Gen.ncrExtra) := by
    intro hc
    rw [if_neg hc.1] at hQ
    omega
  rcases encRepl_first (efamOfVariant v) _ _ utf16 last cap fuel s src budgets t h hroom with
    ⟨u, hu, _⟩ | ⟨_, _, hhad, _⟩
  · exact absurd hu (erun_no_unmappable (efamOfVariant v) last _ s _ u hchars)
  · exact hhad

/-- **C07 for `Encoder::encode_from_utf{8,16}`, input-side formulation** (the property text:
"whenever the input has no unmappable character"): for every encoding `v`, every encoder state, every
valid source buffer none of whose characters the encoder reports unmappable in any state, a
with-replacement call whose destination holds at least
`max_buffer_length_from_utf{8,16}_if_no_unmappables(src.len())` bytes does not return `OutputFull`. -/
theorem enc_repl_sufficient (utf16 : Bool) (v : Gen.Variant) (s : (efamOfVariant v).σ) (src : List Nat)
    (last : Bool) (budgets : List Budget) (cap fuel Q : Nat) (t : EReplRes (efamOfVariant v).σ)
    (hsrc : SrcOK utf16 src)
    (hq : encMaxIfNoUnmappables utf16 v src.length = some Q) (hcap : Q ≤ cap)
    (h : encRepl (efamOfVariant v) (canEncodeEverything v) Gen.ncrExtra utf16 last cap fuel s src budgets = some t)
    (hadm : InnerAdmissible t.inner)
    (hchars : NoUnmappableChars (efamOfVariant v) (itemsOfSrc utf16 src)) : t.res ≠ .outputFull :=
  enc_repl_sufficient_had utf16 v s src last budgets cap fuel Q t hsrc hq hcap h hadm
    (enc_repl_had_false utf16 v s src last budgets cap fuel Q t hq hcap h hchars)

/-! ## Non-vacuity

ISO-2022-JP, mid-stream in the Jis0208 state, UTF-16 input `a` U+3042, `last = true`: the query
answers 12; the complete call writes `ESC ( B a ESC $ B 24 22 ESC ( B` — exactly 12 bytes, so the
formula is attained in this state — and with an 11-byte destination the stop in front of the final
escape sequence is an admissible `OutputFull`: the hypothesis `Q ≤ cap` cannot be weakened. -/

example : encMaxNoRepl true .iso2022Jp 2 = some 12 := by decide

example : (ecall iso2022JpEFam true .jis0208 [0x61, 0x3042] true .unlimited).res = .inputEmpty
    ∧ (ecall iso2022JpEFam true .jis0208 [0x61, 0x3042] true .unlimited).out.length = 12
    ∧ EAdmissible iso2022JpEFam 12 (ecall iso2022JpEFam true .jis0208 [0x61, 0x3042] true .unlimited) := by
  unfold EAdmissible; decide

example : (ecall iso2022JpEFam true .jis0208 [0x61, 0x3042] true (.full 4)).res = .outputFull
    ∧ EAdmissible iso2022JpEFam 11 (ecall iso2022JpEFam true .jis0208 [0x61, 0x3042] true (.full 4)) := by
  unfold EAdmissible; decide

/-- the theorem at work: the same stop is *not* admissible when the destination has the 12 bytes the
query asked for -/
example : ¬ EAdmissible iso2022JpEFam 12 (ecall iso2022JpEFam true .jis0208 [0x61, 0x3042] true (.full 4)) := by
  intro hadm
  exact enc_raw_sufficient true .iso2022Jp IsoEncSt.jis0208 [0x61, 0x3042] true (.full 4) 12 12
    (by intro u hu; simp only [List.mem_cons, List.not_mem_nil, or_false] at hu; omega)
    (by decide) (Nat.le_refl _) hadm (by decide)

/-- from UTF-8, mid-stream in the Roman state, `\` U+00A5: the query answers 12, the call writes
`ESC ( B \ ESC ( J \ ESC ( B`, 11 bytes -/
example : encMaxNoRepl false .iso2022Jp 3 = some 12
    ∧ SrcOK false [0x5C, 0xC2, 0xA5]
    ∧ (ecall iso2022JpEFam false .roman [0x5C, 0xC2, 0xA5] true .unlimited).res = .inputEmpty
    ∧ (ecall iso2022JpEFam false .roman [0x5C, 0xC2, 0xA5] true .unlimited).out.length = 11 := by
  refine ⟨by decide, ?_, by decide, by decide⟩
  exact Spec.WellFormedUtf8.cons [0x5C] [0xC2, 0xA5] rfl (Spec.WellFormedUtf8.cons [0xC2, 0xA5] [] rfl .nil)

/-- with replacement: `max_buffer_length_from_utf16_if_no_unmappables(2) = 10 + 12`, the inner raw
call is offered `22 - 10` bytes and completes -/
example : encMaxIfNoUnmappables true .iso2022Jp 2 = some 22 := by decide

example : ∃ t, encRepl iso2022JpEFam (canEncodeEverything .iso2022Jp) Gen.ncrExtra true true 22 5 .jis0208
      [0x61, 0x3042] [] = some t
    ∧ t.res = .inputEmpty ∧ t.hadUnmappables = false ∧ t.out.length = 12 ∧ t.inner.map (·.1) = [12] :=
  ⟨_, rfl, by decide, by decide, by decide, by decide⟩

/-- overflow: `None`, not a wrapped number -/
example : encMaxNoRepl true .iso2022Jp usizeMax = none
    ∧ encMaxNoRepl true .gb18030 (usizeMax / 4 + 1) = none
    ∧ encMaxNoRepl true .gb18030 (usizeMax / 4) = some (usizeMax / 4 * 4)
    ∧ encMaxIfNoUnmappables false .big5 (usizeMax - 5) = none := by decide

end EncodingRs.Lemmas.EncMaxLenVariant
