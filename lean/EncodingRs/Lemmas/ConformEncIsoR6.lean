import EncodingRs.Lemmas.ConformEncIsoDef
/-! C03, ISO-2022-JP: complete evaluation of `isoCheck` (all three encoder states) over the code points 0x9400 ≤ c < 0xA000 (`native_decide`). -/
namespace EncodingRs.Lemmas.ConformEnc

theorem iso_check_r6 : allFrom isoCheck 0x9400 0xC00 = true := by native_decide

end EncodingRs.Lemmas.ConformEnc
