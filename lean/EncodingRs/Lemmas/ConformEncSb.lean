import EncodingRs.Lemmas.ConformEncSbR0
import EncodingRs.Lemmas.ConformEncSbR1
import EncodingRs.Lemmas.ConformEncSbR2
import EncodingRs.Lemmas.ConformEncSbR3
/-!
# C03: the single-byte encoders of the model are the Standard's, for every single-byte encoding
and every code point

The 28 single-byte encodings of the `*_INIT` list (27 tables; ISO-8859-8-I shares the index of
ISO-8859-8).  Model: `encode_u16` (run / quadrant search) over the table regenerated from
`SINGLE_BYTE_DATA` with the run parameters regenerated from lib.rs.  Standard: "index pointer"
in the vendored snapshot of the index (`Spec/IndexDataEnc.lean`) looked up BY THE NAME of the
encoding.
-/
namespace EncodingRs.Lemmas.ConformEnc
open EncodingRs EncodingRs.Model EncodingRs.Spec.Encode

theorem encodings_length : Gen.encodings.length = 40 := by decide

theorem sb_check_all (e : Gen.EncodingInit) (he : e ∈ Gen.encodings) : sbCheckEnc e = true := by
  have hsplit : Gen.encodings = (Gen.encodings.drop 0).take 10 ++ ((Gen.encodings.drop 10).take 10
      ++ ((Gen.encodings.drop 20).take 10 ++ (Gen.encodings.drop 30).take 10)) := by rfl
  rw [hsplit] at he
  simp only [List.mem_append] at he
  rcases he with h | h | h | h
  · exact List.all_eq_true.mp sb_check_r0 e h
  · exact List.all_eq_true.mp sb_check_r1 e h
  · exact List.all_eq_true.mp sb_check_r2 e h
  · exact List.all_eq_true.mp sb_check_r3 e h

/-- per-character conformance, every single-byte encoding -/
theorem singleByte_conforms (e : Gen.EncodingInit) (he : e ∈ Gen.encodings) (t a b l : Nat)
    (hv : e.variant = .singleByte t a b l) :
    ∃ index, Spec.Enc.singleByteIndexes.lookup e.name = some index ∧
      ∀ c, c < 0x110000 →
        singleByte index c = resOf (singleByteEncodeChar (Gen.singleByteTables.getD t #[]) a b l c) c := by
  have h := sb_check_all e he
  unfold sbCheckEnc at h
  rw [hv] at h
  simp only at h
  split at h
  · cases h
  · rename_i index hidx
    rw [sbCheckWithFast_eq] at h
    exact ⟨index, hidx, sbCheckWith_spec index t a b l h⟩

end EncodingRs.Lemmas.ConformEnc
