import EncodingRs.Lemmas.Conform
import EncodingRs.Model.Fam.Multi
/-!
C01 step checks by COMPLETE FINITE EVALUATION for the table-driven one-to-one machines
(Big5, EUC-KR, Shift_JIS: every lead state × 256 bytes; EUC-JP: 191 states × 256 bytes):
the regenerated implementation tables are on the model side (`Model/Data.lean` over
`Gen/*`), the vendored indexes on the side of the Standard (`Spec/IndexData*.lean`).
`finCheck` evaluates, for every state of an explicit list and every byte, that the
Standard's handler answers exactly what the model's step answers (new state, restored
byte, code points / error span), that the state list is closed under steps, and the
end-of-stream rule.  This subsumes "implementation table = index of the Standard" for
decoding.  Each `native_decide` below is one such evaluation.
-/
set_option linter.unusedSimpArgs false
namespace EncodingRs.Lemmas.Conform
open EncodingRs EncodingRs.Model EncodingRs.Spec.Decode EncodingRs.Lemmas.Core

def finCheck (F : Fam) (D : Decoder) [DecidableEq F.σ] [DecidableEq D.σ] (σ_of : F.σ → D.σ)
    (states : List F.σ) : Bool :=
  states.contains F.init && decide (σ_of F.init = D.init) &&
  states.all fun s =>
    decide (F.rank s ≤ 15) &&
    (List.range 256).all (fun b =>
      states.contains (F.feed s b).st && stepMatches σ_of (D.handler (σ_of s) (some b)) (F.feed s b) b) &&
    (match F.eof s with
      | none => decide ((D.handler (σ_of s) none).act = .finished)
      | some (e, s') =>
        decide ((D.handler (σ_of s) none).act = .error e.1 e.2) &&
        decide ((D.handler (σ_of s) none).restore = []) &&
        decide ((D.handler (D.handler (σ_of s) none).st none).act = .finished) &&
        (F.eof s').isNone)

theorem all_range' {n : Nat} {p : Nat → Bool} (h : (List.range n).all p = true) : ∀ i, i < n → p i = true := by
  intro i hi
  rw [List.all_eq_true] at h
  exact h i (List.mem_range.mpr hi)

def finSim (F : Fam) (D : Decoder) [DecidableEq F.σ] [DecidableEq D.σ] (σ_of : F.σ → D.σ)
    (states : List F.σ) (no_pend : ∀ s, F.pend s = none) (h : finCheck F D σ_of states = true) : Sim1 F D where
  Inv := fun s => s ∈ states
  σ_of := σ_of
  no_pend := no_pend
  init_inv := by
    unfold finCheck at h
    simp only [Bool.and_eq_true, List.contains_iff_mem, decide_eq_true_eq] at h
    exact h.1.1
  init_st := by
    unfold finCheck at h
    simp only [Bool.and_eq_true, List.contains_iff_mem, decide_eq_true_eq] at h
    exact h.1.2
  rank_le := by
    intro s hs
    unfold finCheck at h
    simp only [Bool.and_eq_true, List.all_eq_true, decide_eq_true_eq] at h
    exact (h.2 s hs).1.1
  feed := by
    intro s b hs hb
    unfold finCheck at h
    simp only [Bool.and_eq_true, List.all_eq_true, decide_eq_true_eq, List.contains_iff_mem] at h
    have := (h.2 s hs).1.2 b (List.mem_range.mpr hb)
    exact this
  eof := by
    intro s hs
    unfold finCheck at h
    simp only [Bool.and_eq_true, List.all_eq_true, decide_eq_true_eq] at h
    have := (h.2 s hs).2
    cases hE : F.eof s with
    | none => simp only [hE, decide_eq_true_eq] at this ⊢; exact this
    | some q =>
      obtain ⟨e, s'⟩ := q
      simp only [hE, Bool.and_eq_true, decide_eq_true_eq, Option.isNone_iff_eq_none] at this ⊢
      exact ⟨this.1.1.1, this.1.1.2, this.1.2, this.2⟩

/-! ### Big5, EUC-KR, Shift_JIS -/

instance : DecidableEq big5Fam.σ := inferInstanceAs (DecidableEq (Option Nat))
instance : DecidableEq eucKrFam.σ := inferInstanceAs (DecidableEq (Option Nat))
instance : DecidableEq shiftJisFam.σ := inferInstanceAs (DecidableEq (Option Nat))
instance : DecidableEq big5.σ := inferInstanceAs (DecidableEq Nat)
instance : DecidableEq eucKr.σ := inferInstanceAs (DecidableEq Nat)
instance : DecidableEq shiftJis.σ := inferInstanceAs (DecidableEq Nat)

/-- the model keeps the lead byte minus its offset -/
def leadσ (leadOf : Nat → Nat) : Option Nat → Nat
  | none => 0
  | some l => leadOf l

def twoByteStates (n : Nat) : List (Option Nat) := none :: (List.range n).map some

def shiftJisLeadOf (l : Nat) : Nat := if l < 0x1F then l + 0x81 else l + 0xC1

theorem big5_fin : finCheck big5Fam big5 (leadσ (· + 0x81)) (twoByteStates 126) = true := by native_decide
theorem eucKr_fin : finCheck eucKrFam eucKr (leadσ (· + 0x81)) (twoByteStates 126) = true := by native_decide
theorem shiftJis_fin : finCheck shiftJisFam shiftJis (leadσ shiftJisLeadOf) (twoByteStates 60) = true := by native_decide

theorem decode_conforms_big5 (bytes : List Nat) (hb : ∀ b ∈ bytes, b < 256) :
    Runs big5 bytes (ref big5Fam big5Fam.init bytes 0) ∧ ref big5Fam big5Fam.init bytes 0 = runBig5 bytes :=
  sim1_conforms (finSim big5Fam big5 _ _ (fun _ => rfl) big5_fin) bytes hb

theorem decode_conforms_eucKr (bytes : List Nat) (hb : ∀ b ∈ bytes, b < 256) :
    Runs eucKr bytes (ref eucKrFam eucKrFam.init bytes 0) ∧ ref eucKrFam eucKrFam.init bytes 0 = runEucKr bytes :=
  sim1_conforms (finSim eucKrFam eucKr _ _ (fun _ => rfl) eucKr_fin) bytes hb

theorem decode_conforms_shiftJis (bytes : List Nat) (hb : ∀ b ∈ bytes, b < 256) :
    Runs shiftJis bytes (ref shiftJisFam shiftJisFam.init bytes 0) ∧
    ref shiftJisFam shiftJisFam.init bytes 0 = runShiftJis bytes :=
  sim1_conforms (finSim shiftJisFam shiftJis _ _ (fun _ => rfl) shiftJis_fin) bytes hb

/-! ### EUC-JP -/

instance : DecidableEq eucJpFam.σ := inferInstanceAs (DecidableEq EucJpSt)
instance : DecidableEq eucJp.σ := inferInstanceAs (DecidableEq EucJp)

def eucJpσ : EucJpSt → EucJp
  | .none => ⟨false, 0⟩
  | .jis0208Lead l => ⟨false, l + 0xA1⟩
  | .jis0212Shift => ⟨false, 0x8F⟩
  | .jis0212Lead l => ⟨true, l + 0xA1⟩
  | .halfWidthKatakana => ⟨false, 0x8E⟩

def eucJpStates : List EucJpSt :=
  [.none, .jis0212Shift, .halfWidthKatakana] ++ (List.range 94).map .jis0208Lead ++ (List.range 94).map .jis0212Lead

theorem eucJp_fin : finCheck eucJpFam eucJp eucJpσ eucJpStates = true := by native_decide

theorem decode_conforms_eucJp (bytes : List Nat) (hb : ∀ b ∈ bytes, b < 256) :
    Runs eucJp bytes (ref eucJpFam eucJpFam.init bytes 0) ∧ ref eucJpFam eucJpFam.init bytes 0 = runEucJp bytes :=
  sim1_conforms (finSim eucJpFam eucJp _ _ (fun _ => rfl) eucJp_fin) bytes hb

end EncodingRs.Lemmas.Conform
