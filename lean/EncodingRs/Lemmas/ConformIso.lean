import EncodingRs.Lemmas.ConformFin
namespace EncodingRs.Lemmas.Conform
open EncodingRs EncodingRs.Model EncodingRs.Spec.Decode EncodingRs.Lemmas.Core
theorem decode_conforms_iso (bytes : List Nat) (hb : ∀ b ∈ bytes, b < 256) :
    Runs iso2022Jp bytes (ref iso2022JpFam iso2022JpFam.init bytes 0) ∧
    ref iso2022JpFam iso2022JpFam.init bytes 0 = runIso2022Jp bytes := sorry
end EncodingRs.Lemmas.Conform
