import EncodingRs.Lemmas.ConformFin
import EncodingRs.Lemmas.FamLaws
/-!
C01 for ISO-2022-JP: simulation with held bytes.  When `ESC $` / `ESC (` is not completed
the Standard restores the lead (`$` / `(`) and the offending byte; the crate keeps the lead
(`pending_prepended`) and re-interprets it at the start of the next call.  Control structure
(7 states, escape sequences, output flag): symbolic.  Trail-byte state: the JIS X 0208
lookup (94 leads × 256 bytes) by complete finite evaluation, regenerated tables vs vendored
index jis0208.
-/
set_option linter.unusedSimpArgs false
namespace EncodingRs.Lemmas.Conform
open EncodingRs EncodingRs.Model EncodingRs.Spec.Decode EncodingRs.Lemmas.Core

instance : DecidableEq iso2022Jp.σ := inferInstanceAs (DecidableEq Iso2022Jp)

def stσ : IsoSt → IsoState
  | .ascii => .ascii
  | .roman => .roman
  | .katakana => .katakana
  | .leadByte => .leadByte
  | .trailByte => .trailByte
  | .escapeStart => .escapeStart
  | .escape => .escape

def outσ : IsoOut → IsoState
  | .ascii => .ascii
  | .roman => .roman
  | .katakana => .katakana
  | .leadByte => .leadByte

theorem stσ_toSt (o : IsoOut) : stσ o.toSt = outσ o := by cases o <;> rfl

def isoσ (s : Iso2022JpSt) : Iso2022Jp :=
  ⟨stσ s.decoderState, outσ s.outputState, if s.pendingPrepended then 0 else s.lead, s.outputFlag⟩

def isoHeld (s : Iso2022JpSt) : List Nat := if s.pendingPrepended then [s.lead] else []

def isoBack (s : Iso2022JpSt) : Nat :=
  if s.pendingPrepended then 0 else if s.decoderState = .escape then 1 else 0

def isoInvc (s : Iso2022JpSt) : Prop :=
  (s.decoderState = .trailByte → 0x21 ≤ s.lead ∧ s.lead ≤ 0x7E) ∧
  (s.decoderState = .escape → s.lead = 0x24 ∨ s.lead = 0x28) ∧
  (s.pendingPrepended = true →
    (s.lead = 0x24 ∨ s.lead = 0x28) ∧ s.outputFlag = false ∧ s.decoderState = s.outputState.toSt)

/-! ### the JIS X 0208 lookup of the trail-byte state: finite -/

/-- what the Standard's trail-byte state looks up -/
def isoSpecTrail (lead b : Nat) : Option Nat :=
  if 0x21 ≤ b ∧ b ≤ 0x7E then indexCodePoint jis0208 ((lead - 0x21) * 94 + b - 0x21) else none

def trailAgrees (m : TrailRes) (s : Option Nat) : Bool :=
  match m, s with
  | .out cs, some cp => cs == [cp]
  | .bad, none => true
  | _, _ => false

theorem iso_trail_check : (List.range 94).all (fun l => (List.range 256).all fun b =>
    trailAgrees (isoTrail (l + 0x21) b) (isoSpecTrail (l + 0x21) b)) = true := by native_decide

theorem iso_trail_agrees (l b : Nat) (h1 : 0x21 ≤ l) (h2 : l ≤ 0x7E) (hb : b < 256) :
    trailAgrees (isoTrail l b) (isoSpecTrail l b) = true := by
  have := all_range' (all_range' iso_trail_check (l - 0x21) (by omega)) b hb
  have e : l - 0x21 + 0x21 = l := by omega
  rw [e] at this
  exact this

/-- a step without held bytes before or after it -/
def isoStepOk (s : Iso2022JpSt) (b : Nat) : Prop :=
  stepMatches isoσ (iso2022JpHandler (isoσ s) (some b)) (isoFeed s b) b = true ∧
  (isoFeed s b).st.pendingPrepended = false ∧ isoInvc (isoFeed s b).st ∧
  isoBack (isoFeed s b).st ≤ isoBack s + (if (isoFeed s b).unread = true then 0 else 1)

theorem iso_feed_of_ok (s : Iso2022JpSt) (b : Nat) (hpp : s.pendingPrepended = false) (h : isoStepOk s b) :
    isoInvc (isoFeed s b).st ∧
    ∀ (rest : List Nat) (p : Nat), isoBack s ≤ p → ∃ n p', n ≤ 8 ∧
      p' + (isoHeld (isoFeed s b).st).length = p + (isoHeld s).length + (if (isoFeed s b).unread = true then 0 else 1) ∧
      isoBack (isoFeed s b).st ≤ p' ∧
      Steps iso2022Jp n ⟨isoσ s, isoHeld s ++ b :: rest, p⟩
        ((isoFeed s b).out.map Ev.cp ++
          errEv (p + (isoHeld s).length + (if (isoFeed s b).unread = true then 0 else 1)) (isoFeed s b).err)
        ⟨isoσ (isoFeed s b).st, isoHeld (isoFeed s b).st ++ (if (isoFeed s b).unread = true then b :: rest else rest), p'⟩ := by
  obtain ⟨hm, hpp', hinv, hbk⟩ := h
  refine ⟨hinv, ?_⟩
  intro rest p hb0
  have hh : isoHeld s = [] := by unfold isoHeld; rw [hpp]; rfl
  have hh' : isoHeld (isoFeed s b).st = [] := by unfold isoHeld; rw [hpp']; rfl
  have := feed_of_stepMatches iso2022Jp isoσ (isoσ s) (isoFeed s b) b hm rest p
  refine ⟨1, p + (if (isoFeed s b).unread = true then 0 else 1), by omega, ?_, by omega, ?_⟩
  · rw [hh, hh']; simp
  · rw [hh, hh']
    simpa using this

/-- settle one step: unfold both sides, decide the byte-class tests, compare -/
macro "iso_step" : tactic =>
  `(tactic| (
    unfold isoStepOk isoFeed iso2022JpHandler isoσ
    dsimp only [stσ]
    (try ifs_omega)
    simp [stepMatches, actMatches, FeedRes.ok, FeedRes.bad, isoσ, stσ, outσ, stσ_toSt, isoInvc, isoBack,
      IsoOut.toSt, isoEscapeTarget]))

theorem iso_ok_ascii (os : IsoOut) (l : Nat) (f : Bool) (b : Nat) : isoStepOk ⟨.ascii, os, l, f, false⟩ b := by
  by_cases h1 : b = 0x1B
  · subst h1; iso_step
  · by_cases h2 : b > 0x7F ∨ b = 0x0E ∨ b = 0x0F
    · iso_step
    · iso_step

theorem iso_ok_roman (os : IsoOut) (l : Nat) (f : Bool) (b : Nat) : isoStepOk ⟨.roman, os, l, f, false⟩ b := by
  by_cases h1 : b = 0x1B
  · subst h1; iso_step
  · by_cases h2 : b = 0x5C
    · subst h2; iso_step
    · by_cases h3 : b = 0x7E
      · subst h3; iso_step
      · by_cases h4 : b > 0x7F ∨ b = 0x0E ∨ b = 0x0F
        · iso_step
        · iso_step

theorem iso_ok_katakana (os : IsoOut) (l : Nat) (f : Bool) (b : Nat) : isoStepOk ⟨.katakana, os, l, f, false⟩ b := by
  by_cases h1 : b = 0x1B
  · subst h1; iso_step
  · by_cases h2 : 0x21 ≤ b ∧ b ≤ 0x5F
    · have e : 0xFF61 - 0x21 + b = b - 0x21 + 0xFF61 := by omega
      iso_step
      omega
    · iso_step

theorem iso_ok_leadByte (os : IsoOut) (l : Nat) (f : Bool) (b : Nat) : isoStepOk ⟨.leadByte, os, l, f, false⟩ b := by
  by_cases h1 : b = 0x1B
  · subst h1; iso_step
  · by_cases h2 : 0x21 ≤ b ∧ b ≤ 0x7E
    · iso_step
      omega
    · iso_step

theorem iso_ok_escapeStart (os : IsoOut) (l : Nat) (f : Bool) (b : Nat) :
    isoStepOk ⟨.escapeStart, os, l, f, false⟩ b := by
  by_cases h1 : b = 0x24 ∨ b = 0x28
  · iso_step
    omega
  · cases os <;> iso_step

theorem isoSpecTrail_pos (l b : Nat) (h2 : 0x21 ≤ b ∧ b ≤ 0x7E) :
    indexCodePoint jis0208 ((l - 0x21) * 94 + b - 0x21) = isoSpecTrail l b := by
  unfold isoSpecTrail; rw [if_pos h2]
theorem isoSpecTrail_neg (l b : Nat) (h2 : ¬ (0x21 ≤ b ∧ b ≤ 0x7E)) : isoSpecTrail l b = none := by
  unfold isoSpecTrail; rw [if_neg h2]

theorem iso_ok_trailByte (os : IsoOut) (l : Nat) (f : Bool) (b : Nat) (hl1 : 0x21 ≤ l) (hl2 : l ≤ 0x7E) (hb : b < 256) :
    isoStepOk ⟨.trailByte, os, l, f, false⟩ b := by
  by_cases h1 : b = 0x1B
  · subst h1; iso_step
  · have hag := iso_trail_agrees l b hl1 hl2 hb
    unfold isoStepOk isoFeed iso2022JpHandler isoσ
    dsimp only [stσ]
    by_cases h2 : 0x21 ≤ b ∧ b ≤ 0x7E
    · ifs_omega
      simp only [Bool.false_eq_true, if_false]
      rw [isoSpecTrail_pos l b h2]
      generalize isoSpecTrail l b = X at hag ⊢
      generalize isoTrail l b = M at hag ⊢
      cases M <;> cases X <;> simp only [trailAgrees, beq_iff_eq] at hag <;>
        first
          | (cases hag; done)
          | (subst hag
             simp [stepMatches, actMatches, FeedRes.ok, FeedRes.bad, isoσ, stσ, outσ, isoInvc, isoBack]
             done)
          | simp [stepMatches, actMatches, FeedRes.ok, FeedRes.bad, isoσ, stσ, outσ, isoInvc, isoBack]
    · ifs_omega
      simp only [Bool.false_eq_true, if_false]
      rw [isoSpecTrail_neg l b h2] at hag
      generalize isoTrail l b = M at hag ⊢
      cases M <;> simp only [trailAgrees] at hag <;>
        first
          | (cases hag; done)
          | simp [stepMatches, actMatches, FeedRes.ok, FeedRes.bad, isoσ, stσ, outσ, isoInvc, isoBack]

/-- a completed escape sequence (with the error for two in a row) -/
theorem iso_ok_escape (os : IsoOut) (l : Nat) (f : Bool) (b : Nat) (t : IsoOut) (ht : isoEscapeTarget l b = some t) :
    isoStepOk ⟨.escape, os, l, f, false⟩ b := by
  unfold isoEscapeTarget at ht
  by_cases c1 : l = 0x28 ∧ b = 0x42
  · obtain ⟨rfl, rfl⟩ := c1; cases f <;> iso_step
  · by_cases c2 : l = 0x28 ∧ b = 0x4A
    · obtain ⟨rfl, rfl⟩ := c2; cases f <;> iso_step
    · by_cases c3 : l = 0x28 ∧ b = 0x49
      · obtain ⟨rfl, rfl⟩ := c3; cases f <;> iso_step
      · by_cases c4 : l = 0x24 ∧ b = 0x40
        · obtain ⟨rfl, rfl⟩ := c4; cases f <;> iso_step
        · by_cases c5 : l = 0x24 ∧ b = 0x42
          · obtain ⟨rfl, rfl⟩ := c5; cases f <;> iso_step
          · exfalso
            rw [if_neg c1, if_neg c2, if_neg c3, if_neg (by omega)] at ht
            cases ht

/-- `ESC $` / `ESC (` followed by a byte completing no escape: what the Standard's handler answers -/
theorem iso_h_escape_fail (os : IsoState) (l : Nat) (f : Bool) (b : Nat) (hl : l = 0x24 ∨ l = 0x28)
    (ht : isoEscapeTarget l b = none) :
    iso2022Jp.handler ⟨.escape, os, l, f⟩ (some b) = ⟨⟨os, os, 0, false⟩, [l, b], .error 1 0⟩ := by
  have hh : iso2022Jp.handler = iso2022JpHandler := rfl
  rw [hh]
  unfold isoEscapeTarget at ht
  by_cases c1 : l = 0x28 ∧ b = 0x42
  · rw [if_pos c1] at ht; cases ht
  · by_cases c2 : l = 0x28 ∧ b = 0x4A
    · rw [if_neg c1, if_pos c2] at ht; cases ht
    · by_cases c3 : l = 0x28 ∧ b = 0x49
      · rw [if_neg c1, if_neg c2, if_pos c3] at ht; cases ht
      · by_cases c4 : l = 0x24 ∧ (b = 0x40 ∨ b = 0x42)
        · rw [if_neg c1, if_neg c2, if_neg c3, if_pos c4] at ht; cases ht
        · unfold iso2022JpHandler
          dsimp only
          rw [if_neg c1, if_neg c2, if_neg c3, if_neg c4]
          rfl

theorem iso_pend_eq (s : Iso2022JpSt) : iso2022JpFam.pend s = isoPend s := rfl


/-- the restored lead (`$` = 0x24 / `(` = 0x28) read again in the output state -/
theorem iso_h_lead (os : IsoOut) (x : IsoState) (l : Nat) (hl : l = 0x24 ∨ l = 0x28) :
    iso2022Jp.handler ⟨outσ os, x, 0, false⟩ (some l) =
      (match os with
        | .ascii => ⟨⟨.ascii, x, 0, false⟩, [], .emit [l]⟩
        | .roman => ⟨⟨.roman, x, 0, false⟩, [], .emit [l]⟩
        | .katakana => ⟨⟨.katakana, x, 0, false⟩, [], .emit [0xFF61 - 0x21 + l]⟩
        | .leadByte => ⟨⟨.trailByte, x, l, false⟩, [], .continue⟩) := by
  have hh : iso2022Jp.handler = iso2022JpHandler := rfl
  rw [hh]
  cases os <;> (unfold iso2022JpHandler outσ; dsimp only; ifs_omega; try rfl)

/-- the flush of `pending_prepended`, as events and new state -/
theorem iso_pend_of (os : IsoOut) (l : Nat) (f : Bool) :
    isoPend ⟨os.toSt, os, l, f, true⟩ =
      (match os with
        | .ascii => some ([l], ⟨.ascii, os, 0, false, false⟩)
        | .roman => some ([l], ⟨.roman, os, 0, false, false⟩)
        | .katakana => some ([l - 0x21 + 0xFF61], ⟨.katakana, os, 0, false, false⟩)
        | .leadByte => some ([], ⟨.trailByte, os, l, false, false⟩)) := by
  cases os <;> rfl

/-- flush: one iteration of the Standard's loop on the restored lead -/
theorem iso_flush_steps (os : IsoOut) (l : Nat) (hl : l = 0x24 ∨ l = 0x28) (o : List Nat) (s' : Iso2022JpSt)
    (h : isoPend ⟨os.toSt, os, l, false, true⟩ = some (o, s')) (rest : List Nat) (p : Nat) :
    s'.pendingPrepended = false ∧ isoInvc s' ∧ isoBack s' = 0 ∧
    Steps iso2022Jp 1 ⟨⟨outσ os, outσ os, 0, false⟩, l :: rest, p⟩ (o.map Ev.cp) ⟨isoσ s', rest, p + 1⟩ := by
  have e1 := iso_h_lead os (outσ os) l hl
  rw [iso_pend_of] at h
  cases os <;> simp only [Option.some.injEq, Prod.mk.injEq] at h <;> obtain ⟨rfl, rfl⟩ := h <;> simp only at e1
  all_goals
    have s1 := steps_byte iso2022Jp (rest := rest) (p := p) e1 (by simp)
    refine ⟨rfl, ?_, ?_, ?_⟩
    · simp [isoInvc]; try omega
    · simp [isoBack]
    · have e : 0xFF61 - 0x21 + l = l - 0x21 + 0xFF61 := by omega
      simpa [isoσ, stσ, outσ, evsOf, e] using s1


theorem iso_pend_np (s : Iso2022JpSt) (h : s.pendingPrepended = false) : iso2022JpFam.pend s = none :=
  (EncodingRs.Lemmas.FamLaws.iso_pend_none_iff s).mpr h

theorem iso_eof_eq (s : Iso2022JpSt) : iso2022JpFam.eof s = isoEof s := rfl

theorem iso_h_eof_out (os : IsoOut) (x : IsoState) (l : Nat) (f : Bool) (q : Nat) :
    stepFn iso2022Jp ⟨⟨outσ os, x, l, f⟩, [], q⟩ = none := by
  apply fin_eof
  cases os <;> rfl

theorem iso_ref_out (os : IsoOut) (os' : IsoOut) (l : Nat) (f : Bool) (q : Nat) :
    ref iso2022JpFam ⟨os.toSt, os', l, f, false⟩ [] q = [] := by
  rw [ref_nil iso2022JpFam ⟨os.toSt, os', l, f, false⟩ q (iso_pend_np _ rfl), iso_eof_eq]
  cases os <;> rfl

/-- end of the stream from a state without `pending_prepended` -/
theorem iso_fin_np (ds : IsoSt) (os : IsoOut) (l : Nat) (f : Bool) (hi : isoInvc ⟨ds, os, l, f, false⟩) (p : Nat)
    (hbk : isoBack ⟨ds, os, l, f, false⟩ ≤ p) :
    ∃ n c', n ≤ 8 ∧
      Steps iso2022Jp n ⟨isoσ ⟨ds, os, l, f, false⟩, [], p⟩ (ref iso2022JpFam ⟨ds, os, l, f, false⟩ [] p) c' ∧
      stepFn iso2022Jp c' = none := by
  have hh : iso2022Jp.handler = iso2022JpHandler := rfl
  have hnp : iso2022JpFam.pend ⟨ds, os, l, f, false⟩ = none := iso_pend_np _ rfl
  rw [ref_nil iso2022JpFam _ p hnp, iso_eof_eq]
  cases ds with
  | ascii => exact ⟨0, _, by omega, .refl _, fin_eof iso2022Jp _ p rfl⟩
  | roman => exact ⟨0, _, by omega, .refl _, fin_eof iso2022Jp _ p rfl⟩
  | katakana => exact ⟨0, _, by omega, .refl _, fin_eof iso2022Jp _ p rfl⟩
  | leadByte => exact ⟨0, _, by omega, .refl _, fin_eof iso2022Jp _ p rfl⟩
  | trailByte =>
    have e1 : iso2022Jp.handler (isoσ ⟨.trailByte, os, l, f, false⟩) none
        = ⟨⟨.leadByte, outσ os, l, f⟩, [], .error 1 0⟩ := rfl
    have s1 := step_eof iso2022Jp (isoσ ⟨.trailByte, os, l, f, false⟩) p (by rw [e1]; simp)
    rw [e1] at s1
    refine ⟨1, _, by omega, ?_, fin_eof iso2022Jp ⟨.leadByte, outσ os, l, f⟩ p rfl⟩
    have hr := iso_ref_out os os l f p
    simpa [isoEof, hr, evsOf, mkErr] using s1
  | escapeStart =>
    have e1 : iso2022Jp.handler (isoσ ⟨.escapeStart, os, l, f, false⟩) none
        = ⟨⟨outσ os, outσ os, l, false⟩, [], .error 1 0⟩ := rfl
    have s1 := step_eof iso2022Jp (isoσ ⟨.escapeStart, os, l, f, false⟩) p (by rw [e1]; simp)
    rw [e1] at s1
    refine ⟨1, _, by omega, ?_, iso_h_eof_out os (outσ os) l false p⟩
    have hr := iso_ref_out os os l f p
    simpa [isoEof, hr, evsOf, mkErr] using s1
  | escape =>
    obtain ⟨_, h2, _⟩ := hi
    have hl : l = 0x24 ∨ l = 0x28 := h2 rfl
    have hp1 : 1 ≤ p := by simpa [isoBack] using hbk
    have e1 : iso2022Jp.handler (isoσ ⟨.escape, os, l, f, false⟩) none
        = ⟨⟨outσ os, outσ os, 0, false⟩, [l], .error 1 0⟩ := rfl
    have s1 := step_eof iso2022Jp (isoσ ⟨.escape, os, l, f, false⟩) p (by rw [e1]; simp)
    rw [e1] at s1
    have e2 := iso_h_lead os (outσ os) l hl
    have hpd := iso_pend_of os l f
    have hfl : ∀ o s3, isoPend ⟨os.toSt, os, l, f, true⟩ = some (o, s3) → s3.pendingPrepended = false →
        ref iso2022JpFam ⟨os.toSt, os, l, f, true⟩ [] p = o.map Ev.cp ++ ref iso2022JpFam s3 [] p :=
      fun o s3 h h' => ref_flush' iso2022JpFam _ o s3 [] p (iso_pend_np _ h') h
    have ep : p - 1 + 1 = p := by omega
    have ee : p - 1 - 0 - 1 = p - 1 - 1 := by omega
    cases os with
    | ascii =>
      simp only at e2 hpd
      have s2 := steps_byte iso2022Jp (rest := []) (p := p - 1) e2 (by simp)
      have := Steps_trans iso2022Jp s1 s2
      have hr := iso_ref_out .ascii .ascii 0 false p
      refine ⟨2, _, by omega, ?_, fin_eof iso2022Jp ⟨.ascii, .ascii, 0, false⟩ (p - 1 + 1) rfl⟩
      simp only [isoEof]
      rw [hfl _ _ hpd rfl]
      simp only [IsoOut.toSt] at hr
      simpa [hr, evsOf, mkErr, ep, ee, outσ] using this
    | roman =>
      simp only at e2 hpd
      have s2 := steps_byte iso2022Jp (rest := []) (p := p - 1) e2 (by simp)
      have := Steps_trans iso2022Jp s1 s2
      have hr := iso_ref_out .roman .roman 0 false p
      refine ⟨2, _, by omega, ?_, fin_eof iso2022Jp ⟨.roman, .roman, 0, false⟩ (p - 1 + 1) rfl⟩
      simp only [isoEof]
      rw [hfl _ _ hpd rfl]
      simp only [IsoOut.toSt] at hr
      simpa [hr, evsOf, mkErr, ep, ee, outσ] using this
    | katakana =>
      simp only at e2 hpd
      have s2 := steps_byte iso2022Jp (rest := []) (p := p - 1) e2 (by simp)
      have := Steps_trans iso2022Jp s1 s2
      have hr := iso_ref_out .katakana .katakana 0 false p
      have ek : 0xFF61 - 0x21 + l = l - 0x21 + 0xFF61 := by omega
      refine ⟨2, _, by omega, ?_, fin_eof iso2022Jp ⟨.katakana, .katakana, 0, false⟩ (p - 1 + 1) rfl⟩
      simp only [isoEof]
      rw [hfl _ _ hpd rfl]
      simp only [IsoOut.toSt] at hr
      simpa [hr, evsOf, mkErr, ep, ee, ek, outσ] using this
    | leadByte =>
      simp only at e2 hpd
      have s2 := steps_byte iso2022Jp (rest := []) (p := p - 1) e2 (by simp)
      have e3 : iso2022Jp.handler ⟨.trailByte, .leadByte, l, false⟩ none
          = ⟨⟨.leadByte, .leadByte, l, false⟩, [], .error 1 0⟩ := rfl
      have s3 := step_eof iso2022Jp ⟨.trailByte, .leadByte, l, false⟩ (p - 1 + 1) (by rw [e3]; simp)
      rw [e3] at s3
      have := Steps_trans iso2022Jp (Steps_trans iso2022Jp s1 s2) s3
      have hr := iso_ref_out .leadByte .leadByte l false p
      have hr2 : ref iso2022JpFam ⟨.trailByte, .leadByte, l, false, false⟩ [] p = [Ev.err (p - 0 - 1) 1] := by
        rw [ref_nil iso2022JpFam ⟨.trailByte, .leadByte, l, false, false⟩ p (iso_pend_np _ rfl), iso_eof_eq]
        simp only [IsoOut.toSt] at hr
        simp [isoEof, hr, mkErr, IsoOut.toSt]
      refine ⟨3, _, by omega, ?_, fin_eof iso2022Jp ⟨.leadByte, .leadByte, l, false⟩ (p - 1 + 1) rfl⟩
      simp only [isoEof]
      rw [hfl _ _ hpd rfl, hr2]
      simpa [evsOf, mkErr, ep, ee, outσ] using this


def isoSim : Sim iso2022JpFam iso2022Jp where
  Inv := isoInvc
  σ_of := isoσ
  held := isoHeld
  back := isoBack
  init_back := rfl
  init_inv := ⟨(by intro h; cases h), (by intro h; cases h), (by intro h; cases h)⟩
  init_st := rfl
  init_held := rfl
  rank_le := by
    intro s _
    show isoRank s ≤ 15
    unfold isoRank
    cases s.decoderState <;> simp only <;> split <;> omega
  flush := by
    intro s o s' hi hp
    obtain ⟨ds, os, l, f, pp⟩ := s
    rw [iso_pend_eq] at hp
    cases pp with
    | false => simp [isoPend] at hp
    | true =>
      obtain ⟨_, _, h3⟩ := hi
      obtain ⟨hl, hf, hds⟩ := h3 rfl
      have hf' : f = false := hf
      have hds' : ds = os.toSt := hds
      subst hf'; subst hds'
      have hl' : l = 0x24 ∨ l = 0x28 := hl
      have key := iso_flush_steps os l hl' o s' hp
      obtain ⟨hpp0, hinv0, _, _⟩ := key [] 0
      refine ⟨hinv0, iso_pend_np s' hpp0, ?_⟩
      intro rest p _
      obtain ⟨hpp', _, hbk', hst⟩ := key rest p
      have hh' : isoHeld s' = [] := by unfold isoHeld; rw [hpp']; rfl
      refine ⟨1, p + 1, by omega, ?_, by omega, ?_⟩
      · rw [hh']; simp [isoHeld]
      · rw [hh']
        simpa [isoσ, isoHeld, stσ_toSt] using hst
  feed := by
    intro s b hi hp hb
    obtain ⟨ds, os, l, f, pp⟩ := s
    rw [iso_pend_eq] at hp
    have hpp : pp = false := (EncodingRs.Lemmas.FamLaws.iso_pend_none_iff _).mp hp
    subst hpp
    have hfd : iso2022JpFam.feed = isoFeed := rfl
    rw [hfd]
    cases ds with
    | ascii => exact iso_feed_of_ok ⟨.ascii, os, l, f, false⟩ b rfl (iso_ok_ascii os l f b)
    | roman => exact iso_feed_of_ok ⟨.roman, os, l, f, false⟩ b rfl (iso_ok_roman os l f b)
    | katakana => exact iso_feed_of_ok ⟨.katakana, os, l, f, false⟩ b rfl (iso_ok_katakana os l f b)
    | leadByte => exact iso_feed_of_ok ⟨.leadByte, os, l, f, false⟩ b rfl (iso_ok_leadByte os l f b)
    | escapeStart => exact iso_feed_of_ok ⟨.escapeStart, os, l, f, false⟩ b rfl (iso_ok_escapeStart os l f b)
    | trailByte =>
      obtain ⟨hl1, hl2⟩ : 0x21 ≤ l ∧ l ≤ 0x7E := hi.1 rfl
      exact iso_feed_of_ok ⟨.trailByte, os, l, f, false⟩ b rfl (iso_ok_trailByte os l f b hl1 hl2 hb)
    | escape =>
      have hl : l = 0x24 ∨ l = 0x28 := hi.2.1 rfl
      cases ht : isoEscapeTarget l b with
      | some t => exact iso_feed_of_ok ⟨.escape, os, l, f, false⟩ b rfl (iso_ok_escape os l f b t ht)
      | none =>
        -- `ESC $` / `ESC (` not completed: the Standard restores « lead, byte »
        have hf : isoFeed ⟨.escape, os, l, f, false⟩ b = FeedRes.bad ⟨os.toSt, os, l, false, true⟩ 1 1 true := by
          unfold isoFeed
          dsimp only
          rw [ht]
        rw [hf]
        refine ⟨⟨?_, ?_, ?_⟩, ?_⟩
        · intro h; cases os <;> cases h
        · intro h; cases os <;> cases h
        · intro _; exact ⟨hl, rfl, rfl⟩
        · intro rest p hbk
          have hp1 : 1 ≤ p := by simpa [isoBack] using hbk
          have e1 := iso_h_escape_fail (outσ os) l f b hl ht
          have s1 := steps_byte iso2022Jp (rest := rest) (p := p) e1 (by simp)
          refine ⟨1, p + 1 - 2, by omega, ?_, by simp [isoBack, FeedRes.bad], ?_⟩
          · simp [isoHeld, FeedRes.bad]; omega
          · have ee : p + 1 - 2 - 0 - 1 = p - 1 - 1 := by omega
            have e3 : p + 1 - 2 = p - 1 := by omega
            have hesc : stσ IsoSt.escape = IsoState.escape := rfl
            simpa [isoσ, isoHeld, hesc, stσ_toSt, FeedRes.bad, evsOf, errEv, mkErr, ee, e3] using s1
  fin := by
    intro s hi p hbk
    obtain ⟨ds, os, l, f, pp⟩ := s
    cases pp with
    | false =>
      obtain ⟨n, c', hn, hs, hf⟩ := iso_fin_np ds os l f hi p hbk
      refine ⟨n, c', by omega, ?_, hf⟩
      simpa [isoHeld] using hs
    | true =>
      obtain ⟨_, _, h3⟩ := hi
      obtain ⟨hl, hf, hds⟩ := h3 rfl
      have hf' : f = false := hf
      have hds' : ds = os.toSt := hds
      subst hf'; subst hds'
      have hl' : l = 0x24 ∨ l = 0x28 := hl
      cases hpd : isoPend ⟨os.toSt, os, l, false, true⟩ with
      | none => rw [iso_pend_of] at hpd; cases os <;> cases hpd
      | some q =>
        obtain ⟨o, s3⟩ := q
        obtain ⟨hpp3, hinv3, hbk3, hst⟩ := iso_flush_steps os l hl' o s3 hpd [] p
        obtain ⟨ds3, os3, l3, f3, pp3⟩ := s3
        have hpp3' : pp3 = false := hpp3
        subst hpp3'
        obtain ⟨n, c', hn, hs, hfin⟩ := iso_fin_np ds3 os3 l3 f3 hinv3 (p + 1) (by omega)
        have hr : ref iso2022JpFam ⟨os.toSt, os, l, false, true⟩ [] (p + 1)
            = o.map Ev.cp ++ ref iso2022JpFam ⟨ds3, os3, l3, f3, false⟩ [] (p + 1) :=
          ref_flush' iso2022JpFam _ o _ [] (p + 1) (iso_pend_np _ rfl) hpd
        have := Steps_trans iso2022Jp hst hs
        refine ⟨1 + n, c', by omega, ?_, hfin⟩
        have hheld : isoHeld ⟨os.toSt, os, l, false, true⟩ = [l] := rfl
        rw [hheld, List.length_singleton, hr]
        simpa [isoσ, stσ_toSt] using this

theorem decode_conforms_iso (bytes : List Nat) (hb : ∀ b ∈ bytes, b < 256) :
    Runs iso2022Jp bytes (ref iso2022JpFam iso2022JpFam.init bytes 0) ∧
    ref iso2022JpFam iso2022JpFam.init bytes 0 = runIso2022Jp bytes :=
  sim_conforms isoSim bytes hb

end EncodingRs.Lemmas.Conform
