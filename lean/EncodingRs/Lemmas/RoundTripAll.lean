import EncodingRs.Lemmas.RoundTripChar
import EncodingRs.Lemmas.RoundTripIso
import EncodingRs.Lemmas.RT.Big5a
import EncodingRs.Lemmas.RT.Big5b
import EncodingRs.Lemmas.RT.Big5c
import EncodingRs.Lemmas.RT.Big5d
import EncodingRs.Lemmas.RT.Big5e
import EncodingRs.Lemmas.RT.Big5f
import EncodingRs.Lemmas.RT.EucJp
import EncodingRs.Lemmas.RT.EucKr
import EncodingRs.Lemmas.RT.Gb18030
import EncodingRs.Lemmas.RT.Gb18030a
import EncodingRs.Lemmas.RT.Gbk
import EncodingRs.Lemmas.RT.ShiftJis
import EncodingRs.Lemmas.RT.Single
import EncodingRs.Lemmas.RT.Utf8
import EncodingRs.Lemmas.RT.IsoAscii0
import EncodingRs.Lemmas.RT.IsoAscii1
import EncodingRs.Lemmas.RT.IsoAscii2
import EncodingRs.Lemmas.RT.IsoAscii3
import EncodingRs.Lemmas.RT.IsoAscii4
import EncodingRs.Lemmas.RT.IsoRoman0
import EncodingRs.Lemmas.RT.IsoRoman1
import EncodingRs.Lemmas.RT.IsoRoman2
import EncodingRs.Lemmas.RT.IsoRoman3
import EncodingRs.Lemmas.RT.IsoRoman4
import EncodingRs.Lemmas.RT.IsoJis0
import EncodingRs.Lemmas.RT.IsoJis1
import EncodingRs.Lemmas.RT.IsoJis2
import EncodingRs.Lemmas.RT.IsoJis3
import EncodingRs.Lemmas.RT.IsoJis4
/-!
# Round trip: the per-character facts for every encoding (C12)

Collects the evaluated range checks of `Lemmas/RT/*.lean` into
`StatelessOK F enc f` for each stateless encoder and `IsoCharOK s c` for every
ISO-2022-JP encoder state and scalar value.
-/
namespace EncodingRs.Lemmas.RoundTrip
open EncodingRs EncodingRs.Model EncodingRs.Thm.C19

theorem scalar_lt (c : Nat) (h : isScalar c = true) : c < 0x110000 := by
  simp only [isScalar, Bool.and_eq_true, decide_eq_true_eq] at h
  exact h.1

/-- the two standard ranges: the BMP and the astral planes -/
theorem charOK_of_two (F : Fam) (isInit : F.σ → Bool) (hinit : ∀ s, isInit s = true → s = F.init)
    (enc : Nat → Option (List Nat)) (f : Nat → Nat)
    (h1 : checkRange F isInit enc f 0 0x10000 = true)
    (h2 : checkRange F isInit enc f 0x10000 0x100000 = true) :
    ∀ c, isScalar c = true → CharOK F enc f c := by
  intro c hs
  have := scalar_lt c hs
  by_cases hc : c < 0x10000
  · exact checkRange_sound F isInit hinit enc f _ _ h1 c (by omega) (by omega) hs
  · exact checkRange_sound F isInit hinit enc f _ _ h2 c (by omega) (by omega) hs

theorem ncr_lt (b : Nat) (h : isNcrByte b = true) : b < 0x80 := (isNcrByte_ascii b h).1

theorem utf8_ok : StatelessOK utf8Fam utf8EncodeChar id where
  pend := rfl
  eof := rfl
  char := charOK_of_two utf8Fam isInitUtf8 isInitUtf8_sound _ _ utf8_bmp utf8_astral
  pass := fun b hb => utf8_pass b (ncr_lt b hb)

theorem userDefined_ok : StatelessOK userDefinedFam userDefinedEncodeChar id where
  pend := rfl
  eof := rfl
  char := charOK_of_two userDefinedFam isInitUnit isInitUnit_sound _ _ userDefined_bmp userDefined_astral
  pass := fun b hb => userDefined_pass b (ncr_lt b hb)

theorem big5_ok : StatelessOK big5Fam big5EncodeChar id where
  pend := rfl
  eof := rfl
  char := by
    intro c hs
    have := scalar_lt c hs
    have S := checkRange_sound big5Fam isInitOpt isInitOpt_sound big5EncodeChar id
    by_cases h0 : c < 0x3400
    · exact S _ _ big5_bmp_0 c (by omega) (by omega) hs
    by_cases h1 : c < 0x6800
    · exact S _ _ big5_bmp_1 c (by omega) (by omega) hs
    by_cases h2 : c < 0x9C00
    · exact S _ _ big5_bmp_2 c (by omega) (by omega) hs
    by_cases h3 : c < 0xD000
    · exact S _ _ big5_bmp_3 c (by omega) (by omega) hs
    by_cases h4 : c < 0x10000
    · exact S _ _ big5_bmp_4 c (by omega) (by omega) hs
    · exact S _ _ big5_astral c (by omega) (by omega) hs
  pass := fun b hb => twoByte_pass _ _ _ b (ncr_lt b hb)

theorem eucKr_ok : StatelessOK eucKrFam eucKrEncodeChar id where
  pend := rfl
  eof := rfl
  char := charOK_of_two eucKrFam isInitOpt isInitOpt_sound _ _ eucKr_bmp eucKr_astral
  pass := fun b hb => twoByte_pass _ _ _ b (ncr_lt b hb)

theorem shiftJis_ok : StatelessOK shiftJisFam shiftJisEncodeChar foldJis8 where
  pend := rfl
  eof := rfl
  char := charOK_of_two shiftJisFam isInitOpt isInitOpt_sound _ _ shiftJis_bmp shiftJis_astral
  pass := fun b hb => twoByte_pass _ _ _ b (ncr_lt b hb)

theorem eucJp_ok : StatelessOK eucJpFam eucJpEncodeChar foldJis8 where
  pend := rfl
  eof := rfl
  char := charOK_of_two eucJpFam isInitEucJp isInitEucJp_sound _ _ eucJp_bmp eucJp_astral
  pass := fun b hb => eucJp_pass b (ncr_lt b hb)

theorem gbk_ok : StatelessOK gbFam (gbEncodeChar false) gb2022Fold where
  pend := rfl
  eof := rfl
  char := charOK_of_two gbFam isInitGb isInitGb_sound _ _ gbk_bmp gbk_astral
  pass := fun b hb => gb_pass b (ncr_lt b hb)

theorem gb18030_ok : StatelessOK gbFam (gbEncodeChar true) gb2022Fold where
  pend := rfl
  eof := rfl
  char := charOK_of_two gbFam isInitGb isInitGb_sound _ _ gb18030_bmp gb18030_astral
  pass := fun b hb => gb_pass b (ncr_lt b hb)

/-- a single-byte encoder maps nothing above the BMP -/
theorem sbEnc_astral (p : Nat × Nat × Nat × Nat) (c : Nat) (h : 0x10000 ≤ c) : sbEnc p c = none := by
  unfold sbEnc singleByteEncodeChar
  rw [if_neg (by omega), if_pos (by omega)]

theorem single_ok (p : Nat × Nat × Nat × Nat) (hp : p ∈ sbParams) :
    StatelessOK (singleByteFam (sbTable p)) (sbEnc p) id where
  pend := rfl
  eof := rfl
  char := by
    intro c hs
    have hall := single_bmp
    rw [List.all_eq_true] at hall
    have hchk : checkRange (singleByteFam (sbTable p)) isInitUnit (sbEnc p) id 0 0x10000 = true := hall p hp
    by_cases hc : c < 0x10000
    · exact checkRange_sound (singleByteFam (sbTable p)) isInitUnit isInitUnit_sound (sbEnc p) id 0 0x10000
        hchk c (by omega) (by omega) hs
    · intro bs hbs
      rw [sbEnc_astral p c (by omega)] at hbs
      cases hbs
  pass := by
    intro b hb
    have h1 := ncr_lt b hb
    have h2 : b ≠ 0 := by
      have := isNcrByte_ascii b hb
      simp only [isNcrByte, Bool.or_eq_true, beq_iff_eq, Bool.and_eq_true, decide_eq_true_eq] at hb
      omega
    exact singleByte_pass (sbTable p) b (Or.inl h1) h2

/-- **ISO-2022-JP**: all 3 × 1 112 064 (state, scalar value) pairs -/
theorem iso_ok (s : IsoEncSt) (c : Nat) (hs : isScalar c = true) : IsoCharOK s c := by
  have := scalar_lt c hs
  have S := isoCheckRange_sound s
  cases s
  · by_cases h0 : c < 0x4E00
    · exact S _ _ iso_ascii_0 c (by omega) (by omega) hs
    by_cases h1 : c < 0x6200
    · exact S _ _ iso_ascii_1 c (by omega) (by omega) hs
    by_cases h2 : c < 0x7600
    · exact S _ _ iso_ascii_2 c (by omega) (by omega) hs
    by_cases h3 : c < 0x8A00
    · exact S _ _ iso_ascii_3 c (by omega) (by omega) hs
    by_cases h4 : c < 0x9FA1
    · exact S _ _ iso_ascii_4 c (by omega) (by omega) hs
    by_cases h5 : c < 0x10000
    · exact S _ _ iso_ascii_5 c (by omega) (by omega) hs
    · exact S _ _ iso_ascii_astral c (by omega) (by omega) hs
  · by_cases h0 : c < 0x4E00
    · exact S _ _ iso_roman_0 c (by omega) (by omega) hs
    by_cases h1 : c < 0x6200
    · exact S _ _ iso_roman_1 c (by omega) (by omega) hs
    by_cases h2 : c < 0x7600
    · exact S _ _ iso_roman_2 c (by omega) (by omega) hs
    by_cases h3 : c < 0x8A00
    · exact S _ _ iso_roman_3 c (by omega) (by omega) hs
    by_cases h4 : c < 0x9FA1
    · exact S _ _ iso_roman_4 c (by omega) (by omega) hs
    by_cases h5 : c < 0x10000
    · exact S _ _ iso_roman_5 c (by omega) (by omega) hs
    · exact S _ _ iso_roman_astral c (by omega) (by omega) hs
  · by_cases h0 : c < 0x4E00
    · exact S _ _ iso_jis0208_0 c (by omega) (by omega) hs
    by_cases h1 : c < 0x6200
    · exact S _ _ iso_jis0208_1 c (by omega) (by omega) hs
    by_cases h2 : c < 0x7600
    · exact S _ _ iso_jis0208_2 c (by omega) (by omega) hs
    by_cases h3 : c < 0x8A00
    · exact S _ _ iso_jis0208_3 c (by omega) (by omega) hs
    by_cases h4 : c < 0x9FA1
    · exact S _ _ iso_jis0208_4 c (by omega) (by omega) hs
    by_cases h5 : c < 0x10000
    · exact S _ _ iso_jis0208_5 c (by omega) (by omega) hs
    · exact S _ _ iso_jis0208_astral c (by omega) (by omega) hs

end EncodingRs.Lemmas.RoundTrip
