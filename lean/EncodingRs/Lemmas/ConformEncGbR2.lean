import EncodingRs.Lemmas.ConformEncGbDef
/-! C03, GBK / gb18030: complete evaluation of `gbCheck` over the code points 0x6800 ≤ c < 0x8200 (`native_decide`). -/
namespace EncodingRs.Lemmas.ConformEnc

theorem gb_check_r2 : allFrom gbCheck 0x6800 0x1A00 = true := by native_decide

end EncodingRs.Lemmas.ConformEnc
