import EncodingRs.Lemmas.ConformEnc
/-!
# C03: the EUC-KR encoder of the model is the Standard's EUC-KR encoder, for every code point

Complete evaluation over all code points `< 0x110000` (`native_decide`): model over the
tables regenerated from `/repo/src/data.rs`, Standard over the vendored index EUC-KR.
-/
namespace EncodingRs.Lemmas.ConformEnc
open EncodingRs EncodingRs.Model EncodingRs.Spec.Encode

def eucKrInv : Array Nat := mkInverse Spec.indexEucKr 0x10000

theorem eucKrInv_checks :
    checkEntries Spec.indexEucKr eucKrInv = true ∧ checkInverse Spec.indexEucKr eucKrInv = true := by
  native_decide

theorem eucKr_ptr : indexPointer Spec.indexEucKr = invLookup eucKrInv :=
  funext (indexPointer_eq_invLookup _ _ eucKrInv_checks.1 eucKrInv_checks.2)

def eucKrCheck (c : Nat) : Bool := decide (eucKrWith (invLookup eucKrInv) c = resOf (eucKrEncodeChar c) c)

theorem eucKr_check_all : allFrom eucKrCheck 0 0x110000 = true := by native_decide

/-- per-character conformance, EUC-KR -/
theorem eucKr_conforms (c : Nat) (hc : c < 0x110000) : eucKr c = resOf (eucKrEncodeChar c) c := by
  have h := allFrom_spec _ _ _ eucKr_check_all c (Nat.zero_le c) (by omega)
  unfold eucKr
  rw [eucKr_ptr]
  exact of_decide_eq_true h

end EncodingRs.Lemmas.ConformEnc
