import EncodingRs.Lemmas.Potential
import EncodingRs.Lemmas.MaxLenArith
import EncodingRs.Lemmas.ScalarFam3
/-!
# C07 (decoder half): potentials for the table-free families

For every family the three potentials `…Pot16` (`max_utf16_buffer_length`, sink UTF-16, with
replacement), `…Pot8` (`max_utf8_buffer_length`, sink UTF-8, with replacement) and `…Pot8N`
(`max_utf8_buffer_length_without_replacement`, sink UTF-8, raw calls only).  This file: units
lemmas, single-byte, x-user-defined, replacement, UTF-8.
-/
namespace EncodingRs.Lemmas.MaxLenFam
open EncodingRs EncodingRs.Model EncodingRs.Lemmas.Potential EncodingRs.Lemmas.MaxLenArith
open EncodingRs.Lemmas.Scalar EncodingRs.Gen.MaxLen

/-! ### code units of scalar values -/

theorem units_nil (k : Sink) : unitsOfList k [] = 0 := rfl
theorem units_single (k : Sink) (c : Nat) : unitsOfList k [c] = unitsOf k c := by
  simp [unitsOfList]
theorem units_pair (k : Sink) (c d : Nat) : unitsOfList k [c, d] = unitsOf k c + unitsOf k d := by
  simp [unitsOfList]

theorem unitsOf_le_astral (k : Sink) (c : Nat) : unitsOf k c ≤ needAstral k := by
  cases k <;> simp only [unitsOf, needAstral] <;> repeat' split
  all_goals omega

theorem unitsOf_bmp (k : Sink) (c : Nat) (h : c < 0x10000) : unitsOf k c ≤ needBmp k := by
  cases k <;> simp only [unitsOf, needBmp] <;> repeat' split
  all_goals omega

theorem unitsOf_ascii (k : Sink) (c : Nat) (h : c < 0x80) : unitsOf k c = 1 := by
  cases k <;> simp only [unitsOf] <;> repeat' split
  all_goals omega

theorem unitsOf_utf8_lt800 (c : Nat) (h : c < 0x800) : unitsOf .utf8 c ≤ 2 := by
  simp only [unitsOf]; repeat' split
  all_goals omega

theorem unitsOf_pos (k : Sink) (c : Nat) : 1 ≤ unitsOf k c := by
  cases k <;> simp only [unitsOf] <;> repeat' split
  all_goals omega

theorem replRoom_eq_needBmp (k : Sink) : replRoom k = needBmp k := by cases k <;> rfl

/-! ### single-byte -/

/-- every entry of the table is a BMP code point (the Rust tables are `[u16; 128]`) -/
def TableBmp (t : Array Nat) : Prop := ∀ j, j < 128 → t.getD j 0 < 0x10000

theorem singleByte_tables_bmp :
    (List.range 27).all (fun i => (List.range 128).all
      (fun j => decide ((Gen.singleByteTables.getD i #[]).getD j 0 < 0x10000))) = true := by
  decide +kernel

theorem gen_tables_bmp (i : Nat) : TableBmp (Gen.singleByteTables.getD i #[]) := by
  intro j hj
  by_cases hi : i < 27
  · have := all_range (all_range singleByte_tables_bmp i hi) j hj
    simpa using this
  · have hs : Gen.singleByteTables.size = 27 := by decide
    have : Gen.singleByteTables.getD i #[] = #[] := by
      simp [Array.getD, hs, hi]
    rw [this]; simp

theorem singleByte_facts (t : Array Nat) (ht : TableBmp t) (s : Unit) (b : Nat) (hb : b < 256) :
    (singleByteFeed t s b).unread = false ∧
    (∀ k, unitsOfList k (singleByteFeed t s b).out ≤ needBmp k) ∧
    ((singleByteFeed t s b).err ≠ none → (singleByteFeed t s b).out = []) := by
  unfold singleByteFeed
  split
  · refine ⟨rfl, ?_, by intro h; exact absurd rfl h⟩
    intro k; simp only [FeedRes.ok, units_single]
    exact unitsOf_bmp k b (by omega)
  · simp only []
    split
    · exact ⟨rfl, by intro k; simp [FeedRes.bad, units_nil], fun _ => rfl⟩
    · refine ⟨rfl, ?_, by intro h; exact absurd rfl h⟩
      intro k; simp only [FeedRes.ok, units_single]
      exact unitsOf_bmp k _ (ht _ (by omega))

/-- single-byte: any bound that grows by a BMP character per byte is a potential -/
def singleBytePot (t : Array Nat) (ht : TableBmp t) (k : Sink) (repl : Bool) (φ : Nat → Nat)
    (hφ : ∀ n, needBmp k + φ n ≤ φ (n + 1)) : Potential (singleByteFam t) k repl where
  Inv := fun _ => True
  Φ := fun _ n => φ n
  inv_step := fun _ _ _ _ _ => trivial
  inv_pend := fun _ _ _ _ _ => trivial
  inv_eof := fun _ _ _ _ _ => trivial
  need_le := by
    intro s b n _ _ _
    show needBmp k ≤ φ (n + 1)
    have := hφ n; omega
  step_ok := by
    intro s b n _ _ hb _
    show unitsOfList k (singleByteFeed t s b).out + φ n ≤ φ (n + 1)
    have := (singleByte_facts t ht s b hb).2.1 k
    have := hφ n; omega
  step_err := by
    intro _ s b n e _ _ hb he
    show unitsOfList k (singleByteFeed t s b).out + replRoom k
      + φ (if (singleByteFeed t s b).unread then n + 1 else n) ≤ φ (n + 1)
    have hf := singleByte_facts t ht s b hb
    have he' : (singleByteFeed t s b).err = some e := he
    rw [hf.1, hf.2.2 (by rw [he']; simp), units_nil, replRoom_eq_needBmp]
    have := hφ n
    simp only [Bool.false_eq_true, if_false]; omega
  pend_le := by intro s o s' n _ h; cases h
  eof_le := by intro s e s' _ _ h; cases h
  alt_le := by intro _ s src m r _ _ h; cases h
  alt_inv := by intro s src m r _ h; cases h

def singleBytePot16 (t : Array Nat) (ht : TableBmp t) : Potential (singleByteFam t) .utf16 true :=
  singleBytePot t ht .utf16 true (singleByteUtf16Nat ()) (by intro n; simp only [singleByteUtf16Nat, needBmp]; omega)
def singleBytePot8 (t : Array Nat) (ht : TableBmp t) : Potential (singleByteFam t) .utf8 true :=
  singleBytePot t ht .utf8 true (singleByteUtf8Nat ()) (by intro n; simp only [singleByteUtf8Nat, needBmp]; omega)
def singleBytePot8N (t : Array Nat) (ht : TableBmp t) : Potential (singleByteFam t) .utf8 false :=
  singleBytePot t ht .utf8 false (singleByteUtf8NoReplNat ()) (by intro n; simp only [singleByteUtf8NoReplNat, needBmp]; omega)

/-! ### x-user-defined -/

theorem userDefined_facts (s : Unit) (b : Nat) (hb : b < 256) :
    (userDefinedFeed s b).err = none ∧ ∀ k, unitsOfList k (userDefinedFeed s b).out ≤ needBmp k := by
  unfold userDefinedFeed
  split
  · refine ⟨rfl, ?_⟩
    intro k; simp only [FeedRes.ok, units_single]; exact unitsOf_bmp k b (by omega)
  · refine ⟨rfl, ?_⟩
    intro k; simp only [FeedRes.ok, units_single]; exact unitsOf_bmp k _ (by omega)

def userDefinedPot (k : Sink) (repl : Bool) (φ : Nat → Nat)
    (hφ : ∀ n, needBmp k + φ n ≤ φ (n + 1)) : Potential userDefinedFam k repl where
  Inv := fun _ => True
  Φ := fun _ n => φ n
  inv_step := fun _ _ _ _ _ => trivial
  inv_pend := fun _ _ _ _ _ => trivial
  inv_eof := fun _ _ _ _ _ => trivial
  need_le := by
    intro s b n _ _ _
    show needBmp k ≤ φ (n + 1)
    have := hφ n; omega
  step_ok := by
    intro s b n _ _ hb _
    show unitsOfList k (userDefinedFeed s b).out + φ n ≤ φ (n + 1)
    have := (userDefined_facts s b hb).2 k
    have := hφ n; omega
  step_err := by
    intro _ s b n e _ _ hb he
    have he' : (userDefinedFeed s b).err = some e := he
    rw [(userDefined_facts s b hb).1] at he'; cases he'
  pend_le := by intro s o s' n _ h; cases h
  eof_le := by intro s e s' _ _ h; cases h
  alt_le := by intro _ s src m r _ _ h; cases h
  alt_inv := by intro s src m r _ h; cases h

def userDefinedPot16 : Potential userDefinedFam .utf16 true :=
  userDefinedPot .utf16 true (userDefinedUtf16Nat ()) (by intro n; simp only [userDefinedUtf16Nat, needBmp]; omega)
def userDefinedPot8 : Potential userDefinedFam .utf8 true :=
  userDefinedPot .utf8 true (userDefinedUtf8Nat ()) (by intro n; simp only [userDefinedUtf8Nat, needBmp]; omega)
def userDefinedPot8N : Potential userDefinedFam .utf8 false :=
  userDefinedPot .utf8 false (userDefinedUtf8NoReplNat ()) (by intro n; simp only [userDefinedUtf8NoReplNat, needBmp]; omega)

/-! ### replacement

The formula (`Some(1)` / `Some(3)`) is not itself a potential (it does not decrease when the one
error is reported); the potential is the tighter "room for U+FFFD until it has been emitted". -/

def replacementPhi (k : Sink) (s : Bool) : Nat := if s then 0 else needBmp k

def replacementPot (k : Sink) (repl : Bool) : Potential replacementFam k repl where
  Inv := fun _ => True
  Φ := fun s _ => replacementPhi k s
  inv_step := fun _ _ _ _ _ => trivial
  inv_pend := fun _ _ _ _ _ => trivial
  inv_eof := fun _ _ _ _ _ => trivial
  need_le := by
    intro (s : Bool) b n _ _ _
    show (if s then 0 else needBmp k) ≤ replacementPhi k s
    exact Nat.le_refl _
  step_ok := by
    intro (s : Bool) b n _ _ _ he
    have he' : (replacementFeed s b).err = none := he
    show unitsOfList k (replacementFeed s b).out + replacementPhi k (replacementFeed s b).st ≤ replacementPhi k s
    cases s with
    | true => simp [replacementFeed, FeedRes.ok, units_nil, replacementPhi]
    | false => simp [replacementFeed, FeedRes.bad] at he'
  step_err := by
    intro _ (s : Bool) b n e _ _ _ he
    have he' : (replacementFeed s b).err = some e := he
    show unitsOfList k (replacementFeed s b).out + replRoom k
      + replacementPhi k (replacementFeed s b).st ≤ replacementPhi k s
    cases s with
    | true => simp [replacementFeed, FeedRes.ok] at he'
    | false => simp [replacementFeed, FeedRes.bad, units_nil, replacementPhi, replRoom_eq_needBmp]
  pend_le := by intro s o s' n _ h; cases h
  eof_le := by intro s e s' _ _ h; cases h
  alt_le := by intro _ s src m r _ _ h; cases h
  alt_inv := by intro s src m r _ h; cases h

def replacementPot16 : Potential replacementFam .utf16 true := replacementPot .utf16 true
def replacementPot8 : Potential replacementFam .utf8 true := replacementPot .utf8 true
def replacementPot8N : Potential replacementFam .utf8 false := replacementPot .utf8 false

theorem replacementPhi_le16 (s : Bool) (n : Nat) : replacementPhi .utf16 s ≤ replacementUtf16Nat s n := by
  cases s <;> simp [replacementPhi, replacementUtf16Nat, needBmp]
theorem replacementPhi_le8 (s : Bool) (n : Nat) : replacementPhi .utf8 s ≤ replacementUtf8Nat s n := by
  cases s <;> simp [replacementPhi, replacementUtf8Nat, needBmp]
theorem replacementPhi_le8N (s : Bool) (n : Nat) : replacementPhi .utf8 s ≤ replacementUtf8NoReplNat s n := by
  cases s <;> simp [replacementPhi, replacementUtf8NoReplNat, needBmp]

/-! ### UTF-8 -/

/-- what a step of the UTF-8 decoder does to `extra_from_state` (`x`, `x'` after the step) and
what it writes:
* no error, nothing written, one more byte pending; or
* no error, a scalar value of at most `x + 1` UTF-8 bytes (the length of its source sequence) completes; or
* error: nothing written, back to the neutral state; the byte is handed back only if bytes were pending -/
def Utf8Facts (s : Utf8St) (r : FeedRes Utf8St) : Prop :=
  (r.err = none ∧ r.unread = false ∧ r.out = [] ∧ utf8ExtraFromState r.st = utf8ExtraFromState s + 1) ∨
  (r.err = none ∧ r.unread = false ∧ utf8ExtraFromState r.st = 0 ∧
    ∃ c, r.out = [c] ∧ unitsOf .utf8 c ≤ utf8ExtraFromState s + 1 ∧
      (utf8ExtraFromState s = 0 → unitsOf .utf16 c = 1)) ∨
  ((∃ e, r.err = some e) ∧ r.out = [] ∧ utf8ExtraFromState r.st = 0 ∧
    (r.unread = true → 1 ≤ utf8ExtraFromState s))

theorem utf8_facts (s : Utf8St) (b : Nat) (hi : utf8Inv s) (hb : b < 256) : Utf8Facts s (utf8Feed s b) := by
  obtain ⟨cp, seen, needed, lo, up⟩ := s
  by_cases hn : needed = 0
  · have hx : utf8ExtraFromState ⟨cp, seen, needed, lo, up⟩ = 0 := by simp [utf8ExtraFromState, hn]
    have hs0 : seen = 0 := by
      unfold utf8Inv at hi; simp only at hi
      rcases hi with h | h | h | h | h | h | h <;> omega
    by_cases h1 : b < 0x80
    · have hf : utf8Feed ⟨cp, seen, needed, lo, up⟩ b = FeedRes.ok ⟨cp, seen, needed, lo, up⟩ [b] := by
        simp [utf8Feed, hn, h1]
      rw [hf]
      refine Or.inr (Or.inl ⟨rfl, rfl, hx, b, rfl, ?_, ?_⟩)
      · rw [unitsOf_ascii _ _ h1]; omega
      · intro _; exact unitsOf_ascii _ _ h1
    · by_cases h2 : b < 0xC2
      · have hf : utf8Feed ⟨cp, seen, needed, lo, up⟩ b = FeedRes.bad ⟨cp, seen, needed, lo, up⟩ 1 0 := by
          simp [utf8Feed, hn, h1, h2]
        rw [hf]
        exact Or.inr (Or.inr ⟨⟨_, rfl⟩, rfl, hx, by intro h; cases h⟩)
      · by_cases h5 : b < 0xF5
        · have hf : ∃ st, utf8Feed ⟨cp, seen, needed, lo, up⟩ b = FeedRes.ok st [] ∧ st.needed ≠ 0 ∧ st.seen = seen := by
            unfold utf8Feed
            simp only [hn, h1, h2, h5, if_true, if_false]
            by_cases h3 : b < 0xE0
            · simp only [h3, if_true]; exact ⟨_, rfl, by simp, rfl⟩
            · simp only [h3, if_false]
              by_cases h4 : b < 0xF0
              · simp only [h4, if_true]
                refine ⟨_, rfl, by simp, ?_⟩
                split <;> (try split) <;> rfl
              · simp only [h4, if_false]
                refine ⟨_, rfl, by simp, ?_⟩
                split <;> (try split) <;> rfl
          obtain ⟨st, hf, hst1, hst2⟩ := hf
          rw [hf]
          refine Or.inl ⟨rfl, rfl, rfl, ?_⟩
          show utf8ExtraFromState st = _
          rw [hx]; simp [utf8ExtraFromState, hst1, hst2, hs0]
        · have hf : utf8Feed ⟨cp, seen, needed, lo, up⟩ b = FeedRes.bad ⟨cp, seen, needed, lo, up⟩ 1 0 := by
            have h3 : ¬ b < 0xE0 := by omega
            have h4 : ¬ b < 0xF0 := by omega
            simp [utf8Feed, hn, h1, h2, h3, h4, h5]
          rw [hf]
          exact Or.inr (Or.inr ⟨⟨_, rfl⟩, rfl, hx, by intro h; cases h⟩)
  · have hx : utf8ExtraFromState ⟨cp, seen, needed, lo, up⟩ = seen + 1 := by simp [utf8ExtraFromState, hn]
    have hx0 : utf8ExtraFromState utf8Init = 0 := rfl
    by_cases hr : lo ≤ b ∧ b ≤ up
    · by_cases hd : seen + 1 ≠ needed
      · have hf : utf8Feed ⟨cp, seen, needed, lo, up⟩ b
            = FeedRes.ok ⟨cp * 64 + b % 64, seen + 1, needed, 0x80, 0xBF⟩ [] := by
          simp [utf8Feed, hn, hr, hd]
        rw [hf]
        refine Or.inl ⟨rfl, rfl, rfl, ?_⟩
        show utf8ExtraFromState ⟨cp * 64 + b % 64, seen + 1, needed, 0x80, 0xBF⟩ = _
        rw [hx]; simp [utf8ExtraFromState, hn]
      · have hf : utf8Feed ⟨cp, seen, needed, lo, up⟩ b = FeedRes.ok utf8Init [cp * 64 + b % 64] := by
          have hd' : seen + 1 = needed := by omega
          simp [utf8Feed, hn, hr, hd']
        rw [hf]
        refine Or.inr (Or.inl ⟨rfl, rfl, hx0, _, rfl, ?_, by intro h; omega⟩)
        rw [hx]
        unfold utf8Inv at hi; simp only at hi
        simp only [unitsOf]
        rcases hi with h | h | h | h | h | h | h <;> (repeat' split) <;> omega
    · have hf : utf8Feed ⟨cp, seen, needed, lo, up⟩ b = FeedRes.bad utf8Init (seen + 1) 0 true := by
        simp [utf8Feed, hn, hr]
      rw [hf]
      exact Or.inr (Or.inr ⟨⟨_, rfl⟩, rfl, hx0, by intro _; omega⟩)

theorem utf8_eof_facts (s : Utf8St) (e : Nat × Nat) (s' : Utf8St) (h : utf8Fam.eof s = some (e, s')) :
    1 ≤ utf8ExtraFromState s ∧ utf8ExtraFromState s' = 0 := by
  have h' : (if s.needed ≠ 0 then some ((s.seen + 1, 0), utf8Init) else none) = some (e, s') := h
  split at h'
  · rename_i hn
    simp only [Option.some.injEq, Prod.mk.injEq] at h'
    rw [← h'.2]
    refine ⟨?_, rfl⟩
    simp [utf8ExtraFromState, hn]
  · cases h'

/-- UTF-8: a bound `φ x n` (`x` = `extra_from_state`) is a potential if it satisfies these
inequalities (one per kind of step) -/
def utf8Pot (k : Sink) (repl : Bool) (φ : Nat → Nat → Nat)
    (h_need : ∀ x n, needAstral k ≤ φ x (n + 1))
    (h_more : ∀ x n, φ (x + 1) n ≤ φ x (n + 1))
    (h_done : ∀ x n c, unitsOf .utf8 c ≤ x + 1 → (x = 0 → unitsOf .utf16 c = 1) →
      unitsOf k c + φ 0 n ≤ φ x (n + 1))
    (h_err : repl = true → ∀ x n, replRoom k + φ 0 n ≤ φ x (n + 1))
    (h_unread : repl = true → ∀ x n, 1 ≤ x → replRoom k + φ 0 (n + 1) ≤ φ x (n + 1))
    (h_eof : repl = true → ∀ x, 1 ≤ x → replRoom k + φ 0 0 ≤ φ x 0) :
    Potential utf8Fam k repl where
  Inv := utf8Inv
  Φ := fun s n => φ (utf8ExtraFromState s) n
  inv_step := fun s b hi _ hb => (utf8_step s b hi hb).1
  inv_pend := by intro s o s' _ h; cases h
  inv_eof := fun s e s' hi h => utf8Scalar.eof s e s' hi h
  need_le := by intro s b n _ _ _; exact h_need _ _
  step_ok := by
    intro (s : Utf8St) b n hi _ hb he
    have he' : (utf8Feed s b).err = none := he
    show unitsOfList k (utf8Feed s b).out + φ (utf8ExtraFromState (utf8Feed s b).st) n
      ≤ φ (utf8ExtraFromState s) (n + 1)
    rcases utf8_facts s b hi hb with ⟨_, _, ho, hx⟩ | ⟨_, _, hx, c, ho, hc1, hc2⟩ | ⟨⟨e, h⟩, _⟩
    · rw [ho, hx, units_nil]; have := h_more (utf8ExtraFromState s) n; omega
    · rw [ho, hx, units_single]; exact h_done _ n c hc1 hc2
    · rw [he'] at h; cases h
  step_err := by
    intro hr (s : Utf8St) b n e hi _ hb he
    have he' : (utf8Feed s b).err = some e := he
    show unitsOfList k (utf8Feed s b).out + replRoom k
      + φ (utf8ExtraFromState (utf8Feed s b).st) (if (utf8Feed s b).unread then n + 1 else n)
      ≤ φ (utf8ExtraFromState s) (n + 1)
    rcases utf8_facts s b hi hb with ⟨h, _⟩ | ⟨h, _⟩ | ⟨_, ho, hx, hun⟩
    · rw [he'] at h; cases h
    · rw [he'] at h; cases h
    · rw [ho, hx, units_nil]
      cases hu : (utf8Feed s b).unread with
      | true =>
        have := h_unread hr (utf8ExtraFromState s) n (hun hu)
        simp only [if_true]; omega
      | false =>
        have := h_err hr (utf8ExtraFromState s) n
        simp only [Bool.false_eq_true, if_false]; omega
  pend_le := by intro s o s' n _ h; cases h
  eof_le := by
    intro (s : Utf8St) e (s' : Utf8St) _ _ h
    refine ⟨Nat.zero_le _, ?_⟩
    intro hr
    have hf := utf8_eof_facts s e s' h
    show replRoom k + φ (utf8ExtraFromState s') 0 ≤ φ (utf8ExtraFromState s) 0
    rw [hf.2]; exact h_eof hr _ hf.1
  alt_le := by intro _ s src m r _ _ h; cases h
  alt_inv := by intro s src m r _ h; cases h

def utf8Pot16 : Potential utf8Fam .utf16 true :=
  utf8Pot .utf16 true (fun x n => n + (1 + x))
    (by intro x n; simp only [needAstral]; omega)
    (by intro x n; omega)
    (by
      intro x n c h1 h2
      have := unitsOf_le_astral .utf16 c
      simp only [needAstral] at this
      by_cases hx : x = 0
      · have := h2 hx; omega
      · omega)
    (by intro _ x n; simp only [replRoom]; omega)
    (by intro _ x n hx; simp only [replRoom]; omega)
    (by intro _ x hx; simp only [replRoom]; omega)

def utf8Pot8 : Potential utf8Fam .utf8 true :=
  utf8Pot .utf8 true (fun x n => 3 + 3 * (n + x))
    (by intro x n; simp only [needAstral]; omega)
    (by intro x n; omega)
    (by intro x n c h1 _; omega)
    (by intro _ x n; simp only [replRoom]; omega)
    (by intro _ x n hx; simp only [replRoom]; omega)
    (by intro _ x hx; simp only [replRoom]; omega)

def utf8Pot8N : Potential utf8Fam .utf8 false :=
  utf8Pot .utf8 false (fun x n => n + (3 + x))
    (by intro x n; simp only [needAstral]; omega)
    (by intro x n; omega)
    (by intro x n c h1 _; omega)
    (by intro h; cases h)
    (by intro h; cases h)
    (by intro h; cases h)

end EncodingRs.Lemmas.MaxLenFam
