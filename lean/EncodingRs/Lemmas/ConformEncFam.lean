import EncodingRs.Lemmas.ConformEncStream
import EncodingRs.Lemmas.ConformEncIso
/-!
# C03: `Conforms` for the stateless families (generic) and for ISO-2022-JP
-/
namespace EncodingRs.Lemmas.ConformEnc
open EncodingRs EncodingRs.Spec.Encode
open EncodingRs.Model hiding Ev

/-! ### stateless families -/

theorem processChar_succ (E : EFam) (fuel : Nat) (s : E.σ) (c : Nat) (acc : List Nat) :
    processChar E (fuel + 1) s c .unlimited acc =
      match (E.step s c).unmappable with
      | some u => .unmappable (E.step s c).st (acc ++ (E.step s c).out) u
      | none =>
        if (E.step s c).unread = true then processChar E fuel (E.step s c).st c .unlimited (acc ++ (E.step s c).out)
        else .done (E.step s c).st (acc ++ (E.step s c).out) .unlimited := by
  rw [processChar]
  simp only [Budget.isZero, Budget.dec]
  rfl

theorem charOut_stateless (enc : Nat → Option (List Nat)) (need : Nat) (s : (statelessEFam enc need).σ) (c : Nat) :
    charOut (statelessEFam enc need) s c
      = match enc c with
        | some bs => (bs, none, s)
        | none => ([], some c, s) := by
  unfold charOut
  have hr : (statelessEFam enc need).rank s c = 0 := rfl
  rw [hr, processChar_succ]
  have hs : (statelessEFam enc need).step s c = statelessStep enc s c := rfl
  rw [hs]
  unfold statelessStep
  cases enc c <;> simp [EStep.ok, EStep.unmap] <;> rfl

/-- a stateless family whose per-character function is the Standard's handler conforms -/
theorem conforms_stateless (enc : Nat → Option (List Nat)) (need : Nat) (h : Nat → Result)
    (hconf : ∀ c, c < 0x110000 → h c = resOf (enc c) c)
    (hascii : ∀ a, a ≤ 0x7F → h a = .bytes [a]) :
    Conforms (statelessEFam enc need) (stateless h) (fun _ => (stateless h).init) where
  char := by
    intro s c hc
    rw [charOut_stateless]
    have hh := hconf c hc
    have hhandler : (stateless h).handler (stateless h).init (some c) = ⟨(stateless h).init, none, h c⟩ := rfl
    unfold specChain
    rw [hhandler, hh]
    cases enc c <;> rfl
  eof := by
    intro s mode
    exact Runs.finished (mode := mode) (E := stateless h) (stateless h).init [] rfl
  ncr := by
    intro s c u _ _ a ha
    have hhandler : (stateless h).handler (stateless h).init (some a) = ⟨(stateless h).init, none, h a⟩ := rfl
    rw [hhandler, hascii a (by unfold isNcrChar at ha; omega)]
  report_lt := by
    intro s c u hc hu
    rw [charOut_stateless] at hu
    cases hec : enc c with
    | some bs => rw [hec] at hu; cases hu
    | none =>
      rw [hec] at hu
      have : c = u := by simpa using hu
      omega

/-! the Standard's handlers return ASCII code points as they are -/

theorem singleByte_ascii (index : Array Nat) (a : Nat) (h : a ≤ 0x7F) : singleByte index a = .bytes [a] := by
  unfold singleByte singleByteWith isAsciiCodePoint; simp [h]
theorem utf8_ascii (a : Nat) (h : a ≤ 0x7F) : utf8 a = .bytes [a] := by
  unfold utf8 isAsciiCodePoint; simp [h]
theorem gb18030_ascii (g : Bool) (a : Nat) (h : a ≤ 0x7F) : gb18030 g a = .bytes [a] := by
  unfold gb18030 gb18030With isAsciiCodePoint; simp [h]
theorem big5_ascii (a : Nat) (h : a ≤ 0x7F) : big5 a = .bytes [a] := by
  unfold big5 big5With isAsciiCodePoint; simp [h]
theorem eucKr_ascii (a : Nat) (h : a ≤ 0x7F) : eucKr a = .bytes [a] := by
  unfold eucKr eucKrWith isAsciiCodePoint; simp [h]
theorem eucJp_ascii (a : Nat) (h : a ≤ 0x7F) : eucJp a = .bytes [a] := by
  unfold eucJp eucJpWith isAsciiCodePoint; simp [h]
theorem shiftJis_ascii (a : Nat) (h : a ≤ 0x7F) : shiftJis a = .bytes [a] := by
  unfold shiftJis shiftJisWith isAsciiCodePoint; simp [h]
theorem userDefined_ascii (a : Nat) (h : a ≤ 0x7F) : userDefined a = .bytes [a] := by
  unfold userDefined isAsciiCodePoint; simp [h]

/-! ### ISO-2022-JP -/

theorem charOut_iso (s : iso2022JpEFam.σ) (c : Nat) : charOut iso2022JpEFam s c = isoChar s c := by
  unfold charOut isoChar
  have hstep : ∀ s' : iso2022JpEFam.σ, iso2022JpEFam.step s' c = isoEncStep s' c := fun _ => rfl
  have hrank : iso2022JpEFam.rank s c = isoEncRank s c := rfl
  rw [hrank, processChar_succ, hstep]
  cases hu : (isoEncStep s c).unmappable with
  | some u => simp; rfl
  | none =>
    by_cases hr : (isoEncStep s c).unread = true
    · have hrank1 : isoEncRank s c = 0 + 1 := by unfold isoEncRank; simp [hr]
      have h2 := isoEncStep_again_once s c hr
      rw [hrank1, processChar_succ, hstep]
      cases hu2 : (isoEncStep (isoEncStep s c).st c).unmappable <;> simp [hr, h2] <;> rfl
    · simp [hr]; rfl

/-- what the faithful step reports is the character itself or U+FFFD -/
theorem isoEncStep_report (s : IsoEncSt) (c u : Nat) (h : (isoEncStep s c).unmappable = some u) :
    u = c ∨ u = 0xFFFD := by
  revert h
  cases s <;>
  · unfold isoEncStep
    simp only
    repeat' split
    all_goals
      intro h
      simp [EStep.ok, EStep.unmap, EStep.again] at h <;> omega

theorem isoChar_report (s : IsoEncSt) (c u : Nat) (h : (isoChar s c).2.1 = some u) : u = c ∨ u = 0xFFFD := by
  unfold isoChar at h
  split at h
  · rename_i u' hu'
    simp at h
    subst h
    exact isoEncStep_report s c u' hu'
  · split at h
    · exact isoEncStep_report _ c u h
    · cases h

theorem iso_ncrPass_ascii : NcrPass iso2022Jp IsoState.ascii := by
  intro a ha
  unfold isNcrChar at ha
  show iso2022JpHandler .ascii (some a) = _
  unfold iso2022JpHandler iso2022JpHandlerWith isAsciiCodePoint
  have h1 : ¬ (a = 0x0E ∨ a = 0x0F ∨ a = 0x1B) := by omega
  have h2 : a ≤ 0x7F := by omega
  simp [h1, h2]
  rfl

theorem iso_ncrPass_roman : NcrPass iso2022Jp IsoState.roman := by
  intro a ha
  unfold isNcrChar at ha
  show iso2022JpHandler .roman (some a) = _
  unfold iso2022JpHandler iso2022JpHandlerWith isAsciiCodePoint
  have h1 : ¬ (a = 0x0E ∨ a = 0x0F ∨ a = 0x1B) := by omega
  have h2 : a ≤ 0x7F := by omega
  have h3 : a ≠ 0x5C := by omega
  have h4 : a ≠ 0x7E := by omega
  simp [h1, h2, h3, h4]
  rfl

theorem conforms_iso : Conforms iso2022JpEFam iso2022Jp isoPhi where
  char := by
    intro s c hc
    rw [charOut_iso]
    exact iso_char_conforms s c hc
  eof := by
    intro s mode
    cases s
    · exact Runs.finished (mode := mode) (E := iso2022Jp) IsoState.ascii [] rfl
    · have h2 : Runs iso2022Jp mode IsoState.ascii [] [] := Runs.finished (mode := mode) (E := iso2022Jp) IsoState.ascii [] rfl
      exact Runs.bytes (mode := mode) (E := iso2022Jp) IsoState.roman [] [0x1B, 0x28, 0x42] [] rfl h2
    · have h2 : Runs iso2022Jp mode IsoState.ascii [] [] := Runs.finished (mode := mode) (E := iso2022Jp) IsoState.ascii [] rfl
      exact Runs.bytes (mode := mode) (E := iso2022Jp) IsoState.jis0208 [] [0x1B, 0x28, 0x42] [] rfl h2
  ncr := by
    intro s c u hc hu
    rw [charOut_iso] at hu ⊢
    have hne := iso_char_error_state s c hc u hu
    cases hst : (isoChar s c).2.2 with
    | ascii => exact iso_ncrPass_ascii
    | roman => exact iso_ncrPass_roman
    | jis0208 => exact absurd hst hne
  report_lt := by
    intro s c u hc hu
    rw [charOut_iso] at hu
    rcases isoChar_report s c u hu with h | h <;> omega

end EncodingRs.Lemmas.ConformEnc
