import EncodingRs.Lemmas.EncPotential
import EncodingRs.Lemmas.EncFam
import EncodingRs.Lemmas.EncMaxLenArith
/-!
Per-family encoder potentials (`EPotential`, `Lemmas/EncPotential.lean`) for both source
forms.  For every stateless encoder the potential is the exact natural-number value of the
translated `max_buffer_length_from_utf{16,8}_without_replacement` formula.  ISO-2022-JP, the
only stateful encoder, needs a state-dependent potential that is bounded by the formula
(the formula itself does not look at the state).
-/
namespace EncodingRs.Lemmas.EncMaxLenFam
open EncodingRs EncodingRs.Model EncodingRs.Lemmas.EncPotential EncodingRs.Lemmas.EncFam

/-! ### stateless encoders -/

theorem statelessStep_some (enc : Nat → Option (List Nat)) (s : Unit) (c : Nat)
    (h : (statelessStep enc s c).unmappable = none) :
    ∃ bs, enc c = some bs ∧ (statelessStep enc s c).out = bs := by
  unfold statelessStep at h ⊢
  split
  · rename_i bs hbs; exact ⟨bs, hbs, rfl⟩
  · rename_i hn; rw [hn] at h; simp [EStep.unmap] at h

/-- potential of a stateless encoder from a function of the remaining units alone -/
def statelessPot (enc : Nat → Option (List Nat)) (need : Nat) (utf16 : Bool) (Φ : Nat → Nat)
    (hneed : ∀ c w n, WOK utf16 c w → need ≤ Φ (n + w))
    (hstep : ∀ c w n bs, WOK utf16 c w → enc c = some bs → bs.length + Φ n ≤ Φ (n + w)) :
    EPotential (statelessEFam enc need) utf16 :=
  EPotential.ofNoUnread (statelessEFam enc need) utf16 (fun _ n => Φ n) (statelessStep_unread enc)
    (fun _ c w n hw => hneed c w n hw)
    (fun s c w n hw hu => by
      obtain ⟨bs, he, ho⟩ := statelessStep_some enc s c hu
      show (statelessStep enc s c).out.length + Φ n ≤ Φ (n + w)
      rw [ho]; exact hstep c w n bs hw he)
    (fun _ => Nat.zero_le _)

/-- close an arithmetic obligation after splitting on the source form -/
macro "wok_omega" hw:ident : tactic =>
  `(tactic| (cases ‹Bool› <;> simp only [WOK, if_true, Bool.false_eq_true, if_false] at $hw:ident ⊢ <;> omega))

/-! #### single-byte encodings and x-user-defined: `n` from either source form -/

def singleBytePot (t : Array Nat) (a b l : Nat) (utf16 : Bool) : EPotential (singleByteEFam t a b l) utf16 :=
  statelessPot _ 1 utf16 (fun n => n)
    (by intro c w n hw; have := hw.pos; show 1 ≤ n + w; omega)
    (by intro c w n bs hw he
        have := hw.pos
        have := singleByte_outLe t a b l c bs he
        show bs.length + n ≤ n + w; omega)

def userDefinedPot (utf16 : Bool) : EPotential userDefinedEFam utf16 :=
  statelessPot _ 1 utf16 (fun n => n)
    (by intro c w n hw; have := hw.pos; show 1 ≤ n + w; omega)
    (by intro c w n bs hw he
        have := hw.pos
        have := userDefined_outLe c bs he
        show bs.length + n ≤ n + w; omega)

/-! #### the two-byte legacy CJK encoders: `2 n` from UTF-16, `n + 1` from UTF-8 -/

/-- what the shared proof needs from a two-byte encoder: at most two bytes, ASCII in one byte -/
structure TwoByte (enc : Nat → Option (List Nat)) : Prop where
  le2 : ∀ c, OutLe 2 (enc c)
  ascii : ∀ c, c < 0x80 → enc c = some [c]

def twoBytePot (enc : Nat → Option (List Nat)) (T : TwoByte enc) (utf16 : Bool) :
    EPotential (statelessEFam enc 2) utf16 :=
  statelessPot enc 2 utf16 (fun n => if utf16 then n * 2 else n + 1)
    (by intro c w n hw; wok_omega hw)
    (by intro c w n bs hw he
        have h2 := T.le2 c bs he
        by_cases hc : c < 0x80
        · have := T.ascii c hc
          rw [this] at he; cases he
          simp only [List.length_cons, List.length_nil]
          wok_omega hw
        · wok_omega hw)

theorem big5_twoByte : TwoByte big5EncodeChar :=
  ⟨big5_outLe, fun c h => by unfold big5EncodeChar; rw [if_pos h]⟩
theorem eucKr_twoByte : TwoByte eucKrEncodeChar :=
  ⟨eucKr_outLe, fun c h => by unfold eucKrEncodeChar; rw [if_pos h]⟩
theorem eucJp_twoByte : TwoByte eucJpEncodeChar :=
  ⟨eucJp_outLe, fun c h => by unfold eucJpEncodeChar; rw [if_pos h]⟩
theorem shiftJis_twoByte : TwoByte shiftJisEncodeChar :=
  ⟨shiftJis_outLe, fun c h => by unfold shiftJisEncodeChar; rw [if_pos h]⟩

def big5Pot (utf16 : Bool) : EPotential big5EFam utf16 := twoBytePot _ big5_twoByte utf16
def eucKrPot (utf16 : Bool) : EPotential eucKrEFam utf16 := twoBytePot _ eucKr_twoByte utf16
def eucJpPot (utf16 : Bool) : EPotential eucJpEFam utf16 := twoBytePot _ eucJp_twoByte utf16
def shiftJisPot (utf16 : Bool) : EPotential shiftJisEFam utf16 := twoBytePot _ shiftJis_twoByte utf16

/-! #### GBK (`extended = false`): `2 + 2 n` from UTF-16, `n + 3` from UTF-8;
gb18030 (`extended = true`): `4 n` from UTF-16, `2 + 2 n` from UTF-8 -/

theorem gb_ascii (extended : Bool) (c : Nat) (h : c < 0x80) : gbEncodeChar extended c = some [c] := by
  unfold gbEncodeChar; rw [if_pos h]

/-- the GBK encoder (no four-byte sequences) writes at most two bytes -/
theorem gbk_outLe (c : Nat) : OutLe 2 (gbEncodeChar false c) := by
  unfold gbEncodeChar gbEncodeAstral gbEncodeBmp
  simp only [if_true, and_true]
  outle_tac

def gbkPot (utf16 : Bool) : EPotential (gbEFam false) utf16 :=
  statelessPot _ 4 utf16 (fun n => if utf16 then 2 + n * 2 else n + 3)
    (by intro c w n hw; wok_omega hw)
    (by intro c w n bs hw he
        have h2 := gbk_outLe c bs he
        by_cases hc : c < 0x80
        · have := gb_ascii false c hc
          rw [this] at he; cases he
          simp only [List.length_cons, List.length_nil]
          wok_omega hw
        · wok_omega hw)

def gb18030Pot (utf16 : Bool) : EPotential (gbEFam true) utf16 :=
  statelessPot _ 4 utf16 (fun n => if utf16 then n * 4 else 2 + n * 2)
    (by intro c w n hw; wok_omega hw)
    (by intro c w n bs hw he
        have h2 := gb_outLe true c bs he
        by_cases hc : c < 0x80
        · have := gb_ascii true c hc
          rw [this] at he; cases he
          simp only [List.length_cons, List.length_nil]
          wok_omega hw
        · wok_omega hw)

/-! #### UTF-8 (also the output encoding of UTF-16LE/BE and replacement): `3 n` from UTF-16, `n` from UTF-8 -/

theorem encodeUtf8_length (c : Nat) :
    (encodeUtf8 c).length = (if c < 0x80 then 1 else if c < 0x800 then 2 else if c < 0x10000 then 3 else 4) := by
  unfold encodeUtf8
  repeat' split
  all_goals rfl

theorem utf8_width_le (utf16 : Bool) (c w : Nat) (hw : WOK utf16 c w) :
    (encodeUtf8 c).length ≤ (if utf16 then w * 3 else w) := by
  rw [encodeUtf8_length]
  cases utf16 <;> simp only [WOK, if_true, Bool.false_eq_true, if_false] at hw ⊢ <;>
    (repeat' split) <;> omega

def utf8Pot (utf16 : Bool) : EPotential utf8EFam utf16 :=
  EPotential.ofNoUnread utf8EFam utf16 (fun _ n => if utf16 then n * 3 else n)
    (statelessStep_unread utf8EncodeChar)
    (by intro s c w n hw
        have h := utf8_width_le utf16 c w hw
        show (encodeUtf8 c).length ≤ (if utf16 then (n + w) * 3 else n + w)
        cases utf16 <;> simp only [if_true, Bool.false_eq_true, if_false] at h ⊢ <;> omega)
    (by intro s c w n hw _
        have h := utf8_width_le utf16 c w hw
        show (encodeUtf8 c).length + (if utf16 then n * 3 else n) ≤ (if utf16 then (n + w) * 3 else n + w)
        cases utf16 <;> simp only [if_true, Bool.false_eq_true, if_false] at h ⊢ <;> omega)
    (fun _ => Nat.zero_le _)

end EncodingRs.Lemmas.EncMaxLenFam
