import EncodingRs.Model.Repl
import EncodingRs.Lemmas.Core
/-!
G7 `maxlen_sufficient` (DESIGN.md 3.2): a *potential* `Φ s n` bounds the output
space a decoder in state `s` can need for `n` more bytes.  If the capacity is at
least `Φ s |src|`, no admissible call returns `OutputFull` — without
replacement (`repl = false`: the call ends at the first error) and with
replacement (`repl = true`: every error costs room for U+FFFD and decoding goes on).
-/
namespace EncodingRs.Lemmas.Potential
open EncodingRs EncodingRs.Model EncodingRs.Lemmas.Core

structure Potential (F : Fam) (k : Sink) (repl : Bool) where
  Inv : F.σ → Prop
  Φ : F.σ → Nat → Nat
  /-- the invariant is preserved by every step, flush and end-of-stream error -/
  inv_step : ∀ s b, Inv s → F.pend s = none → b < 256 → Inv (F.feed s b).st
  inv_pend : ∀ s o s', Inv s → F.pend s = some (o, s') → Inv s'
  inv_eof : ∀ s e s', Inv s → F.eof s = some (e, s') → Inv s'
  /-- the space a step may insist on is covered -/
  need_le : ∀ s b n, Inv s → F.pend s = none → b < 256 → F.need k s b ≤ Φ s (n + 1)
  /-- a step without error: what it writes plus what the rest can need is covered -/
  step_ok : ∀ s b n, Inv s → F.pend s = none → b < 256 → (F.feed s b).err = none →
    unitsOfList k (F.feed s b).out + Φ (F.feed s b).st n ≤ Φ s (n + 1)
  /-- an error step when replacing: output, U+FFFD, and the rest (the byte again if it was handed back) -/
  step_err : repl = true → ∀ s b n e, Inv s → F.pend s = none → b < 256 → (F.feed s b).err = some e →
    unitsOfList k (F.feed s b).out + replRoom k
      + Φ (F.feed s b).st (if (F.feed s b).unread then n + 1 else n) ≤ Φ s (n + 1)
  /-- the flush of a delayed output -/
  pend_le : ∀ s o s' n, Inv s → F.pend s = some (o, s') →
    F.pendNeed k ≤ Φ s n ∧ unitsOfList k o + Φ s' n ≤ Φ s n
  /-- end of stream -/
  eof_le : ∀ s e s', Inv s → F.pend s = none → F.eof s = some (e, s') →
    F.eofNeed k ≤ Φ s 0 ∧ (repl = true → replRoom k + Φ s' 0 ≤ Φ s 0)
  /-- the look-ahead error (UTF-16 bulk path) -/
  alt_le : repl = true → ∀ s src m r, Inv s → F.pend s = none → F.alt s src = some (m, r) →
    Inv r.st ∧ unitsOfList k r.out + replRoom k + Φ r.st (src.length - m) ≤ Φ s src.length
  alt_inv : ∀ s src m r, Inv s → F.alt s src = some (m, r) → Inv r.st

variable {F : Fam} {k : Sink} {repl : Bool}

theorem unitsOfList_append (k : Sink) (a b : List Nat) : unitsOfList k (a ++ b) = unitsOfList k a + unitsOfList k b := by
  simp [unitsOfList, List.map_append, List.sum_append]

/-- **Raw calls (main loop)**: an `OutputFull` stop asks for no more than the potential allows;
any other result leaves the invariant and, when replacing, enough potential for what follows. -/
theorem run_bound (P : Potential F k repl) (L : Laws F) (last : Bool) :
    ∀ (src : List Nat) (s : F.σ) (budget : Budget), P.Inv s → F.pend s = none → (∀ b ∈ src, b < 256) →
      let r := run F k last s src budget
      P.Inv r.st ∧
      (r.res = .outputFull → unitsOfList k r.out + r.stopNeed ≤ P.Φ s src.length) ∧
      (repl = true → ∀ l a, r.res = .malformed l a →
        unitsOfList k r.out + replRoom k + P.Φ r.st (src.length - r.read) ≤ P.Φ s src.length) := by
  intro src
  induction src with
  | nil =>
    intro s budget hi hp _
    simp only [run]
    cases last with
    | false => exact ⟨hi, by simp, by intro _ l a h; cases h⟩
    | true =>
      simp only [if_true]
      cases he : F.eof s with
      | none => exact ⟨hi, by simp, by intro _ l a h; cases h⟩
      | some p =>
        obtain ⟨e, s'⟩ := p
        have hle := P.eof_le s e s' hi hp he
        simp only
        split
        · refine ⟨hi, ?_, by intro _ l a h; cases h⟩
          intro _
          simp only [unitsOfList, List.map_nil, List.sum_nil, Nat.zero_add, List.length_nil]
          exact hle.1
        · refine ⟨P.inv_eof s e s' hi he, (by intro h; cases h), ?_⟩
          intro hr l a _
          simp only [unitsOfList, List.map_nil, List.sum_nil, Nat.zero_add, List.length_nil, Nat.sub_zero]
          exact hle.2 hr
  | cons b tl ih =>
    intro s budget hi hp hb
    have hb0 : b < 256 := hb b (List.mem_cons_self ..)
    have hbt : ∀ x ∈ tl, x < 256 := fun x hx => hb x (List.mem_cons_of_mem _ hx)
    rw [run]
    cases hstop : stopHere F k s b tl budget with
    | some r =>
      simp only
      cases budget with
      | unlimited => simp [stopHere] at hstop
      | full n =>
        simp only [stopHere] at hstop
        split at hstop
        · cases hstop
          refine ⟨hi, ?_, by intro _ l a h; cases h⟩
          intro _
          simp only [unitsOfList, List.map_nil, List.sum_nil, Nat.zero_add, List.length_cons]
          exact P.need_le s b tl.length hi hp hb0
        · cases hstop
      | altAny =>
        simp only [stopHere] at hstop
        cases ha : F.alt s (b :: tl) with
        | none => simp [ha] at hstop
        | some p =>
          obtain ⟨m, r'⟩ := p
          simp only [ha] at hstop
          split at hstop
          · cases hstop
            refine ⟨P.alt_inv s (b :: tl) m r' hi ha, (by intro h; cases h), ?_⟩
            intro hr l a _
            exact (P.alt_le hr s (b :: tl) m r' hi hp ha).2
          · cases hstop
    | none =>
      simp only
      cases hE : (F.feed s b).err with
      | none =>
        simp only
        have hp' := L.pend_err s b hp hE
        have hi' := P.inv_step s b hi hp hb0
        have IH := ih (F.feed s b).st budget.dec hi' hp' hbt
        have hok := P.step_ok s b tl.length hi hp hb0 hE
        simp only at IH
        refine ⟨IH.1, ?_, ?_⟩
        · intro hres
          have := IH.2.1 hres
          rw [unitsOfList_append]
          simp only [List.length_cons]
          omega
        · intro hr l a hres
          have := IH.2.2 hr l a hres
          rw [unitsOfList_append]
          simp only [List.length_cons]
          have e : tl.length + 1 - ((run F k last (F.feed s b).st tl budget.dec).read + 1)
              = tl.length - (run F k last (F.feed s b).st tl budget.dec).read := by omega
          rw [e]
          omega
      | some e =>
        simp only
        refine ⟨P.inv_step s b hi hp hb0, (by intro h; cases h), ?_⟩
        intro hr l a _
        have := P.step_err hr s b tl.length e hi hp hb0 hE
        simp only [List.length_cons]
        cases hu : (F.feed s b).unread with
        | true => simp only [hu, if_true, Nat.sub_zero] at this ⊢; exact this
        | false =>
          simp only [hu, Bool.false_eq_true, if_false] at this ⊢
          have e1 : tl.length + 1 - 1 = tl.length := by omega
          rw [e1]; exact this

/-- the same for a whole raw call (flush first) -/
theorem call_bound (P : Potential F k repl) (L : Laws F) (last : Bool) (src : List Nat) (s : F.σ)
    (budget : Budget) (hi : P.Inv s) (hb : ∀ b ∈ src, b < 256) :
    let r := call F k s src last budget
    P.Inv r.st ∧
    (r.res = .outputFull → unitsOfList k r.out + r.stopNeed ≤ P.Φ s src.length) ∧
    (repl = true → ∀ l a, r.res = .malformed l a →
      unitsOfList k r.out + replRoom k + P.Φ r.st (src.length - r.read) ≤ P.Φ s src.length) := by
  unfold call
  cases hp : F.pend s with
  | none => exact run_bound P L last src s budget hi hp hb
  | some p =>
    obtain ⟨o, s'⟩ := p
    have hple := P.pend_le s o s' src.length hi hp
    simp only
    split
    · refine ⟨hi, ?_, by intro _ l a h; cases h⟩
      intro _
      simp only [unitsOfList, List.map_nil, List.sum_nil, Nat.zero_add]
      exact hple.1
    · have hr := run_bound P L last src s' budget.dec (P.inv_pend s o s' hi hp) (L.pend_once s o s' hp) hb
      simp only at hr
      refine ⟨hr.1, ?_, ?_⟩
      · intro hres
        have := hr.2.1 hres
        show unitsOfList k (o ++ _) + (run F k last s' src budget.dec).stopNeed ≤ _
        rw [unitsOfList_append]; omega
      · intro hrepl l a hres
        have := hr.2.2 hrepl l a hres
        show unitsOfList k (o ++ _) + _ + P.Φ (run F k last s' src budget.dec).st (src.length - (run F k last s' src budget.dec).read) ≤ _
        rw [unitsOfList_append]; omega

/-- **G7 for the without-replacement methods**: with a destination at least as large as the
potential of the current state for the number of bytes passed, an admissible call never
returns `OutputFull`. -/
theorem no_outputFull_raw (P : Potential F k repl) (L : Laws F) (last : Bool) (src : List Nat) (s : F.σ)
    (budget : Budget) (cap : Nat) (hi : P.Inv s) (hb : ∀ b ∈ src, b < 256)
    (hcap : P.Φ s src.length ≤ cap) (hadm : Admissible F k cap (call F k s src last budget)) :
    (call F k s src last budget).res ≠ .outputFull := by
  intro hres
  have h1 := (call_bound P L last src s budget hi hb).2.1 hres
  have h2 := hadm.2.1 hres
  omega

/-- every inner raw call of the replacement loop is admissible for what is left of the
destination (`cap` minus what earlier inner calls and their U+FFFDs wrote) -/
def ReplAdmissible (F : Fam) (k : Sink) (last : Bool) : Nat → F.σ → List Nat → List Budget → Nat → Prop
  | 0, _, _, _, _ => True
  | fuel + 1, s, src, budgets, cap =>
    Admissible F k cap (call F k s src last (budgets.headD .unlimited)) ∧
    (∀ l a, (call F k s src last (budgets.headD .unlimited)).res = .malformed l a →
      ReplAdmissible F k last fuel (call F k s src last (budgets.headD .unlimited)).st
        (src.drop (call F k s src last (budgets.headD .unlimited)).read) budgets.tail
        (cap - unitsOfList k (call F k s src last (budgets.headD .unlimited)).out - replRoom k))

/-- **G7 for the with-replacement methods**: with a destination at least as large as the
potential, the replacement loop never returns `OutputFull`, however many errors are replaced. -/
theorem no_outputFull_repl (P : Potential F k true) (L : Laws F) (last : Bool) :
    ∀ (fuel : Nat) (s : F.σ) (src : List Nat) (budgets : List Budget) (cap : Nat) (t : ReplRes F.σ),
      P.Inv s → (∀ b ∈ src, b < 256) → P.Φ s src.length ≤ cap →
      ReplAdmissible F k last fuel s src budgets cap →
      replLoop F k last fuel s src budgets = some t → t.res ≠ .outputFull := by
  intro fuel
  induction fuel with
  | zero => intro s src budgets cap t _ _ _ _ h; simp [replLoop] at h
  | succ fuel ih =>
    intro s src budgets cap t hi hb hcap hadm h
    rw [replLoop] at h
    simp only [ReplAdmissible] at hadm
    have hcb := call_bound P L last src s (budgets.headD .unlimited) hi hb
    simp only at hcb
    generalize call F k s src last (budgets.headD .unlimited) = r at h hadm hcb
    unfold replStep at h
    cases hres : r.res with
    | malformed l a =>
      simp only [hres] at h
      cases hrec : replLoop F k last fuel r.st (src.drop r.read) budgets.tail with
      | none => rw [hrec] at h; cases h
      | some t' =>
        rw [hrec] at h; simp only [Option.some.injEq] at h; subst h
        have hm := hcb.2.2 trivial l a hres
        have hb' : ∀ b ∈ src.drop r.read, b < 256 := fun b hb' => hb b (List.mem_of_mem_drop hb')
        have := ih r.st (src.drop r.read) budgets.tail _ t' hcb.1 hb'
          (by rw [List.length_drop]; omega) (hadm.2 l a hres) hrec
        exact this
    | inputEmpty => simp only [hres, Option.some.injEq] at h; subst h; simp
    | outputFull =>
      exfalso
      have h1 := hcb.2.1 hres
      have h2 := hadm.1.2.1 hres
      omega

end EncodingRs.Lemmas.Potential
