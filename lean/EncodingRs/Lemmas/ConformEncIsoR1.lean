import EncodingRs.Lemmas.ConformEncIsoDef
/-! C03, ISO-2022-JP: complete evaluation of `isoCheck` (all three encoder states) over the code points 0x4E00 ≤ c < 0x5C00 (`native_decide`). -/
namespace EncodingRs.Lemmas.ConformEnc

theorem iso_check_r1 : allFrom isoCheck 0x4E00 0xE00 = true := by native_decide

end EncodingRs.Lemmas.ConformEnc
