import EncodingRs.Lemmas.Mem
/-!
Helper lemmas for C15, UTF-8 → UTF-16 direction: the table-driven validity
tests of `utf_8.rs` = Table 3-7 of the specification, the bit-level decoding =
the arithmetic `cp2/cp3/cp4`, the run lemma of the fast path
`utf8ToUtf16UpToInvalid`, and the invariant of the decoder loop
`utf8ToUtf16Loop`.
-/
namespace EncodingRs.Lemmas.MemUtf8
open EncodingRs.Spec.Conv EncodingRs.Model.Mem EncodingRs.Lemmas.Mem

def Bytes (src : List Nat) : Prop := ∀ b ∈ src, b < 256

theorem Bytes.head {b : Nat} {rest : List Nat} (h : Bytes (b :: rest)) : b < 256 := h b List.mem_cons_self
theorem Bytes.tail {b : Nat} {rest : List Nat} (h : Bytes (b :: rest)) : Bytes rest :=
  fun x hx => h x (List.mem_cons_of_mem _ hx)
theorem Bytes.drop {src : List Nat} (h : Bytes src) (k : Nat) : Bytes (src.drop k) :=
  fun x hx => h x (List.mem_of_mem_drop hx)

/-! ## the data table of `utf_8.rs` as two class functions -/

/-- `UTF8_DATA.table[b]` for `b < 256`: the "trail" half -/
def trailC (b : Nat) : Nat :=
  if b < 0x80 then 252 else if b < 0x90 then 84 else if b < 0xA0 then 148 else if b < 0xC0 then 164 else 252

/-- `UTF8_DATA.table[b + 0x80]` for `0x80 ≤ b < 256`: the "lead" half -/
def leadC (b : Nat) : Nat :=
  if b < 0xC2 then 4 else if b < 0xE0 then 8 else if b = 0xE0 then 16 else if b = 0xED then 32
  else if b < 0xF0 then 8 else if b = 0xF0 then 64 else if b < 0xF4 then 8 else if b = 0xF4 then 128 else 4

theorem tbl_trail : ∀ b, b < 256 → tbl b = trailC b := by decide +kernel
theorem tbl_lead : ∀ b, b < 128 → tbl (b + 0x80 + 0x80) = leadC (b + 0x80) := by decide +kernel

theorem trail_and4 : ∀ b1, b1 < 256 → (trailC b1 &&& 4) = 4 := by decide +kernel
theorem trail_and8 : ∀ b1, b1 < 256 →
    (trailC b1 &&& 8) % 4 = 0 ∧ (trailC b1 &&& 8) < 256 ∧
    ((trailC b1 &&& 8) / 4 == 0) = isCont b1 := by decide +kernel
theorem trail_and16 : ∀ b1, b1 < 256 →
    (trailC b1 &&& 16) % 4 = 0 ∧ (trailC b1 &&& 16) < 256 ∧
    ((trailC b1 &&& 16) / 4 == 0) = secondOk 0xE0 b1 := by decide +kernel
theorem trail_and32 : ∀ b1, b1 < 256 →
    (trailC b1 &&& 32) % 4 = 0 ∧ (trailC b1 &&& 32) < 256 ∧
    ((trailC b1 &&& 32) / 4 == 0) = secondOk 0xED b1 := by decide +kernel
theorem trail_and64 : ∀ b1, b1 < 256 →
    (trailC b1 &&& 64) % 4 = 0 ∧ (trailC b1 &&& 64) < 256 ∧
    ((trailC b1 &&& 64) / 4 == 0) = secondOk 0xF0 b1 := by decide +kernel
theorem trail_and128 : ∀ b1, b1 < 256 →
    (trailC b1 &&& 128) % 4 = 0 ∧ (trailC b1 &&& 128) < 256 ∧
    ((trailC b1 &&& 128) / 4 == 0) = secondOk 0xF4 b1 := by decide +kernel

/-- the classes of a non-ASCII byte that is not a two-byte lead -/
theorem leadC_cases : ∀ b0, b0 < 256 → (0x80 ≤ b0 ∧ isLead2 b0 = false) →
    (leadC b0 = 4 ∧ isLead3 b0 = false ∧ isLead4 b0 = false) ∨
    (leadC b0 = 8 ∧ (isLead3 b0 || isLead4 b0) = true ∧ b0 ≠ 0xE0 ∧ b0 ≠ 0xED ∧ b0 ≠ 0xF0 ∧ b0 ≠ 0xF4) ∨
    b0 = 0xE0 ∨ b0 = 0xED ∨ b0 = 0xF0 ∨ b0 = 0xF4 := by decide +kernel

theorem secondOk_plain (b0 b1 : Nat) (h1 : b0 ≠ 0xE0) (h2 : b0 ≠ 0xED) (h3 : b0 ≠ 0xF0) (h4 : b0 ≠ 0xF4) :
    secondOk b0 b1 = isCont b1 := by
  simp [secondOk, h1, h2, h3, h4]

/-- **the table test**: for a byte `b0 ≥ 0x80` outside `C2..DF`, the masked
table value is a multiple of four below 256 that is zero exactly when `b0` is a
three- or four-byte lead and `b1` is in the range Table 3-7 allows after it -/
theorem tblAnd (b0 b1 : Nat) (h0 : b0 < 256) (h1 : b1 < 256) (hb : 0x80 ≤ b0) (hn2 : isLead2 b0 = false) :
    ∃ k, k < 64 ∧ tbl b1 &&& tbl (b0 + 0x80) = 4 * k ∧
      (k == 0) = ((isLead3 b0 || isLead4 b0) && secondOk b0 b1) := by
  have hl := tbl_lead (b0 - 0x80) (by omega)
  rw [Nat.sub_add_cancel hb] at hl
  rw [tbl_trail b1 h1, hl]
  refine ⟨(trailC b1 &&& leadC b0) / 4, ?_⟩
  rcases leadC_cases b0 h0 ⟨hb, hn2⟩ with ⟨hc, h3, h4⟩ | ⟨hc, h34, e1, e2, e3, e4⟩ | rfl | rfl | rfl | rfl
  · rw [hc, trail_and4 b1 h1, h3, h4]; simp
  · rw [hc, h34, secondOk_plain b0 b1 e1 e2 e3 e4]
    have := trail_and8 b1 h1
    refine ⟨by omega, by omega, ?_⟩
    simpa using this.2.2
  · have := trail_and16 b1 h1
    rw [show leadC 0xE0 = 16 by decide]
    refine ⟨by omega, by omega, ?_⟩
    simpa [leadC, isLead3, isLead4] using this.2.2
  · have := trail_and32 b1 h1
    rw [show leadC 0xED = 32 by decide]
    refine ⟨by omega, by omega, ?_⟩
    simpa [leadC, isLead3, isLead4] using this.2.2
  · have := trail_and64 b1 h1
    rw [show leadC 0xF0 = 64 by decide]
    refine ⟨by omega, by omega, ?_⟩
    simpa [leadC, isLead3, isLead4] using this.2.2
  · have := trail_and128 b1 h1
    rw [show leadC 0xF4 = 128 by decide]
    refine ⟨by omega, by omega, ?_⟩
    simpa [leadC, isLead3, isLead4] using this.2.2

theorem or_two : ∀ k, k < 64 → ∀ j, j < 4 → ((4 * k ||| j) == 2) = (k == 0 && j == 2) := by decide +kernel
theorem or_two_two : ∀ k, k < 64 → ∀ j, j < 4 → ∀ l, l < 4 →
    ((4 * k ||| j ||| 256 * l) == 0x202) = (k == 0 && j == 2 && l == 2) := by decide +kernel
theorem shr6_cont : ∀ b, b < 256 → (b >>> 6 == 2) = isCont b := by decide +kernel
theorem shr6_lt : ∀ b, b < 256 → b >>> 6 < 4 := by decide +kernel
theorem andC0_shl : ∀ b, b < 256 → (b &&& 0xC0) <<< 2 = 256 * (b >>> 6) := by decide +kernel

theorem threeOk_eq (b0 b1 b2 : Nat) (h0 : b0 < 256) (h1 : b1 < 256) (h2 : b2 < 256) (hb : 0x80 ≤ b0)
    (hn2 : isLead2 b0 = false) (hlt : b0 < 0xF0) :
    threeOk b0 b1 b2 = (isLead3 b0 && secondOk b0 b1 && isCont b2) := by
  obtain ⟨k, hk, hm, hz⟩ := tblAnd b0 b1 h0 h1 hb hn2
  have h4 : isLead4 b0 = false := by simp [isLead4]; omega
  unfold threeOk
  rw [hm, or_two k hk _ (shr6_lt b2 h2), hz, shr6_cont b2 h2, h4]
  simp

theorem fourOk_eq (b0 b1 b2 b3 : Nat) (h0 : b0 < 256) (h1 : b1 < 256) (h2 : b2 < 256) (h3 : b3 < 256)
    (hge : 0xF0 ≤ b0) :
    fourOk b0 b1 b2 b3 = (isLead4 b0 && secondOk b0 b1 && isCont b2 && isCont b3) := by
  have hn2 : isLead2 b0 = false := by simp [isLead2]; omega
  have hn3 : isLead3 b0 = false := by simp [isLead3]; omega
  obtain ⟨k, hk, hm, hz⟩ := tblAnd b0 b1 h0 h1 (by omega) hn2
  unfold fourOk
  rw [hm, andC0_shl b3 h3, or_two_two k hk _ (shr6_lt b2 h2) _ (shr6_lt b3 h3), hz, shr6_cont b2 h2,
    shr6_cont b3 h3, hn3]
  simp

/-! ## bit-level decoding = arithmetic -/

theorem or_add (k x y : Nat) (hx : x % 2 ^ k = 0) (hy : y < 2 ^ k) : x ||| y = x + y := by
  have hx' : x = 2 ^ k * (x / 2 ^ k) := by
    have := Nat.div_add_mod x (2 ^ k)
    omega
  rw [hx', ← Nat.two_pow_add_eq_or_of_lt hy]

theorem or_add6 (x y : Nat) (hx : x % 64 = 0) (hy : y < 64) : x ||| y = x + y := or_add 6 x y hx hy
theorem or_add12 (x y : Nat) (hx : x % 4096 = 0) (hy : y < 4096) : x ||| y = x + y := or_add 12 x y hx hy
theorem or_add18 (x y : Nat) (hx : x % 262144 = 0) (hy : y < 262144) : x ||| y = x + y := or_add 18 x y hx hy

theorem and1F (a : Nat) : a &&& 0x1F = a % 32 := Nat.and_two_pow_sub_one_eq_mod a 5
theorem andF (a : Nat) : a &&& 0xF = a % 16 := Nat.and_two_pow_sub_one_eq_mod a 4
theorem and7 (a : Nat) : a &&& 0x7 = a % 8 := Nat.and_two_pow_sub_one_eq_mod a 3
theorem and3FF (a : Nat) : a &&& 0x3FF = a % 1024 := Nat.and_two_pow_sub_one_eq_mod a 10
theorem shr10 (a : Nat) : a >>> 10 = a / 1024 := Nat.shiftRight_eq_div_pow a 10
theorem shl6 (a : Nat) : a <<< 6 = a * 64 := Nat.shiftLeft_eq a 6
theorem shl12 (a : Nat) : a <<< 12 = a * 4096 := Nat.shiftLeft_eq a 12
theorem shl18 (a : Nat) : a <<< 18 = a * 262144 := Nat.shiftLeft_eq a 18

/-- one accumulation step of the decoder: `(cp << 6) | (b & 0x3F)` -/
theorem acc_eq (cp b : Nat) : (cp <<< 6) ||| (b &&& 0x3F) = cp * 64 + b % 64 := by
  rw [and3F, shl6, or_add6 _ _ (by omega) (by omega)]

theorem dec2_eq (b0 b1 : Nat) (h0 : isLead2 b0 = true) (h1 : isCont b1 = true) : dec2 b0 b1 = cp2 b0 b1 := by
  simp only [isLead2, isCont, Bool.and_eq_true, decide_eq_true_eq] at h0 h1
  unfold dec2 cp2
  rw [acc_eq, and1F]
  omega

theorem dec3_eq (b0 b1 b2 : Nat) (h0 : isLead3 b0 = true) (h1 : isCont b1 = true) (h2 : isCont b2 = true) :
    dec3 b0 b1 b2 = cp3 b0 b1 b2 := by
  simp only [isLead3, isCont, Bool.and_eq_true, decide_eq_true_eq] at h0 h1 h2
  unfold dec3 cp3
  rw [andF, and3F, and3F, shl12, shl6]
  have e1 : b0 % 16 * 4096 ||| b1 % 64 * 64 = b0 % 16 * 4096 + b1 % 64 * 64 :=
    or_add12 _ _ (by omega) (by omega)
  rw [e1, or_add6 _ _ (by omega) (by omega)]
  omega

theorem dec4_eq (b0 b1 b2 b3 : Nat) (h0 : isLead4 b0 = true) (h1 : isCont b1 = true) (h2 : isCont b2 = true)
    (h3 : isCont b3 = true) : dec4 b0 b1 b2 b3 = cp4 b0 b1 b2 b3 := by
  simp only [isLead4, isCont, Bool.and_eq_true, decide_eq_true_eq] at h0 h1 h2 h3
  unfold dec4 cp4
  rw [and7, and3F, and3F, and3F, shl18, shl12, shl6]
  have e1 : b0 % 8 * 262144 ||| b1 % 64 * 4096 = b0 % 8 * 262144 + b1 % 64 * 4096 :=
    or_add18 _ _ (by omega) (by omega)
  have e2 : b0 % 8 * 262144 + b1 % 64 * 4096 ||| b2 % 64 * 64 = b0 % 8 * 262144 + b1 % 64 * 4096 + b2 % 64 * 64 :=
    or_add12 _ _ (by omega) (by omega)
  rw [e1, e2, or_add6 _ _ (by omega) (by omega)]
  omega

theorem secondOk_cont {b0 b1 : Nat} (h : secondOk b0 b1 = true) : isCont b1 = true := by
  unfold secondOk at h
  simp only [isCont, Bool.and_eq_true, decide_eq_true_eq] 
  split at h
  · simp only [Bool.and_eq_true, decide_eq_true_eq] at h; omega
  split at h
  · simp only [Bool.and_eq_true, decide_eq_true_eq] at h; omega
  split at h
  · simp only [Bool.and_eq_true, decide_eq_true_eq] at h; omega
  split at h
  · simp only [Bool.and_eq_true, decide_eq_true_eq] at h; omega
  · simpa [isCont] using h

theorem astral_eq (p : Nat) (h0 : 0x10000 ≤ p) : astralUnits p = utf16Encode p := by
  have hn : ¬ p < 0x10000 := by omega
  unfold astralUnits utf16Encode
  rw [and3FF, shr10]
  rw [if_neg hn]
  have e1 : 0xD7C0 + p / 1024 = 0xD800 + (p - 0x10000) / 1024 := by omega
  have e2 : p % 1024 = (p - 0x10000) % 1024 := by omega
  rw [e1, e2]

theorem cp3_lt (b0 b1 b2 : Nat) (h0 : isLead3 b0 = true) (h1 : isCont b1 = true) (h2 : isCont b2 = true) :
    cp3 b0 b1 b2 < 0x10000 := by
  simp only [isLead3, isCont, Bool.and_eq_true, decide_eq_true_eq] at h0 h1 h2
  unfold cp3; omega

theorem cp2_lt (b0 b1 : Nat) (h0 : isLead2 b0 = true) (h1 : isCont b1 = true) :
    cp2 b0 b1 < 0x10000 := by
  simp only [isLead2, isCont, Bool.and_eq_true, decide_eq_true_eq] at h0 h1
  unfold cp2; omega

/-- a four-byte sequence allowed by Table 3-7 is an astral code point -/
theorem cp4_ge (b0 b1 b2 b3 : Nat) (h0 : isLead4 b0 = true) (h1 : secondOk b0 b1 = true) (h2 : isCont b2 = true)
    (h3 : isCont b3 = true) : 0x10000 ≤ cp4 b0 b1 b2 b3 := by
  have hc := secondOk_cont h1
  simp only [isLead4, isCont, Bool.and_eq_true, decide_eq_true_eq] at h0 hc h2 h3
  unfold cp4
  by_cases hf : b0 = 0xF0
  · subst hf
    simp [secondOk] at h1
    omega
  · omega

theorem utf16Encode_bmp {c : Nat} (h : c < 0x10000) : utf16Encode c = [c] := by
  simp [utf16Encode, h]

/-! ## the specification, unfolded by class of the first byte -/

theorem lead2_facts {b : Nat} (h : isLead2 b = true) : ¬ b < 0x80 := by
  simp only [isLead2, Bool.and_eq_true, decide_eq_true_eq] at h; omega
theorem lead3_facts {b : Nat} (h : isLead3 b = true) : ¬ b < 0x80 ∧ isLead2 b = false := by
  simp only [isLead3, isLead2, Bool.and_eq_true, decide_eq_true_eq, Bool.and_eq_false_iff,
    decide_eq_false_iff_not] at *; omega
theorem lead4_facts {b : Nat} (h : isLead4 b = true) : ¬ b < 0x80 ∧ isLead2 b = false ∧ isLead3 b = false := by
  simp only [isLead4, isLead3, isLead2, Bool.and_eq_true, decide_eq_true_eq, Bool.and_eq_false_iff,
    decide_eq_false_iff_not] at *; omega

theorem dec_ascii {b0 : Nat} (r : List Nat) (h : b0 < 0x80) :
    decodeUtf8Lossy (b0 :: r) = b0 :: decodeUtf8Lossy r := by
  rw [decodeUtf8Lossy.eq_def]; simp [h]

theorem dec_bad {b0 : Nat} (r : List Nat) (h0 : ¬ b0 < 0x80) (h2 : isLead2 b0 = false) (h3 : isLead3 b0 = false)
    (h4 : isLead4 b0 = false) : decodeUtf8Lossy (b0 :: r) = replacement :: decodeUtf8Lossy r := by
  rw [decodeUtf8Lossy.eq_def]; simp [h0, h2, h3, h4]

theorem dec_l2_end {b0 : Nat} (h : isLead2 b0 = true) : decodeUtf8Lossy [b0] = [replacement] := by
  rw [decodeUtf8Lossy.eq_def]; simp [h, lead2_facts h]

theorem dec_l2_ok {b0 b1 : Nat} (r : List Nat) (h : isLead2 b0 = true) (h1 : isCont b1 = true) :
    decodeUtf8Lossy (b0 :: b1 :: r) = cp2 b0 b1 :: decodeUtf8Lossy r := by
  rw [decodeUtf8Lossy.eq_def]; simp [h, lead2_facts h, h1]

theorem dec_l2_bad {b0 b1 : Nat} (r : List Nat) (h : isLead2 b0 = true) (h1 : isCont b1 = false) :
    decodeUtf8Lossy (b0 :: b1 :: r) = replacement :: decodeUtf8Lossy (b1 :: r) := by
  rw [decodeUtf8Lossy.eq_def]; simp [h, lead2_facts h, h1]

theorem dec_l3_end {b0 : Nat} (h : isLead3 b0 = true) : decodeUtf8Lossy [b0] = [replacement] := by
  rw [decodeUtf8Lossy.eq_def]; simp [h, lead3_facts h]

theorem dec_l3_bad1 {b0 b1 : Nat} (r : List Nat) (h : isLead3 b0 = true) (h1 : secondOk b0 b1 = false) :
    decodeUtf8Lossy (b0 :: b1 :: r) = replacement :: decodeUtf8Lossy (b1 :: r) := by
  rw [decodeUtf8Lossy.eq_def]; simp [h, lead3_facts h, h1]

theorem dec_l3_end2 {b0 b1 : Nat} (h : isLead3 b0 = true) (h1 : secondOk b0 b1 = true) :
    decodeUtf8Lossy [b0, b1] = [replacement] := by
  rw [decodeUtf8Lossy.eq_def]; simp [h, lead3_facts h, h1]

theorem dec_l3_ok {b0 b1 b2 : Nat} (r : List Nat) (h : isLead3 b0 = true) (h1 : secondOk b0 b1 = true)
    (h2 : isCont b2 = true) :
    decodeUtf8Lossy (b0 :: b1 :: b2 :: r) = cp3 b0 b1 b2 :: decodeUtf8Lossy r := by
  rw [decodeUtf8Lossy.eq_def]; simp [h, lead3_facts h, h1, h2]

theorem dec_l3_bad2 {b0 b1 b2 : Nat} (r : List Nat) (h : isLead3 b0 = true) (h1 : secondOk b0 b1 = true)
    (h2 : isCont b2 = false) :
    decodeUtf8Lossy (b0 :: b1 :: b2 :: r) = replacement :: decodeUtf8Lossy (b2 :: r) := by
  rw [decodeUtf8Lossy.eq_def]; simp [h, lead3_facts h, h1, h2]

theorem dec_l4_end {b0 : Nat} (h : isLead4 b0 = true) : decodeUtf8Lossy [b0] = [replacement] := by
  rw [decodeUtf8Lossy.eq_def]; simp [h, lead4_facts h]

theorem dec_l4_bad1 {b0 b1 : Nat} (r : List Nat) (h : isLead4 b0 = true) (h1 : secondOk b0 b1 = false) :
    decodeUtf8Lossy (b0 :: b1 :: r) = replacement :: decodeUtf8Lossy (b1 :: r) := by
  rw [decodeUtf8Lossy.eq_def]; simp [h, lead4_facts h, h1]

theorem dec_l4_end2 {b0 b1 : Nat} (h : isLead4 b0 = true) (h1 : secondOk b0 b1 = true) :
    decodeUtf8Lossy [b0, b1] = [replacement] := by
  rw [decodeUtf8Lossy.eq_def]; simp [h, lead4_facts h, h1]

theorem dec_l4_bad2 {b0 b1 b2 : Nat} (r : List Nat) (h : isLead4 b0 = true) (h1 : secondOk b0 b1 = true)
    (h2 : isCont b2 = false) :
    decodeUtf8Lossy (b0 :: b1 :: b2 :: r) = replacement :: decodeUtf8Lossy (b2 :: r) := by
  rw [decodeUtf8Lossy.eq_def]; simp [h, lead4_facts h, h1, h2]

theorem dec_l4_end3 {b0 b1 b2 : Nat} (h : isLead4 b0 = true) (h1 : secondOk b0 b1 = true)
    (h2 : isCont b2 = true) : decodeUtf8Lossy [b0, b1, b2] = [replacement] := by
  rw [decodeUtf8Lossy.eq_def]; simp [h, lead4_facts h, h1, h2]

theorem dec_l4_ok {b0 b1 b2 b3 : Nat} (r : List Nat) (h : isLead4 b0 = true) (h1 : secondOk b0 b1 = true)
    (h2 : isCont b2 = true) (h3 : isCont b3 = true) :
    decodeUtf8Lossy (b0 :: b1 :: b2 :: b3 :: r) = cp4 b0 b1 b2 b3 :: decodeUtf8Lossy r := by
  rw [decodeUtf8Lossy.eq_def]; simp [h, lead4_facts h, h1, h2, h3]

theorem dec_l4_bad3 {b0 b1 b2 b3 : Nat} (r : List Nat) (h : isLead4 b0 = true) (h1 : secondOk b0 b1 = true)
    (h2 : isCont b2 = true) (h3 : isCont b3 = false) :
    decodeUtf8Lossy (b0 :: b1 :: b2 :: b3 :: r) = replacement :: decodeUtf8Lossy (b3 :: r) := by
  rw [decodeUtf8Lossy.eq_def]; simp [h, lead4_facts h, h1, h2, h3]

theorem valid_ascii {b0 : Nat} (r : List Nat) (h : b0 < 0x80) : validUtf8 (b0 :: r) = validUtf8 r := by
  rw [validUtf8.eq_def]; simp [h]

theorem valid_bad {b0 : Nat} (r : List Nat) (h0 : ¬ b0 < 0x80) (h2 : isLead2 b0 = false) (h3 : isLead3 b0 = false)
    (h4 : isLead4 b0 = false) : validUtf8 (b0 :: r) = false := by
  rw [validUtf8.eq_def]; simp [h0, h2, h3, h4]

theorem valid_l2_end {b0 : Nat} (h : isLead2 b0 = true) : validUtf8 [b0] = false := by
  rw [validUtf8.eq_def]; simp [h, lead2_facts h]

theorem valid_l2 {b0 b1 : Nat} (r : List Nat) (h : isLead2 b0 = true) :
    validUtf8 (b0 :: b1 :: r) = (isCont b1 && validUtf8 r) := by
  rw [validUtf8.eq_def]; simp [h, lead2_facts h]

theorem valid_l3_end {b0 : Nat} (h : isLead3 b0 = true) : validUtf8 [b0] = false := by
  rw [validUtf8.eq_def]; simp [h, lead3_facts h]

theorem valid_l3_end2 {b0 b1 : Nat} (h : isLead3 b0 = true) : validUtf8 [b0, b1] = false := by
  rw [validUtf8.eq_def]; simp [h, lead3_facts h]

theorem valid_l3 {b0 b1 b2 : Nat} (r : List Nat) (h : isLead3 b0 = true) :
    validUtf8 (b0 :: b1 :: b2 :: r) = (secondOk b0 b1 && isCont b2 && validUtf8 r) := by
  rw [validUtf8.eq_def]; simp [h, lead3_facts h]

theorem valid_l4_end {b0 : Nat} (h : isLead4 b0 = true) : validUtf8 [b0] = false := by
  rw [validUtf8.eq_def]; simp [h, lead4_facts h]

theorem valid_l4_end2 {b0 b1 : Nat} (h : isLead4 b0 = true) : validUtf8 [b0, b1] = false := by
  rw [validUtf8.eq_def]; simp [h, lead4_facts h]

theorem valid_l4_end3 {b0 b1 b2 : Nat} (h : isLead4 b0 = true) : validUtf8 [b0, b1, b2] = false := by
  rw [validUtf8.eq_def]; simp [h, lead4_facts h]

theorem valid_l4 {b0 b1 b2 b3 : Nat} (r : List Nat) (h : isLead4 b0 = true) :
    validUtf8 (b0 :: b1 :: b2 :: b3 :: r) = (secondOk b0 b1 && isCont b2 && isCont b3 && validUtf8 r) := by
  rw [validUtf8.eq_def]; simp [h, lead4_facts h]

theorem utf16EncodeAll_append (a b : List Nat) :
    utf16EncodeAll (a ++ b) = utf16EncodeAll a ++ utf16EncodeAll b := by
  induction a with
  | nil => rfl
  | cons c cs ih => simp [utf16EncodeAll, ih]

/-- decoding is compositional after a well-formed prefix -/
theorem dec_append_valid (pre rest : List Nat) (h : validUtf8 pre = true) :
    decodeUtf8Lossy (pre ++ rest) = decodeUtf8Lossy pre ++ decodeUtf8Lossy rest := by
  fun_induction validUtf8 pre
  case case1 => simp [decodeUtf8Lossy]
  case case2 c cs h0 ih =>
    simp only [List.cons_append, dec_ascii _ h0, ih h]
  case case3 c _ hl b1 r1 ih =>
    simp only [Bool.and_eq_true] at h
    simp only [List.cons_append, dec_l2_ok _ hl h.1, ih h.2]
  case case4 => cases h
  case case5 c _ _ hl b1 b2 r2 ih =>
    simp only [Bool.and_eq_true] at h
    simp only [List.cons_append, dec_l3_ok _ hl h.1.1 h.1.2, ih h.2]
  case case6 => cases h
  case case7 c _ _ _ hl b1 b2 b3 r3 ih =>
    simp only [Bool.and_eq_true] at h
    simp only [List.cons_append, dec_l4_ok _ hl h.1.1.1 h.1.1.2 h.1.2, ih h.2]
  case case8 => cases h
  case case9 => cases h

/-! ## the fast path `convert_utf8_to_utf16_up_to_invalid` -/

/-- what the fast path guarantees when the destination is at least as long as the source -/
structure FastOk (src : List Nat) (r : Nat × List Nat) : Prop where
  read_le : r.1 ≤ src.length
  written_le : r.2.length ≤ r.1
  valid : validUtf8 (src.take r.1) = true
  exact : r.2 = utf16EncodeAll (decodeUtf8Lossy (src.take r.1))
  full_iff : r.1 = src.length ↔ validUtf8 src = true

theorem fastOk_stop (src : List Nat) (h : src = [] ∨ validUtf8 src = false) : FastOk src (0, []) := by
  refine ⟨by simp, by simp, by simp [validUtf8], by simp [decodeUtf8Lossy, utf16EncodeAll], ?_⟩
  rcases h with h | h
  · subst h; simp [validUtf8]
  · cases src with
    | nil => simp [validUtf8] at h
    | cons b r => simp [h]

theorem fastOk_step (pre rest' : List Nat) (k c : Nat) (w : List Nat) (r : Nat × List Nat)
    (hk : pre.length = k) (hw : w = utf16Encode c)
    (hdec : ∀ t, decodeUtf8Lossy (pre ++ t) = c :: decodeUtf8Lossy t)
    (hval : ∀ t, validUtf8 (pre ++ t) = validUtf8 t)
    (hlen : w.length ≤ k)
    (ih : FastOk rest' r) : FastOk (pre ++ rest') (step k w r) := by
  obtain ⟨i1, i2, i3, i4, i5⟩ := ih
  subst hk
  have htake : (pre ++ rest').take (pre.length + r.1) = pre ++ rest'.take r.1 := by
    rw [List.take_append]; simp [List.take_of_length_le]
  refine ⟨?_, ?_, ?_, ?_, ?_⟩
  · simp only [step, List.length_append]; omega
  · simp only [step, List.length_append]; omega
  · simp only [step, htake, hval, i3]
  · simp only [step, htake, hdec, utf16EncodeAll, ← i4, hw]
  · simp only [step, List.length_append, hval, ← i5]; omega

theorem valid_three_short (b0 : Nat) (r0 : List Nat) (h1 : ¬ b0 < 0x80) (hl2 : isLead2 b0 = false)
    (hlt : b0 < 0xF0) (hr : r0.length < 2) : validUtf8 (b0 :: r0) = false := by
  by_cases h3 : isLead3 b0 = true
  · match r0, hr with
    | [], _ => exact valid_l3_end h3
    | [b1], _ => exact valid_l3_end2 h3
    | _ :: _ :: _, hr => simp at hr; omega
  · exact valid_bad _ h1 hl2 (by simpa using h3) (by simp [isLead4]; omega)

theorem valid_four_short (b0 : Nat) (r0 : List Nat) (hge : 0xF0 ≤ b0) (hr : r0.length < 3) :
    validUtf8 (b0 :: r0) = false := by
  have hl2 : isLead2 b0 = false := by simp [isLead2]; omega
  have hl3 : isLead3 b0 = false := by simp [isLead3]; omega
  by_cases h4 : isLead4 b0 = true
  · match r0, hr with
    | [], _ => exact valid_l4_end h4
    | [b1], _ => exact valid_l4_end2 h4
    | [b1, b2], _ => exact valid_l4_end3 h4
    | _ :: _ :: _ :: _, hr => simp at hr; omega
  · exact valid_bad _ (by omega) hl2 hl3 (by simpa using h4)

theorem fast_run (n : Nat) : ∀ (src : List Nat) (free : Nat), src.length ≤ n → Bytes src → src.length ≤ free →
    FastOk src (utf8ToUtf16UpToInvalid src free) := by
  induction n with
  | zero =>
    intro src free hl _ _
    have : src = [] := List.eq_nil_of_length_eq_zero (by omega)
    subst this
    exact fastOk_stop [] (Or.inl rfl)
  | succ n ih =>
    intro src free hl h8 hfree
    cases src with
    | nil => exact fastOk_stop [] (Or.inl rfl)
    | cons b0 r0 =>
      have hb0 := h8.head
      have h8r := h8.tail
      have hlr : r0.length ≤ n := by simpa using hl
      have hf0 : ¬ free = 0 := by simp at hfree; omega
      rw [utf8ToUtf16UpToInvalid.eq_def]
      simp only [hf0, if_false]
      by_cases h1 : b0 < 0x80
      · simp only [h1, if_true]
        refine fastOk_step [b0] r0 1 b0 [b0] _ rfl (utf16Encode_bmp (by omega)).symm
          (fun t => dec_ascii t h1) (fun t => valid_ascii t h1) (by simp) (ih r0 _ hlr h8r (by simp at hfree; omega))
      · simp only [h1, if_false]
        by_cases h2 : 0xC2 ≤ b0 ∧ b0 ≤ 0xDF
        · have hl2 : isLead2 b0 = true := by simpa [isLead2] using h2
          simp only [h2, and_self, if_true]
          cases r0 with
          | nil => exact fastOk_stop _ (Or.inr (valid_l2_end hl2))
          | cons b1 r1 =>
            simp only []
            by_cases hc : 0x80 ≤ b1 ∧ b1 ≤ 0xBF
            · have hc1 : isCont b1 = true := by simpa [isCont] using hc
              simp only [hc, and_self, if_true]
              refine fastOk_step [b0, b1] r1 2 (cp2 b0 b1) _ _ rfl ?_
                (fun t => dec_l2_ok t hl2 hc1) (fun t => by rw [List.cons_append, List.cons_append, List.nil_append, valid_l2 t hl2, hc1, Bool.true_and]) (by simp)
                (ih r1 _ (by simp at hlr; omega) h8r.tail (by simp at hfree; omega))
              rw [dec2_eq b0 b1 hl2 hc1, utf16Encode_bmp (cp2_lt b0 b1 hl2 hc1)]
            · have hc1 : isCont b1 = false := by simpa [isCont] using hc
              simp only [hc, if_false]
              exact fastOk_stop _ (Or.inr (by rw [valid_l2 _ hl2, hc1]; rfl))
        · have hl2 : isLead2 b0 = false := by simpa [isLead2] using h2
          simp only [h2, if_false]
          by_cases h3 : b0 < 0xF0
          · simp only [h3, if_true]
            match r0, h8r, hlr, hfree with
            | [], _, _, _ => exact fastOk_stop _ (Or.inr (valid_three_short b0 _ h1 hl2 h3 (by simp)))
            | [b1], _, _, _ => exact fastOk_stop _ (Or.inr (valid_three_short b0 _ h1 hl2 h3 (by simp)))
            | b1 :: b2 :: r2, h8r, hlr, hfree =>
              simp only []
              have hb1 := h8r.head
              have hb2 := h8r.tail.head
              rw [threeOk_eq b0 b1 b2 hb0 hb1 hb2 (by omega) hl2 h3]
              by_cases hok : (isLead3 b0 && secondOk b0 b1 && isCont b2) = true
              · simp only [hok, if_true]
                simp only [Bool.and_eq_true] at hok
                obtain ⟨⟨hl3, hs⟩, hc2⟩ := hok
                have hc1 := secondOk_cont hs
                refine fastOk_step [b0, b1, b2] r2 3 (cp3 b0 b1 b2) _ _ rfl ?_
                  (fun t => dec_l3_ok t hl3 hs hc2)
                  (fun t => by
                    rw [List.cons_append, List.cons_append, List.cons_append, List.nil_append, valid_l3 t hl3, hs, hc2,
                      Bool.true_and, Bool.true_and]) (by simp)
                  (ih r2 _ (by simp at hlr; omega) h8r.tail.tail (by simp at hfree; omega))
                rw [dec3_eq b0 b1 b2 hl3 hc1 hc2, utf16Encode_bmp (cp3_lt b0 b1 b2 hl3 hc1 hc2)]
              · simp only [hok]
                refine fastOk_stop _ (Or.inr ?_)
                by_cases hl3 : isLead3 b0 = true
                · rw [valid_l3 _ hl3]
                  rw [hl3, Bool.true_and] at hok
                  simp only [Bool.not_eq_true] at hok
                  rw [hok, Bool.false_and]
                · exact valid_bad _ h1 hl2 (by simpa using hl3) (by simp [isLead4]; omega)
          · simp only [h3, if_false]
            have hge : 0xF0 ≤ b0 := by omega
            match r0, h8r, hlr, hfree with
            | [], _, _, _ => exact fastOk_stop _ (Or.inr (valid_four_short b0 _ hge (by simp)))
            | [b1], _, _, _ => exact fastOk_stop _ (Or.inr (valid_four_short b0 _ hge (by simp)))
            | [b1, b2], _, _, _ => exact fastOk_stop _ (Or.inr (valid_four_short b0 _ hge (by simp)))
            | b1 :: b2 :: b3 :: r3, h8r, hlr, hfree =>
              simp only []
              have hb1 := h8r.head
              have hb2 := h8r.tail.head
              have hb3 := h8r.tail.tail.head
              have hf1 : ¬ free = 1 := by simp at hfree; omega
              simp only [hf1, if_false]
              rw [fourOk_eq b0 b1 b2 b3 hb0 hb1 hb2 hb3 hge]
              by_cases hok : (isLead4 b0 && secondOk b0 b1 && isCont b2 && isCont b3) = true
              · simp only [hok, if_true]
                simp only [Bool.and_eq_true] at hok
                obtain ⟨⟨⟨hl4, hs⟩, hc2⟩, hc3⟩ := hok
                have hc1 := secondOk_cont hs
                refine fastOk_step [b0, b1, b2, b3] r3 4 (cp4 b0 b1 b2 b3) _ _ rfl ?_
                  (fun t => dec_l4_ok t hl4 hs hc2 hc3)
                  (fun t => by
                    rw [List.cons_append, List.cons_append, List.cons_append, List.cons_append, List.nil_append,
                      valid_l4 t hl4, hs, hc2, hc3, Bool.true_and, Bool.true_and, Bool.true_and]) (by simp [astralUnits])
                  (ih r3 _ (by simp at hlr; omega) h8r.tail.tail.tail (by simp at hfree; omega))
                rw [dec4_eq b0 b1 b2 b3 hl4 hc1 hc2 hc3, astral_eq _ (cp4_ge b0 b1 b2 b3 hl4 hs hc2 hc3)]
              · simp only [hok]
                refine fastOk_stop _ (Or.inr ?_)
                by_cases hl4 : isLead4 b0 = true
                · rw [valid_l4 _ hl4]
                  rw [hl4, Bool.true_and] at hok
                  simp only [Bool.not_eq_true] at hok
                  rw [hok, Bool.false_and]
                · exact valid_bad _ h1 (by simp [isLead2]; omega) (by simp [isLead3]; omega) (by simpa using hl4)

/-! ## `convert_utf8_to_utf16_without_replacement`, `convert_str_to_utf16` -/

theorem without_replacement_eq (src : List Nat) (cap : Nat) (h8 : ∀ b ∈ src, b < 256) (hcap : src.length ≤ cap) :
    convertUtf8ToUtf16WithoutReplacement src cap =
      if validUtf8 src then .ok (some (utf16EncodeAll (decodeUtf8Lossy src))) else .ok none := by
  have hrun := fast_run src.length src cap (Nat.le_refl _) h8 hcap
  unfold convertUtf8ToUtf16WithoutReplacement
  rw [if_neg (by omega)]
  simp only []
  generalize utf8ToUtf16UpToInvalid src cap = r at hrun ⊢
  obtain ⟨_, _, _, h4, h5⟩ := hrun
  by_cases he : r.1 = src.length
  · rw [if_pos he, if_pos (h5.mp he), h4, he, List.take_length]
  · have : ¬ validUtf8 src = true := fun h => he (h5.mpr h)
    rw [if_neg he, if_neg this]

theorem strLoop_eq (src : List Nat) (hv : validUtf8 src = true) :
    strToUtf16Loop src = utf16EncodeAll (decodeUtf8Lossy src) := by
  fun_induction validUtf8 src
  case case1 => simp [strToUtf16Loop, decodeUtf8Lossy, utf16EncodeAll]
  case case2 c cs h0 ih =>
    rw [strToUtf16Loop.eq_def]; simp only [h0, if_true]
    rw [dec_ascii _ h0, utf16EncodeAll, utf16Encode_bmp (by omega), ih hv]; rfl
  case case3 c h0 hl b1 r1 ih =>
    simp only [Bool.and_eq_true] at hv
    have hlt : c < 0xE0 := by simp [isLead2] at hl; omega
    rw [strToUtf16Loop.eq_def]; simp only [h0, hlt, if_true, if_false]
    rw [dec_l2_ok _ hl hv.1, utf16EncodeAll,
      utf16Encode_bmp (cp2_lt c b1 hl hv.1), ih hv.2, dec2_eq c b1 hl hv.1]; rfl
  case case4 => cases hv
  case case5 c h0 _ hl b1 b2 r2 ih =>
    simp only [Bool.and_eq_true] at hv
    obtain ⟨⟨hs, hc2⟩, hv⟩ := hv
    have hc1 := secondOk_cont hs
    have hlt : c < 0xF0 := by simp [isLead3] at hl; omega
    have hge : ¬ c < 0xE0 := by simp [isLead3] at hl; omega
    rw [strToUtf16Loop.eq_def]; simp only [h0, hge, hlt, if_true, if_false]
    rw [dec_l3_ok _ hl hs hc2, utf16EncodeAll,
      utf16Encode_bmp (cp3_lt c b1 b2 hl hc1 hc2), ih hv, dec3_eq c b1 b2 hl hc1 hc2]; rfl
  case case6 => cases hv
  case case7 c h0 _ _ hl b1 b2 b3 r3 ih =>
    simp only [Bool.and_eq_true] at hv
    obtain ⟨⟨⟨hs, hc2⟩, hc3⟩, hv⟩ := hv
    have hc1 := secondOk_cont hs
    have hge : ¬ c < 0xE0 := by simp [isLead4] at hl; omega
    have hge' : ¬ c < 0xF0 := by simp [isLead4] at hl; omega
    rw [strToUtf16Loop.eq_def]; simp only [h0, hge, hge', if_false]
    rw [dec_l4_ok _ hl hs hc2 hc3, utf16EncodeAll,
      ih hv, dec4_eq c b1 b2 b3 hl hc1 hc2 hc3, astral_eq _ (cp4_ge c b1 b2 b3 hl hs hc2 hc3)]
  case case8 => cases hv
  case case9 => cases hv

theorem str_eq (src : List Nat) (cap : Nat) (hv : validUtf8 src = true) (hcap : src.length ≤ cap) :
    convertStrToUtf16 src cap = .ok (utf16EncodeAll (decodeUtf8Lossy src)) := by
  unfold convertStrToUtf16
  rw [if_neg (by omega), strLoop_eq src hv]

/-! ## the decoder loop of `convert_utf8_to_utf16` -/

/-- pending decoder states: `pre` are the bytes consumed since the last output,
a proper prefix of a well-formed sequence -/
inductive Pend : List Nat → DecSt → Prop
  | l2 (b0 : Nat) (h : isLead2 b0 = true) : Pend [b0] ⟨1, 0, 0x80, 0xBF, b0 &&& 0x1F⟩
  | l3 (b0 : Nat) (h : isLead3 b0 = true) :
      Pend [b0] ⟨2, 0, if b0 = 0xE0 then 0xA0 else 0x80, if b0 = 0xED then 0x9F else 0xBF, b0 &&& 0xF⟩
  | l3b (b0 b1 : Nat) (h : isLead3 b0 = true) (h1 : secondOk b0 b1 = true) :
      Pend [b0, b1] ⟨2, 1, 0x80, 0xBF, ((b0 &&& 0xF) <<< 6) ||| (b1 &&& 0x3F)⟩
  | l4 (b0 : Nat) (h : isLead4 b0 = true) :
      Pend [b0] ⟨3, 0, if b0 = 0xF0 then 0x90 else 0x80, if b0 = 0xF4 then 0x8F else 0xBF, b0 &&& 0x7⟩
  | l4b (b0 b1 : Nat) (h : isLead4 b0 = true) (h1 : secondOk b0 b1 = true) :
      Pend [b0, b1] ⟨3, 1, 0x80, 0xBF, ((b0 &&& 0x7) <<< 6) ||| (b1 &&& 0x3F)⟩
  | l4c (b0 b1 b2 : Nat) (h : isLead4 b0 = true) (h1 : secondOk b0 b1 = true) (h2 : isCont b2 = true) :
      Pend [b0, b1, b2] ⟨3, 2, 0x80, 0xBF, ((((b0 &&& 0x7) <<< 6) ||| (b1 &&& 0x3F)) <<< 6) ||| (b2 &&& 0x3F)⟩

theorem second3 (b0 b1 : Nat) (h : isLead3 b0 = true) :
    ((if b0 = 0xE0 then 0xA0 else 0x80) ≤ b1 ∧ b1 ≤ (if b0 = 0xED then 0x9F else 0xBF)) ↔ secondOk b0 b1 = true := by
  simp only [isLead3, Bool.and_eq_true, decide_eq_true_eq] at h
  have h1 : ¬ b0 = 0xF0 := by omega
  have h2 : ¬ b0 = 0xF4 := by omega
  unfold secondOk
  by_cases e1 : b0 = 0xE0
  · subst e1; simp
  · by_cases e2 : b0 = 0xED
    · subst e2; simp
    · simp [e1, e2, h1, h2, isCont]

theorem second4 (b0 b1 : Nat) (h : isLead4 b0 = true) :
    ((if b0 = 0xF0 then 0x90 else 0x80) ≤ b1 ∧ b1 ≤ (if b0 = 0xF4 then 0x8F else 0xBF)) ↔ secondOk b0 b1 = true := by
  simp only [isLead4, Bool.and_eq_true, decide_eq_true_eq] at h
  have h1 : ¬ b0 = 0xE0 := by omega
  have h2 : ¬ b0 = 0xED := by omega
  unfold secondOk
  by_cases e1 : b0 = 0xF0
  · subst e1; simp
  · by_cases e2 : b0 = 0xF4
    · subst e2; simp
    · simp [e1, e2, h1, h2, isCont]

theorem cont_iff (b : Nat) : (0x80 ≤ b ∧ b ≤ 0xBF) ↔ isCont b = true := by simp [isCont]

/-- the units written when a sequence completes -/
def finalUnits (needed cp : Nat) : List Nat := if needed = 3 then astralUnits cp else [cp]

/-- what the main loop needs to know about a pending state -/
structure PendFacts (pre : List Nat) (st : DecSt) : Prop where
  needed_ne : st.needed ≠ 0
  nonempty : 1 ≤ pre.length
  at_end : decodeUtf8Lossy pre = [replacement]
  unread : ∀ b rest, ¬ (st.lower ≤ b ∧ b ≤ st.upper) →
    decodeUtf8Lossy (pre ++ b :: rest) = replacement :: decodeUtf8Lossy (b :: rest)
  cont : ∀ b, (st.lower ≤ b ∧ b ≤ st.upper) →
    (st.seen + 1 ≠ st.needed ∧
      Pend (pre ++ [b]) ⟨st.needed, st.seen + 1, 0x80, 0xBF, (st.cp <<< 6) ||| (b &&& 0x3F)⟩) ∨
    (st.seen + 1 = st.needed ∧ ∃ c, (∀ rest, decodeUtf8Lossy (pre ++ b :: rest) = c :: decodeUtf8Lossy rest) ∧
      finalUnits st.needed ((st.cp <<< 6) ||| (b &&& 0x3F)) = utf16Encode c)

theorem acc3_eq (b0 b1 b2 : Nat) (h0 : isLead3 b0 = true) (h1 : isCont b1 = true) (h2 : isCont b2 = true) :
    ((((b0 &&& 0xF) <<< 6) ||| (b1 &&& 0x3F)) <<< 6) ||| (b2 &&& 0x3F) = cp3 b0 b1 b2 := by
  simp only [isLead3, isCont, Bool.and_eq_true, decide_eq_true_eq] at h0 h1 h2
  rw [acc_eq, acc_eq, andF]
  unfold cp3; omega

theorem acc4_eq (b0 b1 b2 b3 : Nat) (h0 : isLead4 b0 = true) (h1 : isCont b1 = true) (h2 : isCont b2 = true)
    (h3 : isCont b3 = true) :
    ((((((b0 &&& 0x7) <<< 6) ||| (b1 &&& 0x3F)) <<< 6) ||| (b2 &&& 0x3F)) <<< 6) ||| (b3 &&& 0x3F) =
      cp4 b0 b1 b2 b3 := by
  simp only [isLead4, isCont, Bool.and_eq_true, decide_eq_true_eq] at h0 h1 h2 h3
  rw [acc_eq, acc_eq, acc_eq, and7]
  unfold cp4; omega

theorem pend_facts {pre : List Nat} {st : DecSt} (h : Pend pre st) : PendFacts pre st := by
  cases h with
  | l2 b0 h =>
    refine ⟨by simp, by simp, dec_l2_end h, ?_, ?_⟩
    · intro b rest hb
      exact dec_l2_bad rest h (by simpa [isCont] using hb)
    · intro b hb
      right
      have hc : isCont b = true := (cont_iff b).mp hb
      refine ⟨rfl, cp2 b0 b, fun rest => dec_l2_ok rest h hc, ?_⟩
      show [dec2 b0 b] = _
      rw [dec2_eq b0 b h hc, utf16Encode_bmp (cp2_lt b0 b h hc)]
  | l3 b0 h =>
    refine ⟨by simp, by simp, dec_l3_end h, ?_, ?_⟩
    · intro b rest hb
      exact dec_l3_bad1 rest h (by simpa using fun hs => hb ((second3 b0 b h).mpr hs))
    · intro b hb
      left
      exact ⟨by simp, Pend.l3b b0 b h ((second3 b0 b h).mp hb)⟩
  | l3b b0 b1 h h1 =>
    refine ⟨by simp, by simp, dec_l3_end2 h h1, ?_, ?_⟩
    · intro b rest hb
      exact dec_l3_bad2 rest h h1 (by simpa [isCont] using hb)
    · intro b hb
      right
      have hc : isCont b = true := (cont_iff b).mp hb
      have hc1 := secondOk_cont h1
      refine ⟨rfl, cp3 b0 b1 b, fun rest => dec_l3_ok rest h h1 hc, ?_⟩
      show [_] = _
      rw [acc3_eq b0 b1 b h hc1 hc, utf16Encode_bmp (cp3_lt b0 b1 b h hc1 hc)]
  | l4 b0 h =>
    refine ⟨by simp, by simp, dec_l4_end h, ?_, ?_⟩
    · intro b rest hb
      exact dec_l4_bad1 rest h (by simpa using fun hs => hb ((second4 b0 b h).mpr hs))
    · intro b hb
      left
      exact ⟨by simp, Pend.l4b b0 b h ((second4 b0 b h).mp hb)⟩
  | l4b b0 b1 h h1 =>
    refine ⟨by simp, by simp, dec_l4_end2 h h1, ?_, ?_⟩
    · intro b rest hb
      exact dec_l4_bad2 rest h h1 (by simpa [isCont] using hb)
    · intro b hb
      left
      exact ⟨by simp, Pend.l4c b0 b1 b h h1 ((cont_iff b).mp hb)⟩
  | l4c b0 b1 b2 h h1 h2 =>
    refine ⟨by simp, by simp, dec_l4_end3 h h1 h2, ?_, ?_⟩
    · intro b rest hb
      exact dec_l4_bad3 rest h h1 h2 (by simpa [isCont] using hb)
    · intro b hb
      right
      have hc : isCont b = true := (cont_iff b).mp hb
      have hc1 := secondOk_cont h1
      refine ⟨rfl, cp4 b0 b1 b2 b, fun rest => dec_l4_ok rest h h1 h2 hc, ?_⟩
      show astralUnits _ = _
      rw [acc4_eq b0 b1 b2 b h hc1 h2 hc, astral_eq _ (cp4_ge b0 b1 b2 b h h1 h2 hc)]

/-- **the loop invariant of `convert_utf8_to_utf16`**: from an idle state
(`pre = []`) or from a pending state that has consumed the proper prefix `pre`
of a well-formed sequence without writing anything for it, with more free
units than bytes left (counting `pre`) and enough fuel (an iteration that
"unreads" its byte resets the state, the next one consumes a byte), the loop
never panics and appends exactly the UTF-16 form of the lossy decoding of
`pre ++ src`. -/
theorem loop_ok (fuel : Nat) : ∀ (st : DecSt) (pre src : List Nat) (free : Nat) (out : List Nat),
    Bytes src →
    ((pre = [] ∧ st.needed = 0 ∧ 2 * src.length + 1 ≤ fuel) ∨ (Pend pre st ∧ 2 * src.length + 2 ≤ fuel)) →
    pre.length + src.length < free →
    utf8ToUtf16Loop fuel st src free out = .ok (out ++ utf16EncodeAll (decodeUtf8Lossy (pre ++ src))) := by
  induction fuel with
  | zero =>
    intro st pre src free out _ hst _
    rcases hst with ⟨_, _, h⟩ | ⟨_, h⟩ <;> omega
  | succ fuel ih =>
    intro st pre src free out h8 hst hfree
    rcases hst with ⟨rfl, hn, hf⟩ | ⟨hp, hf⟩
    · -- idle
      have hrun := fast_run src.length src free (Nat.le_refl _) h8 (by simp at hfree; omega)
      have hcomp := dec_append_valid (src.take (utf8ToUtf16UpToInvalid src free).1)
        (src.drop (utf8ToUtf16UpToInvalid src free).1) hrun.valid
      rw [List.take_append_drop] at hcomp
      rw [List.nil_append, hcomp, utf16EncodeAll_append, ← hrun.exact, ← List.append_assoc]
      rw [utf8ToUtf16Loop.eq_def]
      simp only [hn, if_true]
      have hb8 : Bytes (src.drop (utf8ToUtf16UpToInvalid src free).1) := h8.drop _
      have hlen : (src.drop (utf8ToUtf16UpToInvalid src free).1).length =
        src.length - (utf8ToUtf16UpToInvalid src free).1 := List.length_drop
      have hr1 := hrun.read_le
      have hr2 := hrun.written_le
      clear hrun hcomp
      generalize utf8ToUtf16UpToInvalid src free = r at *
      obtain ⟨r1, r2⟩ := r
      simp only at hb8 hlen hr1 hr2 ⊢
      generalize List.drop r1 src = s at *
      simp only [List.length_nil, Nat.zero_add] at hfree
      cases s with
      | nil => simp [decodeUtf8Lossy, utf16EncodeAll]
      | cons b rest =>
        simp only [List.length_cons] at hlen
        have hsp : ¬ ¬ 1 < free - r2.length := by omega
        simp only []
        rw [if_neg hsp]
        have hrepl : ∀ (o : List Nat) (t : List Nat),
            o ++ [65533] ++ utf16EncodeAll t = o ++ utf16EncodeAll (replacement :: t) := by
          intro o t; simp [utf16EncodeAll, utf16Encode, replacement]
        by_cases c1 : b < 0x80
        · rw [if_pos c1, ih st [] rest _ _ hb8.tail (Or.inl ⟨rfl, hn, by omega⟩) (by simp; omega)]
          rw [List.nil_append, dec_ascii _ c1, utf16EncodeAll, utf16Encode_bmp (by omega)]
          simp
        · rw [if_neg c1]
          by_cases c2 : b < 0xC2
          · rw [if_pos c2, ih .init [] rest _ _ hb8.tail (Or.inl ⟨rfl, rfl, by omega⟩) (by simp; omega)]
            rw [List.nil_append, hrepl, dec_bad rest c1 (by simp [isLead2]; omega) (by simp [isLead3]; omega)
              (by simp [isLead4]; omega)]
          · rw [if_neg c2]
            by_cases c3 : b < 0xE0
            · rw [if_pos c3]
              exact ih _ [b] rest _ _ hb8.tail (Or.inr ⟨Pend.l2 b (by simp [isLead2]; omega), by omega⟩)
                (by simp; omega)
            · rw [if_neg c3]
              by_cases c4 : b < 0xF0
              · rw [if_pos c4]
                exact ih _ [b] rest _ _ hb8.tail (Or.inr ⟨Pend.l3 b (by simp [isLead3]; omega), by omega⟩)
                  (by simp; omega)
              · rw [if_neg c4]
                by_cases c5 : b < 0xF5
                · rw [if_pos c5]
                  exact ih _ [b] rest _ _ hb8.tail (Or.inr ⟨Pend.l4 b (by simp [isLead4]; omega), by omega⟩)
                    (by simp; omega)
                · rw [if_neg c5, ih .init [] rest _ _ hb8.tail (Or.inl ⟨rfl, rfl, by omega⟩) (by simp; omega)]
                  rw [List.nil_append, hrepl, dec_bad rest c1 (by simp [isLead2]; omega) (by simp [isLead3]; omega)
                    (by simp [isLead4]; omega)]
    · -- pending
      have pf := pend_facts hp
      have hne := pf.needed_ne
      rw [utf8ToUtf16Loop.eq_def]
      simp only [hne, if_false, List.drop_zero, List.length_nil, Nat.sub_zero, List.append_nil]
      have hpre := pf.nonempty
      cases src with
      | nil =>
        simp only []
        have hf0 : ¬ free = 0 := by omega
        rw [if_pos hne, if_neg hf0, List.append_nil, pf.at_end]
        simp [utf16EncodeAll, utf16Encode, replacement]
      | cons b rest =>
        simp only [List.length_cons] at hfree hf
        have hsp : ¬ ¬ 1 < free := by omega
        simp only []
        rw [if_neg hsp]
        by_cases hr : st.lower ≤ b ∧ b ≤ st.upper
        · rw [if_neg (fun hn => hn hr)]
          rcases pf.cont b hr with ⟨hs, hp'⟩ | ⟨hs, c, hd, hu⟩
          · rw [if_pos hs, ih _ (pre ++ [b]) rest free out h8.tail (Or.inr ⟨hp', by omega⟩)
              (by simp only [List.length_append, List.length_cons, List.length_nil]; omega)]
            rw [List.append_assoc]; rfl
          · rw [if_neg (fun hn => hn hs), hd]
            unfold finalUnits at hu
            by_cases h3 : st.needed = 3
            · rw [if_pos h3] at hu
              rw [if_pos h3, ih .init [] rest _ _ h8.tail (Or.inl ⟨rfl, rfl, by omega⟩) (by simp; omega), hu]
              simp [utf16EncodeAll]
            · rw [if_neg h3] at hu
              rw [if_neg h3, ih .init [] rest _ _ h8.tail (Or.inl ⟨rfl, rfl, by omega⟩) (by simp; omega), hu]
              simp [utf16EncodeAll]
        · rw [if_pos hr, ih .init [] (b :: rest) _ _ h8 (Or.inl ⟨rfl, rfl, by simp only [List.length_cons]; omega⟩)
            (by simp; omega), pf.unread b rest hr]
          simp [utf16EncodeAll, utf16Encode, replacement]

/-! ## `convert_utf8_to_utf16` -/

theorem convert_eq (src : List Nat) (cap : Nat) (h8 : ∀ b ∈ src, b < 256) (hcap : src.length < cap) :
    convertUtf8ToUtf16 src cap = .ok (utf16EncodeAll (decodeUtf8Lossy src)) := by
  unfold convertUtf8ToUtf16
  rw [if_neg (by omega), loop_ok _ .init [] src cap [] h8 (Or.inl ⟨rfl, rfl, by omega⟩) (by simp; omega)]
  simp

/-! ## output length -/

theorem utf16Encode_length_le (c : Nat) : (utf16Encode c).length ≤ 2 := by
  unfold utf16Encode; split <;> simp

theorem enc_cons_len (c : Nat) (t : List Nat) :
    (utf16EncodeAll (c :: t)).length = (utf16Encode c).length + (utf16EncodeAll t).length := by
  simp [utf16EncodeAll]

theorem repl_len : (utf16Encode replacement).length = 1 := by decide

/-- the UTF-16 form of the lossy decoding never has more units than the source has bytes -/
theorem utf16_len_le (src : List Nat) : (utf16EncodeAll (decodeUtf8Lossy src)).length ≤ src.length := by
  fun_induction decodeUtf8Lossy src
  case case2 c cs h ih =>
    rw [enc_cons_len, utf16Encode_bmp (by omega)]; simp only [List.length_cons, List.length_nil]; omega
  case case4 b0 _ hl b1 cs hc ih =>
    rw [enc_cons_len, utf16Encode_bmp (cp2_lt b0 b1 hl hc)]; simp only [List.length_cons, List.length_nil]; omega
  case case8 b0 _ _ hl b1 hs b2 cs hc ih =>
    rw [enc_cons_len, utf16Encode_bmp (cp3_lt b0 b1 b2 hl (secondOk_cont hs) hc)]
    simp only [List.length_cons, List.length_nil]; omega
  case case14 b0 _ _ _ hl b1 hs b2 hc2 b3 cs hc3 ih =>
    have := utf16Encode_length_le (cp4 b0 b1 b2 b3)
    rw [enc_cons_len]; simp only [List.length_cons]; omega
  all_goals (try simp only [enc_cons_len, repl_len, List.length_cons] at *)
  all_goals (try (simp [utf16EncodeAll]; done))
  all_goals omega

end EncodingRs.Lemmas.MemUtf8
