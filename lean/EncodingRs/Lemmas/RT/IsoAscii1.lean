import EncodingRs.Lemmas.RoundTripIso
/-! C12: finite per-(state, character) round-trip obligation of ISO-2022-JP, evaluated by `native_decide` (see `Lemmas/RoundTripIso.lean`). -/
namespace EncodingRs.Lemmas.RoundTrip
open EncodingRs EncodingRs.Model

theorem iso_ascii_1 : isoCheckRange .ascii 0x4E00 0x1400 = true := by native_decide

end EncodingRs.Lemmas.RoundTrip
