import EncodingRs.Lemmas.RoundTripIso
/-! C12: finite per-(state, character) round-trip obligation of ISO-2022-JP, evaluated by `native_decide` (see `Lemmas/RoundTripIso.lean`). -/
namespace EncodingRs.Lemmas.RoundTrip
open EncodingRs EncodingRs.Model

theorem iso_jis0208_0 : isoCheckRange .jis0208 0x0 0x4E00 = true := by native_decide

theorem iso_jis0208_5 : isoCheckRange .jis0208 0x9FA1 0x605F = true := by native_decide

theorem iso_jis0208_astral : isoCheckRange .jis0208 0x10000 0x100000 = true := by native_decide

end EncodingRs.Lemmas.RoundTrip
