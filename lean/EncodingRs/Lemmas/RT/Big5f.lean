import EncodingRs.Lemmas.RoundTripChar
/-! C12: finite per-character round-trip obligation, evaluated by `native_decide` (see `Lemmas/RoundTripChar.lean`). -/
namespace EncodingRs.Lemmas.RoundTrip
open EncodingRs EncodingRs.Model

theorem big5_astral : checkRange big5Fam isInitOpt big5EncodeChar id 0x10000 0x100000 = true := by native_decide

end EncodingRs.Lemmas.RoundTrip
