import EncodingRs.Lemmas.RoundTripChar
/-! C12: finite per-character round-trip obligation, evaluated by `native_decide` (see `Lemmas/RoundTripChar.lean`). -/
namespace EncodingRs.Lemmas.RoundTrip
open EncodingRs EncodingRs.Model

theorem big5_bmp_4 : checkRange big5Fam isInitOpt big5EncodeChar id 0xD000 0x3000 = true := by native_decide

end EncodingRs.Lemmas.RoundTrip
