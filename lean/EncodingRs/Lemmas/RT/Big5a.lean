import EncodingRs.Lemmas.RoundTripChar
/-! C12: finite per-character round-trip obligation, evaluated by `native_decide` (see `Lemmas/RoundTripChar.lean`). -/
namespace EncodingRs.Lemmas.RoundTrip
open EncodingRs EncodingRs.Model

theorem big5_bmp_0 : checkRange big5Fam isInitOpt big5EncodeChar id 0x0000 0x3400 = true := by native_decide

end EncodingRs.Lemmas.RoundTrip
