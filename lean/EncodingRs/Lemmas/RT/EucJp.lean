import EncodingRs.Lemmas.RoundTripChar
/-! C12: finite per-character round-trip obligation, evaluated by `native_decide` (see `Lemmas/RoundTripChar.lean`). -/
namespace EncodingRs.Lemmas.RoundTrip
open EncodingRs EncodingRs.Model

theorem eucJp_bmp : checkRange eucJpFam isInitEucJp eucJpEncodeChar foldJis8 0 0x10000 = true := by native_decide

theorem eucJp_astral : checkRange eucJpFam isInitEucJp eucJpEncodeChar foldJis8 0x10000 0x100000 = true := by native_decide

end EncodingRs.Lemmas.RoundTrip
