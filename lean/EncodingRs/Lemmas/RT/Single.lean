import EncodingRs.Lemmas.RoundTripChar
/-! C12: finite per-character round-trip obligation, evaluated by `native_decide` (see `Lemmas/RoundTripChar.lean`). -/
namespace EncodingRs.Lemmas.RoundTrip
open EncodingRs EncodingRs.Model

theorem single_bmp : sbParams.all sbCheck = true := by native_decide

end EncodingRs.Lemmas.RoundTrip
