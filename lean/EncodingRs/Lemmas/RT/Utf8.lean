import EncodingRs.Lemmas.RoundTripChar
/-! C12: finite per-character round-trip obligation, evaluated by `native_decide` (see `Lemmas/RoundTripChar.lean`). -/
namespace EncodingRs.Lemmas.RoundTrip
open EncodingRs EncodingRs.Model

theorem utf8_bmp : checkRange utf8Fam isInitUtf8 utf8EncodeChar id 0 0x10000 = true := by native_decide

theorem utf8_astral : checkRange utf8Fam isInitUtf8 utf8EncodeChar id 0x10000 0x100000 = true := by native_decide

theorem userDefined_bmp : checkRange userDefinedFam isInitUnit userDefinedEncodeChar id 0 0x10000 = true := by native_decide

theorem userDefined_astral : checkRange userDefinedFam isInitUnit userDefinedEncodeChar id 0x10000 0x100000 = true := by native_decide

end EncodingRs.Lemmas.RoundTrip
