import EncodingRs.Lemmas.RoundTripChar
/-! C12: finite per-character round-trip obligation, evaluated by `native_decide` (see `Lemmas/RoundTripChar.lean`). -/
namespace EncodingRs.Lemmas.RoundTrip
open EncodingRs EncodingRs.Model

theorem shiftJis_bmp : checkRange shiftJisFam isInitOpt shiftJisEncodeChar foldJis8 0 0x10000 = true := by native_decide

theorem shiftJis_astral : checkRange shiftJisFam isInitOpt shiftJisEncodeChar foldJis8 0x10000 0x100000 = true := by native_decide

end EncodingRs.Lemmas.RoundTrip
