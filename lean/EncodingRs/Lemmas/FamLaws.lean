import EncodingRs.Model.Decoder
import EncodingRs.Lemmas.Core
/-! `Laws` for every decoder family (per-family obligations of DESIGN.md 3.2). -/
namespace EncodingRs.Lemmas.FamLaws
open EncodingRs.Model

/-- only error steps hand the byte back -/
def WF {σ} (r : FeedRes σ) : Prop := r.err = none → r.unread = false

theorem wf_ok {σ} (st : σ) (out : List Nat) : WF (FeedRes.ok st out) := fun _ => rfl
theorem wf_bad {σ} (st : σ) (l a : Nat) (u : Bool) : WF (FeedRes.bad st l a u) := by
  intro h; simp [FeedRes.bad] at h

/-- walk the `if`/`match`/`let` tree of a feed function down to its `.ok` / `.bad` leaves -/
macro "wf_tac" : tactic =>
  `(tactic| repeat' (first | with_reducible apply wf_ok | with_reducible apply wf_bad | split | simp only []))

theorem laws_of_no_pend (F : Fam) (hp : ∀ s, F.pend s = none) (ha : ∀ s src, F.alt s src = none)
    (hu : ∀ s b, WF (F.feed s b)) : Laws F where
  pend_err := fun _ _ _ _ => hp _
  pend_once := fun s o s' h => by rw [hp] at h; cases h
  noerr_unread := hu
  init_pend := hp _
  alt_sound := fun s src m r _ h => by rw [ha] at h; cases h

theorem singleByte_wf (t : Array Nat) (s : Unit) (b : Nat) : WF (singleByteFeed t s b) := by
  unfold singleByteFeed
  split
  · apply wf_ok
  · simp only []; split
    · apply wf_bad
    · apply wf_ok

theorem singleByte_laws (t : Array Nat) : Laws (singleByteFam t) :=
  laws_of_no_pend _ (fun _ => rfl) (fun _ _ => rfl) (singleByte_wf t)

theorem userDefined_wf (s : Unit) (b : Nat) : WF (userDefinedFeed s b) := by
  unfold userDefinedFeed; split <;> apply wf_ok

theorem userDefined_laws : Laws userDefinedFam :=
  laws_of_no_pend _ (fun _ => rfl) (fun _ _ => rfl) userDefined_wf

theorem replacement_wf (s : Bool) (b : Nat) : WF (replacementFeed s b) := by
  unfold replacementFeed; split
  · apply wf_ok
  · apply wf_bad

theorem replacement_laws : Laws replacementFam :=
  laws_of_no_pend _ (fun _ => rfl) (fun _ _ => rfl) replacement_wf

theorem utf8_wf (s : Utf8St) (b : Nat) : WF (utf8Feed s b) := by
  unfold utf8Feed
  wf_tac

theorem utf8_laws : Laws utf8Fam :=
  laws_of_no_pend _ (fun _ => rfl) (fun _ _ => rfl) utf8_wf

theorem twoByte_wf (lf : Nat → LeadRes) (tf : Nat → Nat → TrailRes) (s : Option Nat) (b : Nat) :
    WF (twoByteFeed lf tf s b) := by
  unfold twoByteFeed
  repeat' split
  all_goals first | apply wf_ok | apply wf_bad

theorem twoByte_laws (lf : Nat → LeadRes) (tf : Nat → Nat → TrailRes) (a : Bool) : Laws (twoByteFam lf tf a) :=
  laws_of_no_pend _ (fun _ => rfl) (fun _ _ => rfl) (twoByte_wf lf tf)

theorem eucJp_wf (s : EucJpSt) (b : Nat) : WF (eucJpFeed s b) := by
  cases s <;> (unfold eucJpFeed; simp only; wf_tac)

theorem eucJp_laws : Laws eucJpFam :=
  laws_of_no_pend _ (fun _ => rfl) (fun _ _ => rfl) eucJp_wf

theorem gb_wf (s : GbSt) (b : Nat) : WF (gbFeed s b) := by
  obtain ⟨p, pa⟩ := s
  cases p <;> (unfold gbFeed; simp only; wf_tac)

theorem iso_wf (s : Iso2022JpSt) (b : Nat) : WF (isoFeed s b) := by
  obtain ⟨ds, os, l, f, p⟩ := s
  cases ds <;> (unfold isoFeed; simp only; wf_tac)

theorem utf16_wf (be : Bool) (s : Utf16St) (b : Nat) : WF (utf16Feed be s b) := by
  unfold utf16Feed
  wf_tac

theorem gb_pendAscii_of_ok (s : GbSt) (b : Nat) (h : (gbFeed s b).err = none) :
    (gbFeed s b).st.pendingAscii = none := by
  obtain ⟨p, pa⟩ := s
  cases p <;> (unfold gbFeed at h ⊢; simp only at h ⊢)
  all_goals
    repeat' split
    all_goals first
      | rfl
      | (rename_i hx; simp_all [FeedRes.bad, FeedRes.ok])
      | simp_all [FeedRes.bad, FeedRes.ok]

theorem gb_laws : Laws gbFam where
  pend_err := by
    intro s b _ h
    show (match (gbFeed s b).st.pendingAscii with
      | some a => some ([a], (⟨(gbFeed s b).st.pending, none⟩ : GbSt))
      | none => none) = none
    rw [gb_pendAscii_of_ok s b h]
  pend_once := by
    intro s o s' h
    obtain ⟨p, pa⟩ := s
    cases pa with
    | none => cases h
    | some a => cases h; rfl
  noerr_unread := gb_wf
  init_pend := rfl
  alt_sound := fun s src m r _ h => by cases h

theorem iso_pp_of_ok (s : Iso2022JpSt) (b : Nat) (hp : s.pendingPrepended = false)
    (h : (isoFeed s b).err = none) : (isoFeed s b).st.pendingPrepended = false := by
  obtain ⟨ds, os, l, f, p⟩ := s
  simp only at hp; subst hp
  cases ds <;> (unfold isoFeed at h ⊢; simp only at h ⊢)
  all_goals
    repeat' split
    all_goals first
      | rfl
      | simp_all [FeedRes.bad, FeedRes.ok]

theorem iso_pend_none_iff (s : Iso2022JpSt) : isoPend s = none ↔ s.pendingPrepended = false := by
  unfold isoPend
  cases h : s.pendingPrepended
  · simp
  · simp only [if_true]; cases s.decoderState <;> simp

theorem iso_laws : Laws iso2022JpFam where
  pend_err := by
    intro s b hp h
    have hp' : s.pendingPrepended = false := (iso_pend_none_iff s).mp hp
    exact (iso_pend_none_iff _).mpr (iso_pp_of_ok s b hp' h)
  pend_once := by
    intro s o s' h
    apply (iso_pend_none_iff _).mpr
    have h' : isoPend s = some (o, s') := h
    unfold isoPend at h'
    cases hpp : s.pendingPrepended
    · simp [hpp] at h'
    · simp only [hpp, if_true] at h'
      cases hd : s.decoderState <;> simp only [hd, Option.some.injEq, Prod.mk.injEq] at h' <;> obtain ⟨_, rfl⟩ := h' <;> rfl
  noerr_unread := iso_wf
  init_pend := rfl
  alt_sound := fun s src m r _ h => by cases h

/-! UTF-16: delayed BMP unit, and the bulk path's look-ahead error -/

theorem utf16_pend_none_iff (s : Utf16St) (be : Bool) : (utf16Fam be).pend s = none ↔ s.pendingBmp = false := by
  show (if s.pendingBmp then some ([s.leadSurrogate], (⟨s.leadByte, 0, false⟩ : Utf16St)) else none) = none ↔ _
  cases s.pendingBmp <;> simp

theorem utf16_pb_of_ok (be : Bool) (s : Utf16St) (b : Nat) (hp : s.pendingBmp = false)
    (h : (utf16Feed be s b).err = none) : (utf16Feed be s b).st.pendingBmp = false := by
  revert h
  unfold utf16Feed
  cases s.leadByte with
  | none => intro _; exact hp
  | some lead =>
    simp only []
    repeat' split
    all_goals
      intro h
      first
        | rfl
        | simp [FeedRes.bad] at h

theorem utf16Feed_unread (be : Bool) (s : Utf16St) (b : Nat) : (utf16Feed be s b).unread = false := by
  unfold utf16Feed
  cases s.leadByte with
  | none => rfl
  | some lead => simp only []; repeat' split
                 all_goals rfl

open EncodingRs.Lemmas.Core in
/-- one step of the reference semantics from a state without delayed output -/
theorem utf16_ref_step (be : Bool) (s : Utf16St) (hpb : s.pendingBmp = false) (b : Nat) (X : List Nat) (pos : Nat) :
    ref (utf16Fam be) s (b :: X) pos =
      (utf16Feed be s b).out.map Ev.cp ++ errEv (pos+1) (utf16Feed be s b).err
        ++ ref (utf16Fam be) (utf16Feed be s b).st X (pos+1) := by
  have hp : (utf16Fam be).pend s = none := (utf16_pend_none_iff s be).mpr hpb
  rw [ref_cons (utf16Fam be) s b X pos hp]
  have : ((utf16Fam be).feed s b).unread = false := utf16Feed_unread be s b
  simp only [this, Bool.false_eq_true, if_false]
  rfl

open EncodingRs.Lemmas.Core in
theorem utf16_alt_sound (be : Bool) (s : Utf16St) (src : List Nat) (m : Nat) (r : FeedRes Utf16St)
    (h : utf16Alt be s src = some (m, r)) :
    m ≤ src.length ∧ ∃ e, r.err = some e ∧
    ∀ rest pos, r.out.map Ev.cp ++ mkErr (pos + m) e :: ref (utf16Fam be) r.st (src.drop m ++ rest) (pos + m)
      = ref (utf16Fam be) s (src ++ rest) pos := by
  unfold utf16Alt at h
  split at h
  · cases h
  · rename_i hneutral
    obtain ⟨lb, ls, pb⟩ := s
    have h1 : lb = none := by
      cases lb with
      | none => rfl
      | some x => exact absurd (Or.inl rfl) hneutral
    have h2 : ls = 0 := by
      cases Nat.decEq ls 0 with
      | isTrue h => exact h
      | isFalse h => exact absurd (Or.inr (Or.inl h)) hneutral
    have h3 : pb = false := by
      cases pb with
      | false => rfl
      | true => exact absurd (Or.inr (Or.inr rfl)) hneutral
    subst h1; subst h2; subst h3
    match src, h with
    | b0 :: b1 :: b2 :: b3 :: tl, h =>
      simp only at h
      split at h
      · rename_i hc
        obtain ⟨hu, hv⟩ := hc
        cases h
        refine ⟨by simp, (2, 0), rfl, ?_⟩
        intro rest pos
        have hune : utf16Unit be b0 b1 ≠ 0 := by
          intro h0; rw [h0] at hu; simp at hu
        simp only [FeedRes.bad, List.map_nil, List.nil_append, List.cons_append, List.drop_succ_cons,
          List.drop_zero]
        -- right-hand side: four per-byte steps
        rw [utf16_ref_step be ⟨none, 0, false⟩ rfl b0]
        have f0 : utf16Feed be ⟨none, 0, false⟩ b0 = FeedRes.ok ⟨some b0, 0, false⟩ [] := rfl
        rw [f0]
        simp only [FeedRes.ok, List.map_nil, errEv, List.nil_append]
        rw [utf16_ref_step be ⟨some b0, 0, false⟩ rfl b1]
        have f1 : utf16Feed be ⟨some b0, 0, false⟩ b1 = FeedRes.ok ⟨none, utf16Unit be b0 b1, false⟩ [] := by
          simp [utf16Feed, hu]
        rw [f1]
        simp only [FeedRes.ok, List.map_nil, errEv, List.nil_append]
        rw [utf16_ref_step be ⟨none, utf16Unit be b0 b1, false⟩ rfl b2]
        have f2 : utf16Feed be ⟨none, utf16Unit be b0 b1, false⟩ b2
            = FeedRes.ok ⟨some b2, utf16Unit be b0 b1, false⟩ [] := rfl
        rw [f2]
        simp only [FeedRes.ok, List.map_nil, errEv, List.nil_append]
        rw [utf16_ref_step be ⟨some b2, utf16Unit be b0 b1, false⟩ rfl b3]
        -- left-hand side: two per-byte steps
        rw [utf16_ref_step be utf16Init rfl b2]
        have g0 : utf16Feed be utf16Init b2 = FeedRes.ok ⟨some b2, 0, false⟩ [] := rfl
        rw [g0]
        simp only [FeedRes.ok, List.map_nil, errEv, List.nil_append]
        rw [utf16_ref_step be ⟨some b2, 0, false⟩ rfl b3]
        by_cases hv36 : utf16Unit be b2 b3 / 0x400 = 0x36
        · have f3 : utf16Feed be ⟨some b2, utf16Unit be b0 b1, false⟩ b3
              = FeedRes.bad ⟨none, utf16Unit be b2 b3, false⟩ 2 2 := by
            simp [utf16Feed, hv36, hune]
          have g1 : utf16Feed be ⟨some b2, 0, false⟩ b3 = FeedRes.ok ⟨none, utf16Unit be b2 b3, false⟩ [] := by
            simp [utf16Feed, hv36]
          rw [f3, g1]
          simp only [FeedRes.ok, FeedRes.bad, List.map_nil, errEv, List.nil_append, mkErr, List.cons_append]
          congr 2 <;> omega
        · have f3 : utf16Feed be ⟨some b2, utf16Unit be b0 b1, false⟩ b3
              = FeedRes.bad ⟨none, utf16Unit be b2 b3, true⟩ 2 2 := by
            simp [utf16Feed, hv36, hv, hune]
          have g1 : utf16Feed be ⟨some b2, 0, false⟩ b3 = FeedRes.ok ⟨none, 0, false⟩ [utf16Unit be b2 b3] := by
            simp [utf16Feed, hv36, hv]
          rw [f3, g1]
          simp only [FeedRes.ok, FeedRes.bad, List.map_nil, errEv, List.nil_append, mkErr, List.cons_append,
            List.map_cons]
          have hflush : ∀ (X : List Nat) (p : Nat),
              ref (utf16Fam be) ⟨none, utf16Unit be b2 b3, true⟩ X p
                = [Ev.cp (utf16Unit be b2 b3)] ++ ref (utf16Fam be) ⟨none, 0, false⟩ X p := by
            intro X p
            exact ref_flush' (utf16Fam be) ⟨none, utf16Unit be b2 b3, true⟩ [utf16Unit be b2 b3]
              ⟨none, 0, false⟩ X p rfl rfl
          rw [hflush]
          simp only [List.cons_append, List.nil_append]
          congr 2 <;> omega
      · cases h

theorem utf16_laws (be : Bool) : Laws (utf16Fam be) where
  pend_err := by
    intro s b hp h
    exact (utf16_pend_none_iff _ be).mpr (utf16_pb_of_ok be s b ((utf16_pend_none_iff s be).mp hp) h)
  pend_once := by
    intro s o s' h
    have h' : (if s.pendingBmp then some ([s.leadSurrogate], (⟨s.leadByte, 0, false⟩ : Utf16St)) else none)
        = some (o, s') := h
    cases hpb : s.pendingBmp
    · simp [hpb] at h'
    · simp only [hpb, if_true, Option.some.injEq, Prod.mk.injEq] at h'
      obtain ⟨_, rfl⟩ := h'
      rfl
  noerr_unread := utf16_wf be
  init_pend := rfl
  alt_sound := fun s src m r _ h => utf16_alt_sound be s src m r h

/-- every encoding's variant decoder satisfies the laws -/
theorem famOfVariant_laws (v : Gen.Variant) : Laws (famOfVariant v) := by
  cases v with
  | singleByte t a b c => exact singleByte_laws _
  | utf8 => exact utf8_laws
  | gbk => exact gb_laws
  | gb18030 => exact gb_laws
  | big5 => exact twoByte_laws _ _ _
  | eucJp => exact eucJp_laws
  | iso2022Jp => exact iso_laws
  | shiftJis => exact twoByte_laws _ _ _
  | eucKr => exact twoByte_laws _ _ _
  | replacement => exact replacement_laws
  | utf16Be => exact utf16_laws true
  | utf16Le => exact utf16_laws false
  | userDefined => exact userDefined_laws

end EncodingRs.Lemmas.FamLaws
