import EncodingRs.Spec.Decode
import EncodingRs.Lemmas.Core
/-!
# C01: the generic simulation lemma (DESIGN.md 3.3)

`Sim F D`: a correspondence between a decoder family `F` (the model of the Rust
decoder) and a decoder `D` of the Standard (`Spec/Decode.lean`) *with held bytes*:
`held s` are the bytes the model has consumed in state `s` that the Standard's
decoder would still (or again, after a "restore") have at the head of its I/O queue.
Every model micro-step — flush of the delayed output, `feed b`, end of stream — is
matched by at most 8 iterations of the Standard's loop (16 for the whole
end-of-stream chain) producing the same events.  `sim_run` (induction following the
recursion of `ref`) concludes that the whole runs agree and counts the iterations, so
that the fuel of the executable `Spec.Decode.run` provably suffices.
-/
set_option linter.unusedSimpArgs false
namespace EncodingRs.Lemmas.Conform
open EncodingRs EncodingRs.Model EncodingRs.Spec.Decode EncodingRs.Lemmas.Core

structure Sim (F : Fam) (D : Decoder) where
  Inv : F.σ → Prop
  σ_of : F.σ → D.σ
  held : F.σ → List Nat
  /-- how far "restore" may move the read position back in this state: a lower bound on the
  position that the runs maintain (the Standard's position arithmetic is on `Nat`) -/
  back : F.σ → Nat
  init_back : back F.init = 0
  init_inv : Inv F.init
  init_st : σ_of F.init = D.init
  init_held : held F.init = []
  rank_le : ∀ s, Inv s → F.rank s ≤ 15
  /-- flushing the delayed output -/
  flush : ∀ s o s', Inv s → F.pend s = some (o, s') →
    Inv s' ∧ F.pend s' = none ∧
    ∀ (rest : List Nat) (p : Nat), back s ≤ p → ∃ n p', n ≤ 8 ∧ p' + (held s').length = p + (held s).length ∧
      back s' ≤ p' ∧
      Steps D n ⟨σ_of s, held s ++ rest, p⟩ (o.map Ev.cp) ⟨σ_of s', held s' ++ rest, p'⟩
  /-- one byte -/
  feed : ∀ s b, Inv s → F.pend s = none → b < 256 →
    Inv (F.feed s b).st ∧
    ∀ (rest : List Nat) (p : Nat), back s ≤ p → ∃ n p', n ≤ 8 ∧
      p' + (held (F.feed s b).st).length = p + (held s).length + (if (F.feed s b).unread = true then 0 else 1) ∧
      back (F.feed s b).st ≤ p' ∧
      Steps D n ⟨σ_of s, held s ++ b :: rest, p⟩
        ((F.feed s b).out.map Ev.cp ++
          errEv (p + (held s).length + (if (F.feed s b).unread = true then 0 else 1)) (F.feed s b).err)
        ⟨σ_of (F.feed s b).st, held (F.feed s b).st ++ (if (F.feed s b).unread = true then b :: rest else rest), p'⟩
  /-- the end of the stream (flush, end-of-stream errors, until the Standard's decoder says `finished`) -/
  fin : ∀ s, Inv s → ∀ p, back s ≤ p → ∃ n c', n ≤ 16 ∧
    Steps D n ⟨σ_of s, held s, p⟩ (ref F s [] (p + (held s).length)) c' ∧ stepFn D c' = none

/-- decide every `if` whose condition `omega` can settle from the context -/
macro "ifs_omega" : tactic => `(tactic| simp (disch := omega) only [if_pos, if_neg])

variable {F : Fam} {D : Decoder}

theorem flush_steps (S : Sim F D) (s : F.σ) (hi : S.Inv s) (X : List Nat) (p : Nat) (hbk : S.back s ≤ p) :
    ∃ (s1 : F.σ) (ev : List Ev) (n p1 : Nat), S.Inv s1 ∧ F.pend s1 = none ∧ F.rank s1 ≤ F.rank s ∧ n ≤ 8 ∧
      p1 + (S.held s1).length = p + (S.held s).length ∧ S.back s1 ≤ p1 ∧
      Steps D n ⟨S.σ_of s, S.held s ++ X, p⟩ ev ⟨S.σ_of s1, S.held s1 ++ X, p1⟩ ∧
      ∀ stream pos, ref F s stream pos = ev ++ ref F s1 stream pos := by
  cases hp : F.pend s with
  | none =>
    exact ⟨s, [], 0, p, hi, hp, Nat.le_refl _, by omega, rfl, hbk, .refl _, fun _ _ => rfl⟩
  | some q =>
    obtain ⟨o, s'⟩ := q
    obtain ⟨hi', hp', hst⟩ := S.flush s o s' hi hp
    obtain ⟨n, p', hn, hpos, hbk', hsteps⟩ := hst X p hbk
    exact ⟨s', o.map Ev.cp, n, p', hi', hp', F.pend_rank s o s' hp, hn, hpos, hbk', hsteps,
      fun stream pos => ref_flush' F s o s' stream pos hp' hp⟩

theorem sim_run (S : Sim F D) : ∀ (stream : List Nat), (∀ b ∈ stream, b < 256) →
    ∀ (r : Nat) (s : F.σ), F.rank s ≤ r → S.Inv s → ∀ p : Nat, S.back s ≤ p →
      ∃ n c', n ≤ 16 * (16 * stream.length + r) + 16 ∧
        Steps D n ⟨S.σ_of s, S.held s ++ stream, p⟩ (ref F s stream (p + (S.held s).length)) c' ∧
        stepFn D c' = none := by
  intro stream
  induction stream with
  | nil =>
    intro _ r s _ hi p hbk
    obtain ⟨n, c', hn, hs, hf⟩ := S.fin s hi p hbk
    refine ⟨n, c', by omega, ?_, hf⟩
    simpa using hs
  | cons b rest ih =>
    intro hb r
    have hb0 : b < 256 := hb b (List.mem_cons_self ..)
    have hbr : ∀ x ∈ rest, x < 256 := fun x hx => hb x (List.mem_cons_of_mem _ hx)
    induction r using Nat.strongRecOn with
    | ind r ihr =>
      intro s hr hi p hbk
      obtain ⟨s1, evF, nF, p1, hi1, hp1, hrk1, hnF, hpos1, hbk1, hstF, hrefF⟩ :=
        flush_steps S s hi (b :: rest) p hbk
      obtain ⟨hi2, hfeed⟩ := S.feed s1 b hi1 hp1 hb0
      obtain ⟨n2, p2, hn2, hpos2, hbk2, hst2⟩ := hfeed rest p1 hbk1
      rw [hrefF, ref_cons F s1 b rest _ hp1]
      have hposeq : p1 + (S.held s1).length = p + (S.held s).length := hpos1
      by_cases hu : (F.feed s1 b).unread = true
      · -- the byte is handed back: same stream, smaller rank
        simp only [hu, if_true, Nat.add_zero] at hpos2 hst2 ⊢
        have hrk2 := F.unread_rank s1 b hu
        have hr2 : F.rank (F.feed s1 b).st ≤ r - 1 := by omega
        obtain ⟨n3, c', hn3, hst3, hf3⟩ := ihr (r - 1) (by omega) (F.feed s1 b).st hr2 hi2 p2 hbk2
        refine ⟨nF + n2 + n3, c', ?_, ?_, hf3⟩
        · simp only [List.length_cons] at hn3 ⊢; omega
        · rw [hpos2, hposeq] at hst3
          rw [hposeq] at hst2
          rw [← hposeq]
          rw [hposeq]
          have := Steps_trans D (Steps_trans D hstF hst2) hst3
          simpa [List.append_assoc] using this
      · -- the byte is consumed
        simp only [hu, Bool.false_eq_true, if_false] at hpos2 hst2 ⊢
        obtain ⟨n3, c', hn3, hst3, hf3⟩ := ih hbr 15 (F.feed s1 b).st (S.rank_le _ hi2) hi2 p2 hbk2
        refine ⟨nF + n2 + n3, c', ?_, ?_, hf3⟩
        · simp only [List.length_cons] at hn3 ⊢; omega
        · rw [hpos2, hposeq] at hst3
          rw [hposeq] at hst2
          have := Steps_trans D (Steps_trans D hstF hst2) hst3
          simpa [List.append_assoc] using this

/-- **the simulation lemma**: the reference semantics of the model is the output of the
Standard's decoder — as the relation `Runs` and as the executable `run` -/
theorem sim_conforms (S : Sim F D) (bytes : List Nat) (hb : ∀ b ∈ bytes, b < 256) :
    Runs D bytes (ref F F.init bytes 0) ∧ ref F F.init bytes 0 = Spec.Decode.run D bytes := by
  obtain ⟨n, c', hn, hs, hf⟩ := sim_run S bytes hb 15 F.init (S.rank_le _ S.init_inv) S.init_inv 0 (by rw [S.init_back]; omega)
  rw [S.init_st, S.init_held] at hs
  simp only [List.nil_append, List.length_nil, Nat.add_zero] at hs
  refine ⟨⟨n, c', hs, hf⟩, ?_⟩
  unfold Spec.Decode.run
  rw [runFuel_complete D n _ c' _ hs hf (fuelFor bytes.length) (by unfold fuelFor; omega)]
  rfl

/-! ## the one-to-one special case

No held bytes, no delayed output: one model step = one iteration of the Standard's loop. -/

/-- the Standard's result `a` denotes the model's outputs / error -/
def actMatches (a : Action) (out : List Nat) (err : Option (Nat × Nat)) : Bool :=
  match a, err with
  | .continue, none => out.isEmpty
  | .emit cps, none => cps == out
  | .error l af, some e => out.isEmpty && l == e.1 && af == e.2
  | _, _ => false

theorem actMatches_sound {a : Action} {out : List Nat} {err : Option (Nat × Nat)} (h : actMatches a out err = true) :
    a ≠ .finished ∧ ∀ pos, evsOf a pos = out.map Ev.cp ++ errEv pos err := by
  unfold actMatches at h
  split at h
  · simp only [List.isEmpty_iff] at h; subst h
    exact ⟨by simp, fun _ => rfl⟩
  · simp only [beq_iff_eq] at h; subst h
    exact ⟨by simp, fun _ => by simp [evsOf, errEv]⟩
  · rename_i l af e
    simp only [Bool.and_eq_true, List.isEmpty_iff, beq_iff_eq] at h
    obtain ⟨⟨h1, h2⟩, h3⟩ := h
    subst h1; subst h2; subst h3
    exact ⟨by simp, fun _ => by simp [evsOf, errEv, mkErr]⟩
  · cases h

/-- the handler's answer to byte `b` is the model's step result `r` -/
def stepMatches {σ τ : Type} [DecidableEq τ] (σ_of : σ → τ) (h : HRes τ) (r : FeedRes σ) (b : Nat) : Bool :=
  decide (h.st = σ_of r.st) && decide (h.restore = (if r.unread = true then [b] else [])) && actMatches h.act r.out r.err

structure Sim1 (F : Fam) (D : Decoder) [DecidableEq D.σ] where
  Inv : F.σ → Prop
  σ_of : F.σ → D.σ
  no_pend : ∀ s, F.pend s = none
  init_inv : Inv F.init
  init_st : σ_of F.init = D.init
  rank_le : ∀ s, Inv s → F.rank s ≤ 15
  feed : ∀ s b, Inv s → b < 256 → Inv (F.feed s b).st ∧ stepMatches σ_of (D.handler (σ_of s) (some b)) (F.feed s b) b = true
  eof : ∀ s, Inv s →
    match F.eof s with
    | none => (D.handler (σ_of s) none).act = .finished
    | some (e, s') =>
      (D.handler (σ_of s) none).act = .error e.1 e.2 ∧ (D.handler (σ_of s) none).restore = [] ∧
      (D.handler (D.handler (σ_of s) none).st none).act = .finished ∧ F.eof s' = none

theorem step_one (D : Decoder) (st : D.σ) (b : Nat) (rest : List Nat) (p : Nat)
    (hne : (D.handler st (some b)).act ≠ .finished) :
    Steps D 1 ⟨st, b :: rest, p⟩ (evsOf (D.handler st (some b)).act (p + 1 - (D.handler st (some b)).restore.length))
      ⟨(D.handler st (some b)).st, (D.handler st (some b)).restore ++ rest, p + 1 - (D.handler st (some b)).restore.length⟩ := by
  have h : stepFn D ⟨st, b :: rest, p⟩ = some (⟨(D.handler st (some b)).st, (D.handler st (some b)).restore ++ rest,
      p + 1 - (D.handler st (some b)).restore.length⟩,
      evsOf (D.handler st (some b)).act (p + 1 - (D.handler st (some b)).restore.length)) := by
    simp [stepFn, stepItem, hne]
  have := Steps.step h (.refl _)
  simpa using this

theorem steps_byte (D : Decoder) {st : D.σ} {b : Nat} {rest : List Nat} {p : Nat} {r : HRes D.σ}
    (h : D.handler st (some b) = r) (hne : r.act ≠ .finished) :
    Steps D 1 ⟨st, b :: rest, p⟩ (evsOf r.act (p + 1 - r.restore.length))
      ⟨r.st, r.restore ++ rest, p + 1 - r.restore.length⟩ := by
  subst h
  exact step_one D st b rest p hne

/-- a one-step match (no held bytes before or after) in the form `Sim.feed` asks for -/
theorem feed_of_stepMatches {σ : Type} (D : Decoder) [DecidableEq D.σ] (σ_of : σ → D.σ) (st : D.σ) (r : FeedRes σ)
    (b : Nat) (hm : stepMatches σ_of (D.handler st (some b)) r b = true) (rest : List Nat) (p : Nat) :
    Steps D 1 ⟨st, b :: rest, p⟩
      (r.out.map Ev.cp ++ errEv (p + (if r.unread = true then 0 else 1)) r.err)
      ⟨σ_of r.st, (if r.unread = true then b :: rest else rest), p + (if r.unread = true then 0 else 1)⟩ := by
  unfold stepMatches at hm
  simp only [Bool.and_eq_true, decide_eq_true_eq] at hm
  obtain ⟨⟨hst, hres⟩, hact⟩ := hm
  obtain ⟨hne, hev⟩ := actMatches_sound hact
  have h1 := step_one D st b rest p hne
  rw [hst, hres, hev] at h1
  by_cases hu : r.unread = true
  · simp only [hu, if_true, List.length_singleton, Nat.add_sub_cancel, List.nil_append, List.length_nil,
      Nat.add_zero, List.cons_append] at h1 ⊢
    exact h1
  · simp only [hu, Bool.false_eq_true, if_false, List.length_nil, Nat.sub_zero, List.nil_append,
      Nat.add_zero] at h1 ⊢
    exact h1

theorem step_eof (D : Decoder) (st : D.σ) (p : Nat)
    (hne : (D.handler st none).act ≠ .finished) :
    Steps D 1 ⟨st, [], p⟩ (evsOf (D.handler st none).act (p - (D.handler st none).restore.length))
      ⟨(D.handler st none).st, (D.handler st none).restore ++ [], p - (D.handler st none).restore.length⟩ := by
  have h : stepFn D ⟨st, [], p⟩ = some (⟨(D.handler st none).st, (D.handler st none).restore ++ [],
      p - (D.handler st none).restore.length⟩,
      evsOf (D.handler st none).act (p - (D.handler st none).restore.length)) := by
    simp [stepFn, stepItem, hne]
  have := Steps.step h (.refl _)
  simpa using this

theorem fin_eof (D : Decoder) (st : D.σ) (p : Nat) (h : (D.handler st none).act = .finished) :
    stepFn D ⟨st, [], p⟩ = none := by
  simp [stepFn, stepItem, h]

def Sim1.toSim {F : Fam} {D : Decoder} [DecidableEq D.σ] (S : Sim1 F D) : Sim F D where
  Inv := S.Inv
  σ_of := S.σ_of
  held := fun _ => []
  back := fun _ => 0
  init_back := rfl
  init_inv := S.init_inv
  init_st := S.init_st
  init_held := rfl
  rank_le := S.rank_le
  flush := by
    intro s o s' _ h
    rw [S.no_pend] at h; cases h
  feed := by
    intro s b hi _ hb
    obtain ⟨hi', hm⟩ := S.feed s b hi hb
    refine ⟨hi', ?_⟩
    intro rest p _
    unfold stepMatches at hm
    simp only [Bool.and_eq_true, decide_eq_true_eq] at hm
    obtain ⟨⟨hst, hres⟩, hact⟩ := hm
    obtain ⟨hne, hev⟩ := actMatches_sound hact
    have h1 := step_one D (S.σ_of s) b rest p hne
    rw [hst, hres, hev] at h1
    by_cases hu : (F.feed s b).unread = true
    · simp only [hu, if_true, List.length_singleton, Nat.add_sub_cancel, List.nil_append, List.length_nil,
        Nat.add_zero, List.cons_append] at h1 ⊢
      exact ⟨1, p, by omega, rfl, Nat.zero_le _, h1⟩
    · simp only [hu, Bool.false_eq_true, if_false, List.length_nil, Nat.sub_zero, List.nil_append,
        Nat.add_zero] at h1 ⊢
      exact ⟨1, p + 1, by omega, rfl, Nat.zero_le _, h1⟩
  fin := by
    intro s hi p _
    have hp := S.no_pend s
    have he := S.eof s hi
    simp only [List.length_nil, Nat.add_zero]
    rw [ref_nil F s p hp]
    cases hE : F.eof s with
    | none =>
      rw [hE] at he
      exact ⟨0, _, by omega, .refl _, fin_eof D _ p he⟩
    | some q =>
      obtain ⟨e, s'⟩ := q
      rw [hE] at he
      obtain ⟨h1, h2, h3, h4⟩ := he
      simp only
      rw [ref_nil F s' p (S.no_pend s'), h4]
      have hne : (D.handler (S.σ_of s) none).act ≠ .finished := by rw [h1]; simp
      have hs := step_eof D (S.σ_of s) p hne
      rw [h1, h2] at hs
      simp only [List.length_nil, Nat.sub_zero, List.append_nil, evsOf] at hs
      exact ⟨1, _, by omega, hs, fin_eof D _ p h3⟩

theorem sim1_conforms {F : Fam} {D : Decoder} [DecidableEq D.σ] (S : Sim1 F D) (bytes : List Nat)
    (hb : ∀ b ∈ bytes, b < 256) :
    Runs D bytes (ref F F.init bytes 0) ∧ ref F F.init bytes 0 = Spec.Decode.run D bytes :=
  sim_conforms S.toSim bytes hb

end EncodingRs.Lemmas.Conform
