import EncodingRs.Model.EncFam
/-!
Per-family obligations of the encoder models (`Model/EncFam.lean`):

* `estep_wf`: a step that hands the character back (`unread`) never reports
  `Unmappable` (for every variant; mirror of `FamLaws.WF` for decoders);
* the facts about the faithful ISO-2022-JP step `isoEncStep` that replace the
  state-only `unread_rank` (which cannot hold for it, see `Model/EncFam.lean`):
  `isoEncStep_again_once` / `isoEncStep_rank` (character-dependent rank), and the
  relation between `isoEncStep` and the merged step used by `iso2022JpEFam`.
-/
namespace EncodingRs.Lemmas.EncFam
open EncodingRs.Model

/-- only steps without an `Unmappable` report hand the character back -/
def EWF {σ} (r : EStep σ) : Prop := r.unread = true → r.unmappable = none

theorem ewf_ok {σ} (st : σ) (out : List Nat) : EWF (EStep.ok st out) := fun _ => rfl
theorem ewf_again {σ} (st : σ) (out : List Nat) : EWF (EStep.again st out) := fun _ => rfl
theorem ewf_unmap {σ} (st : σ) (c : Nat) (out : List Nat) : EWF (EStep.unmap st c out) := by
  intro h; simp [EStep.unmap] at h

/-- walk the `if`/`match`/`let` tree of a step function down to its `.ok` / `.unmap` / `.again` leaves -/
macro "ewf_tac" : tactic =>
  `(tactic| repeat' (first
      | with_reducible apply ewf_ok
      | with_reducible apply ewf_again
      | with_reducible apply ewf_unmap
      | split
      | simp only []))

theorem ewf_of_not_unread {σ} (r : EStep σ) (h : r.unread = false) : EWF r := by
  intro h'; rw [h] at h'; cases h'

theorem stateless_wf (enc : Nat → Option (List Nat)) (s : Unit) (c : Nat) : EWF (statelessStep enc s c) :=
  ewf_of_not_unread _ (statelessStep_unread enc s c)

theorem singleByte_ewf (t : Array Nat) (a b l : Nat) (s : Unit) (c : Nat) :
    EWF ((singleByteEFam t a b l).step s c) := stateless_wf _ s c
theorem userDefined_ewf (s : Unit) (c : Nat) : EWF (userDefinedEFam.step s c) := stateless_wf _ s c
theorem utf8_ewf (s : Unit) (c : Nat) : EWF (utf8EFam.step s c) := stateless_wf _ s c
theorem big5_ewf (s : Unit) (c : Nat) : EWF (big5EFam.step s c) := stateless_wf _ s c
theorem eucKr_ewf (s : Unit) (c : Nat) : EWF (eucKrEFam.step s c) := stateless_wf _ s c
theorem eucJp_ewf (s : Unit) (c : Nat) : EWF (eucJpEFam.step s c) := stateless_wf _ s c
theorem shiftJis_ewf (s : Unit) (c : Nat) : EWF (shiftJisEFam.step s c) := stateless_wf _ s c
theorem gb_ewf (extended : Bool) (s : Unit) (c : Nat) : EWF ((gbEFam extended).step s c) := stateless_wf _ s c

/-! ### ISO-2022-JP -/

/-- the faithful step: `.again` and `Unmappable` exclude each other -/
theorem isoEncStep_wf (s : IsoEncSt) (c : Nat) : EWF (isoEncStep s c) := by
  cases s <;> (unfold isoEncStep; simp only; ewf_tac)

theorem isoEncStepMerged_wf (s : IsoEncSt) (c : Nat) : EWF (isoEncStepMerged s c) :=
  ewf_of_not_unread _ (isoEncStepMerged_unread s c)

theorem iso2022Jp_ewf (s : IsoEncSt) (c : Nat) : EWF (iso2022JpEFam.step s c) := isoEncStep_wf s c

/-- the merged step is the faithful step when nothing is handed back … -/
theorem isoEncStepMerged_of_not_unread (s : IsoEncSt) (c : Nat) (h : (isoEncStep s c).unread = false) :
    isoEncStepMerged s c = isoEncStep s c := by
  unfold isoEncStepMerged
  simp [h]

/-- … and otherwise the `.again` step followed by the (consuming) step on the same character -/
theorem isoEncStepMerged_of_unread (s : IsoEncSt) (c : Nat) (h : (isoEncStep s c).unread = true) :
    (isoEncStepMerged s c).st = (isoEncStep (isoEncStep s c).st c).st
    ∧ (isoEncStepMerged s c).out = (isoEncStep s c).out ++ (isoEncStep (isoEncStep s c).st c).out
    ∧ (isoEncStepMerged s c).unmappable = (isoEncStep (isoEncStep s c).st c).unmappable
    ∧ (isoEncStep (isoEncStep s c).st c).unread = false := by
  refine ⟨?_, ?_, ?_, isoEncStep_again_once s c h⟩ <;> (unfold isoEncStepMerged; simp [h])

/-- an escape sequence is exactly three bytes: an `.again` step writes three bytes -/
theorem isoEncStep_again_out (s : IsoEncSt) (c : Nat) :
    (isoEncStep s c).unread = true → (isoEncStep s c).out.length = 3 := by
  suffices h : ∀ r : EStep IsoEncSt, r = isoEncStep s c → r.unread = true → r.out.length = 3 from h _ rfl
  intro r hr
  cases s <;>
  · unfold isoEncStep at hr
    simp only at hr
    repeat' split at hr
    all_goals
      subst hr
      first
        | (intro _; rfl)
        | (intro h; simp [EStep.ok, EStep.unmap] at h; done)

/-- `has_pending_state` is "state ≠ Ascii", and the `eof` block returns to Ascii
writing `ESC ( B` exactly in that case -/
theorem isoEncEof_spec (s : IsoEncSt) :
    (isoEncEof s).2 = .ascii ∧ (isoEncEof s).1 = (if isoEncHasPending s then escAscii else []) := by
  cases s <;> exact ⟨rfl, rfl⟩

/-! ### the space check suffices: a step never writes more than `need` bytes -/

/-- every result of a per-character encode function has at most `n` bytes -/
def OutLe (n : Nat) (o : Option (List Nat)) : Prop := ∀ bs, o = some bs → bs.length ≤ n

theorem outLe_none (n : Nat) : OutLe n none := by intro bs h; cases h
theorem outLe_some (n : Nat) (bs : List Nat) (h : bs.length ≤ n) : OutLe n (some bs) := by
  intro bs' h'; cases h'; exact h

theorem big5BytesOfPointer_length (p o : Nat) : (big5BytesOfPointer p o).length = 2 := rfl
theorem bytes94_length (p a b : Nat) : (bytes94 p a b).length = 2 := rfl
theorem gb18030FourBytes_length (p : Nat) : (gb18030FourBytes p).length = 4 := rfl
theorem encodeUtf8_length_le (c : Nat) : (encodeUtf8 c).length ≤ 4 := by
  unfold encodeUtf8; repeat' split
  all_goals exact Nat.le_of_ble_eq_true rfl

theorem outLe_ite (n : Nat) (p : Prop) [Decidable p] (a b : Option (List Nat)) (ha : OutLe n a) (hb : OutLe n b) :
    OutLe n (if p then a else b) := by
  split <;> assumption

/-- walk an encode function down to its `some […]` / `none` leaves -/
macro "outle_tac" : tactic =>
  `(tactic| repeat' (first
      | with_reducible apply outLe_none
      | (with_reducible apply outLe_some; exact Nat.le_of_ble_eq_true rfl)
      | with_reducible apply outLe_ite
      | split
      | simp only []))

theorem singleByte_outLe (t : Array Nat) (a b l c : Nat) : OutLe 1 (singleByteEncodeChar t a b l c) := by
  unfold singleByteEncodeChar; outle_tac
theorem userDefined_outLe (c : Nat) : OutLe 1 (userDefinedEncodeChar c) := by
  unfold userDefinedEncodeChar; outle_tac
theorem utf8_outLe (c : Nat) : OutLe 4 (utf8EncodeChar c) :=
  outLe_some _ _ (encodeUtf8_length_le c)
theorem big5Astral_outLe (c : Nat) : OutLe 2 (big5EncodeAstral c) := by
  unfold big5EncodeAstral
  generalize big5AstralEncode (c % 65536) = ast
  outle_tac
theorem big5BmpOf_outLe (l1 : Option (Nat × Nat)) (ptr : Option Nat) : OutLe 2 (big5EncodeBmpOf l1 ptr) := by
  unfold big5EncodeBmpOf
  outle_tac
theorem big5Bmp_outLe (c : Nat) : OutLe 2 (big5EncodeBmp c) := by
  unfold big5EncodeBmp
  exact big5BmpOf_outLe _ _
theorem big5_outLe (c : Nat) : OutLe 2 (big5EncodeChar c) := by
  unfold big5EncodeChar
  apply outLe_ite
  · exact outLe_some _ _ (Nat.le_of_ble_eq_true rfl)
  · apply outLe_ite
    · exact big5Astral_outLe c
    · exact big5Bmp_outLe c
theorem eucKr_outLe (c : Nat) : OutLe 2 (eucKrEncodeChar c) := by
  unfold eucKrEncodeChar eucKrEncodeBmp; outle_tac
theorem eucJp_outLe (c : Nat) : OutLe 2 (eucJpEncodeChar c) := by
  unfold eucJpEncodeChar eucJpEncodeBmp; outle_tac
theorem shiftJis_outLe (c : Nat) : OutLe 2 (shiftJisEncodeChar c) := by
  unfold shiftJisEncodeChar shiftJisEncodeBmp
  -- keep the table lookups opaque for the kernel
  generalize shiftJisEncodeKanji c = k
  generalize shiftJisOtherPointer c = ptr
  outle_tac
theorem gb_outLe (extended : Bool) (c : Nat) : OutLe 4 (gbEncodeChar extended c) := by
  unfold gbEncodeChar gbEncodeAstral gbEncodeBmp; outle_tac
theorem iso2022JpTwoByte_outLe (c : Nat) : OutLe 2 (iso2022JpEncodeTwoByte c) := by
  unfold iso2022JpEncodeTwoByte; outle_tac

/-- the UTF-8 encoder's step writes exactly what its (exact) space check asks for -/
theorem utf8_out_le_need (s : Unit) (c : Nat) : (utf8EFam.step s c).out.length ≤ utf8EFam.need s c :=
  Nat.le_refl _

theorem stateless_out_le (enc : Nat → Option (List Nat)) (n : Nat) (h : ∀ c, OutLe n (enc c)) (s : Unit) (c : Nat) :
    (statelessStep enc s c).out.length ≤ n := by
  unfold statelessStep
  split
  · rename_i bs hbs; exact h c bs hbs
  · exact Nat.zero_le _

/-- the faithful ISO-2022-JP step writes at most three bytes (`check_space_three`) -/
theorem isoEncStep_out_le (s : IsoEncSt) (c : Nat) : (isoEncStep s c).out.length ≤ 3 := by
  cases s
  · unfold isoEncStep; simp only; repeat' split
    all_goals exact Nat.le_of_ble_eq_true rfl
  · unfold isoEncStep; simp only; repeat' split
    all_goals exact Nat.le_of_ble_eq_true rfl
  · unfold isoEncStep; simp only
    generalize h : iso2022JpEncodeTwoByte c = o
    cases o with
    | none =>
      dsimp only; repeat' split
      all_goals exact Nat.le_of_ble_eq_true rfl
    | some bs =>
      have hb := iso2022JpTwoByte_outLe c bs h
      dsimp only; repeat' split
      all_goals first
        | exact Nat.le_of_ble_eq_true rfl
        | (show bs.length ≤ 3; omega)

theorem isoEncStepMerged_out_le (s : IsoEncSt) (c : Nat) :
    (isoEncStepMerged s c).out.length ≤ (if (isoEncStep s c).unread = true then 6 else 3) := by
  cases h : (isoEncStep s c).unread
  · rw [isoEncStepMerged_of_not_unread s c h]; simpa using isoEncStep_out_le s c
  · have h2 := (isoEncStepMerged_of_unread s c h).2.1
    rw [h2, List.length_append]
    have a := isoEncStep_out_le s c
    have b := isoEncStep_out_le (isoEncStep s c).st c
    simp only [if_true]
    omega

/-- the `eof` block writes at most `eofNeed` bytes -/
theorem isoEncEof_out_le (s : IsoEncSt) : (isoEncEof s).1.length ≤ iso2022JpEFam.eofNeed s := by
  cases s <;> decide

/-! ### all variants -/

theorem estep_wf (v : Gen.Variant) (s : (efamOfVariant v).σ) (c : Nat) :
    ((efamOfVariant v).step s c).unread = true → ((efamOfVariant v).step s c).unmappable = none := by
  cases v with
  | singleByte t a b l => exact singleByte_ewf _ a b l s c
  | utf8 => exact utf8_ewf s c
  | gbk => exact gb_ewf false s c
  | gb18030 => exact gb_ewf true s c
  | big5 => exact big5_ewf s c
  | eucJp => exact eucJp_ewf s c
  | iso2022Jp => exact iso2022Jp_ewf s c
  | shiftJis => exact shiftJis_ewf s c
  | eucKr => exact eucKr_ewf s c
  | replacement => exact utf8_ewf s c
  | utf16Be => exact utf8_ewf s c
  | utf16Le => exact utf8_ewf s c
  | userDefined => exact userDefined_ewf s c

/-- for every variant: a step writes at most `need` bytes, the end-of-stream block at most `eofNeed` -/
theorem estep_out_le_need (v : Gen.Variant) (s : (efamOfVariant v).σ) (c : Nat) :
    ((efamOfVariant v).step s c).out.length ≤ (efamOfVariant v).need s c := by
  cases v with
  | iso2022Jp => exact isoEncStep_out_le s c
  | singleByte t a b l => exact stateless_out_le _ 1 (singleByte_outLe _ a b l) s c
  | utf8 => exact utf8_out_le_need s c
  | gbk => exact stateless_out_le _ 4 (gb_outLe false) s c
  | gb18030 => exact stateless_out_le _ 4 (gb_outLe true) s c
  | big5 => exact stateless_out_le _ 2 big5_outLe s c
  | eucJp => exact stateless_out_le _ 2 eucJp_outLe s c
  | shiftJis => exact stateless_out_le _ 2 shiftJis_outLe s c
  | eucKr => exact stateless_out_le _ 2 eucKr_outLe s c
  | replacement => exact utf8_out_le_need s c
  | utf16Be => exact utf8_out_le_need s c
  | utf16Le => exact utf8_out_le_need s c
  | userDefined => exact stateless_out_le _ 1 userDefined_outLe s c

theorem eeof_out_le_need (v : Gen.Variant) (s : (efamOfVariant v).σ) :
    ((efamOfVariant v).eof s).1.length ≤ (efamOfVariant v).eofNeed s := by
  cases v with
  | iso2022Jp => exact isoEncEof_out_le s
  | _ => exact Nat.le_refl 0

theorem stateless_ascii (enc : Nat → Option (List Nat)) (s : Unit) (c : Nat) (he : enc c = some [c]) :
    (statelessStep enc s c).out = [c] ∧ (statelessStep enc s c).unmappable = none := by
  unfold statelessStep; rw [he]; exact ⟨rfl, rfl⟩

/-- every encoder except ISO-2022-JP's passes ASCII through unchanged -/
theorem estep_ascii (v : Gen.Variant) (hv : v ≠ .iso2022Jp) (s : (efamOfVariant v).σ) (c : Nat) (h : c < 0x80) :
    ((efamOfVariant v).step s c).out = [c] ∧ ((efamOfVariant v).step s c).unmappable = none := by
  cases v with
  | iso2022Jp => exact absurd rfl hv
  | singleByte t a b l => exact stateless_ascii _ s c (by unfold singleByteEncodeChar; rw [if_pos h])
  | utf8 => exact stateless_ascii _ s c (by unfold utf8EncodeChar encodeUtf8; rw [if_pos h])
  | gbk => exact stateless_ascii _ s c (by unfold gbEncodeChar; rw [if_pos h])
  | gb18030 => exact stateless_ascii _ s c (by unfold gbEncodeChar; rw [if_pos h])
  | big5 => exact stateless_ascii _ s c (by unfold big5EncodeChar; rw [if_pos h])
  | eucJp => exact stateless_ascii _ s c (by unfold eucJpEncodeChar; rw [if_pos h])
  | shiftJis => exact stateless_ascii _ s c (by unfold shiftJisEncodeChar; rw [if_pos h])
  | eucKr => exact stateless_ascii _ s c (by unfold eucKrEncodeChar; rw [if_pos h])
  | replacement => exact stateless_ascii _ s c (by unfold utf8EncodeChar encodeUtf8; rw [if_pos h])
  | utf16Be => exact stateless_ascii _ s c (by unfold utf8EncodeChar encodeUtf8; rw [if_pos h])
  | utf16Le => exact stateless_ascii _ s c (by unfold utf8EncodeChar encodeUtf8; rw [if_pos h])
  | userDefined => exact stateless_ascii _ s c (by unfold userDefinedEncodeChar; rw [if_pos (by omega)])

end EncodingRs.Lemmas.EncFam
