import EncodingRs.Lemmas.ConformEnc
/-!
# C03: the GBK and gb18030 encoders of the model are the Standard's, for every code point

Complete evaluation over all code points `< 0x110000` (`native_decide`): model over the
tables regenerated from `/repo/src/data.rs` and `gb18030_2022.rs`, Standard over the vendored
index gb18030 (GB18030-2022), index gb18030 ranges and the 18-row table of the encoder.
Both values of `is GBK` are evaluated in the same pass.
-/
namespace EncodingRs.Lemmas.ConformEnc
open EncodingRs EncodingRs.Model EncodingRs.Spec.Encode

def gbInv : Array Nat := mkInverse Spec.indexGb18030 0x10000

theorem gbInv_checks :
    checkEntries Spec.indexGb18030 gbInv = true ∧ checkInverse Spec.indexGb18030 gbInv = true := by
  native_decide

theorem gb_ptr : indexPointer Spec.indexGb18030 = invLookup gbInv :=
  funext (indexPointer_eq_invLookup _ _ gbInv_checks.1 gbInv_checks.2)

/-- `is GBK` of the Standard is `!extended` of `Gb18030Encoder` -/
def gbCheck (c : Nat) : Bool :=
  decide (gb18030With (invLookup gbInv) true c = resOf (gbEncodeChar false c) c)
    && decide (gb18030With (invLookup gbInv) false c = resOf (gbEncodeChar true c) c)

end EncodingRs.Lemmas.ConformEnc
