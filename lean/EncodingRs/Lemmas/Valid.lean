import EncodingRs.Model.Valid
import EncodingRs.Spec.Utf8
/-!
Helper lemmas for C14 (validators): stride kernels = linear search, the
`UTF8_DATA` table test = Table 3-7, step-function soundness of the loop models.
-/
namespace EncodingRs.Lemmas.Valid
open EncodingRs EncodingRs.Model.Valid EncodingRs.Spec

/-! ### stride kernels -/

theorem locate_all (ok : Nat → Bool) (l : List Nat) (c : Nat) (h : l.all ok = true) : locate ok l c = none := by
  induction l generalizing c with
  | nil => rfl
  | cons b r ih =>
    simp only [List.all_cons, Bool.and_eq_true] at h
    simp only [locate, h.1, if_true]
    exact ih _ h.2

theorem locate_append_all (ok : Nat → Bool) (pre post : List Nat) (c : Nat) (h : pre.all ok = true) :
    locate ok (pre ++ post) c = locate ok post (c + pre.length) := by
  induction pre generalizing c with
  | nil => simp
  | cons b r ih =>
    simp only [List.all_cons, Bool.and_eq_true] at h
    simp only [List.cons_append, locate, h.1, if_true, List.length_cons]
    rw [ih _ h.2]; congr 1; omega

theorem locate_append_not_all (ok : Nat → Bool) (pre post : List Nat) (c : Nat) (h : pre.all ok = false) :
    locate ok (pre ++ post) c = locate ok pre c := by
  induction pre generalizing c with
  | nil => simp at h
  | cons b r ih =>
    simp only [List.cons_append, locate]
    by_cases hb : ok b = true
    · simp only [hb, if_true]
      apply ih
      simpa [hb] using h
    · simp [hb]

/-- **Any** block plan computes the plain linear search. -/
theorem blockScan_eq_locate (ok : Nat → Bool) (plan : List Nat) (c : Nat) (bs : List Nat) :
    blockScan ok plan c bs = locate ok bs c := by
  induction plan generalizing c bs with
  | nil => rfl
  | cons n plan ih =>
    simp only [blockScan]
    by_cases h : (bs.take n).all ok = true
    · simp only [h, if_true]
      rw [ih]
      by_cases hn : n ≤ bs.length
      · conv => rhs; rw [← List.take_append_drop n bs]
        rw [locate_append_all ok _ _ _ h, List.length_take, Nat.min_eq_left hn]
      · have h1 : bs.drop n = [] := List.drop_eq_nil_of_le (by omega)
        have h2 : bs.take n = bs := List.take_of_length_le (by omega)
        rw [h1, locate_all ok bs c (h2 ▸ h)]; rfl
    · have h' : (bs.take n).all ok = false := by simpa using h
      simp only [h', Bool.false_eq_true, if_false]
      conv => rhs; rw [← List.take_append_drop n bs]
      rw [locate_append_not_all ok _ _ _ h']

/-- what `locate` returns, in terms of the specification's `firstIdx` -/
theorem locate_pos (ok : Nat → Bool) (bs : List Nat) (c : Nat) :
    (match locate ok bs c with
     | some (_, pos) => pos
     | none => c + bs.length) = c + firstIdx (fun b => !ok b) bs := by
  induction bs generalizing c with
  | nil => rfl
  | cons b r ih =>
    simp only [locate, firstIdx]
    by_cases hb : ok b = true
    · simp only [hb, if_true, Bool.not_true, Bool.false_eq_true, if_false, List.length_cons]
      have := ih (c + 1); rw [show c + (r.length + 1) = c + 1 + r.length by omega]; rw [this]; omega
    · simp [hb]

/-- decomposition of the input at the located offender -/
theorem locate_some (ok : Nat → Bool) (bs : List Nat) (c b i : Nat) (h : locate ok bs c = some (b, i)) :
    ∃ pre post, bs = pre ++ b :: post ∧ pre.all ok = true ∧ ok b = false ∧ i = c + pre.length := by
  induction bs generalizing c with
  | nil => simp [locate] at h
  | cons x r ih =>
    simp only [locate] at h
    by_cases hx : ok x = true
    · simp only [hx, if_true] at h
      obtain ⟨pre, post, h1, h2, h3, h4⟩ := ih _ h
      exact ⟨x :: pre, post, by simp [h1], by simp [hx, h2], h3, by simp [h4]; omega⟩
    · simp only [hx, Bool.false_eq_true, if_false, Option.some.injEq, Prod.mk.injEq] at h
      exact ⟨[], r, by simp [h.1], rfl, by rw [← h.1]; simpa using hx, by simp [h.2]⟩

theorem locate_none (ok : Nat → Bool) (bs : List Nat) (c : Nat) (h : locate ok bs c = none) : bs.all ok = true := by
  induction bs generalizing c with
  | nil => rfl
  | cons x r ih =>
    simp only [locate] at h
    by_cases hx : ok x = true
    · simp only [hx, if_true] at h
      simp [hx, ih _ h]
    · simp [hx] at h

theorem firstIdx_congr (p q : Nat → Bool) (bs : List Nat) (h : ∀ b ∈ bs, p b = q b) : firstIdx p bs = firstIdx q bs := by
  induction bs with
  | nil => rfl
  | cons b r ih =>
    simp only [firstIdx]
    rw [h b (by simp), ih (fun x hx => h x (by simp [hx]))]

theorem iso2022JpLoop_eq (bs : List Nat) (i : Nat) :
    iso2022JpLoop bs i = i + firstIdx (fun b => 0x80 ≤ b || b == 0x0E || b == 0x0F || b == 0x1B) bs := by
  induction bs generalizing i with
  | nil => rfl
  | cons b r ih =>
    simp only [iso2022JpLoop, firstIdx]
    by_cases h : (b ≥ 0x80 || b == 0x1B || b == 0x0E || b == 0x0F) = true
    · have h2 : (decide (0x80 ≤ b) || b == 0x0E || b == 0x0F || b == 0x1B) = true := by
        simp only [Bool.or_eq_true, decide_eq_true_eq, beq_iff_eq, ge_iff_le] at h ⊢; omega
      simp [h, h2]
    · have h2 : (decide (0x80 ≤ b) || b == 0x0E || b == 0x0F || b == 0x1B) = false := by
        simp only [Bool.or_eq_true, decide_eq_true_eq, beq_iff_eq, ge_iff_le, not_or, Bool.or_eq_false_iff, decide_eq_false_iff_not, beq_eq_false_iff_ne] at h ⊢; omega
      simp only [h, h2, Bool.false_eq_true, if_false]
      rw [ih]; omega


/-! ### the generated `UTF8_DATA` table -/

/-- what a (lead, second) pair must satisfy: `x` is `table[second] & table[lead + 0x80]` -/
def pairOk (lead second x : Nat) : Bool :=
  x % 4 == 0 && decide (x < 256) &&
  (if lead < 0xC2 then x != 0
   else if lead ≤ 0xDF then true
   else if lead < 0xF0 then (x == 0) == second3Ok lead second
   else (x == 0) == second4Ok lead second)

/-- the whole generated table, every lead `80..FF` × every second byte `00..FF` -/
def tableCheck : Bool :=
  (Gen.utf8DataTable.drop 256).zipIdx.all fun (m, i) =>
    (Gen.utf8DataTable.take 256).zipIdx.all fun (s, second) => pairOk (i + 0x80) second (s &&& m)

theorem tableCheck_ok : tableCheck = true := by decide +kernel

theorem table_len : Gen.utf8DataTable.length = 384 := by decide +kernel

theorem pair_ok (lead second : Nat) (hl : 0x80 ≤ lead) (hl2 : lead < 256) (hs : second < 256) :
    pairOk lead second (tbl second &&& tbl (lead + 0x80)) = true := by
  have h := tableCheck_ok
  unfold tableCheck at h
  rw [List.all_eq_true] at h
  have hm : (tbl (lead + 0x80), lead - 0x80) ∈ (Gen.utf8DataTable.drop 256).zipIdx := by
    rw [List.mem_zipIdx_iff_getElem?]
    simp only [List.getElem?_drop, tbl, List.getD_eq_getElem?_getD]
    have : 256 + (lead - 0x80) = lead + 0x80 := by omega
    rw [this]
    have : lead + 0x80 < Gen.utf8DataTable.length := by rw [table_len]; omega
    simp [List.getElem?_eq_getElem this]
  have h1 := h _ hm
  simp only at h1
  rw [List.all_eq_true] at h1
  have hs' : (tbl second, second) ∈ (Gen.utf8DataTable.take 256).zipIdx := by
    rw [List.mem_zipIdx_iff_getElem?]
    simp only [tbl, List.getD_eq_getElem?_getD]
    have : second < Gen.utf8DataTable.length := by rw [table_len]; omega
    simp [hs, List.getElem?_eq_getElem this]
  have h2 := h1 _ hs'
  simp only at h2
  have : lead - 0x80 + 0x80 = lead := by omega
  rw [this] at h2
  exact h2

theorem or3 : ∀ k < 64, ∀ t < 4, ((4 * k ||| t) = 2 ↔ (k = 0 ∧ t = 2)) := by decide +kernel
theorem or4 : ∀ k < 64, ∀ t3 < 4, ∀ t4 < 4,
    ((4 * k ||| t3 ||| ((t4 * 64) <<< 2)) = 0x202 ↔ (k = 0 ∧ t3 = 2 ∧ t4 = 2)) := by decide +kernel
theorem and_c0 : ∀ b < 256, b &&& 0xC0 = b / 64 * 64 := by decide +kernel
theorem and_c0_cont : ∀ b < 256, ((b &&& 0xC0 != 0x80) = !(isCont b)) := by decide +kernel

/-! ### the table tests as Table 3-7 conditions -/

theorem inRange8_iff (i s e : Nat) (hi : i < 256) (hse : s ≤ e) (he : e < 256) :
    inInclusiveRange8 i s e = true ↔ (s ≤ i ∧ i ≤ e) := by
  simp only [inInclusiveRange8, decide_eq_true_eq]
  omega

theorem isCont_iff (b : Nat) : isCont b = true ↔ (0x80 ≤ b ∧ b ≤ 0xBF) := by
  simp [isCont]

theorem threeByteTest_ne (lead second third : Nat) (hl : 0x80 ≤ lead) (hl2 : lead < 0xF0)
    (hn : ¬(0xC2 ≤ lead ∧ lead ≤ 0xDF)) (hs : second < 256) (ht : third < 256) :
    (threeByteTest lead second third != 2) = !(wf3 lead second third) := by
  have hp := pair_ok lead second hl (by omega) hs
  unfold threeByteTest
  generalize tbl second &&& tbl (lead + 0x80) = x at hp ⊢
  simp only [pairOk, Bool.and_eq_true, beq_iff_eq, decide_eq_true_eq] at hp
  obtain ⟨⟨hx4, hx⟩, hc⟩ := hp
  have hx' : x = 4 * (x / 4) := by omega
  have ht' : third >>> 6 = third / 64 := by simp [Nat.shiftRight_eq_div_pow]
  rw [ht']
  have h3 := or3 (x / 4) (by omega) (third / 64) (by omega)
  rw [← hx'] at h3
  have hcont : isCont third = true ↔ third / 64 = 2 := by rw [isCont_iff]; omega
  by_cases hlead : lead < 0xC2
  · simp only [hlead, if_true, bne_iff_ne, ne_eq] at hc
    have h30 : second3Ok lead second = false := by
      simp only [second3Ok, Bool.or_eq_false_iff, Bool.and_eq_false_iff, beq_eq_false_iff_ne, decide_eq_false_iff_not]
      omega
    have : ¬ (x ||| third / 64) = 2 := by rw [h3]; omega
    simp [wf3, h30, this]
  · have h1 : ¬ lead ≤ 0xDF := by omega
    simp only [hlead, h1, hl2, if_true, if_false] at hc
    by_cases h2 : second3Ok lead second = true
    · have hx0 : x = 0 := by simpa [h2] using hc
      by_cases h4 : third / 64 = 2
      · have : (x ||| third / 64) = 2 := by rw [h3]; omega
        simp [wf3, h2, hcont.mpr h4, this]
      · have : ¬ (x ||| third / 64) = 2 := by rw [h3]; omega
        have hc' : isCont third = false := by
          cases hh : isCont third with
          | false => rfl
          | true => exact absurd (hcont.mp hh) h4
        simp [wf3, h2, hc', this]
    · have h2' : second3Ok lead second = false := by simpa using h2
      have hx0 : ¬ x = 0 := by simpa [h2'] using hc
      have : ¬ (x ||| third / 64) = 2 := by rw [h3]; omega
      simp [wf3, h2', this]

theorem fourByteTest_ne (lead second third fourth : Nat) (hl : 0xF0 ≤ lead) (hl2 : lead < 256)
    (hs : second < 256) (ht : third < 256) (hf : fourth < 256) :
    (fourByteTest lead second third fourth != 0x202) = !(wf4 lead second third fourth) := by
  have hp := pair_ok lead second (by omega) hl2 hs
  unfold fourByteTest
  generalize tbl second &&& tbl (lead + 0x80) = x at hp ⊢
  simp only [pairOk, Bool.and_eq_true, beq_iff_eq, decide_eq_true_eq] at hp
  obtain ⟨⟨hx4, hx⟩, hc⟩ := hp
  have hx' : x = 4 * (x / 4) := by omega
  have ht' : third >>> 6 = third / 64 := by simp [Nat.shiftRight_eq_div_pow]
  rw [ht', and_c0 fourth hf]
  have h3 := or4 (x / 4) (by omega) (third / 64) (by omega) (fourth / 64) (by omega)
  rw [← hx'] at h3
  have hcont3 : isCont third = true ↔ third / 64 = 2 := by rw [isCont_iff]; omega
  have hcont4 : isCont fourth = true ↔ fourth / 64 = 2 := by rw [isCont_iff]; omega
  have h0 : ¬ lead < 0xC2 := by omega
  have h1 : ¬ lead ≤ 0xDF := by omega
  have h2 : ¬ lead < 0xF0 := by omega
  simp only [h0, h1, h2, if_false] at hc
  have key : ((x ||| third / 64 ||| (fourth / 64 * 64) <<< 2) = 0x202) ↔ wf4 lead second third fourth = true := by
    rw [h3]
    simp only [wf4, Bool.and_eq_true, hcont3, hcont4]
    constructor
    · rintro ⟨a, b, c⟩
      have : x = 0 := by omega
      have : second4Ok lead second = true := by
        simpa [‹x = 0›] using hc
      exact ⟨⟨this, b⟩, c⟩
    · rintro ⟨⟨a, b⟩, c⟩
      have : x = 0 := by simpa [a] using hc
      exact ⟨by omega, b, c⟩
  cases hw : wf4 lead second third fourth with
  | true => simp [key.mpr hw]
  | false =>
    have : ¬ ((x ||| third / 64 ||| (fourth / 64 * 64) <<< 2) = 0x202) := by
      rw [key, hw]; simp
    simp [this]

/-! ### unfolding the specification scan -/

theorem scan_nil (keep : List Nat → Bool) : scanSeqs keep [] = 0 := rfl

theorem scan_u1 (keep : List Nat → Bool) (b0 : Nat) (r : List Nat) (h1 : wf1 b0 = true) :
    scanSeqs keep (b0 :: r) = if keep [b0] then 1 + scanSeqs keep r else 0 := by
  rw [scanSeqs.eq_def]; simp [h1]

theorem scan_u2 (keep : List Nat → Bool) (b0 b1 : Nat) (r : List Nat) (h1 : wf1 b0 = false) (h2 : wf2 b0 b1 = true) :
    scanSeqs keep (b0 :: b1 :: r) = if keep [b0, b1] then 2 + scanSeqs keep r else 0 := by
  rw [scanSeqs.eq_def]; simp [h1, h2]

theorem scan_u3 (keep : List Nat → Bool) (b0 b1 b2 : Nat) (r : List Nat) (h1 : wf1 b0 = false) (h2 : wf2 b0 b1 = false)
    (h3 : wf3 b0 b1 b2 = true) :
    scanSeqs keep (b0 :: b1 :: b2 :: r) = if keep [b0, b1, b2] then 3 + scanSeqs keep r else 0 := by
  rw [scanSeqs.eq_def]; simp [h1, h2, h3]

theorem scan_u4 (keep : List Nat → Bool) (b0 b1 b2 b3 : Nat) (r : List Nat) (h1 : wf1 b0 = false) (h2 : wf2 b0 b1 = false)
    (h3 : wf3 b0 b1 b2 = false) (h4 : wf4 b0 b1 b2 b3 = true) :
    scanSeqs keep (b0 :: b1 :: b2 :: b3 :: r) = if keep [b0, b1, b2, b3] then 4 + scanSeqs keep r else 0 := by
  simp [scanSeqs, h1, h2, h3, h4]

theorem scan_z1 (keep : List Nat → Bool) (b0 : Nat) (h1 : wf1 b0 = false) : scanSeqs keep [b0] = 0 := by
  simp [scanSeqs, h1]

theorem scan_z2 (keep : List Nat → Bool) (b0 b1 : Nat) (h1 : wf1 b0 = false) (h2 : wf2 b0 b1 = false) :
    scanSeqs keep [b0, b1] = 0 := by
  simp [scanSeqs, h1, h2]

theorem scan_z3 (keep : List Nat → Bool) (b0 b1 b2 : Nat) (h1 : wf1 b0 = false) (h2 : wf2 b0 b1 = false)
    (h3 : wf3 b0 b1 b2 = false) : scanSeqs keep [b0, b1, b2] = 0 := by
  simp [scanSeqs, h1, h2, h3]

theorem scan_z4 (keep : List Nat → Bool) (b0 b1 b2 b3 : Nat) (r : List Nat) (h1 : wf1 b0 = false) (h2 : wf2 b0 b1 = false)
    (h3 : wf3 b0 b1 b2 = false) (h4 : wf4 b0 b1 b2 b3 = false) : scanSeqs keep (b0 :: b1 :: b2 :: b3 :: r) = 0 := by
  simp [scanSeqs, h1, h2, h3, h4]

/-! ### lead-byte ranges and the rows of Table 3-7 -/

theorem wf1_false (b : Nat) (h : 0x80 ≤ b) : wf1 b = false := by simp [wf1]; omega
theorem wf1_true (b : Nat) (h : b < 0x80) : wf1 b = true := by simp [wf1]; omega
theorem wf2_false_lead (b0 b1 : Nat) (h : ¬(0xC2 ≤ b0 ∧ b0 ≤ 0xDF)) : wf2 b0 b1 = false := by
  simp only [wf2, Bool.and_eq_false_iff, decide_eq_false_iff_not]; omega
theorem wf2_lead (b0 b1 : Nat) (h : 0xC2 ≤ b0 ∧ b0 ≤ 0xDF) : wf2 b0 b1 = isCont b1 := by
  simp [wf2, h.1, h.2]
theorem second3Ok_false (b0 b1 : Nat) (h : b0 < 0xE0 ∨ 0xF0 ≤ b0) : second3Ok b0 b1 = false := by
  simp only [second3Ok, Bool.or_eq_false_iff, Bool.and_eq_false_iff, beq_eq_false_iff_ne, decide_eq_false_iff_not]
  omega
theorem wf3_false_lead (b0 b1 b2 : Nat) (h : b0 < 0xE0 ∨ 0xF0 ≤ b0) : wf3 b0 b1 b2 = false := by
  simp [wf3, second3Ok_false b0 b1 h]
theorem second4Ok_false (b0 b1 : Nat) (h : b0 < 0xF0) : second4Ok b0 b1 = false := by
  simp only [second4Ok, Bool.or_eq_false_iff, Bool.and_eq_false_iff, beq_eq_false_iff_ne, decide_eq_false_iff_not]
  omega
theorem wf4_false_lead (b0 b1 b2 b3 : Nat) (h : b0 < 0xF0) : wf4 b0 b1 b2 b3 = false := by
  simp [wf4, second4Ok_false b0 b1 h]

/-! ### ASCII runs in the specification scan -/

theorem scan_ascii_append (keep : List Nat → Bool) (hk : ∀ b, b < 0x80 → keep [b] = true)
    (pre s : List Nat) (h : pre.all isAsciiByte = true) :
    scanSeqs keep (pre ++ s) = pre.length + scanSeqs keep s := by
  induction pre with
  | nil => simp
  | cons b r ih =>
    simp only [List.all_cons, Bool.and_eq_true, isAsciiByte, decide_eq_true_eq] at h
    rw [List.cons_append, scan_u1 keep b _ (wf1_true b h.1), hk b h.1, if_pos rfl, ih h.2]
    simp; omega

theorem scan_all_ascii (keep : List Nat → Bool) (hk : ∀ b, b < 0x80 → keep [b] = true)
    (bs : List Nat) (h : bs.all isAsciiByte = true) : scanSeqs keep bs = bs.length := by
  have := scan_ascii_append keep hk bs [] h
  simpa [scan_nil] using this

theorem exists_four (l : List Nat) (h : 4 ≤ l.length) : ∃ a b c d r, l = a :: b :: c :: d :: r := by
  match l, h with
  | a :: b :: c :: d :: r, _ => exact ⟨a, b, c, d, r, rfl⟩

/-! ### `utf8_valid_up_to`: one step preserves `read + validUpTo rest` -/

def u8Inv : U8St → List Nat → Prop
  | .outer, _ => True
  | .inner byte, rest => 4 ≤ rest.length ∧ rest.head? = some byte ∧ 0x80 ≤ byte
  | .three byte, rest => 4 ≤ rest.length ∧ rest.head? = some byte ∧ 0xE0 ≤ byte ∧ byte ≤ 0xEF
  | .tail, rest => rest.length ≤ 3

/-- termination measure (the fuel needed from this program point) -/
def u8Pot : U8St → List Nat → Nat
  | .outer, rest => 2 * rest.length + 2
  | _, rest => 2 * rest.length + 1

/-- what a step must establish: either the final answer, or a successor state
with the same `read + validUpTo rest` and a smaller measure -/
inductive StepOk (total pot : Nat) : U8Step → Prop
  | done : StepOk total pot (.done total)
  | next (st' : U8St) (read' : Nat) (rest' : List Nat) :
      u8Inv st' rest' → (∀ b ∈ rest', b < 256) → read' + validUpTo rest' = total → u8Pot st' rest' < pot →
      StepOk total pot (.next st' read' rest')

theorem StepOk.of_done {total pot r : Nat} (h : r = total) : StepOk total pot (.done r) := h ▸ .done

theorem StepOk.mono {total pot pot' : Nat} {s : U8Step} (h : StepOk total pot s) (hp : pot ≤ pot') : StepOk total pot' s := by
  cases h with
  | done => exact .done
  | next st rd rs h1 h2 h3 h4 => exact .next st rd rs h1 h2 h3 (Nat.lt_of_lt_of_le h4 hp)

theorem nextLead_ok (a : Bool) (read : Nat) (rest : List Nat) (hb : ∀ b ∈ rest, b < 256) :
    StepOk (read + validUpTo rest) (2 * rest.length + 3) (nextLead a read rest) := by
  unfold nextLead
  by_cases h4 : 4 ≤ rest.length
  · simp only [h4, if_true]
    cases rest with
    | nil => simp at h4
    | cons byte r =>
      have hbyte : byte < 256 := hb byte (by simp)
      simp only
      by_cases h3 : (a && inInclusiveRange8 byte 0xE0 0xEF) = true
      · simp only [h3, if_true]
        simp only [Bool.and_eq_true] at h3
        have := (inRange8_iff byte 0xE0 0xEF hbyte (by omega) (by omega)).mp h3.2
        refine .next _ _ _ ⟨h4, rfl, this.1, this.2⟩ hb rfl ?_
        simp [u8Pot]
      · simp only [h3, Bool.false_eq_true, if_false]
        by_cases hlt : byte < 0x80
        · simp only [hlt, if_true]
          refine .next _ _ _ trivial (fun b hb' => hb b (by simp [hb'])) ?_ ?_
          · unfold validUpTo
            rw [scan_u1 _ byte r (wf1_true byte hlt)]
            simp; omega
          · simp [u8Pot]; omega
        · simp only [hlt, if_false]
          refine .next _ _ _ ⟨h4, rfl, by omega⟩ hb rfl ?_
          simp [u8Pot]
  · simp only [h4, if_false]
    refine .next _ _ _ ?_ hb rfl ?_
    · simp only [u8Inv]; omega
    · simp [u8Pot]

theorem threeBody_ok (byte read : Nat) (rest : List Nat) (hb : ∀ b ∈ rest, b < 256)
    (hlen : 4 ≤ rest.length) (hhead : rest.head? = some byte) (h80 : 0x80 ≤ byte) (hF0 : byte < 0xF0)
    (hn2 : ¬(0xC2 ≤ byte ∧ byte ≤ 0xDF)) :
    StepOk (read + validUpTo rest) (2 * rest.length + 1) (threeBody byte read rest) := by
  obtain ⟨b0, second, third, fourth, r4, rfl⟩ := exists_four rest hlen
  · simp only [List.head?_cons, Option.some.injEq] at hhead
    subst hhead
    have hs : second < 256 := hb second (by simp)
    have ht : third < 256 := hb third (by simp)
    simp only [threeBody]
    rw [threeByteTest_ne b0 second third h80 hF0 hn2 hs ht]
    have w1 := wf1_false b0 h80
    have w2 := wf2_false_lead b0 second hn2
    have w4 := wf4_false_lead b0 second third fourth hF0
    cases hw : wf3 b0 second third with
    | false =>
      simp only [Bool.not_false, if_true]
      apply StepOk.of_done
      unfold validUpTo
      rw [scan_z4 _ b0 second third fourth r4 w1 w2 hw w4]; rfl
    | true =>
      simp only [Bool.not_true, Bool.false_eq_true, if_false]
      have := nextLead_ok true (read + 3) (fourth :: r4) (fun b hb' => hb b (by simp [hb']))
      have e : read + 3 + validUpTo (fourth :: r4) = read + validUpTo (b0 :: second :: third :: fourth :: r4) := by
        unfold validUpTo
        rw [scan_u3 _ b0 second third (fourth :: r4) w1 w2 hw]
        simp; omega
      rw [e] at this
      exact this.mono (by simp; omega)

theorem outerBody_ok (read : Nat) (rest : List Nat) (hb : ∀ b ∈ rest, b < 256) :
    StepOk (read + validUpTo rest) (2 * rest.length + 2) (outerBody read rest) := by
  simp only [outerBody, validateAscii, blockScan_eq_locate]
  cases hloc : locate isAsciiByte rest 0 with
  | none =>
    have hall := locate_none _ _ _ hloc
    apply StepOk.of_done
    unfold validUpTo
    rw [scan_all_ascii _ (fun _ _ => rfl) rest hall]
  | some p =>
    obtain ⟨b, i⟩ := p
    obtain ⟨pre, post, hrest, hpre, hbad, hi⟩ := locate_some _ _ _ _ _ hloc
    simp only [Nat.zero_add] at hi
    have hdrop : rest.drop i = b :: post := by
      rw [hrest, hi]; simp
    have hb80 : 0x80 ≤ b := by
      simp only [isAsciiByte, decide_eq_false_iff_not] at hbad; omega
    have hval : read + i + validUpTo (b :: post) = read + validUpTo rest := by
      unfold validUpTo
      rw [hrest, scan_ascii_append _ (fun _ _ => rfl) pre _ hpre, hi]; omega
    have hb' : ∀ x ∈ b :: post, x < 256 := fun x hx => hb x (by rw [hrest]; simp at hx ⊢; right; exact hx)
    have hlen : (b :: post).length ≤ rest.length := by rw [hrest]; simp
    simp only [hdrop]
    by_cases h4 : 4 ≤ (b :: post).length
    · simp only [h4, if_true]
      exact .next _ _ _ ⟨h4, rfl, hb80⟩ hb' hval (by simp only [u8Pot]; omega)
    · simp only [h4, if_false]
      exact .next _ _ _ (by simp only [u8Inv]; omega) hb' hval (by simp only [u8Pot]; omega)

theorem innerBody_ok (byte read : Nat) (rest : List Nat) (hlen : 4 ≤ rest.length) (hhead : rest.head? = some byte)
    (h80 : 0x80 ≤ byte) (hb : ∀ b ∈ rest, b < 256) :
    StepOk (read + validUpTo rest) (2 * rest.length + 1) (innerBody byte read rest) := by
  obtain ⟨b0, second, third, fourth, r4, rfl⟩ := exists_four rest hlen
  · simp only [List.head?_cons, Option.some.injEq] at hhead
    subst hhead
    have h0 : b0 < 256 := hb b0 (by simp)
    have hs : second < 256 := hb second (by simp)
    have ht : third < 256 := hb third (by simp)
    have hf : fourth < 256 := hb fourth (by simp)
    have w1 := wf1_false b0 h80
    unfold innerBody
    by_cases h2 : inInclusiveRange8 b0 0xC2 0xDF = true
    · have hr := (inRange8_iff b0 0xC2 0xDF h0 (by omega) (by omega)).mp h2
      simp only [h2, if_true]
      have hc : inInclusiveRange8 second 0x80 0xBF = isCont second := by
        rw [Bool.eq_iff_iff, inRange8_iff second 0x80 0xBF hs (by omega) (by omega), isCont_iff]
      rw [hc]
      have w2 := wf2_lead b0 second hr
      cases hcs : isCont second with
      | false =>
        simp only [Bool.not_false, if_true]
        apply StepOk.of_done
        unfold validUpTo
        rw [scan_z4 _ b0 second third fourth r4 w1 (by rw [w2, hcs])
          (wf3_false_lead _ _ _ (by omega)) (wf4_false_lead _ _ _ _ (by omega))]; rfl
      | true =>
        simp only [Bool.not_true, Bool.false_eq_true, if_false]
        have := nextLead_ok false (read + 2) (third :: fourth :: r4) (fun b hb' => hb b (by simp [hb']))
        have e : read + 2 + validUpTo (third :: fourth :: r4) = read + validUpTo (b0 :: second :: third :: fourth :: r4) := by
          unfold validUpTo
          rw [scan_u2 _ b0 second _ w1 (by rw [w2, hcs])]
          simp; omega
        rw [e] at this
        exact this.mono (by simp; omega)
    · have h2' : inInclusiveRange8 b0 0xC2 0xDF = false := by simpa using h2
      have hr : ¬(0xC2 ≤ b0 ∧ b0 ≤ 0xDF) := fun h => h2 ((inRange8_iff b0 0xC2 0xDF h0 (by omega) (by omega)).mpr h)
      simp only [h2', Bool.false_eq_true, if_false]
      by_cases hF0 : b0 < 0xF0
      · simp only [hF0, if_true]
        exact (threeBody_ok b0 read _ hb hlen rfl h80 hF0 hr).mono (by simp)
      · simp only [hF0, if_false]
        rw [fourByteTest_ne b0 second third fourth (by omega) h0 hs ht hf]
        have w2 := wf2_false_lead b0 second hr
        have w3 := wf3_false_lead b0 second third (by omega)
        cases hw : wf4 b0 second third fourth with
        | false =>
          simp only [Bool.not_false, if_true]
          apply StepOk.of_done
          unfold validUpTo
          rw [scan_z4 _ b0 second third fourth r4 w1 w2 w3 hw]; rfl
        | true =>
          simp only [Bool.not_true, Bool.false_eq_true, if_false]
          have := nextLead_ok false (read + 4) r4 (fun b hb' => hb b (by simp [hb']))
          have e : read + 4 + validUpTo r4 = read + validUpTo (b0 :: second :: third :: fourth :: r4) := by
            unfold validUpTo
            rw [scan_u4 _ b0 second third fourth r4 w1 w2 w3 hw]
            simp; omega
          rw [e] at this
          exact this.mono (by simp; omega)

theorem tailBody_ok (read : Nat) (rest : List Nat) (hinv : rest.length ≤ 3) (hb : ∀ b ∈ rest, b < 256) :
    StepOk (read + validUpTo rest) (2 * rest.length + 1) (tailBody read rest) := by
  simp only [tailBody]
  cases rest with
  | nil => exact StepOk.of_done rfl
  | cons b0 r =>
    have h0 : b0 < 256 := hb b0 (by simp)
    simp only
    by_cases hlt : b0 < 0x80
    · simp only [hlt, if_true]
      refine .next _ _ _ (by simp only [u8Inv]; simp at hinv; omega) (fun b hb' => hb b (by simp [hb'])) ?_ (by simp [u8Pot])
      unfold validUpTo
      rw [scan_u1 _ b0 r (wf1_true b0 hlt)]; simp; omega
    · simp only [hlt, if_false]
      have w1 := wf1_false b0 (by omega)
      by_cases h2 : inInclusiveRange8 b0 0xC2 0xDF = true
      · have hr := (inRange8_iff b0 0xC2 0xDF h0 (by omega) (by omega)).mp h2
        simp only [h2, if_true]
        cases r with
        | nil =>
          simp only
          apply StepOk.of_done
          unfold validUpTo; rw [scan_z1 _ b0 w1]; rfl
        | cons second r2 =>
          have hs : second < 256 := hb second (by simp)
          simp only
          have hc : inInclusiveRange8 second 0x80 0xBF = isCont second := by
            rw [Bool.eq_iff_iff, inRange8_iff second 0x80 0xBF hs (by omega) (by omega), isCont_iff]
          rw [hc]
          have w2 := wf2_lead b0 second hr
          cases hcs : isCont second with
          | false =>
            simp only [Bool.not_false, if_true]
            apply StepOk.of_done
            unfold validUpTo
            have w2' : wf2 b0 second = false := by rw [w2, hcs]
            match r2, hinv with
            | [], _ => rw [scan_z2 _ b0 second w1 w2']; rfl
            | [b2], _ => rw [scan_z3 _ b0 second b2 w1 w2' (wf3_false_lead _ _ _ (by omega))]; rfl
            | _ :: _ :: _, hinv => simp at hinv
          | true =>
            simp only [Bool.not_true, Bool.false_eq_true, if_false]
            refine .next _ _ _ (by simp only [u8Inv]; simp at hinv; omega) (fun b hb' => hb b (by simp [hb'])) ?_ (by simp [u8Pot]; omega)
            unfold validUpTo
            rw [scan_u2 _ b0 second _ w1 (by rw [w2, hcs])]; simp; omega
      · have h2' : inInclusiveRange8 b0 0xC2 0xDF = false := by simpa using h2
        have hr : ¬(0xC2 ≤ b0 ∧ b0 ≤ 0xDF) := fun h => h2 ((inRange8_iff b0 0xC2 0xDF h0 (by omega) (by omega)).mpr h)
        simp only [h2', Bool.false_eq_true, if_false]
        by_cases hF0 : b0 < 0xF0
        · simp only [hF0, if_true]
          match r, hinv, hb with
          | [], _, _ =>
            simp only
            apply StepOk.of_done
            unfold validUpTo; rw [scan_z1 _ b0 w1]; rfl
          | [b1], _, _ =>
            simp only
            apply StepOk.of_done
            unfold validUpTo; rw [scan_z2 _ b0 b1 w1 (wf2_false_lead _ _ hr)]; rfl
          | [second, third], _, hb =>
            have hs : second < 256 := hb second (by simp)
            have ht : third < 256 := hb third (by simp)
            simp only
            rw [threeByteTest_ne b0 second third (by omega) hF0 hr hs ht]
            cases hw : wf3 b0 second third with
            | false =>
              simp only [Bool.not_false, if_true]
              apply StepOk.of_done
              unfold validUpTo; rw [scan_z3 _ b0 second third w1 (wf2_false_lead _ _ hr) hw]; rfl
            | true =>
              simp only [Bool.not_true, Bool.false_eq_true, if_false]
              apply StepOk.of_done
              unfold validUpTo; rw [scan_u3 _ b0 second third [] w1 (wf2_false_lead _ _ hr) hw]; simp [scan_nil]
          | _ :: _ :: _ :: _, hinv, _ => simp at hinv
        · simp only [hF0, if_false]
          apply StepOk.of_done
          unfold validUpTo
          have w2 := fun b1 => wf2_false_lead b0 b1 hr
          have w3 := fun b1 b2 => wf3_false_lead b0 b1 b2 (Or.inr (by omega))
          match r, hinv with
          | [], _ => rw [scan_z1 _ b0 w1]; rfl
          | [b1], _ => rw [scan_z2 _ b0 b1 w1 (w2 _)]; rfl
          | [b1, b2], _ => rw [scan_z3 _ b0 b1 b2 w1 (w2 _) (w3 _ _)]; rfl
          | _ :: _ :: _ :: _, hinv => simp at hinv


theorem utf8Step_ok (st : U8St) (read : Nat) (rest : List Nat) (hinv : u8Inv st rest) (hb : ∀ b ∈ rest, b < 256) :
    StepOk (read + validUpTo rest) (u8Pot st rest) (utf8Step st read rest) := by
  cases st with
  | outer => exact outerBody_ok read rest hb
  | inner byte =>
    simp only [u8Inv] at hinv
    exact innerBody_ok byte read rest hinv.1 hinv.2.1 hinv.2.2 hb
  | three byte =>
    simp only [u8Inv] at hinv
    exact threeBody_ok byte read rest hb hinv.1 hinv.2.1 (by omega) (by omega) (by omega)
  | tail =>
    simp only [u8Inv] at hinv
    exact tailBody_ok read rest hinv hb

theorem utf8Run_ok (f : Nat) (st : U8St) (read : Nat) (rest : List Nat) (hf : u8Pot st rest ≤ f)
    (hinv : u8Inv st rest) (hb : ∀ b ∈ rest, b < 256) :
    utf8Run f st read rest = read + validUpTo rest := by
  induction f generalizing st read rest with
  | zero => cases st <;> simp [u8Pot] at hf
  | succ f ih =>
    have hstep := utf8Step_ok st read rest hinv hb
    simp only [utf8Run]
    generalize utf8Step st read rest = s at hstep
    cases hstep with
    | done => rfl
    | next st' read' rest' hi hb' he hp =>
      simp only
      rw [ih st' read' rest' (by omega) hi hb', he]

theorem utf8ValidUpTo_eq (bs : List Nat) (hb : ∀ b ∈ bs, b < 256) : utf8ValidUpTo bs = validUpTo bs := by
  unfold utf8ValidUpTo
  rw [utf8Run_ok _ .outer 0 bs (by simp [u8Pot]) trivial hb]; simp



/-! ### `utf8_latin1_up_to` / `str_latin1_up_to` -/

theorem latin1_keep_ascii (b : Nat) (h : b < 0x80) : isLatin1Seq [b] = true := by
  show decide (b < 0x100) = true
  exact decide_eq_true (by omega)

theorem latin1_keep_two (b0 b1 : Nat) (h0 : 0xC2 ≤ b0 ∧ b0 ≤ 0xC3) (h1 : isCont b1 = true) : isLatin1Seq [b0, b1] = true := by
  rw [isCont_iff] at h1
  show decide ((b0 - 0xC0) * 64 + (b1 - 0x80) < 0x100) = true
  exact decide_eq_true (by omega)

/-- a sequence whose lead byte is neither ASCII nor `C2`/`C3` is either
ill-formed or encodes a code point ≥ U+0100 -/
theorem latin1_scan_zero (b0 : Nat) (r : List Nat) (h80 : 0x80 ≤ b0) (hn : ¬(0xC2 ≤ b0 ∧ b0 ≤ 0xC3)) :
    scanSeqs isLatin1Seq (b0 :: r) = 0 := by
  have w1 := wf1_false b0 h80
  rw [scanSeqs.eq_def]
  simp only [w1, Bool.false_eq_true, if_false]
  split
  · rfl
  · next b1 r1 =>
    split
    · next h2 =>
      have : isLatin1Seq [b0, b1] = false := by
        simp only [wf2, Bool.and_eq_true, decide_eq_true_eq, isCont_iff] at h2
        show decide ((b0 - 0xC0) * 64 + (b1 - 0x80) < 0x100) = false
        exact decide_eq_false (by omega)
      simp [this]
    · split
      · rfl
      · next b2 r2 =>
        split
        · next h3 =>
          have : isLatin1Seq [b0, b1, b2] = false := by
            simp only [wf3, second3Ok, Bool.and_eq_true, Bool.or_eq_true, decide_eq_true_eq, beq_iff_eq, isCont_iff] at h3
            show decide ((b0 - 0xE0) * 4096 + (b1 - 0x80) * 64 + (b2 - 0x80) < 0x100) = false
            exact decide_eq_false (by omega)
          simp [this]
        · split
          · rfl
          · next b3 r3 =>
            split
            · next h4 =>
              have : isLatin1Seq [b0, b1, b2, b3] = false := by
                simp only [wf4, second4Ok, Bool.and_eq_true, Bool.or_eq_true, decide_eq_true_eq, beq_iff_eq, isCont_iff] at h4
                show decide ((b0 - 0xF0) * 262144 + (b1 - 0x80) * 4096 + (b2 - 0x80) * 64 + (b3 - 0x80) < 0x100) = false
                exact decide_eq_false (by omega)
              simp [this]
            · rfl

theorem getD_append_succ (pre : List Nat) (b b1 : Nat) (post : List Nat) :
    (pre ++ b :: b1 :: post).getD (pre.length + 1) 0 = b1 := by
  simp [List.getD_eq_getElem?_getD]

theorem drop_append_two (pre : List Nat) (b b1 : Nat) (post : List Nat) :
    (pre ++ b :: b1 :: post).drop (pre.length + 2) = post := by
  induction pre with
  | nil => rfl
  | cons x r ih => simp

/-- loop invariant of `is_utf8_latin1_impl` -/
theorem isUtf8Latin1Impl_ok (f : Nat) (bytes : List Nat) (total : Nat) (hf : bytes.length + 1 ≤ f)
    (hb : ∀ b ∈ bytes, b < 256) :
    (isUtf8Latin1Impl f bytes total).getD (total + bytes.length) = total + scanSeqs isLatin1Seq bytes := by
  induction f generalizing bytes total with
  | zero => omega
  | succ f ih =>
    simp only [isUtf8Latin1Impl, validateAscii, blockScan_eq_locate]
    cases hloc : locate isAsciiByte bytes 0 with
    | none =>
      have hall := locate_none _ _ _ hloc
      simp only [Option.getD_none]
      rw [scan_all_ascii _ latin1_keep_ascii bytes hall]
    | some p =>
      obtain ⟨b, i⟩ := p
      obtain ⟨pre, post, hrest, hpre, hbad, hi⟩ := locate_some _ _ _ _ _ hloc
      simp only [Nat.zero_add] at hi
      have hb80 : 0x80 ≤ b := by
        simp only [isAsciiByte, decide_eq_false_iff_not] at hbad; omega
      have hb256 : b < 256 := hb b (by rw [hrest]; simp)
      have hscan : scanSeqs isLatin1Seq bytes = i + scanSeqs isLatin1Seq (b :: post) := by
        rw [hrest, scan_ascii_append _ latin1_keep_ascii pre _ hpre, hi]
      simp only
      by_cases h2 : inInclusiveRange8 b 0xC2 0xC3 = true
      · have hr := (inRange8_iff b 0xC2 0xC3 hb256 (by omega) (by omega)).mp h2
        simp only [h2, if_true]
        have w1 := wf1_false b hb80
        cases post with
        | nil =>
          have : (i + 1 == bytes.length) = true := by rw [hrest, hi]; simp
          simp only [this, if_true, Option.getD_some]
          rw [hscan, scan_z1 _ b w1]; omega
        | cons b1 post' =>
          have hne : (i + 1 == bytes.length) = false := by
            rw [hrest, hi]; simp
          have hb1 : b1 < 256 := hb b1 (by rw [hrest]; simp)
          have hget : bytes.getD (i + 1) 0 = b1 := by rw [hrest, hi]; exact getD_append_succ _ _ _ _
          simp only [hne, Bool.false_eq_true, if_false, hget]
          rw [and_c0_cont b1 hb1]
          have w2 : wf2 b b1 = isCont b1 := wf2_lead b b1 ⟨hr.1, by omega⟩
          cases hc : isCont b1 with
          | false =>
            simp only [Bool.not_false, if_true, Option.getD_some]
            rw [hscan]
            have : scanSeqs isLatin1Seq (b :: b1 :: post') = 0 := by
              rw [scanSeqs.eq_def]
              simp only [w1, w2, hc, Bool.false_eq_true, if_false]
              have w3 : ∀ b2, wf3 b b1 b2 = false := fun b2 => wf3_false_lead _ _ _ (Or.inl (by omega))
              have w4 : ∀ b2 b3, wf4 b b1 b2 b3 = false := fun b2 b3 => wf4_false_lead _ _ _ _ (by omega)
              split
              · rfl
              · simp only [w3, Bool.false_eq_true, if_false]
                split
                · rfl
                · simp [w4]
            rw [this]; omega
          | true =>
            simp only [Bool.not_true, Bool.false_eq_true, if_false]
            have hdrop : bytes.drop (i + 2) = post' := by rw [hrest, hi]; exact drop_append_two _ _ _ _
            rw [hdrop]
            have hlen : bytes.length = i + 2 + post'.length := by rw [hrest, hi]; simp; omega
            have := ih post' (total + i + 2) (by omega) (fun x hx => hb x (by rw [hrest]; simp [hx]))
            rw [show total + i + 2 + post'.length = total + bytes.length by omega] at this
            rw [this, hscan, scan_u2 _ b b1 post' w1 (by rw [w2, hc]), latin1_keep_two b b1 hr hc]
            simp; omega
      · have h2' : inInclusiveRange8 b 0xC2 0xC3 = false := by simpa using h2
        have hr : ¬(0xC2 ≤ b ∧ b ≤ 0xC3) := fun h => h2 ((inRange8_iff b 0xC2 0xC3 hb256 (by omega) (by omega)).mpr h)
        simp only [h2', Bool.false_eq_true, if_false, Option.getD_some]
        rw [hscan, latin1_scan_zero b post hb80 hr]; omega

theorem utf8Latin1UpTo_eq (bs : List Nat) (hb : ∀ b ∈ bs, b < 256) :
    Model.Valid.utf8Latin1UpTo bs = Spec.utf8Latin1UpTo bs := by
  unfold Model.Valid.utf8Latin1UpTo Spec.utf8Latin1UpTo
  have := isUtf8Latin1Impl_ok (bs.length + 1) bs 0 (Nat.le_refl _) hb
  simpa using this

/-- what `is_str_latin1_impl` returns on valid UTF-8 -/
def StrRes (total : Nat) (bytes : List Nat) : StrLatin1Res → Prop
  | .found i => i = total + scanSeqs isLatin1Seq bytes ∧ scanSeqs isLatin1Seq bytes < bytes.length
  | .all => scanSeqs isLatin1Seq bytes = bytes.length
  | .panic => False

theorem isStrLatin1Impl_ok (f : Nat) (bytes : List Nat) (total : Nat) (hf : bytes.length + 1 ≤ f)
    (hv : validUpTo bytes = bytes.length) :
    StrRes total bytes (isStrLatin1Impl f bytes total) := by
  induction f generalizing bytes total with
  | zero => omega
  | succ f ih =>
    simp only [isStrLatin1Impl, validateAscii, blockScan_eq_locate]
    cases hloc : locate isAsciiByte bytes 0 with
    | none =>
      have hall := locate_none _ _ _ hloc
      exact scan_all_ascii _ latin1_keep_ascii bytes hall
    | some p =>
      obtain ⟨b, i⟩ := p
      obtain ⟨pre, post, hrest, hpre, hbad, hi⟩ := locate_some _ _ _ _ _ hloc
      simp only [Nat.zero_add] at hi
      have hb80 : 0x80 ≤ b := by
        simp only [isAsciiByte, decide_eq_false_iff_not] at hbad; omega
      have hscan : scanSeqs isLatin1Seq bytes = i + scanSeqs isLatin1Seq (b :: post) := by
        rw [hrest, scan_ascii_append _ latin1_keep_ascii pre _ hpre, hi]
      have hlen : bytes.length = i + (post.length + 1) := by rw [hrest, hi]; simp
      have hv' : validUpTo (b :: post) = post.length + 1 := by
        have : validUpTo bytes = i + validUpTo (b :: post) := by
          unfold validUpTo
          rw [hrest, scan_ascii_append _ (fun _ _ => rfl) pre _ hpre, hi]
        omega
      simp only
      by_cases hgt : b > 0xC3
      · simp only [hgt, if_true]
        have := latin1_scan_zero b post hb80 (by omega)
        exact ⟨by rw [hscan, this]; omega, by rw [hscan, this]; omega⟩
      · simp only [hgt, if_false]
        have w1 := wf1_false b hb80
        -- validity forces a two-byte sequence with lead C2/C3
        have w3 : ∀ b1 b2, wf3 b b1 b2 = false := fun b1 b2 => wf3_false_lead _ _ _ (Or.inl (by omega))
        have w4 : ∀ b1 b2 b3, wf4 b b1 b2 b3 = false := fun b1 b2 b3 => wf4_false_lead _ _ _ _ (by omega)
        cases post with
        | nil =>
          unfold validUpTo at hv'
          rw [scan_z1 _ b w1] at hv'
          simp at hv'
        | cons b1 post' =>
          have hw2 : wf2 b b1 = true := by
            cases hw : wf2 b b1 with
            | true => rfl
            | false =>
              exfalso
              unfold validUpTo at hv'
              rw [scanSeqs.eq_def] at hv'
              simp only [w1, hw, Bool.false_eq_true, if_false] at hv'
              split at hv'
              · simp at hv'
              · simp only [w3, Bool.false_eq_true, if_false] at hv'
                split at hv'
                · simp at hv'
                · simp [w4] at hv'
          have hr : 0xC2 ≤ b ∧ b ≤ 0xC3 := by
            simp only [wf2, Bool.and_eq_true, decide_eq_true_eq] at hw2; omega
          have hc : isCont b1 = true := by
            simp only [wf2, Bool.and_eq_true] at hw2; exact hw2.2
          have h2 : i + 2 ≤ bytes.length := by rw [hlen]; simp
          simp only [h2, if_true]
          have hdrop : bytes.drop (i + 2) = post' := by rw [hrest, hi]; exact drop_append_two _ _ _ _
          rw [hdrop]
          have hv2 : validUpTo post' = post'.length := by
            unfold validUpTo at hv' ⊢
            rw [scan_u2 _ b b1 post' w1 hw2] at hv'
            simp at hv'; omega
          have := ih post' (total + i + 2) (by simp at hlen; omega) hv2
          have hs2 : scanSeqs isLatin1Seq (b :: b1 :: post') = 2 + scanSeqs isLatin1Seq post' := by
            rw [scan_u2 _ b b1 post' w1 hw2, latin1_keep_two b b1 hr hc]; simp
          generalize isStrLatin1Impl f post' (total + i + 2) = res at this
          cases res with
          | found j =>
            obtain ⟨h1, h3⟩ := this
            exact ⟨by rw [hscan, hs2, h1]; omega, by rw [hscan, hs2, hlen]; simp at h3 ⊢; omega⟩
          | all =>
            show scanSeqs isLatin1Seq bytes = bytes.length
            have : scanSeqs isLatin1Seq post' = post'.length := this
            rw [hscan, hs2, hlen, this]; simp; omega
          | panic => exact this

theorem strLatin1UpTo_eq (bs : List Nat) (hv : validUpTo bs = bs.length) :
    Model.Valid.strLatin1UpTo bs = some (Spec.strLatin1UpTo bs) := by
  unfold Model.Valid.strLatin1UpTo Spec.strLatin1UpTo
  have := isStrLatin1Impl_ok (bs.length + 1) bs 0 (Nat.le_refl _) hv
  generalize isStrLatin1Impl (bs.length + 1) bs 0 = res at this
  cases res with
  | found j => simp only [StrRes] at this; simp [this.1]
  | all => simp only [StrRes] at this; simp [this]
  | panic => exact this.elim


/-! ### `utf16_valid_up_to` -/

def isSurrogate (u : Nat) : Bool := 0xD800 ≤ u && u ≤ 0xDFFF

theorem and31 : ∀ x < 32, x &&& 31 = x := by decide +kernel

/-- `u & 0xF800` keeps the top five bits of a 16-bit unit -/
theorem and_f800 (u : Nat) (hu : u < 65536) : u &&& 0xF800 = 2048 * (u / 2048) := by
  have h1 : (u &&& 0xF800) % 2 ^ 11 = 0 := by
    rw [Nat.and_mod_two_pow]; simp
  have h2 : (u &&& 0xF800) / 2 ^ 11 = u / 2048 := by
    rw [Nat.and_div_two_pow]
    have : (0xF800 : Nat) / 2 ^ 11 = 31 := by decide
    rw [this, and31 _ (by omega)]
  omega

theorem notSurrogate_eq (u : Nat) (hu : u < 65536) : notSurrogate u = !isSurrogate u := by
  unfold notSurrogate isSurrogate
  rw [and_f800 u hu, Bool.eq_iff_iff]
  simp only [bne_iff_ne, ne_eq, Bool.not_eq_true', Bool.and_eq_false_iff, decide_eq_false_iff_not]
  omega

theorem isSurrogate_iff (u : Nat) : isSurrogate u = true ↔ (0xD800 ≤ u ∧ u ≤ 0xDFFF) := by
  simp [isSurrogate]

theorem u16_cons_bmp (u : Nat) (r : List Nat) (h : isSurrogate u = false) :
    Spec.utf16ValidUpTo (u :: r) = 1 + Spec.utf16ValidUpTo r := by
  have h' : ¬(0xD800 ≤ u ∧ u ≤ 0xDFFF) := by rw [← isSurrogate_iff, h]; simp
  have hh : isHighSurrogate u = false := by
    simp only [isHighSurrogate, Bool.and_eq_false_iff, decide_eq_false_iff_not]; omega
  have hl : isLowSurrogate u = false := by
    simp only [isLowSurrogate, Bool.and_eq_false_iff, decide_eq_false_iff_not]; omega
  rw [Spec.utf16ValidUpTo.eq_def]; simp [hh, hl]

theorem u16_bmp_append (pre s : List Nat) (h : pre.all (fun u => !isSurrogate u) = true) :
    Spec.utf16ValidUpTo (pre ++ s) = pre.length + Spec.utf16ValidUpTo s := by
  induction pre with
  | nil => simp
  | cons u r ih =>
    simp only [List.all_cons, Bool.and_eq_true, Bool.not_eq_true'] at h
    rw [List.cons_append, u16_cons_bmp u _ h.1, ih h.2]; simp; omega

theorem u16_all_bmp (bs : List Nat) (h : bs.all (fun u => !isSurrogate u) = true) : Spec.utf16ValidUpTo bs = bs.length := by
  have := u16_bmp_append bs [] h
  simpa [Spec.utf16ValidUpTo] using this

theorem all_congr (p q : Nat → Bool) (l : List Nat) (h : ∀ x ∈ l, p x = q x) : l.all p = l.all q := by
  induction l with
  | nil => rfl
  | cons x r ih => simp only [List.all_cons]; rw [h x (by simp), ih (fun y hy => h y (by simp [hy]))]

theorem wsub16_high (u : Nat) (hu : u < 65536) : (wsub16 u 0xD800 > 0xDBFF - 0xD800) ↔ ¬(0xD800 ≤ u ∧ u ≤ 0xDBFF) := by
  simp only [wsub16]; omega
theorem wsub16_low (u : Nat) (hu : u < 65536) : (wsub16 u 0xDC00 > 0xDFFF - 0xDC00) ↔ ¬(0xDC00 ≤ u ∧ u ≤ 0xDFFF) := by
  simp only [wsub16]; omega
theorem wsub16_surr (u : Nat) (hu : u < 65536) : (wsub16 u 0xD800 ≤ 0xDFFF - 0xD800) ↔ (0xD800 ≤ u ∧ u ≤ 0xDFFF) := by
  simp only [wsub16]; omega

def u16Inv : U16St → List Nat → Prop
  | .surrogate, rest => ∃ u r, rest = u :: r ∧ isSurrogate u = true
  | _, _ => True

def u16Pot : U16St → List Nat → Nat
  | .surrogate, rest => 2 * rest.length + 1
  | _, rest => 2 * rest.length + 2

inductive Step16Ok (total pot : Nat) : U16Step → Prop
  | done : Step16Ok total pot (.done total)
  | next (st' : U16St) (c' : Nat) (rest' : List Nat) :
      u16Inv st' rest' → (∀ u ∈ rest', u < 65536) → c' + Spec.utf16ValidUpTo rest' = total → u16Pot st' rest' < pot →
      Step16Ok total pot (.next st' c' rest')

theorem Step16Ok.of_done {total pot r : Nat} (h : r = total) : Step16Ok total pot (.done r) := h ▸ .done

theorem utf16Step_ok (st : U16St) (consumed : Nat) (rest : List Nat) (hinv : u16Inv st rest)
    (hb : ∀ u ∈ rest, u < 65536) :
    Step16Ok (consumed + Spec.utf16ValidUpTo rest) (u16Pot st rest) (utf16Step st consumed rest) := by
  cases st with
  | outer =>
    unfold utf16Step
    simp only [blockScan_eq_locate]
    have hcongr : ∀ l : List Nat, (∀ u ∈ l, u < 65536) → l.all notSurrogate = l.all (fun u => !isSurrogate u) :=
      fun l hl => all_congr _ _ l (fun x hx => notSurrogate_eq x (hl x hx))
    cases hloc : locate notSurrogate rest 0 with
    | none =>
      have hall := locate_none _ _ _ hloc
      rw [hcongr rest hb] at hall
      apply Step16Ok.of_done
      rw [u16_all_bmp rest hall]
    | some p =>
      obtain ⟨u, i⟩ := p
      obtain ⟨pre, post, hrest, hpre, hbad, hi⟩ := locate_some _ _ _ _ _ hloc
      simp only [Nat.zero_add] at hi
      have hdrop : rest.drop i = u :: post := by rw [hrest, hi]; simp
      have hu : u < 65536 := hb u (by rw [hrest]; simp)
      have hpre' : pre.all (fun u => !isSurrogate u) = true := by
        rw [← hcongr pre (fun x hx => hb x (by rw [hrest]; simp [hx]))]; exact hpre
      have hsur : isSurrogate u = true := by
        rw [notSurrogate_eq u hu] at hbad; simpa using hbad
      simp only [hdrop]
      refine .next _ _ _ ⟨u, post, rfl, hsur⟩ (fun x hx => hb x (by rw [hrest]; simp at hx ⊢; right; exact hx)) ?_ ?_
      · rw [hrest, u16_bmp_append pre _ hpre', hi]; omega
      · simp only [u16Pot]; rw [hrest]; simp; omega
  | surrogate =>
    obtain ⟨u, r, hrest, hsur⟩ := hinv
    subst hrest
    have hu : u < 65536 := hb u (by simp)
    have hsur' := (isSurrogate_iff u).mp hsur
    unfold utf16Step
    simp only
    by_cases hh : wsub16 u 0xD800 > 0xDBFF - 0xD800
    · simp only [hh, if_true]
      have hnh := (wsub16_high u hu).mp hh
      apply Step16Ok.of_done
      have h1 : isHighSurrogate u = false := by
        simp only [isHighSurrogate, Bool.and_eq_false_iff, decide_eq_false_iff_not]; omega
      have h2 : isLowSurrogate u = true := by
        simp only [isLowSurrogate, Bool.and_eq_true, decide_eq_true_eq]; omega
      rw [Spec.utf16ValidUpTo.eq_def]; simp [h1, h2]
    · simp only [hh, if_false]
      have hhigh : 0xD800 ≤ u ∧ u ≤ 0xDBFF := by
        have := (not_congr (wsub16_high u hu)).mp hh; omega
      have h1 : isHighSurrogate u = true := by
        simp only [isHighSurrogate, Bool.and_eq_true, decide_eq_true_eq]; omega
      cases r with
      | nil =>
        simp only
        apply Step16Ok.of_done
        rw [Spec.utf16ValidUpTo.eq_def]; simp [h1]
      | cons v r2 =>
        have hv : v < 65536 := hb v (by simp)
        simp only
        by_cases hl : wsub16 v 0xDC00 > 0xDFFF - 0xDC00
        · simp only [hl, if_true]
          have hnl := (wsub16_low v hv).mp hl
          have h2 : isLowSurrogate v = false := by
            simp only [isLowSurrogate, Bool.and_eq_false_iff, decide_eq_false_iff_not]; omega
          apply Step16Ok.of_done
          rw [Spec.utf16ValidUpTo.eq_def]; simp [h1, h2]
        · simp only [hl, if_false]
          have hlow : 0xDC00 ≤ v ∧ v ≤ 0xDFFF := by
            have := (not_congr (wsub16_low v hv)).mp hl; omega
          have h2 : isLowSurrogate v = true := by
            simp only [isLowSurrogate, Bool.and_eq_true, decide_eq_true_eq]; omega
          refine .next _ _ _ trivial (fun x hx => hb x (by simp [hx])) ?_ (by simp [u16Pot]; omega)
          rw [Spec.utf16ValidUpTo.eq_def (u :: v :: r2)]; simp [h1, h2]; omega
  | afterPair =>
    unfold utf16Step
    cases rest with
    | nil => exact Step16Ok.of_done rfl
    | cons u r =>
      have hu : u < 65536 := hb u (by simp)
      simp only
      by_cases hs : wsub16 u 0xD800 ≤ 0xDFFF - 0xD800
      · simp only [hs, if_true]
        have := (wsub16_surr u hu).mp hs
        exact .next _ _ _ ⟨u, r, rfl, (isSurrogate_iff u).mpr this⟩ hb rfl (by simp [u16Pot])
      · simp only [hs, if_false]
        have hns : isSurrogate u = false := by
          have := (not_congr (wsub16_surr u hu)).mp hs
          cases h : isSurrogate u with
          | false => rfl
          | true => exact absurd ((isSurrogate_iff u).mp h) this
        have e : consumed + 1 + Spec.utf16ValidUpTo r = consumed + Spec.utf16ValidUpTo (u :: r) := by
          rw [u16_cons_bmp u r hns]; omega
        by_cases h20 : (u == 0x0020) = true
        · simp only [h20, if_true]
          exact .next _ _ _ trivial (fun x hx => hb x (by simp [hx])) e (by simp [u16Pot])
        · simp only [h20, Bool.false_eq_true, if_false]
          exact .next _ _ _ trivial (fun x hx => hb x (by simp [hx])) e (by simp [u16Pot])

theorem utf16Run_ok (f : Nat) (st : U16St) (consumed : Nat) (rest : List Nat) (hf : u16Pot st rest ≤ f)
    (hinv : u16Inv st rest) (hb : ∀ u ∈ rest, u < 65536) :
    utf16Run f st consumed rest = consumed + Spec.utf16ValidUpTo rest := by
  induction f generalizing st consumed rest with
  | zero => cases st <;> simp [u16Pot] at hf
  | succ f ih =>
    have hstep := utf16Step_ok st consumed rest hinv hb
    simp only [utf16Run]
    generalize utf16Step st consumed rest = s at hstep
    cases hstep with
    | done => rfl
    | next st' c' rest' hi hb' he hp =>
      simp only
      rw [ih st' c' rest' (by omega) hi hb', he]

theorem utf16_model_eq (us : List Nat) (hb : ∀ u ∈ us, u < 65536) :
    Model.Valid.utf16ValidUpTo us = Spec.utf16ValidUpTo us := by
  unfold Model.Valid.utf16ValidUpTo
  rw [utf16Run_ok _ .outer 0 us (by simp [u16Pot]) trivial hb]; simp



/-! ### the specification scan is the longest well-formed prefix -/

theorem wf2_lead_range (b0 b1 : Nat) (h : wf2 b0 b1 = true) : 0xC2 ≤ b0 ∧ b0 ≤ 0xDF := by
  simp only [wf2, Bool.and_eq_true, decide_eq_true_eq] at h; omega
theorem wf3_lead_range (b0 b1 b2 : Nat) (h : wf3 b0 b1 b2 = true) : 0xE0 ≤ b0 ∧ b0 ≤ 0xEF := by
  simp only [wf3, second3Ok, Bool.and_eq_true, Bool.or_eq_true, decide_eq_true_eq, beq_iff_eq] at h; omega
theorem wf4_lead_range (b0 b1 b2 b3 : Nat) (h : wf4 b0 b1 b2 b3 = true) : 0xF0 ≤ b0 ∧ b0 ≤ 0xF4 := by
  simp only [wf4, second4Ok, Bool.and_eq_true, Bool.or_eq_true, decide_eq_true_eq, beq_iff_eq] at h; omega

/-- Table 3-7 is prefix-free: after a well-formed sequence the scan continues behind it -/
theorem validUpTo_seq_append (s x : List Nat) (h : wellFormedSeq s = true) :
    validUpTo (s ++ x) = s.length + validUpTo x := by
  unfold validUpTo
  match s, h with
  | [b0], h =>
    have h1 : wf1 b0 = true := h
    rw [List.singleton_append, scan_u1 _ b0 x h1]; simp
  | [b0, b1], h =>
    have h2 : wf2 b0 b1 = true := h
    have := wf2_lead_range b0 b1 h2
    show scanSeqs _ (b0 :: b1 :: x) = _
    rw [scan_u2 _ b0 b1 x (wf1_false b0 (by omega)) h2]; simp
  | [b0, b1, b2], h =>
    have h3 : wf3 b0 b1 b2 = true := h
    have := wf3_lead_range b0 b1 b2 h3
    show scanSeqs _ (b0 :: b1 :: b2 :: x) = _
    rw [scan_u3 _ b0 b1 b2 x (wf1_false b0 (by omega)) (wf2_false_lead b0 b1 (by omega)) h3]; simp
  | [b0, b1, b2, b3], h =>
    have h4 : wf4 b0 b1 b2 b3 = true := h
    have := wf4_lead_range b0 b1 b2 b3 h4
    show scanSeqs _ (b0 :: b1 :: b2 :: b3 :: x) = _
    rw [scan_u4 _ b0 b1 b2 b3 x (wf1_false b0 (by omega)) (wf2_false_lead b0 b1 (by omega))
      (wf3_false_lead b0 b1 b2 (Or.inr (by omega))) h4]; simp
  | [], h => simp [wellFormedSeq] at h
  | _ :: _ :: _ :: _ :: _ :: _, h => simp [wellFormedSeq] at h

/-- either the scan stops at once, or it consumes one well-formed sequence -/
theorem validUpTo_cases (bs : List Nat) :
    validUpTo bs = 0 ∨ ∃ s r, bs = s ++ r ∧ wellFormedSeq s = true ∧ 0 < s.length ∧
      validUpTo bs = s.length + validUpTo r := by
  have step : ∀ s r, wellFormedSeq s = true → 0 < s.length →
      ∃ s' r', s ++ r = s' ++ r' ∧ wellFormedSeq s' = true ∧ 0 < s'.length ∧
        validUpTo (s ++ r) = s'.length + validUpTo r' :=
    fun s r h hl => ⟨s, r, rfl, h, hl, validUpTo_seq_append s r h⟩
  unfold validUpTo at *
  match bs with
  | [] => exact Or.inl rfl
  | b0 :: r =>
    cases h1 : wf1 b0 with
    | true => exact Or.inr (step [b0] r h1 (by simp))
    | false =>
      match r with
      | [] => exact Or.inl (scan_z1 _ b0 h1)
      | b1 :: r1 =>
        cases h2 : wf2 b0 b1 with
        | true => exact Or.inr (step [b0, b1] r1 h2 (by simp))
        | false =>
          match r1 with
          | [] => exact Or.inl (scan_z2 _ b0 b1 h1 h2)
          | b2 :: r2 =>
            cases h3 : wf3 b0 b1 b2 with
            | true => exact Or.inr (step [b0, b1, b2] r2 h3 (by simp))
            | false =>
              match r2 with
              | [] => exact Or.inl (scan_z3 _ b0 b1 b2 h1 h2 h3)
              | b3 :: r3 =>
                cases h4 : wf4 b0 b1 b2 b3 with
                | true => exact Or.inr (step [b0, b1, b2, b3] r3 h4 (by simp))
                | false => exact Or.inl (scan_z4 _ b0 b1 b2 b3 r3 h1 h2 h3 h4)

theorem validUpTo_le_aux (n : Nat) : ∀ bs : List Nat, bs.length ≤ n → validUpTo bs ≤ bs.length := by
  induction n with
  | zero => intro bs h; cases bs with
    | nil => exact Nat.le_refl _
    | cons _ _ => simp at h
  | succ n ih =>
    intro bs h
    rcases validUpTo_cases bs with h0 | ⟨s, r, hbs, _, hl, hv⟩
    · omega
    · have : r.length ≤ n := by rw [hbs] at h; simp at h; omega
      have := ih r this
      rw [hv, hbs]; simp; omega

theorem validUpTo_le (bs : List Nat) : validUpTo bs ≤ bs.length := validUpTo_le_aux _ bs (Nat.le_refl _)

theorem validUpTo_prefix_aux (n : Nat) : ∀ bs : List Nat, bs.length ≤ n → WellFormedUtf8 (bs.take (validUpTo bs)) := by
  induction n with
  | zero => intro bs h; cases bs with
    | nil => exact .nil
    | cons _ _ => simp at h
  | succ n ih =>
    intro bs h
    rcases validUpTo_cases bs with h0 | ⟨s, r, hbs, hs, hl, hv⟩
    · rw [h0]; exact .nil
    · have : r.length ≤ n := by rw [hbs] at h; simp at h; omega
      have := ih r this
      rw [hv, hbs, List.take_length_add_append]
      exact .cons s _ hs this

theorem validUpTo_maximal_aux (p : List Nat) (h : WellFormedUtf8 p) : ∀ t, p.length ≤ validUpTo (p ++ t) := by
  induction h with
  | nil => intro t; exact Nat.zero_le _
  | cons s rest hs _ ih =>
    intro t
    rw [List.append_assoc, validUpTo_seq_append s _ hs]
    have := ih t
    simp; omega


/-! ### `is_str_latin1_impl`, `simd-accel` shape: first byte above `C3` -/

def aboveC3 (b : Nat) : Bool := !(decide (b ≤ 0xC3))

theorem firstIdx_cons_false (bad : Nat → Bool) (b : Nat) (r : List Nat) (h : bad b = false) :
    firstIdx bad (b :: r) = 1 + firstIdx bad r := by simp [firstIdx, h]
theorem firstIdx_cons_true (bad : Nat → Bool) (b : Nat) (r : List Nat) (h : bad b = true) :
    firstIdx bad (b :: r) = 0 := by simp [firstIdx, h]

theorem strLatin1Simd_aux (n : Nat) : ∀ bs : List Nat, bs.length ≤ n → validUpTo bs = bs.length →
    firstIdx aboveC3 bs = scanSeqs isLatin1Seq bs := by
  induction n with
  | zero => intro bs h _; cases bs with
    | nil => rfl
    | cons _ _ => simp at h
  | succ n ih =>
    intro bs h hv
    rcases validUpTo_cases bs with h0 | ⟨s, r, hbs, hs, hl, hv'⟩
    · have : bs = [] := by
        cases bs with
        | nil => rfl
        | cons _ _ => rw [h0] at hv; simp at hv
      subst this; rfl
    · have hlen : bs.length = s.length + r.length := by rw [hbs]; simp
      have hr : r.length ≤ n := by omega
      have hvr : validUpTo r = r.length := by omega
      have ihr := ih r hr hvr
      subst hbs
      match s, hs, hl with
      | [b0], hs, _ =>
        have h1 : wf1 b0 = true := hs
        have hlt : b0 < 0x80 := by simp [wf1] at h1; omega
        show firstIdx aboveC3 (b0 :: r) = scanSeqs isLatin1Seq (b0 :: r)
        rw [firstIdx_cons_false _ b0 r (by simp [aboveC3]; omega), scan_u1 _ b0 r h1,
          latin1_keep_ascii b0 hlt, ihr]; simp
      | [b0, b1], hs, _ =>
        have h2 : wf2 b0 b1 = true := hs
        have hrg := wf2_lead_range b0 b1 h2
        have hc : isCont b1 = true := by simp only [wf2, Bool.and_eq_true] at h2; exact h2.2
        have hc' := (isCont_iff b1).mp hc
        show firstIdx aboveC3 (b0 :: b1 :: r) = scanSeqs isLatin1Seq (b0 :: b1 :: r)
        by_cases hle : b0 ≤ 0xC3
        · rw [firstIdx_cons_false _ b0 _ (by simp [aboveC3]; omega),
            firstIdx_cons_false _ b1 _ (by simp [aboveC3]; omega),
            scan_u2 _ b0 b1 r (wf1_false b0 (by omega)) h2, latin1_keep_two b0 b1 ⟨hrg.1, hle⟩ hc, ihr]
          simp; omega
        · rw [firstIdx_cons_true _ b0 _ (by simp [aboveC3]; omega),
            latin1_scan_zero b0 _ (by omega) (by omega)]
      | [b0, b1, b2], hs, _ =>
        have hrg := wf3_lead_range b0 b1 b2 hs
        show firstIdx aboveC3 (b0 :: b1 :: b2 :: r) = scanSeqs isLatin1Seq (b0 :: b1 :: b2 :: r)
        rw [firstIdx_cons_true _ b0 _ (by simp [aboveC3]; omega), latin1_scan_zero b0 _ (by omega) (by omega)]
      | [b0, b1, b2, b3], hs, _ =>
        have hrg := wf4_lead_range b0 b1 b2 b3 hs
        show firstIdx aboveC3 (b0 :: b1 :: b2 :: b3 :: r) = scanSeqs isLatin1Seq (b0 :: b1 :: b2 :: b3 :: r)
        rw [firstIdx_cons_true _ b0 _ (by simp [aboveC3]; omega), latin1_scan_zero b0 _ (by omega) (by omega)]
      | [], _, hl => simp at hl
      | _ :: _ :: _ :: _ :: _ :: _, hs, _ => simp [wellFormedSeq] at hs

theorem strLatin1UpToSimd_eq (bs : List Nat) (hv : validUpTo bs = bs.length) :
    Model.Valid.strLatin1UpToSimd bs = Spec.strLatin1UpTo bs := by
  unfold Model.Valid.strLatin1UpToSimd Spec.strLatin1UpTo
  rw [blockScan_eq_locate, ← strLatin1Simd_aux _ bs (Nat.le_refl _) hv]
  have hpos := locate_pos (fun b => decide (b ≤ 0xC3)) bs 0
  have hc : firstIdx (fun b => !(fun b => decide (b ≤ 0xC3)) b) bs = firstIdx aboveC3 bs :=
    firstIdx_congr _ _ bs (fun b _ => rfl)
  cases h : Model.Valid.locate (fun b => decide (b ≤ 0xC3)) bs 0 with
  | none => rw [h] at hpos; simpa [hc] using hpos
  | some p => rw [h] at hpos; simpa [hc] using hpos


end EncodingRs.Lemmas.Valid
