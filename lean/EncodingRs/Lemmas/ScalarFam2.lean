import EncodingRs.Lemmas.ScalarFam
/-! `ScalarInv` for EUC-JP, gb18030/GBK, ISO-2022-JP, UTF-8, UTF-16 and the lift to every variant. -/
namespace EncodingRs.Lemmas.Scalar
open EncodingRs EncodingRs.Model

theorem wsub8_lt (a b : Nat) : wsub8 a b < 256 := by
  unfold wsub8; exact Nat.mod_lt _ (by decide)

theorem scalar_small (c : Nat) (h : c < 0xD800) : isScalar c = true := by
  rw [isScalar_iff]; omega

/-! ### EUC-JP -/

theorem eucJp_checks : checkTrail eucJpJis0208Trail = true ∧ checkTrail eucJpJis0212Trail = true := by
  native_decide

def eucJpInv : EucJpSt → Prop
  | .jis0208Lead l => l < 256
  | .jis0212Lead l => l < 256
  | _ => True

theorem trail_scalar {tf : Nat → Nat → TrailRes} (h : checkTrail tf = true) (l b : Nat) (hl : l < 256) (hb : b < 256)
    (cs : List Nat) (he : tf l b = .out cs) : ∀ c ∈ cs, isScalar c = true := by
  have := all_range (all_range h l hl) b hb
  simp only [he] at this
  rw [List.all_eq_true] at this
  exact this

def eucJpScalar : ScalarInv eucJpFam where
  Inv := eucJpInv
  init := trivial
  step := by
    intro s b hi _ hb
    show eucJpInv (eucJpFeed s b).st ∧ ∀ c ∈ (eucJpFeed s b).out, isScalar c = true
    cases s with
    | none =>
      unfold eucJpFeed; simp only
      split
      · exact ⟨trivial, by intro c hc; simp [FeedRes.ok] at hc; rw [hc]; exact scalar_ascii b (by assumption)⟩
      · split
        · exact ⟨wsub8_lt _ _, by intro c hc; simp [FeedRes.ok] at hc⟩
        · split
          · exact ⟨trivial, by intro c hc; simp [FeedRes.ok] at hc⟩
          · split
            · exact ⟨trivial, by intro c hc; simp [FeedRes.ok] at hc⟩
            · exact ⟨trivial, by intro c hc; simp [FeedRes.bad] at hc⟩
    | jis0208Lead l =>
      unfold eucJpFeed; simp only
      cases he : eucJpJis0208Trail l b with
      | out cs => exact ⟨trivial, trail_scalar eucJp_checks.1 l b hi hb cs he⟩
      | bad => simp only []; split <;> exact ⟨trivial, by intro c hc; simp [FeedRes.bad] at hc⟩
    | jis0212Shift =>
      unfold eucJpFeed; simp only
      split
      · split <;> exact ⟨trivial, by intro c hc; simp [FeedRes.bad] at hc⟩
      · exact ⟨wsub8_lt _ _, by intro c hc; simp [FeedRes.ok] at hc⟩
    | jis0212Lead l =>
      unfold eucJpFeed; simp only
      cases he : eucJpJis0212Trail l b with
      | out cs => exact ⟨trivial, trail_scalar eucJp_checks.2 l b hi hb cs he⟩
      | bad => simp only []; split <;> exact ⟨trivial, by intro c hc; simp [FeedRes.bad] at hc⟩
    | halfWidthKatakana =>
      unfold eucJpFeed; simp only
      split
      · split <;> exact ⟨trivial, by intro c hc; simp [FeedRes.bad] at hc⟩
      · refine ⟨trivial, ?_⟩
        intro c hc; simp [FeedRes.ok] at hc; rw [hc, isScalar_iff]
        have := wsub8_lt b 0xA1; omega
  pend := by intro s o s' _ h; cases h
  eof := by
    intro (s : EucJpSt) e (s' : EucJpSt) _ h
    have h' : (if s = EucJpSt.none then none else some ((eucJpCount s, 0), EucJpSt.none)) = some (e, s') := h
    split at h'
    · cases h'
    · have : s' = EucJpSt.none := by
        simp only [Option.some.injEq, Prod.mk.injEq] at h'; exact h'.2.symm
      show eucJpInv s'
      rw [this]; trivial
  alt := by intro s src m r _ h; cases h

/-! ### gb18030 / GBK -/

def checkGbRanges : Bool := (List.range 39420).all fun p => isScalar (gb18030RangeDecode p)

theorem gb_checks : checkTrail gbSecond = true ∧ checkGbRanges = true := by native_decide

def gbInv (s : GbSt) : Prop :=
  (match s.pending with
    | .none => True
    | .one a => a < 256
    | .two a b => a < 256 ∧ b < 10
    | .three a b c => a < 256 ∧ b < 10 ∧ c < 126)
  ∧ ∀ x, s.pendingAscii = some x → x < 0x80

theorem gbFour_scalar (a b c d cp : Nat) (h : gbFour a b c d = some cp) : isScalar cp = true := by
  unfold gbFour at h
  simp only at h
  split at h
  · rename_i hle
    split at h
    · simp only [Option.some.injEq] at h; rw [← h]; simp [isScalar]
    · simp only [Option.some.injEq] at h; rw [← h]
      exact all_range gb_checks.2 _ (Nat.lt_succ_of_le hle)
  · split at h
    · rename_i hr
      simp only [Option.some.injEq] at h; rw [← h, isScalar_iff]
      omega
    · cases h

def gbScalar : ScalarInv gbFam where
  Inv := gbInv
  init := ⟨trivial, by intro x h; cases h⟩
  step := by
    intro s b hi _ hb
    show gbInv (gbFeed s b).st ∧ ∀ c ∈ (gbFeed s b).out, isScalar c = true
    obtain ⟨p, pa⟩ := s
    obtain ⟨hp, _⟩ := hi
    have hinit : gbInv gbInit := ⟨trivial, by intro x h; cases h⟩
    cases p with
    | none =>
      unfold gbFeed; simp only
      split
      · exact ⟨hinit, by intro c hc; simp [FeedRes.ok] at hc; rw [hc]; exact scalar_ascii b (by assumption)⟩
      · split
        · split
          · exact ⟨hinit, by intro c hc; simp [FeedRes.ok] at hc; rw [hc]; decide⟩
          · exact ⟨hinit, by intro c hc; simp [FeedRes.bad] at hc⟩
        · exact ⟨⟨wsub8_lt _ _, by intro x h; cases h⟩, by intro c hc; simp [FeedRes.ok] at hc⟩
    | one a =>
      simp only at hp
      unfold gbFeed; simp only
      split
      · cases he : gbSecond a b with
        | out cs => exact ⟨hinit, trail_scalar gb_checks.1 a b hp hb cs he⟩
        | bad => simp only []; split <;> exact ⟨hinit, by intro c hc; simp [FeedRes.bad] at hc⟩
      · rename_i hc
        exact ⟨⟨⟨hp, by omega⟩, by intro x h; cases h⟩, by intro c hc; simp [FeedRes.ok] at hc⟩
    | two a sm =>
      simp only at hp
      unfold gbFeed; simp only
      split
      · refine ⟨⟨trivial, ?_⟩, by intro c hc; simp [FeedRes.bad] at hc⟩
        intro x hx; simp only [FeedRes.bad, Option.some.injEq] at hx; omega
      · rename_i hc
        exact ⟨⟨⟨hp.1, hp.2, by omega⟩, by intro x h; cases h⟩, by intro c hc; simp [FeedRes.ok] at hc⟩
    | three a sm tm =>
      simp only at hp
      unfold gbFeed; simp only
      split
      · refine ⟨⟨?_, ?_⟩, by intro c hc; simp [FeedRes.bad] at hc⟩
        · simp only [FeedRes.bad]; omega
        · intro x hx; simp only [FeedRes.bad, Option.some.injEq] at hx; omega
      · cases he : gbFour a sm tm (wsub8 b 0x30) with
        | some cp =>
          refine ⟨hinit, ?_⟩
          intro c hc; simp [FeedRes.ok] at hc; rw [hc]; exact gbFour_scalar _ _ _ _ cp he
        | none => exact ⟨hinit, by intro c hc; simp [FeedRes.bad] at hc⟩
  pend := by
    intro s o s' hi h
    obtain ⟨p, pa⟩ := s
    cases pa with
    | none => cases h
    | some a =>
      cases h
      refine ⟨⟨hi.1, by intro x h; cases h⟩, ?_⟩
      intro c hc; simp at hc; rw [hc]; exact scalar_ascii a (hi.2 a rfl)
  eof := by
    intro s e s' hi h
    have h' : (if s.pending = GbPending.none then none
        else some ((gbCount s.pending, 0), (⟨GbPending.none, s.pendingAscii⟩ : GbSt))) = some (e, s') := h
    split at h'
    · cases h'
    · cases h'; exact ⟨trivial, hi.2⟩
  alt := by intro s src m r _ h; cases h

/-! ### ISO-2022-JP -/

theorem iso_checks : checkTrail isoTrail = true := by native_decide

def isoScalar : ScalarInv iso2022JpFam where
  Inv := fun s => s.lead < 256
  init := by decide
  step := by
    intro s b hi _ hb
    show (isoFeed s b).st.lead < 256 ∧ ∀ c ∈ (isoFeed s b).out, isScalar c = true
    obtain ⟨ds, os, l, f, p⟩ := s
    simp only at hi
    cases ds <;> (unfold isoFeed; simp only)
    case trailByte =>
      split
      · exact ⟨hi, by intro c hc; simp [FeedRes.bad] at hc⟩
      · cases he : isoTrail l b with
        | out cs => exact ⟨hi, trail_scalar iso_checks l b hi hb cs he⟩
        | bad => exact ⟨hi, by intro c hc; simp [FeedRes.bad] at hc⟩
    case escape =>
      cases isoEscapeTarget l b with
      | some t =>
        simp only []
        split <;> (refine ⟨?_, ?_⟩ <;> simp [FeedRes.ok, FeedRes.bad])
      | none => exact ⟨hi, by intro c hc; simp [FeedRes.bad] at hc⟩
    all_goals
      repeat' split
      all_goals
        first
          | (refine ⟨hi, ?_⟩; intro c hc; simp [FeedRes.ok, FeedRes.bad] at hc; done)
          | (refine ⟨hb, ?_⟩; intro c hc; simp [FeedRes.ok, FeedRes.bad] at hc; done)
          | (refine ⟨hi, ?_⟩; intro c hc; simp [FeedRes.ok] at hc; rw [hc, isScalar_iff]; omega)
  pend := by
    intro s o s' hi h
    have h' : isoPend s = some (o, s') := h
    obtain ⟨ds, os, l, f, p⟩ := s
    simp only at hi
    unfold isoPend at h'
    cases p with
    | false => simp at h'
    | true =>
      simp only [if_true] at h'
      cases ds <;> simp only [Option.some.injEq, Prod.mk.injEq] at h' <;> obtain ⟨rfl, rfl⟩ := h'
      all_goals first
        | (refine ⟨hi, ?_⟩; intro c hc; simp at hc; done)
        | (refine ⟨Nat.zero_lt_succ _, ?_⟩; intro c hc; simp at hc; rw [hc, isScalar_iff]; omega)
  eof := by
    intro s e s' hi h
    have h' : isoEof s = some (e, s') := h
    obtain ⟨ds, os, l, f, p⟩ := s
    unfold isoEof at h'
    cases ds <;> simp only [Option.some.injEq, Prod.mk.injEq, reduceCtorEq] at h'
    all_goals (obtain ⟨_, rfl⟩ := h'; exact hi)
  alt := by intro s src m r _ h; cases h

end EncodingRs.Lemmas.Scalar
