import EncodingRs.Lemmas.ConformEncBig5Def
/-! C03, Big5: complete evaluation of `big5Check` over the code points 0xD000 ≤ c < 0x10000 (`native_decide`). -/
namespace EncodingRs.Lemmas.ConformEnc

theorem big5_check_r4 : allFrom big5Check 0xD000 0x3000 = true := by native_decide

end EncodingRs.Lemmas.ConformEnc
