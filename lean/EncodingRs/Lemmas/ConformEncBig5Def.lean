import EncodingRs.Lemmas.ConformEnc
/-!
# C03: the Big5 encoder of the model is the Standard's Big5 encoder, for every code point

Complete evaluation over all code points `< 0x110000` (`native_decide`): model over the
tables regenerated from `/repo/src/data.rs`, Standard over the vendored index Big5 with the
"index Big5 pointer" rules (pointers below (0xA1−0x81)·157 excluded, last pointer for six
code points).
-/
namespace EncodingRs.Lemmas.ConformEnc
open EncodingRs EncodingRs.Model EncodingRs.Spec.Encode

def big5Inv : Array Nat := mkInverse indexBig5Index 0x30000

theorem big5Inv_checks :
    checkEntries indexBig5Index big5Inv = true ∧ checkInverse indexBig5Index big5Inv = true := by
  native_decide

/-- "index Big5 pointer" with the first-pointer search replaced by the checked inverse table -/
def big5PtrFast (codePoint : Nat) : Option Nat :=
  if codePoint = 0x2550 ∨ codePoint = 0x255E ∨ codePoint = 0x2561 ∨ codePoint = 0x256A
      ∨ codePoint = 0x5341 ∨ codePoint = 0x5345 then
    indexLastPointer indexBig5Index codePoint
  else invLookup big5Inv codePoint

theorem big5_ptr : indexBig5Pointer = big5PtrFast := by
  funext c
  unfold indexBig5Pointer big5PtrFast
  rw [indexPointer_eq_invLookup _ _ big5Inv_checks.1 big5Inv_checks.2]

def big5Check (c : Nat) : Bool := decide (big5With big5PtrFast c = resOf (big5EncodeChar c) c)

end EncodingRs.Lemmas.ConformEnc
