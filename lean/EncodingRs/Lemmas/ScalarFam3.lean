import EncodingRs.Lemmas.ScalarFam2
import EncodingRs.Lemmas.FamLaws
/-! `ScalarInv` for UTF-8 and UTF-16 (state invariants), and for every variant. -/
namespace EncodingRs.Lemmas.Scalar
open EncodingRs EncodingRs.Model

/-! ### UTF-8: what the partial code point can be, by (needed, seen) -/

def utf8Inv (s : Utf8St) : Prop :=
  (s.needed = 0 ∧ s.codePoint = 0 ∧ s.seen = 0 ∧ s.lower = 0x80 ∧ s.upper = 0xBF) ∨
  (s.needed = 1 ∧ s.seen = 0 ∧ 2 ≤ s.codePoint ∧ s.codePoint ≤ 31 ∧ s.lower = 0x80 ∧ s.upper = 0xBF) ∨
  (s.needed = 2 ∧ s.seen = 0 ∧ s.codePoint ≤ 15 ∧ 0x80 ≤ s.lower ∧ s.upper ≤ 0xBF ∧
      (s.codePoint = 0 → s.lower = 0xA0) ∧ (s.codePoint = 13 → s.upper = 0x9F)) ∨
  (s.needed = 2 ∧ s.seen = 1 ∧ 32 ≤ s.codePoint ∧ s.codePoint ≤ 1023 ∧ ¬ (864 ≤ s.codePoint ∧ s.codePoint ≤ 895)
      ∧ s.lower = 0x80 ∧ s.upper = 0xBF) ∨
  (s.needed = 3 ∧ s.seen = 0 ∧ s.codePoint ≤ 4 ∧ 0x80 ≤ s.lower ∧ s.upper ≤ 0xBF ∧
      (s.codePoint = 0 → s.lower = 0x90) ∧ (s.codePoint = 4 → s.upper = 0x8F)) ∨
  (s.needed = 3 ∧ s.seen = 1 ∧ 16 ≤ s.codePoint ∧ s.codePoint ≤ 271 ∧ s.lower = 0x80 ∧ s.upper = 0xBF) ∨
  (s.needed = 3 ∧ s.seen = 2 ∧ 1024 ≤ s.codePoint ∧ s.codePoint ≤ 17407 ∧ s.lower = 0x80 ∧ s.upper = 0xBF)

theorem utf8_neutral (b : Nat) (hb : b < 256) :
    utf8Inv (utf8Feed utf8Init b).st ∧ ∀ c ∈ (utf8Feed utf8Init b).out, isScalar c = true := by
  have hinit : utf8Inv utf8Init := Or.inl ⟨rfl, rfl, rfl, rfl, rfl⟩
  unfold utf8Feed
  simp only [utf8Init, if_true]
  by_cases h1 : b < 0x80
  · simp only [h1, if_true, FeedRes.ok]
    exact ⟨hinit, by intro c hc; simp at hc; rw [hc]; exact scalar_ascii b h1⟩
  · simp only [h1, if_false]
    by_cases h2 : b < 0xC2
    · simp only [h2, if_true, FeedRes.bad]; exact ⟨hinit, by intro c hc; simp at hc⟩
    · simp only [h2, if_false]
      by_cases h3 : b < 0xE0
      · simp only [h3, if_true, FeedRes.ok]
        refine ⟨?_, by intro c hc; simp at hc⟩
        right; left
        simp only [true_and, and_true]; omega
      · simp only [h3, if_false]
        by_cases h4 : b < 0xF0
        · simp only [h4, if_true, FeedRes.ok]
          refine ⟨?_, by intro c hc; simp at hc⟩
          right; right; left
          by_cases e0 : b = 0xE0
          · simp [e0]
          · by_cases ed : b = 0xED
            · simp [ed]
            · simp only [e0, ed, if_false, true_and, and_true]; omega
        · simp only [h4, if_false]
          by_cases h5 : b < 0xF5
          · simp only [h5, if_true, FeedRes.ok]
            refine ⟨?_, by intro c hc; simp at hc⟩
            right; right; right; right; left
            by_cases f0 : b = 0xF0
            · simp [f0]
            · by_cases f4 : b = 0xF4
              · simp [f4]
              · simp only [f0, f4, if_false, true_and, and_true]; omega
          · simp only [h5, if_false, FeedRes.bad]; exact ⟨hinit, by intro c hc; simp at hc⟩

theorem utf8_cont (cp seen needed lo up b : Nat) (hn : needed ≠ 0) (hb : b < 256)
    (hi : utf8Inv ⟨cp, seen, needed, lo, up⟩) :
    utf8Inv (utf8Feed ⟨cp, seen, needed, lo, up⟩ b).st ∧
      ∀ c ∈ (utf8Feed ⟨cp, seen, needed, lo, up⟩ b).out, isScalar c = true := by
  have hinit : utf8Inv utf8Init := Or.inl ⟨rfl, rfl, rfl, rfl, rfl⟩
  unfold utf8Feed
  simp only [hn, if_false]
  by_cases hr : lo ≤ b ∧ b ≤ up
  · simp only [hr, not_true_eq_false, and_self, if_false]
    unfold utf8Inv at hi
    simp only at hi
    by_cases hd : seen + 1 ≠ needed
    · simp only [hd, if_true, FeedRes.ok, ne_eq, not_false_eq_true]
      refine ⟨?_, by intro c hc; simp at hc⟩
      unfold utf8Inv
      simp only [and_true]
      rcases hi with h | h | h | h | h | h | h
      · exfalso; omega
      · exfalso; omega
      · right; right; right; left; omega
      · exfalso; omega
      · right; right; right; right; right; left; omega
      · right; right; right; right; right; right; omega
      · exfalso; omega
    · simp only [hd, if_false, FeedRes.ok]
      refine ⟨hinit, ?_⟩
      intro c hc
      simp at hc
      rw [hc, isScalar_iff]
      rcases hi with h | h | h | h | h | h | h <;> omega
  · simp only [hr, not_false_eq_true, if_true, FeedRes.bad]
    exact ⟨hinit, by intro c hc; simp at hc⟩

theorem utf8_step (s : Utf8St) (b : Nat) (hi : utf8Inv s) (hb : b < 256) :
    utf8Inv (utf8Feed s b).st ∧ ∀ c ∈ (utf8Feed s b).out, isScalar c = true := by
  obtain ⟨cp, seen, needed, lo, up⟩ := s
  by_cases hn : needed = 0
  · have : (⟨cp, seen, needed, lo, up⟩ : Utf8St) = utf8Init := by
      unfold utf8Inv at hi
      simp only at hi
      have : cp = 0 ∧ seen = 0 ∧ lo = 0x80 ∧ up = 0xBF := by
        rcases hi with h | h | h | h | h | h | h <;> omega
      obtain ⟨rfl, rfl, rfl, rfl⟩ := this
      subst hn; rfl
    rw [this]; exact utf8_neutral b hb
  · exact utf8_cont cp seen needed lo up b hn hb hi

def utf8Scalar : ScalarInv utf8Fam where
  Inv := utf8Inv
  init := Or.inl ⟨rfl, rfl, rfl, rfl, rfl⟩
  step := fun s b hi _ hb => utf8_step s b hi hb
  pend := by intro s o s' _ h; cases h
  eof := by
    intro (s : Utf8St) e (s' : Utf8St) _ h
    have h' : (if s.needed ≠ 0 then some ((s.seen + 1, 0), utf8Init) else none) = some (e, s') := h
    split at h'
    · have : s' = utf8Init := by
        simp only [Option.some.injEq, Prod.mk.injEq] at h'; exact h'.2.symm
      show utf8Inv s'
      rw [this]; exact Or.inl ⟨rfl, rfl, rfl, rfl, rfl⟩
    · cases h'
  alt := by intro s src m r _ h; cases h

/-! ### UTF-16 -/

def utf16Inv (s : Utf16St) : Prop :=
  (∀ l, s.leadByte = some l → l < 256) ∧
  (if s.pendingBmp then isScalar s.leadSurrogate = true
   else s.leadSurrogate = 0 ∨ (0xD800 ≤ s.leadSurrogate ∧ s.leadSurrogate ≤ 0xDBFF))

theorem utf16Unit_lt (be : Bool) (l b : Nat) (hl : l < 256) (hb : b < 256) : utf16Unit be l b < 65536 := by
  unfold utf16Unit; split <;> omega

theorem utf16_step (be : Bool) (s : Utf16St) (b : Nat) (hi : utf16Inv s) (hpb : s.pendingBmp = false) (hb : b < 256) :
    utf16Inv (utf16Feed be s b).st ∧ ∀ c ∈ (utf16Feed be s b).out, isScalar c = true := by
  obtain ⟨lb, ls, pb⟩ := s
  obtain ⟨h1, h2⟩ := hi
  simp only at h1 h2 hpb
  subst hpb
  simp only [Bool.false_eq_true, if_false] at h2
  have nolead : ∀ l, (none : Option Nat) = some l → l < 256 := by intro l h; cases h
  unfold utf16Feed
  cases lb with
  | none =>
    simp only [FeedRes.ok]
    refine ⟨⟨?_, h2⟩, by intro c hc; simp at hc⟩
    intro l hl; simp only [Option.some.injEq] at hl; omega
  | some lead =>
    have hlead : lead < 256 := h1 lead rfl
    have hu := utf16Unit_lt be lead b hlead hb
    simp only []
    generalize utf16Unit be lead b = u at hu ⊢
    by_cases h36 : u / 0x400 = 0x36
    · simp only [h36, if_true]
      by_cases hls : ls ≠ 0
      · simp only [hls, if_true, FeedRes.bad, ne_eq, not_false_eq_true]
        refine ⟨⟨nolead, ?_⟩, by intro c hc; simp at hc⟩
        simp only [Bool.false_eq_true, if_false]; omega
      · simp only [hls, if_false, FeedRes.ok]
        refine ⟨⟨nolead, ?_⟩, by intro c hc; simp at hc⟩
        simp only [Bool.false_eq_true, if_false]; omega
    · simp only [h36, if_false]
      by_cases h37 : u / 0x400 = 0x37
      · simp only [h37, if_true]
        by_cases hls : ls = 0
        · simp only [hls, if_true, FeedRes.bad]
          exact ⟨⟨nolead, Or.inl rfl⟩, by intro c hc; simp at hc⟩
        · simp only [hls, if_false, FeedRes.ok]
          refine ⟨⟨nolead, Or.inl rfl⟩, ?_⟩
          intro c hc
          simp at hc
          rw [hc, isScalar_iff]
          unfold utf16Pair
          omega
      · simp only [h37, if_false]
        by_cases hls : ls ≠ 0
        · simp only [hls, if_true, FeedRes.bad, ne_eq, not_false_eq_true]
          refine ⟨⟨nolead, ?_⟩, by intro c hc; simp at hc⟩
          simp only [if_true, isScalar_iff]; omega
        · simp only [hls, if_false, FeedRes.ok]
          refine ⟨⟨nolead, Or.inl rfl⟩, ?_⟩
          intro c hc
          simp at hc
          rw [hc, isScalar_iff]; omega

def utf16Scalar (be : Bool) : ScalarInv (utf16Fam be) where
  Inv := utf16Inv
  init := ⟨(by intro l h; cases h), Or.inl rfl⟩
  step := fun s b hi hp hb => utf16_step be s b hi ((EncodingRs.Lemmas.FamLaws.utf16_pend_none_iff s be).mp hp) hb
  pend := by
    intro (s : Utf16St) o (s' : Utf16St) hi h
    have h' : (if s.pendingBmp then some ([s.leadSurrogate], (⟨s.leadByte, 0, false⟩ : Utf16St)) else none)
        = some (o, s') := h
    cases hpb : s.pendingBmp
    · simp [hpb] at h'
    · simp only [hpb, if_true, Option.some.injEq, Prod.mk.injEq] at h'
      obtain ⟨ho, hs⟩ := h'
      have h2 := hi.2
      simp only [hpb, if_true] at h2
      refine ⟨?_, ?_⟩
      · show utf16Inv s'
        rw [← hs]; exact ⟨hi.1, Or.inl rfl⟩
      · intro c hc; rw [← ho] at hc; simp at hc; rw [hc]; exact h2
  eof := by
    intro (s : Utf16St) e (s' : Utf16St) _ h
    have h' : utf16Eof s = some (e, s') := h
    have : s' = utf16Init := by
      unfold utf16Eof at h'
      repeat' split at h'
      all_goals first
        | (simp only [Option.some.injEq, Prod.mk.injEq] at h'; exact h'.2.symm)
        | cases h'
    show utf16Inv s'
    rw [this]; exact ⟨(by intro l h; cases h), Or.inl rfl⟩
  alt := by
    intro (s : Utf16St) src m (r : FeedRes Utf16St) _ h
    have h' : utf16Alt be s src = some (m, r) := h
    unfold utf16Alt at h'
    split at h'
    · cases h'
    · split at h'
      · simp only at h'
        split at h'
        · simp only [Option.some.injEq, Prod.mk.injEq] at h'
          rw [← h'.2]
          exact ⟨⟨(by intro l h; cases h), Or.inl rfl⟩, (by intro c hc; simp [FeedRes.bad] at hc)⟩
        · cases h'
      · cases h'

/-- every variant decoder writes only scalar values -/
def variantScalar : (v : Gen.Variant) → ScalarInv (famOfVariant v)
  | .singleByte t _ _ _ => singleByteScalar _ (gen_tables_ok t)
  | .utf8 => utf8Scalar
  | .gbk => gbScalar
  | .gb18030 => gbScalar
  | .big5 => big5Scalar
  | .eucJp => eucJpScalar
  | .iso2022Jp => isoScalar
  | .shiftJis => shiftJisScalar
  | .eucKr => eucKrScalar
  | .replacement => replacementScalar
  | .utf16Be => utf16Scalar true
  | .utf16Le => utf16Scalar false
  | .userDefined => userDefinedScalar

end EncodingRs.Lemmas.Scalar
