import EncodingRs.Thm.C10Final
/-!
Every result of `Decoder.rawCall` is one of seven *leaves* (`Leaf`): the panic of a finished
decoder, nothing at all (`idle`), waiting for more of a potential BOM (`wait`), a call of the current
decoder on the whole source (`direct`), a call of a fresh UTF-8 / UTF-16 decoder on the source minus
the BOM (`bom8`, `bom16`), or the replay of one / two withheld bytes followed by the source (`one`,
`two`).  Properties of `rawCall` that do not depend on *which* bytes select a leaf (C07: sufficiency of
`Decoder::max_*`; invariants) are proved by cases on the leaf.
-/
namespace EncodingRs.Lemmas.LifeLeaf
open EncodingRs EncodingRs.Model EncodingRs.Lemmas.Life EncodingRs.Thm.C10

variable {F : Fam}

/-- the `Seen…` states -/
def seenLife : Life → Bool
  | .seenUtf8First | .seenUtf8Second | .seenUtf16BeFirst | .seenUtf16LeFirst => true
  | _ => false

/-- states in which `EF BB BF` may still switch the decoder to UTF-8 -/
def canSwitch8 : Life → Bool
  | .atStart | .atUtf8Start | .seenUtf8First | .seenUtf8Second => true
  | _ => false

/-- states in which `FE FF` (`be`) / `FF FE` may still switch the decoder to UTF-16 -/
def canSwitch16 (be : Bool) : Life → Bool
  | .atStart => true
  | .atUtf16BeStart | .seenUtf16BeFirst => be
  | .atUtf16LeStart | .seenUtf16LeFirst => !be
  | _ => false

/-- the single withheld byte that is replayed first -/
def replayOne : Life → Option Nat
  | .seenUtf8First => some 0xEF
  | .seenUtf16BeFirst => some 0xFE
  | .seenUtf16LeFirst => some 0xFF
  | .convertingWithPendingBB => some 0xBB
  | _ => none

inductive Leaf (k : Sink) (d : Decoder F) (src : List Nat) (last : Bool) (b1 b2 : Budget) : DRes F → Prop
  | finished : d.life = .finished → Leaf k d src last b1 b2 .panic
  | idle : sniffingLife d.life = true → src = [] → Leaf k d src last b1 b2 (.ok .inputEmpty 0 [] d [])
  | wait (n : Nat) (life' : Life) : sniffingLife d.life = true → seenLife life' = true → last = false →
      Leaf k d src last b1 b2 (.ok .inputEmpty n [] ⟨life', d.cur⟩ [])
  | direct : (d.life = .converting ∨ startLife d.life = true) →
      Leaf k d src last b1 b2 (checkingEnd k d.cur src last b2 0 [] [])
  | bom8 (off : Nat) : canSwitch8 d.life = true →
      Leaf k d src last b1 b2 (checkingEnd k (.utf8 utf8Fam.init) src last b2 off [] [])
  | bom16 (be : Bool) (off : Nat) : canSwitch16 be d.life = true →
      Leaf k d src last b1 b2
        (checkingEnd k (if be then .utf16be (utf16Fam true).init else .utf16le (utf16Fam false).init) src last b2
          off [] [])
  | one (fb : Nat) : replayOne d.life = some fb → Leaf k d src last b1 b2 (afterOne k d.cur src last fb b1 b2)
  | two : d.life = .seenUtf8Second → Leaf k d src last b1 b2 (afterTwo k d.cur src last b1 b2)

theorem second_leaf (k : Sink) (d : Decoder F) (src : List Nat) (last : Bool) (b1 b2 : Budget) (offset : Nat)
    (rest : List Nat)
    (h : (offset = 1 ∧ d.life = .seenUtf8First) ∨ (offset ≠ 1 ∧ (d.life = .atStart ∨ d.life = .atUtf8Start))) :
    Leaf k d src last b1 b2 (Decoder.rawCall.seenUtf8Second k d src last b1 b2 offset rest) := by
  have hsn : sniffingLife d.life = true := by
    rcases h with ⟨_, h⟩ | ⟨_, h | h⟩ <;> rw [h] <;> rfl
  have hc8 : canSwitch8 d.life = true := by
    rcases h with ⟨_, h⟩ | ⟨_, h | h⟩ <;> rw [h] <;> rfl
  have hleaf : Leaf k d src last b1 b2
      (if offset = 1 then afterOne k d.cur src last 0xEF b1 b2 else checkingEnd k d.cur src last b2 0 [] []) := by
    rcases h with ⟨h1, h2⟩ | ⟨h1, h2⟩
    · simp only [h1, if_true]
      exact Leaf.one 0xEF (by rw [h2]; rfl)
    · simp only [h1, if_false]
      exact Leaf.direct (Or.inr (by rcases h2 with h2 | h2 <;> rw [h2] <;> rfl))
  unfold Decoder.rawCall.seenUtf8Second
  split
  · cases last with
    | true => simp only [if_true]; exact hleaf
    | false =>
      simp only [Bool.false_eq_true, if_false]
      exact Leaf.wait offset .seenUtf8Second hsn rfl rfl
  · exact Leaf.bom8 _ hc8
  · exact hleaf

theorem first_leaf (k : Sink) (d : Decoder F) (src : List Nat) (last : Bool) (b1 b2 : Budget)
    (rest : List Nat) (h : d.life = .atStart ∨ d.life = .atUtf8Start) :
    Leaf k d src last b1 b2 (Decoder.rawCall.seenUtf8First k d src last b1 b2 rest) := by
  have hsn : sniffingLife d.life = true := by rcases h with h | h <;> rw [h] <;> rfl
  have hst : startLife d.life = true := by rcases h with h | h <;> rw [h] <;> rfl
  unfold Decoder.rawCall.seenUtf8First
  split
  · cases last with
    | true => simp only [if_true]; exact Leaf.direct (Or.inr hst)
    | false =>
      simp only [Bool.false_eq_true, if_false]
      exact Leaf.wait 1 .seenUtf8First hsn rfl rfl
  · exact second_leaf k d src last b1 b2 2 _ (Or.inr ⟨by decide, h⟩)
  · exact Leaf.direct (Or.inr hst)

theorem first16_leaf (k : Sink) (d : Decoder F) (src : List Nat) (last : Bool) (b1 b2 : Budget) (be : Bool)
    (rest : List Nat) (h : d.life = .atStart ∨ d.life = (if be then .atUtf16BeStart else .atUtf16LeStart)) :
    Leaf k d src last b1 b2 (Decoder.rawCall.seenUtf16First k d src last b2 be rest) := by
  have hsn : sniffingLife d.life = true := by
    rcases h with h | h <;> rw [h] <;> cases be <;> rfl
  have hst : startLife d.life = true := by
    rcases h with h | h <;> rw [h] <;> cases be <;> rfl
  have hc : canSwitch16 be d.life = true := by
    rcases h with h | h <;> rw [h] <;> cases be <;> rfl
  unfold Decoder.rawCall.seenUtf16First
  split
  · cases last with
    | true => simp only [if_true]; exact Leaf.direct (Or.inr hst)
    | false =>
      simp only [Bool.false_eq_true, if_false]
      exact Leaf.wait 1 _ hsn (by cases be <;> rfl) rfl
  · cases be with
    | true =>
      simp only [if_true]
      split
      · exact Leaf.bom16 true 2 hc
      · exact Leaf.direct (Or.inr hst)
    | false =>
      simp only [Bool.false_eq_true, if_false]
      split
      · exact Leaf.bom16 false 2 hc
      · exact Leaf.direct (Or.inr hst)

/-- **the leaf decomposition of `Decoder.rawCall`** -/
theorem rawCall_leaf (k : Sink) (d : Decoder F) (src : List Nat) (last : Bool) (b1 b2 : Budget) :
    Leaf k d src last b1 b2 (d.rawCall k src last b1 b2) := by
  obtain ⟨life, c⟩ := d
  cases life
  case converting => unfold Decoder.rawCall; exact Leaf.direct (Or.inl rfl)
  case finished => unfold Decoder.rawCall; exact Leaf.finished rfl
  case convertingWithPendingBB => unfold Decoder.rawCall; exact Leaf.one 0xBB rfl
  case atStart =>
    unfold Decoder.rawCall; simp only
    split
    · exact Leaf.idle rfl rfl
    · exact first_leaf k _ _ last b1 b2 _ (Or.inl rfl)
    · exact first16_leaf k _ _ last b1 b2 true _ (Or.inl rfl)
    · exact first16_leaf k _ _ last b1 b2 false _ (Or.inl rfl)
    · exact Leaf.direct (Or.inr rfl)
  case atUtf8Start =>
    unfold Decoder.rawCall; simp only
    split
    · exact Leaf.idle rfl rfl
    · exact first_leaf k _ _ last b1 b2 _ (Or.inr rfl)
    · exact Leaf.direct (Or.inr rfl)
  case atUtf16BeStart =>
    unfold Decoder.rawCall; simp only
    split
    · exact Leaf.idle rfl rfl
    · exact first16_leaf k _ _ last b1 b2 true _ (Or.inr rfl)
    · exact Leaf.direct (Or.inr rfl)
  case atUtf16LeStart =>
    unfold Decoder.rawCall; simp only
    split
    · exact Leaf.idle rfl rfl
    · exact first16_leaf k _ _ last b1 b2 false _ (Or.inr rfl)
    · exact Leaf.direct (Or.inr rfl)
  case seenUtf8First =>
    unfold Decoder.rawCall; simp only
    split
    · cases last with
      | true => simp only [if_true]; exact Leaf.one 0xEF rfl
      | false => simp only [Bool.false_eq_true, if_false]; exact Leaf.idle rfl rfl
    · exact second_leaf k _ _ last b1 b2 1 _ (Or.inl ⟨rfl, rfl⟩)
    · exact Leaf.one 0xEF rfl
  case seenUtf8Second =>
    unfold Decoder.rawCall; simp only
    split
    · cases last with
      | true => simp only [if_true]; exact Leaf.two rfl
      | false => simp only [Bool.false_eq_true, if_false]; exact Leaf.idle rfl rfl
    · exact Leaf.bom8 1 rfl
    · exact Leaf.two rfl
  case seenUtf16BeFirst =>
    unfold Decoder.rawCall; simp only
    split
    · cases last with
      | true => simp only [if_true]; exact Leaf.one 0xFE rfl
      | false => simp only [Bool.false_eq_true, if_false]; exact Leaf.idle rfl rfl
    · exact Leaf.bom16 true 1 rfl
    · exact Leaf.one 0xFE rfl
  case seenUtf16LeFirst =>
    unfold Decoder.rawCall; simp only
    split
    · cases last with
      | true => simp only [if_true]; exact Leaf.one 0xFF rfl
      | false => simp only [Bool.false_eq_true, if_false]; exact Leaf.idle rfl rfl
    · exact Leaf.bom16 false 1 rfl
    · exact Leaf.one 0xFF rfl

end EncodingRs.Lemmas.LifeLeaf
