import EncodingRs.Lemmas.RoundTrip
import EncodingRs.Model.EncFam
import EncodingRs.Thm.C19
/-!
# Round trip, per character (C12)

* `fold v c`: the character a round trip through encoding `v` turns `c` into —
  the documented folds of the Standard's encoders, everything else is kept.
* `checkRange`: the Bool checker "every scalar value of a range that the encoder
  maps is decoded, from the initial state and back to it, to exactly `[f c]`",
  evaluated by `native_decide` in `Lemmas/RT/*.lean`.
* `StatelessOK`: the per-character fact for a stateless encoder, including the
  unmappable case (the numeric character reference is ASCII and decodes to
  itself), and the stream-level lemma `stateless_feedAll`.
-/
namespace EncodingRs.Lemmas.RoundTrip
open EncodingRs EncodingRs.Model EncodingRs.Lemmas.Core EncodingRs.Lemmas.EncCore

/-! ### the fold -/

/-- full-width forms of the 63 half-width katakana U+FF61 … U+FF9F (what the ISO-2022-JP encoder
writes for them, WHATWG "index ISO-2022-JP katakana") -/
def halfWidthToFull : Array Nat := #[
  0x3002, 0x300C, 0x300D, 0x3001, 0x30FB, 0x30F2, 0x30A1, 0x30A3, 0x30A5, 0x30A7, 0x30A9, 0x30E3,
  0x30E5, 0x30E7, 0x30C3, 0x30FC, 0x30A2, 0x30A4, 0x30A6, 0x30A8, 0x30AA, 0x30AB, 0x30AD, 0x30AF,
  0x30B1, 0x30B3, 0x30B5, 0x30B7, 0x30B9, 0x30BB, 0x30BD, 0x30BF, 0x30C1, 0x30C4, 0x30C6, 0x30C8,
  0x30CA, 0x30CB, 0x30CC, 0x30CD, 0x30CE, 0x30CF, 0x30D2, 0x30D5, 0x30D8, 0x30DB, 0x30DE, 0x30DF,
  0x30E0, 0x30E1, 0x30E2, 0x30E4, 0x30E6, 0x30E8, 0x30E9, 0x30EA, 0x30EB, 0x30EC, 0x30ED, 0x30EF,
  0x30F3, 0x309B, 0x309C]

/-- GB18030-2022: the encoders of GBK and gb18030 write, for each of the eighteen private-use code
points of `GB18030_2022_OVERRIDE_PUA`, the two bytes that GB18030-2005 assigned to it
(`GB18030_2022_OVERRIDE_BYTES`); the (2022) decoder reads those bytes as the standard (non-PUA)
character that GB18030-2022 moved there.  So the fold goes **PUA ↦ standard character**:
U+E78D…U+E796 ↦ the vertical presentation forms U+FE10…U+FE19 (in the order of the 2022 index:
FE10, FE12, FE11, FE13…FE19) and U+E81E, E826, E82B, E82C, E832, E843, E854, E864 ↦ U+9FB4…U+9FBB. -/
def gb2022Pairs : List (Nat × Nat) := [
  (0xE78D, 0xFE10), (0xE78E, 0xFE12), (0xE78F, 0xFE11), (0xE790, 0xFE13), (0xE791, 0xFE14),
  (0xE792, 0xFE15), (0xE793, 0xFE16), (0xE794, 0xFE17), (0xE795, 0xFE18), (0xE796, 0xFE19),
  (0xE81E, 0x9FB4), (0xE826, 0x9FB5), (0xE82B, 0x9FB6), (0xE82C, 0x9FB7), (0xE832, 0x9FB8),
  (0xE843, 0x9FB9), (0xE854, 0x9FBA), (0xE864, 0x9FBB)]

def gb2022Fold (c : Nat) : Nat :=
  if 0xE78D ≤ c ∧ c ≤ 0xE864 then
    match gb2022Pairs.find? (fun p => p.1 == c) with
    | some p => p.2
    | none => c
  else c

/-- EUC-JP and Shift_JIS -/
def foldJis8 (c : Nat) : Nat :=
  if c = 0xA5 then 0x5C else if c = 0x203E then 0x7E else if c = 0x2212 then 0xFF0D else c

/-- ISO-2022-JP (U+00A5 and U+203E are *kept*: they travel through the Roman state) -/
def foldIso (c : Nat) : Nat :=
  if c = 0x2212 then 0xFF0D
  else if 0xFF61 ≤ c ∧ c ≤ 0xFF9F then halfWidthToFull.getD (c - 0xFF61) 0
  else c

/-- what a round trip through the encoder and decoder of `v` turns a mappable `c` into -/
def fold : Gen.Variant → Nat → Nat
  | .eucJp, c => foldJis8 c
  | .shiftJis, c => foldJis8 c
  | .iso2022Jp, c => foldIso c
  | .gbk, c => gb2022Fold c
  | .gb18030, c => gb2022Fold c
  | _, c => c

/-! ### the checker -/

/-- all scalar values `lo ≤ c < lo + n` that `enc` maps are decoded by `F`, from the initial state
and back to it (`isInit`), to exactly `[f c]` -/
def checkRange (F : Fam) (isInit : F.σ → Bool) (enc : Nat → Option (List Nat)) (f : Nat → Nat)
    (lo n : Nat) : Bool :=
  (List.range n).all fun i =>
    let c := lo + i
    !isScalar c ||
    match enc c with
    | none => true
    | some bs =>
      match feedAll F F.init bs with
      | some (o, s') => o == [f c] && isInit s'
      | none => false

theorem all_range {n : Nat} {p : Nat → Bool} (h : (List.range n).all p = true) : ∀ i, i < n → p i = true := by
  intro i hi
  rw [List.all_eq_true] at h
  exact h i (List.mem_range.mpr hi)

/-- what `checkRange` establishes for one character -/
def CharOK (F : Fam) (enc : Nat → Option (List Nat)) (f : Nat → Nat) (c : Nat) : Prop :=
  ∀ bs, enc c = some bs → feedAll F F.init bs = some ([f c], F.init)

theorem checkRange_sound (F : Fam) (isInit : F.σ → Bool) (hinit : ∀ s, isInit s = true → s = F.init)
    (enc : Nat → Option (List Nat)) (f : Nat → Nat) (lo n : Nat)
    (h : checkRange F isInit enc f lo n = true) (c : Nat) (h1 : lo ≤ c) (h2 : c < lo + n)
    (hs : isScalar c = true) : CharOK F enc f c := by
  have := all_range h (c - lo) (by omega)
  simp only [show lo + (c - lo) = c by omega, hs, Bool.not_true, Bool.false_or] at this
  intro bs hbs
  rw [hbs] at this
  simp only at this
  split at this
  · rename_i o s' heq
    simp only [Bool.and_eq_true, beq_iff_eq] at this
    rw [heq, this.1, hinit s' this.2]
  · cases this

/-! ### stateless encoders, stream level -/

/-- the bytes an `Encoder` with replacement writes for one character -/
def cbytes (enc : Nat → Option (List Nat)) (c : Nat) : List Nat :=
  match enc c with
  | some bs => bs
  | none => ncr c

/-- what they decode to -/
def cout (enc : Nat → Option (List Nat)) (f : Nat → Nat) (c : Nat) : List Nat :=
  match enc c with
  | some _ => [f c]
  | none => ncr c

/-- the decoder is in its initial state between characters, accepts the encoder's bytes for every
scalar value, and passes the bytes of a numeric character reference through unchanged -/
structure StatelessOK (F : Fam) (enc : Nat → Option (List Nat)) (f : Nat → Nat) : Prop where
  pend : F.pend F.init = none
  eof : F.eof F.init = none
  char : ∀ c, isScalar c = true → CharOK F enc f c
  pass : ∀ b, isNcrByte b = true → F.feed F.init b = ⟨F.init, [b], none, false⟩

theorem StatelessOK.ncr_ok {F : Fam} {enc f} (h : StatelessOK F enc f) (u : Nat) :
    feedAll F F.init (ncr u) = some (ncr u, F.init) :=
  feedAll_pass F F.init h.pend (ncr u) (fun b hb => h.pass b (ncr_bytes u b hb))

theorem StatelessOK.cbytes_ok {F : Fam} {enc f} (h : StatelessOK F enc f) (c : Nat) (hc : isScalar c = true) :
    feedAll F F.init (cbytes enc c) = some (cout enc f c, F.init) := by
  unfold RoundTrip.cbytes cout
  cases he : enc c with
  | some bs => exact h.char c hc bs he
  | none => exact h.ncr_ok c

theorem processChar_one (E : EFam) (s : E.σ) (c f : Nat) (hu : (E.step s c).unread = false) :
    processChar E (f + 1) s c .unlimited [] = match (E.step s c).unmappable with
      | some u => .unmappable (E.step s c).st (E.step s c).out u
      | none => .done (E.step s c).st (E.step s c).out .unlimited := by
  simp only [processChar, Budget.isZero, Bool.false_eq_true, if_false, hu, List.nil_append, Budget.dec]
  cases (E.step s c).unmappable <;> rfl

theorem stateless_processChar_some (enc : Nat → Option (List Nat)) (need c : Nat) (bs : List Nat)
    (s : (statelessEFam enc need).σ) (h : enc c = some bs) :
    processChar (statelessEFam enc need) ((statelessEFam enc need).rank s c + 1) s c .unlimited []
      = .done s bs .unlimited := by
  have h1 : (statelessEFam enc need).step s c = EStep.ok () bs := by
    show statelessStep enc s c = _
    unfold statelessStep; simp only [h]
  rw [processChar_one _ _ _ _ (by rw [h1]; rfl), h1]
  rfl

theorem stateless_processChar_none (enc : Nat → Option (List Nat)) (need c : Nat)
    (s : (statelessEFam enc need).σ) (h : enc c = none) :
    processChar (statelessEFam enc need) ((statelessEFam enc need).rank s c + 1) s c .unlimited []
      = .unmappable s [] c := by
  have h1 : (statelessEFam enc need).step s c = EStep.unmap () c := by
    show statelessStep enc s c = _
    unfold statelessStep; simp only [h]
  rw [processChar_one _ _ _ _ (by rw [h1]; rfl), h1]
  rfl

theorem stateless_erefOpen (enc : Nat → Option (List Nat)) (need : Nat) : ∀ (text : List Nat)
    (s : (statelessEFam enc need).σ),
    subst (erefOpen (statelessEFam enc need) s text).1 = text.flatMap (cbytes enc) := by
  intro text
  induction text with
  | nil => intro s; rfl
  | cons c t ih =>
    intro s
    simp only [erefOpen, List.flatMap_cons, subst_append]
    rw [ih]
    congr 1
    unfold cbytes
    cases he : enc c with
    | some bs => rw [stateless_processChar_some enc need c bs s he]; simp [charEvs, subst_bytes]
    | none => rw [stateless_processChar_none enc need c s he]; simp [charEvs, subst, substEv]

theorem stateless_eref (enc : Nat → Option (List Nat)) (need : Nat) (text : List Nat)
    (s : (statelessEFam enc need).σ) :
    subst (eref (statelessEFam enc need) s text) = text.flatMap (cbytes enc) := by
  have := eref_append (statelessEFam enc need) text [] s
  rw [List.append_nil] at this
  rw [this, subst_append, stateless_erefOpen, eref_nil]
  show _ ++ subst ([].map EEv.byte) = _
  simp [subst]

/-- **stream-level round trip of a stateless encoder**, in `feedAll` form -/
theorem stateless_feedAll {F : Fam} {enc f} (h : StatelessOK F enc f) : ∀ (text : List Nat),
    (∀ c ∈ text, isScalar c = true) →
    feedAll F F.init (text.flatMap (cbytes enc)) = some (text.flatMap (cout enc f), F.init) := by
  intro text
  induction text with
  | nil => intro _; rfl
  | cons c t ih =>
    intro hs
    simp only [List.flatMap_cons]
    exact feedAll_append_some F _ _ _ _ _ _ _ (h.cbytes_ok c (hs c (by simp)))
      (ih (fun x hx => hs x (by simp [hx])))

/-! ### "is the initial state" tests for `checkRange` -/

def isInitUnit (_ : Unit) : Bool := true
def isInitOpt (s : Option Nat) : Bool := s.isNone
def isInitEucJp (s : EucJpSt) : Bool := decide (s = EucJpSt.none)
def isInitGb (s : GbSt) : Bool := decide (s = gbInit)
def isInitUtf8 (s : Utf8St) : Bool := decide (s = utf8Init)

theorem isInitUnit_sound (s : Unit) (_ : isInitUnit s = true) : s = () := rfl
theorem isInitOpt_sound (s : Option Nat) (h : isInitOpt s = true) : s = none := by
  simpa [isInitOpt] using h
theorem isInitEucJp_sound (s : EucJpSt) (h : isInitEucJp s = true) : s = EucJpSt.none := by
  simpa [isInitEucJp] using h
theorem isInitGb_sound (s : GbSt) (h : isInitGb s = true) : s = gbInit := by
  simpa [isInitGb] using h
theorem isInitUtf8_sound (s : Utf8St) (h : isInitUtf8 s = true) : s = utf8Init := by
  simpa [isInitUtf8] using h

/-- the parameters of the single-byte encodings of `Gen.encodings` -/
def sbParams : List (Nat × Nat × Nat × Nat) :=
  Gen.encodings.filterMap fun e =>
    match e.variant with
    | .singleByte t a b l => some (t, a, b, l)
    | _ => none

def sbTable (p : Nat × Nat × Nat × Nat) : Array Nat := Gen.singleByteTables.getD p.1 #[]

def sbEnc (p : Nat × Nat × Nat × Nat) : Nat → Option (List Nat) :=
  singleByteEncodeChar (sbTable p) p.2.1 p.2.2.1 p.2.2.2

def sbCheck (p : Nat × Nat × Nat × Nat) : Bool :=
  checkRange (singleByteFam (sbTable p)) isInitUnit (sbEnc p) id 0 0x10000

end EncodingRs.Lemmas.RoundTrip
