import EncodingRs.Model.Encoder
/-!
`withNeed E n`: the encoder family `E` with another space-request bound.  Nothing that runs with an
unlimited budget (reference runs, per-character results) can observe `need`; used to transfer
results proved for `statelessEFam enc k` to `utf8EFam` (whose `need` is exact, see C07).
-/
namespace EncodingRs.Lemmas.WithNeed
open EncodingRs EncodingRs.Model

@[reducible] def withNeed (E : EFam) (n : E.σ → Nat → Nat) : EFam := { E with need := n }

theorem processChar_withNeed (E : EFam) (n : E.σ → Nat → Nat) : ∀ (fuel : Nat) (s : E.σ) (c : Nat) (acc : List Nat),
    processChar (withNeed E n) fuel s c .unlimited acc = processChar E fuel s c .unlimited acc := by
  intro fuel
  induction fuel with
  | zero => intro s c acc; rfl
  | succ fuel ih =>
    intro s c acc
    simp only [processChar, Budget.isZero, Bool.false_eq_true, if_false, Budget.dec]
    show (match (E.step s c).unmappable with
      | some u => CharRes.unmappable (E.step s c).st (acc ++ (E.step s c).out) u
      | none => if (E.step s c).unread = true then processChar (withNeed E n) fuel (E.step s c).st c .unlimited (acc ++ (E.step s c).out)
          else CharRes.done (E.step s c).st (acc ++ (E.step s c).out) .unlimited) = _
    rw [ih]
    rfl

theorem utf8EFam_eq : utf8EFam = withNeed (statelessEFam utf8EncodeChar 4) (fun _ c => (encodeUtf8 c).length) := rfl

end EncodingRs.Lemmas.WithNeed
