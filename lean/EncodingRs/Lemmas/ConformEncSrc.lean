import EncodingRs.Lemmas.ConformEncStream
/-!
# C03: determinism and executability of "process a queue", the link between `eref` and the raw
call model `erun`, and the UTF-16 / UTF-8 sources
-/
namespace EncodingRs.Lemmas.ConformEnc
open EncodingRs EncodingRs.Spec.Encode
open EncodingRs.Model hiding Ev

/-! ### `Runs` is deterministic, and `run` computes it -/

theorem runs_unique {E : Encoder} {mode : Mode} {s : E.σ} {q : List Nat} {o1 o2 : List Ev}
    (h1 : Runs E mode s q o1) (h2 : Runs E mode s q o2) : o1 = o2 := by
  induction h1 generalizing o2 with
  | finished s q hf => cases h2 <;> simp_all
  | bytes s q bs out hb _ ih =>
    cases h2 with
    | bytes _ _ bs' out' hb' hr' =>
      rw [hb] at hb'
      cases hb'
      rw [ih hr']
    | _ => simp_all
  | errorFatal s q c hm he =>
    cases h2 with
    | errorFatal _ _ c' _ he' => rw [he] at he'; cases he'; rfl
    | _ => simp_all
  | errorReport s q c out hm he _ ih =>
    cases h2 with
    | errorReport _ _ c' out' _ he' hr' =>
      rw [he] at he'
      cases he'
      rw [ih hr']
    | _ => simp_all
  | errorHtml s q c out hm he _ ih =>
    cases h2 with
    | errorHtml _ _ c' _ _ he' hr' =>
      rw [he] at he'
      cases he'
      exact ih hr'
    | _ => simp_all

/-- whatever the fuelled function returns is a run of "process a queue" -/
theorem run_sound (E : Encoder) (mode : Mode) : ∀ (fuel : Nat) (s : E.σ) (q : List Nat) (out : List Ev),
    Spec.Encode.run E mode fuel s q = some out → Runs E mode s q out
  | 0, _, _, _, h => by simp [Spec.Encode.run] at h
  | fuel + 1, s, q, out, h => by
    unfold Spec.Encode.run at h
    simp only at h
    split at h
    · rename_i hres
      cases h
      exact Runs.finished s q hres
    · rename_i bs hres
      cases hr : Spec.Encode.run E mode fuel (E.handler s q.head?).st ((E.handler s q.head?).queueAfter q) with
      | none => rw [hr] at h; cases h
      | some o =>
        rw [hr] at h
        cases h
        exact Runs.bytes s q bs o hres (run_sound E mode fuel _ _ o hr)
    · rename_i c hres
      cases mode with
      | fatal =>
        cases h
        exact Runs.errorFatal s q c rfl hres
      | report =>
        cases hr : Spec.Encode.run E .report fuel (E.handler s q.head?).st ((E.handler s q.head?).queueAfter q) with
        | none => simp only [hr] at h; cases h
        | some o =>
          simp only [hr] at h
          cases h
          exact Runs.errorReport s q c o rfl hres (run_sound E .report fuel _ _ o hr)
      | html =>
        exact Runs.errorHtml s q c out rfl hres (run_sound E .html fuel _ _ out h)

/-! ### `eref` is what repeated raw calls produce -/

theorem processChar_unlimited (F : EFam) : ∀ (fuel : Nat) (s : F.σ) (c : Nat) (acc : List Nat),
    match processChar F fuel s c .unlimited acc with
    | .done _ _ b => b = .unlimited
    | .full .. => False
    | .unmappable .. => True
  | 0, s, c, acc => by simp [processChar]
  | fuel + 1, s, c, acc => by
    rw [processChar]
    simp only [Budget.isZero, Budget.dec]
    cases hu : (F.step s c).unmappable with
    | some u => simp
    | none =>
      by_cases hr : (F.step s c).unread = true
      · simp only [hr, if_true]
        exact processChar_unlimited F fuel _ c _
      · simp [hr]

/-- one raw call with `last = true` and nothing that stops it, on a text given as items of width 1:
either everything is consumed and the call wrote what `eref` says, or it stops at the first
`Unmappable` and `eref` continues with the rest of the text from the state the call left -/
theorem eref_erun (F : EFam) : ∀ (text : List Nat) (s : F.σ),
    match (erun F true s (text.map fun c => (c, 1)) .unlimited).res with
    | .inputEmpty =>
      eref F s text = (erun F true s (text.map fun c => (c, 1)) .unlimited).out.map Ev.byte
        ∧ (erun F true s (text.map fun c => (c, 1)) .unlimited).read = text.length
    | .unmappable u =>
      0 < (erun F true s (text.map fun c => (c, 1)) .unlimited).read
        ∧ (erun F true s (text.map fun c => (c, 1)) .unlimited).read ≤ text.length
        ∧ eref F s text = (erun F true s (text.map fun c => (c, 1)) .unlimited).out.map Ev.byte
            ++ (Ev.error u :: eref F (erun F true s (text.map fun c => (c, 1)) .unlimited).st
                  (text.drop (erun F true s (text.map fun c => (c, 1)) .unlimited).read))
    | .outputFull => False
  | [], s => by
    simp only [List.map_nil, erun, Budget.isZero, eref]
    by_cases he : (F.eof s).1.isEmpty = true
    · simp only [he, if_true]
      have : (F.eof s).1 = [] := List.isEmpty_iff.mp he
      simp [this]
    · simp [he]
  | c :: rest, s => by
    have hp := processChar_unlimited F (F.rank s c + 1) s c []
    have ih := eref_erun F rest
    simp only [List.map_cons, erun, eref, charOut]
    cases hpc : processChar F (F.rank s c + 1) s c .unlimited [] with
    | full st out need => rw [hpc] at hp; exact hp.elim
    | unmappable st out u =>
      simp [evsOfReport]
    | done st out b =>
      rw [hpc] at hp
      simp only at hp
      subst hp
      simp only
      have ih' := ih st
      cases hres : (erun F true st (rest.map fun c => (c, 1)) .unlimited).res with
      | inputEmpty =>
        rw [hres] at ih'
        simp only at ih'
        simp only [evsOfReport, List.nil_append]
        refine ⟨?_, ?_⟩
        · rw [ih'.1, List.map_append]
        · rw [ih'.2, List.length_cons]
      | outputFull => rw [hres] at ih'; exact ih'.elim
      | unmappable u =>
        rw [hres] at ih'
        simp only at ih'
        simp only [evsOfReport, List.nil_append]
        refine ⟨by omega, by simp only [List.length_cons]; omega, ?_⟩
        rw [ih'.2.2, List.map_append, List.append_assoc]
        rfl

/-! ### (c) the sources -/

theorem itemsOf_succ (read : List Nat → Option (Nat × Nat)) (fuel : Nat) (units : List Nat) :
    itemsOf read (fuel + 1) units
      = match read units with
        | none => []
        | some (c, w) => (c, w) :: itemsOf read fuel (units.drop w) := rfl

theorem itemsOf_read16 : ∀ (fuel : Nat) (units : List Nat), units.length ≤ fuel →
    (itemsOf read16 fuel units).map (·.1) = Spec.Conv.decodeUtf16Lossy units
  | 0, units, h => by
    have : units = [] := List.length_eq_zero_iff.mp (by omega)
    subst this
    simp [itemsOf, Spec.Conv.decodeUtf16Lossy]
  | fuel + 1, [], _ => by simp [itemsOf, read16, Spec.Conv.decodeUtf16Lossy]
  | fuel + 1, u :: rest, h => by
    have hlen : rest.length ≤ fuel := by simpa using h
    rw [itemsOf_succ]
    by_cases h1 : u < 0xD800 ∨ 0xDFFF < u
    · have hh : Spec.Conv.isHighSurrogate u = false := by unfold Spec.Conv.isHighSurrogate; simp; omega
      have hl : Spec.Conv.isLowSurrogate u = false := by unfold Spec.Conv.isLowSurrogate; simp; omega
      have hread : read16 (u :: rest) = some (u, 1) := by simp [read16, h1]
      rw [hread]
      simp only [List.map_cons, List.drop_succ_cons, List.drop_zero]
      rw [itemsOf_read16 fuel rest hlen]
      conv => rhs; rw [Spec.Conv.decodeUtf16Lossy.eq_def]
      simp [hh, hl]
    · by_cases h2 : u ≤ 0xDBFF
      · have hh : Spec.Conv.isHighSurrogate u = true := by unfold Spec.Conv.isHighSurrogate; simp; omega
        cases rest with
        | nil =>
          have hread : read16 [u] = some (0xFFFD, 1) := by simp [read16, h1, h2]
          rw [hread]
          simp only [List.map_cons, List.drop_succ_cons, List.drop_zero]
          rw [itemsOf_read16 fuel [] (by simp)]
          conv => rhs; rw [Spec.Conv.decodeUtf16Lossy.eq_def]
          simp [hh, Spec.Conv.replacement, Spec.Conv.decodeUtf16Lossy]
        | cons lo rest' =>
          by_cases h3 : 0xDC00 ≤ lo ∧ lo ≤ 0xDFFF
          · have hl : Spec.Conv.isLowSurrogate lo = true := by unfold Spec.Conv.isLowSurrogate; simp; omega
            have hread : read16 (u :: lo :: rest') = some (Spec.Conv.pairValue u lo, 2) := by
              rw [read16]
              simp only [h1, if_false, h2, if_true, h3, and_self]
              unfold Spec.Conv.pairValue
              rfl
            rw [hread]
            have hlen' : rest'.length ≤ fuel := by simp at hlen; omega
            simp only [List.map_cons, List.drop_succ_cons, List.drop_zero]
            rw [itemsOf_read16 fuel rest' hlen']
            conv => rhs; rw [Spec.Conv.decodeUtf16Lossy.eq_def]
            simp only [hh, hl, if_true]
          · have hl : Spec.Conv.isLowSurrogate lo = false := by unfold Spec.Conv.isLowSurrogate; simp; omega
            have hread : read16 (u :: lo :: rest') = some (0xFFFD, 1) := by simp [read16, h1, h2, h3]
            rw [hread]
            simp only [List.map_cons, List.drop_succ_cons, List.drop_zero]
            rw [itemsOf_read16 fuel (lo :: rest') hlen]
            conv => rhs; rw [Spec.Conv.decodeUtf16Lossy.eq_def]
            simp [hh, hl, Spec.Conv.replacement]
      · have hh : Spec.Conv.isHighSurrogate u = false := by unfold Spec.Conv.isHighSurrogate; simp; omega
        have hl : Spec.Conv.isLowSurrogate u = true := by unfold Spec.Conv.isLowSurrogate; simp; omega
        have hread : read16 (u :: rest) = some (0xFFFD, 1) := by simp [read16, h1, h2]
        rw [hread]
        simp only [List.map_cons, List.drop_succ_cons, List.drop_zero]
        rw [itemsOf_read16 fuel rest hlen]
        conv => rhs; rw [Spec.Conv.decodeUtf16Lossy.eq_def]
        simp [hh, hl, Spec.Conv.replacement]

theorem utf8Encode_length (c : Nat) : (Spec.Conv.utf8Encode c).length = Spec.Conv.utf8Len c := by
  unfold Spec.Conv.utf8Encode Spec.Conv.utf8Len
  repeat' split
  all_goals rfl

theorem utf8Len_pos (c : Nat) : 0 < Spec.Conv.utf8Len c := by
  unfold Spec.Conv.utf8Len
  repeat' split
  all_goals omega

theorem read8_utf8Encode (c : Nat) (hc : c < 0x110000) (tail : List Nat) :
    read8 (Spec.Conv.utf8Encode c ++ tail) = some (c, Spec.Conv.utf8Len c) := by
  unfold Spec.Conv.utf8Encode Spec.Conv.utf8Len
  by_cases h1 : c < 0x80
  · simp [h1, read8]
  · by_cases h2 : c < 0x800
    · simp only [h1, h2, if_false, if_true, List.cons_append, List.nil_append, read8, List.getD_cons_zero]
      have a1 : ¬ (0xC0 + c / 64 < 0x80) := by omega
      have a2 : 0xC0 + c / 64 < 0xE0 := by omega
      have v : (0xC0 + c / 64) % 32 * 64 + (0x80 + c % 64) % 64 = c := by omega
      simp only [a1, a2, if_false, if_true, v]
    · by_cases h3 : c < 0x10000
      · simp only [h1, h2, h3, if_false, if_true, List.cons_append, List.nil_append, read8,
          List.getD_cons_zero, List.getD_cons_succ]
        have a1 : ¬ (0xE0 + c / 4096 < 0x80) := by omega
        have a2 : ¬ (0xE0 + c / 4096 < 0xE0) := by omega
        have a3 : 0xE0 + c / 4096 < 0xF0 := by omega
        have v : (0xE0 + c / 4096) % 16 * 4096 + (0x80 + c / 64 % 64) % 64 * 64 + (0x80 + c % 64) % 64 = c := by omega
        simp only [a1, a2, a3, if_false, if_true, v]
      · simp only [h1, h2, h3, if_false, List.cons_append, List.nil_append, read8,
          List.getD_cons_zero, List.getD_cons_succ]
        have a1 : ¬ (0xF0 + c / 262144 < 0x80) := by omega
        have a2 : ¬ (0xF0 + c / 262144 < 0xE0) := by omega
        have a3 : ¬ (0xF0 + c / 262144 < 0xF0) := by omega
        have v : (0xF0 + c / 262144) % 8 * 262144 + (0x80 + c / 4096 % 64) % 64 * 4096
            + (0x80 + c / 64 % 64) % 64 * 64 + (0x80 + c % 64) % 64 = c := by omega
        simp only [a1, a2, a3, if_false, v]

theorem itemsOf_read8 : ∀ (text : List Nat) (fuel : Nat), text.length ≤ fuel →
    (∀ c ∈ text, c < 0x110000) →
    itemsOf read8 fuel (Spec.Conv.utf8EncodeAll text) = text.map fun c => (c, Spec.Conv.utf8Len c)
  | [], fuel, _, _ => by
    cases fuel <;> simp [itemsOf, Spec.Conv.utf8EncodeAll, read8]
  | c :: rest, 0, h, _ => by simp at h
  | c :: rest, fuel + 1, h, hb => by
    rw [itemsOf_succ, Spec.Conv.utf8EncodeAll, read8_utf8Encode c (hb c (List.mem_cons_self ..))]
    simp only [List.map_cons]
    have hd : List.drop (Spec.Conv.utf8Len c) (Spec.Conv.utf8Encode c ++ Spec.Conv.utf8EncodeAll rest)
        = Spec.Conv.utf8EncodeAll rest := by
      rw [← utf8Encode_length c, List.drop_left]
    rw [hd, itemsOf_read8 rest fuel (by simpa using h) (fun b hb' => hb b (List.mem_cons_of_mem _ hb'))]

theorem utf8EncodeAll_length_ge : ∀ (text : List Nat), text.length ≤ (Spec.Conv.utf8EncodeAll text).length
  | [] => by simp [Spec.Conv.utf8EncodeAll]
  | c :: rest => by
    rw [Spec.Conv.utf8EncodeAll, List.length_append, utf8Encode_length, List.length_cons]
    have := utf8Len_pos c
    have := utf8EncodeAll_length_ge rest
    omega

end EncodingRs.Lemmas.ConformEnc
