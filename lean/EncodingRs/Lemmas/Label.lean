import EncodingRs.Model.Label
import EncodingRs.Spec.Label
/-! Helper lemmas for C13 (label resolution). -/
namespace EncodingRs.Lemmas.Label
open EncodingRs EncodingRs.Model EncodingRs.Spec

theorem ws_eq (b : Nat) : isAsciiWhitespace b = isLabelWs b := rfl

/-- the key the Standard looks up: stripped and lowercased -/
def key (bs : List Nat) : List Nat := (strip bs).map asciiLower

def goodKey (t : List Nat) : Bool :=
  !t.isEmpty && decide (t.length ≤ Gen.longestLabelLength) && t.all isLabelChar

/-- what the three scanning loops compute, stated without loops -/
def scanRef (bs : List Nat) : Option (List Nat) :=
  if goodKey (key bs) then some (key bs) else none

theorem dropWhile_isEmpty_iff_all {α} (p : α → Bool) (l : List α) :
    (l.dropWhile p).isEmpty = l.all p := by
  induction l with
  | nil => rfl
  | cons a l ih =>
    simp only [List.dropWhile_cons, List.all_cons]
    cases h : p a <;> simp [ih]

theorem stripTrailing_nil : stripTrailing [] = [] := rfl

theorem stripTrailing_all (r : List Nat) (h : r.all isAsciiWhitespace = true) : stripTrailing r = [] := by
  unfold stripTrailing
  have : (r.reverse.dropWhile isAsciiWhitespace).isEmpty = true := by
    rw [dropWhile_isEmpty_iff_all, List.all_reverse]; exact h
  rw [List.isEmpty_iff] at this
  rw [this]; rfl

theorem stripTrailing_cons (b : Nat) (r : List Nat) :
    stripTrailing (b :: r) =
      if (b :: r).all isAsciiWhitespace then [] else b :: stripTrailing r := by
  by_cases hall : (b :: r).all isAsciiWhitespace = true
  · rw [if_pos hall]; exact stripTrailing_all _ hall
  · rw [if_neg hall]
    unfold stripTrailing
    rw [List.reverse_cons, List.dropWhile_append]
    by_cases hr : r.all isAsciiWhitespace = true
    · have hb : isAsciiWhitespace b = false := by
        simp only [List.all_cons, Bool.and_eq_true, not_and] at hall
        cases hb : isAsciiWhitespace b
        · rfl
        · exact absurd hr (hall hb)
      have : (r.reverse.dropWhile isAsciiWhitespace).isEmpty = true := by
        rw [dropWhile_isEmpty_iff_all, List.all_reverse]; exact hr
      rw [if_pos this]
      rw [List.isEmpty_iff] at this
      rw [this]
      simp [List.dropWhile_cons, hb]
    · have : ¬ (r.reverse.dropWhile isAsciiWhitespace).isEmpty = true := by
        rw [dropWhile_isEmpty_iff_all, List.all_reverse]; exact hr
      rw [if_neg this]
      simp

theorem scanAfter_eq (r : List Nat) : scanAfter r = r.all isAsciiWhitespace := by
  induction r with
  | nil => rfl
  | cons b r ih =>
    simp only [scanAfter, List.all_cons, ws_eq]
    cases isLabelWs b <;> simp [ih, ws_eq]

theorem ws_not_labelChar (b : Nat) (h : isLabelWs b = true) : isLabelChar b = false := by
  simp only [isLabelWs, Bool.or_eq_true, beq_iff_eq] at h
  rcases h with (((h | h) | h) | h) | h <;> subst h <;> decide

theorem ws_lower (b : Nat) (h : isLabelWs b = true) : asciiLower b = b := by
  simp only [isLabelWs, Bool.or_eq_true, beq_iff_eq] at h
  rcases h with (((h | h) | h) | h) | h <;> subst h <;> decide

theorem upper_lower (b : Nat) (h : isUpper b = true) :
    asciiLower b = b + 0x20 ∧ isLabelChar (b + 0x20) = true := by
  simp only [isUpper, Bool.and_eq_true, decide_eq_true_eq] at h
  constructor
  · simp [asciiLower, h]
  · simp only [isLabelChar, Bool.or_eq_true, Bool.and_eq_true, decide_eq_true_eq, beq_iff_eq]
    omega

theorem notUpper_lower (b : Nat) (h : isUpper b = false) : asciiLower b = b := by
  simp only [isUpper, Bool.and_eq_false_iff, decide_eq_false_iff_not] at h
  simp only [asciiLower]
  split
  · omega
  · rfl

theorem all_append_singleton (p : Nat → Bool) (l : List Nat) (b : Nat) :
    (l ++ [b]).all p = (l.all p && p b) := by simp

/-- The "inside" loop, given an accumulator within bounds. -/
theorem scanInside_eq (r : List Nat) : ∀ (acc : List Nat),
    acc.length ≤ Gen.longestLabelLength → acc.all isLabelChar = true → acc ≠ [] →
    scanInside acc r =
      (if goodKey (acc ++ (stripTrailing r).map asciiLower)
       then some (acc ++ (stripTrailing r).map asciiLower) else none) := by
  induction r with
  | nil =>
    intro acc hlen hall hne
    have hne' : acc.isEmpty = false := by cases acc <;> simp_all
    simp [scanInside, stripTrailing_nil, goodKey, hlen, hall, hne']
  | cons b r ih =>
    intro acc hlen hall hne
    have hne' : acc.isEmpty = false := by cases acc <;> simp_all
    rw [scanInside, stripTrailing_cons]
    by_cases hws : isLabelWs b = true
    · rw [if_pos hws, scanAfter_eq]
      by_cases hr : r.all isAsciiWhitespace = true
      · have : (b :: r).all isAsciiWhitespace = true := by simp [List.all_cons, ws_eq, hws, hr]
        rw [if_pos hr, if_pos this]
        simp [goodKey, hlen, hall, hne']
      · have : ¬ (b :: r).all isAsciiWhitespace = true := by
          simp only [List.all_cons, Bool.and_eq_true, not_and]; intro _; exact hr
        rw [if_neg hr, if_neg this]
        have : goodKey (acc ++ List.map asciiLower (b :: stripTrailing r)) = false := by
          simp only [goodKey, List.map_cons, List.all_append, List.all_cons, ws_lower b hws,
            ws_not_labelChar b hws]
          simp
        rw [this]; rfl
    · have hws' : isLabelWs b = false := by cases h : isLabelWs b <;> simp_all
      have hnall : ¬ (b :: r).all isAsciiWhitespace = true := by
        simp [List.all_cons, ws_eq, hws']
      rw [if_neg hws, if_neg hnall]
      have happ : ∀ c, acc ++ List.map asciiLower (b :: stripTrailing r) = acc ++ c :: List.map asciiLower (stripTrailing r)
          → acc ++ List.map asciiLower (b :: stripTrailing r) = (acc ++ [c]) ++ List.map asciiLower (stripTrailing r) := by
        intro c h; rw [h]; simp
      by_cases hup : isUpper b = true
      · rw [if_pos hup]
        obtain ⟨hl, hc⟩ := upper_lower b hup
        by_cases h19 : acc.length = Gen.longestLabelLength
        · have : (acc.length == Gen.longestLabelLength) = true := by simp [h19]
          rw [if_pos this]
          have : goodKey (acc ++ List.map asciiLower (b :: stripTrailing r)) = false := by
            simp only [goodKey, List.length_append, List.map_cons, List.length_cons, List.length_map]
            have : ¬ (acc.length + ((stripTrailing r).length + 1) ≤ Gen.longestLabelLength) := by omega
            simp [this]
          rw [this]; rfl
        · have : ¬ (acc.length == Gen.longestLabelLength) = true := by simp [h19]
          rw [if_neg this]
          have e : acc ++ List.map asciiLower (b :: stripTrailing r)
              = (acc ++ [b + 0x20]) ++ List.map asciiLower (stripTrailing r) := by
            simp [List.map_cons, hl]
          rw [e]
          apply ih
          · simp only [List.length_append, List.length_singleton]; omega
          · rw [all_append_singleton, hall, hc]; rfl
          · simp
      · have hup' : isUpper b = false := by cases h : isUpper b <;> simp_all
        rw [if_neg hup]
        have hl := notUpper_lower b hup'
        by_cases hch : isLabelChar b = true
        · rw [if_pos hch]
          by_cases h19 : acc.length = Gen.longestLabelLength
          · have : (acc.length == Gen.longestLabelLength) = true := by simp [h19]
            rw [if_pos this]
            have : goodKey (acc ++ List.map asciiLower (b :: stripTrailing r)) = false := by
              simp only [goodKey, List.length_append, List.map_cons, List.length_cons, List.length_map]
              have : ¬ (acc.length + ((stripTrailing r).length + 1) ≤ Gen.longestLabelLength) := by omega
              simp [this]
            rw [this]; rfl
          · have : ¬ (acc.length == Gen.longestLabelLength) = true := by simp [h19]
            rw [if_neg this]
            have e : acc ++ List.map asciiLower (b :: stripTrailing r)
                = (acc ++ [b]) ++ List.map asciiLower (stripTrailing r) := by
              simp [List.map_cons, hl]
            rw [e]
            apply ih
            · simp only [List.length_append, List.length_singleton]; omega
            · rw [all_append_singleton, hall, hch]; rfl
            · simp
        · have hch' : isLabelChar b = false := by cases h : isLabelChar b <;> simp_all
          rw [if_neg hch]
          have : goodKey (acc ++ List.map asciiLower (b :: stripTrailing r)) = false := by
            simp only [goodKey, List.map_cons, List.all_append, List.all_cons, hl, hch']
            simp
          rw [this]; rfl

theorem scanBefore_eq (bs : List Nat) : scanBefore bs = scanRef bs := by
  induction bs with
  | nil => rfl
  | cons b r ih =>
    rw [scanBefore]
    by_cases hws : isLabelWs b = true
    · rw [if_pos hws, ih]
      have : key (b :: r) = key r := by
        simp only [key, strip, stripLeading, List.dropWhile_cons, ws_eq, hws, if_true]
      simp only [scanRef, this]
    · have hws' : isLabelWs b = false := by cases h : isLabelWs b <;> simp_all
      rw [if_neg hws]
      have hkey : key (b :: r) = asciiLower b :: (stripTrailing r).map asciiLower := by
        have hnall : ¬ (b :: r).all isAsciiWhitespace = true := by
          simp [List.all_cons, ws_eq, hws']
        simp only [key, strip, stripLeading, List.dropWhile_cons, ws_eq, hws']
        simp only [Bool.false_eq_true, if_false]
        rw [stripTrailing_cons, if_neg hnall]; rfl
      by_cases hup : isUpper b = true
      · obtain ⟨hl, hc⟩ := upper_lower b hup
        rw [if_pos hup, scanInside_eq r [b + 0x20] (by simp [Gen.longestLabelLength]) (by simp [hc]) (by simp)]
        simp [scanRef, hkey, hl]
      · have hup' : isUpper b = false := by cases h : isUpper b <;> simp_all
        have hl := notUpper_lower b hup'
        rw [if_neg hup]
        by_cases hch : isLabelChar b = true
        · rw [if_pos hch, scanInside_eq r [b] (by simp [Gen.longestLabelLength]) (by simp [hch]) (by simp)]
          simp [scanRef, hkey, hl]
        · have hch' : isLabelChar b = false := by cases h : isLabelChar b <;> simp_all
          rw [if_neg hch]
          simp [scanRef, hkey, hl, goodKey, hch']

theorem cmpRev_eq_iff (a : List Nat) : ∀ b, cmpRev a b = .eq ↔ a = b := by
  induction a with
  | nil => intro b; cases b <;> simp [cmpRev]
  | cons x a ih =>
    intro b
    cases b with
    | nil => simp [cmpRev]
    | cons y b =>
      simp only [cmpRev]
      by_cases h1 : x < y
      · simp [h1]; omega
      · by_cases h2 : y < x
        · simp [h1, h2]; omega
        · have : x = y := by omega
          simp [h1, h2, ih, this]

theorem cmpLabel_eq_iff (a b : List Nat) : (cmpLabel a b == .eq) = (a == b) := by
  have : cmpLabel a b = .eq ↔ a = b := by
    unfold cmpLabel
    by_cases h1 : a.length < b.length
    · simp [h1]; intro h; subst h; omega
    · by_cases h2 : b.length < a.length
      · simp [h1, h2]; intro h; subst h; omega
      · simp [h1, h2, cmpRev_eq_iff]
  cases h : (a == b)
  · have hne : a ≠ b := by simpa using h
    have hc : cmpLabel a b ≠ Ordering.eq := fun hc => hne (this.mp hc)
    cases hc' : cmpLabel a b <;> simp_all
  · have hab : a = b := by simpa using h
    have hc : cmpLabel a b = Ordering.eq := this.mpr hab
    simp [hc]

/-- index search on keys then index into values = association-list lookup on the zip -/
theorem findIdx?_bind_getElem? {α β} (p : α → Bool) : ∀ (L : List α) (E : List β), L.length = E.length →
    (L.findIdx? p).bind (fun i => E[i]?) = ((L.zip E).find? (fun q => p q.1)).map (·.2) := by
  intro L
  induction L with
  | nil => intro E _; simp
  | cons x L ih =>
    intro E h
    cases E with
    | nil => simp at h
    | cons y E =>
      simp only [List.length_cons, Nat.add_right_cancel_iff] at h
      simp only [List.findIdx?_cons, List.zip_cons_cons, List.find?_cons]
      cases hp : p x
      · simp only [Bool.false_eq_true, if_false]
        rw [← ih E h]
        cases List.findIdx? p L <;> simp
      · simp

theorem find?_congr' {α} {p q : α → Bool} : ∀ {l : List α}, (∀ x ∈ l, p x = q x) → l.find? p = l.find? q := by
  intro l
  induction l with
  | nil => intro _; rfl
  | cons a l ih =>
    intro h
    simp only [List.find?_cons]
    rw [h a (List.mem_cons_self ..)]
    rw [ih (fun x hx => h x (List.mem_cons_of_mem _ hx))]

end EncodingRs.Lemmas.Label
