import EncodingRs.Lemmas.ConformEncSbDef
/-! C03, single-byte encodings: complete evaluation of `sbCheckEnc` for the entries 0 ≤ i < 10 of the `*_INIT` list, all code points (`native_decide`). -/
namespace EncodingRs.Lemmas.ConformEnc

theorem sb_check_r0 : ((Gen.encodings.drop 0).take 10).all sbCheckEnc = true := by native_decide

end EncodingRs.Lemmas.ConformEnc
