import EncodingRs.Lemmas.ConformEncGbDef
/-! C03, GBK / gb18030: complete evaluation of `gbCheck` over the code points 0x3400 ≤ c < 0x6800 (`native_decide`). -/
namespace EncodingRs.Lemmas.ConformEnc

theorem gb_check_r1 : allFrom gbCheck 0x3400 0x3400 = true := by native_decide

end EncodingRs.Lemmas.ConformEnc
