import EncodingRs.Lemmas.Conform
import EncodingRs.Model.Fam.Simple
/-!
C01 step checks for the table-free one-to-one machines: single-byte (for an arbitrary
index), x-user-defined, UTF-8; and the replacement decoder (direct proof: the
Standard's decoder says `finished` after its one error, the crate swallows the rest).
All symbolic (`split` on the byte classes of both sides + `omega`).
-/
set_option linter.unusedSimpArgs false
namespace EncodingRs.Lemmas.Conform
open EncodingRs EncodingRs.Model EncodingRs.Spec.Decode EncodingRs.Lemmas.Core

theorem and1F (b : Nat) : b &&& 0x1F = b % 32 := Nat.and_two_pow_sub_one_eq_mod b 5
theorem and0F (b : Nat) : b &&& 0xF = b % 16 := Nat.and_two_pow_sub_one_eq_mod b 4
theorem and07 (b : Nat) : b &&& 0x7 = b % 8 := Nat.and_two_pow_sub_one_eq_mod b 3
theorem and3F (b : Nat) : b &&& 0x3F = b % 64 := Nat.and_two_pow_sub_one_eq_mod b 6
theorem andFF (b : Nat) : b &&& 0x00FF = b % 256 := Nat.and_two_pow_sub_one_eq_mod b 8
theorem shl_or (c b : Nat) : (c <<< 6) ||| (b &&& 0x3F) = c * 64 + b % 64 := by
  rw [and3F, ← Nat.shiftLeft_add_eq_or_of_lt (Nat.mod_lt _ (by decide)), Nat.shiftLeft_eq]
theorem shl8 (c : Nat) : c <<< 8 = c * 256 := by rw [Nat.shiftLeft_eq]
theorem shl10 (c : Nat) : c <<< 10 = c * 1024 := by rw [Nat.shiftLeft_eq]
theorem shr8 (c : Nat) : c >>> 8 = c / 256 := by rw [Nat.shiftRight_eq_div_pow]

/-! ### single-byte -/

theorem indexCodePoint_eq (t : Array Nat) (p : Nat) :
    indexCodePoint t p = if t.getD p 0 = 0 then none else some (t.getD p 0) := rfl

instance (t : Array Nat) : DecidableEq (singleByte t).σ := inferInstanceAs (DecidableEq Unit)

def singleByteSim (t : Array Nat) : Sim1 (singleByteFam t) (singleByte t) where
  Inv := fun _ => True
  σ_of := fun _ => ()
  no_pend := fun _ => rfl
  init_inv := trivial
  init_st := rfl
  rank_le := fun _ _ => Nat.zero_le _
  feed := by
    intro s b _ _
    refine ⟨trivial, ?_⟩
    show stepMatches (fun _ => ()) (singleByteHandler t () (some b)) (singleByteFeed t s b) b = true
    unfold singleByteHandler singleByteFeed
    dsimp only
    rw [indexCodePoint_eq]
    generalize t.getD (b - 0x80) 0 = m
    by_cases h : b < 0x80
    · ifs_omega
      simp [stepMatches, actMatches, FeedRes.ok]
    · by_cases hm : m = 0
      · subst hm
        ifs_omega
        simp [stepMatches, actMatches, FeedRes.bad]
      · ifs_omega
        simp [hm, stepMatches, actMatches, FeedRes.ok]
  eof := fun _ _ => rfl

theorem decode_conforms_singleByte (t : Array Nat) (bytes : List Nat) (hb : ∀ b ∈ bytes, b < 256) :
    Runs (singleByte t) bytes (ref (singleByteFam t) (singleByteFam t).init bytes 0) ∧
    ref (singleByteFam t) (singleByteFam t).init bytes 0 = runSingleByte t bytes :=
  sim1_conforms (singleByteSim t) bytes hb

/-! ### x-user-defined -/

instance : DecidableEq userDefined.σ := inferInstanceAs (DecidableEq Unit)

def userDefinedSim : Sim1 userDefinedFam userDefined where
  Inv := fun _ => True
  σ_of := fun _ => ()
  no_pend := fun _ => rfl
  init_inv := trivial
  init_st := rfl
  rank_le := fun _ _ => Nat.zero_le _
  feed := by
    intro s b _ _
    refine ⟨trivial, ?_⟩
    show stepMatches (fun _ => ()) (userDefinedHandler () (some b)) (userDefinedFeed s b) b = true
    unfold userDefinedHandler userDefinedFeed
    dsimp only
    by_cases h : b < 0x80
    · ifs_omega
      simp [stepMatches, actMatches, FeedRes.ok]
    · have e : 0xF780 + b - 0x80 = b + 0xF700 := by omega
      ifs_omega
      simp [e, stepMatches, actMatches, FeedRes.ok]
  eof := fun _ _ => rfl

theorem decode_conforms_userDefined (bytes : List Nat) (hb : ∀ b ∈ bytes, b < 256) :
    Runs userDefined bytes (ref userDefinedFam userDefinedFam.init bytes 0) ∧
    ref userDefinedFam userDefinedFam.init bytes 0 = runUserDefined bytes :=
  sim1_conforms userDefinedSim bytes hb

/-! ### UTF-8 -/

instance : DecidableEq utf8.σ := inferInstanceAs (DecidableEq Utf8)

def utf8σ (s : Utf8St) : Utf8 := ⟨s.codePoint, s.seen, s.needed, s.lower, s.upper⟩

theorem utf8_feed_matches (s : Utf8St) (b : Nat) :
    stepMatches utf8σ (utf8Handler (utf8σ s) (some b)) (utf8Feed s b) b = true := by
  obtain ⟨cp, seen, needed, lo, up⟩ := s
  have hσ : utf8σ ⟨cp, seen, needed, lo, up⟩ = (⟨cp, seen, needed, lo, up⟩ : Utf8) := rfl
  rw [hσ]
  unfold utf8Feed utf8Handler
  dsimp only
  simp only [and1F, and0F, and07, shl_or]
  by_cases hn : needed = 0
  · subst hn
    have key : b ≤ 127 ∨ (128 ≤ b ∧ b < 194) ∨ (194 ≤ b ∧ b ≤ 223) ∨ b = 224 ∨ (225 ≤ b ∧ b ≤ 236) ∨ b = 237 ∨
        (238 ≤ b ∧ b ≤ 239) ∨ b = 240 ∨ (241 ≤ b ∧ b ≤ 243) ∨ b = 244 ∨ 245 ≤ b := by omega
    rcases key with h | h | h | h | h | h | h | h | h | h | h
    all_goals
      try subst h
      ifs_omega
      simp [stepMatches, actMatches, FeedRes.ok, FeedRes.bad, utf8σ]
  · by_cases hr : lo ≤ b ∧ b ≤ up
    · by_cases hd : seen + 1 = needed
      · ifs_omega
        simp [stepMatches, actMatches, FeedRes.ok, FeedRes.bad, utf8σ, utf8Init]
      · ifs_omega
        simp [stepMatches, actMatches, FeedRes.ok, FeedRes.bad, utf8σ, utf8Init]
    · ifs_omega
      simp [stepMatches, actMatches, FeedRes.ok, FeedRes.bad, utf8σ, utf8Init]

def utf8Sim : Sim1 utf8Fam utf8 where
  Inv := fun _ => True
  σ_of := utf8σ
  no_pend := fun _ => rfl
  init_inv := trivial
  init_st := rfl
  rank_le := by
    intro s _
    show (if s.needed = 0 then 0 else 1) ≤ 15
    split <;> omega
  feed := fun s b _ _ => ⟨trivial, utf8_feed_matches s b⟩
  eof := by
    intro s _
    have he : utf8Fam.eof s = if s.needed ≠ 0 then some ((s.seen + 1, 0), utf8Init) else none := rfl
    have hh : utf8.handler = utf8Handler := rfl
    rw [he, hh]
    by_cases hn : s.needed = 0
    · simp [hn, utf8Handler, utf8σ]
    · have he' : utf8Fam.eof utf8Init = none := rfl
      simp [hn, utf8Handler, utf8σ, he']

theorem decode_conforms_utf8 (bytes : List Nat) (hb : ∀ b ∈ bytes, b < 256) :
    Runs utf8 bytes (ref utf8Fam utf8Fam.init bytes 0) ∧ ref utf8Fam utf8Fam.init bytes 0 = runUtf8 bytes :=
  sim1_conforms utf8Sim bytes hb

/-! ### replacement -/

theorem ref_replacement_done : ∀ (bytes : List Nat) (pos : Nat), ref replacementFam true bytes pos = [] := by
  intro bytes
  induction bytes with
  | nil => intro pos; rw [ref_nil replacementFam true pos rfl]; rfl
  | cons b t ih =>
    intro pos
    rw [ref_cons replacementFam true b t pos rfl]
    have hf : replacementFam.feed = replacementFeed := rfl
    simp only [hf, replacementFeed, if_true, FeedRes.ok, Bool.false_eq_true, if_false, List.map_nil, errEv,
      List.nil_append]
    exact ih (pos + 1)

theorem decode_conforms_replacement (bytes : List Nat) :
    Runs replacement bytes (ref replacementFam replacementFam.init bytes 0) ∧
    ref replacementFam replacementFam.init bytes 0 = runReplacement bytes := by
  cases bytes with
  | nil =>
    have e : ref replacementFam replacementFam.init [] 0 = [] := by
      rw [ref_nil replacementFam _ 0 rfl]; rfl
    rw [e]
    refine ⟨⟨0, _, .refl _, ?_⟩, ?_⟩
    · rfl
    · rfl
  | cons b t =>
    have e : ref replacementFam replacementFam.init (b :: t) 0 = [Ev.err 0 1] := by
      rw [ref_cons replacementFam _ b t 0 rfl]
      have hf : replacementFam.feed = replacementFeed := rfl
      have hi : replacementFam.init = false := rfl
      simp only [hf, hi, replacementFeed, Bool.false_eq_true, if_false, FeedRes.bad, List.map_nil, errEv,
        List.nil_append, mkErr]
      rw [ref_replacement_done]
      rfl
    rw [e]
    have h1 : stepFn replacement ⟨replacement.init, b :: t, 0⟩ = some (⟨true, t, 1⟩, [Ev.err 0 1]) := rfl
    have h2 : stepFn replacement ⟨true, t, 1⟩ = none := by
      cases t <;> rfl
    have hs : Steps replacement 1 ⟨replacement.init, b :: t, 0⟩ ([Ev.err 0 1] ++ []) ⟨true, t, 1⟩ :=
      .step h1 (.refl _)
    refine ⟨⟨1, _, hs, h2⟩, ?_⟩
    unfold runReplacement Spec.Decode.run
    rw [runFuel_complete replacement 1 _ _ _ hs h2 _ (by unfold fuelFor; omega)]
    rfl

end EncodingRs.Lemmas.Conform
