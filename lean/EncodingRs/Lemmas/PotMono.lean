import EncodingRs.Lemmas.MaxLenVariant
/-!
Monotonicity in the number of remaining bytes of the potentials of all 13 variant decoders
(needed when a `Decoder::max_*` query was asked for more bytes than a continuation consumes:
withheld BOM bytes that turn out to be a BOM, `ConvertingWithPendingBB`).
-/
namespace EncodingRs.Lemmas.PotMono
open EncodingRs EncodingRs.Model EncodingRs.Lemmas.Potential EncodingRs.Lemmas.MaxLenArith
open EncodingRs.Lemmas.MaxLenFam EncodingRs.Lemmas.MaxLenVariant EncodingRs.Gen.MaxLen EncodingRs.Lemmas.FamLaws

theorem variantPot16_mono1 (v : Gen.Variant) (s : (famOfVariant v).σ) (n : Nat) :
    (variantPot16 v).Φ s n ≤ (variantPot16 v).Φ s (n + 1) := by
  cases v with
  | singleByte t a b c => show singleByteUtf16Nat () n ≤ singleByteUtf16Nat () (n + 1); simp only [singleByteUtf16Nat]; omega
  | utf8 => show n + (1 + utf8ExtraFromState s) ≤ n + 1 + (1 + utf8ExtraFromState s); omega
  | gbk => show 1 + (n + gbW s) ≤ 1 + (n + 1 + gbW s); omega
  | gb18030 => show 1 + (n + gbW s) ≤ 1 + (n + 1 + gbW s); omega
  | big5 => show 1 + (n + (if Option.isSome s then 1 else 0)) ≤ 1 + (n + 1 + (if Option.isSome s then 1 else 0)); omega
  | eucJp => show n + (if eucJpPending s then 1 else 0) ≤ n + 1 + (if eucJpPending s then 1 else 0); omega
  | iso2022Jp => show n + isoW s ≤ n + 1 + isoW s; omega
  | shiftJis => show n + (if Option.isSome s then 1 else 0) ≤ n + 1 + (if Option.isSome s then 1 else 0); omega
  | eucKr => show n + (if Option.isSome s then 1 else 0) ≤ n + 1 + (if Option.isSome s then 1 else 0); omega
  | replacement => exact Nat.le_refl _
  | utf16Be => show 1 + (n + utf16AdditionalFromState s) / 2 ≤ 1 + (n + 1 + utf16AdditionalFromState s) / 2; omega
  | utf16Le => show 1 + (n + utf16AdditionalFromState s) / 2 ≤ 1 + (n + 1 + utf16AdditionalFromState s) / 2; omega
  | userDefined => show userDefinedUtf16Nat () n ≤ userDefinedUtf16Nat () (n + 1); simp only [userDefinedUtf16Nat]; omega

theorem variantPot8_mono1 (v : Gen.Variant) (s : (famOfVariant v).σ) (n : Nat) :
    (variantPot8 v).Φ s n ≤ (variantPot8 v).Φ s (n + 1) := by
  cases v with
  | singleByte t a b c => show singleByteUtf8Nat () n ≤ singleByteUtf8Nat () (n + 1); simp only [singleByteUtf8Nat]; omega
  | utf8 => show 3 + 3 * (n + utf8ExtraFromState s) ≤ 3 + 3 * (n + 1 + utf8ExtraFromState s); omega
  | gbk => show 1 + 3 * (n + gbW s) ≤ 1 + 3 * (n + 1 + gbW s); omega
  | gb18030 => show 1 + 3 * (n + gbW s) ≤ 1 + 3 * (n + 1 + gbW s); omega
  | big5 => show 3 + 3 * (n + (if Option.isSome s then 1 else 0)) ≤ 3 + 3 * (n + 1 + (if Option.isSome s then 1 else 0)); omega
  | eucJp => show 3 * (n + (if eucJpPending s then 1 else 0)) ≤ 3 * (n + 1 + (if eucJpPending s then 1 else 0)); omega
  | iso2022Jp => show 3 * (n + isoW s) ≤ 3 * (n + 1 + isoW s); omega
  | shiftJis => show 3 * (n + (if Option.isSome s then 1 else 0)) ≤ 3 * (n + 1 + (if Option.isSome s then 1 else 0)); omega
  | eucKr => show 3 * (n + (if Option.isSome s then 1 else 0)) ≤ 3 * (n + 1 + (if Option.isSome s then 1 else 0)); omega
  | replacement => exact Nat.le_refl _
  | utf16Be => show 1 + 3 * ((n + utf16AdditionalFromState s) / 2) ≤ 1 + 3 * ((n + 1 + utf16AdditionalFromState s) / 2); omega
  | utf16Le => show 1 + 3 * ((n + utf16AdditionalFromState s) / 2) ≤ 1 + 3 * ((n + 1 + utf16AdditionalFromState s) / 2); omega
  | userDefined => show userDefinedUtf8Nat () n ≤ userDefinedUtf8Nat () (n + 1); simp only [userDefinedUtf8Nat]; omega

theorem variantPot8N_mono1 (v : Gen.Variant) (s : (famOfVariant v).σ) (n : Nat) :
    (variantPot8N v).Φ s n ≤ (variantPot8N v).Φ s (n + 1) := by
  cases v with
  | singleByte t a b c =>
    show singleByteUtf8NoReplNat () n ≤ singleByteUtf8NoReplNat () (n + 1); simp only [singleByteUtf8NoReplNat]; omega
  | utf8 => show n + (3 + utf8ExtraFromState s) ≤ n + 1 + (3 + utf8ExtraFromState s); omega
  | gbk => show 1 + 3 * (n + gbW s) ≤ 1 + 3 * (n + 1 + gbW s); omega
  | gb18030 => show 1 + 3 * (n + gbW s) ≤ 1 + 3 * (n + 1 + gbW s); omega
  | big5 => show 2 + 2 * (n + (if Option.isSome s then 1 else 0)) ≤ 2 + 2 * (n + 1 + (if Option.isSome s then 1 else 0)); omega
  | eucJp =>
    show 2 + ((n + (if eucJpPending s then 1 else 0)) + (1 + (n + (if eucJpPending s then 1 else 0))) / 2)
      ≤ 2 + ((n + 1 + (if eucJpPending s then 1 else 0)) + (1 + (n + 1 + (if eucJpPending s then 1 else 0))) / 2)
    omega
  | iso2022Jp => show 3 * (n + isoW s) ≤ 3 * (n + 1 + isoW s); omega
  | shiftJis => show 3 * (n + (if Option.isSome s then 1 else 0)) ≤ 3 * (n + 1 + (if Option.isSome s then 1 else 0)); omega
  | eucKr =>
    show 2 + ((n + (if Option.isSome s then 1 else 0)) + (1 + (n + (if Option.isSome s then 1 else 0))) / 2)
      ≤ 2 + ((n + 1 + (if Option.isSome s then 1 else 0)) + (1 + (n + 1 + (if Option.isSome s then 1 else 0))) / 2)
    omega
  | replacement => exact Nat.le_refl _
  | utf16Be => show 1 + 3 * ((n + utf16AdditionalFromState s) / 2) ≤ 1 + 3 * ((n + 1 + utf16AdditionalFromState s) / 2); omega
  | utf16Le => show 1 + 3 * ((n + utf16AdditionalFromState s) / 2) ≤ 1 + 3 * ((n + 1 + utf16AdditionalFromState s) / 2); omega
  | userDefined =>
    show userDefinedUtf8NoReplNat () n ≤ userDefinedUtf8NoReplNat () (n + 1); simp only [userDefinedUtf8NoReplNat]; omega

/-! ### the potential of a query -/

/-- the potential behind query `q` (see `variant_phi_le`: the query value covers it) -/
def qPhi (q : Query) (v : Gen.Variant) (s : (famOfVariant v).σ) (n : Nat) : Nat :=
  match q with
  | .utf16 => (variantPot16 v).Φ s n
  | .utf8 => (variantPot8 v).Φ s n
  | .utf8NoRepl => (variantPot8N v).Φ s n

theorem qPhi_mono1 (q : Query) (v : Gen.Variant) (s : (famOfVariant v).σ) (n : Nat) :
    qPhi q v s n ≤ qPhi q v s (n + 1) := by
  cases q
  · exact variantPot8_mono1 v s n
  · exact variantPot8N_mono1 v s n
  · exact variantPot16_mono1 v s n

/-- **monotonicity**: asking for more bytes never yields less potential -/
theorem qPhi_mono (q : Query) (v : Gen.Variant) (s : (famOfVariant v).σ) {n n' : Nat} (h : n ≤ n') :
    qPhi q v s n ≤ qPhi q v s n' := by
  induction h with
  | refl => exact Nat.le_refl _
  | step _ ih => exact Nat.le_trans ih (qPhi_mono1 q v s _)

theorem qPhi_le (q : Query) (v : Gen.Variant) (s : (famOfVariant v).σ) (n Q : Nat) (hi : variantInv v s)
    (h : variantMax q v s n = some Q) : qPhi q v s n ≤ Q := by
  have := variant_phi_le q v s n Q hi h
  cases q <;> exact this

/-! ### bounds of a non-`last` call with slack: `m` more bytes will follow in a later call -/

open EncodingRs.Lemmas.Core in
theorem run_bound_slack {F : Fam} {k : Sink} {repl : Bool} (P : Potential F k repl) (L : Laws F) (m : Nat) :
    ∀ (src : List Nat) (s : F.σ) (budget : Budget), P.Inv s → F.pend s = none → (∀ b ∈ src, b < 256) →
      let r := run F k false s src budget
      (r.res = .inputEmpty → unitsOfList k r.out + P.Φ r.st m ≤ P.Φ s (src.length + m)) ∧
      (r.res = .outputFull → unitsOfList k r.out + r.stopNeed ≤ P.Φ s (src.length + m)) ∧
      (repl = true → (∀ s' (src' : List Nat), src'.length ≤ src.length → F.alt s' src' = none) →
        ∀ l a, r.res = .malformed l a →
        unitsOfList k r.out + replRoom k + P.Φ r.st (src.length - r.read + m) ≤ P.Φ s (src.length + m)) := by
  intro src
  induction src with
  | nil =>
    intro s budget hi hp _
    simp only [run, Bool.false_eq_true, if_false]
    refine ⟨?_, (by intro h; cases h), (by intro _ _ l a h; cases h)⟩
    intro _
    simp [unitsOfList]
  | cons b tl ih =>
    intro s budget hi hp hb
    have hb0 : b < 256 := hb b (List.mem_cons_self ..)
    have hbt : ∀ x ∈ tl, x < 256 := fun x hx => hb x (List.mem_cons_of_mem _ hx)
    rw [run]
    cases hstop : stopHere F k s b tl budget with
    | some r =>
      simp only
      cases budget with
      | unlimited => simp [stopHere] at hstop
      | full n =>
        simp only [stopHere] at hstop
        split at hstop
        · cases hstop
          refine ⟨(by intro h; cases h), ?_, (by intro _ _ l a h; cases h)⟩
          intro _
          simp only [unitsOfList, List.map_nil, List.sum_nil, Nat.zero_add, List.length_cons]
          have := P.need_le s b (tl.length + m) hi hp hb0
          have e : tl.length + 1 + m = tl.length + m + 1 := by omega
          rw [e]; exact this
        · cases hstop
      | altAny =>
        simp only [stopHere] at hstop
        cases ha : F.alt s (b :: tl) with
        | none => simp [ha] at hstop
        | some p =>
          obtain ⟨m', r'⟩ := p
          simp only [ha] at hstop
          split at hstop
          · cases hstop
            refine ⟨(by intro h; cases h), (by intro h; cases h), ?_⟩
            intro _ hna
            rw [hna s (b :: tl) (Nat.le_refl _)] at ha
            cases ha
          · cases hstop
    | none =>
      simp only
      cases hE : (F.feed s b).err with
      | none =>
        simp only
        have hp' := L.pend_err s b hp hE
        have hi' := P.inv_step s b hi hp hb0
        have IH := ih (F.feed s b).st budget.dec hi' hp' hbt
        have hok := P.step_ok s b (tl.length + m) hi hp hb0 hE
        simp only at IH
        have e : tl.length + 1 + m = tl.length + m + 1 := by omega
        refine ⟨?_, ?_, ?_⟩
        · intro hres
          have := IH.1 hres
          rw [unitsOfList_append]
          simp only [List.length_cons]
          rw [e]; omega
        · intro hres
          have := IH.2.1 hres
          rw [unitsOfList_append]
          simp only [List.length_cons]
          rw [e]; omega
        · intro hr hna l a hres
          have := IH.2.2 hr (fun s' src' h => hna s' src' (by simp only [List.length_cons]; omega)) l a hres
          rw [unitsOfList_append]
          simp only [List.length_cons]
          have e2 : tl.length + 1 - ((run F k false (F.feed s b).st tl budget.dec).read + 1)
              = tl.length - (run F k false (F.feed s b).st tl budget.dec).read := by omega
          rw [e2, e]; omega
      | some e =>
        simp only
        refine ⟨(by intro h; cases h), (by intro h; cases h), ?_⟩
        intro hr _ l a _
        have := P.step_err hr s b (tl.length + m) e hi hp hb0 hE
        simp only [List.length_cons]
        have e1 : tl.length + 1 + m = tl.length + m + 1 := by omega
        rw [e1]
        cases hu : (F.feed s b).unread with
        | true =>
          simp only [hu, if_true, Nat.sub_zero] at this ⊢
          have e2 : tl.length + 1 + m = tl.length + m + 1 := by omega
          rw [e2]; exact this
        | false =>
          simp only [hu, Bool.false_eq_true, if_false] at this ⊢
          have e2 : tl.length + 1 - 1 + m = tl.length + m := by omega
          rw [e2]; exact this

/-- the same for a whole non-`last` raw call (flush first) -/
theorem call_bound_slack {F : Fam} {k : Sink} {repl : Bool} (P : Potential F k repl) (L : Laws F) (m : Nat)
    (src : List Nat) (s : F.σ) (budget : Budget) (hi : P.Inv s) (hb : ∀ b ∈ src, b < 256) :
    let r := call F k s src false budget
    (r.res = .inputEmpty → unitsOfList k r.out + P.Φ r.st m ≤ P.Φ s (src.length + m)) ∧
    (r.res = .outputFull → unitsOfList k r.out + r.stopNeed ≤ P.Φ s (src.length + m)) ∧
    (repl = true → (∀ s' (src' : List Nat), src'.length ≤ src.length → F.alt s' src' = none) →
      ∀ l a, r.res = .malformed l a →
      unitsOfList k r.out + replRoom k + P.Φ r.st (src.length - r.read + m) ≤ P.Φ s (src.length + m)) := by
  unfold call
  cases hp : F.pend s with
  | none => exact run_bound_slack P L m src s budget hi hp hb
  | some p =>
    obtain ⟨o, s'⟩ := p
    have hple := P.pend_le s o s' (src.length + m) hi hp
    simp only
    split
    · refine ⟨(by intro h; cases h), ?_, (by intro _ _ l a h; cases h)⟩
      intro _
      simp only [unitsOfList, List.map_nil, List.sum_nil, Nat.zero_add]
      exact hple.1
    · have hr := run_bound_slack P L m src s' budget.dec (P.inv_pend s o s' hi hp) (L.pend_once s o s' hp) hb
      simp only at hr
      refine ⟨?_, ?_, ?_⟩
      · intro hres
        have := hr.1 hres
        show unitsOfList k (o ++ (run F k false s' src budget.dec).out)
          + P.Φ (run F k false s' src budget.dec).st m ≤ P.Φ s (src.length + m)
        rw [unitsOfList_append]; omega
      · intro hres
        have := hr.2.1 hres
        show unitsOfList k (o ++ (run F k false s' src budget.dec).out)
          + (run F k false s' src budget.dec).stopNeed ≤ P.Φ s (src.length + m)
        rw [unitsOfList_append]; omega
      · intro hrepl hna l a hres
        have := hr.2.2 hrepl hna l a hres
        show unitsOfList k (o ++ (run F k false s' src budget.dec).out) + replRoom k
          + P.Φ (run F k false s' src budget.dec).st (src.length - (run F k false s' src budget.dec).read + m)
          ≤ P.Φ s (src.length + m)
        rw [unitsOfList_append]; omega

/-! ### the bounds at the level of a query -/

theorem q_call_inv (v : Gen.Variant) (k : Sink) (s : (famOfVariant v).σ) (src : List Nat) (last : Bool)
    (b : Budget) (hi : variantInv v s) (hb : ∀ x ∈ src, x < 256) :
    variantInv v (call (famOfVariant v) k s src last b).st := by
  cases k with
  | utf16 => exact (call_bound (variantPot16 v) (famOfVariant_laws v) last src s b hi hb).1
  | utf8 =>
    have := (call_bound (variantPot8 v) (famOfVariant_laws v) last src s b (variantPot8_inv v ▸ hi) hb).1
    exact variantPot8_inv v ▸ this

/-- an `OutputFull` stop asks for no more than the potential of the bytes passed -/
theorem q_call_full (q : Query) (v : Gen.Variant) (s : (famOfVariant v).σ) (src : List Nat) (last : Bool)
    (b : Budget) (hi : variantInv v s) (hb : ∀ x ∈ src, x < 256)
    (hres : (call (famOfVariant v) (sinkOf q) s src last b).res = .outputFull) :
    unitsOfList (sinkOf q) (call (famOfVariant v) (sinkOf q) s src last b).out
      + (call (famOfVariant v) (sinkOf q) s src last b).stopNeed ≤ qPhi q v s src.length := by
  cases q with
  | utf16 => exact (call_bound (variantPot16 v) (famOfVariant_laws v) last src s b hi hb).2.1 hres
  | utf8 => exact (call_bound (variantPot8 v) (famOfVariant_laws v) last src s b (variantPot8_inv v ▸ hi) hb).2.1 hres
  | utf8NoRepl =>
    exact (call_bound (variantPot8N v) (famOfVariant_laws v) last src s b (variantPot8N_inv v ▸ hi) hb).2.1 hres

/-- a non-`last` call when `m` more bytes will follow -/
theorem q_call_slack (q : Query) (v : Gen.Variant) (s : (famOfVariant v).σ) (src : List Nat)
    (b : Budget) (m : Nat) (hi : variantInv v s) (hb : ∀ x ∈ src, x < 256) :
    let r := call (famOfVariant v) (sinkOf q) s src false b
    (r.res = .inputEmpty → unitsOfList (sinkOf q) r.out + qPhi q v r.st m ≤ qPhi q v s (src.length + m)) ∧
    (r.res = .outputFull → unitsOfList (sinkOf q) r.out + r.stopNeed ≤ qPhi q v s (src.length + m)) := by
  cases q with
  | utf16 =>
    have := call_bound_slack (variantPot16 v) (famOfVariant_laws v) m src s b hi hb
    exact ⟨this.1, this.2.1⟩
  | utf8 =>
    have := call_bound_slack (variantPot8 v) (famOfVariant_laws v) m src s b (variantPot8_inv v ▸ hi) hb
    exact ⟨this.1, this.2.1⟩
  | utf8NoRepl =>
    have := call_bound_slack (variantPot8N v) (famOfVariant_laws v) m src s b (variantPot8N_inv v ▸ hi) hb
    exact ⟨this.1, this.2.1⟩

theorem utf16Alt_short (be : Bool) (s : Utf16St) (src : List Nat) (h : src.length < 4) :
    utf16Alt be s src = none := by
  unfold utf16Alt
  split
  · rfl
  · split
    · simp only [List.length_cons] at h; omega
    · rfl

/-- the look-ahead error path needs four bytes: it never fires in a replay of withheld bytes -/
theorem variant_alt_short (v : Gen.Variant) (s : (famOfVariant v).σ) (src : List Nat) (h : src.length < 4) :
    (famOfVariant v).alt s src = none := by
  cases v
  case utf16Be => exact utf16Alt_short true s src h
  case utf16Le => exact utf16Alt_short false s src h
  all_goals rfl

/-- with replacement: a `Malformed` stop of a short non-`last` call (a replay) leaves room for U+FFFD
and enough potential for what follows -/
theorem q_call_slack_malformed (q : Query) (hq2 : q = .utf16 ∨ q = .utf8) (v : Gen.Variant)
    (s : (famOfVariant v).σ) (src : List Nat) (b : Budget) (m : Nat) (hi : variantInv v s)
    (hb : ∀ x ∈ src, x < 256) (hshort : src.length < 4) (l a : Nat)
    (hres : (call (famOfVariant v) (sinkOf q) s src false b).res = .malformed l a) :
    unitsOfList (sinkOf q) (call (famOfVariant v) (sinkOf q) s src false b).out + replRoom (sinkOf q)
      + qPhi q v (call (famOfVariant v) (sinkOf q) s src false b).st
          (src.length - (call (famOfVariant v) (sinkOf q) s src false b).read + m)
      ≤ qPhi q v s (src.length + m) := by
  have hna : ∀ s' (src' : List Nat), src'.length ≤ src.length → (famOfVariant v).alt s' src' = none :=
    fun s' src' h => variant_alt_short v s' src' (by omega)
  rcases hq2 with rfl | rfl
  · exact (call_bound_slack (variantPot16 v) (famOfVariant_laws v) m src s b hi hb).2.2 rfl hna l a hres
  · exact (call_bound_slack (variantPot8 v) (famOfVariant_laws v) m src s b (variantPot8_inv v ▸ hi) hb).2.2 rfl hna l a hres

/-- with replacement: a `Malformed` stop of any call (exact byte count) -/
theorem q_call_malformed (q : Query) (hq2 : q = .utf16 ∨ q = .utf8) (v : Gen.Variant)
    (s : (famOfVariant v).σ) (src : List Nat) (last : Bool) (b : Budget) (hi : variantInv v s)
    (hb : ∀ x ∈ src, x < 256) (l a : Nat)
    (hres : (call (famOfVariant v) (sinkOf q) s src last b).res = .malformed l a) :
    unitsOfList (sinkOf q) (call (famOfVariant v) (sinkOf q) s src last b).out + replRoom (sinkOf q)
      + qPhi q v (call (famOfVariant v) (sinkOf q) s src last b).st
          (src.length - (call (famOfVariant v) (sinkOf q) s src last b).read)
      ≤ qPhi q v s src.length := by
  rcases hq2 with rfl | rfl
  · exact (call_bound (variantPot16 v) (famOfVariant_laws v) last src s b hi hb).2.2 rfl l a hres
  · exact (call_bound (variantPot8 v) (famOfVariant_laws v) last src s b (variantPot8_inv v ▸ hi) hb).2.2 rfl l a hres

end EncodingRs.Lemmas.PotMono
