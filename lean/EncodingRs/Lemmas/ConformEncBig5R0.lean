import EncodingRs.Lemmas.ConformEncBig5Def
/-! C03, Big5: complete evaluation of `big5Check` over the code points 0x0 ≤ c < 0x3400 (`native_decide`). -/
namespace EncodingRs.Lemmas.ConformEnc

theorem big5_check_r0 : allFrom big5Check 0x0 0x3400 = true := by native_decide

end EncodingRs.Lemmas.ConformEnc
