import EncodingRs.Lemmas.MaxLenFam1
/-!
# C07 (decoder half): potentials for UTF-16LE/BE

`additional_from_state` (`A` below) after the repair of finding F8 counts a pending BMP unit
even when that unit is U+0000.  The formulas `1 + (n + A) / 2` and `1 + 3 * ((n + A) / 2)`
are then potentials themselves.  The end of the file shows that the formula before the repair
was insufficient in the model (the run on the real code is in NOTES-c07d.md).
-/
namespace EncodingRs.Lemmas.MaxLenFam
open EncodingRs EncodingRs.Model EncodingRs.Lemmas.Potential EncodingRs.Lemmas.MaxLenArith
open EncodingRs.Lemmas.Scalar EncodingRs.Gen.MaxLen

/-- `utf16Inv` plus: the pending unit is a 16-bit value -/
def utf16InvB (s : Utf16St) : Prop := utf16Inv s ∧ s.leadSurrogate < 0x10000

theorem utf16InvB_init : utf16InvB utf16Init :=
  ⟨⟨(by intro l h; cases h), Or.inl rfl⟩, by decide⟩

/-- what a step of the UTF-16 decoder does to `additional_from_state` and what it writes -/
def Utf16Facts (s : Utf16St) (r : FeedRes Utf16St) : Prop :=
  let A := utf16AdditionalFromState s
  let A' := utf16AdditionalFromState r.st
  (r.err = none ∧ r.out = [] ∧ A' = A + 1) ∨
  (r.err = none ∧ A = 4 ∧ A' = 1 ∧ ∃ c, r.out = [c]) ∨
  (r.err = none ∧ A = 2 ∧ A' = 1 ∧ ∃ c, r.out = [c] ∧ c < 0x10000) ∨
  ((∃ e, r.err = some e) ∧ r.unread = false ∧ r.out = [] ∧ A = 4 ∧ A' = 3) ∨
  ((∃ e, r.err = some e) ∧ r.unread = false ∧ r.out = [] ∧ A = 2 ∧ A' = 1)

theorem utf16_facts (be : Bool) (s : Utf16St) (b : Nat) (hi : utf16InvB s) (hpb : s.pendingBmp = false)
    (hb : b < 256) : utf16InvB (utf16Feed be s b).st ∧ Utf16Facts s (utf16Feed be s b) := by
  have hstep := (utf16_step be s b hi.1 hpb hb).1
  obtain ⟨lb, ls, pb⟩ := s
  obtain ⟨⟨h1, _⟩, h3⟩ := hi
  simp only at h1 h3 hpb
  subst hpb
  cases lb with
  | none =>
    have hf : utf16Feed be ⟨none, ls, false⟩ b = FeedRes.ok ⟨some b, ls, false⟩ [] := rfl
    rw [hf] at hstep ⊢
    refine ⟨⟨hstep, h3⟩, Or.inl ⟨rfl, rfl, ?_⟩⟩
    simp only [FeedRes.ok, utf16AdditionalFromState]
    simp only [Option.isSome_some, Option.isSome_none, if_true, Bool.false_eq_true, if_false]
    omega
  | some lead =>
    have hlead : lead < 256 := h1 lead rfl
    have hu := utf16Unit_lt be lead b hlead hb
    have hA0 : ∀ x : Nat, utf16AdditionalFromState ⟨some x, 0, false⟩ = 2 := by
      intro x; simp [utf16AdditionalFromState]
    have hA1 : ∀ x : Nat, ls ≠ 0 → utf16AdditionalFromState ⟨some x, ls, false⟩ = 4 := by
      intro x h; simp [utf16AdditionalFromState, h]
    have hAi : utf16AdditionalFromState ⟨none, 0, false⟩ = 1 := by simp [utf16AdditionalFromState]
    have hAs : ∀ (u : Nat) (p : Bool), u ≠ 0 → utf16AdditionalFromState ⟨none, u, p⟩ = 3 := by
      intro u p h; simp [utf16AdditionalFromState, h]
    have hAp : ∀ (u : Nat), utf16AdditionalFromState ⟨none, u, true⟩ = 3 := by
      intro u; simp [utf16AdditionalFromState]
    by_cases h36 : utf16Unit be lead b / 0x400 = 0x36
    · have hune : utf16Unit be lead b ≠ 0 := by intro h0; rw [h0] at h36; simp at h36
      by_cases hls : ls = 0
      · subst hls
        have hf : utf16Feed be ⟨some lead, 0, false⟩ b = FeedRes.ok ⟨none, utf16Unit be lead b, false⟩ [] := by
          simp [utf16Feed, h36]
        rw [hf] at hstep ⊢
        refine ⟨⟨hstep, hu⟩, Or.inl ⟨rfl, rfl, ?_⟩⟩
        show utf16AdditionalFromState ⟨none, utf16Unit be lead b, false⟩ = _
        rw [hA0, hAs _ _ hune]
      · have hf : utf16Feed be ⟨some lead, ls, false⟩ b = FeedRes.bad ⟨none, utf16Unit be lead b, false⟩ 2 2 := by
          simp [utf16Feed, h36, hls]
        rw [hf] at hstep ⊢
        refine ⟨⟨hstep, hu⟩, Or.inr (Or.inr (Or.inr (Or.inl ⟨⟨_, rfl⟩, rfl, rfl, hA1 _ hls, ?_⟩)))⟩
        exact hAs _ _ hune
    · by_cases h37 : utf16Unit be lead b / 0x400 = 0x37
      · by_cases hls : ls = 0
        · subst hls
          have hf : utf16Feed be ⟨some lead, 0, false⟩ b = FeedRes.bad ⟨none, 0, false⟩ 2 0 := by
            simp [utf16Feed, h36, h37]
          rw [hf] at hstep ⊢
          exact ⟨⟨hstep, (by show (0 : Nat) < _; omega)⟩, Or.inr (Or.inr (Or.inr (Or.inr ⟨⟨_, rfl⟩, rfl, rfl, hA0 _, hAi⟩)))⟩
        · have hf : utf16Feed be ⟨some lead, ls, false⟩ b
              = FeedRes.ok ⟨none, 0, false⟩ [utf16Pair ls (utf16Unit be lead b)] := by
            simp [utf16Feed, h36, h37, hls]
          rw [hf] at hstep ⊢
          exact ⟨⟨hstep, (by show (0 : Nat) < _; omega)⟩, Or.inr (Or.inl ⟨rfl, hA1 _ hls, hAi, _, rfl⟩)⟩
      · by_cases hls : ls = 0
        · subst hls
          have hf : utf16Feed be ⟨some lead, 0, false⟩ b = FeedRes.ok ⟨none, 0, false⟩ [utf16Unit be lead b] := by
            simp [utf16Feed, h36, h37]
          rw [hf] at hstep ⊢
          exact ⟨⟨hstep, (by show (0 : Nat) < _; omega)⟩, Or.inr (Or.inr (Or.inl ⟨rfl, hA0 _, hAi, _, rfl, hu⟩))⟩
        · have hf : utf16Feed be ⟨some lead, ls, false⟩ b = FeedRes.bad ⟨none, utf16Unit be lead b, true⟩ 2 2 := by
            simp [utf16Feed, h36, h37, hls]
          rw [hf] at hstep ⊢
          exact ⟨⟨hstep, hu⟩, Or.inr (Or.inr (Or.inr (Or.inl ⟨⟨_, rfl⟩, rfl, rfl, hA1 _ hls, hAp _⟩)))⟩

theorem utf16_pend_facts (be : Bool) (s : Utf16St) (o : List Nat) (s' : Utf16St) (hi : utf16InvB s)
    (h : (utf16Fam be).pend s = some (o, s')) :
    utf16InvB s' ∧ utf16AdditionalFromState s = utf16AdditionalFromState s' + 2 ∧ ∃ c, o = [c] ∧ c < 0x10000 := by
  have hinv := ((utf16Scalar be).pend s o s' hi.1 h).1
  have h' : (if s.pendingBmp then some ([s.leadSurrogate], (⟨s.leadByte, 0, false⟩ : Utf16St)) else none)
      = some (o, s') := h
  cases hpb : s.pendingBmp
  · simp [hpb] at h'
  · simp only [hpb, if_true, Option.some.injEq, Prod.mk.injEq] at h'
    obtain ⟨ho, hs⟩ := h'
    subst hs
    refine ⟨⟨hinv, (by show (0 : Nat) < _; omega)⟩, ?_, _, ho.symm, hi.2⟩
    simp [utf16AdditionalFromState, hpb]

theorem utf16_eof_facts (s : Utf16St) (e : Nat × Nat) (s' : Utf16St) (hpb : s.pendingBmp = false)
    (h : utf16Eof s = some (e, s')) :
    s' = utf16Init ∧ 2 ≤ utf16AdditionalFromState s := by
  obtain ⟨lb, ls, pb⟩ := s
  simp only at hpb; subst hpb
  unfold utf16Eof at h
  simp only at h
  by_cases hls : ls = 0
  · subst hls
    cases lb with
    | none => simp at h
    | some l =>
      simp only [ne_eq, not_true_eq_false, if_false, Option.some.injEq, Prod.mk.injEq] at h
      exact ⟨h.2.symm, by simp [utf16AdditionalFromState]⟩
  · simp only [ne_eq, hls, not_false_eq_true, if_true] at h
    cases lb with
    | none =>
      simp only [Option.some.injEq, Prod.mk.injEq] at h
      exact ⟨h.2.symm, by simp [utf16AdditionalFromState, hls]⟩
    | some l =>
      simp only [Option.some.injEq, Prod.mk.injEq] at h
      exact ⟨h.2.symm, by simp [utf16AdditionalFromState, hls]⟩

theorem utf16_alt_facts (be : Bool) (s : Utf16St) (src : List Nat) (m : Nat) (r : FeedRes Utf16St)
    (h : utf16Alt be s src = some (m, r)) :
    utf16AdditionalFromState s = 1 ∧ m = 2 ∧ 2 ≤ src.length ∧ r.st = utf16Init ∧ r.out = [] := by
  unfold utf16Alt at h
  split at h
  · cases h
  · rename_i hneutral
    have hA : utf16AdditionalFromState s = 1 := by
      obtain ⟨lb, ls, pb⟩ := s
      have h1 : lb = none := by
        cases lb with
        | none => rfl
        | some x => exact absurd (Or.inl rfl) hneutral
      have h2 : ls = 0 := by
        cases Nat.decEq ls 0 with
        | isTrue h => exact h
        | isFalse h => exact absurd (Or.inr (Or.inl h)) hneutral
      have h3 : pb = false := by
        cases pb with
        | false => rfl
        | true => exact absurd (Or.inr (Or.inr rfl)) hneutral
      subst h1; subst h2; subst h3
      simp [utf16AdditionalFromState]
    match src, h with
    | b0 :: b1 :: b2 :: b3 :: tl, h =>
      simp only at h
      split at h
      · simp only [Option.some.injEq, Prod.mk.injEq] at h
        obtain ⟨hm, hr⟩ := h
        subst hr
        exact ⟨hA, hm.symm, by simp, rfl, rfl⟩
      · cases h

/-- UTF-16: a bound `φ A n` (`A` = `additional_from_state`) is a potential if it satisfies these
inequalities (one per kind of step) -/
def utf16Pot (be : Bool) (k : Sink) (repl : Bool) (φ : Nat → Nat → Nat)
    (h_need : ∀ A n, 1 ≤ A → needAstral k ≤ φ A (n + 1))
    (h_more : ∀ A n, φ (A + 1) n ≤ φ A (n + 1))
    (h_pair : ∀ n, needAstral k + φ 1 n ≤ φ 4 (n + 1))
    (h_bmp : ∀ n, needBmp k + φ 1 n ≤ φ 2 (n + 1))
    (h_err4 : ∀ n, needBmp k + φ 3 n ≤ φ 4 (n + 1))
    (h_pend : ∀ A n, needBmp k + φ A n ≤ φ (A + 2) n)
    (h_eof : ∀ A, 2 ≤ A → needBmp k + φ 1 0 ≤ φ A 0)
    (h_alt : ∀ n, needBmp k + φ 1 n ≤ φ 1 (n + 2)) :
    Potential (utf16Fam be) k repl where
  Inv := utf16InvB
  Φ := fun s n => φ (utf16AdditionalFromState s) n
  inv_step := fun s b hi hp hb =>
    (utf16_facts be s b hi ((EncodingRs.Lemmas.FamLaws.utf16_pend_none_iff s be).mp hp) hb).1
  inv_pend := fun s o s' hi h => (utf16_pend_facts be s o s' hi h).1
  inv_eof := by
    intro (s : Utf16St) e (s' : Utf16St) hi h
    have := (utf16Scalar be).eof s e s' hi.1 h
    have h' : utf16Eof s = some (e, s') := h
    have hs : s' = utf16Init := by
      unfold utf16Eof at h'
      repeat' split at h'
      all_goals first
        | (simp only [Option.some.injEq, Prod.mk.injEq] at h'; exact h'.2.symm)
        | cases h'
    rw [hs]; exact utf16InvB_init
  need_le := by
    intro (s : Utf16St) b n _ _ _
    apply h_need
    simp only [utf16AdditionalFromState]; omega
  step_ok := by
    intro (s : Utf16St) b n hi hp hb he
    have he' : (utf16Feed be s b).err = none := he
    have hf := (utf16_facts be s b hi ((EncodingRs.Lemmas.FamLaws.utf16_pend_none_iff s be).mp hp) hb).2
    show unitsOfList k (utf16Feed be s b).out + φ (utf16AdditionalFromState (utf16Feed be s b).st) n
      ≤ φ (utf16AdditionalFromState s) (n + 1)
    unfold Utf16Facts at hf
    simp only at hf
    rcases hf with ⟨_, ho, hA⟩ | ⟨_, hA, hA', c, ho⟩ | ⟨_, hA, hA', c, ho, hc⟩ | ⟨⟨e, h⟩, _⟩ | ⟨⟨e, h⟩, _⟩
    · rw [ho, hA, units_nil]; have := h_more (utf16AdditionalFromState s) n; omega
    · rw [ho, hA, hA', units_single]
      have := h_pair n; have := unitsOf_le_astral k c; omega
    · rw [ho, hA, hA', units_single]
      have := h_bmp n; have := unitsOf_bmp k c hc; omega
    · rw [he'] at h; cases h
    · rw [he'] at h; cases h
  step_err := by
    intro _ (s : Utf16St) b n e hi hp hb he
    have he' : (utf16Feed be s b).err = some e := he
    have hf := (utf16_facts be s b hi ((EncodingRs.Lemmas.FamLaws.utf16_pend_none_iff s be).mp hp) hb).2
    show unitsOfList k (utf16Feed be s b).out + replRoom k
      + φ (utf16AdditionalFromState (utf16Feed be s b).st) (if (utf16Feed be s b).unread then n + 1 else n)
      ≤ φ (utf16AdditionalFromState s) (n + 1)
    unfold Utf16Facts at hf
    simp only at hf
    rw [replRoom_eq_needBmp]
    rcases hf with ⟨h, _⟩ | ⟨h, _⟩ | ⟨h, _⟩ | ⟨_, hu, ho, hA, hA'⟩ | ⟨_, hu, ho, hA, hA'⟩
    · rw [he'] at h; cases h
    · rw [he'] at h; cases h
    · rw [he'] at h; cases h
    · rw [hu, ho, hA, hA', units_nil]
      simp only [Bool.false_eq_true, if_false]
      have := h_err4 n; omega
    · rw [hu, ho, hA, hA', units_nil]
      simp only [Bool.false_eq_true, if_false]
      have := h_bmp n; omega
  pend_le := by
    intro (s : Utf16St) o (s' : Utf16St) n hi h
    obtain ⟨_, hA, c, ho, hc⟩ := utf16_pend_facts be s o s' hi h
    show needBmp k ≤ φ (utf16AdditionalFromState s) n ∧
      unitsOfList k o + φ (utf16AdditionalFromState s') n ≤ φ (utf16AdditionalFromState s) n
    rw [hA, ho, units_single]
    have := h_pend (utf16AdditionalFromState s') n
    have := unitsOf_bmp k c hc
    omega
  eof_le := by
    intro (s : Utf16St) e (s' : Utf16St) _ hp h
    obtain ⟨hs, hA⟩ := utf16_eof_facts s e s' ((EncodingRs.Lemmas.FamLaws.utf16_pend_none_iff s be).mp hp) h
    show needBmp k ≤ φ (utf16AdditionalFromState s) 0 ∧
      (repl = true → replRoom k + φ (utf16AdditionalFromState s') 0 ≤ φ (utf16AdditionalFromState s) 0)
    have hAi : utf16AdditionalFromState utf16Init = 1 := by simp [utf16AdditionalFromState, utf16Init]
    rw [hs, hAi, replRoom_eq_needBmp]
    have := h_eof _ hA
    exact ⟨by omega, fun _ => this⟩
  alt_le := by
    intro _ (s : Utf16St) src m (r : FeedRes Utf16St) _ _ h
    obtain ⟨hA, hm, hl, hs, ho⟩ := utf16_alt_facts be s src m r h
    have hAi : utf16AdditionalFromState utf16Init = 1 := by simp [utf16AdditionalFromState, utf16Init]
    refine ⟨by rw [hs]; exact utf16InvB_init, ?_⟩
    show unitsOfList k r.out + replRoom k + φ (utf16AdditionalFromState r.st) (src.length - m)
      ≤ φ (utf16AdditionalFromState s) src.length
    rw [ho, hs, hA, hAi, hm, units_nil, replRoom_eq_needBmp]
    have := h_alt (src.length - 2)
    have e : src.length - 2 + 2 = src.length := by omega
    rw [e] at this
    omega
  alt_inv := by
    intro (s : Utf16St) src m (r : FeedRes Utf16St) _ h
    obtain ⟨_, _, _, hs, _⟩ := utf16_alt_facts be s src m r h
    rw [hs]; exact utf16InvB_init

def utf16Pot16 (be : Bool) : Potential (utf16Fam be) .utf16 true :=
  utf16Pot be .utf16 true (fun A n => 1 + (n + A) / 2)
    (by intro A n h; simp only [needAstral]; omega)
    (by intro A n; omega)
    (by intro n; simp only [needAstral]; omega)
    (by intro n; simp only [needBmp]; omega)
    (by intro n; simp only [needBmp]; omega)
    (by intro A n; simp only [needBmp]; omega)
    (by intro A h; simp only [needBmp]; omega)
    (by intro n; simp only [needBmp]; omega)

def utf16Pot8 (be : Bool) (repl : Bool) : Potential (utf16Fam be) .utf8 repl :=
  utf16Pot be .utf8 repl (fun A n => 1 + 3 * ((n + A) / 2))
    (by intro A n h; simp only [needAstral]; omega)
    (by intro A n; omega)
    (by intro n; simp only [needAstral]; omega)
    (by intro n; simp only [needBmp]; omega)
    (by intro n; simp only [needBmp]; omega)
    (by intro A n; simp only [needBmp]; omega)
    (by intro A h; simp only [needBmp]; omega)
    (by intro n; simp only [needBmp]; omega)

/-! ### Finding F8: the formula before the repair

`additional_from_state` used to be `1 + [lead_byte] + (if lead_surrogate == 0 {0} else {2})`,
which forgets a pending BMP unit whose value is U+0000.  In that (reachable) state the model
admits an `OutputFull` stop with a destination of exactly the old formula's size — and so did
the real code. -/

def utf16AdditionalOld (s : Utf16St) : Nat :=
  1 + (if s.leadByte.isSome then 1 else 0) + (if s.leadSurrogate = 0 then 0 else 2)
def utf16Utf16Old (s : Utf16St) (n : Nat) : Nat := 1 + (n + utf16AdditionalOld s) / 2

/-- D8 3D | 00 00 | 00 41 00 (UTF-16BE, cut into three calls): the second call ends with the
unpaired surrogate's error and U+0000 pending; for the third call (3 bytes) the old formula gives
3 units; flushing U+0000 and writing U+0041 leaves 1 unit, less than the 2 the main loop asks for. -/
theorem f8_old_formula_insufficient :
    let F := utf16Fam true
    let s1 : Utf16St := (call F .utf16 F.init [0xD8, 0x3D] false .unlimited).st
    let r2 := call F .utf16 s1 [0x00, 0x00] false .unlimited
    let s2 : Utf16St := r2.st
    let r3 := call F .utf16 s2 [0x00, 0x41, 0x00] false (.full 3)
    r2.res = .malformed 2 2 ∧ s2 = ⟨none, 0, true⟩ ∧
    utf16Utf16Old s2 3 = 3 ∧ utf16Utf16Nat s2 3 = 4 ∧
    r3.res = .outputFull ∧ Admissible F .utf16 3 r3 := by
  intro F s1 r2 s2 r3
  have h1 : r3.res = .outputFull := by decide
  refine ⟨by decide, rfl, by decide, by decide, h1, ?_, ?_, ?_⟩
  · decide
  · intro _; decide
  · intro l a h; rw [h1] at h; cases h

end EncodingRs.Lemmas.MaxLenFam
