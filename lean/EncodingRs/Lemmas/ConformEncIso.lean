import EncodingRs.Lemmas.ConformEncIsoR0
import EncodingRs.Lemmas.ConformEncIsoR1
import EncodingRs.Lemmas.ConformEncIsoR2
import EncodingRs.Lemmas.ConformEncIsoR3
import EncodingRs.Lemmas.ConformEncIsoR4
import EncodingRs.Lemmas.ConformEncIsoR5
import EncodingRs.Lemmas.ConformEncIsoR6
import EncodingRs.Lemmas.ConformEncIsoR7
/-!
# C03: the ISO-2022-JP encoder of the model is the Standard's, for every (state, code point)

`iso_char_conforms`: from every encoder state, the model's processing of a character (the
faithful step `isoEncStep` with its `.again` re-reads, as `processChar` runs it) writes the
bytes, reports the error and reaches the state of the chain of runs of the Standard's handler
on that code point.  Complete evaluation (`native_decide`, `ConformEncIsoR*.lean`) over the three
states and all code points `< 0x110000`.  The end-of-queue block and the numeric character
reference alphabet are handled symbolically.
-/
namespace EncodingRs.Lemmas.ConformEnc
open EncodingRs EncodingRs.Model EncodingRs.Spec.Encode

/-- `isoCheck` holds for every code point (the ranges of `ConformEncIsoR*.lean` together) -/
theorem iso_check (c : Nat) (hc : c < 0x110000) : isoCheck c = true := by
  by_cases h0 : c < 0x4E00
  · exact allFrom_spec _ _ _ iso_check_r0 c (by omega) (by omega)
  by_cases h1 : c < 0x5C00
  · exact allFrom_spec _ _ _ iso_check_r1 c (by omega) (by omega)
  by_cases h2 : c < 0x6A00
  · exact allFrom_spec _ _ _ iso_check_r2 c (by omega) (by omega)
  by_cases h3 : c < 0x7800
  · exact allFrom_spec _ _ _ iso_check_r3 c (by omega) (by omega)
  by_cases h4 : c < 0x8600
  · exact allFrom_spec _ _ _ iso_check_r4 c (by omega) (by omega)
  by_cases h5 : c < 0x9400
  · exact allFrom_spec _ _ _ iso_check_r5 c (by omega) (by omega)
  by_cases h6 : c < 0xA000
  · exact allFrom_spec _ _ _ iso_check_r6 c (by omega) (by omega)
  exact allFrom_spec _ _ _ iso_check_r7 c (by omega) (by omega)

theorem iso_handler_eq : iso2022JpHandler = iso2022JpHandlerWith (invLookup isoJisInv) := by
  funext s item
  unfold iso2022JpHandler
  rw [iso_ptr]

theorem isoCheckAt_of (s : IsoEncSt) (c : Nat) (hc : c < 0x110000) : isoCheckAt s c = true := by
  have h := iso_check c hc
  unfold isoCheck at h
  simp only [Bool.and_eq_true] at h
  cases s
  · exact h.1.1
  · exact h.1.2
  · exact h.2

/-- per-(state, character) conformance, ISO-2022-JP -/
theorem iso_char_conforms (s : IsoEncSt) (c : Nat) (hc : c < 0x110000) :
    specChain iso2022JpHandler 3 (isoPhi s) c
      = some ((isoChar s c).1, (isoChar s c).2.1, isoPhi (isoChar s c).2.2) := by
  have h := isoCheckAt_of s c hc
  unfold isoCheckAt at h
  simp only [Bool.and_eq_true] at h
  rw [iso_handler_eq, ← isoCharFast_eq]
  exact of_decide_eq_true h.1

/-- an `Unmappable` report never leaves the encoder in the JIS X 0208 state -/
theorem iso_char_error_state (s : IsoEncSt) (c : Nat) (hc : c < 0x110000) (u : Nat)
    (hu : (isoChar s c).2.1 = some u) : (isoChar s c).2.2 ≠ .jis0208 := by
  have h := isoCheckAt_of s c hc
  unfold isoCheckAt at h
  simp only [Bool.and_eq_true, Bool.or_eq_true, decide_eq_true_eq] at h
  rw [isoCharFast_eq] at h
  rcases h.2 with h2 | h2
  · rw [hu] at h2; cases h2
  · exact h2

end EncodingRs.Lemmas.ConformEnc
