import EncodingRs.Lemmas.ConformEncBig5Def
/-! C03, Big5: complete evaluation of `big5Check` over the code points 0x10000 ≤ c < 0x110000 (`native_decide`). -/
namespace EncodingRs.Lemmas.ConformEnc

theorem big5_check_r5 : allFrom big5Check 0x10000 0x100000 = true := by native_decide

end EncodingRs.Lemmas.ConformEnc
