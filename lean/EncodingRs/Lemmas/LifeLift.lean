import EncodingRs.Thm.C06More
import EncodingRs.Thm.C07LifeRepl
/-!
Tools for lifting variant-decoder theorems (`Model.call`, `Model.replLoop`) to the public `Decoder`
(`Decoder.rawCall`, `Decoder.replCall`: BOM life cycle included), shared by `Thm/C05Life.lean`,
`Thm/C06Life.lean`, `Thm/C09Life.lean`, `Thm/C18Life.lean`.

* `ReadOk` / `rawCall_readOk`: `read ≤ src.len()` and `InputEmpty → read = src.len()` for every
  result of `Decoder.rawCall` (a second walk through the automaton: the seven leaves of
  `Lemmas.LifeLeaf` forget how many BOM bytes of the source were skipped).
* `Coh` / `rawCall_coh`: the output of a `Decoder` call is the concatenation of the outputs of its
  inner variant-decoder calls (replay of withheld bytes first), and a `Malformed` result is the
  result of the last of them.
* `rawCall_malformed_settled`, `settled_ne_panic`: after a `Malformed` the decoder is in `Converting`
  or `ConvertingWithPendingBB`, and a decoder in one of these two states cannot reach the model's
  panic value.
* `ReplChain`: the with-replacement loop `Decoder.replCall` unrolled into its chain of raw calls
  (`replCall_chain`, `replCall_chain_adm`; conversely `replChain_replCall`, `replChain_replCall_adm`:
  the chain is the loop in relational form — it is also what the driver's `checkRepl` searches for);
  inductions over the loop are inductions over the chain.
* reachability: `DReach` (C07Life) and `DReachAt` (C06More) describe the same decoders
  (`dreach_at`, `dreachAt_dreach`); both are closed under with-replacement calls
  (`replChain_reachAt`), so `DReachAny` — any mix of the four public methods — adds nothing
  (`dreachAny_at`).
-/
namespace EncodingRs.Lemmas.LifeLift
open EncodingRs EncodingRs.Model EncodingRs.Lemmas.Core EncodingRs.Lemmas.FamLaws EncodingRs.Lemmas.Life
open EncodingRs.Lemmas.LifeLeaf EncodingRs.Thm.C10 EncodingRs.Thm.C07 EncodingRs.Thm.C06

variable {F : Fam}

/-! ### `read` -/

/-- the read contract of a `Decoder` call -/
def ReadOk (src : List Nat) : DRes F → Prop
  | .panic => True
  | .ok res read _ _ _ => read ≤ src.length ∧ (res = .inputEmpty → read = src.length)

theorem checkingEnd_readOk (halt : ∀ s src m r, F.alt s src = some (m, r) → m ≤ src.length)
    (k : Sink) (c : Cur F) (src : List Nat) (last : Bool) (b : Budget) (off : Nat)
    (pre : List (List Nat × Res × Nat)) (preOut : List Nat) (hoff : off ≤ src.length) :
    ReadOk src (checkingEnd k c src last b off pre preOut) := by
  have h1 := cur_call_read_le k c (src.drop off) last b halt
  have h2 := cur_call_inputEmpty k c (src.drop off) last b
  rw [List.length_drop] at h1 h2
  unfold checkingEnd ReadOk
  generalize c.call k (src.drop off) last b = r at h1 h2
  simp only
  exact ⟨by omega, fun h => by have := h2 h; omega⟩

theorem afterOne_readOk (halt : ∀ s src m r, F.alt s src = some (m, r) → m ≤ src.length)
    (k : Sink) (c : Cur F) (src : List Nat) (last : Bool) (fb : Nat) (b1 b2 : Budget) :
    ReadOk src (afterOne k c src last fb b1 b2) := by
  unfold afterOne
  simp only
  split
  · exact checkingEnd_readOk halt k _ src last b2 0 _ _ (Nat.zero_le _)
  · exact ⟨Nat.zero_le _, by intro h; cases h⟩
  · split
    · exact ⟨Nat.zero_le _, by intro h; cases h⟩
    · trivial

theorem afterTwo_readOk (halt : ∀ s src m r, F.alt s src = some (m, r) → m ≤ src.length)
    (k : Sink) (c : Cur F) (src : List Nat) (last : Bool) (b1 b2 : Budget) :
    ReadOk src (afterTwo k c src last b1 b2) := by
  unfold afterTwo
  simp only
  split
  · exact checkingEnd_readOk halt k _ src last b2 0 _ _ (Nat.zero_le _)
  · split
    · exact ⟨Nat.zero_le _, by intro h; cases h⟩
    · exact ⟨Nat.zero_le _, by intro h; cases h⟩
  · split
    · exact ⟨Nat.zero_le _, by intro h; cases h⟩
    · trivial

theorem second_readOk (halt : ∀ s src m r, F.alt s src = some (m, r) → m ≤ src.length)
    (k : Sink) (d : Decoder F) (src : List Nat) (last : Bool) (b1 b2 : Budget) (offset : Nat)
    (rest : List Nat) (hlen : src.length = offset + rest.length) :
    ReadOk src (Decoder.rawCall.seenUtf8Second k d src last b1 b2 offset rest) := by
  unfold Decoder.rawCall.seenUtf8Second
  split
  · simp only [List.length_nil, Nat.add_zero] at hlen
    cases last with
    | true =>
      simp only [if_true]
      split
      · exact afterOne_readOk halt ..
      · exact checkingEnd_readOk halt _ _ _ _ _ _ _ _ (Nat.zero_le _)
    | false =>
      simp only [Bool.false_eq_true, if_false]
      exact ⟨by omega, fun _ => hlen.symm⟩
  · simp only [List.length_cons] at hlen
    exact checkingEnd_readOk halt _ _ _ _ _ _ _ _ (by omega)
  · split
    · exact afterOne_readOk halt ..
    · exact checkingEnd_readOk halt _ _ _ _ _ _ _ _ (Nat.zero_le _)

theorem first_readOk (halt : ∀ s src m r, F.alt s src = some (m, r) → m ≤ src.length)
    (k : Sink) (d : Decoder F) (src : List Nat) (last : Bool) (b1 b2 : Budget)
    (rest : List Nat) (hlen : src.length = 1 + rest.length) :
    ReadOk src (Decoder.rawCall.seenUtf8First k d src last b1 b2 rest) := by
  unfold Decoder.rawCall.seenUtf8First
  split
  · simp only [List.length_nil, Nat.add_zero] at hlen
    cases last with
    | true => simp only [if_true]; exact checkingEnd_readOk halt _ _ _ _ _ _ _ _ (Nat.zero_le _)
    | false =>
      simp only [Bool.false_eq_true, if_false]
      exact ⟨by omega, fun _ => hlen.symm⟩
  · simp only [List.length_cons] at hlen
    exact second_readOk halt k d src last b1 b2 2 _ (by omega)
  · exact checkingEnd_readOk halt _ _ _ _ _ _ _ _ (Nat.zero_le _)

theorem first16_readOk (halt : ∀ s src m r, F.alt s src = some (m, r) → m ≤ src.length)
    (k : Sink) (d : Decoder F) (src : List Nat) (last : Bool) (b2 : Budget) (be : Bool)
    (rest : List Nat) (hlen : src.length = 1 + rest.length) :
    ReadOk src (Decoder.rawCall.seenUtf16First k d src last b2 be rest) := by
  unfold Decoder.rawCall.seenUtf16First
  split
  · simp only [List.length_nil, Nat.add_zero] at hlen
    cases last with
    | true => simp only [if_true]; exact checkingEnd_readOk halt _ _ _ _ _ _ _ _ (Nat.zero_le _)
    | false =>
      simp only [Bool.false_eq_true, if_false]
      exact ⟨by omega, fun _ => hlen.symm⟩
  · simp only [List.length_cons] at hlen
    cases be with
    | true =>
      simp only [if_true]
      split
      · exact checkingEnd_readOk halt _ _ _ _ _ _ _ _ (by omega)
      · exact checkingEnd_readOk halt _ _ _ _ _ _ _ _ (Nat.zero_le _)
    | false =>
      simp only [Bool.false_eq_true, if_false]
      split
      · exact checkingEnd_readOk halt _ _ _ _ _ _ _ _ (by omega)
      · exact checkingEnd_readOk halt _ _ _ _ _ _ _ _ (Nat.zero_le _)

/-- **`read ≤ src.len()`, and `InputEmpty` only when everything was consumed** — every life-cycle
state, every source, every stop policy -/
theorem rawCall_readOk (halt : ∀ s src m r, F.alt s src = some (m, r) → m ≤ src.length)
    (k : Sink) (d : Decoder F) (src : List Nat) (last : Bool) (b1 b2 : Budget) :
    ReadOk src (d.rawCall k src last b1 b2) := by
  have hidle : ReadOk ([] : List Nat) (DRes.ok .inputEmpty 0 [] d [] : DRes F) := ⟨Nat.le_refl _, fun _ => rfl⟩
  obtain ⟨life, c⟩ := d
  cases life
  case converting => unfold Decoder.rawCall; exact checkingEnd_readOk halt _ _ _ _ _ _ _ _ (Nat.zero_le _)
  case finished => unfold Decoder.rawCall; trivial
  case convertingWithPendingBB => unfold Decoder.rawCall; exact afterOne_readOk halt ..
  case atStart =>
    unfold Decoder.rawCall; simp only
    split
    · exact hidle
    · exact first_readOk halt k _ _ last b1 b2 _ (by simp only [List.length_cons]; omega)
    · exact first16_readOk halt k _ _ last b2 true _ (by simp only [List.length_cons]; omega)
    · exact first16_readOk halt k _ _ last b2 false _ (by simp only [List.length_cons]; omega)
    · exact checkingEnd_readOk halt _ _ _ _ _ _ _ _ (Nat.zero_le _)
  case atUtf8Start =>
    unfold Decoder.rawCall; simp only
    split
    · exact hidle
    · exact first_readOk halt k _ _ last b1 b2 _ (by simp only [List.length_cons]; omega)
    · exact checkingEnd_readOk halt _ _ _ _ _ _ _ _ (Nat.zero_le _)
  case atUtf16BeStart =>
    unfold Decoder.rawCall; simp only
    split
    · exact hidle
    · exact first16_readOk halt k _ _ last b2 true _ (by simp only [List.length_cons]; omega)
    · exact checkingEnd_readOk halt _ _ _ _ _ _ _ _ (Nat.zero_le _)
  case atUtf16LeStart =>
    unfold Decoder.rawCall; simp only
    split
    · exact hidle
    · exact first16_readOk halt k _ _ last b2 false _ (by simp only [List.length_cons]; omega)
    · exact checkingEnd_readOk halt _ _ _ _ _ _ _ _ (Nat.zero_le _)
  case seenUtf8First =>
    unfold Decoder.rawCall; simp only
    split
    · cases last with
      | true => simp only [if_true]; exact afterOne_readOk halt ..
      | false => simp only [Bool.false_eq_true, if_false]; exact hidle
    · exact second_readOk halt k _ _ last b1 b2 1 _ (by simp only [List.length_cons]; omega)
    · exact afterOne_readOk halt ..
  case seenUtf8Second =>
    unfold Decoder.rawCall; simp only
    split
    · cases last with
      | true => simp only [if_true]; exact afterTwo_readOk halt ..
      | false => simp only [Bool.false_eq_true, if_false]; exact hidle
    · exact checkingEnd_readOk halt _ _ _ _ _ _ _ _ (by simp only [List.length_cons]; omega)
    · exact afterTwo_readOk halt ..
  case seenUtf16BeFirst =>
    unfold Decoder.rawCall; simp only
    split
    · cases last with
      | true => simp only [if_true]; exact afterOne_readOk halt ..
      | false => simp only [Bool.false_eq_true, if_false]; exact hidle
    · exact checkingEnd_readOk halt _ _ _ _ _ _ _ _ (by simp only [List.length_cons]; omega)
    · exact afterOne_readOk halt ..
  case seenUtf16LeFirst =>
    unfold Decoder.rawCall; simp only
    split
    · cases last with
      | true => simp only [if_true]; exact afterOne_readOk halt ..
      | false => simp only [Bool.false_eq_true, if_false]; exact hidle
    · exact checkingEnd_readOk halt _ _ _ _ _ _ _ _ (by simp only [List.length_cons]; omega)
    · exact afterOne_readOk halt ..

/-! ### output and result of a `Decoder` call vs. its inner calls -/

/-- concatenation of the outputs of the inner calls -/
def innerOut (inner : List (List Nat × Res × Nat)) : List Nat := inner.flatMap (·.1)

theorem innerOut_append (a b : List (List Nat × Res × Nat)) : innerOut (a ++ b) = innerOut a ++ innerOut b := by
  simp [innerOut, List.flatMap_append]

theorem innerOut_single (x : List Nat × Res × Nat) : innerOut [x] = x.1 := by
  simp [innerOut]

theorem innerOut_one (o : List Nat) (res : Res) (n : Nat) : o = innerOut [(o, res, n)] := by
  simp [innerOut]

/-- the output is what the inner calls wrote, in order; a `Malformed` result is the result of the
last inner call (with `after` corrected by one on the replay path, F3) -/
def Coh : DRes F → Prop
  | .panic => True
  | .ok res _ out _ inner =>
    out = innerOut inner ∧
    ∀ l a, res = .malformed l a → ∃ pre o l' a' n, inner = pre ++ [(o, Res.malformed l' a', n)]

theorem checkingEnd_coh (k : Sink) (c : Cur F) (src : List Nat) (last : Bool) (b : Budget) (off : Nat)
    (pre : List (List Nat × Res × Nat)) (preOut : List Nat) (hpre : preOut = innerOut pre) :
    Coh (checkingEnd k c src last b off pre preOut) := by
  unfold checkingEnd Coh
  generalize c.call k (src.drop off) last b = r
  simp only
  refine ⟨by rw [innerOut_append, innerOut_single, hpre], ?_⟩
  intro l a h
  exact ⟨pre, r.out, l, a, r.stopNeed, by rw [h]⟩

theorem afterOne_coh (k : Sink) (c : Cur F) (src : List Nat) (last : Bool) (fb : Nat) (b1 b2 : Budget) :
    Coh (afterOne k c src last fb b1 b2) := by
  unfold afterOne
  generalize c.call k [fb] false b1 = r1
  simp only
  split
  · exact checkingEnd_coh k _ src last b2 0 _ _ (innerOut_one _ _ _)
  · rename_i l a hres
    refine ⟨(innerOut_one _ _ _), ?_⟩
    intro l' a' _
    exact ⟨[], r1.out, l, a, r1.stopNeed, by rw [hres]; rfl⟩
  · split
    · exact ⟨(innerOut_one _ _ _), by intro l a h; cases h⟩
    · trivial

theorem afterTwo_coh (k : Sink) (c : Cur F) (src : List Nat) (last : Bool) (b1 b2 : Budget) :
    Coh (afterTwo k c src last b1 b2) := by
  unfold afterTwo
  generalize c.call k [0xEF, 0xBB] false b1 = r1
  simp only
  split
  · exact checkingEnd_coh k _ src last b2 0 _ _ (innerOut_one _ _ _)
  · rename_i l a hres
    split
    · refine ⟨(innerOut_one _ _ _), ?_⟩
      intro l' a' _
      exact ⟨[], r1.out, l, a, r1.stopNeed, by rw [hres]; rfl⟩
    · refine ⟨(innerOut_one _ _ _), ?_⟩
      intro l' a' _
      exact ⟨[], r1.out, l, a, r1.stopNeed, by rw [hres]; rfl⟩
  · split
    · exact ⟨(innerOut_one _ _ _), by intro l a h; cases h⟩
    · trivial

theorem rawCall_coh (k : Sink) (d : Decoder F) (src : List Nat) (last : Bool) (b1 b2 : Budget) :
    Coh (d.rawCall k src last b1 b2) := by
  have hleaf := rawCall_leaf k d src last b1 b2
  generalize d.rawCall k src last b1 b2 = r at hleaf
  cases hleaf with
  | finished _ => trivial
  | idle _ _ => exact ⟨rfl, by intro l a h; cases h⟩
  | wait n life' _ _ _ => exact ⟨rfl, by intro l a h; cases h⟩
  | direct _ => exact checkingEnd_coh k _ src last b2 0 [] [] rfl
  | bom8 off _ => exact checkingEnd_coh k _ src last b2 off [] [] rfl
  | bom16 be off _ => exact checkingEnd_coh k _ src last b2 off [] [] rfl
  | one fb _ => exact afterOne_coh ..
  | two _ => exact afterTwo_coh ..

/-- admissible inner calls: everything they wrote fits -/
theorem innerAdmissible_units (k : Sink) : ∀ (inner : List (List Nat × Res × Nat)) (cap : Nat),
    InnerAdmissible k cap inner → unitsOfList k (innerOut inner) ≤ cap := by
  intro inner
  induction inner with
  | nil => intro cap _; simp [innerOut, unitsOfList]
  | cons x t ih =>
    intro cap h
    obtain ⟨h1, h2⟩ := h
    have := ih _ h2
    have e : innerOut (x :: t) = x.1 ++ innerOut t := by simp [innerOut]
    rw [e, Lemmas.Potential.unitsOfList_append]
    have := h1.1
    omega

/-- admissible inner calls the last of which returned `Malformed`: room for U+FFFD is left -/
theorem innerAdmissible_room (k : Sink) (o : List Nat) (l a n : Nat) :
    ∀ (pre : List (List Nat × Res × Nat)) (cap : Nat),
    InnerAdmissible k cap (pre ++ [(o, Res.malformed l a, n)]) →
    unitsOfList k (innerOut (pre ++ [(o, Res.malformed l a, n)])) + replRoom k ≤ cap := by
  intro pre
  induction pre with
  | nil =>
    intro cap h
    simp only [List.nil_append] at h ⊢
    rw [innerOut_single]
    exact h.1.2.2 l a rfl
  | cons x t ih =>
    intro cap h
    obtain ⟨h1, h2⟩ := h
    have := ih _ h2
    have e : innerOut (x :: t ++ [(o, Res.malformed l a, n)]) = x.1 ++ innerOut (t ++ [(o, Res.malformed l a, n)]) := by
      simp [innerOut]
    rw [e, Lemmas.Potential.unitsOfList_append]
    have := h1.1
    omega

/-! ### after a `Malformed` -/

/-- the states a decoder is left in by a call that handed bytes to a variant decoder and did not
finish -/
def settledLife : Life → Bool
  | .converting | .convertingWithPendingBB => true
  | _ => false

/-- a `Malformed` result leaves the decoder in `Converting` or `ConvertingWithPendingBB` -/
def MalSettled : DRes F → Prop
  | .panic => True
  | .ok res _ _ d' _ => ∀ l a, res = .malformed l a → settledLife d'.life = true

theorem checkingEnd_malSettled (k : Sink) (c : Cur F) (src : List Nat) (last : Bool) (b : Budget) (off : Nat)
    (pre : List (List Nat × Res × Nat)) (preOut : List Nat) :
    MalSettled (checkingEnd k c src last b off pre preOut) := by
  unfold checkingEnd MalSettled
  generalize c.call k (src.drop off) last b = r
  simp only
  intro l a h
  rw [h]
  simp [settledLife]

theorem afterOne_malSettled (k : Sink) (c : Cur F) (src : List Nat) (last : Bool) (fb : Nat) (b1 b2 : Budget) :
    MalSettled (afterOne k c src last fb b1 b2) := by
  unfold afterOne
  simp only
  split
  · exact checkingEnd_malSettled _ _ _ _ _ _ _ _
  · intro _ _ _; rfl
  · split
    · intro _ _ _; rfl
    · trivial

theorem afterTwo_malSettled (k : Sink) (c : Cur F) (src : List Nat) (last : Bool) (b1 b2 : Budget) :
    MalSettled (afterTwo k c src last b1 b2) := by
  unfold afterTwo
  simp only
  split
  · exact checkingEnd_malSettled _ _ _ _ _ _ _ _
  · split
    · intro _ _ _; rfl
    · intro _ _ _; rfl
  · split
    · intro _ _ _; rfl
    · trivial

theorem rawCall_malSettled (k : Sink) (d : Decoder F) (src : List Nat) (last : Bool) (b1 b2 : Budget) :
    MalSettled (d.rawCall k src last b1 b2) := by
  have hleaf := rawCall_leaf k d src last b1 b2
  generalize d.rawCall k src last b1 b2 = r at hleaf
  cases hleaf with
  | finished _ => trivial
  | idle _ _ => intro l a h; cases h
  | wait n life' _ _ _ => intro l a h; cases h
  | direct _ => exact checkingEnd_malSettled _ _ _ _ _ _ _ _
  | bom8 off _ => exact checkingEnd_malSettled _ _ _ _ _ _ _ _
  | bom16 be off _ => exact checkingEnd_malSettled _ _ _ _ _ _ _ _
  | one fb _ => exact afterOne_malSettled ..
  | two _ => exact afterTwo_malSettled ..

theorem rawCall_malformed_settled (k : Sink) (d : Decoder F) (src : List Nat) (last : Bool) (b1 b2 : Budget)
    (l a read : Nat) (out : List Nat) (d' : Decoder F) (inner : List (List Nat × Res × Nat))
    (h : d.rawCall k src last b1 b2 = .ok (.malformed l a) read out d' inner) : settledLife d'.life = true := by
  have := rawCall_malSettled k d src last b1 b2
  rw [h] at this
  exact this l a rfl

/-- a decoder in `Converting` / `ConvertingWithPendingBB` never reaches the model's panic value:
the replay of a pending `BB` that does not fit leaves it pending (F4 repair) -/
theorem settled_ne_panic (k : Sink) (d : Decoder F) (hl : settledLife d.life = true) (src : List Nat)
    (last : Bool) (b1 b2 : Budget) : d.rawCall k src last b1 b2 ≠ .panic := by
  obtain ⟨life, c⟩ := d
  cases life <;> simp only [settledLife] at hl <;> try (cases hl)
  · unfold Decoder.rawCall
    unfold afterOne
    simp only
    split
    · exact checkingEnd_ne_panic _ _ _ _ _ _ _ _
    · intro h; cases h
    · rw [if_pos True.intro]; intro h; cases h
  · unfold Decoder.rawCall
    exact checkingEnd_ne_panic _ _ _ _ _ _ _ _

/-! ### the with-replacement loop as a chain of raw calls -/

/-- `Decoder.replCall` unrolled: raw calls that return `Malformed` (each followed by one U+FFFD),
ended by a raw call that returns `InputEmpty` or `OutputFull`.  `A cap inner` is whatever is known
about the inner variant-decoder calls of a raw call made with `cap` units of the destination left
(`fun _ _ => True`: nothing; `InnerAdmissible k`: they are admissible). -/
inductive ReplChain (k : Sink) (last : Bool) (A : Nat → List (List Nat × Res × Nat) → Prop) :
    Nat → Decoder F → List Nat → DReplRes F → Prop
  | stop (cap : Nat) (d : Decoder F) (src : List Nat) (b1 b2 : Budget) (res : Res) (read : Nat) (out : List Nat)
      (d' : Decoder F) (inner : List (List Nat × Res × Nat)) :
      d.rawCall k src last b1 b2 = .ok res read out d' inner → (∀ l a, res ≠ .malformed l a) → A cap inner →
      ReplChain k last A cap d src ⟨res, read, out, false, d'⟩
  | step (cap : Nat) (d : Decoder F) (src : List Nat) (b1 b2 : Budget) (l a read : Nat) (out : List Nat)
      (d' : Decoder F) (inner : List (List Nat × Res × Nat)) (t : DReplRes F) :
      d.rawCall k src last b1 b2 = .ok (.malformed l a) read out d' inner → A cap inner →
      ReplChain k last A (cap - unitsOfList k out - replRoom k) d' (src.drop read) t →
      ReplChain k last A cap d src ⟨t.res, read + t.read, out ++ 0xFFFD :: t.out, true, t.d⟩

/-- every completed with-replacement call is such a chain -/
theorem replCall_chain (k : Sink) (last : Bool) :
    ∀ (fuel : Nat) (d : Decoder F) (src : List Nat) (bs : List (Budget × Budget)) (t : DReplRes F) (cap : Nat),
      Decoder.replCall k last fuel d src bs = some (some t) →
      ReplChain k last (fun _ _ => True) cap d src t := by
  intro fuel
  induction fuel with
  | zero => intro d src bs t cap h; simp [Decoder.replCall] at h
  | succ fuel ih =>
    intro d src bs t cap h
    rw [Decoder.replCall] at h
    cases hcall : d.rawCall k src last (bs.headD (.unlimited, .unlimited)).1 (bs.headD (.unlimited, .unlimited)).2 with
    | panic => rw [hcall] at h; simp at h
    | ok res read out d' inner =>
      rw [hcall] at h
      simp only at h
      cases res with
      | malformed l a =>
        simp only at h
        cases hrec : Decoder.replCall k last fuel d' (src.drop read) bs.tail with
        | none => rw [hrec] at h; simp at h
        | some o =>
          cases o with
          | none => rw [hrec] at h; simp at h
          | some t' =>
            rw [hrec] at h
            simp only [Option.some.injEq] at h
            subst h
            exact .step cap d src _ _ l a read out d' inner t' hcall trivial (ih d' _ _ t' _ hrec)
      | inputEmpty =>
        simp only [Option.some.injEq] at h
        subst h
        exact .stop cap d src _ _ _ read out d' inner hcall (by intro l a h; cases h) trivial
      | outputFull =>
        simp only [Option.some.injEq] at h
        subst h
        exact .stop cap d src _ _ _ read out d' inner hcall (by intro l a h; cases h) trivial

/-- … with admissible inner calls when the loop satisfies `DReplAdmissible` (what the driver checks) -/
theorem replCall_chain_adm (k : Sink) (last : Bool) :
    ∀ (fuel : Nat) (d : Decoder F) (src : List Nat) (bs : List (Budget × Budget)) (t : DReplRes F) (cap : Nat),
      DReplAdmissible k last fuel d src bs cap →
      Decoder.replCall k last fuel d src bs = some (some t) →
      ReplChain k last (InnerAdmissible k) cap d src t := by
  intro fuel
  induction fuel with
  | zero => intro d src bs t cap _ h; simp [Decoder.replCall] at h
  | succ fuel ih =>
    intro d src bs t cap hadm h
    rw [Decoder.replCall] at h
    rw [DReplAdmissible] at hadm
    cases hcall : d.rawCall k src last (bs.headD (.unlimited, .unlimited)).1 (bs.headD (.unlimited, .unlimited)).2 with
    | panic => rw [hcall] at h; simp at h
    | ok res read out d' inner =>
      rw [hcall] at h hadm
      simp only at h hadm
      cases res with
      | malformed l a =>
        simp only at h
        cases hrec : Decoder.replCall k last fuel d' (src.drop read) bs.tail with
        | none => rw [hrec] at h; simp at h
        | some o =>
          cases o with
          | none => rw [hrec] at h; simp at h
          | some t' =>
            rw [hrec] at h
            simp only [Option.some.injEq] at h
            subst h
            exact .step cap d src _ _ l a read out d' inner t' hcall hadm.1
              (ih d' _ _ t' _ (hadm.2 l a rfl) hrec)
      | inputEmpty =>
        simp only [Option.some.injEq] at h
        subst h
        exact .stop cap d src _ _ _ read out d' inner hcall (by intro l a h; cases h) hadm.1
      | outputFull =>
        simp only [Option.some.injEq] at h
        subst h
        exact .stop cap d src _ _ _ read out d' inner hcall (by intro l a h; cases h) hadm.1

/-- conversely every chain is a completed with-replacement call (for some fuel and stop policies):
`ReplChain` is `Decoder.replCall` in relational form -/
theorem replChain_replCall {k : Sink} {last : Bool} {A : Nat → List (List Nat × Res × Nat) → Prop} {cap : Nat}
    {d : Decoder F} {src : List Nat} {t : DReplRes F} (h : ReplChain k last A cap d src t) :
    ∃ fuel bs, Decoder.replCall k last fuel d src bs = some (some t) := by
  induction h with
  | stop cap d src b1 b2 res read out d' inner hcall hne _ =>
    refine ⟨1, [(b1, b2)], ?_⟩
    rw [Decoder.replCall]
    simp only [List.headD_cons]
    rw [hcall]
    cases res with
    | malformed l a => exact absurd rfl (hne l a)
    | inputEmpty => rfl
    | outputFull => rfl
  | step cap d src b1 b2 l a read out d' inner t hcall _ _ ih =>
    obtain ⟨fuel, bs, hrec⟩ := ih
    refine ⟨fuel + 1, (b1, b2) :: bs, ?_⟩
    rw [Decoder.replCall]
    simp only [List.headD_cons, List.tail_cons]
    rw [hcall]
    simp only
    rw [hrec]

/-- … and a chain with admissible inner calls is a call satisfying `DReplAdmissible` -/
theorem replChain_replCall_adm {k : Sink} {last : Bool} {cap : Nat} {d : Decoder F} {src : List Nat}
    {t : DReplRes F} (h : ReplChain k last (InnerAdmissible k) cap d src t) :
    ∃ fuel bs, Decoder.replCall k last fuel d src bs = some (some t) ∧ DReplAdmissible k last fuel d src bs cap := by
  induction h with
  | stop cap d src b1 b2 res read out d' inner hcall hne hadm =>
    refine ⟨1, [(b1, b2)], ?_, ?_⟩
    · rw [Decoder.replCall]
      simp only [List.headD_cons]
      rw [hcall]
      cases res with
      | malformed l a => exact absurd rfl (hne l a)
      | inputEmpty => rfl
      | outputFull => rfl
    · rw [DReplAdmissible]
      simp only [List.headD_cons]
      rw [hcall]
      exact ⟨hadm, fun l a h => absurd h (hne l a)⟩
  | step cap d src b1 b2 l a read out d' inner t hcall hadm _ ih =>
    obtain ⟨fuel, bs, hrec, hra⟩ := ih
    refine ⟨fuel + 1, (b1, b2) :: bs, ?_, ?_⟩
    · rw [Decoder.replCall]
      simp only [List.headD_cons, List.tail_cons]
      rw [hcall]
      simp only
      rw [hrec]
    · rw [DReplAdmissible]
      simp only [List.headD_cons, List.tail_cons]
      rw [hcall]
      exact ⟨hadm, fun _ _ _ => hra⟩

/-- the with-replacement call never reports `Malformed` -/
theorem replChain_res {k : Sink} {last : Bool} {A : Nat → List (List Nat × Res × Nat) → Prop} {cap : Nat}
    {d : Decoder F} {src : List Nat} {t : DReplRes F} (h : ReplChain k last A cap d src t) :
    t.res = .inputEmpty ∨ t.res = .outputFull := by
  induction h with
  | stop cap d src b1 b2 res read out d' inner _ hne _ =>
    cases res with
    | inputEmpty => exact Or.inl rfl
    | outputFull => exact Or.inr rfl
    | malformed l a => exact absurd rfl (hne l a)
  | step _ _ _ _ _ _ _ _ _ _ _ _ _ _ _ ih => exact ih

/-! ### reachability -/

/-- `DReach` (C07Life) is `DReachAt` (C06More) for the nominal tag of the variant, the position forgotten -/
theorem dreach_at (v : Gen.Variant) (bom : BomHandling) (d : Decoder (famOfVariant v)) (h : DReach v bom d) :
    ∃ pos, DReachAt v (nominalOf v) bom d pos := by
  induction h with
  | new => exact ⟨0, .new⟩
  | call k d src last b1 b2 res read out d' inner _ hb hcall ih =>
    obtain ⟨pos, hp⟩ := ih
    exact ⟨pos + read, .call k d pos src last b1 b2 res read out d' inner hp hb hcall⟩

theorem dreachAt_dreach (v : Gen.Variant) (bom : BomHandling) (d : Decoder (famOfVariant v)) (pos : Nat)
    (h : DReachAt v (nominalOf v) bom d pos) : DReach v bom d := by
  generalize hn : nominalOf v = nom at h
  induction h with
  | new => subst hn; exact .new
  | call k d pos src last b1 b2 res read out d' inner _ hb hcall ih =>
    exact .call k d src last b1 b2 res read out d' inner ih hb hcall

/-- with-replacement calls do not leave the set of reachable decoders -/
theorem replChain_reachAt (v : Gen.Variant) (nom : Nominal) (bom : BomHandling) {k : Sink} {last : Bool}
    {A : Nat → List (List Nat × Res × Nat) → Prop} {cap : Nat} {d : Decoder (famOfVariant v)} {src : List Nat}
    {t : DReplRes (famOfVariant v)} (h : ReplChain k last A cap d src t) :
    ∀ pos, DReachAt v nom bom d pos → (∀ x ∈ src, x < 256) → DReachAt v nom bom t.d (pos + t.read) := by
  induction h with
  | stop cap d src b1 b2 res read out d' inner hcall _ _ =>
    intro pos hr hb
    exact .call k d pos src last b1 b2 res read out d' inner hr hb hcall
  | step cap d src b1 b2 l a read out d' inner t hcall _ _ ih =>
    intro pos hr hb
    have h1 : DReachAt v nom bom d' (pos + read) :=
      .call k d pos src last b1 b2 _ read out d' inner hr hb hcall
    have := ih (pos + read) h1 (drop_bytes read hb)
    simp only
    rw [← Nat.add_assoc]
    exact this

/-- the decoders reachable from `Decoder.new` by any mix of the without-replacement and the
with-replacement methods (either sink, any chunks, any stop policies) -/
inductive DReachAny (v : Gen.Variant) (nom : Nominal) (bom : BomHandling) : Decoder (famOfVariant v) → Nat → Prop
  | new : DReachAny v nom bom (Decoder.new (famOfVariant v) nom bom) 0
  | raw (k : Sink) (d : Decoder (famOfVariant v)) (pos : Nat) (src : List Nat) (last : Bool) (b1 b2 : Budget)
      (res : Res) (read : Nat) (out : List Nat) (d' : Decoder (famOfVariant v))
      (inner : List (List Nat × Res × Nat)) :
      DReachAny v nom bom d pos → (∀ x ∈ src, x < 256) → d.rawCall k src last b1 b2 = .ok res read out d' inner →
      DReachAny v nom bom d' (pos + read)
  | repl (k : Sink) (d : Decoder (famOfVariant v)) (pos : Nat) (src : List Nat) (last : Bool) (fuel : Nat)
      (bs : List (Budget × Budget)) (t : DReplRes (famOfVariant v)) :
      DReachAny v nom bom d pos → (∀ x ∈ src, x < 256) → Decoder.replCall k last fuel d src bs = some (some t) →
      DReachAny v nom bom t.d (pos + t.read)

/-- … are the decoders reachable by without-replacement calls alone -/
theorem dreachAny_at (v : Gen.Variant) (nom : Nominal) (bom : BomHandling) (d : Decoder (famOfVariant v))
    (pos : Nat) (h : DReachAny v nom bom d pos) : DReachAt v nom bom d pos := by
  induction h with
  | new => exact .new
  | raw k d pos src last b1 b2 res read out d' inner _ hb hcall ih =>
    exact .call k d pos src last b1 b2 res read out d' inner ih hb hcall
  | repl k d pos src last fuel bs t _ hb hrun ih =>
    exact replChain_reachAt v nom bom (replCall_chain k last fuel d src bs t 0 hrun) pos ih hb

theorem dreachAt_any (v : Gen.Variant) (nom : Nominal) (bom : BomHandling) (d : Decoder (famOfVariant v))
    (pos : Nat) (h : DReachAt v nom bom d pos) : DReachAny v nom bom d pos := by
  induction h with
  | new => exact .new
  | call k d pos src last b1 b2 res read out d' inner _ hb hcall ih =>
    exact .raw k d pos src last b1 b2 res read out d' inner ih hb hcall

end EncodingRs.Lemmas.LifeLift
