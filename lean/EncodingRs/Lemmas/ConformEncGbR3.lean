import EncodingRs.Lemmas.ConformEncGbDef
/-! C03, GBK / gb18030: complete evaluation of `gbCheck` over the code points 0x8200 ≤ c < 0x9C00 (`native_decide`). -/
namespace EncodingRs.Lemmas.ConformEnc

theorem gb_check_r3 : allFrom gbCheck 0x8200 0x1A00 = true := by native_decide

end EncodingRs.Lemmas.ConformEnc
