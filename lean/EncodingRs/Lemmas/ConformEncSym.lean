import EncodingRs.Lemmas.ConformEnc
/-!
# C03: the table-free encoders (UTF-8, x-user-defined), symbolically, for every code point
-/
namespace EncodingRs.Lemmas.ConformEnc
open EncodingRs EncodingRs.Model EncodingRs.Spec.Encode

/-- per-character conformance, UTF-8 (no bound on `c` needed) -/
theorem utf8_conforms (c : Nat) : utf8 c = resOf (utf8EncodeChar c) c := by
  unfold utf8 utf8EncodeChar resOf encodeUtf8 isAsciiCodePoint
  by_cases h1 : c < 0x80
  · have : c ≤ 0x7F := by omega
    simp [h1, this]
  · have h1' : ¬ c ≤ 0x7F := by omega
    by_cases h2 : c < 0x800
    · have : c ≤ 0x7FF := by omega
      simp [h1, h1', h2, this, utf8Trail, Nat.add_comm]
    · have h2' : ¬ c ≤ 0x7FF := by omega
      by_cases h3 : c < 0x10000
      · have : c ≤ 0xFFFF := by omega
        simp [h1, h1', h2, h2', h3, this, utf8Trail, Nat.add_comm]
      · have h3' : ¬ c ≤ 0xFFFF := by omega
        simp [h1, h1', h2, h2', h3, h3', utf8Trail, Nat.add_comm]

/-- per-character conformance, x-user-defined (no bound on `c` needed) -/
theorem userDefined_conforms (c : Nat) : userDefined c = resOf (userDefinedEncodeChar c) c := by
  unfold userDefined userDefinedEncodeChar resOf isAsciiCodePoint u8
  by_cases h1 : c ≤ 0x7F
  · simp [h1]
  · by_cases h2 : 0xF780 ≤ c ∧ c ≤ 0xF7FF
    · have : c - 63360 + 128 = (c - 63232) % 256 := by omega
      simp [h1, h2, this]
    · simp [h1, h2]

end EncodingRs.Lemmas.ConformEnc
