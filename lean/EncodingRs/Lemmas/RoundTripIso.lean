import EncodingRs.Lemmas.RoundTripChar
import EncodingRs.Lemmas.FamLaws
/-!
# Round trip, ISO-2022-JP (C12)

The encoder state is the escape state implied by the bytes emitted so far:
`Corr s d` says that the decoder, having read those bytes, is in the state
(`decoder_state` = `output_state`) that corresponds to the encoder state `s`,
has just produced a character (`output_flag` clear, so an escape sequence may
follow without being an error) and has nothing pending.  The decoder's `lead`
field holds a stale byte in these states; `Eqv` is equality of decoder states up
to a stale `lead`, and `isoFeed_eqv` shows that the decoder cannot tell `Eqv`
states apart.  The finite obligation (`isoCheckRange`, evaluated by
`native_decide` in `Lemmas/RT/Iso*.lean`) is therefore stated from the three
canonical states `d0 s` and lifted to every corresponding state.
-/
namespace EncodingRs.Lemmas.RoundTrip
open EncodingRs EncodingRs.Model EncodingRs.Lemmas.Core EncodingRs.Lemmas.EncCore
open EncodingRs.Lemmas.FamLaws

/-! ### decoder states up to a stale `lead` -/

def Eqv (d d' : Iso2022JpSt) : Prop :=
  d.decoderState = d'.decoderState ∧ d.outputState = d'.outputState ∧ d.outputFlag = d'.outputFlag ∧
  d.pendingPrepended = false ∧ d'.pendingPrepended = false ∧
  (d.lead = d'.lead ∨ (d.decoderState ≠ .trailByte ∧ d.decoderState ≠ .escape))

theorem Eqv.refl' (d : Iso2022JpSt) (h : d.pendingPrepended = false) : Eqv d d :=
  ⟨rfl, rfl, rfl, h, h, Or.inl rfl⟩

/-- the decoder cannot tell `Eqv` states apart (as long as no error is reported) -/
theorem isoFeed_eqv (d d' : Iso2022JpSt) (b : Nat) (h : Eqv d d') (he : (isoFeed d b).err = none) :
    (isoFeed d' b).err = none ∧ (isoFeed d' b).out = (isoFeed d b).out ∧
    (isoFeed d' b).unread = (isoFeed d b).unread ∧ Eqv (isoFeed d b).st (isoFeed d' b).st := by
  have hpp := iso_pp_of_ok d b h.2.2.2.1 he
  obtain ⟨ds, os, l, f, p⟩ := d
  obtain ⟨ds', os', l', f', p'⟩ := d'
  obtain ⟨h1, h2, h3, h4, h5, h6⟩ := h
  simp only at h1 h2 h3 h4 h5 h6
  subst h1 h2 h3 h4 h5
  by_cases hl : l = l'
  · subst hl
    exact ⟨he, rfl, rfl, Eqv.refl' _ hpp⟩
  · have h6' : ds ≠ .trailByte ∧ ds ≠ .escape := by
      rcases h6 with h6 | h6
      · exact absurd h6 hl
      · exact h6
    clear h6 hpp
    cases ds
    case trailByte => exact absurd rfl h6'.1
    case escape => exact absurd rfl h6'.2
    all_goals
      unfold isoFeed at he ⊢
      simp only at he ⊢
      repeat' split
      all_goals simp_all [FeedRes.ok, FeedRes.bad, Eqv]

theorem feedAll_eqv : ∀ (bs : List Nat) (d d' : Iso2022JpSt) (o : List Nat) (e : Iso2022JpSt),
    Eqv d d' → feedAll iso2022JpFam d bs = some (o, e) →
    ∃ e', feedAll iso2022JpFam d' bs = some (o, e') ∧ Eqv e e' := by
  intro bs
  induction bs with
  | nil =>
    intro d d' o e h hf
    simp only [feedAll] at hf
    obtain ⟨rfl, rfl⟩ := hf
    exact ⟨d', rfl, h⟩
  | cons b bs ih =>
    intro d d' o e h hf
    obtain ⟨he, hu, hpn, o2, h2, rfl⟩ := feedAll_cons iso2022JpFam d b bs o e hf
    obtain ⟨he', ho', hu', hq⟩ := isoFeed_eqv d d' b h he
    obtain ⟨e', hf', hq'⟩ := ih _ _ o2 e hq h2
    refine ⟨e', ?_, hq'⟩
    have hpn' : iso2022JpFam.pend (iso2022JpFam.feed d' b).st = none :=
      (iso_pend_none_iff _).mpr hq.2.2.2.2.1
    have he'' : (iso2022JpFam.feed d' b).err = none := he'
    have hu'' : (iso2022JpFam.feed d' b).unread = false := by
      show (isoFeed d' b).unread = false
      rw [hu']; exact hu
    have ho'' : (iso2022JpFam.feed d' b).out = (iso2022JpFam.feed d b).out := ho'
    simp only [feedAll, he'', hu'', hpn', Option.isNone_none, Bool.not_false, Bool.and_self, if_true]
    have hf'' : feedAll iso2022JpFam (iso2022JpFam.feed d' b).st bs = some (o2, e') := hf'
    rw [hf'', ho'']

/-! ### encoder state ↔ decoder state -/

def isoSt : IsoEncSt → IsoSt
  | .ascii => .ascii
  | .roman => .roman
  | .jis0208 => .leadByte

def isoOut : IsoEncSt → IsoOut
  | .ascii => .ascii
  | .roman => .roman
  | .jis0208 => .leadByte

/-- canonical decoder state for the encoder state `s` -/
def d0 (s : IsoEncSt) : Iso2022JpSt := ⟨isoSt s, isoOut s, 0, false, false⟩

/-- **the invariant**: the decoder that has read the bytes emitted so far is in the escape state of
the encoder, may accept an escape sequence, and has nothing pending -/
def Corr (s : IsoEncSt) (d : Iso2022JpSt) : Prop :=
  d.decoderState = isoSt s ∧ d.outputState = isoOut s ∧ d.outputFlag = false ∧ d.pendingPrepended = false

def corrB (s : IsoEncSt) (d : Iso2022JpSt) : Bool :=
  decide (d.decoderState = isoSt s) && decide (d.outputState = isoOut s) && !d.outputFlag && !d.pendingPrepended

theorem corrB_iff (s : IsoEncSt) (d : Iso2022JpSt) : corrB s d = true ↔ Corr s d := by
  simp [corrB, Corr, and_assoc]

theorem corr_init : Corr .ascii isoInit := ⟨rfl, rfl, rfl, rfl⟩

theorem corr_eqv_d0 (s : IsoEncSt) (d : Iso2022JpSt) (h : Corr s d) : Eqv (d0 s) d := by
  obtain ⟨h1, h2, h3, h4⟩ := h
  refine ⟨h1.symm, h2.symm, h3.symm, rfl, h4, Or.inr ?_⟩
  cases s <;> simp [d0, isoSt]

theorem corr_of_eqv (s : IsoEncSt) (d d' : Iso2022JpSt) (h : Corr s d) (q : Eqv d d') : Corr s d' := by
  obtain ⟨h1, h2, h3, h4⟩ := h
  obtain ⟨q1, q2, q3, _, q5, _⟩ := q
  exact ⟨q1 ▸ h1, q2 ▸ h2, q3 ▸ h3, q5⟩

/-! ### the per-character obligation -/

def reportOf {σ} : CharRes σ → Option Nat
  | .unmappable _ _ u => some u
  | _ => none

/-- what `Unmappable` the ISO-2022-JP encoder reports for `c` (in every state): U+FFFD for the three
controls SO, SI, ESC; the character itself if it is not in the repertoire -/
def isoUnmap (c : Nat) : Option Nat :=
  if c = 0x0E ∨ c = 0x0F ∨ c = 0x1B then some 0xFFFD
  else if c ≤ 0x7F ∨ c = 0xA5 ∨ c = 0x203E then none
  else if c > 0xFFFF then some c
  else if isMappedForTwoByteEncode c = true then none
  else some c

/-- what the bytes written for `c` (with the NCR for an unmappable) decode to -/
def isoExpected (c : Nat) : List Nat :=
  match isoUnmap c with
  | some u => ncr u
  | none => [foldIso c]

/-- everything the encoder does with one character from state `s` (escape sequences, re-reads) -/
def isoChar (s : IsoEncSt) (c : Nat) : CharRes IsoEncSt :=
  processChar iso2022JpEFam (iso2022JpEFam.rank s c + 1) s c .unlimited []

def isoCharCheck (s : IsoEncSt) (c : Nat) : Bool :=
  let r := isoChar s c
  reportOf r == isoUnmap c &&
  match feedAll iso2022JpFam (d0 s) (subst (charEvs r)) with
  | some (o, d') => o == isoExpected c && corrB (charSt r) d'
  | none => false

def isoCheckRange (s : IsoEncSt) (lo n : Nat) : Bool :=
  (List.range n).all fun i => !isScalar (lo + i) || isoCharCheck s (lo + i)

/-- what `isoCheckRange` establishes for `(s, c)` -/
def IsoCharOK (s : IsoEncSt) (c : Nat) : Prop :=
  reportOf (isoChar s c) = isoUnmap c ∧
  ∀ d, Corr s d → ∃ d', feedAll iso2022JpFam d (subst (charEvs (isoChar s c))) = some (isoExpected c, d') ∧
    Corr (charSt (isoChar s c)) d'

theorem isoCheckRange_sound (s : IsoEncSt) (lo n : Nat) (h : isoCheckRange s lo n = true) (c : Nat)
    (h1 : lo ≤ c) (h2 : c < lo + n) (hs : isScalar c = true) : IsoCharOK s c := by
  have := all_range h (c - lo) (by omega)
  simp only [show lo + (c - lo) = c by omega, hs, Bool.not_true, Bool.false_or, isoCharCheck,
    Bool.and_eq_true, beq_iff_eq] at this
  obtain ⟨hr, hf⟩ := this
  refine ⟨hr, ?_⟩
  intro d hd
  split at hf
  · rename_i o d1 heq
    simp only [Bool.and_eq_true, beq_iff_eq] at hf
    obtain ⟨ho, hc⟩ := hf
    subst ho
    obtain ⟨d', hf', hq⟩ := feedAll_eqv _ _ _ _ _ (corr_eqv_d0 s d hd) heq
    exact ⟨d', hf', corr_of_eqv _ _ _ ((corrB_iff _ _).mp hc) hq⟩
  · cases hf

/-! ### end of stream -/

theorem iso_eof_feed (s : IsoEncSt) (d : Iso2022JpSt) (h : Corr s d) :
    ∃ d', feedAll iso2022JpFam d (isoEncEof s).1 = some ([], d') ∧
      d'.decoderState = .ascii ∧ d'.outputState = .ascii ∧ d'.pendingPrepended = false ∧
      (isoEncEof s).2 = .ascii := by
  have hq := corr_eqv_d0 s d h
  have h0 : ∃ e, feedAll iso2022JpFam (d0 s) (isoEncEof s).1 = some ([], e) ∧
      e.decoderState = .ascii ∧ e.outputState = .ascii ∧ (isoEncEof s).2 = .ascii := by
    cases s
    · exact ⟨_, rfl, rfl, rfl, rfl⟩
    · exact ⟨⟨.ascii, .ascii, 0, true, false⟩, rfl, rfl, rfl, rfl⟩
    · exact ⟨⟨.ascii, .ascii, 0, true, false⟩, rfl, rfl, rfl, rfl⟩
  obtain ⟨e, hf, he1, he2, he3⟩ := h0
  obtain ⟨d', hf', hq'⟩ := feedAll_eqv _ _ _ _ _ hq hf
  exact ⟨d', hf', hq'.1 ▸ he1, hq'.2.1 ▸ he2, hq'.2.2.2.2.1, he3⟩

end EncodingRs.Lemmas.RoundTrip
