import EncodingRs.Lemmas.C17.Util2
/-! C17 finite table obligation (see `Util.lean`); evaluated by `native_decide`. -/
namespace EncodingRs.Lemmas.C17
open EncodingRs EncodingRs.Model

theorem hanzi_lessslow_check : agreeFrom 0x4E00 (0x9FA6 - 0x4E00) (fun bmp => gbEncodeHanziLessSlow bmp (bmp - 0x4E00)) gbEncodeHanzi = true := by native_decide

end EncodingRs.Lemmas.C17
