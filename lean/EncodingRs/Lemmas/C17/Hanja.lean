import EncodingRs.Lemmas.C17.Util2
/-! C17 finite table obligation (see `Util.lean`); evaluated by `native_decide`. -/
namespace EncodingRs.Lemmas.C17
open EncodingRs EncodingRs.Model

theorem hanja_unified_fast_check : agreeFrom 0x4E00 (0x9F9D - 0x4E00) ksx1001EncodeHanjaFast ksx1001EncodeHanja = true := by native_decide
theorem hanja_compat_fast_check : agreeFrom 0xF900 (0xFA0C - 0xF900) ksx1001EncodeHanjaFast ksx1001EncodeHanja = true := by native_decide

end EncodingRs.Lemmas.C17
