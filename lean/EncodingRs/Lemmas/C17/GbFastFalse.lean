import EncodingRs.Lemmas.C17.Util
/-! C17 finite table obligation (see `Util.lean`); evaluated by `native_decide`. -/
namespace EncodingRs.Lemmas.C17
open EncodingRs EncodingRs.Model

theorem gb_fast_false_check : agree16 (gbEncodeCharFast false) (gbEncodeChar false) = true := by native_decide

end EncodingRs.Lemmas.C17
