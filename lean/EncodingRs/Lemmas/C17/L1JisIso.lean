import EncodingRs.Lemmas.C17.Util2
/-! C17 finite table obligation (see `Util.lean`); evaluated by `native_decide`. -/
namespace EncodingRs.Lemmas.C17
open EncodingRs EncodingRs.Model

theorem l1_jis_iso_check : agree16 jis0208Level1KanjiIso2022JpEncodeLessSlow jis0208Level1KanjiIso2022JpEncode = true := by native_decide

end EncodingRs.Lemmas.C17
