import EncodingRs.Lemmas.C17.Util
/-! C17 finite table obligation (see `Util.lean`); evaluated by `native_decide`. -/
namespace EncodingRs.Lemmas.C17
open EncodingRs EncodingRs.Model

theorem eucKr_fast_check : agree16 eucKrEncodeCharFast eucKrEncodeChar = true := by native_decide

end EncodingRs.Lemmas.C17
