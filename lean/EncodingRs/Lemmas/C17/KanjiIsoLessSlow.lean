import EncodingRs.Lemmas.C17.Util2
/-! C17 finite table obligation (see `Util.lean`); evaluated by `native_decide`. -/
namespace EncodingRs.Lemmas.C17
open EncodingRs EncodingRs.Model

theorem kanji_iso_lessslow_check : agreeFrom 0x4E00 (0x9FA1 - 0x4E00) iso2022JpEncodeKanjiLessSlow iso2022JpEncodeKanji = true := by native_decide

end EncodingRs.Lemmas.C17
