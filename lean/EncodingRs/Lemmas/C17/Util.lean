import EncodingRs.Model.DataEncGated
/-!
C17, finite table obligations: checkers evaluated completely by `native_decide`
(one theorem per file under `Lemmas/C17/` so that lake evaluates them in parallel;
every one is a plain loop over the 65 536 `u16` values - or a quarter of them -
comparing the feature-gated variant of a per-character encode function with the
default one, both as written).
-/
namespace EncodingRs.Lemmas.C17
open EncodingRs EncodingRs.Model

deriving instance DecidableEq for EncodingRs.Model.EStep

theorem all_range {n : Nat} {p : Nat → Bool} (h : (List.range n).all p = true) : ∀ i, i < n → p i = true := by
  intro i hi
  rw [List.all_eq_true] at h
  exact h i (List.mem_range.mpr hi)

/-- `f` and `g` agree on every `u16` value -/
def agree16 {α : Type} [DecidableEq α] (f g : Nat → α) : Bool :=
  (List.range 65536).all fun c => decide (f c = g c)

theorem agree16_spec {α : Type} [DecidableEq α] {f g : Nat → α} (h : agree16 f g = true) :
    ∀ c, c < 65536 → f c = g c := fun c hc => of_decide_eq_true (all_range h c hc)

/-- `f` and `g` agree on the `k`-th quarter of the `u16` values -/
def agreeQuarter {α : Type} [DecidableEq α] (k : Nat) (f g : Nat → α) : Bool :=
  (List.range 16384).all fun i => decide (f (k * 16384 + i) = g (k * 16384 + i))

theorem agreeQuarter_spec {α : Type} [DecidableEq α] {f g : Nat → α}
    (h0 : agreeQuarter 0 f g = true) (h1 : agreeQuarter 1 f g = true)
    (h2 : agreeQuarter 2 f g = true) (h3 : agreeQuarter 3 f g = true) :
    ∀ c, c < 65536 → f c = g c := by
  intro c hc
  have key : ∀ k, agreeQuarter k f g = true → ∀ i, i < 16384 → f (k * 16384 + i) = g (k * 16384 + i) :=
    fun k h i hi => of_decide_eq_true (all_range h i hi)
  have hd : c = c / 16384 * 16384 + c % 16384 := by omega
  have hm : c % 16384 < 16384 := by omega
  have hq : c / 16384 = 0 ∨ c / 16384 = 1 ∨ c / 16384 = 2 ∨ c / 16384 = 3 := by omega
  rw [hd]
  rcases hq with h | h | h | h <;> rw [h]
  · exact key 0 h0 _ hm
  · exact key 1 h1 _ hm
  · exact key 2 h2 _ hm
  · exact key 3 h3 _ hm

/-- the Big5 less-slow check: the level-1 lookups agree, or (they do not: the 55 code points of the
pointer range 10896..10950, which the default finds by its level-1 scan and the less-slow variant by
`big5_other_encode`) the whole `$bmp_body` results agree -/
def big5LessSlowCheck : Bool :=
  (List.range 65536).all fun bmp =>
    decide (big5Level1HanziEncodeLessSlow bmp = big5Level1HanziEncode bmp)
      || decide (big5EncodeBmpLessSlow bmp = big5EncodeBmp bmp)

end EncodingRs.Lemmas.C17
