import EncodingRs.Lemmas.C17.Util2
/-! C17 finite table obligation (see `Util.lean`); evaluated by `native_decide`. -/
namespace EncodingRs.Lemmas.C17
open EncodingRs EncodingRs.Model

theorem kanji_sjis_fast_check : agreeFrom 0x4E00 (0x9FA1 - 0x4E00) shiftJisEncodeKanjiFast shiftJisEncodeKanji = true := by native_decide

end EncodingRs.Lemmas.C17
