import EncodingRs.Lemmas.C17.Util2
/-! C17 finite table obligation (see `Util.lean`); evaluated by `native_decide`. -/
namespace EncodingRs.Lemmas.C17
open EncodingRs EncodingRs.Model

/-- the `binary_search` precondition: the three code-point arrays are strictly increasing, and each is as long as its byte-pair array -/
theorem code_points_sorted_check :
    (strictlySorted Gen.big5Level1HanziCodePoints && strictlySorted Gen.jis0208Level1KanjiCodePoints
      && strictlySorted Gen.gb2312Level1HanziCodePoints
      && decide (Gen.big5Level1HanziCodePoints.size = Gen.big5Level1HanziBytes.size)
      && decide (Gen.jis0208Level1KanjiCodePoints.size = Gen.jis0208Level1KanjiShiftJisBytes.size)
      && decide (Gen.gb2312Level1HanziCodePoints.size = Gen.gb2312Level1HanziBytes.size)) = true := by native_decide

/-- the directly indexed tables are at least as long as the index ranges of their callers -/
theorem direct_table_sizes_check :
    (decide (0x9FA1 - 0x4E00 ≤ Gen.jis0208KanjiBytes.size) && decide (0xD7A4 - 0xAC00 ≤ Gen.cp949HangulBytes.size)
      && decide (0x9F9D - 0x4E00 ≤ Gen.ksx1001UnifiedHanjaBytes.size)
      && decide (0xFA0C - 0xF900 ≤ Gen.ksx1001CompatibilityHanjaBytes.size)
      && decide (0x9FA6 - 0x4E00 ≤ Gen.gbkHanziBytes.size)) = true := by native_decide

end EncodingRs.Lemmas.C17
