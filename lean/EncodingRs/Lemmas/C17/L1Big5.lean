import EncodingRs.Lemmas.C17.Util2
/-! C17 finite table obligation (see `Util.lean`); evaluated by `native_decide`. -/
namespace EncodingRs.Lemmas.C17
open EncodingRs EncodingRs.Model

theorem l1_big5_lessslow_check : big5Level1LessSlowCheck = true := by native_decide
theorem l1_big5_fast_check : big5Level1FastCheck = true := by native_decide

end EncodingRs.Lemmas.C17
