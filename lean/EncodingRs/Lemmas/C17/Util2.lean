import EncodingRs.Lemmas.C17.Util
/-! more checkers for the C17 finite table obligations (lookup level, restricted domains) -/
namespace EncodingRs.Lemmas.C17
open EncodingRs EncodingRs.Model

/-- `f` and `g` agree on `lo, …, lo + n - 1` -/
def agreeFrom {α : Type} [DecidableEq α] (lo n : Nat) (f g : Nat → α) : Bool :=
  (List.range n).all fun d => decide (f (lo + d) = g (lo + d))

theorem agreeFrom_spec {α : Type} [DecidableEq α] {lo n : Nat} {f g : Nat → α} (h : agreeFrom lo n f g = true) :
    ∀ c, lo ≤ c → c < lo + n → f c = g c := by
  intro c h1 h2
  have := of_decide_eq_true (all_range h (c - lo) (by omega))
  rwa [show lo + (c - lo) = c by omega] at this

/-- where the less-slow Big5 level-1 lookup answers, the default one gives the same answer -/
def big5Level1LessSlowCheck : Bool :=
  (List.range 65536).all fun bmp =>
    match big5Level1HanziEncodeLessSlow bmp with
    | some lt => decide (big5Level1HanziEncode bmp = some lt)
    | none => true

/-- where the default Big5 level-1 lookup answers, the fast one (all unified ideographs) gives the same answer -/
def big5Level1FastCheck : Bool :=
  (List.range 65536).all fun bmp =>
    match big5Level1HanziEncode bmp with
    | some lt => decide (big5Level1HanziEncodeFast bmp = some lt)
    | none => true

def strictlySorted (a : Array Nat) : Bool :=
  (List.range (a.size - 1)).all fun i => decide (a.getD i 0 < a.getD (i + 1) 0)

end EncodingRs.Lemmas.C17
