import EncodingRs.Lemmas.C17.Util
/-! C17 finite table obligation (see `Util.lean`); evaluated by `native_decide`. -/
namespace EncodingRs.Lemmas.C17
open EncodingRs EncodingRs.Model

theorem iso_lessslow_jis0208_check : agree16 (isoEncStepLessSlow .jis0208) (isoEncStep .jis0208) = true := by native_decide

end EncodingRs.Lemmas.C17
