import EncodingRs.Lemmas.C17.Util2
/-! C17 finite table obligation (see `Util.lean`); evaluated by `native_decide`. -/
namespace EncodingRs.Lemmas.C17
open EncodingRs EncodingRs.Model

theorem hangul_fast_check : agreeFrom 0xAC00 (0xD7A4 - 0xAC00) (fun bmp => ksx1001EncodeHangulFast bmp (bmp - 0xAC00)) ksx1001EncodeHangul = true := by native_decide

end EncodingRs.Lemmas.C17
