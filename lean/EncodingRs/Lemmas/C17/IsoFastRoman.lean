import EncodingRs.Lemmas.C17.Util
/-! C17 finite table obligation (see `Util.lean`); evaluated by `native_decide`. -/
namespace EncodingRs.Lemmas.C17
open EncodingRs EncodingRs.Model

theorem iso_fast_roman_check : agree16 (isoEncStepFast .roman) (isoEncStep .roman) = true := by native_decide

end EncodingRs.Lemmas.C17
