import EncodingRs.Lemmas.C17.Util
/-! C17 finite table obligation (see `Util.lean`); evaluated by `native_decide`. -/
namespace EncodingRs.Lemmas.C17
open EncodingRs EncodingRs.Model

theorem big5_fast_check2 : agreeQuarter 2 big5EncodeCharFast big5EncodeChar = true := by native_decide

end EncodingRs.Lemmas.C17
