import EncodingRs.Lemmas.C17.Util2
/-! C17 finite table obligation (see `Util.lean`); evaluated by `native_decide`. -/
namespace EncodingRs.Lemmas.C17
open EncodingRs EncodingRs.Model

theorem l1_gb_check : agree16 gb2312Level1HanziEncodeLessSlow gb2312Level1HanziEncode = true := by native_decide

end EncodingRs.Lemmas.C17
