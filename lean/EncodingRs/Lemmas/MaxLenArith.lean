import EncodingRs.Gen.MaxLen
/-!
# C07 (decoder half): the `usize` arithmetic of the `max_*_buffer_length*` formulas never wraps

`Gen.MaxLen` renders the Rust formulas with the checked helpers `U.*`.  Here every helper is
characterised exactly (it returns `some v` only for the exact natural-number result `v ≤ usizeMax`
and `none` exactly when the exact result exceeds `usizeMax`), and for every decoder formula `f`
the exact natural-number value `fNat` is defined and related to `f`:

* for the formulas without division every intermediate result is bounded by the final one, so
  `f s n = U.chk (fNat s n)`, i.e. `f s n = some Q ↔ Q = fNat s n ∧ fNat s n ≤ usizeMax` and
  `f s n = none ↔ usizeMax < fNat s n` (`chk_eq_some`, `chk_eq_none`);
* for the UTF-16 decoder (`(n + additional) / 2`) the sum inside the division can overflow
  although the final value would fit: the statement names that intermediate (`utf16SumNat`).
-/
namespace EncodingRs.Lemmas.MaxLenArith
open EncodingRs EncodingRs.Gen.MaxLen

/-! ### the helpers -/

theorem chk_eq_some {a v : Nat} : U.chk a = some v ↔ a ≤ usizeMax ∧ v = a := by
  unfold U.chk
  split
  · simp only [Option.some.injEq]; constructor
    · intro h; exact ⟨by assumption, h.symm⟩
    · intro h; exact h.2.symm
  · simp only [reduceCtorEq, false_iff]; intro h; exact absurd h.1 (by assumption)

theorem chk_eq_none {a : Nat} : U.chk a = none ↔ usizeMax < a := by
  unfold U.chk
  split
  · simp only [reduceCtorEq, false_iff]; omega
  · simp only [true_iff]; omega

theorem chk_of_le {a : Nat} (h : a ≤ usizeMax) : U.chk a = some a := by
  unfold U.chk; simp [h]

theorem chk_of_gt {a : Nat} (h : usizeMax < a) : U.chk a = none := chk_eq_none.mpr h

/-- `a.checked_add(b)`: exact or `none` -/
theorem addU_eq (a b : Nat) : U.addU a b = U.chk (a + b) := rfl
/-- `a.checked_mul(b)`: exact or `none` -/
theorem mulU_eq (a b : Nat) : U.mulU a b = U.chk (a * b) := rfl

theorem someU_eq (a : Nat) : U.someU a = some a := rfl

theorem addO_some (a b : Nat) : U.addO a (some b) = U.chk (a + b) := rfl
theorem addO_none (a : Nat) : U.addO a none = none := rfl
theorem mulO_some (a b : Nat) : U.mulO a (some b) = U.chk (a * b) := rfl
theorem mulO_none (a : Nat) : U.mulO a none = none := rfl
theorem divO_some (b a : Nat) (h : a ≠ 0) : U.divO (some b) a = some (b / a) := by
  simp [U.divO, h]
theorem divO_none (a : Nat) : U.divO none a = none := rfl
theorem addOO_some (a b : Nat) : U.addOO (some a) (some b) = U.chk (a + b) := rfl
theorem addOO_none_left (y : Option Nat) : U.addOO none y = none := rfl
theorem addOO_none_right (x : Option Nat) : U.addOO x none = none := by
  cases x <;> rfl

/-- adding to an exact-or-overflow value is exact-or-overflow (an overflowing intermediate
result makes the final one overflow too) -/
theorem addO_chk (a x : Nat) : U.addO a (U.chk x) = U.chk (a + x) := by
  by_cases h : x ≤ usizeMax
  · rw [chk_of_le h, addO_some]
  · rw [chk_of_gt (by omega), addO_none, chk_of_gt (by omega)]

theorem mulO_chk (a x : Nat) (ha : 1 ≤ a) : U.mulO a (U.chk x) = U.chk (a * x) := by
  by_cases h : x ≤ usizeMax
  · rw [chk_of_le h, mulO_some]
  · have : x ≤ a * x := Nat.le_mul_of_pos_left x ha
    rw [chk_of_gt (by omega), mulO_none, chk_of_gt (by omega)]

theorem addOO_chk (x y : Nat) : U.addOO (U.chk x) (U.chk y) = U.chk (x + y) := by
  by_cases hx : x ≤ usizeMax
  · by_cases hy : y ≤ usizeMax
    · rw [chk_of_le hx, chk_of_le hy, addOO_some]
    · rw [chk_of_gt (Nat.lt_of_not_le hy), addOO_none_right, chk_of_gt (by omega)]
  · rw [chk_of_gt (Nat.lt_of_not_le hx), addOO_none_left, chk_of_gt (by omega)]

/-- `checked_div(opt, d)` of an exact-or-overflow value -/
theorem divO_chk (x d : Nat) (hd : d ≠ 0) :
    U.divO (U.chk x) d = if x ≤ usizeMax then some (x / d) else none := by
  by_cases h : x ≤ usizeMax
  · rw [chk_of_le h, divO_some _ _ hd]; simp [h]
  · rw [chk_of_gt (by omega), divO_none]; simp [h]

/-- what `f = U.chk v` says, in the three usual forms -/
theorem of_chk {f : Option Nat} {v : Nat} (h : f = U.chk v) :
    (∀ Q, f = some Q → Q = v ∧ Q ≤ usizeMax) ∧ (v ≤ usizeMax → f = some v) ∧ (f = none ↔ usizeMax < v) := by
  subst h
  refine ⟨?_, chk_of_le, chk_eq_none⟩
  intro Q hQ
  have := chk_eq_some.mp hQ
  omega

/-! ### exact values of the decoder formulas -/

/-- `plus_one_if_lead` of Big5 / EUC-KR / Shift_JIS -/
def leadLenNat (s : Option Nat) (n : Nat) : Nat := n + (if s.isSome then 1 else 0)

def big5Utf16Nat (s : Option Nat) (n : Nat) : Nat := 1 + leadLenNat s n
def big5Utf8Nat (s : Option Nat) (n : Nat) : Nat := 3 + 3 * leadLenNat s n
def big5Utf8NoReplNat (s : Option Nat) (n : Nat) : Nat := 2 + 2 * leadLenNat s n

def eucKrUtf16Nat (s : Option Nat) (n : Nat) : Nat := leadLenNat s n
def eucKrUtf8Nat (s : Option Nat) (n : Nat) : Nat := 3 * leadLenNat s n
def eucKrUtf8NoReplNat (s : Option Nat) (n : Nat) : Nat := 2 + (leadLenNat s n + (1 + leadLenNat s n) / 2)

def shiftJisUtf16Nat (s : Option Nat) (n : Nat) : Nat := leadLenNat s n
def shiftJisUtf8Nat (s : Option Nat) (n : Nat) : Nat := 3 * leadLenNat s n
def shiftJisUtf8NoReplNat (s : Option Nat) (n : Nat) : Nat := 3 * leadLenNat s n

def eucJpLenNat (s : Model.EucJpSt) (n : Nat) : Nat := n + (if s = Model.EucJpSt.none then 0 else 1)
def eucJpUtf16Nat (s : Model.EucJpSt) (n : Nat) : Nat := eucJpLenNat s n
def eucJpUtf8Nat (s : Model.EucJpSt) (n : Nat) : Nat := 3 * eucJpLenNat s n
def eucJpUtf8NoReplNat (s : Model.EucJpSt) (n : Nat) : Nat := 2 + (eucJpLenNat s n + (1 + eucJpLenNat s n) / 2)

def gbExtraNat (s : Model.GbSt) (n : Nat) : Nat :=
  n + (Model.gbCount s.pending + (if s.pendingAscii.isSome then 1 else 0))
def gbUtf16Nat (s : Model.GbSt) (n : Nat) : Nat := 1 + gbExtraNat s n
def gbUtf8Nat (s : Model.GbSt) (n : Nat) : Nat := 1 + 3 * gbExtraNat s n
def gbUtf8NoReplNat (s : Model.GbSt) (n : Nat) : Nat := 1 + 3 * gbExtraNat s n

def isoInNat (s : Model.Iso2022JpSt) (n : Nat) : Nat :=
  n + ((if s.lead = 0 ∨ s.pendingPrepended = true then 0 else 1)
    + (if s.decoderState = Model.IsoSt.escape ∨ s.decoderState = Model.IsoSt.escapeStart then 1 else 0))
def isoUtf16Nat (s : Model.Iso2022JpSt) (n : Nat) : Nat := iso2022JpExtraToOutputFromState s + isoInNat s n
def isoUtf8Nat (s : Model.Iso2022JpSt) (n : Nat) : Nat := 3 * (iso2022JpExtraToOutputFromState s + isoInNat s n)
def isoUtf8NoReplNat (s : Model.Iso2022JpSt) (n : Nat) : Nat := 3 * (iso2022JpExtraToOutputFromState s + isoInNat s n)

def singleByteUtf16Nat (_ : Unit) (n : Nat) : Nat := n
def singleByteUtf8Nat (_ : Unit) (n : Nat) : Nat := n * 3
def singleByteUtf8NoReplNat (_ : Unit) (n : Nat) : Nat := n * 3

def userDefinedUtf16Nat (_ : Unit) (n : Nat) : Nat := n
def userDefinedUtf8Nat (_ : Unit) (n : Nat) : Nat := n * 3
def userDefinedUtf8NoReplNat (_ : Unit) (n : Nat) : Nat := n * 3

def replacementUtf16Nat (_ : Bool) (_ : Nat) : Nat := 1
def replacementUtf8Nat (_ : Bool) (_ : Nat) : Nat := 3
def replacementUtf8NoReplNat (_ : Bool) (_ : Nat) : Nat := 3

def utf8Utf16Nat (s : Model.Utf8St) (n : Nat) : Nat := n + (1 + utf8ExtraFromState s)
def utf8Utf8Nat (s : Model.Utf8St) (n : Nat) : Nat := 3 + 3 * (n + utf8ExtraFromState s)
def utf8Utf8NoReplNat (s : Model.Utf8St) (n : Nat) : Nat := n + (3 + utf8ExtraFromState s)

/-- the sum under the division of the UTF-16 decoder formulas (the intermediate that can overflow) -/
def utf16SumNat (s : Model.Utf16St) (n : Nat) : Nat := n + utf16AdditionalFromState s
def utf16Utf16Nat (s : Model.Utf16St) (n : Nat) : Nat := 1 + utf16SumNat s n / 2
def utf16Utf8Nat (s : Model.Utf16St) (n : Nat) : Nat := 1 + 3 * (utf16SumNat s n / 2)
def utf16Utf8NoReplNat (s : Model.Utf16St) (n : Nat) : Nat := 1 + 3 * (utf16SumNat s n / 2)

/-! ### formula = exact value, or `none` exactly on overflow -/

theorem big5PlusOneIfLead_eq (s n) : big5PlusOneIfLead s n = U.chk (leadLenNat s n) := rfl
theorem eucKrPlusOneIfLead_eq (s n) : eucKrPlusOneIfLead s n = U.chk (leadLenNat s n) := rfl
theorem shiftJisPlusOneIfLead_eq (s n) : shiftJisPlusOneIfLead s n = U.chk (leadLenNat s n) := rfl
theorem eucJpPlusOneIfLead_eq (s n) : eucJpPlusOneIfLead s n = U.chk (eucJpLenNat s n) := rfl
theorem gbExtraFromState_eq (s n) : gbExtraFromState s n = U.chk (gbExtraNat s n) := rfl
theorem isoExtraToInput_eq (s n) : iso2022JpExtraToInputFromState s n = U.chk (isoInNat s n) := rfl

theorem big5Utf16_eq (s n) : big5MaxUtf16BufferLength s n = U.chk (big5Utf16Nat s n) := by
  unfold big5MaxUtf16BufferLength big5Utf16Nat; rw [big5PlusOneIfLead_eq, addO_chk]
theorem big5Utf8_eq (s n) : big5MaxUtf8BufferLength s n = U.chk (big5Utf8Nat s n) := by
  unfold big5MaxUtf8BufferLength big5Utf8Nat
  rw [big5PlusOneIfLead_eq, mulO_chk _ _ (by decide), addO_chk]
theorem big5Utf8NoRepl_eq (s n) :
    big5MaxUtf8BufferLengthWithoutReplacement s n = U.chk (big5Utf8NoReplNat s n) := by
  unfold big5MaxUtf8BufferLengthWithoutReplacement big5Utf8NoReplNat
  rw [big5PlusOneIfLead_eq, mulO_chk _ _ (by decide), addO_chk]

/-- `2 + (len + (1 + len) / 2)` of EUC-KR / EUC-JP: the intermediate `1 + len` is bounded by the result -/
theorem eucNoRepl_chk (L : Nat) :
    U.addO 2 (U.addOO (U.chk L) (U.divO (U.addO 1 (U.chk L)) 2)) = U.chk (2 + (L + (1 + L) / 2)) := by
  rw [addO_chk, divO_chk _ _ (by decide)]
  by_cases h : 1 + L ≤ usizeMax
  · have hL : L ≤ usizeMax := by omega
    simp only [h, if_true]
    rw [chk_of_le hL, addOO_some, addO_chk]
  · simp only [h, if_false]
    rw [addOO_none_right, addO_none, chk_of_gt (by omega)]

theorem eucKrUtf16_eq (s n) : eucKrMaxUtf16BufferLength s n = U.chk (eucKrUtf16Nat s n) := rfl
theorem eucKrUtf8_eq (s n) : eucKrMaxUtf8BufferLength s n = U.chk (eucKrUtf8Nat s n) := by
  unfold eucKrMaxUtf8BufferLength eucKrUtf8Nat; rw [eucKrPlusOneIfLead_eq, mulO_chk _ _ (by decide)]
theorem eucKrUtf8NoRepl_eq (s n) :
    eucKrMaxUtf8BufferLengthWithoutReplacement s n = U.chk (eucKrUtf8NoReplNat s n) := by
  unfold eucKrMaxUtf8BufferLengthWithoutReplacement eucKrUtf8NoReplNat
  simp only [eucKrPlusOneIfLead_eq]; exact eucNoRepl_chk _

theorem shiftJisUtf16_eq (s n) : shiftJisMaxUtf16BufferLength s n = U.chk (shiftJisUtf16Nat s n) := rfl
theorem shiftJisUtf8_eq (s n) : shiftJisMaxUtf8BufferLength s n = U.chk (shiftJisUtf8Nat s n) := by
  unfold shiftJisMaxUtf8BufferLength shiftJisUtf8Nat; rw [shiftJisPlusOneIfLead_eq, mulO_chk _ _ (by decide)]
theorem shiftJisUtf8NoRepl_eq (s n) :
    shiftJisMaxUtf8BufferLengthWithoutReplacement s n = U.chk (shiftJisUtf8NoReplNat s n) :=
  shiftJisUtf8_eq s n

theorem eucJpUtf16_eq (s n) : eucJpMaxUtf16BufferLength s n = U.chk (eucJpUtf16Nat s n) := rfl
theorem eucJpUtf8_eq (s n) : eucJpMaxUtf8BufferLength s n = U.chk (eucJpUtf8Nat s n) := by
  unfold eucJpMaxUtf8BufferLength eucJpUtf8Nat; rw [eucJpPlusOneIfLead_eq, mulO_chk _ _ (by decide)]
theorem eucJpUtf8NoRepl_eq (s n) :
    eucJpMaxUtf8BufferLengthWithoutReplacement s n = U.chk (eucJpUtf8NoReplNat s n) := by
  unfold eucJpMaxUtf8BufferLengthWithoutReplacement eucJpUtf8NoReplNat
  simp only [eucJpPlusOneIfLead_eq]; exact eucNoRepl_chk _

theorem gbUtf16_eq (s n) : gbMaxUtf16BufferLength s n = U.chk (gbUtf16Nat s n) := by
  unfold gbMaxUtf16BufferLength gbUtf16Nat; rw [gbExtraFromState_eq, addO_chk]
theorem gbUtf8_eq (s n) : gbMaxUtf8BufferLength s n = U.chk (gbUtf8Nat s n) := by
  unfold gbMaxUtf8BufferLength gbUtf8Nat; rw [gbExtraFromState_eq, mulO_chk _ _ (by decide), addO_chk]
theorem gbUtf8NoRepl_eq (s n) :
    gbMaxUtf8BufferLengthWithoutReplacement s n = U.chk (gbUtf8NoReplNat s n) := gbUtf8_eq s n

theorem isoUtf16_eq (s n) : iso2022JpMaxUtf16BufferLength s n = U.chk (isoUtf16Nat s n) := by
  unfold iso2022JpMaxUtf16BufferLength isoUtf16Nat; rw [isoExtraToInput_eq, addO_chk]
theorem isoUtf8_eq (s n) : iso2022JpMaxUtf8BufferLength s n = U.chk (isoUtf8Nat s n) := by
  unfold iso2022JpMaxUtf8BufferLength isoUtf8Nat
  rw [isoExtraToInput_eq, addO_chk, mulO_chk _ _ (by decide)]
theorem isoUtf8NoRepl_eq (s n) :
    iso2022JpMaxUtf8BufferLengthWithoutReplacement s n = U.chk (isoUtf8NoReplNat s n) := isoUtf8_eq s n

/-- `Some(byte_length)`: never `none`, never wraps -/
theorem singleByteUtf16_eq (s n) : singleByteMaxUtf16BufferLength s n = some (singleByteUtf16Nat s n) := rfl
theorem singleByteUtf8_eq (s n) : singleByteMaxUtf8BufferLength s n = U.chk (singleByteUtf8Nat s n) := rfl
theorem singleByteUtf8NoRepl_eq (s n) :
    singleByteMaxUtf8BufferLengthWithoutReplacement s n = U.chk (singleByteUtf8NoReplNat s n) := rfl

theorem userDefinedUtf16_eq (s n) : userDefinedMaxUtf16BufferLength s n = some (userDefinedUtf16Nat s n) := rfl
theorem userDefinedUtf8_eq (s n) : userDefinedMaxUtf8BufferLength s n = U.chk (userDefinedUtf8Nat s n) := rfl
theorem userDefinedUtf8NoRepl_eq (s n) :
    userDefinedMaxUtf8BufferLengthWithoutReplacement s n = U.chk (userDefinedUtf8NoReplNat s n) := rfl

theorem replacementUtf16_eq (s n) : replacementMaxUtf16BufferLength s n = some (replacementUtf16Nat s n) := rfl
theorem replacementUtf8_eq (s n) : replacementMaxUtf8BufferLength s n = some (replacementUtf8Nat s n) := rfl
theorem replacementUtf8NoRepl_eq (s n) :
    replacementMaxUtf8BufferLengthWithoutReplacement s n = some (replacementUtf8NoReplNat s n) := rfl

theorem utf8Utf16_eq (s n) : utf8MaxUtf16BufferLength s n = U.chk (utf8Utf16Nat s n) := rfl
theorem utf8Utf8_eq (s n) : utf8MaxUtf8BufferLength s n = U.chk (utf8Utf8Nat s n) := by
  unfold utf8MaxUtf8BufferLength utf8Utf8Nat; rw [addU_eq, mulO_chk _ _ (by decide), addO_chk]
theorem utf8Utf8NoRepl_eq (s n) :
    utf8MaxUtf8BufferLengthWithoutReplacement s n = U.chk (utf8Utf8NoReplNat s n) := rfl

/-- UTF-16 decoder: `none` exactly when the *sum under the division* overflows (the final value
`1 + sum / 2` then still might fit: the Rust answers `None` all the same) -/
theorem utf16Utf16_eq (s n) :
    utf16MaxUtf16BufferLength s n =
      if utf16SumNat s n ≤ usizeMax then some (utf16Utf16Nat s n) else none := by
  unfold utf16MaxUtf16BufferLength utf16Utf16Nat
  rw [addU_eq, divO_chk _ _ (by decide)]
  show U.addO 1 (if utf16SumNat s n ≤ usizeMax then _ else _) = _
  by_cases h : utf16SumNat s n ≤ usizeMax
  · simp only [h, if_true]
    have h2 : 1 + (n + utf16AdditionalFromState s) / 2 ≤ usizeMax := by
      have : usizeMax = 18446744073709551615 := rfl
      unfold utf16SumNat at h
      omega
    rw [addO_some, chk_of_le h2]; rfl
  · simp only [h, if_false]; rfl

theorem utf16Utf8_eq (s n) :
    utf16MaxUtf8BufferLength s n =
      if utf16SumNat s n ≤ usizeMax then U.chk (utf16Utf8Nat s n) else none := by
  unfold utf16MaxUtf8BufferLength utf16Utf8Nat
  rw [addU_eq, divO_chk _ _ (by decide)]
  show U.addO 1 (U.mulO 3 (if utf16SumNat s n ≤ usizeMax then _ else _)) = _
  by_cases h : utf16SumNat s n ≤ usizeMax
  · simp only [h, if_true]; rw [mulO_some, addO_chk]; rfl
  · simp only [h, if_false]; rfl

theorem utf16Utf8NoRepl_eq (s n) :
    utf16MaxUtf8BufferLengthWithoutReplacement s n =
      if utf16SumNat s n ≤ usizeMax then U.chk (utf16Utf8NoReplNat s n) else none :=
  utf16Utf8_eq s n

/-- the three UTF-16 decoder formulas in the `some → exact` / `none ↔ overflow` form -/
theorem utf16Utf16_some {s n Q} (h : utf16MaxUtf16BufferLength s n = some Q) :
    Q = utf16Utf16Nat s n ∧ Q ≤ usizeMax ∧ utf16SumNat s n ≤ usizeMax := by
  rw [utf16Utf16_eq] at h
  split at h
  · simp only [Option.some.injEq] at h
    have : usizeMax = 18446744073709551615 := rfl
    unfold utf16Utf16Nat at h ⊢
    omega
  · cases h

theorem utf16Utf16_none {s n} : utf16MaxUtf16BufferLength s n = none ↔ usizeMax < utf16SumNat s n := by
  rw [utf16Utf16_eq]
  split
  · simp only [reduceCtorEq, false_iff]; omega
  · simp only [true_iff]; omega

theorem utf16Utf8_some {s n Q} (h : utf16MaxUtf8BufferLength s n = some Q) :
    Q = utf16Utf8Nat s n ∧ Q ≤ usizeMax ∧ utf16SumNat s n ≤ usizeMax := by
  rw [utf16Utf8_eq] at h
  split at h
  · have := chk_eq_some.mp h
    omega
  · cases h

theorem utf16Utf8_none {s n} :
    utf16MaxUtf8BufferLength s n = none ↔ usizeMax < utf16SumNat s n ∨ usizeMax < utf16Utf8Nat s n := by
  rw [utf16Utf8_eq]
  split
  · rw [chk_eq_none]; omega
  · simp only [true_iff]; omega

/-- no formula ever returns a wrapped number: whatever it returns is at most `usize::MAX`
(one statement for all 33 decoder formulas is `variantMax_le_usizeMax` in `MaxLenVariant`) -/
theorem chk_le {a Q : Nat} (h : U.chk a = some Q) : Q ≤ usizeMax := by
  have := chk_eq_some.mp h; omega

end EncodingRs.Lemmas.MaxLenArith
