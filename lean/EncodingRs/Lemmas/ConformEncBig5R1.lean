import EncodingRs.Lemmas.ConformEncBig5Def
/-! C03, Big5: complete evaluation of `big5Check` over the code points 0x3400 ≤ c < 0x6800 (`native_decide`). -/
namespace EncodingRs.Lemmas.ConformEnc

theorem big5_check_r1 : allFrom big5Check 0x3400 0x3400 = true := by native_decide

end EncodingRs.Lemmas.ConformEnc
